(* C02: `make` of the model (Model/Board.v) computes exactly the successor position `Rules.apply` of the rules
   (Spec/Rules.v) on the abstraction `abs` (Proofs/Abs.v), for every move the generator can emit, and the position
   invariants are preserved along legal moves.

   Structure
   1. piece boards of one side under clr_occ / or_occ, and "the twelve bitboards agree with a cell function" (agr)
   2. the spec side: Rules.put on the 64-cell list is a pointwise update (upd)
   3. `mfacts`: what the C02 proof needs to know about one generated move, in mailbox terms
   4. core: mfacts -> abs (make b m) = apply (abs b) (uci_of m), and the invariants of the successor
   5. every generator case (Proofs/GenShape.v, gen_case) satisfies mfacts (geometry of the tables: C04; "a valid
      position has no pseudo-legal king capture" is reused from Proofs/Preserve.v: no_king_capture_piece / _pawn)
   6. the theorems C02_step, C02_make_exact, C02_make_inv, C02_invariant_preserved, C02_make_total, C02_fen_observed,
      C02_game
   7. the tables of the current /repo; witnesses that ep_ok and is_valid are necessary; D19 (clock overflow at u32::MAX)
   8. pos_inv = legal_pos of the rules on well-formed boards (legal_pos_iff, C02_legal_pos_preserved)
   9. the hypothesis Hpres of Proofs/UciMovesProofs.v: false as stated (C02_Hpres_as_stated_is_false), C02_Hpres_fixed

   Side conditions of the main theorems and why each is there
   * tables_attacks_ok T  (C04; Gen: SweepAll.tables_ok)   attack sets are the geometric ones: targets are squares of
                          the board, a king step changes the file by at most 1 (so it is not "castling" for the rules),
                          a pawn capture changes the file (e.p. recognition), and a pseudo-legal capture of the king means
                          the side not to move is in check.
   * tables_castle_ok T   (C03; Gen: gen_tables_castle_ok)  the castling EMPTY masks cover the landing squares.
   * tables_ranks_ok T    (here; Gen: gen_tables_ranks_ok)  RANK_1, RANK_2, RANK_7, RANK_8 are the real rank masks.
   * wf b, rights_wf b    as in C03.
   * ep_ok b              the e.p. square is "none" (0) or consistent in the sense of Rules.ep_consistent.  NEEDED: with
                          a bogus e.p. square the model's e.p. capture removes nothing (or a pawn that is not there) while
                          the rules remove whatever stands behind the target, and the model leaves a piece standing ON
                          the e.p. square in place (C02_needs_ep_ok).
   * is_valid T b         the side not to move is not in check.  NEEDED: a pseudo-legal move that captures the king on its
                          home square keeps the castling right in the model (only the corner squares are looked at) but
                          the rules' `touches` formulation clears it; and the successor has no king (C02_needs_valid). *)
Require Import Ink.Lib.Str.
Require Import NArith ZArith List Bool Lia Arith.
Require Import ZifyBool.
Import ListNotations.
Require Import Ink.Lib.Bits Ink.Model.Tables Ink.Model.Board Ink.Model.Fen.
Require Import Ink.Spec.Attacks Ink.Spec.Rules Ink.Spec.FenSpec.
Require Import Ink.Proofs.Abs Ink.Proofs.AbsProofs Ink.Proofs.BitFacts Ink.Proofs.GenShape Ink.Proofs.MakeUnmake.
Require Import Ink.Proofs.AttackProofs Ink.Proofs.CheckProofs Ink.Proofs.FenProofs Ink.Proofs.LayoutProofs Ink.Proofs.Preserve.
Open Scope N_scope.

Arguments N.add : simpl never.
Arguments N.sub : simpl never.
Arguments N.mul : simpl never.
Arguments N.div : simpl never.
Arguments N.modulo : simpl never.
Arguments N.eqb : simpl never.
Arguments N.ltb : simpl never.
Arguments N.leb : simpl never.
Arguments N.pow : simpl never.
Arguments N.shiftl : simpl never.
Arguments N.shiftr : simpl never.
Arguments N.land : simpl never.
Arguments N.lor : simpl never.
Arguments N.ldiff : simpl never.
Arguments N.testbit : simpl never.
Arguments Z.add : simpl never.
Arguments Z.sub : simpl never.
Arguments Z.mul : simpl never.
Arguments Z.div : simpl never.
Arguments Z.modulo : simpl never.
Arguments Z.eqb : simpl never.
Arguments Z.abs : simpl never.
Arguments Z.of_N : simpl never.

(* ================================================================== *)
(* 1. piece boards of one side; agreement with a cell function         *)
(* ================================================================== *)

Definition kindN (k : kind) : N :=
  match k with Pawn => PAWN | Knight => KNIGHT | Bishop => BISHOP | Rook => ROOK | Queen => QUEEN | King => KING end.

Lemma kind_of_kindN k : kind_of (kindN k) = Some k.
Proof. now destruct k. Qed.
Lemma kind_of_some n k : kind_of n = Some k -> n = kindN k.
Proof. case_piece n; cbn; intros [= <-]; reflexivity. Qed.
Lemma occ_of_kindN p k : occ_of p (kindN k) = pbb p k.
Proof. now destruct k. Qed.
Lemma pbb_set_occ_same p k v : pbb (set_occ p (kindN k) v) k = v.
Proof. now destruct k. Qed.
Lemma pbb_set_occ_other p k0 k v : k0 <> k -> pbb (set_occ p (kindN k0) v) k = pbb p k.
Proof. destruct k0, k; intros H; try reflexivity; congruence. Qed.
Lemma pbb_set_rights p q r k : pbb (set_rights p q r) k = pbb p k.
Proof. now destruct k. Qed.
Lemma bool_cases (x : bool) : x = true \/ x = false.
Proof. destruct x; auto. Qed.
Lemma kind_eq_dec (k k' : kind) : {k = k'} + {k <> k'}.
Proof. decide equality. Qed.
Lemma color_cases (c c' : color) : c' = c \/ c' = opp c.
Proof. destruct c, c'; cbn; auto. Qed.
Lemma color_eqb_sym a b : color_eqb a b = color_eqb b a.
Proof. now destruct a, b. Qed.
Lemma color_eqb_opp_l c : color_eqb (opp c) c = false.
Proof. now destruct c. Qed.

Definition sel (c c' : color) (a p : pstate) : pstate := if color_eqb c c' then a else p.

(* the twelve boards (a = boards of colour c, p = boards of the other colour) say exactly what f says *)
Definition agr (c : color) (a p : pstate) (f : N -> option piece) : Prop :=
  forall sq c' k, N.testbit (pbb (sel c c' a p) k) sq = true <-> f sq = Some (c', k).

Lemma agr_act c a p f sq k : agr c a p f -> (N.testbit (pbb a k) sq = true <-> f sq = Some (c, k)).
Proof. intros H. specialize (H sq c k). unfold sel in H. now rewrite color_eqb_refl in H. Qed.
Lemma agr_pas c a p f sq k : agr c a p f -> (N.testbit (pbb p k) sq = true <-> f sq = Some (opp c, k)).
Proof. intros H. specialize (H sq (opp c) k). unfold sel in H. now rewrite color_eqb_opp in H. Qed.

Lemma agr_intro c a p f :
  (forall sq k, N.testbit (pbb a k) sq = true <-> f sq = Some (c, k)) ->
  (forall sq k, N.testbit (pbb p k) sq = true <-> f sq = Some (opp c, k)) -> agr c a p f.
Proof.
  intros Ha Hp sq c' k. unfold sel. destruct (color_cases c c') as [-> | ->].
  - rewrite color_eqb_refl. apply Ha.
  - rewrite color_eqb_opp. apply Hp.
Qed.

Lemma agr_swap c a p f : agr c a p f -> agr (opp c) p a f.
Proof.
  intros H. apply agr_intro; intros sq k.
  - now apply agr_pas with (a := a).
  - rewrite opp_opp. now apply agr_act with (p := p).
Qed.

Lemma agr_ext c a p f g : (forall sq, f sq = g sq) -> agr c a p f -> agr c a p g.
Proof. intros E H sq c' k. rewrite <- E. apply H. Qed.

Lemma agr_rights c a p f q r q' r' : agr c a p f -> agr c (set_rights a q r) (set_rights p q' r') f.
Proof.
  intros H. apply agr_intro; intros sq k; rewrite pbb_set_rights; [now apply agr_act with (p := p)|now apply agr_pas with (a := a)].
Qed.

Definition upd (f : N -> option piece) (s : N) (v : option piece) : N -> option piece :=
  fun x => if x =? s then v else f x.

Lemma upd_same f s v : upd f s v s = v.
Proof. unfold upd. now rewrite N.eqb_refl. Qed.
Lemma upd_other f s v x : x <> s -> upd f s v x = f x.
Proof. unfold upd. intros H. destruct (N.eqb_spec x s); [contradiction|reflexivity]. Qed.

Lemma upd_inv (P : N -> option piece -> Prop) g x v : (forall sq, P sq (g sq)) -> P x v -> forall sq, P sq (upd g x v sq).
Proof. intros H Hx sq. unfold upd. destruct (N.eqb_spec sq x) as [->|]; auto. Qed.

(* remove the mover's piece of kind k from s *)
Lemma agr_clr c a p f s k : agr c a p f -> f s = Some (c, k) ->
  agr c (clr_occ a (kindN k) (bit s)) p (upd f s None).
Proof.
  intros H Hs. apply agr_intro; intros sq k'.
  - unfold clr_occ, upd. rewrite occ_of_kindN. destruct (kind_eq_dec k k') as [<-|Hne].
    + rewrite pbb_set_occ_same, clear_testbit, bit_spec. destruct (N.eqb_spec sq s) as [->|Hn]; cbn [negb].
      * rewrite andb_false_r. split; discriminate.
      * rewrite andb_true_r. now apply agr_act with (p := p).
    + rewrite pbb_set_occ_other by assumption. destruct (N.eqb_spec sq s) as [->|Hn].
      * split; [|discriminate]. intros Hb. apply (agr_act c a p f s k' H) in Hb. rewrite Hs in Hb. congruence.
      * now apply agr_act with (p := p).
  - unfold upd. destruct (N.eqb_spec sq s) as [->|Hn]; [|now apply agr_pas with (a := a)].
    split; [|discriminate]. intros Hb. apply (agr_pas c a p f s k' H) in Hb. rewrite Hs in Hb.
    exfalso. destruct c; discriminate.
Qed.

(* put a piece of kind k of the mover on the empty square t *)
Lemma agr_or c a p f t k : agr c a p f -> f t = None ->
  agr c (or_occ a (kindN k) (bit t)) p (upd f t (Some (c, k))).
Proof.
  intros H Ht. apply agr_intro; intros sq k'.
  - unfold or_occ, upd. rewrite occ_of_kindN. destruct (kind_eq_dec k k') as [<-|Hne].
    + rewrite pbb_set_occ_same, N.lor_spec, bit_spec. destruct (N.eqb_spec sq t) as [->|Hn].
      * rewrite orb_true_r. split; reflexivity.
      * rewrite orb_false_r. now apply agr_act with (p := p).
    + rewrite pbb_set_occ_other by assumption. destruct (N.eqb_spec sq t) as [->|Hn].
      * split; [|congruence]. intros Hb. apply (agr_act c a p f t k' H) in Hb. congruence.
      * now apply agr_act with (p := p).
  - unfold upd. destruct (N.eqb_spec sq t) as [->|Hn]; [|now apply agr_pas with (a := a)].
    split.
    + intros Hb. apply (agr_pas c a p f t k' H) in Hb. congruence.
    + intros E. exfalso. destruct c; discriminate.
Qed.

Lemma agr_clr_pas c a p f t k : agr c a p f -> f t = Some (opp c, k) ->
  agr c a (clr_occ p (kindN k) (bit t)) (upd f t None).
Proof.
  intros H Ht. apply agr_swap in H. pose proof (agr_clr (opp c) p a f t k H Ht) as H'.
  apply agr_swap in H'. now rewrite opp_opp in H'.
Qed.

(* what get_piece_const_by_square finds *)
Lemma piece_at_unique p t k : N.testbit (pbb p k) t = true ->
  (forall k', k' <> k -> N.testbit (pbb p k') t = false) -> piece_at p t = kindN k.
Proof.
  intros H H'. rewrite piece_at_unfold.
  pose proof (H' Pawn) as HP. pose proof (H' Knight) as HN. pose proof (H' Bishop) as HB.
  pose proof (H' Rook) as HR. pose proof (H' Queen) as HQ. cbn [pbb] in *.
  destruct k; cbn [pbb] in H; rewrite ?HP, ?HN, ?HB, ?HR, ?HQ by discriminate; rewrite H; reflexivity.
Qed.

Lemma piece_at_none p t : (forall k, N.testbit (pbb p k) t = false) -> piece_at p t = NO_PIECE.
Proof.
  intros H. rewrite piece_at_unfold.
  pose proof (H Pawn) as HP. pose proof (H Knight) as HN. pose proof (H Bishop) as HB.
  pose proof (H Rook) as HR. pose proof (H Queen) as HQ. pose proof (H King) as HK. cbn [pbb] in *.
  now rewrite HP, HN, HB, HR, HQ, HK.
Qed.

Lemma agr_piece_at_pas_some c a p f t k : agr c a p f -> f t = Some (opp c, k) -> piece_at p t = kindN k.
Proof.
  intros H Ht. apply piece_at_unique.
  - now apply (agr_pas c a p f t k H).
  - intros k' Hne. destruct (N.testbit (pbb p k') t) eqn:E; [|reflexivity].
    apply (agr_pas c a p f t k' H) in E. congruence.
Qed.

Lemma agr_piece_at_pas_none c a p f t : agr c a p f -> (forall k, f t <> Some (opp c, k)) -> piece_at p t = NO_PIECE.
Proof.
  intros H Ht. apply piece_at_none. intros k. destruct (N.testbit (pbb p k) t) eqn:E; [|reflexivity].
  apply (agr_pas c a p f t k H) in E. now apply Ht in E.
Qed.

(* remove whatever passive piece stands on t (t does not hold a piece of the mover) *)
Lemma agr_clr_attacked c a p f t : agr c a p f -> (forall k, f t <> Some (c, k)) ->
  agr c a (clr_occ p (piece_at p t) (bit t)) (upd f t None).
Proof.
  intros H Ht. destruct (f t) as [[c' k]|] eqn:E.
  - destruct (color_cases c c') as [-> | ->]; [exfalso; now apply (Ht k)|].
    rewrite (agr_piece_at_pas_some c a p f t k H E). now apply agr_clr_pas.
  - rewrite (agr_piece_at_pas_none c a p f t H) by (intros k; rewrite E; discriminate).
    rewrite clr_occ_nopiece. apply (agr_ext c a p f); [|exact H].
    intros sq. unfold upd. destruct (N.eqb_spec sq t) as [->|]; [exact E|reflexivity].
Qed.

(* ---------- boards ---------- *)
Definition agrb (b : board) (f : N -> option piece) : Prop :=
  forall sq c k, N.testbit (bb_of b c k) sq = true <-> f sq = Some (c, k).

Lemma wf_agrb b : wf b = true -> agrb b (cell_of b).
Proof. intros Hwf sq c k. symmetry. now apply cell_of_iff. Qed.

Lemma sel_active_passive b c' : turn b < 2 -> sel (col_of (turn b)) c' (active b) (passive b) = pside b c'.
Proof.
  intros Ht. unfold sel, active, passive, is_white_turn, col_of, WHITE.
  destruct (N.eqb_spec (turn b) 0); destruct c'; reflexivity.
Qed.

Lemma wf_agr b : wf b = true -> agr (col_of (turn b)) (active b) (passive b) (cell_of b).
Proof.
  intros Hwf sq c' k. rewrite sel_active_passive by now apply wf_turn. exact (wf_agrb b Hwf sq c' k).
Qed.

Lemma pside_assemble c c' a p t e f h : pside (assemble (color_eqb c White) a p t e f h) c' = sel c c' a p.
Proof. unfold assemble, sel. destruct c, c'; reflexivity. Qed.

Lemma agr_agrb c a p f t e fl h : agr c a p f -> agrb (assemble (color_eqb c White) a p t e fl h) f.
Proof. intros H sq c' k. unfold bb_of. rewrite pside_assemble. apply H. Qed.

Lemma agrb_cell b f sq : agrb b f -> cell_of b sq = f sq.
Proof.
  intros H. destruct (cell_of b sq) as [[c k]|] eqn:E.
  - apply cell_of_some_bit in E. apply H in E. now symmetry.
  - destruct (f sq) as [[c k]|] eqn:Ef; [|reflexivity].
    apply H in Ef. rewrite (proj1 (cell_of_none b sq) E c k) in Ef. discriminate.
Qed.

(* ---------- well-formedness from agreement ---------- *)
Lemma disjoint_all_intro l : forall acc,
  (forall x, In x l -> N.land acc x = 0) ->
  (forall i j, (i < j < length l)%nat -> N.land (nth i l 0) (nth j l 0) = 0) -> disjoint_all acc l = true.
Proof.
  induction l as [|x r IH]; intros acc Hacc Hp; cbn [disjoint_all]; [reflexivity|].
  apply andb_true_iff. split.
  - apply N.eqb_eq. apply Hacc. now left.
  - apply IH.
    + intros y Hy. apply N.bits_inj_0. intro i. rewrite N.land_spec, N.lor_spec.
      destruct (N.testbit y i) eqn:Ey; [|apply andb_false_r]. rewrite andb_true_r.
      assert (A : N.testbit acc i = false).
      { apply (land_0_testbit acc y i); [apply Hacc; now right|exact Ey]. }
      destruct (In_nth r y 0 Hy) as (j & Hj & Ej).
      assert (B : N.testbit x i = false).
      { apply (land_0_testbit x y i); [|exact Ey]. rewrite <- Ej. apply (Hp 0%nat (S j)). cbn [length]. lia. }
      now rewrite A, B.
    + intros i j Hij. apply (Hp (S i) (S j)). cbn [length]. lia.
Qed.

Lemma bbs_nth_cases b i : (i < 12)%nat -> exists c k, i = bb_idx c k /\ nth i (bbs b) 0 = bb_of b c k.
Proof.
  intros H.
  do 12 (destruct i as [|i]; [first
    [ exists White, Pawn; split; reflexivity | exists White, Knight; split; reflexivity
    | exists White, Bishop; split; reflexivity | exists White, Rook; split; reflexivity
    | exists White, Queen; split; reflexivity | exists White, King; split; reflexivity
    | exists Black, Pawn; split; reflexivity | exists Black, Knight; split; reflexivity
    | exists Black, Bishop; split; reflexivity | exists Black, Rook; split; reflexivity
    | exists Black, Queen; split; reflexivity | exists Black, King; split; reflexivity ]|]).
  lia.
Qed.

Lemma agrb_bounded b f c k : agrb b f -> (forall sq, 64 <= sq -> f sq = None) -> bb_of b c k < 2 ^ 64.
Proof.
  intros H Hf. apply lt_pow2_bits. intros i Hi. destruct (N.testbit (bb_of b c k) i) eqn:E; [|reflexivity].
  apply H in E. rewrite (Hf i Hi) in E. discriminate.
Qed.

Lemma agrb_disjoint_all b f : agrb b f -> disjoint_all 0 (bbs b) = true.
Proof.
  intros H. apply disjoint_all_intro.
  - intros x _. apply N.land_0_l.
  - intros i j Hij. change (length (bbs b)) with 12%nat in Hij.
    destruct (bbs_nth_cases b i) as (c & k & Ei & ->); [lia|].
    destruct (bbs_nth_cases b j) as (c' & k' & Ej & ->); [lia|].
    apply N.bits_inj_0. intro sq. rewrite N.land_spec.
    destruct (N.testbit (bb_of b c k) sq) eqn:E1; [|reflexivity].
    destruct (N.testbit (bb_of b c' k') sq) eqn:E2; [|reflexivity].
    apply H in E1. apply H in E2. rewrite E1 in E2. injection E2 as -> ->. lia.
Qed.

Lemma In_bbs b x : In x (bbs b) -> exists c k, x = bb_of b c k.
Proof.
  intros Hx. destruct (In_nth _ _ 0 Hx) as (i & Hi & <-). change (length (bbs b)) with 12%nat in Hi.
  destruct (bbs_nth_cases b i Hi) as (c & k & _ & E). now exists c, k.
Qed.

Lemma popcount_bit k : popcount (bit k) = 1.
Proof.
  rewrite popcount_length.
  assert (H : forall j, In j (bits_of (bit k)) <-> j = k).
  { intros j. rewrite bits_of_spec, bit_spec. apply N.eqb_eq. }
  pose proof (NoDup_bits_of (bit k)) as ND.
  destruct (bits_of (bit k)) as [|x [|y r]].
  - exfalso. now apply (proj2 (H k)).
  - reflexivity.
  - exfalso. assert (x = k) by (apply H; now left). assert (y = k) by (apply H; right; now left).
    subst. inversion ND as [|? ? Hn _]. apply Hn. now left.
Qed.

(* the position of the king of colour c' according to a cell function *)
Definition kingpos (f : N -> option piece) (c' : color) (x : N) : Prop := forall sq, f sq = Some (c', King) <-> sq = x.

Lemma agrb_king_count b f c' x : agrb b f -> kingpos f c' x -> popcount (kings (pside b c')) = 1.
Proof.
  intros H Hk. assert (E : kings (pside b c') = bit x).
  { apply N.bits_inj. intro sq. rewrite bit_spec. change (kings (pside b c')) with (bb_of b c' King).
    apply eq_iff_eq_true. rewrite (H sq c' King), N.eqb_eq. apply Hk. }
  rewrite E. apply popcount_bit.
Qed.

Lemma wf_kingpos b c' : wf b = true -> kingpos (cell_of b) c' (king_of b c').
Proof.
  intros Hwf sq. rewrite (cell_of_iff b sq c' King Hwf). unfold bb_of. cbn [pbb]. rewrite king_bit by assumption.
  apply N.eqb_eq.
Qed.

Lemma kingpos_upd_other f c' x y v : kingpos f c' x -> y <> x -> v <> Some (c', King) -> kingpos (upd f y v) c' x.
Proof.
  intros H Hy Hv sq. unfold upd. destruct (N.eqb_spec sq y) as [->|Hn]; [|apply H].
  split; [intros E; now apply Hv in E|intros E; now apply Hy in E].
Qed.

Lemma kingpos_upd_move f c' x y : kingpos f c' x -> kingpos (upd (upd f x None) y (Some (c', King))) c' y.
Proof.
  intros H sq. unfold upd. destruct (N.eqb_spec sq y) as [->|Hn]; [split; reflexivity|].
  destruct (N.eqb_spec sq x) as [->|Hn']; [split; [discriminate|intros E; now apply Hn in E]|].
  split; [intros E; apply H in E; now apply Hn' in E|intros E; now apply Hn in E].
Qed.

Lemma RANKS_18_spec sq : N.testbit RANKS_18 sq = true <-> sq < 8 \/ 56 <= sq < 64.
Proof.
  change RANKS_18 with (N.lor (N.ones 8) (N.shiftl (N.ones 8) 56)). rewrite N.lor_spec, orb_true_iff. split.
  - intros [H|H].
    + left. destruct (N.lt_ge_cases sq 8) as [A|A]; [exact A|]. rewrite N.ones_spec_high in H by exact A. discriminate.
    + right. destruct (N.lt_ge_cases sq 56) as [A|A]; [rewrite N.shiftl_spec_low in H by exact A; discriminate|].
      rewrite N.shiftl_spec_high in H by lia.
      destruct (N.lt_ge_cases (sq - 56) 8) as [B|B]; [lia|]. rewrite N.ones_spec_high in H by exact B. discriminate.
  - intros [H|H].
    + left. now apply N.ones_spec_low.
    + right. rewrite N.shiftl_spec_high by lia. apply N.ones_spec_low. lia.
Qed.

Lemma wf_pawn_rows b sq c' : wf b = true -> cell_of b sq = Some (c', Pawn) -> 8 <= sq < 56.
Proof.
  intros Hwf H. apply (cell_of_iff b sq c' Pawn Hwf) in H.
  pose proof (wf_bb_lt64 b c' Pawn sq Hwf H) as Hlt.
  destruct (wf_unpack b Hwf) as (_ & _ & _ & _ & _ & _ & Hp).
  assert (Hu : N.testbit (N.lor (pawns (white b)) (pawns (black b))) sq = true).
  { rewrite N.lor_spec. unfold bb_of in H. destruct c'; cbn [pside pbb] in H; rewrite H; [reflexivity|apply orb_true_r]. }
  assert (Hr : N.testbit RANKS_18 sq = false).
  { destruct (N.testbit RANKS_18 sq) eqn:E; [|reflexivity]. rewrite (land_0_testbit _ _ sq Hp E) in Hu. discriminate. }
  destruct (N.lt_ge_cases sq 8) as [A|A].
  { rewrite (proj2 (RANKS_18_spec sq)) in Hr by (now left). discriminate. }
  destruct (N.lt_ge_cases sq 56) as [B|B]; [lia|].
  rewrite (proj2 (RANKS_18_spec sq)) in Hr by (right; lia). discriminate.
Qed.

Lemma wf_cell_ge64 b sq : wf b = true -> 64 <= sq -> cell_of b sq = None.
Proof.
  intros Hwf H. destruct (cell_of b sq) as [pc|] eqn:E; [|reflexivity].
  pose proof (cell_of_lt64 b sq pc Hwf E). lia.
Qed.

(* a board whose bitboards agree with f is well-formed as soon as f is *)
Lemma agrb_wf b f kw kb : agrb b f -> (forall sq, 64 <= sq -> f sq = None) ->
  kingpos f White kw -> kingpos f Black kb -> turn b < 2 -> ep b < 64 ->
  (forall sq c', f sq = Some (c', Pawn) -> 8 <= sq < 56) -> wf b = true.
Proof.
  intros H Hf Hkw Hkb Ht He Hp. unfold wf. rewrite !andb_true_iff. repeat split.
  - apply forallb_forall. intros x Hx. apply In_bbs in Hx as (c & k & ->). apply N.ltb_lt. rewrite two64.
    now apply (agrb_bounded b f).
  - now apply (agrb_disjoint_all b f).
  - apply N.eqb_eq. exact (agrb_king_count b f White kw H Hkw).
  - apply N.eqb_eq. exact (agrb_king_count b f Black kb H Hkb).
  - now apply N.ltb_lt.
  - now apply N.ltb_lt.
  - apply N.eqb_eq. apply N.bits_inj_0. intro sq. rewrite N.land_spec, N.lor_spec.
    destruct (N.testbit RANKS_18 sq) eqn:E; [|apply andb_false_r]. rewrite andb_true_r.
    apply RANKS_18_spec in E. apply orb_false_iff. split.
    + destruct (N.testbit (pawns (white b)) sq) eqn:Eb; [|reflexivity].
      apply (H sq White Pawn) in Eb. apply Hp in Eb. lia.
    + destruct (N.testbit (pawns (black b)) sq) eqn:Eb; [|reflexivity].
      apply (H sq Black Pawn) in Eb. apply Hp in Eb. lia.
Qed.

(* ================================================================== *)
(* 2. the spec side: the 64-cell list of a cell function               *)
(* ================================================================== *)

Definition lst (f : N -> option piece) : list (option piece) := map (fun i => f (N.of_nat i)) (seq 0 64).

Lemma abs_cells b : cells (abs b) = lst (cell_of b).
Proof. reflexivity. Qed.

Lemma set_nth_map_seq (g : nat -> option piece) n : forall a j v, (j < n)%nat ->
  set_nth (map g (seq a n)) j v = map (fun i => if (i =? a + j)%nat then v else g i) (seq a n).
Proof.
  induction n as [|n IH]; intros a j v Hj; [lia|]. cbn [seq map]. destruct j as [|j]; cbn [set_nth].
  - rewrite Nat.add_0_r, Nat.eqb_refl. f_equal. apply map_ext_in. intros i Hi. apply in_seq in Hi.
    destruct (Nat.eqb_spec i a); [lia|reflexivity].
  - destruct (Nat.eqb_spec a (a + S j)); [lia|]. f_equal. rewrite IH by lia. apply map_ext. intros i.
    replace (S a + j)%nat with (a + S j)%nat by lia. reflexivity.
Qed.

Lemma put_lst f s v : s < 64 -> put (lst f) (Z.of_N s) v = lst (upd f s v).
Proof.
  intros Hs. unfold put, lst. rewrite set_nth_map_seq by lia. apply map_ext_in. intros i Hi. apply in_seq in Hi.
  unfold upd. destruct (Nat.eqb_spec i (0 + Z.to_nat (Z.of_N s))) as [E|E], (N.eqb_spec (N.of_nat i) s) as [E'|E'];
    try reflexivity; lia.
Qed.

Lemma lst_ext f g : (forall sq, sq < 64 -> f sq = g sq) -> lst f = lst g.
Proof. intros H. unfold lst. apply map_ext_in. intros i Hi. apply in_seq in Hi. apply H. lia. Qed.

Definition placed_of (c : color) (k : kind) (pr : N) : piece :=
  match kind_of pr with Some kp => (c, kp) | None => (c, k) end.
Definition victim (c : color) (t : N) : N := match c with White => t + 8 | Black => t - 8 end.

(* the cells after a move, as the rules compute them (same order of updates as Rules.apply) *)
Definition newcells (c : color) (f : N -> option piece) (s t : N) (pl : piece) (ie ic : bool) : N -> option piece :=
  let f1 := upd (upd f s None) t (Some pl) in
  let f2 := if ie then upd f1 (victim c t) None else f1 in
  if ic then match castle_squares t with
             | Some (rf, rt) => upd (upd f2 rf None) rt (Some (c, Rook))
             | None => f2 end
  else f2.

Definition the_mv (s t pr : N) : mv := {| from := Z.of_N s; to := Z.of_N t; prom := kind_of pr |}.

Lemma is_white_turn_col b : is_white_turn b = color_eqb (col_of (turn b)) White.
Proof. unfold is_white_turn, col_of, WHITE. now destruct (turn b =? 0). Qed.

(* ================================================================== *)
(* 3. what has to be known about a generated move                      *)
(* ================================================================== *)
Section Core.
Variable T : Tables.t.
Variable b : board.
Hypothesis Hwf : wf b = true.
Hypothesis Hrw : rights_wf b = true.

Let c : color := col_of (turn b).
Let f : N -> option piece := cell_of b.

Definition castle_shape (s t : N) : Prop :=
  (c = White /\ s = 60 /\ t = 62 /\ f 63 = Some (c, Rook) /\ f 61 = None /\ f 62 = None) \/
  (c = White /\ s = 60 /\ t = 58 /\ f 56 = Some (c, Rook) /\ f 59 = None /\ f 58 = None) \/
  (c = Black /\ s = 4 /\ t = 6 /\ f 7 = Some (c, Rook) /\ f 5 = None /\ f 6 = None) \/
  (c = Black /\ s = 4 /\ t = 2 /\ f 0 = Some (c, Rook) /\ f 3 = None /\ f 2 = None).

Definition ep_shape (s t : N) : Prop :=
  f t = None /\ f (victim c t) = Some (opp c, Pawn) /\ 8 <= t < 56 /\
  Z.of_N (victim c t) = sq_of (fileZ (Z.of_N t)) (rowZ (Z.of_N s)).

Record mfacts (s t : N) (k : kind) (ic ie : bool) (pr epo : N) : Prop := {
  mf_s : s < 64;
  mf_t : t < 64;
  mf_src : f s = Some (c, k);
  mf_notown : forall k', f t <> Some (c, k');
  mf_noking : f t <> Some (opp c, King);
  mf_ic : is_castling (abs b) (the_mv s t pr) = ic;
  mf_ie : is_ep_capture (abs b) (the_mv s t pr) = ie;
  mf_castle : ic = true -> ie = false /\ pr = NO_PIECE /\ k = King /\ castle_shape s t;
  mf_ep : ie = true -> pr = NO_PIECE /\ k = Pawn /\ ep_shape s t;
  mf_pr : pr = NO_PIECE \/ (k = Pawn /\ In pr PROMO_PIECES);
  mf_epo : epo < 64 /\
           (if epo =? 0 then None else Some (Z.of_N epo)) =
           (if is_pawn_move (abs b) (the_mv s t pr) && (Z.abs (rowZ (Z.of_N t) - rowZ (Z.of_N s)) =? 2)%Z
            then Some (sq_of (fileZ (Z.of_N s)) ((rowZ (Z.of_N s) + rowZ (Z.of_N t)) / 2)%Z) else None)
}.

Lemma agr0 : agr c (active b) (passive b) f.
Proof. exact (wf_agr b Hwf). Qed.

Lemma turn01 : turn b = 0 \/ turn b = 1.
Proof. pose proof (wf_turn b Hwf). lia. Qed.

Lemma f_ge64 sq : 64 <= sq -> f sq = None.
Proof. now apply wf_cell_ge64. Qed.

Lemma f_lt64 sq pc : f sq = Some pc -> sq < 64.
Proof. now apply cell_of_lt64. Qed.

(* ---------- the spec side ---------- *)
Lemma get_abs_f sq : sq < 64 -> get (abs b) (Z.of_N sq) = f sq.
Proof. apply get_abs. Qed.

Lemma to_move_c : to_move (abs b) = c.
Proof. reflexivity. Qed.

Lemma promo_kind pr : In pr PROMO_PIECES -> exists kp, kind_of pr = Some kp /\ pr = kindN kp /\ kp <> King /\ kp <> Pawn.
Proof.
  intros [<-|[<-|[<-|[<-|[]]]]]; [exists Queen|exists Rook|exists Bishop|exists Knight]; repeat split; discriminate.
Qed.

Lemma spec_cells s t k ic ie pr epo : mfacts s t k ic ie pr epo ->
  exists rest, apply (abs b) (the_mv s t pr) = rest /\
  cells rest = lst (newcells c f s t (placed_of c k pr) ie ic) /\
  to_move rest = opp c /\
  (let touches x := ((Z.of_N s =? x)%Z || (Z.of_N t =? x)%Z)%bool in
   wk rest = (ks (white b) && negb (touches 60%Z) && negb (touches 63%Z))%bool /\
   wq rest = (qs (white b) && negb (touches 60%Z) && negb (touches 56%Z))%bool /\
   bk rest = (ks (black b) && negb (touches 4%Z) && negb (touches 7%Z))%bool /\
   bq rest = (qs (black b) && negb (touches 4%Z) && negb (touches 0%Z))%bool) /\
  epsq rest = (if epo =? 0 then None else Some (Z.of_N epo)) /\
  halfc rest = (if is_pawn_move (abs b) (the_mv s t pr) || is_capture (abs b) (the_mv s t pr) then 0 else half b + 1) /\
  fullc rest = (match c with Black => full b + 1 | White => full b end).
Proof.
  intros M. destruct M as [Hs Ht Hsrc Hno Hnk Hic Hie Hca Hep Hpr [Hepo1 Hepo2]].
  eexists. split; [reflexivity|]. unfold apply.
  change (from (the_mv s t pr)) with (Z.of_N s). change (to (the_mv s t pr)) with (Z.of_N t).
  change (prom (the_mv s t pr)) with (kind_of pr).
  rewrite (get_abs_f s Hs), Hsrc, Hic, Hie, to_move_c.
  cbn [cells to_move wk wq bk bq epsq halfc fullc].
  split; [|split; [reflexivity|split; [repeat split; reflexivity|split; [symmetry; exact Hepo2|split; reflexivity]]]].
  rewrite abs_cells. fold f. rewrite (put_lst f s None Hs).
  match goal with |- context [put _ (Z.of_N t) ?x] =>
    assert (Epl : x = Some (placed_of c k pr)) by (unfold placed_of; now destruct (kind_of pr)); rewrite Epl end.
  rewrite (put_lst _ t _ Ht). unfold newcells. cbv zeta.
  destruct ie.
  - destruct (Hep eq_refl) as (_ & _ & (_ & Hv & Htr & Hvz)).
    assert (Hv64 : victim c t < 64) by (eapply f_lt64; exact Hv).
    rewrite <- Hvz, (put_lst _ _ _ Hv64).
    destruct ic; [destruct (Hca eq_refl) as (X & _); discriminate|]. reflexivity.
  - destruct ic; [|reflexivity].
    destruct (Hca eq_refl) as (_ & _ & _ & [S1|[S1|[S1|S1]]]); destruct S1 as (_ & -> & -> & _).
    + change (fileZ (Z.of_N 62) =? 6)%Z with true. cbv iota.
      change (sq_of 7 (rowZ (Z.of_N 60))) with (Z.of_N 63). change (sq_of 5 (rowZ (Z.of_N 60))) with (Z.of_N 61).
      rewrite !put_lst by reflexivity. reflexivity.
    + change (fileZ (Z.of_N 58) =? 6)%Z with false. cbv iota.
      change (sq_of 0 (rowZ (Z.of_N 60))) with (Z.of_N 56). change (sq_of 3 (rowZ (Z.of_N 60))) with (Z.of_N 59).
      rewrite !put_lst by reflexivity. reflexivity.
    + change (fileZ (Z.of_N 6) =? 6)%Z with true. cbv iota.
      change (sq_of 7 (rowZ (Z.of_N 4))) with (Z.of_N 7). change (sq_of 5 (rowZ (Z.of_N 4))) with (Z.of_N 5).
      rewrite !put_lst by reflexivity. reflexivity.
    + change (fileZ (Z.of_N 2) =? 6)%Z with false. cbv iota.
      change (sq_of 0 (rowZ (Z.of_N 4))) with (Z.of_N 0). change (sq_of 3 (rowZ (Z.of_N 4))) with (Z.of_N 3).
      rewrite !put_lst by reflexivity. reflexivity.
Qed.


(* ---------- the model side ---------- *)
Lemma mk_castle s t pc ic ie pr epo : castle (mk T b s t pc ic ie pr epo) = ic.
Proof. reflexivity. Qed.
Lemma mk_ep s t pc ic ie pr epo : ep_attack (mk T b s t pc ic ie pr epo) = ie.
Proof. reflexivity. Qed.
Lemma mk_promo s t pc ic ie pr epo : promo (mk T b s t pc ic ie pr epo) = pr.
Proof. reflexivity. Qed.
Lemma mk_src s t pc ic ie pr epo : src (mk T b s t pc ic ie pr epo) = s.
Proof. reflexivity. Qed.
Lemma mk_dst s t pc ic ie pr epo : dst (mk T b s t pc ic ie pr epo) = t.
Proof. reflexivity. Qed.
Lemma mk_moved s t pc ic ie pr epo : piece_moved (mk T b s t pc ic ie pr epo) = pc.
Proof. reflexivity. Qed.
Lemma mk_next_ep s t pc ic ie pr epo : next_ep (mk T b s t pc ic ie pr epo) = epo.
Proof. reflexivity. Qed.

Ltac upd_cases :=
  unfold upd;
  repeat match goal with |- context [N.eqb ?a ?x] => destruct (N.eqb_spec a x) end;
  first [reflexivity | exfalso; lia | congruence].

Lemma victim_mask t : 8 <= t < 56 ->
  (if is_white_turn b then w64 (N.shiftl (bit t) 8) else N.shiftr (bit t) 8) = bit (victim c t).
Proof.
  intros Ht. unfold c, victim, col_of, is_white_turn, WHITE. destruct (turn b =? 0).
  - rewrite bit_shiftl8. destruct (N.ltb_spec (t + 8) 64); [reflexivity|lia].
  - rewrite bit_shiftr8. destruct (N.leb_spec 8 t); [reflexivity|lia].
Qed.

Lemma model_sides s t k ic ie pr epo : mfacts s t k ic ie pr epo ->
  let m := mk T b s t (kindN k) ic ie pr epo in
  exists a' p', sides_make (is_white_turn b) (active b) (passive b) m = Some (a', p') /\
    agr c a' p' (newcells c f s t (placed_of c k pr) ie ic) /\
    qs a' = (if self_lost_qs m then false else qs (active b)) /\
    ks a' = (if self_lost_ks m then false else ks (active b)) /\
    qs p' = (if opp_lost_qs m then false else qs (passive b)) /\
    ks p' = (if opp_lost_ks m then false else ks (passive b)).
Proof.
  intros M m. pose proof agr0 as A0. destruct M as [Hs Ht Hsrc Hno Hnk Hic Hie Hca Hep Hpr _].
  assert (Hst : s <> t) by (intros ->; now apply (Hno k)).
  unfold sides_make. cbv zeta. subst m. rewrite mk_castle, mk_ep, mk_promo, mk_src, mk_dst, mk_moved.
  destruct ic.
  - (* castling *)
    destruct (Hca eq_refl) as (-> & -> & -> & Sh).
    destruct Sh as [S1|[S1|[S1|S1]]]; destruct S1 as (Ec & -> & -> & Hrf & Hrt & Hkt).
    + change (castle_squares 62) with (Some (63, 61)). cbv iota beta. unfold do_castle. push_rights.
      eexists. eexists. split; [reflexivity|]. split; [|repeat split; reflexivity]. apply agr_rights.
      pose proof (agr_clr c _ _ f 63 Rook A0 Hrf) as A1.
      assert (E1 : upd f 63 None 60 = Some (c, King)) by (rewrite upd_other by lia; exact Hsrc).
      pose proof (agr_clr c _ _ _ 60 King A1 E1) as A2.
      assert (E2 : upd (upd f 63 None) 60 None 61 = None) by (rewrite !upd_other by lia; exact Hrt).
      pose proof (agr_or c _ _ _ 61 Rook A2 E2) as A3.
      assert (E3 : upd (upd (upd f 63 None) 60 None) 61 (Some (c, Rook)) 62 = None) by (rewrite !upd_other by lia; exact Hkt).
      pose proof (agr_or c _ _ _ 62 King A3 E3) as A4.
      eapply agr_ext; [|exact A4]. intros sq. unfold newcells, placed_of. cbv zeta.
      change (castle_squares 62) with (Some (63, 61)). cbv iota beta. change (kind_of NO_PIECE) with (@None kind). cbv iota.
      upd_cases.
    + change (castle_squares 58) with (Some (56, 59)). cbv iota beta. unfold do_castle. push_rights.
      eexists. eexists. split; [reflexivity|]. split; [|repeat split; reflexivity]. apply agr_rights.
      pose proof (agr_clr c _ _ f 56 Rook A0 Hrf) as A1.
      assert (E1 : upd f 56 None 60 = Some (c, King)) by (rewrite upd_other by lia; exact Hsrc).
      pose proof (agr_clr c _ _ _ 60 King A1 E1) as A2.
      assert (E2 : upd (upd f 56 None) 60 None 59 = None) by (rewrite !upd_other by lia; exact Hrt).
      pose proof (agr_or c _ _ _ 59 Rook A2 E2) as A3.
      assert (E3 : upd (upd (upd f 56 None) 60 None) 59 (Some (c, Rook)) 58 = None) by (rewrite !upd_other by lia; exact Hkt).
      pose proof (agr_or c _ _ _ 58 King A3 E3) as A4.
      eapply agr_ext; [|exact A4]. intros sq. unfold newcells, placed_of. cbv zeta.
      change (castle_squares 58) with (Some (56, 59)). cbv iota beta. change (kind_of NO_PIECE) with (@None kind). cbv iota.
      upd_cases.
    + change (castle_squares 6) with (Some (7, 5)). cbv iota beta. unfold do_castle. push_rights.
      eexists. eexists. split; [reflexivity|]. split; [|repeat split; reflexivity]. apply agr_rights.
      pose proof (agr_clr c _ _ f 7 Rook A0 Hrf) as A1.
      assert (E1 : upd f 7 None 4 = Some (c, King)) by (rewrite upd_other by lia; exact Hsrc).
      pose proof (agr_clr c _ _ _ 4 King A1 E1) as A2.
      assert (E2 : upd (upd f 7 None) 4 None 5 = None) by (rewrite !upd_other by lia; exact Hrt).
      pose proof (agr_or c _ _ _ 5 Rook A2 E2) as A3.
      assert (E3 : upd (upd (upd f 7 None) 4 None) 5 (Some (c, Rook)) 6 = None) by (rewrite !upd_other by lia; exact Hkt).
      pose proof (agr_or c _ _ _ 6 King A3 E3) as A4.
      eapply agr_ext; [|exact A4]. intros sq. unfold newcells, placed_of. cbv zeta.
      change (castle_squares 6) with (Some (7, 5)). cbv iota beta. change (kind_of NO_PIECE) with (@None kind). cbv iota.
      upd_cases.
    + change (castle_squares 2) with (Some (0, 3)). cbv iota beta. unfold do_castle. push_rights.
      eexists. eexists. split; [reflexivity|]. split; [|repeat split; reflexivity]. apply agr_rights.
      pose proof (agr_clr c _ _ f 0 Rook A0 Hrf) as A1.
      assert (E1 : upd f 0 None 4 = Some (c, King)) by (rewrite upd_other by lia; exact Hsrc).
      pose proof (agr_clr c _ _ _ 4 King A1 E1) as A2.
      assert (E2 : upd (upd f 0 None) 4 None 3 = None) by (rewrite !upd_other by lia; exact Hrt).
      pose proof (agr_or c _ _ _ 3 Rook A2 E2) as A3.
      assert (E3 : upd (upd (upd f 0 None) 4 None) 3 (Some (c, Rook)) 2 = None) by (rewrite !upd_other by lia; exact Hkt).
      pose proof (agr_or c _ _ _ 2 King A3 E3) as A4.
      eapply agr_ext; [|exact A4]. intros sq. unfold newcells, placed_of. cbv zeta.
      change (castle_squares 2) with (Some (0, 3)). cbv iota beta. change (kind_of NO_PIECE) with (@None kind). cbv iota.
      upd_cases.
  - destruct ie.
    + (* en passant *)
      destruct (Hep eq_refl) as (-> & -> & (Hte & Hv & Htr & _)).
      rewrite (victim_mask t Htr). push_rights.
      eexists. eexists. split; [reflexivity|]. split; [|repeat split; reflexivity]. apply agr_rights.
      set (v := victim c t) in *.
      assert (Hvs : v <> s) by (intros E; rewrite E, Hsrc in Hv; destruct c; discriminate).
      assert (Hvt : v <> t) by (intros E; rewrite E, Hte in Hv; discriminate).
      pose proof (agr_clr_pas c _ _ f v Pawn A0 Hv) as A1.
      assert (E1 : upd f v None s = Some (c, Pawn)) by (rewrite upd_other by congruence; exact Hsrc).
      pose proof (agr_clr c _ _ _ s Pawn A1 E1) as A2.
      assert (E2 : upd (upd f v None) s None t = None) by (rewrite !upd_other by congruence; exact Hte).
      pose proof (agr_or c _ _ _ t Pawn A2 E2) as A3.
      eapply agr_ext; [|exact A3]. intros sq. unfold newcells, placed_of. cbv zeta.
      change (kind_of NO_PIECE) with (@None kind). cbv iota. fold v.
      upd_cases.
    + (* ordinary move or promotion *)
      rewrite (mk_attacked_noep T b s t (kindN k) false pr epo).
      pose proof (agr_clr_attacked c _ _ f t A0 Hno) as A1.
      assert (E1 : upd f t None s = Some (c, k)) by (rewrite upd_other by congruence; exact Hsrc).
      destruct Hpr as [-> | (-> & Hin)].
      * change (negb (NO_PIECE =? NO_PIECE)) with false. cbv iota. push_rights.
        eexists. eexists. split; [reflexivity|]. split; [|repeat split; reflexivity]. apply agr_rights.
        pose proof (agr_clr c _ _ _ s k A1 E1) as A2.
        assert (E2 : upd (upd f t None) s None t = None) by (rewrite upd_other by congruence; apply upd_same).
        pose proof (agr_or c _ _ _ t k A2 E2) as A3.
        eapply agr_ext; [|exact A3]. intros sq. unfold newcells, placed_of. cbv zeta.
        change (kind_of NO_PIECE) with (@None kind). cbv iota.
        upd_cases.
      * destruct (promo_kind pr Hin) as (kp & Ekp & -> & _).
        assert (Enz : negb (kindN kp =? NO_PIECE) = true) by (destruct kp; reflexivity).
        rewrite Enz. push_rights.
        eexists. eexists. split; [reflexivity|]. split; [|repeat split; reflexivity]. apply agr_rights.
        pose proof (agr_clr c _ _ _ s Pawn A1 E1) as A2.
        assert (E2 : upd (upd f t None) s None t = None) by (rewrite upd_other by congruence; apply upd_same).
        pose proof (agr_or c _ _ _ t kp A2 E2) as A3.
        eapply agr_ext; [|exact A3]. intros sq. unfold newcells, placed_of. cbv zeta.
        rewrite kind_of_kindN.
        upd_cases.
Qed.

(* ---------- castling rights ---------- *)
Lemma rights_cells :
  (ks (white b) = true -> f 63 = Some (White, Rook) /\ f 60 = Some (White, King)) /\
  (qs (white b) = true -> f 56 = Some (White, Rook) /\ f 60 = Some (White, King)) /\
  (ks (black b) = true -> f 7 = Some (Black, Rook) /\ f 4 = Some (Black, King)) /\
  (qs (black b) = true -> f 0 = Some (Black, Rook) /\ f 4 = Some (Black, King)).
Proof.
  destruct (rights_wf_elim b Hrw) as (R1 & R2 & R3 & R4).
  split; [|split; [|split]]; intros E;
    [destruct (R2 E) as [X Y] | destruct (R1 E) as [X Y] | destruct (R4 E) as [X Y] | destruct (R3 E) as [X Y]];
    split; apply (cell_of_iff b _ _ _ Hwf); assumption.
Qed.

Section OneMove.
Variables (s t : N) (k : kind) (ic ie : bool) (pr epo : N).
Hypothesis M : mfacts s t k ic ie pr epo.

Lemma own_sq x k' : f x = Some (c, k') -> t <> x.
Proof. intros H ->. exact (mf_notown _ _ _ _ _ _ _ M k' H). Qed.
Lemma opp_sq x k' : f x = Some (opp c, k') -> s <> x.
Proof. intros H E. rewrite <- E, (mf_src _ _ _ _ _ _ _ M) in H. destruct c; discriminate. Qed.
Lemma oppking_sq x : f x = Some (opp c, King) -> t <> x.
Proof. intros H ->. exact (mf_noking _ _ _ _ _ _ _ M H). Qed.

Lemma is_pawn_move_k : is_pawn_move (abs b) (the_mv s t pr) = (kindN k =? PAWN).
Proof.
  unfold is_pawn_move. change (from (the_mv s t pr)) with (Z.of_N s).
  rewrite (get_abs_f s (mf_s _ _ _ _ _ _ _ M)), (mf_src _ _ _ _ _ _ _ M). now destruct k.
Qed.

Lemma half_eq :
  half_reset (mk T b s t (kindN k) ic ie pr epo) =
  (is_pawn_move (abs b) (the_mv s t pr) || is_capture (abs b) (the_mv s t pr))%bool.
Proof.
  rewrite is_pawn_move_k. unfold is_capture. rewrite (mf_ie _ _ _ _ _ _ _ M).
  change (to (the_mv s t pr)) with (Z.of_N t). unfold Rules.empty. rewrite (get_abs_f t (mf_t _ _ _ _ _ _ _ M)).
  destruct ie eqn:Eie.
  - destruct (mf_ep _ _ _ _ _ _ _ M eq_refl) as (_ & -> & _). cbn [kindN]. change (PAWN =? PAWN) with true.
    cbn [orb]. reflexivity.
  - rewrite orb_false_r. f_equal. change (half_reset (mk T b s t (kindN k) ic false pr epo))
      with ((kindN k =? PAWN) || negb (piece_attacked (mk T b s t (kindN k) ic false pr epo) =? NO_PIECE))%bool.
    rewrite mk_attacked_noep.
    destruct (kindN k =? PAWN); [reflexivity|]. cbn [orb]. f_equal.
    destruct (f t) as [[c' k']|] eqn:E.
    + destruct (color_cases c c') as [-> | ->]; [exfalso; exact (mf_notown _ _ _ _ _ _ _ M k' E)|].
      rewrite (agr_piece_at_pas_some c _ _ f t k' agr0 E). now destruct k'.
    + rewrite (agr_piece_at_pas_none c _ _ f t agr0) by (intros k'; rewrite E; discriminate). reflexivity.
Qed.

Lemma if_false_negb (x y : bool) : (if x then false else y) = (negb x && y)%bool.
Proof. now destruct x. Qed.

Lemma c_white : turn b = 0 -> c = White.
Proof. intros E. unfold c, col_of. now rewrite E. Qed.
Lemma c_black : turn b = 1 -> c = Black.
Proof. intros E. unfold c, col_of. now rewrite E. Qed.
Lemma active_white : turn b = 0 -> active b = white b.
Proof. intros E. unfold active, is_white_turn. now rewrite E. Qed.
Lemma passive_white : turn b = 0 -> passive b = black b.
Proof. intros E. unfold passive, is_white_turn. now rewrite E. Qed.
Lemma active_black : turn b = 1 -> active b = black b.
Proof. intros E. unfold active, is_white_turn. now rewrite E. Qed.
Lemma passive_black : turn b = 1 -> passive b = white b.
Proof. intros E. unfold passive, is_white_turn. now rewrite E. Qed.

Definition tch (x : Z) : bool := ((Z.of_N s =? x)%Z || (Z.of_N t =? x)%Z)%bool.

Lemma rights_white_turn : turn b = 0 ->
  let m := mk T b s t (kindN k) ic ie pr epo in
  (if self_lost_ks m then false else ks (white b)) = (ks (white b) && negb (tch 60) && negb (tch 63))%bool /\
  (if self_lost_qs m then false else qs (white b)) = (qs (white b) && negb (tch 60) && negb (tch 56))%bool /\
  (if opp_lost_ks m then false else ks (black b)) = (ks (black b) && negb (tch 4) && negb (tch 7))%bool /\
  (if opp_lost_qs m then false else qs (black b)) = (qs (black b) && negb (tch 4) && negb (tch 0))%bool.
Proof.
  intros E. pose proof (c_white E) as Ec. destruct rights_cells as (R1 & R2 & R3 & R4).
  cbv zeta. unfold mk. cbv zeta. cbn [self_lost_ks self_lost_qs opp_lost_ks opp_lost_qs].
  rewrite (active_white E), (passive_white E). unfold is_white_turn, WHITE. rewrite E.
  change (0 =? 0) with true. cbv iota. unfold tch, H1, E1, A1, H8, A8.
  assert (X1 : ks (white b) = true -> t <> 60 /\ t <> 63).
  { intros Y. destruct (R1 Y) as [Y1 Y2]. rewrite <- Ec in Y1, Y2. split; [exact (own_sq 60 King Y2)|exact (own_sq 63 Rook Y1)]. }
  assert (X2 : qs (white b) = true -> t <> 60 /\ t <> 56).
  { intros Y. destruct (R2 Y) as [Y1 Y2]. rewrite <- Ec in Y1, Y2. split; [exact (own_sq 60 King Y2)|exact (own_sq 56 Rook Y1)]. }
  assert (X3 : ks (black b) = true -> s <> 4 /\ s <> 7 /\ t <> 4).
  { intros Y. destruct (R3 Y) as [Y1 Y2]. change Black with (opp White) in Y1, Y2. rewrite <- Ec in Y1, Y2.
    split; [exact (opp_sq 4 King Y2)|split; [exact (opp_sq 7 Rook Y1)|exact (oppking_sq 4 Y2)]]. }
  assert (X4 : qs (black b) = true -> s <> 4 /\ s <> 0 /\ t <> 4).
  { intros Y. destruct (R4 Y) as [Y1 Y2]. change Black with (opp White) in Y1, Y2. rewrite <- Ec in Y1, Y2.
    split; [exact (opp_sq 4 King Y2)|split; [exact (opp_sq 0 Rook Y1)|exact (oppking_sq 4 Y2)]]. }
  clear R1 R2 R3 R4. rewrite !if_false_negb.
  destruct (ks (white b)), (qs (white b)), (ks (black b)), (qs (black b));
    try specialize (X1 eq_refl); try specialize (X2 eq_refl); try specialize (X3 eq_refl); try specialize (X4 eq_refl);
    repeat split; lia.
Qed.

Lemma rights_black_turn : turn b = 1 ->
  let m := mk T b s t (kindN k) ic ie pr epo in
  (if self_lost_ks m then false else ks (black b)) = (ks (black b) && negb (tch 4) && negb (tch 7))%bool /\
  (if self_lost_qs m then false else qs (black b)) = (qs (black b) && negb (tch 4) && negb (tch 0))%bool /\
  (if opp_lost_ks m then false else ks (white b)) = (ks (white b) && negb (tch 60) && negb (tch 63))%bool /\
  (if opp_lost_qs m then false else qs (white b)) = (qs (white b) && negb (tch 60) && negb (tch 56))%bool.
Proof.
  intros E. pose proof (c_black E) as Ec. destruct rights_cells as (R1 & R2 & R3 & R4).
  cbv zeta. unfold mk. cbv zeta. cbn [self_lost_ks self_lost_qs opp_lost_ks opp_lost_qs].
  rewrite (active_black E), (passive_black E). unfold is_white_turn, WHITE. rewrite E.
  change (1 =? 0) with false. cbv iota. unfold tch, H1, E1, A1, H8, A8.
  assert (X1 : ks (black b) = true -> t <> 4 /\ t <> 7).
  { intros Y. destruct (R3 Y) as [Y1 Y2]. rewrite <- Ec in Y1, Y2. split; [exact (own_sq 4 King Y2)|exact (own_sq 7 Rook Y1)]. }
  assert (X2 : qs (black b) = true -> t <> 4 /\ t <> 0).
  { intros Y. destruct (R4 Y) as [Y1 Y2]. rewrite <- Ec in Y1, Y2. split; [exact (own_sq 4 King Y2)|exact (own_sq 0 Rook Y1)]. }
  assert (X3 : ks (white b) = true -> s <> 60 /\ s <> 63 /\ t <> 60).
  { intros Y. destruct (R1 Y) as [Y1 Y2]. change White with (opp Black) in Y1, Y2. rewrite <- Ec in Y1, Y2.
    split; [exact (opp_sq 60 King Y2)|split; [exact (opp_sq 63 Rook Y1)|exact (oppking_sq 60 Y2)]]. }
  assert (X4 : qs (white b) = true -> s <> 60 /\ s <> 56 /\ t <> 60).
  { intros Y. destruct (R2 Y) as [Y1 Y2]. change White with (opp Black) in Y1, Y2. rewrite <- Ec in Y1, Y2.
    split; [exact (opp_sq 60 King Y2)|split; [exact (opp_sq 56 Rook Y1)|exact (oppking_sq 60 Y2)]]. }
  clear R1 R2 R3 R4. rewrite !if_false_negb.
  destruct (ks (white b)), (qs (white b)), (ks (black b)), (qs (black b));
    try specialize (X1 eq_refl); try specialize (X2 eq_refl); try specialize (X3 eq_refl); try specialize (X4 eq_refl);
    repeat split; lia.
Qed.

(* ================================================================== *)
(* 4. core: exactness and the invariants of the successor              *)
(* ================================================================== *)
Theorem core_exact b' : make b (mk T b s t (kindN k) ic ie pr epo) = Some b' ->
  abs b' = apply (abs b) (uci_of (mk T b s t (kindN k) ic ie pr epo)) /\
  agrb b' (newcells c f s t (placed_of c k pr) ie ic) /\ turn b' = opposite (turn b) /\ ep b' = epo.
Proof.
  intros Hm. rewrite make_split in Hm.
  destruct (model_sides s t k ic ie pr epo M) as (a' & p' & Hsd & Ha & Hq1 & Hk1 & Hq2 & Hk2). cbv zeta in *.
  rewrite Hsd, mk_next_ep, half_eq in Hm. injection Hm as <-.
  destruct (spec_cells s t k ic ie pr epo M) as (rest & Er & Hc & Htm & Hri & Hepq & Hh & Hfl).
  change (uci_of (mk T b s t (kindN k) ic ie pr epo)) with (the_mv s t pr). rewrite Er. clear Er.
  rewrite is_white_turn_col. fold c.
  pose proof (agr_agrb c a' p' _ (opposite (turn b)) epo (full b + turn b)
                (if (is_pawn_move (abs b) (the_mv s t pr) || is_capture (abs b) (the_mv s t pr))%bool then 0 else half b + 1) Ha) as Hb.
  split; [|split; [exact Hb|unfold assemble; destruct (color_eqb c White); split; reflexivity]].
  destruct rest as [cs tm rwk rwq rbk rbq re rh rf]. cbn [cells to_move wk wq bk bq epsq halfc fullc] in *.
  subst cs tm re rh rf. destruct Hri as (-> & -> & -> & ->).
  destruct rights_cells as (R1 & R2 & R3 & R4).
  pose proof (mf_s _ _ _ _ _ _ _ M) as Hs. pose proof (mf_t _ _ _ _ _ _ _ M) as Ht.
  unfold abs at 1. f_equal.
  - apply lst_ext. intros sq _. now apply agrb_cell.
  - unfold c, col_of, assemble. destruct turn01 as [-> | ->]; reflexivity.
  - (* wk *) destruct turn01 as [E|E].
    + rewrite (c_white E). cbn [color_eqb assemble white]. rewrite Hk1, (active_white E).
      exact (proj1 (rights_white_turn E)).
    + rewrite (c_black E). cbn [color_eqb assemble white]. rewrite Hk2, (passive_black E).
      exact (proj1 (proj2 (proj2 (rights_black_turn E)))).
  - (* wq *) destruct turn01 as [E|E].
    + rewrite (c_white E). cbn [color_eqb assemble white]. rewrite Hq1, (active_white E).
      exact (proj1 (proj2 (rights_white_turn E))).
    + rewrite (c_black E). cbn [color_eqb assemble white]. rewrite Hq2, (passive_black E).
      exact (proj2 (proj2 (proj2 (rights_black_turn E)))).
  - (* bk *) destruct turn01 as [E|E].
    + rewrite (c_white E). cbn [color_eqb assemble black]. rewrite Hk2, (passive_white E).
      exact (proj1 (proj2 (proj2 (rights_white_turn E)))).
    + rewrite (c_black E). cbn [color_eqb assemble black]. rewrite Hk1, (active_black E).
      exact (proj1 (rights_black_turn E)).
  - (* bq *) destruct turn01 as [E|E].
    + rewrite (c_white E). cbn [color_eqb assemble black]. rewrite Hq2, (passive_white E).
      exact (proj2 (proj2 (proj2 (rights_white_turn E)))).
    + rewrite (c_black E). cbn [color_eqb assemble black]. rewrite Hq1, (active_black E).
      exact (proj1 (proj2 (rights_black_turn E))).
  - unfold assemble. destruct (color_eqb c White); reflexivity.
  - unfold assemble. destruct (color_eqb c White); reflexivity.
  - unfold c, col_of, assemble. destruct turn01 as [-> | ->]; cbn [N.eqb color_eqb full]; [now rewrite N.add_0_r|reflexivity].
Qed.

(* ---------- invariants of the successor ---------- *)
Let F : N -> option piece := newcells c f s t (placed_of c k pr) ie ic.

Lemma placed_color : fst (placed_of c k pr) = c.
Proof. unfold placed_of. now destruct (kind_of pr). Qed.

Lemma shape_squares : ic = true -> exists rf rt, castle_squares t = Some (rf, rt) /\ rf < 64 /\ rt < 64 /\
  f rf = Some (c, Rook) /\ f rt = None /\ rf <> t /\ rt <> t /\ rf <> s /\ rt <> s /\
  ((s = 60 /\ 56 <= rf /\ 56 <= rt) \/ (s = 4 /\ rf < 8 /\ rt < 8)).
Proof.
  intros E. destruct (mf_castle _ _ _ _ _ _ _ M E) as (_ & _ & _ & [S1|[S1|[S1|S1]]]);
    destruct S1 as (_ & -> & -> & Hrf & Hrt & _).
  - exists 63, 61. repeat split; try assumption; try reflexivity; lia.
  - exists 56, 59. repeat split; try assumption; try reflexivity; lia.
  - exists 7, 5. repeat split; try assumption; try reflexivity; lia.
  - exists 0, 3. repeat split; try assumption; try reflexivity; lia.
Qed.

Lemma F_inv (P : N -> option piece -> Prop) :
  (forall sq, P sq (f sq)) -> P s None -> P t (Some (placed_of c k pr)) ->
  (ie = true -> P (victim c t) None) ->
  (forall rf rt, ic = true -> castle_squares t = Some (rf, rt) -> P rf None /\ P rt (Some (c, Rook))) ->
  forall sq, P sq (F sq).
Proof.
  intros Hf Hs Ht Hv Hc sq. unfold F, newcells. cbv zeta.
  assert (H2 : forall x, P x ((if ie then upd (upd (upd f s None) t (Some (placed_of c k pr))) (victim c t) None
                              else upd (upd f s None) t (Some (placed_of c k pr))) x)).
  { intros x. destruct ie; repeat (apply upd_inv; [intro|]); auto. }
  destruct ic; [|apply H2]. destruct (castle_squares t) as [[rf rt]|]; [|apply H2].
  destruct (Hc rf rt eq_refl eq_refl) as [X Y]. apply upd_inv; [intro; apply upd_inv; [intro; apply H2|exact X]|exact Y].
Qed.

Lemma F_ge64 sq : 64 <= sq -> F sq = None.
Proof.
  revert sq. apply (F_inv (fun sq o => 64 <= sq -> o = None)).
  - intros sq. apply f_ge64.
  - pose proof (mf_s _ _ _ _ _ _ _ M). lia.
  - pose proof (mf_t _ _ _ _ _ _ _ M). lia.
  - intros E. destruct (mf_ep _ _ _ _ _ _ _ M E) as (_ & _ & (_ & Hv & _)). apply f_lt64 in Hv. lia.
  - intros rf rt E Hc. destruct (shape_squares E) as (rf' & rt' & Hc' & A & B & _). rewrite Hc in Hc'. injection Hc' as <- <-. lia.
Qed.

Lemma F_pawns : (k = Pawn -> pr = NO_PIECE -> 8 <= t < 56) -> forall sq c', F sq = Some (c', Pawn) -> 8 <= sq < 56.
Proof.
  intros Hp sq. apply (F_inv (fun sq o => forall c', o = Some (c', Pawn) -> 8 <= sq < 56)).
  - intros x c'. now apply wf_pawn_rows.
  - discriminate.
  - intros c'. unfold placed_of. destruct (mf_pr _ _ _ _ _ _ _ M) as [-> | (-> & Hin)].
    + change (kind_of NO_PIECE) with (@None kind). cbv iota. intros [= _ ->]. now apply Hp.
    + destruct (promo_kind pr Hin) as (kp & -> & _ & _ & Hkp). intros [= _ E]. now apply Hkp in E.
  - discriminate.
  - intros rf rt _ _. split; discriminate.
Qed.

Definition newking : N := if kind_eqb k King then t else king_of b c.

Lemma F_kingpos_opp : kingpos F (opp c) (king_of b (opp c)).
Proof.
  pose proof (wf_kingpos b (opp c) Hwf) as K0. fold f in K0. set (ko := king_of b (opp c)) in *.
  assert (Hko : f ko = Some (opp c, King)) by now apply K0.
  assert (K1 : kingpos (upd f s None) (opp c) ko).
  { apply kingpos_upd_other; [exact K0|exact (opp_sq ko King Hko)|discriminate]. }
  assert (K2 : kingpos (upd (upd f s None) t (Some (placed_of c k pr))) (opp c) ko).
  { apply kingpos_upd_other; [exact K1|exact (oppking_sq ko Hko)|].
    intros [= E]. pose proof placed_color as X. rewrite E in X. cbn [fst] in X. destruct c; discriminate. }
  unfold F, newcells. cbv zeta.
  assert (K3 : kingpos (if ie then upd (upd (upd f s None) t (Some (placed_of c k pr))) (victim c t) None
                       else upd (upd f s None) t (Some (placed_of c k pr))) (opp c) ko).
  { destruct (bool_cases ie) as [E|E]; rewrite E; [|exact K2]. destruct (mf_ep _ _ _ _ _ _ _ M E) as (_ & _ & (_ & Hv & _)).
    apply kingpos_upd_other; [exact K2|intros X; rewrite X in Hv; congruence|discriminate]. }
  destruct (bool_cases ic) as [E|E]; rewrite E; [|exact K3].
  destruct (shape_squares E) as (rf & rt & -> & _ & _ & Hrf & Hrt & _).
  apply kingpos_upd_other; [apply kingpos_upd_other; [exact K3| |discriminate]| |].
  - intros X. rewrite X in Hrf. rewrite Hko in Hrf. destruct c; discriminate.
  - intros X. rewrite X in Hrt. congruence.
  - congruence.
Qed.

Lemma F_kingpos_mover : kingpos F c newking.
Proof.
  pose proof (wf_kingpos b c Hwf) as K0. fold f in K0. set (kc := king_of b c) in *.
  assert (Hkc : f kc = Some (c, King)) by now apply K0.
  pose proof (mf_src _ _ _ _ _ _ _ M) as Hsrc.
  unfold newking. fold kc. unfold F, newcells. cbv zeta.
  destruct (kind_eqb k King) eqn:Ek.
  - apply kind_eqb_eq in Ek.
    assert (Epr : pr = NO_PIECE) by (destruct (mf_pr _ _ _ _ _ _ _ M) as [X|[X _]]; [exact X|rewrite Ek in X; discriminate]).
    assert (Eie : ie = false).
    { destruct (bool_cases ie) as [E|E]; [|exact E]. destruct (mf_ep _ _ _ _ _ _ _ M E) as (_ & X & _). rewrite Ek in X. discriminate. }
    assert (Es : s = kc) by (apply K0; rewrite Hsrc; now rewrite Ek).
    rewrite Eie, Epr. unfold placed_of. change (kind_of NO_PIECE) with (@None kind). cbv iota. rewrite Ek.
    assert (K2 : kingpos (upd (upd f s None) t (Some (c, King))) c t) by (rewrite Es; now apply kingpos_upd_move).
    destruct (bool_cases ic) as [E|E]; rewrite E; [|exact K2].
    destruct (shape_squares E) as (rf & rt & -> & _ & _ & _ & _ & A & B & _).
    apply kingpos_upd_other; [apply kingpos_upd_other; [exact K2|exact A|discriminate]|exact B|discriminate].
  - assert (Hk : k <> King) by (intros ->; discriminate).
    assert (Eic : ic = false).
    { destruct (bool_cases ic) as [E|E]; [|exact E]. destruct (mf_castle _ _ _ _ _ _ _ M E) as (_ & _ & X & _). contradiction. }
    rewrite Eic.
    assert (K1 : kingpos (upd f s None) c kc).
    { apply kingpos_upd_other; [exact K0|intros X; rewrite X, Hkc in Hsrc; congruence|discriminate]. }
    assert (K2 : kingpos (upd (upd f s None) t (Some (placed_of c k pr))) c kc).
    { apply kingpos_upd_other; [exact K1|exact (own_sq kc King Hkc)|].
      unfold placed_of. destruct (mf_pr _ _ _ _ _ _ _ M) as [-> | (_ & Hin)].
      - change (kind_of NO_PIECE) with (@None kind). cbv iota. congruence.
      - destruct (promo_kind pr Hin) as (kp & -> & _ & Hkp & _). congruence. }
    destruct (bool_cases ie) as [E|E]; rewrite E; [|exact K2]. destruct (mf_ep _ _ _ _ _ _ _ M E) as (_ & _ & (_ & Hv & _)).
    apply kingpos_upd_other; [exact K2|intros X; rewrite X, Hkc in Hv; destruct c; discriminate|discriminate].
Qed.

Lemma F_kings : exists kw kb, kingpos F White kw /\ kingpos F Black kb.
Proof.
  pose proof F_kingpos_mover as A. pose proof F_kingpos_opp as B.
  destruct turn01 as [E|E].
  - rewrite (c_white E) in A, B. cbn [opp] in B. eauto.
  - rewrite (c_black E) in A, B. cbn [opp] in B. eauto.
Qed.

(* a home square (not a pawn on it) that the move does not touch keeps its piece *)
Lemma F_home x pc : f x = Some pc -> snd pc <> Pawn -> s <> x -> t <> x ->
  (s = 60 -> x < 56) -> (s = 4 -> 8 <= x) -> F x = Some pc.
Proof.
  intros Hx Hp Hs Ht H60 H4. unfold F, newcells. cbv zeta.
  assert (E2 : (if ie then upd (upd (upd f s None) t (Some (placed_of c k pr))) (victim c t) None
                else upd (upd f s None) t (Some (placed_of c k pr))) x = Some pc).
  { destruct (bool_cases ie) as [E|E]; rewrite E.
    - destruct (mf_ep _ _ _ _ _ _ _ M E) as (_ & _ & (_ & Hv & _)).
      rewrite !upd_other; [exact Hx|congruence|congruence|]. intros X. rewrite <- X, Hx in Hv. injection Hv as ->. now apply Hp.
    - rewrite !upd_other; [exact Hx|congruence|congruence]. }
  destruct (bool_cases ic) as [E|E]; rewrite E; [|exact E2].
  destruct (shape_squares E) as (rf & rt & -> & _ & _ & Hrf & Hrt & _ & _ & _ & _ & [(A & B & C)|(A & B & C)]).
  - specialize (H60 A). rewrite !upd_other by lia. exact E2.
  - specialize (H4 A). rewrite !upd_other by lia. exact E2.
Qed.

Definition dbl_shape : Prop :=
  epo <> 0 -> k = Pawn /\ ic = false /\ ie = false /\ pr = NO_PIECE /\ f epo = None /\
  ((c = White /\ 48 <= s < 56 /\ t = s - 16 /\ epo = s - 8) \/ (c = Black /\ 8 <= s < 16 /\ t = s + 16 /\ epo = s + 8)).

Theorem core_inv b' : make b (mk T b s t (kindN k) ic ie pr epo) = Some b' ->
  (k = Pawn -> pr = NO_PIECE -> 8 <= t < 56) -> dbl_shape ->
  wf b' = true /\ rights_wf b' = true /\ ep_consistent (abs b') = true.
Proof.
  intros Hm Hpawn Hdbl. destruct (core_exact b' Hm) as (Hex & Hb & Hturn & Hepb). fold F in Hb.
  destruct (spec_cells s t k ic ie pr epo M) as (rest & Er & _ & _ & Hri & _).
  change (uci_of (mk T b s t (kindN k) ic ie pr epo)) with (the_mv s t pr) in Hex. rewrite Er in Hex. clear Er.
  cbv zeta in Hri. fold (tch 60) (tch 63) (tch 56) (tch 4) (tch 7) (tch 0) in Hri.
  destruct Hri as (W1 & W2 & W3 & W4).
  assert (V1 : ks (white b') = wk rest) by (rewrite <- Hex; reflexivity).
  assert (V2 : qs (white b') = wq rest) by (rewrite <- Hex; reflexivity).
  assert (V3 : ks (black b') = bk rest) by (rewrite <- Hex; reflexivity).
  assert (V4 : qs (black b') = bq rest) by (rewrite <- Hex; reflexivity).
  rewrite W1 in V1. rewrite W2 in V2. rewrite W3 in V3. rewrite W4 in V4. clear W1 W2 W3 W4.
  assert (Hwf' : wf b' = true).
  { destruct F_kings as (kw & kb & Kw & Kb).
    apply (agrb_wf b' F kw kb Hb F_ge64 Kw Kb).
    - rewrite Hturn. unfold opposite. destruct turn01 as [-> | ->]; reflexivity.
    - rewrite Hepb. exact (proj1 (mf_epo _ _ _ _ _ _ _ M)).
    - exact (F_pawns Hpawn). }
  split; [exact Hwf'|]. destruct rights_cells as (R1 & R2 & R3 & R4).
  assert (Hbit : forall x c' k', F x = Some (c', k') -> N.testbit (bb_of b' c' k') x = true) by (intros x c' k'; apply Hb).
  split.
  - unfold rights_wf. unfold tch in *. rewrite !andb_true_iff. repeat split.
    + destruct (qs (white b')) eqn:E; [|reflexivity]. cbn [negb orb].
      assert (X : qs (white b) = true /\ s <> 60 /\ t <> 60 /\ s <> 56 /\ t <> 56) by (clear - V2 E; lia).
      destruct X as (X0 & X1 & X2 & X3 & X4). destruct (R2 X0) as [Y1 Y2].
      apply andb_true_iff; split; [apply (Hbit 56 White Rook)|apply (Hbit 60 White King)]; apply F_home; auto; cbn [snd]; try discriminate; clear - X1 X2 X3 X4; lia.
    + destruct (ks (white b')) eqn:E; [|reflexivity]. cbn [negb orb].
      assert (X : ks (white b) = true /\ s <> 60 /\ t <> 60 /\ s <> 63 /\ t <> 63) by (clear - V1 E; lia).
      destruct X as (X0 & X1 & X2 & X3 & X4). destruct (R1 X0) as [Y1 Y2].
      apply andb_true_iff; split; [apply (Hbit 63 White Rook)|apply (Hbit 60 White King)]; apply F_home; auto; cbn [snd]; try discriminate; clear - X1 X2 X3 X4; lia.
    + destruct (qs (black b')) eqn:E; [|reflexivity]. cbn [negb orb].
      assert (X : qs (black b) = true /\ s <> 4 /\ t <> 4 /\ s <> 0 /\ t <> 0) by (clear - V4 E; lia).
      destruct X as (X0 & X1 & X2 & X3 & X4). destruct (R4 X0) as [Y1 Y2].
      apply andb_true_iff; split; [apply (Hbit 0 Black Rook)|apply (Hbit 4 Black King)]; apply F_home; auto; cbn [snd]; try discriminate; clear - X1 X2 X3 X4; lia.
    + destruct (ks (black b')) eqn:E; [|reflexivity]. cbn [negb orb].
      assert (X : ks (black b) = true /\ s <> 4 /\ t <> 4 /\ s <> 7 /\ t <> 7) by (clear - V3 E; lia).
      destruct X as (X0 & X1 & X2 & X3 & X4). destruct (R3 X0) as [Y1 Y2].
      apply andb_true_iff; split; [apply (Hbit 7 Black Rook)|apply (Hbit 4 Black King)]; apply F_home; auto; cbn [snd]; try discriminate; clear - X1 X2 X3 X4; lia.
  - (* e.p. target of the successor *)
    unfold ep_consistent. unfold abs at 1. cbn [epsq]. rewrite Hepb.
    destruct (N.eqb_spec epo 0) as [E0|E0]; [reflexivity|].
    destruct (Hdbl E0) as (Ek & Eic & Eie & Epr & Hfe & Hgeo).
    assert (Htm : to_move (abs b') = opp c).
    { unfold abs. cbn [to_move]. rewrite Hturn. unfold c, col_of, opposite. destruct turn01 as [-> | ->]; reflexivity. }
    rewrite Htm, opp_opp.
    assert (HF : forall x, x < 64 -> get (abs b') (Z.of_N x) = F x).
    { intros x Hx. rewrite get_abs by exact Hx. now apply agrb_cell. }
    pose proof (mf_s _ _ _ _ _ _ _ M) as Hs. pose proof (mf_t _ _ _ _ _ _ _ M) as Ht.
    pose proof (proj1 (mf_epo _ _ _ _ _ _ _ M)) as He.
    pose proof (own_sq s k (mf_src _ _ _ _ _ _ _ M)) as Hts.
    assert (Fs : F s = None).
    { unfold F, newcells. cbv zeta. rewrite Eic, Eie. rewrite upd_other by congruence. apply upd_same. }
    assert (Ft : F t = Some (c, Pawn)).
    { unfold F, newcells. cbv zeta. rewrite Eic, Eie, upd_same, Epr, Ek. reflexivity. }
    assert (Fe : F epo = None).
    { unfold F, newcells. cbv zeta. rewrite Eic, Eie.
      assert (G : epo <> s /\ epo <> t) by (clear - Hgeo; lia).
      rewrite !upd_other; [exact Hfe|apply G|apply G]. }
    unfold is_piece, Rules.empty.
    destruct Hgeo as [(Ec & A & B & C)|(Ec & A & B & C)]; rewrite Ec in *; cbn [forward].
    + replace (sq_of (fileZ (Z.of_N epo)) (rowZ (Z.of_N epo) + -1)) with (Z.of_N t)
        by (unfold sq_of, fileZ, rowZ; clear - A B C; Z.to_euclidean_division_equations; lia).
      replace (sq_of (fileZ (Z.of_N epo)) (rowZ (Z.of_N epo) - -1)) with (Z.of_N s)
        by (unfold sq_of, fileZ, rowZ; clear - A B C; Z.to_euclidean_division_equations; lia).
      rewrite (HF t Ht), (HF s Hs), (HF epo He), Ft, Fs, Fe. cbn [color_eqb kind_eqb andb].
      rewrite !andb_true_r. apply Z.eqb_eq. unfold rowZ. clear - A B C. Z.to_euclidean_division_equations; lia.
    + replace (sq_of (fileZ (Z.of_N epo)) (rowZ (Z.of_N epo) + 1)) with (Z.of_N t)
        by (unfold sq_of, fileZ, rowZ; clear - A B C; Z.to_euclidean_division_equations; lia).
      replace (sq_of (fileZ (Z.of_N epo)) (rowZ (Z.of_N epo) - 1)) with (Z.of_N s)
        by (unfold sq_of, fileZ, rowZ; clear - A B C; Z.to_euclidean_division_equations; lia).
      rewrite (HF t Ht), (HF s Hs), (HF epo He), Ft, Fs, Fe. cbn [color_eqb kind_eqb andb].
      rewrite !andb_true_r. apply Z.eqb_eq. unfold rowZ. clear - A B C. Z.to_euclidean_division_equations; lia.
Qed.

End OneMove.
End Core.

(* ================================================================== *)
(* 5. every generator case satisfies mfacts                            *)
(* ================================================================== *)
Definition tables_ranks_ok (T : Tables.t) : bool :=
  (RANK_1 T =? 18374686479671623680) && (RANK_8 T =? 255) && (RANK_2 T =? 71776119061217280) && (RANK_7 T =? 65280).

Definition ep_ok (b : board) : Prop := ep_consistent (abs b) = true.

Lemma rank8_range s : N.testbit 255 s = true <-> s < 8.
Proof.
  change 255 with (N.ones 8). split.
  - intros H. destruct (N.lt_ge_cases s 8) as [A|A]; [exact A|]. rewrite N.ones_spec_high in H by exact A. discriminate.
  - intros H. now apply N.ones_spec_low.
Qed.

Lemma rank1_range s : N.testbit 18374686479671623680 s = true <-> 56 <= s < 64.
Proof.
  change 18374686479671623680 with (N.shiftl (N.ones 8) 56). split.
  - intros H. destruct (N.lt_ge_cases s 56) as [A|A]; [rewrite N.shiftl_spec_low in H by exact A; discriminate|].
    rewrite N.shiftl_spec_high in H by lia.
    destruct (N.lt_ge_cases (s - 56) 8) as [B|B]; [lia|]. rewrite N.ones_spec_high in H by exact B. discriminate.
  - intros H. rewrite N.shiftl_spec_high by lia. apply N.ones_spec_low. lia.
Qed.

Lemma nz_bit_land t R : nz (N.land (bit t) R) = N.testbit R t.
Proof. rewrite N.land_comm. apply nz_land_bit. Qed.

Lemma step_file_row dirs s t : N.testbit (step_attacks dirs s) t = true ->
  exists d, In d dirs /\ fileZ (Z.of_N t) = (fileZ (Z.of_N s) + fst d)%Z /\ rowZ (Z.of_N t) = (rowZ (Z.of_N s) + snd d)%Z /\ t < 64.
Proof.
  intros H. apply step_meaning in H as (d & Hd & Htr). exists d. split; [exact Hd|].
  destruct (translate_file_row s d t Htr) as [A B]. repeat split; try assumption. eapply translate_lt64; exact Htr.
Qed.

Section Gen.
Variable T : Tables.t.
Hypothesis OK : tables_attacks_ok T = true.
Hypothesis HC : tables_castle_ok T = true.
Hypothesis HR : tables_ranks_ok T = true.
Variable b : board.
Hypothesis Hwf : wf b = true.
Hypothesis Hrw : rights_wf b = true.
Hypothesis Hep : ep_ok b.
Hypothesis Hv : is_valid T b = true.

Let c : color := col_of (turn b).
Let f : N -> option piece := cell_of b.

Lemma ranks_elim : RANK_1 T = 18374686479671623680 /\ RANK_8 T = 255 /\ RANK_2 T = 71776119061217280 /\ RANK_7 T = 65280.
Proof.
  unfold tables_ranks_ok in HR. rewrite !andb_true_iff in HR. destruct HR as (((A & B) & C) & D).
  repeat split; now apply N.eqb_eq.
Qed.

Lemma act_cell k s : N.testbit (pbb (active b) k) s = true <-> f s = Some (c, k).
Proof. exact (agr_act c _ _ f s k (agr0 b Hwf)). Qed.
Lemma pas_cell k s : N.testbit (pbb (passive b) k) s = true <-> f s = Some (opp c, k).
Proof. exact (agr_pas c _ _ f s k (agr0 b Hwf)). Qed.

Lemma act_full_cell s : N.testbit (full_occ (active b)) s = false -> forall k', f s <> Some (c, k').
Proof.
  intros H k' E. apply act_cell in E. rewrite (proj1 (full_occ_false (active b) s) H k') in E. discriminate.
Qed.

Lemma all_occ_free x : N.testbit (all_occ b) x = false -> f x = None.
Proof.
  unfold all_occ. rewrite total_occ_active_passive, total_occ_cell. fold f. now destruct (f x).
Qed.

Lemma land0_free X x : N.land X (all_occ b) = 0 -> N.testbit X x = true -> f x = None.
Proof.
  intros H Hx. apply all_occ_free. rewrite N.land_comm in H. exact (land_0_testbit _ _ x H Hx).
Qed.

Lemma cell_lt s pc : f s = Some pc -> s < 64.
Proof. now apply cell_of_lt64. Qed.

Lemma no_king k' t : f t = Some (opp c, k') -> N.testbit (kings (passive b)) t = false -> f t <> Some (opp c, King).
Proof. intros _ H E. apply pas_cell in E. cbn [pbb] in E. congruence. Qed.

Lemma get_f x : x < 64 -> get (abs b) (Z.of_N x) = f x.
Proof. apply get_abs. Qed.

(* spec predicates on a move whose source holds (c, k) *)
Lemma spec_not_castling s t pr k : s < 64 -> f s = Some (c, k) ->
  (k = King -> (Z.abs (fileZ (Z.of_N t) - fileZ (Z.of_N s)) =? 2)%Z = false) ->
  is_castling (abs b) (the_mv s t pr) = false.
Proof.
  intros Hs Hsrc Hk. unfold is_castling. change (from (the_mv s t pr)) with (Z.of_N s). change (to (the_mv s t pr)) with (Z.of_N t).
  rewrite (get_f s Hs), Hsrc. destruct k; try reflexivity. now apply Hk.
Qed.

Lemma spec_not_ep_kind s t pr k : s < 64 -> f s = Some (c, k) -> k <> Pawn -> is_ep_capture (abs b) (the_mv s t pr) = false.
Proof.
  intros Hs Hsrc Hk. unfold is_ep_capture. change (from (the_mv s t pr)) with (Z.of_N s).
  rewrite (get_f s Hs), Hsrc. destruct k; try reflexivity. contradiction.
Qed.

Lemma spec_ep_pawn s t pr : s < 64 -> f s = Some (c, Pawn) ->
  is_ep_capture (abs b) (the_mv s t pr) =
  (negb (ep b =? 0) && (t =? ep b) && negb (fileZ (Z.of_N t) =? fileZ (Z.of_N s))%Z)%bool.
Proof.
  intros Hs Hsrc. unfold is_ep_capture. change (from (the_mv s t pr)) with (Z.of_N s). change (to (the_mv s t pr)) with (Z.of_N t).
  rewrite (get_f s Hs), Hsrc. unfold abs. cbn [epsq]. destruct (N.eqb_spec (ep b) 0) as [E|E]; [reflexivity|].
  cbn [negb andb]. f_equal. destruct (N.eqb_spec t (ep b)) as [->|Hn]; [apply Z.eqb_refl|]. apply Z.eqb_neq. lia.
Qed.

Lemma spec_epo_none s t pr k : s < 64 -> f s = Some (c, k) ->
  (k = Pawn -> (Z.abs (rowZ (Z.of_N t) - rowZ (Z.of_N s)) =? 2)%Z = false) ->
  (if NO_SQUARE =? 0 then None else Some (Z.of_N NO_SQUARE)) =
  (if is_pawn_move (abs b) (the_mv s t pr) && (Z.abs (rowZ (Z.of_N t) - rowZ (Z.of_N s)) =? 2)%Z
   then Some (sq_of (fileZ (Z.of_N s)) ((rowZ (Z.of_N s) + rowZ (Z.of_N t)) / 2)%Z) else None).
Proof.
  intros Hs Hsrc Hk. change (NO_SQUARE =? 0) with true. cbv iota.
  unfold is_pawn_move. change (from (the_mv s t pr)) with (Z.of_N s). rewrite (get_f s Hs), Hsrc.
  destruct k; try reflexivity. now rewrite (Hk eq_refl).
Qed.

(* what e.p. consistency gives when the e.p. square is set *)
Lemma ep_facts : ep b <> 0 ->
  f (ep b) = None /\ f (victim c (ep b)) = Some (opp c, Pawn) /\
  (c = White /\ 16 <= ep b < 24 \/ c = Black /\ 40 <= ep b < 48).
Proof.
  intros E. pose proof Hep as H. unfold ep_ok, ep_consistent in H. unfold abs in H at 1. cbn [epsq] in H.
  destruct (N.eqb_spec (ep b) 0) as [|_]; [contradiction|].
  change (to_move (abs b)) with c in H. rewrite !andb_true_iff in H. destruct H as (((H1 & H2) & H3) & _).
  destruct (wf_unpack b Hwf) as (_ & _ & _ & _ & _ & He & _).
  apply Z.eqb_eq in H1. unfold Rules.empty in H3. rewrite (get_f _ He) in H3.
  assert (R : c = White /\ 16 <= ep b < 24 \/ c = Black /\ 40 <= ep b < 48).
  { clear - H1 He. unfold rowZ in H1. destruct c; cbn [opp] in H1; [left|right]; (split; [reflexivity|]);
      Z.to_euclidean_division_equations; lia. }
  split; [now destruct (f (ep b))|]. split; [|exact R].
  unfold is_piece in H2.
  assert (Ev : sq_of (fileZ (Z.of_N (ep b))) (rowZ (Z.of_N (ep b)) + forward (opp c)) = Z.of_N (victim c (ep b))).
  { clear - R. unfold sq_of, fileZ, rowZ, victim. destruct R as [(-> & A)|(-> & A)]; cbn [opp forward];
      Z.to_euclidean_division_equations; lia. }
  rewrite Ev in H2. assert (Hv64 : victim c (ep b) < 64) by (clear - R; unfold victim; destruct R as [(-> & A)|(-> & A)]; lia).
  rewrite (get_f _ Hv64) in H2. destruct (f (victim c (ep b))) as [[c' k']|]; [|discriminate].
  apply andb_true_iff in H2 as [A B]. apply color_eqb_eq in A. apply kind_eqb_eq in B. now subst.
Qed.

Lemma turn_cases_c : (turn b = 0 /\ c = White /\ is_white_turn b = true) \/ (turn b = 1 /\ c = Black /\ is_white_turn b = false).
Proof.
  destruct (turn01 b Hwf Hrw) as [E|E]; [left|right]; (split; [exact E|]); unfold c, col_of, is_white_turn, WHITE; now rewrite E.
Qed.

Lemma king_dirs_file d : In d KING_DIRS -> (-1 <= fst d <= 1)%Z.
Proof. cbn. intros [<-|[<-|[<-|[<-|[<-|[<-|[<-|[<-|[]]]]]]]]]; cbn; lia. Qed.

Lemma pawn_dirs_cases d : In d (pawn_dirs c) -> (fst d = -1 \/ fst d = 1)%Z /\ snd d = forward c.
Proof. destruct c; cbn; intros [<-|[<-|[]]]; cbn; auto. Qed.

Lemma piece_sets s pc att : s < 64 -> In (pc, att) (piece_attack_sets T b s) ->
  exists k, pc = kindN k /\ k <> Pawn /\ (forall t, N.testbit att t = true -> t < 64) /\
    (k = King -> forall t, N.testbit att t = true ->
       exists d, In d KING_DIRS /\ fileZ (Z.of_N t) = (fileZ (Z.of_N s) + fst d)%Z).
Proof.
  intros Hs Hin. unfold piece_attack_sets in Hin. cbv zeta in Hin. unfold rook_attacks, bishop_attacks in Hin.
  destruct (generic_slider_values T OK s (N.lor (full_occ (active b)) (full_occ (passive b))) Hs) as [Er Eb].
  rewrite Er, Eb in Hin. destruct (generic_leapers T OK s Hs) as (Ek & En & _ & _). rewrite Ek, En in Hin.
  cbn [In] in Hin. destruct Hin as [E|[E|[E|[E|[E|[E|[]]]]]]];
    pose proof (f_equal fst E) as X1; pose proof (f_equal snd E) as X2; cbn [fst snd] in X1, X2; subst pc att; clear E.
  - exists Queen. split; [reflexivity|]. split; [discriminate|]. split; [intros t Ht; eapply ray_attacks_lt64; eassumption|intros X; discriminate X].
  - exists Queen. split; [reflexivity|]. split; [discriminate|]. split; [intros t Ht; eapply ray_attacks_lt64; eassumption|intros X; discriminate X].
  - exists Bishop. split; [reflexivity|]. split; [discriminate|]. split; [intros t Ht; eapply ray_attacks_lt64; eassumption|intros X; discriminate X].
  - exists Rook. split; [reflexivity|]. split; [discriminate|]. split; [intros t Ht; eapply ray_attacks_lt64; eassumption|intros X; discriminate X].
  - exists Knight. split; [reflexivity|]. split; [discriminate|]. split; [intros t Ht; eapply step_attacks_lt64; eassumption|intros X; discriminate X].
  - exists King. split; [reflexivity|]. split; [discriminate|]. split.
    + intros t Ht. eapply step_attacks_lt64; eassumption.
    + intros _ t Ht. destruct (step_file_row _ _ _ Ht) as (d & Hd & A & _). exists d. auto.
Qed.

Definition gen_ok (s t : N) (pc : N) (ic ie : bool) (pr epo : N) : Prop :=
  exists k, pc = kindN k /\ mfacts b s t k ic ie pr epo /\ (k = Pawn -> pr = NO_PIECE -> 8 <= t < 56) /\
            dbl_shape b s t k ic ie pr epo.

Lemma gen_piece s t pc att :
  In (pc, att) (piece_attack_sets T b s) -> N.testbit (occ_of (active b) pc) s = true ->
  N.testbit (clear att (full_occ (active b))) t = true -> gen_ok s t pc false false NO_PIECE NO_SQUARE.
Proof.
  intros Hin Hs Ht.
  assert (Hs64 : s < 64) by exact (testbit_lt _ 64 s (occ_of_lt _ pc (active_bounded b Hwf)) Hs).
  destruct (piece_sets s pc att Hs64 Hin) as (k & -> & Hk & Hlt & Hking).
  rewrite occ_of_kindN in Hs. apply act_cell in Hs.
  rewrite clear_testbit in Ht. apply andb_true_iff in Ht as [Hatt Hfree]. apply negb_true_iff in Hfree.
  pose proof (Hlt t Hatt) as Ht64.
  exists k. split; [reflexivity|]. split; [|split; [intros E; contradiction|intros E; exfalso; now apply E]].
  constructor; try assumption; try discriminate.
  - now apply act_full_cell.
  - intros E. pose proof (proj2 (pas_cell King t) E) as X. cbn [pbb] in X.
    rewrite (no_king_capture_piece T OK b s t (kindN k) att Hwf Hv Hin) in X; [discriminate| |exact Hatt].
    rewrite occ_of_kindN. now apply act_cell.
  - apply (spec_not_castling s t NO_PIECE k Hs64 Hs). intros ->.
    destruct (Hking eq_refl t Hatt) as (d & Hd & E). apply king_dirs_file in Hd. apply Z.eqb_neq.
    clear - Hd E. lia.
  - now apply (spec_not_ep_kind s t NO_PIECE k Hs64 Hs).
  - now left.
  - split; [reflexivity|]. apply (spec_epo_none s t NO_PIECE k Hs64 Hs). intros E. contradiction.
Qed.

(* ---------- pawn captures ---------- *)
Lemma pawn_capture_geom s t : N.testbit (pawns (active b)) s = true -> N.testbit (pawn_capture_set T b s) t = true ->
  8 <= s < 56 /\ t < 64 /\ f s = Some (c, Pawn) /\ (forall k', f t <> Some (c, k')) /\ f t <> Some (opp c, King) /\
  (fileZ (Z.of_N t) =? fileZ (Z.of_N s))%Z = false /\ rowZ (Z.of_N t) = (rowZ (Z.of_N s) + forward c)%Z.
Proof.
  intros Hs Ht. pose proof (pawn_square_range b s Hwf Hs) as Hrange.
  pose proof (no_king_capture_pawn T OK b s t Hwf Hv Hs Ht) as Hnk.
  unfold pawn_capture_set in Ht. cbv zeta in Ht. rewrite clear_testbit, N.land_spec in Ht.
  apply andb_true_iff in Ht as [Ht Hfree]. apply andb_true_iff in Ht as [Htbl _]. apply negb_true_iff in Hfree.
  assert (Etbl : leaper (if is_white_turn b then wpawn_tbl T else bpawn_tbl T) s = step_attacks (pawn_dirs c) s).
  { destruct (generic_leapers T OK s ltac:(lia)) as (_ & _ & Ew & Eb).
    destruct turn_cases_c as [(_ & -> & ->)|(_ & -> & ->)]; assumption. }
  rewrite Etbl in Htbl. destruct (step_file_row _ _ _ Htbl) as (d & Hd & A & B & Ht64).
  apply pawn_dirs_cases in Hd as [Hd1 Hd2].
  split; [exact Hrange|]. split; [exact Ht64|]. split; [now apply (act_cell Pawn s)|]. split; [now apply act_full_cell|].
  split; [intros E; apply pas_cell in E; cbn [pbb] in E; congruence|]. split.
  - apply Z.eqb_neq. clear - A Hd1. lia.
  - rewrite B, Hd2. reflexivity.
Qed.

Lemma row_step_not2 s t : rowZ (Z.of_N t) = (rowZ (Z.of_N s) + forward c)%Z ->
  (Z.abs (rowZ (Z.of_N t) - rowZ (Z.of_N s)) =? 2)%Z = false.
Proof. intros ->. apply Z.eqb_neq. clear. destruct c; cbn [forward]; lia. Qed.

Lemma rank18_bits t : t < 64 ->
  nz (N.land (bit t) (RANK_8 T)) || nz (N.land (bit t) (RANK_1 T)) = negb ((8 <=? t) && (t <? 56)).
Proof.
  intros Ht. destruct ranks_elim as (E1' & E8' & _ & _). rewrite !nz_bit_land, E1', E8'.
  apply eq_iff_eq_true. rewrite orb_true_iff, rank8_range, rank1_range, negb_true_iff, andb_false_iff, N.leb_gt, N.ltb_ge. lia.
Qed.

Lemma gen_capture_promo s t pr :
  N.testbit (pawns (active b)) s = true -> N.testbit (pawn_capture_set T b s) t = true ->
  nz (N.land (bit t) (RANK_8 T)) || nz (N.land (bit t) (RANK_1 T)) = true -> In pr PROMO_PIECES ->
  gen_ok s t PAWN false false pr NO_SQUARE.
Proof.
  intros Hs Ht Hrk Hpr. destruct (pawn_capture_geom s t Hs Ht) as (Hsr & Ht64 & Hsrc & Hno & Hnk & Hfile & Hrow).
  rewrite (rank18_bits t Ht64) in Hrk. apply negb_true_iff, andb_false_iff in Hrk. rewrite N.leb_gt, N.ltb_ge in Hrk.
  assert (Hs64 : s < 64) by lia.
  exists Pawn. split; [reflexivity|]. split; [|split].
  - constructor; try assumption; try discriminate.
    + now apply (spec_not_castling s t pr Pawn Hs64 Hsrc).
    + rewrite (spec_ep_pawn s t pr Hs64 Hsrc). destruct (N.eqb_spec (ep b) 0) as [E|E]; [reflexivity|].
      destruct (ep_facts E) as (_ & _ & R). destruct (N.eqb_spec t (ep b)) as [Et|Et]; [|reflexivity].
      exfalso. clear - R Et Hrk. lia.
    + right. now split.
    + split; [reflexivity|]. apply (spec_epo_none s t pr Pawn Hs64 Hsrc). intros _. now apply row_step_not2.
  - intros _ E. exfalso. subst pr. cbn in Hpr. unfold NO_PIECE, QUEEN, ROOK, BISHOP, KNIGHT in Hpr. clear - Hpr. lia.
  - intros E. exfalso. now apply E.
Qed.

Lemma gen_capture s t :
  N.testbit (pawns (active b)) s = true -> N.testbit (pawn_capture_set T b s) t = true ->
  nz (N.land (bit t) (RANK_8 T)) || nz (N.land (bit t) (RANK_1 T)) = false ->
  gen_ok s t PAWN false (t =? ep b) NO_PIECE NO_SQUARE.
Proof.
  intros Hs Ht Hrk. destruct (pawn_capture_geom s t Hs Ht) as (Hsr & Ht64 & Hsrc & Hno & Hnk & Hfile & Hrow).
  rewrite (rank18_bits t Ht64) in Hrk. apply negb_false_iff, andb_true_iff in Hrk. rewrite N.leb_le, N.ltb_lt in Hrk.
  assert (Hs64 : s < 64) by lia.
  assert (Eie : is_ep_capture (abs b) (the_mv s t NO_PIECE) = (t =? ep b)).
  { rewrite (spec_ep_pawn s t NO_PIECE Hs64 Hsrc), Hfile. cbn [negb]. rewrite andb_true_r.
    destruct (N.eqb_spec t (ep b)) as [Et|Et]; [|apply andb_false_r].
    destruct (N.eqb_spec (ep b) 0) as [E|E]; [exfalso; clear - E Et Hrk; lia|reflexivity]. }
  exists Pawn. split; [reflexivity|]. split; [|split].
  - constructor; try assumption; try discriminate.
    + now apply (spec_not_castling s t NO_PIECE Pawn Hs64 Hsrc).
    + intros E. apply N.eqb_eq in E. split; [reflexivity|]. split; [reflexivity|].
      assert (E0 : ep b <> 0) by (clear - E Hrk; lia).
      destruct (ep_facts E0) as (A & B & R). rewrite <- E in A, B.
      split; [exact A|]. split; [exact B|]. split; [exact Hrk|].
      fold c. unfold victim. destruct turn_cases_c as [(_ & Ec & _)|(_ & Ec & _)]; rewrite Ec in Hrow |- *; cbn [forward] in Hrow;
        clear - Hrow Hrk; unfold sq_of, fileZ, rowZ in *; Z.to_euclidean_division_equations; lia.
    + now left.
    + split; [reflexivity|]. apply (spec_epo_none s t NO_PIECE Pawn Hs64 Hsrc). intros _. now apply row_step_not2.
  - intros _ _. exact Hrk.
  - intros E. exfalso. now apply E.
Qed.

(* ---------- pawn pushes ---------- *)
Lemma single_push_eq s : N.testbit (pawns (active b)) s = true ->
  8 <= s < 56 /\ f s = Some (c, Pawn) /\ single_push b s = bit (match c with White => s - 8 | Black => s + 8 end).
Proof.
  intros Hs. pose proof (pawn_square_range b s Hwf Hs) as R. split; [exact R|]. split; [now apply (act_cell Pawn s)|].
  unfold single_push. destruct turn_cases_c as [(_ & -> & ->)|(_ & -> & ->)].
  - rewrite bit_shiftr8. destruct (N.leb_spec 8 s); [reflexivity|lia].
  - rewrite bit_shiftl8. destruct (N.ltb_spec (s + 8) 64); [reflexivity|lia].
Qed.

Lemma push_geom s t : 8 <= s < 56 -> t = (match c with White => s - 8 | Black => s + 8 end) ->
  t < 64 /\ (fileZ (Z.of_N t) =? fileZ (Z.of_N s))%Z = true /\ rowZ (Z.of_N t) = (rowZ (Z.of_N s) + forward c)%Z.
Proof.
  intros R ->. split; [destruct c; lia|]. split.
  - apply Z.eqb_eq. clear - R. unfold fileZ. destruct c; Z.to_euclidean_division_equations; lia.
  - clear - R. unfold rowZ. destruct c; cbn [forward]; Z.to_euclidean_division_equations; lia.
Qed.

Lemma push_common s t pr : N.testbit (pawns (active b)) s = true -> N.land (single_push b s) (all_occ b) = 0 ->
  t = ctz64 (single_push b s) -> pr = NO_PIECE \/ In pr PROMO_PIECES ->
  mfacts b s t Pawn false false pr NO_SQUARE /\ 8 <= s < 56 /\ t = (match c with White => s - 8 | Black => s + 8 end).
Proof.
  intros Hs Hfree Et Hpr. destruct (single_push_eq s Hs) as (R & Hsrc & Esp).
  rewrite Esp, ctz64_bit in Et. destruct (push_geom s t R Et) as (Ht64 & Hfile & Hrow).
  assert (Hs64 : s < 64) by lia.
  assert (Hte : f t = None).
  { apply (land0_free _ t Hfree). rewrite Esp, <- Et, bit_spec. apply N.eqb_refl. }
  split; [|split; [exact R|exact Et]].
  constructor; try assumption; try discriminate.
  - intros k'. fold f. rewrite Hte. discriminate.
  - fold f. rewrite Hte. discriminate.
  - now apply (spec_not_castling s t pr Pawn Hs64 Hsrc).
  - rewrite (spec_ep_pawn s t pr Hs64 Hsrc), Hfile. cbn [negb]. apply andb_false_r.
  - destruct Hpr as [E|E]; [now left|right; now split].
  - split; [reflexivity|]. apply (spec_epo_none s t pr Pawn Hs64 Hsrc). intros _. now apply row_step_not2.
Qed.

Lemma gen_push_promo s pr : N.testbit (pawns (active b)) s = true -> N.land (single_push b s) (all_occ b) = 0 ->
  In pr PROMO_PIECES -> gen_ok s (ctz64 (single_push b s)) PAWN false false pr NO_SQUARE.
Proof.
  intros Hs Hfree Hpr. destruct (push_common s _ pr Hs Hfree eq_refl (or_intror Hpr)) as (M & _ & _).
  exists Pawn. split; [reflexivity|]. split; [exact M|]. split.
  - intros _ E. exfalso. subst pr. cbn in Hpr. unfold NO_PIECE, QUEEN, ROOK, BISHOP, KNIGHT in Hpr. clear - Hpr. lia.
  - intros E. exfalso. now apply E.
Qed.

Lemma gen_push s : N.testbit (pawns (active b)) s = true -> N.land (single_push b s) (all_occ b) = 0 ->
  nz (N.land (single_push b s) (promote_rank T b)) = false ->
  gen_ok s (ctz64 (single_push b s)) PAWN false false NO_PIECE NO_SQUARE.
Proof.
  intros Hs Hfree Hrk. destruct (push_common s _ NO_PIECE Hs Hfree eq_refl (or_introl eq_refl)) as (M & R & Et).
  exists Pawn. split; [reflexivity|]. split; [exact M|]. split.
  - intros _ _. destruct (single_push_eq s Hs) as (_ & _ & Esp). rewrite Esp in Hrk. rewrite Et.
    destruct ranks_elim as (E1' & E8' & _ & _). unfold promote_rank in Hrk. rewrite nz_bit_land in Hrk.
    destruct turn_cases_c as [(_ & Ec & Ew)|(_ & Ec & Ew)]; rewrite Ew in Hrk; rewrite Ec in *.
    + rewrite E8' in Hrk. assert (X : ~ s - 8 < 8) by (intros X; apply rank8_range in X; congruence). clear - X R. lia.
    + rewrite E1' in Hrk. assert (X : ~ 56 <= s + 8 < 64) by (intros X; apply rank1_range in X; congruence). clear - X R. lia.
  - intros E. exfalso. now apply E.
Qed.

Lemma gen_double s : N.testbit (pawns (active b)) s = true -> N.land (single_push b s) (all_occ b) = 0 ->
  nz (N.land (bit s) (double_rank T b)) = true -> N.land (double_push b s) (all_occ b) = 0 ->
  gen_ok s (ctz64 (double_push b s)) PAWN false false NO_PIECE (ctz64 (single_push b s)).
Proof.
  intros Hs Hfree Hdr Hfree2. destruct (single_push_eq s Hs) as (R & Hsrc & Esp).
  destruct ranks_elim as (_ & _ & E2' & E7'). unfold double_rank in Hdr. rewrite nz_bit_land in Hdr.
  assert (Hs64 : s < 64) by lia.
  assert (G : (c = White /\ 48 <= s < 56 /\ double_push b s = bit (s - 16) /\ single_push b s = bit (s - 8)) \/
              (c = Black /\ 8 <= s < 16 /\ double_push b s = bit (s + 16) /\ single_push b s = bit (s + 8))).
  { unfold double_push. rewrite Esp. destruct turn_cases_c as [(_ & Ec & Ew)|(_ & Ec & Ew)]; rewrite Ew in *; rewrite Ec in *.
    - left. rewrite E2' in Hdr. apply rank2_range in Hdr. split; [reflexivity|]. split; [exact Hdr|]. split; [|reflexivity].
      rewrite bit_shiftr8. destruct (N.leb_spec 8 (s - 8)); [|lia]. f_equal. lia.
    - right. rewrite E7' in Hdr. apply rank7_range in Hdr. split; [reflexivity|]. split; [exact Hdr|]. split; [|reflexivity].
      rewrite bit_shiftl8. destruct (N.ltb_spec (s + 8 + 8) 64); [|lia]. f_equal. lia. }
  set (t := ctz64 (double_push b s)). set (e := ctz64 (single_push b s)).
  assert (G' : (c = White /\ 48 <= s < 56 /\ t = s - 16 /\ e = s - 8) \/ (c = Black /\ 8 <= s < 16 /\ t = s + 16 /\ e = s + 8)).
  { unfold t, e. destruct G as [(A & B & C & D)|(A & B & C & D)]; rewrite C, D, !ctz64_bit; [left|right]; auto. }
  assert (Hte : f t = None).
  { apply (land0_free _ t Hfree2). unfold t. destruct G as [(_ & _ & C & _)|(_ & _ & C & _)]; rewrite C, ctz64_bit, bit_spec; apply N.eqb_refl. }
  assert (Hee : f e = None).
  { apply (land0_free _ e Hfree). unfold e. destruct G as [(_ & _ & _ & C)|(_ & _ & _ & C)]; rewrite C, ctz64_bit, bit_spec; apply N.eqb_refl. }
  assert (Ht64 : t < 64) by (clear - G'; destruct G' as [(_ & A & -> & _)|(_ & A & -> & _)]; lia).
  assert (Hfile : (fileZ (Z.of_N t) =? fileZ (Z.of_N s))%Z = true).
  { apply Z.eqb_eq. clear - G'. unfold fileZ. destruct G' as [(_ & A & -> & _)|(_ & A & -> & _)]; Z.to_euclidean_division_equations; lia. }
  exists Pawn. split; [reflexivity|]. split; [|split].
  - constructor; try assumption; try discriminate.
    + intros k'. fold f. rewrite Hte. discriminate.
    + fold f. rewrite Hte. discriminate.
    + now apply (spec_not_castling s t NO_PIECE Pawn Hs64 Hsrc).
    + rewrite (spec_ep_pawn s t NO_PIECE Hs64 Hsrc), Hfile. cbn [negb]. apply andb_false_r.
    + now left.
    + split; [clear - G'; destruct G' as [(_ & A & _ & ->)|(_ & A & _ & ->)]; lia|].
      unfold is_pawn_move. change (from (the_mv s t NO_PIECE)) with (Z.of_N s). rewrite (get_f s Hs64), Hsrc.
      cbn [andb].
      assert (E0 : (e =? 0) = false) by (apply N.eqb_neq; clear - G'; destruct G' as [(_ & A & _ & ->)|(_ & A & _ & ->)]; lia).
      rewrite E0.
      assert (Erow : (Z.abs (rowZ (Z.of_N t) - rowZ (Z.of_N s)) =? 2)%Z = true).
      { apply Z.eqb_eq. clear - G'. unfold rowZ. destruct G' as [(_ & A & -> & _)|(_ & A & -> & _)]; Z.to_euclidean_division_equations; lia. }
      rewrite Erow. f_equal. clear - G'. unfold sq_of, fileZ, rowZ.
      destruct G' as [(_ & A & -> & ->)|(_ & A & -> & ->)]; Z.to_euclidean_division_equations; lia.
  - intros _ _. clear - G'. destruct G' as [(_ & A & -> & _)|(_ & A & -> & _)]; lia.
  - intros _. repeat split; try reflexivity; [exact Hee|exact G'].
Qed.

(* ---------- castling ---------- *)
Lemma castle_empty e x : N.land (all_occ b) e = 0 -> N.testbit e x = true -> f x = None.
Proof. intros H Hx. apply all_occ_free. exact (land_0_testbit _ _ x H Hx). Qed.

Lemma castle_tables :
  N.testbit (wq_empty T) 58 = true /\ N.testbit (wq_empty T) 59 = true /\ N.testbit (wk_empty T) 61 = true /\
  N.testbit (wk_empty T) 62 = true /\ N.testbit (bq_empty T) 2 = true /\ N.testbit (bq_empty T) 3 = true /\
  N.testbit (bk_empty T) 5 = true /\ N.testbit (bk_empty T) 6 = true.
Proof.
  unfold tables_castle_ok in HC. rewrite !andb_true_iff in HC.
  destruct HC as (((((((T1 & T2) & T3) & T4) & T5) & T6) & T7) & T8). repeat split; assumption.
Qed.

Lemma gen_castle s t rf rt :
  ((s = 60 /\ c = White) \/ (s = 4 /\ c = Black)) ->
  f s = Some (c, King) -> f rf = Some (c, Rook) -> f rt = None -> f t = None ->
  is_castling (abs b) (the_mv s t NO_PIECE) = true ->
  castle_shape b s t -> gen_ok s t KING true false NO_PIECE NO_SQUARE.
Proof.
  intros Hsc Hsrc Hrf Hrt Hte Hic Hshape.
  assert (Hs64 : s < 64) by (eapply cell_lt; exact Hsrc).
  assert (Ht64 : t < 64).
  { destruct Hshape as [S1|[S1|[S1|S1]]]; destruct S1 as (_ & _ & -> & _); reflexivity. }
  exists King. split; [reflexivity|]. split; [|split].
  - constructor; try assumption; try discriminate.
    + intros k'. fold f. rewrite Hte. discriminate.
    + fold f. rewrite Hte. discriminate.
    + now apply (spec_not_ep_kind s t NO_PIECE King Hs64 Hsrc).
    + intros _. repeat split; try reflexivity. exact Hshape.
    + now left.
    + split; [reflexivity|]. apply (spec_epo_none s t NO_PIECE King Hs64 Hsrc). discriminate.
  - discriminate.
  - intros E. exfalso. now apply E.
Qed.

Lemma is_castling_const s t : f s = Some (c, King) -> s < 64 ->
  (Z.abs (fileZ (Z.of_N t) - fileZ (Z.of_N s)) =? 2)%Z = true -> is_castling (abs b) (the_mv s t NO_PIECE) = true.
Proof.
  intros Hsrc Hs H. unfold is_castling. change (from (the_mv s t NO_PIECE)) with (Z.of_N s).
  change (to (the_mv s t NO_PIECE)) with (Z.of_N t). now rewrite (get_f s Hs), Hsrc.
Qed.

Theorem gen_mfacts s t pc ic ie pr epo : gen_case T b s t pc ic ie pr epo -> gen_ok s t pc ic ie pr epo.
Proof.
  intros Hc. destruct (rights_cells b Hwf Hrw) as (R1 & R2 & R3 & R4). fold f in R1, R2, R3, R4.
  destruct castle_tables as (T1 & T2 & T3 & T4 & T5 & T6 & T7 & T8).
  destruct Hc as [s t pc att Hin Hs Ht | s t pr Hs Ht Hrk Hpr | s t Hs Ht Hrk | s pr Hs Hfree Hrk Hpr
                 | s Hs Hfree Hrk | s Hs Hfree Hrk Hdr Hfree2 | Hwt Hq He | Hwt Hq He | Hwt Hq He | Hwt Hq He].
  - now apply (gen_piece s t pc att).
  - now apply gen_capture_promo.
  - now apply gen_capture.
  - now apply gen_push_promo.
  - now apply gen_push.
  - now apply gen_double.
  - assert (Ec : c = White) by (destruct turn_cases_c as [(_ & A & B)|(_ & A & B)]; [exact A|congruence]).
    destruct (R2 Hq) as [Y1 Y2]. rewrite <- Ec in Y1, Y2.
    pose proof (castle_empty _ 58 He T1) as F1. pose proof (castle_empty _ 59 He T2) as F2.
    apply (gen_castle 60 58 56 59); auto.
    + apply is_castling_const; [exact Y2|reflexivity|reflexivity].
    + right. left. repeat split; assumption.
  - assert (Ec : c = White) by (destruct turn_cases_c as [(_ & A & B)|(_ & A & B)]; [exact A|congruence]).
    destruct (R1 Hq) as [Y1 Y2]. rewrite <- Ec in Y1, Y2.
    pose proof (castle_empty _ 61 He T3) as F1. pose proof (castle_empty _ 62 He T4) as F2.
    apply (gen_castle 60 62 63 61); auto.
    + apply is_castling_const; [exact Y2|reflexivity|reflexivity].
    + left. repeat split; assumption.
  - assert (Ec : c = Black) by (destruct turn_cases_c as [(_ & A & B)|(_ & A & B)]; [congruence|exact A]).
    destruct (R4 Hq) as [Y1 Y2]. rewrite <- Ec in Y1, Y2.
    pose proof (castle_empty _ 2 He T5) as F1. pose proof (castle_empty _ 3 He T6) as F2.
    apply (gen_castle 4 2 0 3); auto.
    + apply is_castling_const; [exact Y2|reflexivity|reflexivity].
    + right. right. right. repeat split; assumption.
  - assert (Ec : c = Black) by (destruct turn_cases_c as [(_ & A & B)|(_ & A & B)]; [congruence|exact A]).
    destruct (R3 Hq) as [Y1 Y2]. rewrite <- Ec in Y1, Y2.
    pose proof (castle_empty _ 5 He T7) as F1. pose proof (castle_empty _ 6 He T8) as F2.
    apply (gen_castle 4 6 7 5); auto.
    + apply is_castling_const; [exact Y2|reflexivity|reflexivity].
    + right. right. left. repeat split; assumption.
Qed.

End Gen.

(* ================================================================== *)
(* 6. the theorems                                                     *)
(* ================================================================== *)
Lemma make_meta b m b' : make b m = Some b' ->
  half b' = (if half_reset m then 0 else half b + 1) /\ full b' = full b + turn b /\
  turn b' = opposite (turn b) /\ ep b' = next_ep m.
Proof.
  rewrite make_split. destruct (sides_make _ _ _ m) as [[a p]|]; [|discriminate]. intros [= <-].
  unfold assemble. destruct (is_white_turn b); repeat split; reflexivity.
Qed.

(* no panic: `make` returns, and the u32 clocks do not overflow below u32::MAX *)
Theorem C02_make_total (T : Tables.t) (HC : tables_castle_ok T = true) b m : wf b = true -> rights_wf b = true -> In m (gen_pseudo T b) ->
  half b < 2 ^ 32 - 1 -> full b < 2 ^ 32 - 1 ->
  exists b', make b m = Some b' /\ make_overflows b m = false.
Proof.
  intros Hwf Hrw Hin Hh Hf.
  destruct (generated_roundtrip T b m Hwf Hrw HC (gen_pseudo_cases T b m Hin)) as (a & p & Hs & _).
  rewrite make_split, Hs. eexists. split; [reflexivity|].
  unfold make_overflows. pose proof (wf_turn b Hwf) as Ht. change (2 ^ 32) with 4294967296 in *.
  clear - Ht Hh Hf. apply orb_false_iff. split; [apply N.leb_gt; lia|]. apply andb_false_iff. right. apply N.leb_gt. lia.
Qed.

Section Main.
Variable T : Tables.t.
Hypothesis OK : tables_attacks_ok T = true.
Hypothesis HC : tables_castle_ok T = true.
Hypothesis HR : tables_ranks_ok T = true.

(* one step of a game: the successor exists, is the one the rules define, and satisfies the invariants again
   (except "the side not to move is not in check", which is exactly the legality of m) *)
Theorem C02_step b m : wf b = true -> rights_wf b = true -> ep_ok b -> is_valid T b = true -> In m (gen_pseudo T b) ->
  exists b', make b m = Some b' /\ abs b' = Rules.apply (abs b) (uci_of m) /\
             wf b' = true /\ rights_wf b' = true /\ ep_ok b'.
Proof.
  intros Hwf Hrw Hep Hv Hin. apply gen_pseudo_cases in Hin as (s & t & pc & ic & ie & pr & epo & Hc & ->).
  destruct (gen_mfacts T OK HC HR b Hwf Hrw Hep Hv s t pc ic ie pr epo Hc) as (k & -> & M & Hp & Hd).
  assert (Hm : exists b', make b (mk T b s t (kindN k) ic ie pr epo) = Some b').
  { rewrite make_split. destruct (model_sides T b Hwf Hrw s t k ic ie pr epo M) as (a' & p' & Hsd & _).
    cbv zeta in Hsd. rewrite Hsd. eexists. reflexivity. }
  destruct Hm as (b' & Hm). exists b'. split; [exact Hm|].
  destruct (core_exact T b Hwf Hrw s t k ic ie pr epo M b' Hm) as (Hex & _).
  destruct (core_inv T b Hwf Hrw s t k ic ie pr epo M b' Hm Hp Hd) as (A & B & C).
  repeat split; assumption.
Qed.

Theorem C02_make_exact b m b' :
  wf b = true -> rights_wf b = true -> ep_ok b -> is_valid T b = true -> In m (gen_pseudo T b) ->
  make b m = Some b' -> abs b' = Rules.apply (abs b) (uci_of m).
Proof.
  intros Hwf Hrw Hep Hv Hin Hm. destruct (C02_step b m Hwf Hrw Hep Hv Hin) as (b1 & Hm1 & Hex & _).
  rewrite Hm in Hm1. injection Hm1 as <-. exact Hex.
Qed.

(* the position invariants are inherited by the successor of ANY pseudo-legal move ... *)
Theorem C02_make_inv b m b' :
  wf b = true -> rights_wf b = true -> ep_ok b -> is_valid T b = true -> In m (gen_pseudo T b) ->
  make b m = Some b' -> wf b' = true /\ rights_wf b' = true /\ ep_ok b'.
Proof.
  intros Hwf Hrw Hep Hv Hin Hm. destruct (C02_step b m Hwf Hrw Hep Hv Hin) as (b1 & Hm1 & _ & H).
  rewrite Hm in Hm1. injection Hm1 as <-. exact H.
Qed.

(* ... and the full invariant by the successor of a LEGAL move *)
Definition pos_inv (b : board) : Prop := wf b = true /\ rights_wf b = true /\ ep_ok b /\ is_valid T b = true.

Theorem C02_invariant_preserved b m b' : pos_inv b -> In m (gen_pseudo T b) -> make b m = Some b' ->
  is_valid T b' = true -> pos_inv b'.
Proof.
  intros (Hwf & Hrw & Hep & Hv) Hin Hm Hv'. destruct (C02_make_inv b m b' Hwf Hrw Hep Hv Hin Hm) as (A & B & C).
  repeat split; assumption.
Qed.

(* the exact overflow condition, for reference *)
Lemma make_overflows_iff b m :
  make_overflows b m = true <-> 2 ^ 32 <= full b + turn b \/ (half_reset m = false /\ 2 ^ 32 <= half b + 1).
Proof.
  unfold make_overflows. change (2 ^ 32) with 4294967296.
  rewrite orb_true_iff, andb_true_iff, negb_true_iff, !N.leb_le. tauto.
Qed.

(* what an observer sees: the FEN text of the successor is the FEN text of the rules' successor *)
Theorem C02_fen_observed b m b' :
  wf b = true -> rights_wf b = true -> ep_ok b -> is_valid T b = true -> In m (gen_pseudo T b) ->
  make b m = Some b' -> print_fen b' = Some (FenSpec.render (Rules.apply (abs b) (uci_of m))).
Proof.
  intros Hwf Hrw Hep Hv Hin Hm. destruct (C02_step b m Hwf Hrw Hep Hv Hin) as (b1 & Hm1 & Hex & Hwf' & _).
  rewrite Hm in Hm1. injection Hm1 as <-. rewrite <- Hex. apply print_is_render. now apply C12_wf_disjoint.
Qed.

(* whole games: every position reached by legal moves satisfies the invariant, and each step is the rules' step *)
Fixpoint legal_line (b : board) (ms : list move) : Prop :=
  match ms with
  | [] => True
  | m :: r => In m (gen_pseudo T b) /\ exists b', make b m = Some b' /\ is_valid T b' = true /\ legal_line b' r
  end.

Fixpoint spec_line (p : pos) (ms : list move) : pos :=
  match ms with [] => p | m :: r => spec_line (Rules.apply p (uci_of m)) r end.

Theorem C02_game ms : forall b b', pos_inv b -> legal_line b ms -> make_all b ms = Some b' ->
  pos_inv b' /\ abs b' = spec_line (abs b) ms.
Proof.
  induction ms as [|m r IH]; intros b b' Hinv Hl Hm; cbn [make_all legal_line spec_line] in *.
  - injection Hm as <-. split; [exact Hinv|reflexivity].
  - destruct Hl as (Hin & b1 & Hm1 & Hv1 & Hl1). rewrite Hm1 in Hm.
    pose proof (C02_invariant_preserved b m b1 Hinv Hin Hm1 Hv1) as Hinv1.
    destruct Hinv as (Hwf & Hrw & Hep & Hv).
    rewrite <- (C02_make_exact b m b1 Hwf Hrw Hep Hv Hin Hm1). now apply IH.
Qed.

End Main.

(* ================================================================== *)
(* 7. the tables of the current /repo; the hypotheses are necessary    *)
(* ================================================================== *)
Require Ink.Gen.Tables Ink.Gen.SweepAll.

Lemma gen_tables_ranks_ok : tables_ranks_ok gen_tables = true.
Proof. vm_compute. reflexivity. Qed.

(* D19: a clock at u32::MAX overflows (debug profile: panic) *)
Definition cx_max_half_board : board :=
  board_of_text (lit "rnbqkbnr/pppppppp/8/8/8/8/PPPPPPPP/RNBQKBNR w KQkq - 4294967295 1").
Definition cx_max_half_move : move := pick_move cx_max_half_board (fun m => piece_moved m =? KNIGHT).
Definition cx_max_full_board : board :=
  board_of_text (lit "rnbqkbnr/pppppppp/8/8/8/8/PPPPPPPP/RNBQKBNR b KQkq - 0 4294967295").
Definition cx_max_full_move : move := pick_move cx_max_full_board (fun m => piece_moved m =? KNIGHT).

Lemma C02_clocks_refuted_at_max :
  (exists b m, wf b = true /\ rights_wf b = true /\ ep_ok b /\ is_valid gen_tables b = true /\
               In m (gen_pseudo gen_tables b) /\ half b = 2 ^ 32 - 1 /\ make_overflows b m = true) /\
  (exists b m, wf b = true /\ rights_wf b = true /\ ep_ok b /\ is_valid gen_tables b = true /\
               In m (gen_pseudo gen_tables b) /\ full b = 2 ^ 32 - 1 /\ make_overflows b m = true).
Proof.
  split.
  - exists cx_max_half_board, cx_max_half_move.
    split; [vm_compute; reflexivity|]. split; [vm_compute; reflexivity|]. split; [vm_compute; reflexivity|].
    split; [vm_compute; reflexivity|]. split; [apply pick_move_In; vm_compute; reflexivity|].
    split; vm_compute; reflexivity.
  - exists cx_max_full_board, cx_max_full_move.
    split; [vm_compute; reflexivity|]. split; [vm_compute; reflexivity|]. split; [vm_compute; reflexivity|].
    split; [vm_compute; reflexivity|]. split; [apply pick_move_In; vm_compute; reflexivity|].
    split; vm_compute; reflexivity.
Qed.

(* ep_ok is necessary: e.p. square e3 with a white knight standing ON it and nothing on e4.  The generator emits
   d4xe3 as an e.p. capture; the model leaves the knight where it is (two pieces on e3), the rules replace it. *)
Definition cx_epok_board : board := board_of_text (lit "4k3/8/8/8/3p4/4N3/8/4K3 b - e3 0 1").
Definition cx_epok_move : move := pick_move cx_epok_board ep_attack.

Lemma C02_needs_ep_ok : exists b m b',
  wf b = true /\ rights_wf b = true /\ is_valid gen_tables b = true /\ ep_consistent (abs b) = false /\
  In m (gen_pseudo gen_tables b) /\ make b m = Some b' /\
  wf b' = false /\ abs b' <> Rules.apply (abs b) (uci_of m).
Proof.
  exists cx_epok_board, cx_epok_move, (after_make cx_epok_board cx_epok_move).
  split; [vm_compute; reflexivity|]. split; [vm_compute; reflexivity|]. split; [vm_compute; reflexivity|].
  split; [vm_compute; reflexivity|]. split; [apply pick_move_In; vm_compute; reflexivity|].
  split; [vm_compute; reflexivity|]. split; [vm_compute; reflexivity|].
  intros E. apply (f_equal (fun p => get p 44%Z)) in E. vm_compute in E. discriminate.
Qed.

(* is_valid is necessary: black (not to move) is in check on the e-file; Re2xe8 takes the king on its home square.
   The model keeps black's castling rights (it only looks at a8/h8), the rules clear them, and no black king is left. *)
Definition cx_valid_board : board := board_of_text (lit "r3k2r/8/8/8/8/8/4R3/4K3 w kq - 0 1").
Definition cx_valid_move : move := pick_move cx_valid_board (fun m => (piece_moved m =? ROOK) && (dst m =? E8)).

Lemma C02_needs_valid : exists b m b',
  wf b = true /\ rights_wf b = true /\ ep_ok b /\ is_valid gen_tables b = false /\
  In m (gen_pseudo gen_tables b) /\ make b m = Some b' /\
  wf b' = false /\ bk (abs b') = true /\ bk (Rules.apply (abs b) (uci_of m)) = false.
Proof.
  exists cx_valid_board, cx_valid_move, (after_make cx_valid_board cx_valid_move).
  split; [vm_compute; reflexivity|]. split; [vm_compute; reflexivity|]. split; [vm_compute; reflexivity|].
  split; [vm_compute; reflexivity|]. split; [apply pick_move_In; vm_compute; reflexivity|].
  split; [vm_compute; reflexivity|]. split; [vm_compute; reflexivity|]. split; vm_compute; reflexivity.
Qed.

(* ================================================================== *)
(* 8. the invariant is `legal_pos` of the rules (on well-formed boards) *)
(* ================================================================== *)
Require Import FinFun.

Lemma filter_nil {A} (g : A -> bool) l : (forall y, In y l -> g y = false) -> filter g l = [].
Proof.
  induction l as [|a l IH]; intros H; cbn [filter]; [reflexivity|].
  rewrite (H a (or_introl eq_refl)). apply IH. intros y Hy. apply H. now right.
Qed.

Lemma filter_unique_length {A} (g : A -> bool) l x : NoDup l -> In x l ->
  (forall y, In y l -> (g y = true <-> y = x)) -> length (filter g l) = 1%nat.
Proof.
  induction l as [|a l IH]; intros ND Hin H; [destruct Hin|]. inversion ND as [|? ? Hn ND']; subst. cbn [filter].
  destruct Hin as [->|Hin].
  - rewrite (proj2 (H x (or_introl eq_refl)) eq_refl). cbn [length]. f_equal.
    rewrite filter_nil; [reflexivity|]. intros y Hy. destruct (g y) eqn:E; [|reflexivity].
    apply (H y (or_intror Hy)) in E. subst y. contradiction.
  - destruct (g a) eqn:E.
    + apply (H a (or_introl eq_refl)) in E. subst a. contradiction.
    + apply IH; [exact ND'|exact Hin|]. intros y Hy. apply H. now right.
Qed.

Lemma NoDup_squares : NoDup squares.
Proof. unfold squares. apply Injective_map_NoDup; [intros x y; apply Nat2Z.inj|apply seq_NoDup]. Qed.

Lemma is_piece_abs b x c k : x < 64 -> (is_piece (abs b) (Z.of_N x) c k = true <-> cell_of b x = Some (c, k)).
Proof.
  intros Hx. unfold is_piece. rewrite get_abs by exact Hx. destruct (cell_of b x) as [[c' k']|]; [|split; discriminate].
  rewrite andb_true_iff, color_eqb_eq, kind_eqb_eq. split; [intros [-> ->]; reflexivity|intros [= -> ->]; auto].
Qed.

Lemma count_king_abs b c : wf b = true -> count_kind (abs b) c King = 1%nat.
Proof.
  intros Hwf. unfold count_kind. pose proof (king_of_lt64 b c Hwf) as Hk.
  apply (filter_unique_length _ squares (Z.of_N (king_of b c)) NoDup_squares (in_squares_N _ Hk)).
  intros y Hy. apply in_squares in Hy. rewrite get_abs_Z by exact Hy.
  pose proof (wf_kingpos b c Hwf (Z.to_N y)) as K.
  destruct (cell_of b (Z.to_N y)) as [[c' k']|] eqn:E.
  - rewrite andb_true_iff, color_eqb_eq, kind_eqb_eq. split.
    + intros [-> <-]. assert (Z.to_N y = king_of b c') by now apply K. lia.
    + intros ->. rewrite N2Z.id in K, E. assert (X : Some (c', k') = Some (c, King)) by now apply K.
      injection X as -> ->. auto.
  - split; [discriminate|]. intros ->. rewrite N2Z.id in K, E. assert (X : @None piece = Some (c, King)) by now apply K.
    discriminate.
Qed.

Lemma pawn_rows_abs b : wf b = true ->
  forallb (fun s => negb (is_piece (abs b) s White Pawn || is_piece (abs b) s Black Pawn)) (map Z.of_nat (seq 0 8 ++ seq 56 8)) = true.
Proof.
  intros Hwf. apply forallb_forall. intros y Hy. apply in_map_iff in Hy as (n & <- & Hn).
  assert (R : (n < 8 \/ 56 <= n < 64)%nat) by (apply in_app_or in Hn as [Hn|Hn]; apply in_seq in Hn; lia).
  replace (Z.of_nat n) with (Z.of_N (N.of_nat n)) by lia.
  apply negb_true_iff, orb_false_iff. split.
  - destruct (is_piece (abs b) (Z.of_N (N.of_nat n)) White Pawn) eqn:E; [|reflexivity].
    apply is_piece_abs in E; [|lia]. apply (wf_pawn_rows b _ _ Hwf) in E. lia.
  - destruct (is_piece (abs b) (Z.of_N (N.of_nat n)) Black Pawn) eqn:E; [|reflexivity].
    apply is_piece_abs in E; [|lia]. apply (wf_pawn_rows b _ _ Hwf) in E. lia.
Qed.

Section LegalPos.
Variable T : Tables.t.
Hypothesis OK : tables_attacks_ok T = true.

Theorem legal_pos_iff b : wf b = true ->
  (legal_pos (abs b) = true <-> rights_wf b = true /\ ep_ok b /\ is_valid T b = true).
Proof.
  intros Hwf. unfold legal_pos. rewrite !andb_true_iff.
  rewrite length_cells_abs, !count_king_abs, (pawn_rows_abs b Hwf), <- (is_valid_spec T OK b Hwf) by exact Hwf.
  change (is_piece (abs b) 60) with (is_piece (abs b) (Z.of_N 60)). change (is_piece (abs b) 63) with (is_piece (abs b) (Z.of_N 63)).
  change (is_piece (abs b) 56) with (is_piece (abs b) (Z.of_N 56)). change (is_piece (abs b) 4) with (is_piece (abs b) (Z.of_N 4)).
  change (is_piece (abs b) 7) with (is_piece (abs b) (Z.of_N 7)). change (is_piece (abs b) 0) with (is_piece (abs b) (Z.of_N 0)).
  change (wk (abs b)) with (ks (white b)). change (wq (abs b)) with (qs (white b)).
  change (bk (abs b)) with (ks (black b)). change (bq (abs b)) with (qs (black b)).
  unfold ep_ok, rights_wf. rewrite !andb_true_iff.
  assert (P : forall x c k, x < 64 -> (is_piece (abs b) (Z.of_N x) c k = true <-> N.testbit (bb_of b c k) x = true)).
  { intros x c k Hx. rewrite (is_piece_abs b x c k Hx). now apply cell_of_iff. }
  assert (Q : forall (r : bool) x y c, x < 64 -> y < 64 ->
            (negb r || (is_piece (abs b) (Z.of_N x) c King && is_piece (abs b) (Z.of_N y) c Rook) = true <->
             negb r || (N.testbit (bb_of b c Rook) y && N.testbit (bb_of b c King) x) = true)).
  { intros r x y c Hx Hy. destruct r; cbn [negb orb]; [|tauto]. rewrite !andb_true_iff, (P x c King Hx), (P y c Rook Hy). tauto. }
  pose proof (Q (ks (white b)) 60 63 White eq_refl eq_refl) as Q1. pose proof (Q (qs (white b)) 60 56 White eq_refl eq_refl) as Q2.
  pose proof (Q (ks (black b)) 4 7 Black eq_refl eq_refl) as Q3. pose proof (Q (qs (black b)) 4 0 Black eq_refl eq_refl) as Q4.
  unfold bb_of in Q1, Q2, Q3, Q4. cbn [pside pbb] in Q1, Q2, Q3, Q4. unfold A1, H1, E1, A8, H8, E8.
  clear P Q. tauto.
Qed.

Hypothesis HC : tables_castle_ok T = true.
Hypothesis HR : tables_ranks_ok T = true.

(* the spec-level form (design name C01_reachable): legal positions stay legal along legal moves *)
Theorem C02_legal_pos_preserved b m b' : wf b = true -> legal_pos (abs b) = true ->
  In m (gen_pseudo T b) -> make b m = Some b' -> is_valid T b' = true ->
  wf b' = true /\ legal_pos (abs b') = true.
Proof.
  intros Hwf Hl Hin Hm Hv'. apply (legal_pos_iff b Hwf) in Hl as (Hrw & Hep & Hv).
  destruct (C02_make_inv T OK HC HR b m b' Hwf Hrw Hep Hv Hin Hm) as (A & B & C).
  split; [exact A|]. apply (legal_pos_iff b' A). repeat split; assumption.
Qed.

End LegalPos.

(* ================================================================== *)
(* 9. the hypothesis `Hpres` of Proofs/UciMovesProofs.v                 *)
(* ================================================================== *)
(* As stated there (good b := wf b /\ rights_wf b /\ half b < 4096, preserved by every legal move) it is FALSE:
   the clock bound is not inductive (4095 -> 4096), and `good` does not say that the side not to move is not in
   check, so a king capture is not excluded either.  What IS preserved is pos_inv, and the clock grows by at most 1. *)
Require Ink.Proofs.UciMovesProofs.

Definition cx_pres_board : board := board_of_text (lit "rnbqkbnr/pppppppp/8/8/8/8/PPPPPPPP/RNBQKBNR w KQkq - 4095 1").
Definition cx_pres_move : move := pick_move cx_pres_board (fun m => piece_moved m =? KNIGHT).

Lemma C02_Hpres_as_stated_is_false :
  ~ (forall b m b1, UciMovesProofs.good b -> In m (gen_pseudo gen_tables b) -> make b m = Some b1 ->
                    is_valid gen_tables b1 = true -> UciMovesProofs.good b1).
Proof.
  intros H.
  assert (G : UciMovesProofs.good cx_pres_board).
  { apply UciMovesProofs.goodb_spec. vm_compute. reflexivity. }
  assert (Hin : In cx_pres_move (gen_pseudo gen_tables cx_pres_board)) by (apply pick_move_In; vm_compute; reflexivity).
  assert (Hm : make cx_pres_board cx_pres_move = Some (after_make cx_pres_board cx_pres_move)) by (vm_compute; reflexivity).
  assert (Hv : is_valid gen_tables (after_make cx_pres_board cx_pres_move) = true) by (vm_compute; reflexivity).
  destruct (H _ _ _ G Hin Hm Hv) as (_ & _ & Hh). vm_compute in Hh. discriminate.
Qed.

Theorem C02_Hpres_fixed (T : Tables.t) :
  tables_attacks_ok T = true -> tables_castle_ok T = true -> tables_ranks_ok T = true ->
  forall b m b1, pos_inv T b -> In m (gen_pseudo T b) -> make b m = Some b1 -> is_valid T b1 = true ->
  pos_inv T b1 /\ half b1 <= half b + 1.
Proof.
  intros OK HC HR b m b1 Hinv Hin Hm Hv. split; [exact (C02_invariant_preserved T OK HC HR b m b1 Hinv Hin Hm Hv)|].
  destruct (make_meta b m b1 Hm) as (-> & _). destruct (half_reset m); lia.
Qed.

(* Abstraction from the bitboard model to the Spec's mailbox position. *)
Require Import NArith ZArith List Bool.
Require Import Ink.Lib.Bits Ink.Model.Board Ink.Spec.Rules.
Import ListNotations.
Open Scope N_scope.

Definition kind_of (piece : N) : option kind :=
  match piece with 1 => Some Pawn | 2 => Some Knight | 3 => Some Bishop | 4 => Some Rook | 5 => Some Queen | 6 => Some King | _ => None end.

Definition cell_of (b : board) (sq : N) : option piece :=
  match kind_of (piece_at (white b) sq) with
  | Some k => Some (White, k)
  | None => match kind_of (piece_at (black b) sq) with Some k => Some (Black, k) | None => None end
  end.

Definition abs (b : board) : pos :=
  {| cells := map (fun i => cell_of b (N.of_nat i)) (seq 0 64);
     to_move := if turn b =? 0 then White else Black;
     wk := ks (white b); wq := qs (white b); bk := ks (black b); bq := qs (black b);
     epsq := if ep b =? 0 then None else Some (Z.of_N (ep b));
     halfc := half b; fullc := full b |}.

Definition uci_of (m : move) : mv :=
  {| from := Z.of_N (src m); to := Z.of_N (dst m); prom := kind_of (promo m) |}.

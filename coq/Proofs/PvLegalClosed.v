(* Proofs/PvLegalClosed.v : the [key_family] hypothesis of C16_pv_legal, discharged for concrete searches.

   C16_pv_legal asks for a family K n zh b ("the main search may visit board b under table key zh with n plies of draft
   left") WITHOUT COLLISION:  K n1 zh b1 -> K n2 zh b2 -> b1 = b2.  For the boards of a search tree this is false from depth 3
   on: two move orders reach boards that differ only in the half-move clock (clock twins, Proofs/C08Sim.v), the clock is not
   part of the Zobrist key, and the transposition table hands the chain stored for one twin to the other.  From depth 4 on a
   shuffle A B A B returns to the root placement with BOTH counters changed (half-move clock + 4, full-move number + 2).

   Legality of the reported line survives this, but not literally:
     - move generation, make and the check test read neither counter, EXCEPT that every generated Move records the clock in
       its 12-bit prev_half field (C08_gen_pseudo_any_clock: gen_pseudo (set_half b h) = map (set_ph (h mod 4096)) (gen_pseudo b)).
       So the chain of a twin is NOT a list of generated moves of the other twin ([In m (gen_pseudo T b)] fails:
       [twin_moves_differ]), it is one up to that field ([line_legal_ph]).  `make` does not read prev_half ([make_ph]) and neither
       does the printed UCI move ([uci_set_ph]); only `unmake` reads it, and the search never unmakes a move of a stored chain.
     - so the walk of Proofs/SessionProofs.v part 3 is redone with [line_legal_ph] for the chains and with
         K n1 zh b1 -> K n2 zh b2 -> ctwin b1 b2
       ("equal keys: same bitboards, castling rights, side to move and e.p. square") in place of no_collision
       ([key_family_twin]).  Neither "same ply", nor the clock margin of sim_clock, nor the full-move number matters for legality.
       The reported line is then re-labelled with the prev_half fields of the actual positions ([line_legal_of_ph]): the
       conclusion is the one of C16_pv_legal.
   What remains a premise is a genuine 64-bit collision (two boards of the tree that are not ctwins under one key): it is
   inside the boolean checker.

   Part 1  moves up to prev_half; boards up to the counters [ctwin]; [line_legal_ph]
   Part 2  the walk (nm_loop / interior_node / negamax / deepening loop / go) with ctwins          [pv_legal_twin_thm]
   Part 3  the family of the search tree: V n b := b occurs at some ply i with i + n <= D          [tree_key_family],
           the checkers [key_twin_check] (quadratic, the definition) and [key_twin_fast] (one pass)
   Part 4  the closed theorems                                                                      [pv_legal_closed_*]
   Part 5  witnesses *)
Require Import Ink.Lib.Str.
Require Import NArith ZArith List Bool Lia ZifyBool ZifyN Arith FMapPositive.
Require Import Ink.Lib.Bits Ink.Model.Tables Ink.Model.Board Ink.Model.Fen Ink.Model.History Ink.Model.Heuristic Ink.Model.UciTx
        Ink.Model.Search.
Require Ink.Model.HashTable Ink.Spec.Minimax.
Require Import Ink.Proofs.MakeUnmake Ink.Proofs.HashTableProofs Ink.Proofs.SearchProofs Ink.Proofs.SessionProofs
        Ink.Proofs.ChessGame Ink.Proofs.SearchRefine.
Require Import Ink.Proofs.ChessInstance Ink.Proofs.RepetitionProofs Ink.Proofs.RepetitionInstance Ink.Proofs.C08Chess
        Ink.Proofs.C08Closed Ink.Proofs.C08Sim.
Require Ink.Proofs.ZobristProofs.
Import ListNotations.
Open Scope N_scope.

Arguments N.add : simpl never.
Arguments N.sub : simpl never.
Arguments N.mul : simpl never.
Arguments N.div : simpl never.
Arguments N.modulo : simpl never.
Arguments N.eqb : simpl never.
Arguments N.ltb : simpl never.
Arguments N.leb : simpl never.
Arguments Z.add : simpl never.
Arguments Z.mul : simpl never.
Arguments Z.opp : simpl never.
Arguments Z.max : simpl never.
Arguments Z.ltb : simpl never.
Arguments Z.leb : simpl never.

(* ================================================================================================================
   Part 1: moves up to the prev_half field
   ================================================================================================================ *)
Lemma set_ph_id m : set_ph (prev_half m) m = m.
Proof. destruct m; reflexivity. Qed.

Lemma set_ph_ph p q m : set_ph p (set_ph q m) = set_ph p m.
Proof. reflexivity. Qed.

(* the printed move does not show the field *)
Lemma uci_set_ph p m : uci_of_move (set_ph p m) = uci_of_move m.
Proof. reflexivity. Qed.

(* `make` does not read it *)
Lemma make_ph b p m : make b (set_ph p m) = make b m.
Proof.
  pose proof (make_sh b (half b) p m) as H. rewrite set_half_id in H. rewrite H.
  destruct (make b m) as [q|] eqn:E; [|reflexivity]. cbn [option_map].
  rewrite <- (make_half b m q E), set_half_id. reflexivity.
Qed.

(* ---- the other counter: the full-move number.  The generator and the check test do not read it, `make` only adds the side
   to move to it; it is not part of the key either.  A 4-ply shuffle A B A B returns to the root with both counters
   changed, so from depth 4 on "equal keys => clock twins" fails on ordinary positions while the statement below holds ---- *)
Definition set_full (b : board) (f : N) : board :=
  {| white := white b; black := black b; turn := turn b; ep := ep b; full := f; half := half b |}.

(* [ctwin x y]: x and y differ at most in the two counters (half-move clock, full-move number) *)
Definition ctwin (x y : board) : Prop :=
  white x = white y /\ black x = black y /\ turn x = turn y /\ ep x = ep y.

Lemma ctwin_refl x : ctwin x x.
Proof. unfold ctwin. auto. Qed.
Lemma ctwin_sym x y : ctwin x y -> ctwin y x.
Proof. unfold ctwin. intros (A & B & C & D). auto. Qed.
Lemma ctwin_trans x y z : ctwin x y -> ctwin y z -> ctwin x z.
Proof. unfold ctwin. intros (A & B & C & D) (A' & B' & C' & D'). repeat split; congruence. Qed.
Lemma twin_ctwin x y : twin x y -> ctwin x y.
Proof. unfold twin, ctwin. intros (A & B & C & D & _). auto. Qed.

Lemma ctwin_set x y : ctwin x y -> y = set_full (set_half x (half y)) (full y).
Proof. destruct x, y. unfold ctwin, set_full, set_half. cbn. intros (-> & -> & -> & ->). reflexivity. Qed.

Lemma ctwin_iff x y : ctwin x y <-> set_full (set_half x 0) 0 = set_full (set_half y 0) 0.
Proof.
  split.
  - intros H. rewrite (ctwin_set x y H). reflexivity.
  - destruct x, y. unfold ctwin, set_full, set_half. cbn. intros [= -> -> -> ->]. auto.
Qed.

Definition ctwinb (x y : board) : bool := board_eqb (set_full (set_half x 0) 0) (set_full (set_half y 0) 0).

Lemma ctwinb_spec x y : ctwinb x y = true <-> ctwin x y.
Proof.
  unfold ctwinb, board_eqb. rewrite ctwin_iff.
  destruct (board_eq_dec (set_full (set_half x 0) 0) (set_full (set_half y 0) 0)); split; auto; discriminate.
Qed.

Lemma twinb_ctwinb x y : twinb x y = true -> ctwinb x y = true.
Proof. intros H. apply ctwinb_spec, twin_ctwin, twinb_spec. exact H. Qed.

(* boards that differ only in the counters have the same key, for every table set *)
Lemma ctwin_same_key T x y : ctwin x y -> zobrist_hash T x = zobrist_hash T y.
Proof. intros H. rewrite (ctwin_set x y H). reflexivity. Qed.

Lemma gen_pseudo_sf T b f : gen_pseudo T (set_full b f) = gen_pseudo T b.
Proof. reflexivity. Qed.

Lemma make_sf b f m : make (set_full b f) m = option_map (fun q => set_full q (f + turn b)) (make b m).
Proof.
  rewrite !make_split.
  change (sides_make (is_white_turn (set_full b f)) (active (set_full b f)) (passive (set_full b f)) m)
    with (sides_make (is_white_turn b) (active b) (passive b) m).
  destruct (sides_make (is_white_turn b) (active b) (passive b) m) as [[a pp]|]; [|reflexivity].
  cbn [option_map]. change (is_white_turn (set_full b f)) with (is_white_turn b).
  unfold assemble. destruct (is_white_turn b); reflexivity.
Qed.

Lemma is_valid_sf T q c : is_valid T (set_full q c) = is_valid T q.
Proof. reflexivity. Qed.

Section LinePh.
Variable T : Tables.t.

(* [line_legal] of Proofs/SessionProofs.v up to prev_half: some relabelling of each move is generated in the position
   reached so far, and its `make` (which does not depend on the label) is valid *)
Fixpoint line_legal_ph (b : board) (l : list move) : Prop :=
  match l with
  | [] => True
  | m :: r => (exists p, In (set_ph p m) (gen_pseudo T b)) /\
              exists b', make b m = Some b' /\ is_valid T b' = true /\ line_legal_ph b' r
  end.

Lemma line_legal_to_ph l : forall b, line_legal T b l -> line_legal_ph b l.
Proof.
  induction l as [|m r IH]; intros b H; [exact I|].
  cbn [line_legal] in H. destruct H as (Hin & b' & Hmk & Hv & Hr). cbn [line_legal_ph].
  split; [exists (prev_half m); rewrite set_ph_id; exact Hin|].
  exists b'. split; [exact Hmk|]. split; [exact Hv|]. apply IH. exact Hr.
Qed.

(* the invariance that replaces no_collision: clock twins have the same legal lines up to prev_half, WHATEVER the two clocks *)
Lemma line_legal_ph_twin l : forall x y, twin x y -> line_legal_ph x l -> line_legal_ph y l.
Proof.
  induction l as [|m r IH]; intros x y Ht H; [exact I|].
  cbn [line_legal_ph] in H. destruct H as ((p & Hin) & b' & Hmk & Hv & Hr).
  rewrite (twin_set_half x y Ht). set (h := half y). cbn [line_legal_ph]. split.
  - exists (h mod 4096). rewrite gen_pseudo_sh. change (set_ph (h mod 4096) m) with (set_ph (h mod 4096) (set_ph p m)).
    apply in_map. exact Hin.
  - pose proof (make_sh x h (prev_half m) m) as Hm. rewrite set_ph_id, Hmk in Hm. cbn [option_map] in Hm.
    eexists. split; [exact Hm|]. split; [rewrite is_valid_sh; exact Hv|].
    apply (IH b'); [apply set_half_twin|exact Hr].
Qed.

Lemma line_legal_ph_full l : forall x f, line_legal_ph x l -> line_legal_ph (set_full x f) l.
Proof.
  induction l as [|m r IH]; intros x f H; [exact I|].
  cbn [line_legal_ph] in H. destruct H as ((p & Hin) & b' & Hmk & Hv & Hr). cbn [line_legal_ph]. split.
  - exists p. rewrite gen_pseudo_sf. exact Hin.
  - rewrite make_sf, Hmk. cbn [option_map]. eexists. split; [reflexivity|]. split; [rewrite is_valid_sf; exact Hv|].
    apply IH. exact Hr.
Qed.

(* ... and whatever the two full-move numbers *)
Lemma line_legal_ph_ctwin l x y : ctwin x y -> line_legal_ph x l -> line_legal_ph y l.
Proof.
  intros Ht H. rewrite (ctwin_set x y Ht). apply line_legal_ph_full.
  apply (line_legal_ph_twin l x (set_half x (half y))); [apply set_half_twin|exact H].
Qed.

(* relabelling gives a legal line in the sense of C16_pv_legal with the same printed moves *)
Lemma line_legal_of_ph l : forall b, line_legal_ph b l ->
  exists l', map uci_of_move l' = map uci_of_move l /\ line_legal T b l'.
Proof.
  induction l as [|m r IH]; intros b H; [exists []; split; [reflexivity|exact I]|].
  cbn [line_legal_ph] in H. destruct H as ((p & Hin) & b' & Hmk & Hv & Hr).
  destruct (IH b' Hr) as (r' & Er & Hr').
  exists (set_ph p m :: r'). split; [cbn [map]; rewrite uci_set_ph, Er; reflexivity|].
  cbn [line_legal]. split; [exact Hin|]. exists b'. split; [rewrite make_ph; exact Hmk|]. split; [exact Hv|exact Hr'].
Qed.

End LinePh.

(* ================================================================================================================
   Part 2: the second walk of Proofs/SessionProofs.v with ctwins in place of no_collision
   ================================================================================================================ *)

(* [key_family] with the last clause weakened from  b1 = b2  to  ctwin b1 b2 *)
Definition key_family_twin (T : Tables.t) (K : nat -> N -> board -> Prop) : Prop :=
  (forall n zh b m b', K (S n) zh b -> In m (gen_pseudo T b) -> make b m = Some b' -> is_valid T b' = true ->
     K n (N.lxor zh (zx_of T m)) b') /\
  (forall n zh b, K (S n) zh b -> K n zh b) /\
  (forall n1 n2 zh b1 b2, K n1 zh b1 -> K n2 zh b2 -> ctwin b1 b2).

Lemma key_family_is_twin T K : key_family T K -> key_family_twin T K.
Proof.
  intros (K1 & K2 & K3). split; [exact K1|]. split; [exact K2|].
  intros n1 n2 zh b1 b2 H1 H2. rewrite (K3 n1 n2 zh b1 b2 H1 H2). apply ctwin_refl.
Qed.

Section LegalTwin.
Variable T : Tables.t.
Variable good : nat -> board -> Prop.
Variable Q : nat.
Hypothesis inverse : forall n b m, good (S n) b -> In m (gen_pseudo T b) ->
  exists b', make b m = Some b' /\ unmake b' m = Some b /\ (is_valid T b' = true -> good n b').
Hypothesis good_mono : forall n b, good (S n) b -> good n b.
Hypothesis qfuel_bound : forall n b, good n b -> (qfuel b <= Q)%nat.

Variable K : nat -> N -> board -> Prop.
Hypothesis K_step : forall n zh b m b', K (S n) zh b -> In m (gen_pseudo T b) -> make b m = Some b' ->
  is_valid T b' = true -> K n (N.lxor zh (zx_of T m)) b'.
Hypothesis K_twin : forall n1 n2 zh b1 b2, K n1 zh b1 -> K n2 zh b2 -> ctwin b1 b2.

Local Notation llp := (line_legal_ph T).

Definition tt_legal_ph (t : HashTable.ht tt_entry) : Prop :=
  forall k e, HashTable.get tt_entry t k = Some e -> forall n b, K n k b -> llp b (calc_pv (te_mv e)).

Lemma tt_legal_ph_clear t : tt_legal_ph (HashTable.clear tt_entry t).
Proof. intros k e. unfold HashTable.get, HashTable.clear. cbn. discriminate. Qed.

(* the one place where no_collision was used *)
Lemma tt_legal_ph_put t n zh b e : tt_legal_ph t -> K n zh b -> llp b (calc_pv (te_mv e)) -> tt_legal_ph (tt_put t zh e).
Proof.
  intros Ht HK Hl k' e' Hg n' b' HK'. apply get_tt_put2 in Hg as [[-> ->]|Hg].
  - exact (line_legal_ph_ctwin T _ b b' (K_twin _ _ _ _ _ HK HK') Hl).
  - exact (Ht k' e' Hg n' b' HK').
Qed.

Lemma chain_ph_cons b mv child b1 : In mv (gen_pseudo T b) -> make b mv = Some b1 -> is_valid T b1 = true ->
  llp b1 (calc_pv child) -> llp b (SessionProofs.chain (Some mv) (Some child)).
Proof.
  intros Hmv Hmk Hv L. rewrite chain_some. cbn [line_legal_ph].
  split; [exists (prev_half mv); rewrite set_ph_id; exact Hmv|]. exists b1. split; [exact Hmk|]. split; [exact Hv|exact L].
Qed.

Section WithOracle.
Variable orc : oracle.

Definition lgt_ph (st : sstate) (r : vmove * sstate) : Prop :=
  ext st (snd r) /\ tt_legal_ph (s_tt (snd r)) /\ llp (s_board st) (calc_pv (fst r)).

Definition lgl_ph (st : sstate) (r : loop_res * sstate) : Prop :=
  ext st (snd r) /\ tt_legal_ph (s_tt (snd r)) /\
  match fst r with LReturn v => calc_pv v = [] | LDone _ bm bc _ => llp (s_board st) (SessionProofs.chain bm bc) end.

Lemma nm_loop_lg_ph (rec : Z -> Z -> bool -> N -> N -> sstate -> vmove * sstate) n k :
  (forall a b pv z zp st, good n (s_board st) -> K k z (s_board st) -> tt_legal_ph (s_tt st) -> lgt_ph st (rec a b pv z zp st)) ->
  forall moves b zh, good (S n) b -> K (S k) zh b -> (forall m, In m moves -> In m (gen_pseudo T b)) ->
  forall ispv pvm zph rd beta alpha bv bm bc lg0 st, s_board st = b -> tt_legal_ph (s_tt st) -> llp b (SessionProofs.chain bm bc) ->
  lgl_ph st (nm_loop T rec moves ispv pvm zh zph rd beta alpha bv bm bc lg0 st).
Proof.
  intros Hrec moves b zh Hgood HK. induction moves as [|mv rest IH]; intros Hin ispv pvm zph rd beta alpha bv bm bc lg0 st Hb Htt Hch; cbn [nm_loop].
  - split; [apply ext_refl|]. split; [exact Htt|]. cbn [fst]. rewrite Hb. exact Hch.
  - assert (Hmv : In mv (gen_pseudo T b)) by (apply Hin; now left).
    assert (Hrest : forall m, In m rest -> In m (gen_pseudo T b)) by (intros; apply Hin; now right).
    destruct (inverse n b mv Hgood Hmv) as (b1 & Hmk & Hun & Hg1).
    rewrite Hb, Hmk.
    assert (Hnext : forall st', ext st st' -> s_board st' = b -> tt_legal_ph (s_tt st') ->
              forall al bv' bm' bc' lg', llp b (SessionProofs.chain bm' bc') ->
              lgl_ph st (nm_loop T rec rest ispv pvm zh zph rd beta al bv' bm' bc' lg' st')).
    { intros st' E' B' T' al bv' bm' bc' lg' Hc'.
      destruct (IH Hrest ispv pvm zph rd beta al bv' bm' bc' lg' st' B' T' Hc') as (X1 & X2 & X3).
      split; [eapply ext_trans; [exact E'|exact X1]|]. split; [exact X2|]. rewrite Hb. rewrite B' in X3. exact X3. }
    destruct (is_valid T b1) eqn:Hv; cbn [negb].
    + assert (E2 : exists zpx st2, (match zobrist_xor T mv with Some (x, p) => (x, p, set_board st b1) | None => (0, 0, set_panicked (set_board st b1) true) end) = (zx_of T mv, zpx, st2)
                                   /\ s_board st2 = b1 /\ s_out st2 = s_out st /\ s_tt st2 = s_tt st).
      { unfold zx_of. destruct (zobrist_xor T mv) as [[x p]|]; do 2 eexists; (split; [reflexivity|split; [|split]; reflexivity]). }
      destruct E2 as (zpx & st2 & -> & B2 & O2 & T2).
      pose proof (Hrec (- beta)%Z (- alpha)%Z (ispv && opt_move_eqb pvm mv) (N.lxor zh (zx_of T mv)) (N.lxor zph zpx) st2) as Hr.
      destruct (rec (- beta)%Z (- alpha)%Z (ispv && opt_move_eqb pvm mv) (N.lxor zh (zx_of T mv)) (N.lxor zph zpx) st2) as [child st3].
      destruct Hr as ([B3 O3] & T3 & L3);
        [rewrite B2; exact (Hg1 eq_refl)|rewrite B2; exact (K_step _ _ _ _ _ HK Hmv Hmk Hv)|rewrite T2; exact Htt|].
      cbn [fst snd] in B3, O3, T3, L3.
      assert (Hun3 : unmake (s_board st3) mv = Some b) by (rewrite B3, B2; exact Hun).
      destruct (do_unmake_spec st3 mv b Hun3) as [B4 O4].
      assert (T4 : tt_legal_ph (s_tt (do_unmake st3 mv))).
      { destruct (do_unmake_qframe st3 mv) as (H & _). rewrite H. exact T3. }
      assert (E4 : ext st (do_unmake st3 mv)).
      { split; [congruence|]. eapply outs_trans; [|apply outs_eq; exact O4].
        eapply outs_trans; [apply outs_eq; exact O2|exact O3]. }
      assert (Hnew : llp b (SessionProofs.chain (Some mv) (Some child))).
      { apply (chain_ph_cons b mv child b1 Hmv Hmk Hv). rewrite <- B2. exact L3. }
      destruct (s_stop st3); [split; [exact E4|split; [exact T4|reflexivity]]|].
      destruct (bv <? - vm_value child)%Z; cbv zeta iota beta.
      * destruct (beta <=? _)%Z.
        -- split; [eapply ext_trans; [exact E4|apply ext_eq; reflexivity]|]. split; [exact T4|]. cbn [fst]. rewrite Hb. exact Hnew.
        -- apply Hnext; assumption.
      * destruct (beta <=? _)%Z.
        -- split; [eapply ext_trans; [exact E4|apply ext_eq; reflexivity]|]. split; [exact T4|]. cbn [fst]. rewrite Hb. exact Hch.
        -- apply Hnext; assumption.
    + assert (Hun1 : unmake (s_board (set_board st b1)) mv = Some b) by exact Hun.
      destruct (do_unmake_spec (set_board st b1) mv b Hun1) as [B1 O1].
      apply Hnext; [apply ext_eq; [congruence|exact O1]|exact B1| |exact Hch].
      destruct (do_unmake_qframe (set_board st b1) mv) as (H & _). rewrite H. exact Htt.
Qed.

Lemma interior_node_lg_ph rec n k :
  (forall a b pv z zp st, good n (s_board st) -> K k z (s_board st) -> tt_legal_ph (s_tt st) -> lgt_ph st (rec a b pv z zp st)) ->
  forall color ply rd a0 ispv zh zph alpha beta ttm buffer st,
  good (S n) (s_board st) -> K (S k) zh (s_board st) -> tt_legal_ph (s_tt st) ->
  (forall m, In m buffer -> In m (gen_pseudo T (s_board st))) ->
  lgt_ph st (interior_node T rec color ply rd a0 ispv zh zph alpha beta ttm buffer st).
Proof.
  intros Hrec color ply rd a0 ispv zh zph alpha beta ttm buffer st Hg HK Htt Hin. unfold interior_node. cbv zeta.
  match goal with |- context [nm_loop T rec ?mv ?a ?b ?c ?d ?e ?f ?g ?h ?i ?j ?l st] =>
    pose proof (nm_loop_lg_ph rec n k Hrec mv (s_board st) c Hg HK) as HL;
    specialize (fun H => HL H a b d e f g h i j l st eq_refl Htt I);
    destruct (nm_loop T rec mv a b c d e f g h i j l st) as [[r|bv bm bc lg0] st4] end.
  - destruct HL as (E4 & T4 & L4); [intros m Hm; apply Hin; eapply sort_moves_in; exact Hm|].
    unfold lgt_ph. cbn [fst snd] in *. split; [exact E4|]. split; [exact T4|]. rewrite L4. exact I.
  - destruct HL as (E4 & T4 & L4); [intros m Hm; apply Hin; eapply sort_moves_in; exact Hm|].
    unfold lgt_ph. cbn [fst snd] in *.
    destruct (negb lg0); [split; [exact E4|split; [exact T4|exact I]]|].
    destruct (negb _); cbn [fst snd].
    + split; [eapply ext_trans; [exact E4|apply ext_eq; reflexivity]|]. split; [|rewrite calc_pv_VM; exact L4].
      sproj. eapply tt_legal_ph_put; [exact T4|exact HK|]. cbn [te_mv]. rewrite calc_pv_VM. exact L4.
    + split; [exact E4|]. split; [exact T4|rewrite calc_pv_VM; exact L4].
Qed.

Lemma node_prelude_ret_ph ply rd a0 b0 zh st n : K n zh (s_board st) -> tt_legal_ph (s_tt st) ->
  forall r, fst (node_prelude T orc ply rd a0 b0 zh st) = PreReturn r -> llp (s_board st) (calc_pv r).
Proof.
  intros HK Htt r. unfold node_prelude.
  pose proof (poll_block_ret T orc st) as Hret. pose proof (poll_block_frame2 T orc st) as (T1 & _).
  destruct (poll_block T orc st) as [[r0|] st1]; cbn [fst snd] in *.
  - intros [= <-]. rewrite (Hret r0 eq_refl). exact I.
  - cbv zeta. sproj. destruct (visit _ _ _ _ _) as [h' rep].
    destruct rep; [intros [= <-]; exact I|].
    destruct (tt_probe _ _ _ _ _) as [r1|[[alpha beta] ttm]] eqn:Ep.
    + intros [= <-]. apply tt_probe_inl in Ep as (e & Hg & ->). sproj. rewrite T1 in Hg. exact (Htt zh e Hg n _ HK).
    + destruct ((ply =? 0) && is_nil _); cbn [fst]; [intros [= <-]; exact I|discriminate].
Qed.

Lemma negamax_lg_ph d : forall ply a0 b0 ispv zh zph st,
  good (d + S Q) (s_board st) -> K d zh (s_board st) -> tt_legal_ph (s_tt st) ->
  lgt_ph st (negamax T orc d ply a0 b0 ispv zh zph st).
Proof.
  induction d as [|d' IH]; intros ply a0 b0 ispv zh zph st Hg HK Htt; cbn [negamax]; cbv zeta;
  (match goal with |- context [node_prelude T orc ply ?rd a0 b0 zh st] =>
     pose proof (node_prelude_ext T orc ply rd a0 b0 zh st) as [E3 Hbuf];
     pose proof (node_prelude_spec2 T orc ply rd a0 b0 zh st) as (T3 & _);
     pose proof (node_prelude_ret_ph ply rd a0 b0 zh st _ HK Htt) as Hret;
     destruct (node_prelude T orc ply rd a0 b0 zh st) as [[r|alpha beta ttm buffer] st3] end);
  cbn [fst snd] in E3, Hbuf, T3, Hret;
  try (unfold lgt_ph; cbn [fst snd]; split; [exact E3|split; [rewrite T3; exact Htt|apply Hret; reflexivity]]).
  - destruct E3 as [B3 O3].
    destruct (leaf_node_lg T good Q inverse good_mono qfuel_bound (turn (s_board st)) alpha beta zph buffer st3) as (X1 & X2 & X3).
    + rewrite B3. exact Hg.
    + rewrite B3. eapply Hbuf. reflexivity.
    + split; [eapply ext_trans; [split; [exact B3|exact O3]|exact X1]|]. split; [rewrite X2, T3; exact Htt|].
      rewrite B3 in X3. apply line_legal_to_ph. exact X3.
  - destruct E3 as [B3 O3].
    destruct (interior_node_lg_ph (negamax T orc d' (ply + 1)) (d' + S Q)%nat d'
                (fun a b pv z zp s H1 H2 H3 => IH (ply + 1) a b pv z zp s H1 H2 H3)
                (turn (s_board st)) ply (N.of_nat (S d')) a0 ispv zh zph alpha beta ttm buffer st3) as (X1 & X2 & X3).
    + rewrite B3. exact Hg.
    + rewrite B3. exact HK.
    + rewrite T3. exact Htt.
    + rewrite B3. eapply Hbuf. reflexivity.
    + split; [eapply ext_trans; [split; [exact B3|exact O3]|exact X1]|]. split; [exact X2|]. rewrite B3 in X3. exact X3.
Qed.

(* ---------- the deepening loop ---------- *)
Hypothesis K_mono : forall n zh b, K (S n) zh b -> K n zh b.

Lemma K_mono_le' n m zh b : (m <= n)%nat -> K n zh b -> K m zh b.
Proof. induction 1 as [|j Hle IH]; [tauto|]. intro H. apply IH. now apply K_mono. Qed.

Record linv2_ph (D : nat) (b0 : board) (a : idstate) : Prop := {
  l2p_fl : id_fuel a = S (length (id_log a));
  l2p_go : (length (id_log a) <= D)%nat -> good (D + S Q) b0 -> K D (zobrist_hash T b0) b0 ->
           s_board (id_st a) = b0 /\ tt_legal_ph (s_tt (id_st a)) /\
           Forall (fun it => llp b0 (calc_pv (it_result it))) (id_log a)
}.

Lemma linv2_ph_step D b0 mt a : linv2_ph D b0 a -> linv2_ph D b0 (id_next T orc mt a).
Proof.
  intros [Hfl Hgo]. destruct (id_step_spec3 T orc mt a) as ((it & Hlog & Hres) & Hfuel & Hb & Ht).
  split; [rewrite Hfuel, Hlog, Hfl; reflexivity|].
  rewrite Hlog. cbn [length]. intros Hle Hg HK.
  destruct (Hgo ltac:(lia) Hg HK) as (B0 & T0 & L0).
  unfold root_call in Hres, Hb, Ht. rewrite Hfl, B0 in *.
  match type of Hres with _ = fst (negamax T orc ?d ?p ?x ?y ?v ?z ?w (id_st a)) =>
    destruct (negamax_lg_ph d p x y v z w (id_st a)) as ([X1 _] & X2 & X3) end.
  - rewrite B0. eapply (good_le good good_mono); [|exact Hg]. lia.
  - rewrite B0. eapply K_mono_le'; [|exact HK]. lia.
  - exact T0.
  - rewrite B0 in X1, X3. split; [congruence|]. split; [rewrite Ht; exact X2|].
    constructor; [rewrite Hres; exact X3|exact L0].
Qed.

Lemma best_move_legal_ph st D :
  let log := snd (fst (best_move T orc st)) in
  (length log <= D)%nat -> good (D + S Q) (s_board st) -> K D (zobrist_hash T (s_board st)) (s_board st) ->
  Forall (fun it => llp (s_board st) (calc_pv (it_result it))) log.
Proof.
  unfold best_move. cbv zeta.
  set (st1 := set_killers _ _).
  set (st2 := if s_try_prev_pv st1 then try_set_pv_from_continuation st1 else st1).
  assert (F2 : s_board st2 = s_board st /\ s_tt st2 = HashTable.clear tt_entry (s_tt st)).
  { subst st2. destruct (s_try_prev_pv st1); [|split; reflexivity]. destruct (try_set_pv_frame st1) as (B & _ & _ & TT). split; assumption. }
  set (st3 := match g_movetime (s_go st2) with None => _ | Some _ => st2 end).
  assert (F3 : s_board st3 = s_board st /\ s_tt st3 = HashTable.clear tt_entry (s_tt st)).
  { subst st3. destruct (g_movetime (s_go st2)); [exact F2|]. sproj. exact F2. }
  destruct F3 as (B3 & T3). clearbody st3. clear F2.
  set (a0 := {| id_depth := 1; id_fuel := 1; id_best := None; id_uci_pv := None; id_score := None; id_log := []; id_st := st3 |}).
  set (p := match _ with Npos p => p | N0 => xH end).
  assert (I0 : linv2_ph D (s_board st) a0).
  { split; [reflexivity|]. intros _ _ _. cbn [id_st a0 id_log]. split; [exact B3|]. split; [rewrite T3; apply tt_legal_ph_clear|constructor]. }
  assert (Hstep : forall a, linv2_ph D (s_board st) a ->
            match id_step T orc (g_movetime (s_go st3)) a with inl a' => linv2_ph D (s_board st) a' | inr b => linv2_ph D (s_board st) b end).
  { intros a H. pose proof (linv2_ph_step D (s_board st) (g_movetime (s_go st3)) a H) as H1. unfold id_next in H1.
    destruct (id_step T orc (g_movetime (s_go st3)) a); exact H1. }
  pose proof (iter_until_ind (linv2_ph D (s_board st)) (linv2_ph D (s_board st)) (id_step T orc (g_movetime (s_go st3))) Hstep p a0 I0) as HL.
  assert (HF : exists fin, (match iter_until p (id_step T orc (g_movetime (s_go st3))) a0 with inl a => a | inr a => a end) = fin
                           /\ linv2_ph D (s_board st) fin).
  { destruct (iter_until p _ a0) as [x|x]; exists x; (split; [reflexivity|exact HL]). }
  destruct HF as (fin & -> & [Hfl Hgo]).
  unfold read_clock. cbv beta iota zeta. cbn [fst snd]. intros Hle Hg HK. apply Hgo; assumption.
Qed.

Lemma go_full_legal_ph g st D :
  let log := fst (go_full T orc g st) in
  (length log <= D)%nat -> good (D + S Q) (s_board st) -> K D (zobrist_hash T (s_board st)) (s_board st) ->
  Forall (fun it => llp (s_board st) (calc_pv (it_result it))) log.
Proof.
  unfold go_full. cbv zeta. set (st0 := set_reads _ _).
  destruct (reset_for_go_frame st0) as (B1 & _ & _).
  pose proof (best_move_legal_ph (reset_for_go st0) D) as HB. cbv zeta in HB.
  destruct (best_move T orc (reset_for_go st0)) as [[[bm pm] log] st2]. cbn [fst snd] in *.
  rewrite B1 in HB. exact HB.
Qed.

End WithOracle.
End LegalTwin.

(* C16_pv_legal with [key_family_twin]: same conclusion, weaker hypothesis on K *)
Theorem pv_legal_twin_thm : forall T good Q, C03_family T good Q -> forall K, key_family_twin T K ->
  forall orc g st D, (length (fst (go_full T orc g st)) <= D)%nat -> good (D + S Q)%nat (s_board st) ->
  K D (zobrist_hash T (s_board st)) (s_board st) ->
  forall i pv, In (OInfo i) (go_msgs T orc g st) -> i_pv i = Some pv ->
  exists line, pv = map uci_of_move line /\ line <> [] /\ line_legal T (s_board st) line.
Proof.
  intros T good Q (H1 & H2 & H3) K (K1 & K2 & K3) orc g st D Hle Hg HK i pv Hin Hpv.
  destruct (go_facts_hold T orc g st) as (infos & b & p & [Hm _ _ _ _ _ _ Hsrc]).
  rewrite Hm in Hin. apply in_app_or in Hin as [Hin|[Hin|[]]]; [|discriminate].
  rewrite Forall_forall in Hsrc. specialize (Hsrc _ Hin). unfold pvs_from in Hsrc. cbn [pv_of] in Hsrc. rewrite Hpv in Hsrc.
  destruct Hsrc as (line & (it & Hit & _ & -> & Hmv) & ->).
  pose proof (go_full_legal_ph T good Q H1 H2 H3 K K1 K3 orc K2 g st D Hle Hg HK) as HL.
  rewrite Forall_forall in HL. specialize (HL it Hit).
  destruct (line_legal_of_ph T _ _ HL) as (l' & El & Hl').
  exists l'. split; [symmetry; exact El|]. split; [|exact Hl'].
  destruct (vm_mv (it_result it)) as [m|] eqn:Em; [|exfalso; exact (Hmv eq_refl)].
  destruct (calc_pv_head _ _ Em) as (r & Hr). rewrite Hr in El. intros ->. discriminate El.
Qed.

(* the output-shape theorem of C16 (C16_one_go_output_shape) under the weaker hypothesis: its proof uses the legality of the
   reported lines only through the theorem above *)
Theorem one_go_output_shape_twin_thm : forall T good Q, C03_family T good Q -> forall K, key_family_twin T K ->
  tables_chess_ok T = true ->
  forall orc g st D, (length (fst (go_full T orc g st)) <= D)%nat -> good (D + S Q)%nat (s_board st) ->
  K D (zobrist_hash T (s_board st)) (s_board st) -> pos_ok T (s_board st) ->
  N.of_nat (HashTable.cap tt_entry (s_tt st)) <= tt_capacity T ->
  exists infos best ponder,
    go_msgs T orc g st = infos ++ [OBestmove best ponder] /\ forallb is_info infos = true /\
    forall m, In m (go_msgs T orc g st) -> forall nps dbg, UciOut.single_line dbg = true ->
      exists tm line, to_tx nps dbg m = Some tm /\ ConsoleOk.msg_ok tm = true /\
                      ConsoleTx.render tm = Some line /\ UciOut.engine_line line = true.
Proof.
  intros T good Q HC K HK HT orc g st D Hle Hg HKr Hpos Hcap.
  destruct (go_facts_hold T orc g st) as (infos & best & ponder & [Hm _ Hi (lo & rlo & hi & rhi & Hs) _ Hh Hhf Hsrc]).
  specialize (Hhf Hcap).
  assert (Hpp : Forall pv_printable infos).
  { rewrite Forall_forall. intros m Hin. unfold pv_printable. destruct (pv_of m) as [pv|] eqn:Ep; [|exact I].
    destruct m as [i| | | | | | |]; try discriminate. cbn [pv_of] in Ep.
    destruct (pv_legal_twin_thm T good Q HC K HK orc g st D Hle Hg HKr i pv) as (line & -> & Hne & HL);
      [rewrite Hm; apply in_or_app; left; exact Hin|exact Ep|].
    split; [destruct line; [congruence|discriminate]|]. exact (line_moves_ok T HT line (s_board st) Hpos HL). }
  assert (Htime : Forall (fun m => match m with OInfo i => i_time i <> None | _ => False end) infos).
  { rewrite <- (rev_involutive infos). apply Forall_rev. exact (seqd_time_some _ _ _ _ _ _ Hs). }
  exists infos, best, ponder. split; [exact Hm|]. split; [exact Hi|].
  intros m Hin nps dbg Hdbg. rewrite Hm in Hin. apply in_app_or in Hin as [Hin|[<-|[]]].
  - rewrite Forall_forall in Hpp, Htime, Hhf. specialize (Hpp m Hin). specialize (Htime m Hin). specialize (Hhf m Hin).
    destruct m as [i| | | | | | |]; try contradiction. cbn [to_tx].
    assert (Hok : ConsoleOk.msg_ok (ConsoleTx.Info (to_console nps dbg i)) = true) by (apply (info_msg_ok T); assumption).
    do 2 eexists. split; [reflexivity|]. split; [exact Hok|]. split; [reflexivity|].
    eapply ConsoleProofs.render_valid; [exact Hok|reflexivity].
  - cbn [to_tx].
    assert (Hbp : ConsoleOk.opt_ok umove_ok best = true /\ ConsoleOk.opt_ok umove_ok ponder = true).
    { destruct (last_pv infos) as [pv|] eqn:Elp.
      - destruct Hh as (-> & -> & _). destruct (last_pv_in _ _ Elp) as (m & Hin & Hpv).
        rewrite Forall_forall in Hpp. specialize (Hpp m Hin). unfold pv_printable in Hpp. rewrite Hpv in Hpp.
        destruct Hpp as [_ Hall]. rewrite forallb_forall in Hall.
        split; [destruct (nth_error pv 0) eqn:E|destruct (nth_error pv 1) eqn:E]; cbn [ConsoleOk.opt_ok]; try reflexivity;
          apply Hall; eapply nth_error_In; exact E.
      - destruct Hh as [-> ->]. split; reflexivity. }
    destruct Hbp as [Hb Hp].
    assert (Hok : ConsoleOk.msg_ok (ConsoleTx.BestMove (option_map to_mv best) (option_map to_mv ponder)) = true).
    { cbn [ConsoleOk.msg_ok]. destruct best, ponder; cbn [option_map ConsoleOk.opt_ok] in *; unfold umove_ok in *;
        rewrite ?Hb, ?Hp; reflexivity. }
    do 2 eexists. split; [reflexivity|]. split; [exact Hok|]. split; [reflexivity|].
    eapply ConsoleProofs.render_valid; [exact Hok|reflexivity].
Qed.

(* ================================================================================================================
   Part 3: the family of the search tree
   ================================================================================================================ *)
Section TreeFamily.
Variable T : Tables.t.
Variable good : nat -> board -> Prop.
Variable Q : nat.
Hypothesis HSF : search_family T good Q.
Variable root : board.
Variable D : nat.

Local Notation at_ply := (Minimax.at_ply board (ChessGame.succs T)).

(* [tree_V n b]: b occurs in the tree below root at some ply i with n plies of draft left within depth D *)
Definition tree_V (n : nat) (b : board) : Prop := exists i, at_ply root i b /\ (i + n <= D)%nat.
Definition tree_K (n : nat) (zh : N) (b : board) : Prop := zh = zobrist_hash T b /\ tree_V n b.

Lemma tree_K_root : tree_K D (zobrist_hash T root) root.
Proof. split; [reflexivity|]. exists 0%nat. split; [constructor|lia]. Qed.

(* the family of C03 is preserved along the tree (one unit of budget per ply) *)
Lemma at_ply_good : good (D + S Q) root -> forall i b, at_ply root i b -> (i <= D)%nat -> good (D + S Q - i) b.
Proof.
  destruct HSF as ((inverse & _ & _) & _).
  intros Hg i b H. induction H as [|i p q Hp IH Hq]; intro Hi.
  - rewrite Nat.sub_0_r. exact Hg.
  - unfold ChessGame.succs in Hq. apply children_in in Hq as (m & Hin & Hmk & Hv).
    specialize (IH ltac:(lia)). replace (D + S Q - i)%nat with (S (D + S Q - S i)) in IH by lia.
    destruct (inverse _ p m IH Hin) as (b' & Hmk' & _ & Hg'). rewrite Hmk in Hmk'. injection Hmk' as <-. exact (Hg' Hv).
Qed.

Lemma tree_V_wf : good (D + S Q) root -> forall n b, tree_V n b ->
  wf b = true /\ ZobristProofs.castle_wf b = true /\ ZobristProofs.ep_wf b = true.
Proof.
  intros Hg n b (i & Hat & Hi). destruct HSF as (_ & Hwf & _).
  pose proof (at_ply_good Hg i b Hat ltac:(lia)) as Hgb.
  replace (D + S Q - i)%nat with (S (D + Q - i)) in Hgb by lia.
  destruct (Hwf _ b Hgb) as (A & B & C & _). repeat split; assumption.
Qed.

Lemma tree_V_step n b m b' : tree_V (S n) b -> In m (gen_pseudo T b) -> make b m = Some b' -> is_valid T b' = true -> tree_V n b'.
Proof.
  intros (i & Hat & Hi) Hin Hmk Hv. exists (S i). split; [|lia].
  econstructor; [exact Hat|]. unfold ChessGame.succs. apply children_in. exists m. repeat split; assumption.
Qed.

Lemma tree_V_mono n b : tree_V (S n) b -> tree_V n b.
Proof. intros (i & Hat & Hi). exists i. split; [exact Hat|lia]. Qed.

(* equal keys in the tree: the boards differ at most in the half-move clock *)
Definition keys_twin : Prop :=
  forall i j x y, (i <= D)%nat -> (j <= D)%nat -> at_ply root i x -> at_ply root j y ->
    zobrist_hash T x = zobrist_hash T y -> ctwin x y.

Theorem tree_key_family : good (D + S Q) root -> keys_twin -> key_family_twin T tree_K.
Proof.
  intros Hg HU. pose proof HSF as (_ & _ & Hrows & Hmask). split; [|split].
  - intros n zh b m b' [-> HV] Hin Hmk Hv. split; [|exact (tree_V_step n b m b' HV Hin Hmk Hv)].
    destruct (tree_V_wf Hg _ _ HV) as (W & C & E).
    destruct (ZobristProofs.xor_no_panic T b m W C Hmask Hin) as (dx & dp & Hx).
    unfold zx_of. rewrite Hx.
    symmetry. exact (proj1 (ZobristProofs.incremental T b m b' dx dp Hrows Hmask W C E Hin Hmk Hx)).
  - intros n zh b [-> HV]. split; [reflexivity|exact (tree_V_mono n b HV)].
  - intros n1 n2 zh b1 b2 [-> (i & Hi & Li)] [E (j & Hj & Lj)]. exact (HU i j b1 b2 ltac:(lia) ltac:(lia) Hi Hj E).
Qed.

(* both forms of ply_unique give it: with sim = equality (depth <= 2 in practice) and with sim = sim_clock *)
Lemma keys_twin_of_eq : Minimax.ply_unique board (ChessGame.succs T) (zobrist_hash T) (fun _ x y => x = y) D root -> keys_twin.
Proof. intros H i j x y Hi Hj Hx Hy Hk. destruct (H i j x y Hi Hj Hx Hy Hk) as [_ ->]. apply ctwin_refl. Qed.

Lemma keys_twin_of_clock : Minimax.ply_unique board (ChessGame.succs T) (zobrist_hash T) (sim_clock T) D root -> keys_twin.
Proof. intros H i j x y Hi Hj Hx Hy Hk. destruct (H i j x y Hi Hj Hx Hy Hk) as [_ [Ht _]]. exact (twin_ctwin _ _ Ht). Qed.

(* ---- the checker: over all tree nodes up to ply D, equal keys => twins.  Neither "same ply" nor the clock margin of
   ply_unique_clock_check is asked for ---- *)
Definition key_twin_check : bool :=
  let ns := tree_nodes T D root in
  forallb (fun a => forallb (fun b => if snd (fst a) =? snd (fst b) then ctwinb (snd a) (snd b) else true) ns) ns.

Lemma key_twin_check_sound : key_twin_check = true -> keys_twin.
Proof.
  intros H i j x y Hi Hj Hx Hy Hk. unfold key_twin_check in H. cbv zeta in H.
  rewrite forallb_forall in H. specialize (H _ (tree_nodes_in T D root i x Hi Hx)).
  rewrite forallb_forall in H. specialize (H _ (tree_nodes_in T D root j y Hj Hy)).
  cbn [fst snd] in H. rewrite Hk, N.eqb_refl in H. apply ctwinb_spec. exact H.
Qed.

Lemma key_twin_check_of_clock : ply_unique_clock_check T D root = true -> key_twin_check = true.
Proof.
  unfold ply_unique_clock_check, key_twin_check. cbv zeta. intros H.
  apply forallb_forall. intros a Ha. apply forallb_forall. intros b Hb.
  rewrite forallb_forall in H. specialize (H a Ha). rewrite forallb_forall in H. specialize (H b Hb). cbv beta in H.
  destruct (snd (fst a) =? snd (fst b)); [|reflexivity].
  apply andb_true_iff in H as [_ H]. unfold sim_clockb in H. apply andb_true_iff in H as [H _]. exact (twinb_ctwinb _ _ H).
Qed.

Lemma key_twin_check_of_eq : ply_unique_check T D root = true -> key_twin_check = true.
Proof.
  unfold ply_unique_check, key_twin_check. cbv zeta. intros H.
  apply forallb_forall. intros a Ha. apply forallb_forall. intros b Hb.
  rewrite forallb_forall in H. specialize (H a Ha). rewrite forallb_forall in H. specialize (H b Hb). cbv beta in H.
  destruct (snd (fst a) =? snd (fst b)); [|reflexivity].
  apply andb_true_iff in H as [_ H]. unfold board_eqb in H. destruct (board_eq_dec (snd a) (snd b)) as [->|]; [|discriminate].
  apply ctwinb_spec. apply ctwin_refl.
Qed.

(* ---- the same check in one pass: a map from key to the first board seen under that key; every later board with that key
   must be a ctwin of it (ctwin is an equivalence).  Quadratic above, n log n here ---- *)
Local Notation kpos x := (N.succ_pos (zobrist_hash T x)).

Fixpoint scan_keys (l : list board) (m : PositiveMap.t board) : bool :=
  match l with
  | [] => true
  | x :: r => match PositiveMap.find (kpos x) m with
              | Some rep => ctwinb rep x && scan_keys r m
              | None => scan_keys r (PositiveMap.add (kpos x) x m)
              end
  end.

Fixpoint build_keys (l : list board) (m : PositiveMap.t board) : PositiveMap.t board :=
  match l with
  | [] => m
  | x :: r => match PositiveMap.find (kpos x) m with
              | Some _ => build_keys r m
              | None => build_keys r (PositiveMap.add (kpos x) x m)
              end
  end.

Lemma build_keys_mono l : forall m k rep, PositiveMap.find k m = Some rep -> PositiveMap.find k (build_keys l m) = Some rep.
Proof.
  induction l as [|x r IH]; intros m k rep H; cbn [build_keys]; [exact H|].
  destruct (PositiveMap.find (kpos x) m) eqn:E; [exact (IH m k rep H)|].
  apply IH. rewrite PositiveMap.gso; [exact H|]. intros ->. congruence.
Qed.

Lemma scan_keys_sound l : forall m, scan_keys l m = true ->
  forall x, In x l -> exists rep, PositiveMap.find (kpos x) (build_keys l m) = Some rep /\ ctwin rep x.
Proof.
  induction l as [|a r IH]; intros m H x Hx; [destruct Hx|].
  cbn [scan_keys build_keys] in *. destruct (PositiveMap.find (kpos a) m) as [rep|] eqn:E.
  - apply andb_true_iff in H as [H1 H2]. destruct Hx as [<-|Hx]; [|exact (IH m H2 x Hx)].
    exists rep. split; [apply build_keys_mono; exact E|apply ctwinb_spec; exact H1].
  - destruct Hx as [<-|Hx]; [|exact (IH _ H x Hx)].
    exists a. split; [apply build_keys_mono; apply PositiveMap.gss|apply ctwin_refl].
Qed.

Definition key_twin_fast : bool := scan_keys (map snd (tree_nodes T D root)) (PositiveMap.empty board).

Lemma tree_nodes_key a : In a (tree_nodes T D root) -> snd (fst a) = zobrist_hash T (snd a).
Proof.
  unfold tree_nodes. intros H. apply in_flat_map in H as (i & _ & H). apply in_map_iff in H as (x & <- & _). reflexivity.
Qed.

Lemma key_twin_fast_check : key_twin_fast = true -> key_twin_check = true.
Proof.
  unfold key_twin_fast, key_twin_check. cbv zeta. intros H.
  pose proof (scan_keys_sound _ _ H) as HS.
  apply forallb_forall. intros a Ha. apply forallb_forall. intros b Hb.
  destruct (N.eqb_spec (snd (fst a)) (snd (fst b))) as [E|]; [|reflexivity].
  rewrite (tree_nodes_key a Ha), (tree_nodes_key b Hb) in E.
  destruct (HS (snd a) (in_map snd _ a Ha)) as (ra & Fa & Ta).
  destruct (HS (snd b) (in_map snd _ b Hb)) as (rb & Fb & Tb).
  rewrite E in Fa. rewrite Fa in Fb. injection Fb as ->.
  apply ctwinb_spec. exact (ctwin_trans _ _ _ (ctwin_sym _ _ Ta) Tb).
Qed.

End TreeFamily.

(* ================================================================================================================
   Part 4: the closed theorems
   ================================================================================================================ *)

(* the pv statement and the bestmove statement of C16 for one go, together *)
Definition pv_lines_legal (T : Tables.t) (root : board) (msgs : list omsg) : Prop :=
  (forall i pv, In (OInfo i) msgs -> i_pv i = Some pv ->
     exists line, pv = map uci_of_move line /\ line <> [] /\ line_legal T root line) /\
  exists infos best ponder,
    msgs = infos ++ [OBestmove best ponder] /\ forallb is_info infos = true /\
    match last_pv infos with
    | Some pv => best = nth_error pv 0 /\ ponder = nth_error pv 1 /\ best <> None /\
                 exists line, pv = map uci_of_move line /\ line <> [] /\ line_legal T root line
    | None => best = None /\ ponder = None
    end.

Lemma pv_lines_legal_intro T orc g st :
  (forall i pv, In (OInfo i) (go_msgs T orc g st) -> i_pv i = Some pv ->
     exists line, pv = map uci_of_move line /\ line <> [] /\ line_legal T (s_board st) line) ->
  pv_lines_legal T (s_board st) (go_msgs T orc g st).
Proof.
  intros HL. split; [exact HL|].
  destruct (bestmove_is_pv_head_thm T orc g st) as (infos & best & ponder & Hm & Hi & Hh).
  exists infos, best, ponder. split; [exact Hm|]. split; [exact Hi|].
  destruct (last_pv infos) as [pv|] eqn:Elp; [|exact Hh].
  destruct Hh as (A & B & C). split; [exact A|]. split; [exact B|]. split; [exact C|].
  destruct (last_pv_in _ _ Elp) as (m & Hin & Hpv). destruct m as [i| | | | | | |]; try discriminate.
  cbn [pv_of] in Hpv. apply (HL i pv); [|exact Hpv]. rewrite Hm. apply in_or_app. left. exact Hin.
Qed.

(* any table set and family that satisfy [search_family]; any engine state; D bounds the number of iterations *)
Theorem pv_legal_tables : forall T good Q, search_family T good Q ->
  forall orc g st D, (length (fst (go_full T orc g st)) <= D)%nat -> good (D + S Q)%nat (s_board st) ->
  key_twin_check T (s_board st) D = true ->
  pv_lines_legal T (s_board st) (go_msgs T orc g st).
Proof.
  intros T good Q HSF orc g st D Hle Hg HU. apply pv_lines_legal_intro.
  apply (pv_legal_twin_thm T good Q (proj1 HSF) (tree_K T (s_board st) D)
           (tree_key_family T good Q HSF (s_board st) D Hg (key_twin_check_sound T (s_board st) D HU)) orc g st D Hle Hg).
  apply tree_K_root.
Qed.

(* the tables of the current tree, `go` with a depth limit, any other parameter, any oracle, any engine state *)
Theorem pv_legal_closed_state :
  forall orc g st dd, g_depth g = Some dd ->
  good_c10b GT (depth_of dd + 130) (s_board st) = true ->
  key_twin_check GT (s_board st) (depth_of dd) = true ->
  pv_lines_legal GT (s_board st) (go_msgs GT orc g st).
Proof.
  intros orc g st dd Hd Hg HU.
  apply (pv_legal_tables GT goodC 129 gen_search_family orc g st (depth_of dd)); [|apply (good_c10b_spec GT); exact Hg|exact HU].
  destruct goodC_family as (H1 & H2 & H3). exact (go_full_len GT goodC 129 H1 H2 H3 orc g st dd Hd).
Qed.

(* after `position fen X` (no move list), from any prior state: every premise is a boolean computed from X and dd *)
Theorem pv_legal_closed :
  forall orc g f st0 dd, g_depth g = Some dd ->
  let root := board_of_fen f in
  let st := set_position_from GT f [] st0 in
  good_c10b GT (depth_of dd + 130) root = true ->
  key_twin_check GT root (depth_of dd) = true ->
  pv_lines_legal GT root (go_msgs GT orc g st).
Proof.
  intros orc g f st0 dd Hd root st Hg HU.
  destruct (position_fen_state GT f st0) as [Eb _]. fold st in Eb. fold root in Eb.
  rewrite <- Eb in *. exact (pv_legal_closed_state orc g st dd Hd Hg HU).
Qed.

(* the same with the checker of C08 (depth >= 3 with clock twins) and with the equality checker (fails on clock twins) *)
Theorem pv_legal_closed_clock :
  forall orc g f st0 dd, g_depth g = Some dd ->
  let root := board_of_fen f in
  let st := set_position_from GT f [] st0 in
  good_c10b GT (depth_of dd + 130) root = true ->
  ply_unique_clock_check GT (depth_of dd) root = true ->
  pv_lines_legal GT root (go_msgs GT orc g st).
Proof.
  intros orc g f st0 dd Hd root st Hg HU.
  exact (pv_legal_closed orc g f st0 dd Hd Hg (key_twin_check_of_clock GT root (depth_of dd) HU)).
Qed.

Theorem pv_legal_closed_eq :
  forall orc g f st0 dd, g_depth g = Some dd ->
  let root := board_of_fen f in
  let st := set_position_from GT f [] st0 in
  good_c10b GT (depth_of dd + 130) root = true ->
  ply_unique_check GT (depth_of dd) root = true ->
  pv_lines_legal GT root (go_msgs GT orc g st).
Proof.
  intros orc g f st0 dd Hd root st Hg HU.
  exact (pv_legal_closed orc g f st0 dd Hd Hg (key_twin_check_of_eq GT root (depth_of dd) HU)).
Qed.

(* C16_one_go_output_shape, closed: every line written by the go is in the UCI output grammar *)
Theorem output_shape_closed :
  forall orc g f st0 dd, g_depth g = Some dd ->
  let root := board_of_fen f in
  let st := set_position_from GT f [] st0 in
  good_c10b GT (depth_of dd + 130) root = true ->
  key_twin_check GT root (depth_of dd) = true ->
  N.of_nat (HashTable.cap tt_entry (s_tt st0)) <= tt_capacity GT ->
  exists infos best ponder,
    go_msgs GT orc g st = infos ++ [OBestmove best ponder] /\ forallb is_info infos = true /\
    forall m, In m (go_msgs GT orc g st) -> forall nps dbg, UciOut.single_line dbg = true ->
      exists tm line, to_tx nps dbg m = Some tm /\ ConsoleOk.msg_ok tm = true /\
                      ConsoleTx.render tm = Some line /\ UciOut.engine_line line = true.
Proof.
  intros orc g f st0 dd Hd root st Hg HU Hcap.
  destruct (position_fen_state GT f st0) as [Eb _]. fold st in Eb. fold root in Eb.
  apply (good_c10b_spec GT) in Hg. rewrite <- Eb in Hg, HU.
  apply (one_go_output_shape_twin_thm GT goodC 129 goodC_family (tree_K GT (s_board st) (depth_of dd))
           (tree_key_family GT goodC 129 gen_search_family (s_board st) (depth_of dd) Hg
              (key_twin_check_sound GT (s_board st) (depth_of dd) HU))
           gen_tables_chess_ok orc g st (depth_of dd)).
  - destruct goodC_family as (H1 & H2 & H3). exact (go_full_len GT goodC 129 H1 H2 H3 orc g st dd Hd).
  - exact Hg.
  - apply tree_K_root.
  - destruct Hg as (Hgc & _). exact (good_chess_pos_ok GT _ _ Hgc).
  - exact Hcap.
Qed.

(* ================================================================================================================
   Part 5: witnesses
   ================================================================================================================ *)

(* why [key_family] (no_collision with equality) cannot be instantiated with the tree of a depth-3 search, and why the stored
   chain has to be read up to prev_half: the two clock twins of C08Sim.ex40_twins (both at ply 3 below ex40_root, same key,
   clocks 2 and 0) -- a generated move of one is not a generated move of the other, only a relabelling of it is *)
Lemma twin_moves_differ : exists x y m,
  In x (level GT 3 ex40_root) /\ In y (level GT 3 ex40_root) /\ zobrist_hash GT x = zobrist_hash GT y /\ x <> y /\ twin x y /\
  In m (gen_pseudo GT x) /\ ~ In m (gen_pseudo GT y) /\ exists p, In (set_ph p m) (gen_pseudo GT y).
Proof.
  destruct ex40_twins as (A & B & C & D & _ & _ & E).
  exists ex40_twin_a, ex40_twin_b.
  assert (Ht : twin ex40_twin_a ex40_twin_b) by (apply (sim_clockb_spec GT 0) in E; exact (proj1 E)).
  destruct (gen_pseudo GT ex40_twin_a) as [|m r] eqn:Eg; [vm_compute in Eg; discriminate|].
  exists m. split; [exact (occurs_at_sound GT 3 _ _ A)|]. split; [exact (occurs_at_sound GT 3 _ _ B)|].
  split; [exact C|]. split; [exact D|]. split; [exact Ht|]. split; [now left|].
  assert (Ha : prev_half m = 2).
  { assert (H : forallb (fun m => prev_half m =? 2) (gen_pseudo GT ex40_twin_a) = true) by (vm_compute; reflexivity).
    rewrite Eg in H. cbn [forallb] in H. apply andb_true_iff in H as [H _]. apply N.eqb_eq. exact H. }
  split.
  - intros Hin.
    assert (H : forallb (fun m => prev_half m =? 0) (gen_pseudo GT ex40_twin_b) = true) by (vm_compute; reflexivity).
    rewrite forallb_forall in H. specialize (H m Hin). apply N.eqb_eq in H. rewrite Ha in H. discriminate H.
  - exists (half ex40_twin_b mod 4096).
    pose proof (gen_pseudo_sh GT ex40_twin_a (half ex40_twin_b)) as G. rewrite <- (twin_set_half _ _ Ht) in G.
    rewrite G, Eg. now left.
Qed.

(* why "same ply" and the full-move number must not be asked for: the root recurs at ply 4 (1. Kd1 Kf5 2. Ke1 Ke5) with the
   same key, clock 44 instead of 40 and move number 62 instead of 60: a ctwin of the root, not a twin *)
Definition ex40_again : board := board_of_fen (RepetitionProofs.ex_fen (lit "8/5p2/8/4k3/8/3R4/4P3/4K3 w - - 44 62")).

Lemma root_recurs_at_ply_4 :
  In ex40_again (level GT 4 ex40_root) /\ zobrist_hash GT ex40_again = zobrist_hash GT ex40_root /\
  ctwin ex40_root ex40_again /\ ~ twin ex40_root ex40_again /\
  Minimax.at_ply board (ChessGame.succs GT) ex40_root 0 ex40_root.
Proof.
  split; [apply occurs_at_sound; vm_compute; reflexivity|]. split; [vm_compute; reflexivity|].
  split; [apply ctwinb_spec; vm_compute; reflexivity|]. split; [|constructor].
  intros (_ & _ & _ & _ & H). vm_compute in H. discriminate H.
Qed.

(* Proofs/ConsoleOk.v : DEFINITIONS ONLY (shared by Proofs/ConsoleProofs.v and Driver/RunUciOut.v).
     msg_ok m       the explicit side conditions on a `UciTx` call under which `ConsoleUciTx` writes a valid line
     abstract_of m  the protocol-level message (AST of Spec/UciOut.v) that the call is meant to convey
   Both are executable. *)
Require Import Ink.Lib.Str.
Require Import NArith ZArith List Bool.
Import ListNotations.
Require Import Ink.Spec.UciOut Ink.Model.ConsoleTx.
Open Scope N_scope.

(* ------------------------------------------------------------------ side conditions *)
Definition is_some {A : Type} (o : option A) : bool := match o with Some _ => true | None => false end.
Definition opt_ok {A : Type} (f : A -> bool) (o : option A) : bool := match o with Some a => f a | None => true end.

(* a square is one of the 64 `Square` constants; a promotion piece is knight, bishop, rook or queen
   (`UciMove::promote_to` is an arbitrary `Piece`: pawn and king would print as `p` / `k`) *)
Definition mv_ok (m : mv) : bool :=
  match m with
  | (s, d, p) => (s <? 64) && (d <? 64) && opt_ok (fun x => (2 <=? x) && (x <=? 5)) p
  end.
Definition mvs_ok (ms : list mv) : bool := match ms with [] => false | _ => forallb mv_ok ms end.

(* free text of `id`: no CR/LF, at least one character that is not a space *)
Definition id_text_ok (s : str) : bool := single_line s && existsb (fun c => negb (c =? 32)) s.

Definition has_field (i : info_record) : bool :=
  is_some (i_depth i) || is_some (i_selective_depth i) || is_some (i_time i) || is_some (i_nodes i)
  || is_some (i_principal_variation i) || is_some (i_multi_pv i) || is_some (i_score i) || is_some (i_current_move i)
  || is_some (i_current_move_number i) || is_some (i_hash_full i) || is_some (i_nps i) || is_some (i_table_hits i)
  || is_some (i_shredder_table_hits i) || is_some (i_cpu_load i) || is_some (i_string i) || is_some (i_refutation i)
  || is_some (i_current_line i).

Definition info_ok (i : info_record) : bool :=
  has_field i
  && opt_ok mvs_ok (i_principal_variation i)
  && opt_ok mv_ok (i_current_move i)
  && opt_ok (fun n => n <=? 1000) (i_hash_full i)
  && opt_ok single_line (i_string i)
  && opt_ok mvs_ok (i_refutation i)
  && opt_ok (fun cl => mvs_ok (snd cl)) (i_current_line i).

(* option texts: single-space separated words, each non-empty, free of (Unicode) white space, and not one of the
   key words that would end the text ([stop]) *)
Definition plain_word (stop : str -> bool) (t : str) : bool :=
  nonempty t && forallb (fun c => negb (is_whitespace c)) t && negb (stop t).
Definition plain_text (stop : str -> bool) (s : str) : bool := forallb (plain_word stop) (split_on 32 s).
Definition option_name_ok (s : str) : bool := plain_text (fun t => str_eqb t (lit "type")) s.
Definition option_value_ok (s : str) : bool := plain_text is_option_key s.

Definition msg_ok (m : tx_msg) : bool :=
  match m with
  | IdName s => id_text_ok s
  | IdAuthor s => id_text_ok s
  | UciOk => true
  | ReadyOk => true
  | BestMove b p => opt_ok mv_ok b && opt_ok mv_ok p
  | CopyProtection _ => true
  | Registration _ => true
  | Info i => info_ok i
  | OptionCheck name _ => option_name_ok name
  | OptionSpin name _ _ _ => option_name_ok name
  | OptionCombo name d vars => option_name_ok name && option_value_ok d && forallb option_value_ok vars
  | OptionButton name => option_name_ok name
  | OptionString name d => option_name_ok name && option_value_ok d
  | Debug _ => true                       (* never reaches stdout *)
  end.

(* ------------------------------------------------------------------ intended protocol message *)
Definition oi {A : Type} (f : A -> info_item) (o : option A) : list info_item :=
  match o with Some a => [f a] | None => [] end.

Definition abstract_status (p : protection) : prot_status :=
  match p with CHECKING => PsChecking | OK => PsOk | ERROR => PsError end.

Definition abstract_score (s : score) : out_score :=
  match s with
  | Centipawn c => SCp c None
  | CentipawnBounded c LOWER => SCp c (Some BdLower)
  | CentipawnBounded c UPPER => SCp c (Some BdUpper)
  | Mate m => SMate m None
  end.

(* items in the order in which console.rs emits them *)
Definition abstract_info (i : info_record) : list info_item :=
  oi IDepth (i_depth i) ++ oi ISelDepth (i_selective_depth i) ++ oi ITime (i_time i) ++ oi INodes (i_nodes i)
  ++ oi (fun ms => IPv (map show_move ms)) (i_principal_variation i) ++ oi IMultiPv (i_multi_pv i)
  ++ oi (fun s => IScore (abstract_score s)) (i_score i) ++ oi (fun m => ICurrMove (show_move m)) (i_current_move i)
  ++ oi ICurrMoveNumber (i_current_move_number i) ++ oi IHashFull (i_hash_full i) ++ oi INps (i_nps i)
  ++ oi ITbHits (i_table_hits i) ++ oi ISbHits (i_shredder_table_hits i) ++ oi ICpuLoad (i_cpu_load i)
  ++ oi (fun ms => IRefutation (map show_move ms)) (i_refutation i)
  ++ oi (fun cl => ICurrLine (Some (fst cl)) (map show_move (snd cl))) (i_current_line i)
  ++ oi IString (i_string i).

(* Debug has no stdout line; the value given for it is never used (render (Debug _) = None) *)
Definition abstract_of (m : tx_msg) : out_msg :=
  match m with
  | IdName s => OId IdKName s
  | IdAuthor s => OId IdKAuthor s
  | UciOk => OUciOk
  | ReadyOk => OReadyOk
  | BestMove b p => OBestMove (option_map show_move b) (option_map show_move p)
  | CopyProtection p => OCopyProtection (abstract_status p)
  | Registration p => ORegistration (abstract_status p)
  | Info i => OInfo (abstract_info i)
  | OptionCheck name d => OOption name TCheck [ADefault (show_bool d)]
  | OptionSpin name d mn mx => OOption name TSpin [ADefault (show_Z d); AMin mn; AMax mx]
  | OptionCombo name d vars => OOption name TCombo (ADefault d :: map AVar vars)
  | OptionButton name => OOption name TButton []
  | OptionString name d => OOption name TString [ADefault d]
  | Debug _ => OUciOk
  end.

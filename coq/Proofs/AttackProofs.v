(* C04: the precomputed attack tables equal the geometric ray/step attacks (Spec/Attacks.v).
   - meaning of the spec (ray_meaning, step_meaning)
   - ray_attacks only depends on the relevant-blocker squares (ray_depends)
   - subsets enumerates every sub-mask (subsets_complete)
   - the executable per-square checker sweep_ok and its lifting to ALL occupancies (sweep_sound)
   - the table-level boolean tables_attacks_ok and the generic consequences used by Properties/C04.v
   The per-square obligations `sweep_ok .. = true` are discharged by vm_compute in the regenerated Gen/Sweep*.v. *)
Require Import NArith ZArith List Bool Lia Arith.
Require Import ZifyBool.
Import ListNotations.
Require Import Ink.Lib.Bits Ink.Model.Tables Ink.Model.Board Ink.Spec.Attacks.
Open Scope N_scope.

Arguments N.add : simpl never.
Arguments N.sub : simpl never.
Arguments N.mul : simpl never.
Arguments N.div : simpl never.
Arguments N.modulo : simpl never.
Arguments N.eqb : simpl never.
Arguments N.ltb : simpl never.
Arguments N.leb : simpl never.
Arguments Z.add : simpl never.
Arguments Z.mul : simpl never.
Arguments N.shiftl : simpl never.
Arguments N.testbit : simpl never.
Arguments N.pow : simpl never.

(* ------------------------------------------------------------------ *)
(* geometry                                                            *)
(* ------------------------------------------------------------------ *)

Lemma sqbit_spec b i : N.testbit (sqbit b) i = (i =? b).
Proof. exact (bit_spec b i). Qed.

Lemma translate_lt64 sq d t : translate sq d = Some t -> t < 64.
Proof.
  unfold translate. cbv zeta.
  generalize (Z.of_N (sq mod 8) + fst d)%Z (Z.of_N (sq / 8) + snd d)%Z. intros f r.
  destruct (_ && _)%bool eqn:E; [|discriminate]. intros [= <-]. lia.
Qed.

Lemma translate_coords sq d t : translate sq d = Some t ->
  Z.of_N (t mod 8) = (Z.of_N (sq mod 8) + fst d)%Z /\ Z.of_N (t / 8) = (Z.of_N (sq / 8) + snd d)%Z.
Proof.
  unfold translate. cbv zeta.
  generalize (Z.of_N (sq mod 8) + fst d)%Z (Z.of_N (sq / 8) + snd d)%Z. intros f r.
  destruct (_ && _)%bool eqn:E; [|discriminate]. intros [= <-].
  assert (Hf : (0 <= f < 8)%Z) by lia. assert (Hr : (0 <= r < 8)%Z) by lia.
  assert (Ht : Z.to_N (f + 8 * r) = Z.to_N f + 8 * Z.to_N r) by lia.
  rewrite Ht. clear Ht E.
  assert (Hm : (Z.to_N f + 8 * Z.to_N r) mod 8 = Z.to_N f).
  { symmetry. apply (N.mod_unique _ 8 (Z.to_N r)); lia. }
  assert (Hd : (Z.to_N f + 8 * Z.to_N r) / 8 = Z.to_N r).
  { symmetry. apply (N.div_unique _ 8 _ (Z.to_N f)); lia. }
  rewrite Hm, Hd. lia.
Qed.

Lemma walk_S sq d k : walk sq d (S k) = match translate sq d with Some s => walk s d k | None => None end.
Proof. reflexivity. Qed.

Lemma walk_lt64 k : forall sq d t, sq < 64 -> walk sq d k = Some t -> t < 64.
Proof.
  induction k as [|k IH]; intros sq d t Hsq; cbn [walk].
  - now intros [= <-].
  - destruct (translate sq d) as [s|] eqn:E; [|discriminate]. apply IH. eapply translate_lt64; eassumption.
Qed.

Lemma walk_coords k : forall sq d t, walk sq d k = Some t ->
  Z.of_N (t mod 8) = (Z.of_N (sq mod 8) + Z.of_nat k * fst d)%Z /\
  Z.of_N (t / 8) = (Z.of_N (sq / 8) + Z.of_nat k * snd d)%Z.
Proof.
  induction k as [|k IH]; intros sq d t; cbn [walk].
  - intros [= <-]. lia.
  - destruct (translate sq d) as [s|] eqn:E; [|discriminate]. intros H.
    apply IH in H. apply translate_coords in E. lia.
Qed.

Lemma mul_neg_le a b : (0 <= a -> b <= -1 -> a * b <= - a)%Z.
Proof. intros. nia. Qed.
Lemma mul_pos_ge a b : (0 <= a -> 1 <= b -> a <= a * b)%Z.
Proof. intros. nia. Qed.

(* a slide on the 8x8 board has at most 7 steps, so the fuel of [ray] never runs out *)
Lemma walk_le7 sq d k t : sq < 64 -> d <> (0, 0)%Z -> walk sq d k = Some t -> (k <= 7)%nat.
Proof.
  intros Hsq Hd Hw. pose proof (walk_lt64 _ _ _ _ Hsq Hw) as Ht.
  apply walk_coords in Hw. destruct Hw as [Hf Hr].
  assert (Z.of_N (sq mod 8) < 8)%Z by (pose proof (N.mod_upper_bound sq 8); lia).
  assert (Z.of_N (t mod 8) < 8)%Z by (pose proof (N.mod_upper_bound t 8); lia).
  assert (Z.of_N (sq / 8) < 8)%Z by (pose proof (N.div_lt_upper_bound sq 8 8); lia).
  assert (Z.of_N (t / 8) < 8)%Z by (pose proof (N.div_lt_upper_bound t 8 8); lia).
  pose proof (N2Z.is_nonneg (sq mod 8)). pose proof (N2Z.is_nonneg (t mod 8)).
  pose proof (N2Z.is_nonneg (sq / 8)). pose proof (N2Z.is_nonneg (t / 8)).
  destruct d as [df dr]. cbn [fst snd] in *.
  assert (Hne : (df <> 0 \/ dr <> 0)%Z).
  { destruct (Z.eq_dec df 0) as [->|]; [|now left]. destruct (Z.eq_dec dr 0) as [->|]; [|now right]. now elim Hd. }
  destruct Hne as [Hne|Hne].
  - assert (df <= -1 \/ 1 <= df)%Z as [Hs|Hs] by lia.
    + pose proof (mul_neg_le (Z.of_nat k) df). lia.
    + pose proof (mul_pos_ge (Z.of_nat k) df). lia.
  - assert (dr <= -1 \/ 1 <= dr)%Z as [Hs|Hs] by lia.
    + pose proof (mul_neg_le (Z.of_nat k) dr). lia.
    + pose proof (mul_pos_ge (Z.of_nat k) dr). lia.
Qed.

(* ------------------------------------------------------------------ *)
(* meaning of ray / ray_attacks / step_attacks                         *)
(* ------------------------------------------------------------------ *)

(* the squares strictly between sq and the k-th square of the slide are all empty *)
Definition clear_before (sq : N) (d : dir) (occ : N) (k : nat) : Prop :=
  forall j s, (1 <= j < k)%nat -> walk sq d j = Some s -> N.testbit occ s = false.

Lemma ray_spec fuel : forall sq d occ t,
  N.testbit (ray fuel sq d occ) t = true <->
  exists k, (1 <= k <= fuel)%nat /\ walk sq d k = Some t /\ clear_before sq d occ k.
Proof.
  induction fuel as [|fuel IH]; intros sq d occ t; cbn [ray].
  - rewrite N.bits_0. split; [discriminate|]. intros (k & Hk & _). lia.
  - destruct (translate sq d) as [s|] eqn:E.
    + destruct (N.testbit occ s) eqn:Eo.
      * rewrite sqbit_spec. split.
        -- intros H. apply N.eqb_eq in H. subst t. exists 1%nat. split; [lia|]. split.
           ++ cbn [walk]. now rewrite E.
           ++ intros j s' Hj. lia.
        -- intros (k & Hk & Hw & Hc). destruct k as [|[|k]]; [lia| |].
           ++ cbn [walk] in Hw. rewrite E in Hw. injection Hw as <-. apply N.eqb_refl.
           ++ exfalso. assert (N.testbit occ s = false); [|congruence].
              apply (Hc 1%nat); [lia|]. cbn [walk]. now rewrite E.
      * rewrite N.lor_spec, orb_true_iff, sqbit_spec, IH. split.
        -- intros [H|(k & Hk & Hw & Hc)].
           ++ apply N.eqb_eq in H. subst t. exists 1%nat. split; [lia|]. split.
              ** cbn [walk]. now rewrite E.
              ** intros j s' Hj. lia.
           ++ exists (S k). split; [lia|]. split.
              ** rewrite walk_S, E. exact Hw.
              ** intros j s' Hj Hw'. destruct j as [|[|j]]; [lia| |].
                 --- cbn [walk] in Hw'. rewrite E in Hw'. injection Hw' as <-. exact Eo.
                 --- rewrite walk_S, E in Hw'. apply (Hc (S j)); [lia|exact Hw'].
        -- intros (k & Hk & Hw & Hc). destruct k as [|[|k]]; [lia| |].
           ++ left. cbn [walk] in Hw. rewrite E in Hw. injection Hw as <-. apply N.eqb_refl.
           ++ right. exists (S k). split; [lia|]. split.
              ** rewrite walk_S, E in Hw. exact Hw.
              ** intros j s' Hj Hw'. apply (Hc (S j)); [lia|]. rewrite walk_S, E. exact Hw'.
    + rewrite N.bits_0. split; [discriminate|]. intros (k & Hk & Hw & _).
      destruct k; [lia|]. rewrite walk_S, E in Hw. discriminate.
Qed.

Lemma ray_attacks_spec dirs sq occ t :
  N.testbit (ray_attacks dirs sq occ) t = true <-> exists d, In d dirs /\ N.testbit (ray 7 sq d occ) t = true.
Proof.
  unfold ray_attacks. induction dirs as [|d0 r IH]; cbn [fold_right In].
  - rewrite N.bits_0. split; [discriminate|]. intros (d & [] & _).
  - rewrite N.lor_spec, orb_true_iff, IH. split.
    + intros [H|(d & Hd & H)]; [exists d0; auto|exists d; auto].
    + intros (d & [<-|Hd] & H); [now left|right; exists d; auto].
Qed.

(* t is attacked from sq over occ  <->  t is the k-th square of one of the slides and everything before it is empty *)
Theorem ray_meaning dirs sq occ t : sq < 64 -> (forall d, In d dirs -> d <> (0, 0)%Z) ->
  (N.testbit (ray_attacks dirs sq occ) t = true <->
   exists d k, In d dirs /\ (1 <= k)%nat /\ walk sq d k = Some t /\
     forall j s, (1 <= j < k)%nat -> walk sq d j = Some s -> N.testbit occ s = false).
Proof.
  intros Hsq Hnz. rewrite ray_attacks_spec. split.
  - intros (d & Hd & H). apply ray_spec in H. destruct H as (k & Hk & Hw & Hc).
    exists d, k. repeat split; [assumption|lia|assumption|exact Hc].
  - intros (d & k & Hd & Hk & Hw & Hc). exists d. split; [assumption|]. apply ray_spec.
    exists k. split; [|split; [assumption|exact Hc]].
    split; [assumption|]. eapply walk_le7; [exact Hsq|apply Hnz; exact Hd|exact Hw].
Qed.

Lemma ORTH_nonzero d : In d ORTH -> d <> (0, 0)%Z.
Proof. cbn. intros [<-|[<-|[<-|[<-|[]]]]]; discriminate. Qed.
Lemma DIAG_nonzero d : In d DIAG -> d <> (0, 0)%Z.
Proof. cbn. intros [<-|[<-|[<-|[<-|[]]]]]; discriminate. Qed.

Theorem step_meaning dirs sq t :
  N.testbit (step_attacks dirs sq) t = true <-> exists d, In d dirs /\ translate sq d = Some t.
Proof.
  unfold step_attacks. induction dirs as [|d0 r IH]; cbn [fold_right In].
  - rewrite N.bits_0. split; [discriminate|]. intros (d & [] & _).
  - destruct (translate sq d0) as [s|] eqn:E.
    + rewrite N.lor_spec, orb_true_iff, sqbit_spec, IH. split.
      * intros [H|(d & Hd & H)].
        -- apply N.eqb_eq in H. subst t. exists d0. auto.
        -- exists d. auto.
      * intros (d & [<-|Hd] & H).
        -- left. rewrite E in H. injection H as <-. apply N.eqb_refl.
        -- right. exists d. auto.
    + rewrite IH. split.
      * intros (d & Hd & H). exists d. auto.
      * intros (d & [<-|Hd] & H); [congruence|exists d; auto].
Qed.

(* attack sets only contain squares of the board *)
Lemma ray_attacks_lt64 dirs sq occ t : sq < 64 -> N.testbit (ray_attacks dirs sq occ) t = true -> t < 64.
Proof.
  intros Hsq H. apply ray_attacks_spec in H. destruct H as (d & _ & H).
  apply ray_spec in H. destruct H as (k & _ & Hw & _). eapply walk_lt64; eassumption.
Qed.

Lemma step_attacks_lt64 dirs sq t : N.testbit (step_attacks dirs sq) t = true -> t < 64.
Proof. intros H. apply step_meaning in H. destruct H as (d & _ & H). eapply translate_lt64; eassumption. Qed.

(* ------------------------------------------------------------------ *)
(* dependence on the relevant squares only                             *)
(* ------------------------------------------------------------------ *)

Lemma ray_depends1 fuel : forall sq d occ occ',
  (forall s, In s (relevant_ray fuel sq d) -> N.testbit occ s = N.testbit occ' s) ->
  ray fuel sq d occ = ray fuel sq d occ'.
Proof.
  induction fuel as [|k IH]; intros sq d occ occ' H; cbn [ray]; [reflexivity|].
  cbn [relevant_ray] in H. destruct (translate sq d) as [s|] eqn:E; [|reflexivity].
  destruct (translate s d) as [s2|] eqn:E2.
  - rewrite <- (H s) by now left. destruct (N.testbit occ s); [reflexivity|].
    f_equal. apply IH. intros x Hx. apply H. now right.
  - destruct k; cbn [ray]; rewrite ?E2; destruct (N.testbit occ s), (N.testbit occ' s);
      rewrite ?N.lor_0_r; reflexivity.
Qed.

Theorem ray_depends dirs sq occ occ' :
  (forall s, In s (relevant dirs sq) -> N.testbit occ s = N.testbit occ' s) ->
  ray_attacks dirs sq occ = ray_attacks dirs sq occ'.
Proof.
  unfold relevant, ray_attacks. induction dirs as [|d r IH]; cbn [flat_map fold_right]; intros H; [reflexivity|].
  f_equal.
  - apply ray_depends1. intros s Hs. apply H. apply in_or_app. now left.
  - apply IH. intros s Hs. apply H. apply in_or_app. now right.
Qed.

(* ------------------------------------------------------------------ *)
(* enumeration of all sub-masks                                        *)
(* ------------------------------------------------------------------ *)

Fixpoint subsets (l : list N) : list N :=
  match l with
  | [] => [0]
  | b :: r => let s := subsets r in s ++ map (fun x => N.lor x (sqbit b)) s
  end.

Definition only_bits (l : list N) (n : N) : Prop := forall i, N.testbit n i = true -> In i l.

Lemma subsets_complete' l : NoDup l -> forall n, only_bits l n -> In n (subsets l).
Proof.
  induction l as [|b r IH]; intros Hnd n Hn; cbn [subsets].
  - left. symmetry. apply N.bits_inj_0. intro i. destruct (N.testbit n i) eqn:E; [destruct (Hn i E)|reflexivity].
  - inversion Hnd as [|? ? Hnotin Hnd']; subst. apply in_or_app.
    destruct (N.testbit n b) eqn:Eb.
    + right. apply in_map_iff. exists (N.ldiff n (sqbit b)). split.
      * apply N.bits_inj. intro i. rewrite N.lor_spec, N.ldiff_spec, sqbit_spec.
        destruct (N.eqb_spec i b) as [->|]; cbn [negb]; [now rewrite Eb, orb_true_r| now rewrite andb_true_r, orb_false_r].
      * apply IH; [assumption|]. intros i Hi. rewrite N.ldiff_spec, sqbit_spec in Hi.
        apply andb_true_iff in Hi as [Hi1 Hi2]. destruct (Hn i Hi1) as [<-|]; [|assumption].
        now rewrite N.eqb_refl in Hi2.
    + left. apply IH; [assumption|]. intros i Hi. destruct (Hn i Hi) as [<-|]; [congruence|assumption].
Qed.

Theorem subsets_complete l n : NoDup l -> (forall i, N.testbit n i = true -> In i l) -> In n (subsets l).
Proof. intros Hnd Hn. now apply subsets_complete'. Qed.

Lemma NoDup_bits_pos p : forall i, NoDup (bits_pos p i).
Proof.
  induction p as [q IH|q IH|]; intros i; cbn [bits_pos].
  - constructor; [|apply IH]. intros H. apply bits_pos_spec in H. lia.
  - apply IH.
  - constructor; [intros []|constructor].
Qed.

Lemma NoDup_bits_of n : NoDup (bits_of n).
Proof. destruct n; cbn [bits_of]; [constructor|apply NoDup_bits_pos]. Qed.

(* ------------------------------------------------------------------ *)
(* the per-square checker and its lifting to every occupancy           *)
(* ------------------------------------------------------------------ *)

Definition sweep_ok (dirs : list dir) (sq : N) (c : magic_cfg) : bool :=
  forallb (fun occ =>
             match nth_error (mg_attacks c) (N.to_nat (magic_index c occ)) with
             | Some a => a =? ray_attacks dirs sq occ
             | None => false
             end) (subsets (bits_of (mg_mask c)))
  && forallb (fun s => N.testbit (mg_mask c) s) (relevant dirs sq)
  && (mg_mask c <? 2 ^ 64).

(* the hash reads the occupancy only through `occupancy & mask` *)
Lemma magic_index_land c occ : magic_index c (N.land occ (mg_mask c)) = magic_index c occ.
Proof. unfold magic_index. now rewrite <- N.land_assoc, N.land_diag. Qed.

Lemma land_mask_in_subsets occ m : In (N.land occ m) (subsets (bits_of m)).
Proof.
  apply subsets_complete; [apply NoDup_bits_of|]. intros i Hi. apply bits_of_spec.
  rewrite N.land_spec in Hi. now apply andb_true_iff in Hi.
Qed.

Theorem sweep_sound dirs sq c : sweep_ok dirs sq c = true ->
  forall occ, nthN_opt (mg_attacks c) (magic_index c occ) = Some (ray_attacks dirs sq occ).
Proof.
  intros H occ. unfold sweep_ok in H.
  apply andb_true_iff in H as [H _]. apply andb_true_iff in H as [H1 H2].
  rewrite forallb_forall in H1, H2.
  specialize (H1 _ (land_mask_in_subsets occ (mg_mask c))). rewrite magic_index_land in H1.
  unfold nthN_opt. destruct (nth_error _ _) as [a|]; [|discriminate].
  apply N.eqb_eq in H1. subst a. f_equal. apply ray_depends. intros s Hs.
  rewrite N.land_spec, (H2 s Hs). apply andb_true_r.
Qed.

Lemma sweep_index_in_range dirs sq c : sweep_ok dirs sq c = true ->
  forall occ, (N.to_nat (magic_index c occ) < length (mg_attacks c))%nat.
Proof.
  intros H occ. apply nth_error_Some. pose proof (sweep_sound _ _ _ H occ) as E. unfold nthN_opt in E. congruence.
Qed.

Lemma sweep_mask_u64 dirs sq c : sweep_ok dirs sq c = true -> mg_mask c < 2 ^ 64.
Proof. unfold sweep_ok. intros H. apply andb_true_iff in H as [_ H]. now apply N.ltb_lt. Qed.

(* ------------------------------------------------------------------ *)
(* the 64 squares                                                      *)
(* ------------------------------------------------------------------ *)

Definition sq64 : list N := Eval compute in map N.of_nat (seq 0 64).

Lemma sq64_spec sq : In sq sq64 <-> sq < 64.
Proof.
  change sq64 with (map N.of_nat (seq 0 64)). rewrite in_map_iff. split.
  - intros (n & <- & Hn). apply in_seq in Hn. lia.
  - intros H. exists (N.to_nat sq). split; [lia|]. apply in_seq. lia.
Qed.

Lemma forall_lt64 (P : N -> Prop) : Forall P sq64 -> forall sq, sq < 64 -> P sq.
Proof. intros H sq Hsq. rewrite Forall_forall in H. apply H. now apply sq64_spec. Qed.

(* ------------------------------------------------------------------ *)
(* table level                                                         *)
(* ------------------------------------------------------------------ *)

Definition leaper_row_ok (T : Tables.t) (sq : N) : bool :=
  (leaper (king_tbl T) sq =? step_attacks KING_DIRS sq)
  && (leaper (knight_tbl T) sq =? step_attacks KNIGHT_DIRS sq)
  && (leaper (wpawn_tbl T) sq =? step_attacks WPAWN_DIRS sq)
  && (leaper (bpawn_tbl T) sq =? step_attacks BPAWN_DIRS sq).

Definition leapers_ok (T : Tables.t) : bool :=
  Nat.eqb (length (king_tbl T)) 64 && Nat.eqb (length (knight_tbl T)) 64
  && Nat.eqb (length (wpawn_tbl T)) 64 && Nat.eqb (length (bpawn_tbl T)) 64
  && forallb (leaper_row_ok T) sq64.

Definition slider_row_ok (T : Tables.t) (sq : N) : bool :=
  sweep_ok ORTH sq (nthN (rook_magics T) sq empty_cfg) && sweep_ok DIAG sq (nthN (bishop_magics T) sq empty_cfg).

Definition sliders_ok (T : Tables.t) : bool :=
  Nat.eqb (length (rook_magics T)) 64 && Nat.eqb (length (bishop_magics T)) 64 && forallb (slider_row_ok T) sq64.

(* the boolean conjunction of all sweeps: everything C04 says about a table set *)
Definition tables_attacks_ok (T : Tables.t) : bool := sliders_ok T && leapers_ok T.

(* assembling sliders_ok from the per-square obligations (used by the regenerated Gen/SweepAll.v) *)
Lemma sliders_ok_intro T :
  length (rook_magics T) = 64%nat -> length (bishop_magics T) = 64%nat ->
  (forall sq, sq < 64 ->
     sweep_ok ORTH sq (nthN (rook_magics T) sq empty_cfg) = true /\
     sweep_ok DIAG sq (nthN (bishop_magics T) sq empty_cfg) = true) ->
  sliders_ok T = true.
Proof.
  intros Hr Hb H. unfold sliders_ok. rewrite Hr, Hb. cbn [Nat.eqb andb].
  apply forallb_forall. intros sq Hsq. apply sq64_spec in Hsq. unfold slider_row_ok.
  destruct (H sq Hsq) as [-> ->]. reflexivity.
Qed.

Lemma tables_attacks_ok_intro T : sliders_ok T = true -> leapers_ok T = true -> tables_attacks_ok T = true.
Proof. unfold tables_attacks_ok. now intros -> ->. Qed.

Section Generic.
Variable T : Tables.t.
Hypothesis OK : tables_attacks_ok T = true.

Lemma ok_sliders : sliders_ok T = true.
Proof. unfold tables_attacks_ok in OK. now apply andb_true_iff in OK. Qed.
Lemma ok_leapers : leapers_ok T = true.
Proof. unfold tables_attacks_ok in OK. now apply andb_true_iff in OK. Qed.

Lemma ok_lengths :
  length (rook_magics T) = 64%nat /\ length (bishop_magics T) = 64%nat /\
  length (king_tbl T) = 64%nat /\ length (knight_tbl T) = 64%nat /\
  length (wpawn_tbl T) = 64%nat /\ length (bpawn_tbl T) = 64%nat.
Proof.
  pose proof ok_sliders as S. pose proof ok_leapers as L. unfold sliders_ok in S. unfold leapers_ok in L.
  repeat (match goal with H : (_ && _)%bool = true |- _ => apply andb_true_iff in H; destruct H end).
  repeat split; now apply Nat.eqb_eq.
Qed.

Lemma ok_sweeps sq : sq < 64 ->
  sweep_ok ORTH sq (nthN (rook_magics T) sq empty_cfg) = true /\
  sweep_ok DIAG sq (nthN (bishop_magics T) sq empty_cfg) = true.
Proof.
  intros Hsq. pose proof ok_sliders as S. unfold sliders_ok in S.
  apply andb_true_iff in S as [_ S]. rewrite forallb_forall in S.
  specialize (S sq (proj2 (sq64_spec sq) Hsq)). unfold slider_row_ok in S. now apply andb_true_iff in S.
Qed.

Lemma nthN_opt_nthN {A} (l : list A) i d : (N.to_nat i < length l)%nat -> nthN_opt l i = Some (nthN l i d).
Proof. intros H. unfold nthN_opt, nthN. now apply nth_error_nth'. Qed.

Theorem generic_sliders sq occ : sq < 64 ->
  magic_lookup_opt (rook_magics T) sq occ = Some (ray_attacks ORTH sq occ) /\
  magic_lookup_opt (bishop_magics T) sq occ = Some (ray_attacks DIAG sq occ).
Proof.
  intros Hsq. destruct ok_lengths as (Lr & Lb & _). destruct (ok_sweeps sq Hsq) as [Sr Sb].
  unfold magic_lookup_opt.
  rewrite (nthN_opt_nthN (rook_magics T) sq empty_cfg) by lia.
  rewrite (nthN_opt_nthN (bishop_magics T) sq empty_cfg) by lia.
  split; apply sweep_sound; assumption.
Qed.

Theorem generic_slider_values sq occ : sq < 64 ->
  magic_lookup (rook_magics T) sq occ = ray_attacks ORTH sq occ /\
  magic_lookup (bishop_magics T) sq occ = ray_attacks DIAG sq occ.
Proof.
  intros Hsq. destruct (generic_sliders sq occ Hsq) as [Hr Hb]. unfold magic_lookup. now rewrite Hr, Hb.
Qed.

(* every `get_unchecked` of the slider lookup is in range: the square indexes the 64-entry config array and
   the hash indexes the attack slice of that config *)
Theorem generic_index_in_range sq occ : sq < 64 ->
  (exists c, nthN_opt (rook_magics T) sq = Some c /\ (N.to_nat (magic_index c occ) < length (mg_attacks c))%nat) /\
  (exists c, nthN_opt (bishop_magics T) sq = Some c /\ (N.to_nat (magic_index c occ) < length (mg_attacks c))%nat).
Proof.
  intros Hsq. destruct ok_lengths as (Lr & Lb & _). destruct (ok_sweeps sq Hsq) as [Sr Sb]. split.
  - exists (nthN (rook_magics T) sq empty_cfg). split; [apply nthN_opt_nthN; lia|].
    eapply sweep_index_in_range; exact Sr.
  - exists (nthN (bishop_magics T) sq empty_cfg). split; [apply nthN_opt_nthN; lia|].
    eapply sweep_index_in_range; exact Sb.
Qed.

Theorem generic_leapers sq : sq < 64 ->
  leaper (king_tbl T) sq = step_attacks KING_DIRS sq /\
  leaper (knight_tbl T) sq = step_attacks KNIGHT_DIRS sq /\
  leaper (wpawn_tbl T) sq = step_attacks WPAWN_DIRS sq /\
  leaper (bpawn_tbl T) sq = step_attacks BPAWN_DIRS sq.
Proof.
  intros Hsq. pose proof ok_leapers as L. unfold leapers_ok in L.
  apply andb_true_iff in L as [_ L]. rewrite forallb_forall in L.
  specialize (L sq (proj2 (sq64_spec sq) Hsq)). unfold leaper_row_ok in L.
  repeat (match goal with H : (_ && _)%bool = true |- _ => apply andb_true_iff in H; destruct H end).
  repeat split; now apply N.eqb_eq.
Qed.

End Generic.

(* the two slider meanings without side conditions on the direction lists *)
Theorem rook_meaning sq occ t : sq < 64 ->
  (N.testbit (ray_attacks ORTH sq occ) t = true <->
   exists d k, In d ORTH /\ (1 <= k)%nat /\ walk sq d k = Some t /\
     forall j s, (1 <= j < k)%nat -> walk sq d j = Some s -> N.testbit occ s = false).
Proof. intros H. apply ray_meaning; [exact H|exact ORTH_nonzero]. Qed.

Theorem bishop_meaning sq occ t : sq < 64 ->
  (N.testbit (ray_attacks DIAG sq occ) t = true <->
   exists d k, In d DIAG /\ (1 <= k)%nat /\ walk sq d k = Some t /\
     forall j s, (1 <= j < k)%nat -> walk sq d j = Some s -> N.testbit occ s = false).
Proof. intros H. apply ray_meaning; [exact H|exact DIAG_nonzero]. Qed.

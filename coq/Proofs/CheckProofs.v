(* C05: the bitboard check detection of the model (Model/Board.v: square_in_check, in_check_by_bits, is_valid,
   is_current_in_check) equals "attacked by an enemy piece" of the rules (Spec/Rules.v: attacked, in_check).
   The code asks the BACKWARD question (which squares does a rook/bishop/knight/pawn/king standing on the king's
   square see, and is an enemy piece of that kind there?), the rules ask the FORWARD one (does some enemy piece
   attack the king's square?).  The two agree because every attack pattern is symmetric:
   - slide_spec / slide_sym : t is reached from s along a free ray iff s is reached from t along the opposite ray
   - step_sym, knight_sym, king_sym : leaper steps are symmetric
   - pawn_attack_sym : a pawn of colour c on s attacks t iff s is in the pawn pattern of the OTHER colour around t
     (this is why the code reads WHITE_PAWN_NONMAGICS[king square] for a WHITE king)
   - slide_ray, step_bridge : Spec/Attacks.v (N squares, translate, ray) vs Spec/Rules.v (Z coordinates, slide)
   - square_in_check_spec, in_check_spec, is_valid_spec, current_in_check_spec; Section Terminal (conditional). *)
Require Import Ink.Lib.Str.
Require Import NArith ZArith List Bool Lia Arith.
Require Import ZifyBool.
Import ListNotations.
Require Import Ink.Lib.Bits Ink.Model.Tables Ink.Model.Board Ink.Spec.Attacks Ink.Spec.Rules.
Require Import Ink.Proofs.Abs Ink.Proofs.AttackProofs Ink.Proofs.AbsProofs.

Arguments N.add : simpl never.
Arguments N.sub : simpl never.
Arguments N.mul : simpl never.
Arguments N.div : simpl never.
Arguments N.modulo : simpl never.
Arguments N.eqb : simpl never.
Arguments N.ltb : simpl never.
Arguments N.leb : simpl never.
Arguments Z.add : simpl never.
Arguments Z.mul : simpl never.
Arguments Z.sub : simpl never.
Arguments Z.opp : simpl never.
Arguments Z.div : simpl never.
Arguments Z.modulo : simpl never.
Arguments N.shiftl : simpl never.
Arguments N.testbit : simpl never.
Arguments N.pow : simpl never.
Arguments N.land : simpl never.
Arguments N.lor : simpl never.

(* ================================================================== *)
(* Part 1: geometry of the rules, in Z coordinates                     *)
(* ================================================================== *)
Open Scope Z_scope.

Definition negd (d : Z * Z) : Z * Z := (- fst d, - snd d).

Lemma negd_involutive d : negd (negd d) = d.
Proof. destruct d as [a b]. unfold negd. cbn [fst snd]. now rewrite !Z.opp_involutive. Qed.

Lemma on_board_iff f r : on_board f r = true <-> 0 <= f < 8 /\ 0 <= r < 8.
Proof. unfold on_board. lia. Qed.

Lemma file_sq_of f r : 0 <= f < 8 -> fileZ (sq_of f r) = f.
Proof. intros H. unfold fileZ, sq_of. symmetry. apply (Z.mod_unique_pos _ 8 r); lia. Qed.
Lemma row_sq_of f r : 0 <= f < 8 -> rowZ (sq_of f r) = r.
Proof. intros H. unfold rowZ, sq_of. symmetry. apply (Z.div_unique_pos _ 8 r f); lia. Qed.
Lemma sq_of_file_row s : sq_of (fileZ s) (rowZ s) = s.
Proof. unfold sq_of, fileZ, rowZ. pose proof (Z.div_mod s 8). lia. Qed.
Lemma file_bounds s : 0 <= fileZ s < 8.
Proof. unfold fileZ. apply Z.mod_pos_bound. lia. Qed.
Lemma row_bounds s : 0 <= s < 64 -> 0 <= rowZ s < 8.
Proof.
  intros H. unfold rowZ. split; [apply Z.div_pos; lia|apply Z.div_lt_upper_bound; lia].
Qed.
Lemma on_board_file_row s : 0 <= s < 64 -> on_board (fileZ s) (rowZ s) = true.
Proof. intros H. apply on_board_iff. split; [apply file_bounds|now apply row_bounds]. Qed.
Lemma sq_of_bounds f r : on_board f r = true -> 0 <= sq_of f r < 64.
Proof. rewrite on_board_iff. unfold sq_of. lia. Qed.

(* ---------- sliding: explicit description, then symmetry ---------- *)

(* t is the k-th square of the slide, all squares up to it are on the board, all squares before it are empty *)
Lemma slide_spec p n : forall f r df dr t,
  In t (slide p n f r (df, dr)) <->
  exists k, 1 <= k <= Z.of_nat n /\ t = sq_of (f + k * df) (r + k * dr) /\
    (forall j, 1 <= j <= k -> on_board (f + j * df) (r + j * dr) = true) /\
    (forall j, 1 <= j < k -> get p (sq_of (f + j * df) (r + j * dr)) = None).
Proof.
  induction n as [|n IH]; intros f r df dr t; cbn [slide fst snd].
  - split; [intros []|intros (k & Hk & _); lia].
  - assert (First : on_board (f + df) (r + dr) = true ->
                    exists k, 1 <= k <= Z.of_nat (S n) /\ sq_of (f + df) (r + dr) = sq_of (f + k * df) (r + k * dr) /\
                      (forall j, 1 <= j <= k -> on_board (f + j * df) (r + j * dr) = true) /\
                      (forall j, 1 <= j < k -> get p (sq_of (f + j * df) (r + j * dr)) = None)).
    { intros Eb. exists 1. split; [lia|]. split; [now rewrite !Z.mul_1_l|]. split.
      - intros j Hj. assert (j = 1) by lia. subst j. now rewrite !Z.mul_1_l.
      - intros j Hj. lia. }
    destruct (on_board (f + df) (r + dr)) eqn:Eb.
    + destruct (get p (sq_of (f + df) (r + dr))) as [pc|] eqn:Eg.
      * cbn [In]. split.
        -- intros [<-|[]]. now apply First.
        -- intros (k & Hk & -> & Hon & Hfree). left.
           assert (k = 1).
           { destruct (Z.eq_dec k 1) as [|Hne]; [assumption|exfalso].
             assert (Hf := Hfree 1). rewrite !Z.mul_1_l in Hf. rewrite Hf in Eg by lia. discriminate. }
           subst k. now rewrite !Z.mul_1_l.
      * cbn [In]. rewrite IH. split.
        -- intros [<-|(k & Hk & -> & Hon & Hfree)]; [now apply First|].
           exists (k + 1). split; [lia|]. split; [f_equal; ring|]. split.
           ++ intros j Hj. destruct (Z.eq_dec j 1) as [->|Hne]; [now rewrite !Z.mul_1_l|].
              replace (f + j * df) with (f + df + (j - 1) * df) by ring.
              replace (r + j * dr) with (r + dr + (j - 1) * dr) by ring. apply Hon. lia.
           ++ intros j Hj. destruct (Z.eq_dec j 1) as [->|Hne]; [now rewrite !Z.mul_1_l|].
              replace (f + j * df) with (f + df + (j - 1) * df) by ring.
              replace (r + j * dr) with (r + dr + (j - 1) * dr) by ring. apply Hfree. lia.
        -- intros (k & Hk & -> & Hon & Hfree).
           destruct (Z.eq_dec k 1) as [->|Hne]; [left; now rewrite !Z.mul_1_l|right].
           exists (k - 1). split; [lia|]. split; [f_equal; ring|]. split.
           ++ intros j Hj.
              replace (f + df + j * df) with (f + (j + 1) * df) by ring.
              replace (r + dr + j * dr) with (r + (j + 1) * dr) by ring. apply Hon. lia.
           ++ intros j Hj.
              replace (f + df + j * df) with (f + (j + 1) * df) by ring.
              replace (r + dr + j * dr) with (r + (j + 1) * dr) by ring. apply Hfree. lia.
    + split; [intros []|]. intros (k & Hk & _ & Hon & _).
      assert (Hf := Hon 1). rewrite !Z.mul_1_l in Hf. rewrite Hf in Eb by lia. discriminate.
Qed.

Lemma slide_on_board p n f r d t : In t (slide p n f r d) -> 0 <= t < 64.
Proof.
  destruct d as [df dr]. rewrite slide_spec. intros (k & Hk & -> & Hon & _). apply sq_of_bounds. apply Hon. lia.
Qed.

Lemma slide_sym_1 p s t df dr : 0 <= s < 64 ->
  In t (slide p 7 (fileZ s) (rowZ s) (df, dr)) -> In s (slide p 7 (fileZ t) (rowZ t) (- df, - dr)).
Proof.
  intros Hs H. apply slide_spec in H. destruct H as (k & Hk & -> & Hon & Hfree).
  assert (Hb : on_board (fileZ s + k * df) (rowZ s + k * dr) = true) by (apply Hon; lia).
  apply on_board_iff in Hb. rewrite file_sq_of, row_sq_of by tauto.
  apply slide_spec. exists k. split; [assumption|]. split; [|split].
  - replace (fileZ s + k * df + k * - df) with (fileZ s) by ring.
    replace (rowZ s + k * dr + k * - dr) with (rowZ s) by ring. symmetry. apply sq_of_file_row.
  - intros j Hj.
    replace (fileZ s + k * df + j * - df) with (fileZ s + (k - j) * df) by ring.
    replace (rowZ s + k * dr + j * - dr) with (rowZ s + (k - j) * dr) by ring.
    destruct (Z.eq_dec j k) as [->|Hne].
    + rewrite Z.sub_diag, !Z.mul_0_l, !Z.add_0_r. now apply on_board_file_row.
    + apply Hon. lia.
  - intros j Hj.
    replace (fileZ s + k * df + j * - df) with (fileZ s + (k - j) * df) by ring.
    replace (rowZ s + k * dr + j * - dr) with (rowZ s + (k - j) * dr) by ring.
    apply Hfree. lia.
Qed.

(* SLIDING IS SYMMETRIC: same squares strictly in between, opposite direction *)
Theorem slide_sym p s t d : 0 <= s < 64 -> 0 <= t < 64 ->
  (In t (slide p 7 (fileZ s) (rowZ s) d) <-> In s (slide p 7 (fileZ t) (rowZ t) (negd d))).
Proof.
  intros Hs Ht. destruct d as [df dr]. unfold negd. cbn [fst snd]. split.
  - now apply slide_sym_1.
  - intros H. apply slide_sym_1 in H; [|assumption]. now rewrite !Z.opp_involutive in H.
Qed.

(* ---------- single steps ---------- *)

Lemma step_targets_spec f r ds t :
  In t (step_targets f r ds) <->
  exists d, In d ds /\ on_board (f + fst d) (r + snd d) = true /\ t = sq_of (f + fst d) (r + snd d).
Proof.
  unfold step_targets. rewrite in_flat_map. split.
  - intros (d & Hd & H). exists d. destruct (on_board _ _); [|destruct H].
    destruct H as [<-|[]]. auto.
  - intros (d & Hd & Hb & ->). exists d. split; [assumption|]. rewrite Hb. now left.
Qed.

Lemma step_targets_on_board f r ds t : In t (step_targets f r ds) -> 0 <= t < 64.
Proof. rewrite step_targets_spec. intros (d & _ & Hb & ->). now apply sq_of_bounds. Qed.

Lemma step_sym_1 s t ds ds' : 0 <= s < 64 -> (forall d, In d ds -> In (negd d) ds') ->
  In t (step_targets (fileZ s) (rowZ s) ds) -> In s (step_targets (fileZ t) (rowZ t) ds').
Proof.
  intros Hs Hcl H. apply step_targets_spec in H. destruct H as (d & Hd & Hb & ->).
  apply step_targets_spec. exists (negd d). split; [now apply Hcl|].
  pose proof Hb as Hb'. apply on_board_iff in Hb'. rewrite file_sq_of, row_sq_of by tauto.
  unfold negd. cbn [fst snd].
  replace (fileZ s + fst d + - fst d) with (fileZ s) by ring.
  replace (rowZ s + snd d + - snd d) with (rowZ s) by ring.
  split; [now apply on_board_file_row|symmetry; apply sq_of_file_row].
Qed.

(* STEPS ARE SYMMETRIC up to negating the step list *)
Theorem step_sym s t ds ds' : 0 <= s < 64 -> 0 <= t < 64 -> (forall d, In d ds <-> In (negd d) ds') ->
  (In t (step_targets (fileZ s) (rowZ s) ds) <-> In s (step_targets (fileZ t) (rowZ t) ds')).
Proof.
  intros Hs Ht Hcl. split; apply step_sym_1; try assumption.
  - intros d. apply Hcl.
  - intros d Hd. apply Hcl. now rewrite negd_involutive.
Qed.

(* a list of steps that contains the opposite of each of its steps *)
Definition negd_closed (ds : list (Z * Z)) : Prop := forall d, In d ds -> In (negd d) ds.

Lemma negd_closed_iff ds : negd_closed ds -> forall d, In d ds <-> In (negd d) ds.
Proof. intros H d. split; [apply H|]. intros Hd. apply H in Hd. now rewrite negd_involutive in Hd. Qed.

Ltac in_list := cbn; repeat (first [left; reflexivity | right]).

Lemma orth_closed : negd_closed orth.
Proof. intros d. unfold orth. cbn [In]. intros [<-|[<-|[<-|[<-|[]]]]]; in_list. Qed.
Lemma diag_closed : negd_closed diag.
Proof. intros d. unfold diag. cbn [In]. intros [<-|[<-|[<-|[<-|[]]]]]; in_list. Qed.
Lemma knight_closed : negd_closed knight_steps.
Proof. intros d. unfold knight_steps. cbn [In]. intros [<-|[<-|[<-|[<-|[<-|[<-|[<-|[<-|[]]]]]]]]]; in_list. Qed.
Lemma king_closed : negd_closed (orth ++ diag).
Proof.
  intros d Hd. apply in_app_or in Hd. apply in_or_app.
  destruct Hd as [Hd|Hd]; [left; now apply orth_closed|right; now apply diag_closed].
Qed.

Definition pawn_steps (c : color) : list (Z * Z) := [(-1, forward c); (1, forward c)].

Lemma pawn_steps_neg c d : In d (pawn_steps c) <-> In (negd d) (pawn_steps (opp c)).
Proof.
  destruct d as [a b]. unfold pawn_steps, negd. cbn [In fst snd]. destruct c; cbn [opp forward]; split;
    intros [H|[H|[]]]; injection H as H1 H2; assert (Ha : a = 1 \/ a = -1) by lia;
    destruct Ha; subst a; ((left; f_equal; lia) || (right; left; f_equal; lia)).
Qed.

Theorem knight_sym s t : 0 <= s < 64 -> 0 <= t < 64 ->
  (In t (step_targets (fileZ s) (rowZ s) knight_steps) <-> In s (step_targets (fileZ t) (rowZ t) knight_steps)).
Proof. intros Hs Ht. apply step_sym; try assumption. apply negd_closed_iff. exact knight_closed. Qed.

Theorem king_sym s t : 0 <= s < 64 -> 0 <= t < 64 ->
  (In t (step_targets (fileZ s) (rowZ s) (orth ++ diag)) <-> In s (step_targets (fileZ t) (rowZ t) (orth ++ diag))).
Proof. intros Hs Ht. apply step_sym; try assumption. apply negd_closed_iff. exact king_closed. Qed.

(* A PAWN of colour c on s attacks t  <->  s is in the pawn pattern of the OTHER colour around t *)
Theorem pawn_attack_sym p c s t : 0 <= s < 64 -> 0 <= t < 64 ->
  (In t (attacked_from p s (c, Pawn)) <-> In s (step_targets (fileZ t) (rowZ t) (pawn_steps (opp c)))).
Proof.
  intros Hs Ht. unfold attacked_from. cbn [fst snd]. change [(-1, forward c); (1, forward c)] with (pawn_steps c).
  apply step_sym; try assumption. apply pawn_steps_neg.
Qed.

(* ... and NOT in the pattern of its own colour: the two tables cannot be swapped *)
Example pawn_pattern_not_own :
  In 27 (attacked_from {| cells := []; to_move := White; wk := false; wq := false; bk := false; bq := false;
                          epsq := None; halfc := 0; fullc := 0 |} 36 (White, Pawn)) /\
  ~ In 36 (step_targets (fileZ 27) (rowZ 27) (pawn_steps White)).
Proof. split; [cbv; tauto|]. cbv. intros [H|[H|[]]]; discriminate. Qed.

(* the forward attack sets only contain squares of the board *)
Lemma attacked_from_on_board p s pc t : In t (attacked_from p s pc) -> 0 <= t < 64.
Proof.
  unfold attacked_from. destruct (snd pc); try apply step_targets_on_board;
    rewrite in_flat_map; intros (d & _ & H); eapply slide_on_board; exact H.
Qed.

(* ================================================================== *)
(* Part 2: bridge between Spec/Attacks.v (N squares) and Spec/Rules.v  *)
(* ================================================================== *)

Lemma fileZ_N sq : fileZ (Z.of_N sq) = Z.of_N (sq mod 8).
Proof. unfold fileZ. now rewrite N2Z.inj_mod. Qed.
Lemma rowZ_N sq : rowZ (Z.of_N sq) = Z.of_N (sq / 8).
Proof. unfold rowZ. now rewrite N2Z.inj_div. Qed.

Lemma translate_Z sq d :
  translate sq d =
  if on_board (fileZ (Z.of_N sq) + fst d) (rowZ (Z.of_N sq) + snd d)
  then Some (Z.to_N (sq_of (fileZ (Z.of_N sq) + fst d) (rowZ (Z.of_N sq) + snd d))) else None.
Proof. unfold translate, on_board, sq_of. now rewrite fileZ_N, rowZ_N. Qed.

Lemma translate_iff sq d t :
  translate sq d = Some t <->
  on_board (fileZ (Z.of_N sq) + fst d) (rowZ (Z.of_N sq) + snd d) = true /\
  Z.of_N t = sq_of (fileZ (Z.of_N sq) + fst d) (rowZ (Z.of_N sq) + snd d).
Proof.
  rewrite translate_Z. destruct (on_board _ _) eqn:Eb.
  - pose proof (sq_of_bounds _ _ Eb) as Hbd. split.
    + intros [= <-]. split; [reflexivity|lia].
    + intros [_ H]. f_equal. lia.
  - split; [discriminate|intros [H _]; discriminate].
Qed.

Lemma translate_file_row sq d t : translate sq d = Some t ->
  fileZ (Z.of_N t) = fileZ (Z.of_N sq) + fst d /\ rowZ (Z.of_N t) = rowZ (Z.of_N sq) + snd d.
Proof.
  intros H. apply translate_iff in H. destruct H as [Hb ->]. apply on_board_iff in Hb.
  rewrite file_sq_of, row_sq_of by tauto. auto.
Qed.

(* the N occupancy describes the emptiness of the mailbox position on the 64 squares *)
Definition occ_matches (p : pos) (occ : N) : Prop :=
  forall s, (s < 64)%N -> N.testbit occ s = negb (empty p (Z.of_N s)).

(* one slide: Rules.slide (Z coordinates, mailbox) = Attacks.ray (N squares, occupancy bitboard) *)
Theorem slide_ray p occ d : occ_matches p occ -> forall n sq t,
  (In (Z.of_N t) (slide p n (fileZ (Z.of_N sq)) (rowZ (Z.of_N sq)) d) <-> N.testbit (ray n sq d occ) t = true).
Proof.
  intros Hocc. induction n as [|n IH]; intros sq t; cbn [slide ray].
  - rewrite N.bits_0. split; [intros []|discriminate].
  - destruct (translate sq d) as [s'|] eqn:E.
    + pose proof (translate_lt64 _ _ _ E) as Hs'. pose proof (translate_file_row _ _ _ E) as [Ef Er].
      apply translate_iff in E. destruct E as [Eb Es]. rewrite Eb, <- Es, <- Ef, <- Er.
      rewrite (Hocc s' Hs'). unfold empty. destruct (get p (Z.of_N s')) as [pc|]; cbn [negb].
      * rewrite sqbit_spec, N.eqb_eq. cbn [In]. split; [intros [H|[]]; lia|intros ->; now left].
      * rewrite N.lor_spec, orb_true_iff, sqbit_spec, N.eqb_eq, <- IH. cbn [In].
        split; (intros [H|H]; [left; lia|now right]).
    + rewrite translate_Z in E. destruct (on_board _ _); [discriminate|].
      rewrite N.bits_0. split; [intros []|discriminate].
Qed.

(* the form asked for: one direction, fuel 7 *)
Corollary slide_ray_attacks p occ d sq t : occ_matches p occ ->
  (In (Z.of_N t) (slide p 7 (fileZ (Z.of_N sq)) (rowZ (Z.of_N sq)) d) <-> N.testbit (ray_attacks [d] sq occ) t = true).
Proof. intros Hocc. unfold ray_attacks. cbn [fold_right]. rewrite N.lor_0_r. now apply slide_ray. Qed.

Corollary slides_ray_attacks p occ ds sq t : occ_matches p occ ->
  (In (Z.of_N t) (flat_map (slide p 7 (fileZ (Z.of_N sq)) (rowZ (Z.of_N sq))) ds) <->
   N.testbit (ray_attacks ds sq occ) t = true).
Proof.
  intros Hocc. rewrite ray_attacks_spec, in_flat_map.
  split; intros (d & Hd & H); exists d; (split; [assumption|]); now apply (slide_ray p occ d Hocc).
Qed.

Theorem step_bridge ds sq t :
  In (Z.of_N t) (step_targets (fileZ (Z.of_N sq)) (rowZ (Z.of_N sq)) ds) <-> N.testbit (step_attacks ds sq) t = true.
Proof.
  rewrite step_targets_spec, step_meaning.
  split; intros (d & Hd & H); exists d; (split; [assumption|]); now apply translate_iff.
Qed.

(* the direction lists of the two specs are the same lists *)
Lemma ORTH_orth : ORTH = orth. Proof. reflexivity. Qed.
Lemma DIAG_diag : DIAG = diag. Proof. reflexivity. Qed.
Lemma KING_DIRS_steps : KING_DIRS = orth ++ diag. Proof. reflexivity. Qed.
Lemma KNIGHT_DIRS_steps : KNIGHT_DIRS = knight_steps. Proof. reflexivity. Qed.
Lemma WPAWN_DIRS_steps : WPAWN_DIRS = pawn_steps White. Proof. reflexivity. Qed.
Lemma BPAWN_DIRS_steps : BPAWN_DIRS = pawn_steps Black. Proof. reflexivity. Qed.

Close Scope Z_scope.
Open Scope N_scope.

Lemma Zsq sq : sq < 64 -> (0 <= Z.of_N sq < 64)%Z.
Proof. lia. Qed.

(* ---------- backward lookup at sq  <->  forward attack from s ---------- *)

Theorem ray_link p occ ds sq s : occ_matches p occ -> negd_closed ds -> sq < 64 -> s < 64 ->
  (N.testbit (ray_attacks ds sq occ) s = true <->
   In (Z.of_N sq) (flat_map (slide p 7 (fileZ (Z.of_N s)) (rowZ (Z.of_N s))) ds)).
Proof.
  intros Hocc Hcl Hsq Hs. rewrite <- slides_ray_attacks by exact Hocc. rewrite !in_flat_map.
  split; intros (d & Hd & H); exists (negd d); (split; [now apply Hcl|]).
  - apply (slide_sym p (Z.of_N sq) (Z.of_N s) d); auto using Zsq.
  - apply (slide_sym p (Z.of_N sq) (Z.of_N s) (negd d)); auto using Zsq. now rewrite negd_involutive.
Qed.

Theorem step_link ds ds' sq s : (forall d, In d ds <-> In (negd d) ds') -> sq < 64 -> s < 64 ->
  (N.testbit (step_attacks ds sq) s = true <->
   In (Z.of_N sq) (step_targets (fileZ (Z.of_N s)) (rowZ (Z.of_N s)) ds')).
Proof.
  intros Hcl Hsq Hs. rewrite <- step_bridge. apply step_sym; auto using Zsq.
Qed.

(* ================================================================== *)
(* Part 3: the model's check detection                                 *)
(* ================================================================== *)

Lemma zmem_iff x l : zmem x l = true <-> In x l.
Proof.
  unfold zmem. rewrite existsb_exists. split.
  - intros (y & Hy & E). apply Z.eqb_eq in E. now subst y.
  - intros H. exists x. split; [assumption|apply Z.eqb_refl].
Qed.

(* "attacked" on an abstracted board, with the attacker found through its bitboard *)
Lemma attacked_abs_iff b t a : wf b = true ->
  (attacked (abs b) t a = true <->
   exists s k, s < 64 /\ N.testbit (bb_of b a k) s = true /\ In t (attacked_from (abs b) (Z.of_N s) (a, k))).
Proof.
  intros Hwf. unfold attacked. rewrite existsb_exists. split.
  - intros (s & Hs & H). apply in_squares in Hs. rewrite get_abs_Z in H by assumption.
    destruct (cell_of b (Z.to_N s)) as [[c k]|] eqn:E; [|discriminate].
    apply andb_true_iff in H as [Hc Hz]. cbn [fst] in Hc. apply color_eqb_eq in Hc. subst c.
    apply zmem_iff in Hz. exists (Z.to_N s), k. split; [lia|]. split.
    + now apply cell_of_some_bit.
    + now rewrite Z2N.id by lia.
  - intros (s & k & Hs & Hb & Hin). exists (Z.of_N s). split; [now apply in_squares_N|].
    rewrite get_abs by assumption. rewrite (proj2 (cell_of_iff b s a k Hwf) Hb). cbn [fst].
    rewrite color_eqb_refl. now apply zmem_iff.
Qed.

Lemma if_true_orb (a b : bool) : (if a then true else b) = (a || b)%bool.
Proof. now destruct a. Qed.

Definition pawn_dirs (c : color) : list dir := match c with White => WPAWN_DIRS | Black => BPAWN_DIRS end.

Lemma total_occ_matches b : occ_matches (abs b) (total_occ b).
Proof. intros s Hs. now apply total_occ_empty. Qed.

Section Check.
Variable T : Tables.t.
Hypothesis OK : tables_attacks_ok T = true.

Lemma pawn_table c sq : sq < 64 ->
  leaper (if colN c =? WHITE then wpawn_tbl T else bpawn_tbl T) sq = step_attacks (pawn_dirs c) sq.
Proof.
  intros Hsq. destruct (generic_leapers T OK sq Hsq) as (_ & _ & Hw & Hb). now destruct c.
Qed.

(* the general form: any occupancy word that agrees with the position on the 64 squares *)
Theorem square_in_check_occ b c sq occ : wf b = true -> sq < 64 -> occ_matches (abs b) occ ->
  square_in_check T (colN c) (pside b (opp c)) sq occ = attacked (abs b) (Z.of_N sq) (opp c).
Proof.
  intros Hwf Hsq Hocc. apply eq_iff_eq_true. rewrite (attacked_abs_iff b _ _ Hwf).
  unfold square_in_check, rook_attacks, bishop_attacks.
  destruct (generic_slider_values T OK sq occ Hsq) as [-> ->].
  destruct (generic_leapers T OK sq Hsq) as (-> & -> & _ & _). rewrite (pawn_table c sq Hsq).
  rewrite !if_true_orb, !orb_true_iff, !nz_land_exists.
  set (a := opp c). set (P := pside b a).
  assert (Lrook : forall s, s < 64 -> N.testbit (ray_attacks ORTH sq occ) s = true <->
            In (Z.of_N sq) (flat_map (slide (abs b) 7 (fileZ (Z.of_N s)) (rowZ (Z.of_N s))) orth)).
  { intros s Hs. apply ray_link; auto. exact orth_closed. }
  assert (Lbish : forall s, s < 64 -> N.testbit (ray_attacks DIAG sq occ) s = true <->
            In (Z.of_N sq) (flat_map (slide (abs b) 7 (fileZ (Z.of_N s)) (rowZ (Z.of_N s))) diag)).
  { intros s Hs. apply ray_link; auto. exact diag_closed. }
  assert (Lkn : forall s, s < 64 -> N.testbit (step_attacks KNIGHT_DIRS sq) s = true <->
            In (Z.of_N sq) (step_targets (fileZ (Z.of_N s)) (rowZ (Z.of_N s)) knight_steps)).
  { intros s Hs. apply step_link; auto. apply negd_closed_iff. exact knight_closed. }
  assert (Lki : forall s, s < 64 -> N.testbit (step_attacks KING_DIRS sq) s = true <->
            In (Z.of_N sq) (step_targets (fileZ (Z.of_N s)) (rowZ (Z.of_N s)) (orth ++ diag))).
  { intros s Hs. apply step_link; auto. apply negd_closed_iff. exact king_closed. }
  assert (Lpa : forall s, s < 64 -> N.testbit (step_attacks (pawn_dirs c) sq) s = true <->
            In (Z.of_N sq) (step_targets (fileZ (Z.of_N s)) (rowZ (Z.of_N s)) (pawn_steps a))).
  { intros s Hs. apply step_link; auto. intros d. replace (pawn_dirs c) with (pawn_steps c) by now destruct c.
    apply pawn_steps_neg. }
  split.
  - intros [(s & H1 & H2)|[(s & H1 & H2)|[(s & H1 & H2)|[(s & H1 & H2)|(s & H1 & H2)]]]].
    + assert (Hs : s < 64) by (eapply ray_attacks_lt64; eassumption).
      apply Lrook in H1; [|assumption]. rewrite N.lor_spec, orb_true_iff in H2. destruct H2 as [H2|H2].
      * exists s, Rook. auto.
      * exists s, Queen. split; [assumption|]. split; [assumption|].
        unfold attacked_from. cbn [snd]. rewrite flat_map_app. apply in_or_app. now left.
    + assert (Hs : s < 64) by (eapply ray_attacks_lt64; eassumption).
      apply Lbish in H1; [|assumption]. rewrite N.lor_spec, orb_true_iff in H2. destruct H2 as [H2|H2].
      * exists s, Bishop. auto.
      * exists s, Queen. split; [assumption|]. split; [assumption|].
        unfold attacked_from. cbn [snd]. rewrite flat_map_app. apply in_or_app. now right.
    + assert (Hs : s < 64) by (eapply step_attacks_lt64; eassumption).
      apply Lkn in H1; [|assumption]. exists s, Knight. auto.
    + assert (Hs : s < 64) by (eapply step_attacks_lt64; eassumption).
      apply Lpa in H1; [|assumption]. exists s, Pawn. auto.
    + assert (Hs : s < 64) by (eapply step_attacks_lt64; eassumption).
      apply Lki in H1; [|assumption]. exists s, King. auto.
  - intros (s & k & Hs & Hb & Hin). unfold bb_of in Hb. fold P in Hb.
    destruct k; unfold attacked_from in Hin; cbn [fst snd pbb] in Hin, Hb.
    + (* pawn *) right; right; right; left. exists s. split; [|assumption]. now apply Lpa.
    + (* knight *) right; right; left. exists s. split; [|assumption]. now apply Lkn.
    + (* bishop *) right; left. exists s. split; [now apply Lbish|]. rewrite N.lor_spec, Hb. reflexivity.
    + (* rook *) left. exists s. split; [now apply Lrook|]. rewrite N.lor_spec, Hb. reflexivity.
    + (* queen *) rewrite flat_map_app in Hin. apply in_app_or in Hin. destruct Hin as [Hin|Hin].
      * left. exists s. split; [now apply Lrook|]. rewrite N.lor_spec, Hb. apply orb_true_r.
      * right; left. exists s. split; [now apply Lbish|]. rewrite N.lor_spec, Hb. apply orb_true_r.
    + (* king *) right; right; right; right. exists s. split; [|assumption]. now apply Lki.
Qed.

(* C05, square level: with the total occupancy of the board; holds for ANY square (castling transit squares too) *)
Theorem square_in_check_spec b c sq : wf b = true -> sq < 64 ->
  square_in_check T (colN c) (pside b (opp c)) sq (N.lor (full_occ (white b)) (full_occ (black b)))
  = attacked (abs b) (Z.of_N sq) (opp c).
Proof. intros Hwf Hsq. apply square_in_check_occ; try assumption. exact (total_occ_matches b). Qed.

(* the occupancy argument as the generator passes it: active | passive *)
Corollary square_in_check_active b c sq : wf b = true -> sq < 64 ->
  square_in_check T (colN c) (pside b (opp c)) sq (N.lor (full_occ (active b)) (full_occ (passive b)))
  = attacked (abs b) (Z.of_N sq) (opp c).
Proof. intros Hwf Hsq. rewrite total_occ_active_passive. now apply square_in_check_spec. Qed.

(* occupancy_in_check: some square of the set is attacked *)
Corollary occupancy_in_check_spec b c set : wf b = true -> set < 2 ^ 64 ->
  occupancy_in_check T (colN c) (pside b (opp c)) (N.lor (full_occ (white b)) (full_occ (black b))) set
  = existsb (fun sq => attacked (abs b) (Z.of_N sq) (opp c)) (bits_of set).
Proof.
  intros Hwf Hset. unfold occupancy_in_check. apply eq_iff_eq_true. rewrite !existsb_exists.
  split; intros (sq & Hin & H); exists sq; (split; [assumption|]);
    assert (Hsq : sq < 64) by (apply (testbit_lt64 set); [assumption|now apply bits_of_spec]).
  - now rewrite <- (square_in_check_spec b c sq Hwf Hsq).
  - now rewrite (square_in_check_spec b c sq Hwf Hsq).
Qed.

(* C05, king level *)
Theorem in_check_spec b c : wf b = true -> in_check_by_bits T b (colN c) = Rules.in_check (abs b) c.
Proof.
  intros Hwf. unfold in_check_by_bits, Rules.in_check. rewrite (king_sq_abs b c Hwf).
  pose proof (king_of_lt64 b c Hwf) as Hk. rewrite <- (square_in_check_occ b c (king_of b c) (total_occ b) Hwf Hk (total_occ_matches b)).
  unfold king_of, total_occ. destruct c; cbn [colN pside opp].
  - change (WHITE =? WHITE) with true. cbv iota. reflexivity.
  - change (BLACK =? WHITE) with false. cbv iota. now rewrite N.lor_comm.
Qed.

Corollary in_check_spec_N b n : wf b = true -> n < 2 -> in_check_by_bits T b n = Rules.in_check (abs b) (col_of n).
Proof. intros Hwf Hn. rewrite <- (colN_col_of n Hn) at 1. now apply in_check_spec. Qed.

Theorem is_valid_spec b : wf b = true -> is_valid T b = negb (Rules.in_check (abs b) (opp (to_move (abs b)))).
Proof.
  intros Hwf. unfold is_valid. f_equal. rewrite to_move_abs.
  rewrite <- (colN_col_of (turn b) (wf_turn b Hwf)) at 1. rewrite <- colN_opp. now apply in_check_spec.
Qed.

Theorem current_in_check_spec b : wf b = true -> is_current_in_check T b = Rules.in_check (abs b) (to_move (abs b)).
Proof. intros Hwf. unfold is_current_in_check. rewrite to_move_abs. apply in_check_spec_N; [assumption|now apply wf_turn]. Qed.

(* ---------- terminal positions, conditional on the move-generation equivalence ---------- *)
Section Terminal.
Variable b : board.
Hypothesis Hwf : wf b = true.
(* proved elsewhere (move-generation equivalence); stated here as an explicit hypothesis *)
Hypothesis Hgen : gen_legal T b = [] <-> Rules.legal_moves (abs b) = [].

Theorem terminal_checkmate :
  Rules.checkmate (abs b) = true <-> gen_legal T b = [] /\ is_current_in_check T b = true.
Proof.
  rewrite Hgen, (current_in_check_spec b Hwf). unfold checkmate.
  destruct (legal_moves (abs b)); split; try tauto; try discriminate. intros [H _]. discriminate.
Qed.

Theorem terminal_stalemate :
  Rules.stalemate (abs b) = true <-> gen_legal T b = [] /\ is_current_in_check T b = false.
Proof.
  rewrite Hgen, (current_in_check_spec b Hwf). unfold stalemate.
  destruct (legal_moves (abs b)); [rewrite negb_true_iff|]; split; try tauto; try discriminate. intros [H _]. discriminate.
Qed.

(* no legal move  <->  checkmate or stalemate *)
Theorem terminal_no_moves :
  gen_legal T b = [] <-> Rules.checkmate (abs b) = true \/ Rules.stalemate (abs b) = true.
Proof.
  rewrite terminal_checkmate, terminal_stalemate. destruct (is_current_in_check T b); tauto.
Qed.

End Terminal.

(* checkmate and stalemate are never confused (no hypothesis needed) *)
Theorem terminal_exclusive (p : pos) : ~ (Rules.checkmate p = true /\ Rules.stalemate p = true).
Proof.
  unfold checkmate, stalemate. destruct (legal_moves p); [|intros [H _]; discriminate].
  destruct (in_check p (to_move p)); cbn; intros [H1 H2]; discriminate.
Qed.

End Check.

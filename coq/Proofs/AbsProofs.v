(* Basic facts relating the bitboards of a well-formed board (Model/Board.v, `wf`) to its abstraction
   (Proofs/Abs.v, `abs : board -> pos`).  Reused by the check-detection (C05) and move-generation proofs.
   - nz/land/bit: `nz (x & bit sq)` is `testbit x sq`, `nz (a & b)` is "a and b share a square"
   - wf unpacked; pairwise disjointness of the twelve piece bitboards
   - cell_of b sq = Some (c, k)  <->  bit sq of the bitboard of colour c and kind k
   - get (abs b) = cell_of on the 64 squares; occupancies vs empty/own/enemy
   - exactly one king: its bitboard is `bit (ctz64 ..)`, and king_sq (abs b) finds that square *)
Require Import Ink.Lib.Str.
Require Import NArith ZArith List Bool Lia Arith.
Require Import ZifyBool.
Import ListNotations.
Require Import Ink.Lib.Bits Ink.Model.Tables Ink.Model.Board Ink.Spec.Rules Ink.Proofs.Abs.
Open Scope N_scope.

Arguments N.add : simpl never.
Arguments N.sub : simpl never.
Arguments N.mul : simpl never.
Arguments N.div : simpl never.
Arguments N.modulo : simpl never.
Arguments N.eqb : simpl never.
Arguments N.ltb : simpl never.
Arguments N.leb : simpl never.
Arguments Z.add : simpl never.
Arguments Z.mul : simpl never.
Arguments N.shiftl : simpl never.
Arguments N.testbit : simpl never.
Arguments N.pow : simpl never.
Arguments N.land : simpl never.
Arguments N.lor : simpl never.

(* ------------------------------------------------------------------ *)
(* naming the twelve bitboards                                         *)
(* ------------------------------------------------------------------ *)

Definition pside (b : board) (c : color) : pstate := match c with White => white b | Black => black b end.
Definition pbb (p : pstate) (k : kind) : N :=
  match k with
  | Pawn => pawns p | Knight => knights p | Bishop => bishops p | Rook => rooks p | Queen => queens p | King => kings p
  end.
Definition bb_of (b : board) (c : color) (k : kind) : N := pbb (pside b c) k.

(* colours of the model (WHITE = 0, BLACK = 1) vs colours of the spec *)
Definition colN (c : color) : N := match c with White => WHITE | Black => BLACK end.
Definition col_of (n : N) : color := if n =? 0 then White else Black.

Lemma col_of_colN c : col_of (colN c) = c.
Proof. now destruct c. Qed.
Lemma colN_col_of n : n < 2 -> colN (col_of n) = n.
Proof. intros H. unfold col_of. destruct (N.eqb_spec n 0) as [->|]; cbn [colN]; unfold WHITE, BLACK; lia. Qed.
Lemma colN_opp c : colN (opp c) = opposite (colN c).
Proof. now destruct c. Qed.
Lemma colN_white c : (colN c =? WHITE) = color_eqb c White.
Proof. now destruct c. Qed.
Lemma to_move_abs b : to_move (abs b) = col_of (turn b).
Proof. reflexivity. Qed.

Lemma color_eqb_eq a b : color_eqb a b = true <-> a = b.
Proof. destruct a, b; cbn; split; intros; congruence. Qed.
Lemma color_eqb_refl a : color_eqb a a = true.
Proof. now destruct a. Qed.
Lemma kind_eqb_eq a b : kind_eqb a b = true <-> a = b.
Proof. destruct a, b; cbn; split; intros; congruence. Qed.
Lemma opp_opp c : opp (opp c) = c.
Proof. now destruct c. Qed.
Lemma opp_neq c : opp c <> c.
Proof. destruct c; discriminate. Qed.
Lemma color_eqb_opp c : color_eqb c (opp c) = false.
Proof. now destruct c. Qed.

Lemma piece_eq_dec (x y : piece) : {x = y} + {x <> y}.
Proof. decide equality; decide equality. Qed.

(* ------------------------------------------------------------------ *)
(* nz / land / bit                                                     *)
(* ------------------------------------------------------------------ *)

Lemma nz_true x : nz x = true <-> x <> 0.
Proof. unfold nz. destruct (N.eqb_spec x 0); cbn; split; intros; congruence. Qed.

Lemma nz_land_bit x sq : nz (N.land x (bit sq)) = N.testbit x sq.
Proof.
  unfold nz. destruct (N.testbit x sq) eqn:E.
  - destruct (N.eqb_spec (N.land x (bit sq)) 0) as [H|]; [|reflexivity].
    exfalso. assert (F : N.testbit (N.land x (bit sq)) sq = false) by (rewrite H; apply N.bits_0).
    rewrite N.land_spec, bit_spec, E, N.eqb_refl in F. discriminate.
  - assert (H : N.land x (bit sq) = 0).
    { apply N.bits_inj_0. intro i. rewrite N.land_spec, bit_spec.
      destruct (N.eqb_spec i sq) as [->|]; [now rewrite E|apply andb_false_r]. }
    now rewrite H.
Qed.

(* a nonzero intersection has a witness square *)
Lemma nz_land_exists a b : nz (N.land a b) = true <-> exists s, N.testbit a s = true /\ N.testbit b s = true.
Proof.
  rewrite nz_true. split.
  - intros H. exists (N.log2 (N.land a b)). apply andb_true_iff. rewrite <- N.land_spec. now apply N.bit_log2.
  - intros (s & Ha & Hb) H. assert (F : N.testbit (N.land a b) s = false) by (rewrite H; apply N.bits_0).
    rewrite N.land_spec, Ha, Hb in F. discriminate.
Qed.

Lemma testbit_le n j : N.testbit n j = true -> 2 ^ j <= n.
Proof.
  intros H. destruct (N.le_gt_cases (2 ^ j) n) as [|Hlt]; [assumption|exfalso].
  destruct n as [|p]; [rewrite N.bits_0 in H; discriminate|].
  rewrite N.bits_above_log2 in H; [discriminate|]. apply N.log2_lt_pow2; [lia|assumption].
Qed.

(* a u64 only has squares 0..63 *)
Lemma testbit_lt64 x j : x < 2 ^ 64 -> N.testbit x j = true -> j < 64.
Proof.
  intros Hx H. apply testbit_le in H. destruct (N.lt_ge_cases j 64) as [|Hge]; [assumption|exfalso].
  assert (2 ^ 64 <= 2 ^ j) by (apply N.pow_le_mono_r; lia). lia.
Qed.

(* ------------------------------------------------------------------ *)
(* popcount / ctz64 through bits_of                                    *)
(* ------------------------------------------------------------------ *)

Lemma popcount_pos_length p : forall i, popcount_pos p = N.of_nat (length (bits_pos p i)).
Proof.
  induction p as [q IH|q IH|]; intros i; cbn [popcount_pos bits_pos length].
  - rewrite (IH (N.succ i)). lia.
  - apply IH.
  - reflexivity.
Qed.

Lemma bits_pos_hd p : forall i, exists r, bits_pos p i = (i + ctz_pos p) :: r.
Proof.
  induction p as [q IH|q IH|]; intros i; cbn [bits_pos ctz_pos].
  - exists (bits_pos q (N.succ i)). f_equal. lia.
  - destruct (IH (N.succ i)) as [r ->]. exists r. f_equal. lia.
  - exists []. f_equal. lia.
Qed.

Lemma popcount_length n : popcount n = N.of_nat (length (bits_of n)).
Proof. destruct n; cbn [popcount bits_of length]; [reflexivity|apply popcount_pos_length]. Qed.

(* the lowest set bit comes first in the enumeration *)
Lemma bits_of_hd n : n <> 0 -> exists r, bits_of n = ctz64 n :: r.
Proof. destruct n as [|p]; [congruence|]. intros _. cbn [bits_of ctz64]. apply (bits_pos_hd p 0). Qed.

Lemma ctz64_testbit n : n <> 0 -> N.testbit n (ctz64 n) = true.
Proof. intros H. apply bits_of_spec. destruct (bits_of_hd n H) as [r ->]. now left. Qed.

(* a bitboard with exactly one bit is `bit (ctz64 ..)` *)
Lemma popcount1_bits n : popcount n = 1 -> bits_of n = [ctz64 n].
Proof.
  intros H. assert (Hn : n <> 0) by (intros ->; discriminate).
  destruct (bits_of_hd n Hn) as [r E]. rewrite popcount_length, E in H. cbn [length] in H.
  destruct r; [exact E|cbn [length] in H; lia].
Qed.

Lemma popcount1_testbit n j : popcount n = 1 -> N.testbit n j = (j =? ctz64 n).
Proof.
  intros H. apply eq_iff_eq_true. rewrite <- bits_of_spec, (popcount1_bits n H), N.eqb_eq.
  cbn [In]. split; [intros [E|[]]; now symmetry|intros ->; now left].
Qed.

Lemma popcount1_bit n : popcount n = 1 -> n = bit (ctz64 n).
Proof. intros H. apply N.bits_inj. intro j. now rewrite bit_spec, popcount1_testbit. Qed.

Lemma popcount1_ctz_lt64 n : popcount n = 1 -> n < 2 ^ 64 -> ctz64 n < 64.
Proof. intros H Hn. apply (testbit_lt64 n); [assumption|]. rewrite popcount1_testbit by assumption. apply N.eqb_refl. Qed.

(* ------------------------------------------------------------------ *)
(* well-formedness unpacked                                            *)
(* ------------------------------------------------------------------ *)

Lemma wf_unpack b : wf b = true ->
  (forall x, In x (bbs b) -> x < 2 ^ 64) /\ disjoint_all 0 (bbs b) = true /\
  popcount (kings (white b)) = 1 /\ popcount (kings (black b)) = 1 /\
  turn b < 2 /\ ep b < 64 /\ N.land (N.lor (pawns (white b)) (pawns (black b))) RANKS_18 = 0.
Proof.
  unfold wf. intros H.
  repeat (match goal with H : (_ && _)%bool = true |- _ => apply andb_true_iff in H; destruct H end).
  repeat split; try assumption; try (now apply N.eqb_eq); try (now apply N.ltb_lt).
  intros x Hx. match goal with H : forallb _ _ = true |- _ => rewrite forallb_forall in H; specialize (H x Hx) end.
  change (2 ^ 64) with 18446744073709551616. now apply N.ltb_lt.
Qed.

Lemma bb_of_in_bbs b c k : In (bb_of b c k) (bbs b).
Proof. destruct c, k; cbn; tauto. Qed.

Lemma wf_bb_u64 b c k : wf b = true -> bb_of b c k < 2 ^ 64.
Proof. intros H. apply wf_unpack in H. destruct H as (H & _). apply H. apply bb_of_in_bbs. Qed.

Lemma wf_bb_lt64 b c k sq : wf b = true -> N.testbit (bb_of b c k) sq = true -> sq < 64.
Proof. intros H. apply testbit_lt64. now apply wf_bb_u64. Qed.

Lemma wf_turn b : wf b = true -> turn b < 2.
Proof. intros H. apply wf_unpack in H. tauto. Qed.

Lemma wf_king_count b c : wf b = true -> popcount (kings (pside b c)) = 1.
Proof. intros H. apply wf_unpack in H. destruct c; cbn [pside]; tauto. Qed.

(* ------------------------------------------------------------------ *)
(* pairwise disjointness                                               *)
(* ------------------------------------------------------------------ *)

Lemma disjoint_all_spec l : forall acc, disjoint_all acc l = true -> forall sq,
  (N.testbit acc sq = true -> forall x, In x l -> N.testbit x sq = false) /\
  (forall i j, (i < j < length l)%nat -> N.testbit (nth i l 0) sq = true -> N.testbit (nth j l 0) sq = false).
Proof.
  induction l as [|x r IH]; intros acc H sq; cbn [disjoint_all] in H.
  - split; [intros _ y []|cbn [length]; intros; lia].
  - apply andb_true_iff in H as [H0 H]. apply N.eqb_eq in H0. destruct (IH _ H sq) as [IH1 IH2].
    assert (Hx : N.testbit acc sq = true -> N.testbit x sq = false).
    { intros Ha. assert (F : N.testbit (N.land acc x) sq = false) by (rewrite H0; apply N.bits_0).
      rewrite N.land_spec, Ha in F. exact F. }
    split.
    + intros Ha y [<-|Hy]; [now apply Hx|]. apply IH1; [|assumption]. rewrite N.lor_spec, Ha. reflexivity.
    + intros i j Hij. cbn [length] in Hij. destruct i as [|i], j as [|j]; try lia; cbn [nth].
      * intros Hxs. apply IH1; [rewrite N.lor_spec, Hxs; apply orb_true_r|]. apply nth_In. lia.
      * apply IH2. lia.
Qed.

Definition bb_idx (c : color) (k : kind) : nat :=
  (match c with White => 0 | Black => 6 end +
   match k with Pawn => 0 | Knight => 1 | Bishop => 2 | Rook => 3 | Queen => 4 | King => 5 end)%nat.

Lemma bbs_nth b c k : nth (bb_idx c k) (bbs b) 0 = bb_of b c k.
Proof. destruct c, k; reflexivity. Qed.
Lemma bb_idx_lt c k : (bb_idx c k < 12)%nat.
Proof. destruct c, k; cbn; lia. Qed.
Lemma bb_idx_inj c k c' k' : bb_idx c k = bb_idx c' k' -> (c, k) = (c', k').
Proof. destruct c, k, c', k'; cbn; intros H; try reflexivity; discriminate. Qed.

(* no square carries two different (colour, kind) bits *)
Theorem bb_disjoint b c k c' k' sq : wf b = true -> (c, k) <> (c', k') ->
  N.testbit (bb_of b c k) sq = true -> N.testbit (bb_of b c' k') sq = false.
Proof.
  intros Hwf Hne H. apply wf_unpack in Hwf. destruct Hwf as (_ & Hd & _).
  destruct (disjoint_all_spec _ _ Hd sq) as [_ Hp]. rewrite <- bbs_nth in H |- *.
  pose proof (bb_idx_lt c k). pose proof (bb_idx_lt c' k').
  assert (Hi : bb_idx c k <> bb_idx c' k') by (intros E; apply Hne; now apply bb_idx_inj).
  assert (Hlen : length (bbs b) = 12%nat) by reflexivity.
  destruct (Nat.lt_ge_cases (bb_idx c k) (bb_idx c' k')) as [Hlt|Hge].
  - apply (Hp (bb_idx c k)); [lia|assumption].
  - destruct (N.testbit (nth (bb_idx c' k') (bbs b) 0) sq) eqn:E; [|reflexivity].
    rewrite (Hp (bb_idx c' k') (bb_idx c k)) in H; [discriminate|lia|assumption].
Qed.

Corollary bb_unique b c k c' k' sq : wf b = true ->
  N.testbit (bb_of b c k) sq = true -> N.testbit (bb_of b c' k') sq = true -> (c, k) = (c', k').
Proof.
  intros Hwf H H'. destruct (piece_eq_dec (c, k) (c', k')) as [E|Hne]; [assumption|].
  rewrite (bb_disjoint b c k c' k' sq Hwf Hne H) in H'. discriminate.
Qed.

(* ------------------------------------------------------------------ *)
(* piece_at / cell_of                                                  *)
(* ------------------------------------------------------------------ *)

Lemma piece_at_unfold p sq : piece_at p sq =
  if N.testbit (pawns p) sq then PAWN else if N.testbit (knights p) sq then KNIGHT
  else if N.testbit (bishops p) sq then BISHOP else if N.testbit (rooks p) sq then ROOK
  else if N.testbit (queens p) sq then QUEEN else if N.testbit (kings p) sq then KING else NO_PIECE.
Proof. unfold piece_at, piece_at_mask. now rewrite !nz_land_bit. Qed.

Lemma kind_of_piece_at_some p sq k : kind_of (piece_at p sq) = Some k -> N.testbit (pbb p k) sq = true.
Proof.
  rewrite piece_at_unfold.
  destruct (N.testbit (pawns p) sq) eqn:E1; [cbn; intros [= <-]; exact E1|].
  destruct (N.testbit (knights p) sq) eqn:E2; [cbn; intros [= <-]; exact E2|].
  destruct (N.testbit (bishops p) sq) eqn:E3; [cbn; intros [= <-]; exact E3|].
  destruct (N.testbit (rooks p) sq) eqn:E4; [cbn; intros [= <-]; exact E4|].
  destruct (N.testbit (queens p) sq) eqn:E5; [cbn; intros [= <-]; exact E5|].
  destruct (N.testbit (kings p) sq) eqn:E6; [cbn; intros [= <-]; exact E6|].
  cbn. discriminate.
Qed.

Lemma kind_of_piece_at_none p sq : kind_of (piece_at p sq) = None <-> forall k, N.testbit (pbb p k) sq = false.
Proof.
  rewrite piece_at_unfold. split.
  - destruct (N.testbit (pawns p) sq) eqn:E1; [cbn; discriminate|].
    destruct (N.testbit (knights p) sq) eqn:E2; [cbn; discriminate|].
    destruct (N.testbit (bishops p) sq) eqn:E3; [cbn; discriminate|].
    destruct (N.testbit (rooks p) sq) eqn:E4; [cbn; discriminate|].
    destruct (N.testbit (queens p) sq) eqn:E5; [cbn; discriminate|].
    destruct (N.testbit (kings p) sq) eqn:E6; [cbn; discriminate|].
    intros _ k. destruct k; assumption.
  - intros H. generalize (H Pawn), (H Knight), (H Bishop), (H Rook), (H Queen), (H King). cbn [pbb].
    intros -> -> -> -> -> ->. reflexivity.
Qed.

(* no well-formedness needed for these two *)
Lemma cell_of_some_bit b sq c k : cell_of b sq = Some (c, k) -> N.testbit (bb_of b c k) sq = true.
Proof.
  unfold cell_of.
  destruct (kind_of (piece_at (white b) sq)) as [kw|] eqn:Ew.
  - intros [= <- <-]. now apply kind_of_piece_at_some.
  - destruct (kind_of (piece_at (black b) sq)) as [kb|] eqn:Eb; [|discriminate].
    intros [= <- <-]. now apply kind_of_piece_at_some.
Qed.

Lemma cell_of_none b sq : cell_of b sq = None <-> forall c k, N.testbit (bb_of b c k) sq = false.
Proof.
  unfold cell_of. split.
  - destruct (kind_of (piece_at (white b) sq)) as [kw|] eqn:Ew; [discriminate|].
    destruct (kind_of (piece_at (black b) sq)) as [kb|] eqn:Eb; [discriminate|].
    intros _ c k. destruct c; unfold bb_of; cbn [pside]; now apply kind_of_piece_at_none.
  - intros H.
    rewrite (proj2 (kind_of_piece_at_none (white b) sq) (H White)).
    now rewrite (proj2 (kind_of_piece_at_none (black b) sq) (H Black)).
Qed.

(* the cell of a square is exactly the (colour, kind) whose bitboard has the square *)
Theorem cell_of_iff b sq c k : wf b = true ->
  (cell_of b sq = Some (c, k) <-> N.testbit (bb_of b c k) sq = true).
Proof.
  intros Hwf. split; [apply cell_of_some_bit|]. intros H.
  destruct (cell_of b sq) as [[c' k']|] eqn:E.
  - apply cell_of_some_bit in E. f_equal. symmetry. eapply bb_unique; eassumption.
  - rewrite (proj1 (cell_of_none b sq) E c k) in H. discriminate.
Qed.

Lemma cell_of_lt64 b sq pc : wf b = true -> cell_of b sq = Some pc -> sq < 64.
Proof. intros Hwf H. destruct pc as [c k]. apply cell_of_some_bit in H. eapply wf_bb_lt64; eassumption. Qed.

(* ------------------------------------------------------------------ *)
(* occupancies                                                         *)
(* ------------------------------------------------------------------ *)

Theorem full_occ_spec p sq : N.testbit (full_occ p) sq = true <-> exists k, N.testbit (pbb p k) sq = true.
Proof.
  unfold full_occ. rewrite !N.lor_spec, !orb_true_iff. split.
  - intros [[[[[H|H]|H]|H]|H]|H];
      [exists King|exists Queen|exists Rook|exists Bishop|exists Knight|exists Pawn]; exact H.
  - intros [k H]. destruct k; cbn [pbb] in H; tauto.
Qed.

Lemma full_occ_false p sq : N.testbit (full_occ p) sq = false <-> forall k, N.testbit (pbb p k) sq = false.
Proof.
  split.
  - intros H k. destruct (N.testbit (pbb p k) sq) eqn:E; [|reflexivity].
    rewrite (proj2 (full_occ_spec p sq)) in H; [discriminate|now exists k].
  - intros H. destruct (N.testbit (full_occ p) sq) eqn:E; [|reflexivity].
    apply full_occ_spec in E. destruct E as [k E]. now rewrite H in E.
Qed.

(* the square is occupied by a piece of that side *)
Theorem full_occ_cell b c sq : wf b = true ->
  (N.testbit (full_occ (pside b c)) sq = true <-> exists k, cell_of b sq = Some (c, k)).
Proof.
  intros Hwf. rewrite full_occ_spec. split; intros [k H]; exists k; now apply (cell_of_iff b sq c k Hwf).
Qed.

Lemma full_occ_u64 b c : wf b = true -> full_occ (pside b c) < 2 ^ 64.
Proof.
  intros Hwf. destruct (N.lt_ge_cases (full_occ (pside b c)) (2 ^ 64)) as [|Hge]; [assumption|exfalso].
  assert (Hn : full_occ (pside b c) <> 0) by (intros E; rewrite E in Hge; cbv in Hge; now apply Hge).
  pose proof (N.bit_log2 _ Hn) as Hb. apply full_occ_spec in Hb. destruct Hb as [k Hb].
  apply (wf_bb_lt64 b c k _ Hwf) in Hb.
  assert (64 <= N.log2 (full_occ (pside b c))) by (apply N.log2_le_pow2; lia). lia.
Qed.

Definition total_occ (b : board) : N := N.lor (full_occ (white b)) (full_occ (black b)).

Lemma total_occ_sides b c : N.lor (full_occ (pside b c)) (full_occ (pside b (opp c))) = total_occ b.
Proof. destruct c; cbn [pside opp]; unfold total_occ; [reflexivity|apply N.lor_comm]. Qed.

Lemma total_occ_active_passive b : N.lor (full_occ (active b)) (full_occ (passive b)) = total_occ b.
Proof. unfold active, passive, total_occ. destruct (is_white_turn b); [reflexivity|apply N.lor_comm]. Qed.

Theorem total_occ_cell b sq :
  N.testbit (total_occ b) sq = match cell_of b sq with Some _ => true | None => false end.
Proof.
  unfold total_occ. rewrite N.lor_spec. destruct (cell_of b sq) as [[c k]|] eqn:E.
  - apply cell_of_some_bit in E. apply orb_true_iff.
    destruct c; [left|right]; apply full_occ_spec; exists k; exact E.
  - pose proof (proj1 (cell_of_none b sq) E) as H.
    rewrite (proj2 (full_occ_false (white b) sq) (H White)), (proj2 (full_occ_false (black b) sq) (H Black)).
    reflexivity.
Qed.

(* ------------------------------------------------------------------ *)
(* get (abs b)                                                         *)
(* ------------------------------------------------------------------ *)

Lemma in_squares s : In s squares <-> (0 <= s < 64)%Z.
Proof.
  unfold squares. rewrite in_map_iff. split.
  - intros (n & <- & Hn). apply in_seq in Hn. lia.
  - intros H. exists (Z.to_nat s). split; [lia|]. apply in_seq. lia.
Qed.

Lemma in_squares_N sq : sq < 64 -> In (Z.of_N sq) squares.
Proof. intros H. apply in_squares. lia. Qed.

Theorem get_abs b sq : sq < 64 -> get (abs b) (Z.of_N sq) = cell_of b sq.
Proof.
  intros H. unfold get, abs. cbn [cells]. replace (Z.to_nat (Z.of_N sq)) with (N.to_nat sq) by lia.
  rewrite (nth_indep _ None (cell_of b (N.of_nat 0))) by (rewrite map_length, seq_length; lia).
  rewrite (map_nth (fun i => cell_of b (N.of_nat i))), seq_nth by lia.
  now rewrite Nat.add_0_l, N2Nat.id.
Qed.

Corollary get_abs_Z b s : (0 <= s < 64)%Z -> get (abs b) s = cell_of b (Z.to_N s).
Proof. intros H. rewrite <- (get_abs b (Z.to_N s)) by lia. f_equal. lia. Qed.

Theorem get_abs_iff b sq c k : wf b = true -> sq < 64 ->
  (get (abs b) (Z.of_N sq) = Some (c, k) <-> N.testbit (bb_of b c k) sq = true).
Proof. intros Hwf Hsq. rewrite get_abs by assumption. now apply cell_of_iff. Qed.

Lemma length_cells_abs b : length (cells (abs b)) = 64%nat.
Proof. unfold abs. cbn [cells]. now rewrite map_length, seq_length. Qed.

(* total occupancy = not empty; side occupancy = own; other side = enemy *)
Theorem total_occ_empty b sq : sq < 64 ->
  N.testbit (total_occ b) sq = negb (empty (abs b) (Z.of_N sq)).
Proof. intros H. unfold empty. rewrite get_abs, total_occ_cell by assumption. now destruct (cell_of b sq). Qed.

Corollary occ_lor_empty b sq : sq < 64 ->
  N.testbit (N.lor (full_occ (white b)) (full_occ (black b))) sq = negb (empty (abs b) (Z.of_N sq)).
Proof. exact (total_occ_empty b sq). Qed.

Theorem full_occ_own b c sq : wf b = true -> sq < 64 ->
  N.testbit (full_occ (pside b c)) sq = own (abs b) c (Z.of_N sq).
Proof.
  intros Hwf Hsq. unfold own. rewrite get_abs by assumption. apply eq_iff_eq_true.
  rewrite (full_occ_cell b c sq Hwf). split.
  - intros [k ->]. apply color_eqb_refl.
  - destruct (cell_of b sq) as [[c' k']|]; [|discriminate]. intros H. apply color_eqb_eq in H. subst c'. now exists k'.
Qed.

Theorem full_occ_enemy b c sq : wf b = true -> sq < 64 ->
  N.testbit (full_occ (pside b (opp c))) sq = enemy (abs b) c (Z.of_N sq).
Proof.
  intros Hwf Hsq. rewrite full_occ_own by assumption. unfold own, enemy.
  destruct (get (abs b) (Z.of_N sq)) as [[c' k']|]; [|reflexivity]. now destruct c, c'.
Qed.

(* ------------------------------------------------------------------ *)
(* the king                                                            *)
(* ------------------------------------------------------------------ *)

Definition king_of (b : board) (c : color) : N := ctz64 (kings (pside b c)).

Lemma king_of_lt64 b c : wf b = true -> king_of b c < 64.
Proof.
  intros Hwf. unfold king_of. apply popcount1_ctz_lt64; [now apply wf_king_count|].
  exact (wf_bb_u64 b c King Hwf).
Qed.

Lemma king_bit b c sq : wf b = true -> N.testbit (kings (pside b c)) sq = (sq =? king_of b c).
Proof. intros Hwf. apply popcount1_testbit. now apply wf_king_count. Qed.

Lemma kings_eq_bit b c : wf b = true -> kings (pside b c) = bit (king_of b c).
Proof. intros Hwf. apply popcount1_bit. now apply wf_king_count. Qed.

Lemma king_cell b c : wf b = true -> cell_of b (king_of b c) = Some (c, King).
Proof. intros Hwf. apply cell_of_iff; [assumption|]. unfold bb_of. cbn [pbb]. rewrite king_bit by assumption. apply N.eqb_refl. Qed.

Lemma find_unique {A} (f : A -> bool) l x :
  In x l -> f x = true -> (forall y, In y l -> f y = true -> y = x) -> find f l = Some x.
Proof.
  intros Hin Hf Hu. destruct (find f l) as [y|] eqn:E.
  - apply find_some in E. destruct E as [Hy Hfy]. f_equal. now apply Hu.
  - rewrite (find_none _ _ E x Hin) in Hf. discriminate.
Qed.

Theorem king_sq_abs b c : wf b = true -> king_sq (abs b) c = Some (Z.of_N (king_of b c)).
Proof.
  intros Hwf. unfold king_sq. pose proof (king_of_lt64 b c Hwf) as Hk. apply find_unique.
  - now apply in_squares_N.
  - rewrite get_abs, king_cell by assumption. apply color_eqb_refl.
  - intros y Hy Hf. apply in_squares in Hy. rewrite get_abs_Z in Hf by assumption.
    destruct (cell_of b (Z.to_N y)) as [[c' k']|] eqn:E; [|discriminate].
    destruct k'; try discriminate. apply color_eqb_eq in Hf. subst c'.
    apply cell_of_some_bit in E. unfold bb_of in E. cbn [pbb] in E. rewrite king_bit in E by assumption.
    apply N.eqb_eq in E. lia.
Qed.

(* Bit-level facts used by the move-packing and make/unmake proofs (on top of Lib/Bits.v). *)
Require Import NArith List Bool Lia.
Require Import Ink.Lib.Bits.
Import ListNotations.
Open Scope N_scope.

Arguments N.add : simpl never.
Arguments N.sub : simpl never.
Arguments N.mul : simpl never.
Arguments N.div : simpl never.
Arguments N.modulo : simpl never.
Arguments N.eqb : simpl never.
Arguments N.ltb : simpl never.
Arguments N.leb : simpl never.
Arguments N.pow : simpl never.
Arguments N.shiftl : simpl never.
Arguments N.shiftr : simpl never.
Arguments N.land : simpl never.
Arguments N.lor : simpl never.
Arguments N.ldiff : simpl never.
Arguments N.ones : simpl never.

Lemma two64 : 18446744073709551616 = 2 ^ 64.
Proof. reflexivity. Qed.

(* ---------- subsets ---------- *)
Definition sub (c m : N) : Prop := forall i, N.testbit c i = true -> N.testbit m i = true.

Lemma sub_land c m : sub c m -> N.land c m = c.
Proof.
  intros H. apply N.bits_inj. intro i. rewrite N.land_spec.
  destruct (N.testbit c i) eqn:E; [|reflexivity]. now rewrite (H i E).
Qed.

Lemma sub_disjoint c m m' : sub c m -> N.land m m' = 0 -> N.land c m' = 0.
Proof.
  intros H D. apply N.bits_inj_0. intro i. rewrite N.land_spec.
  destruct (N.testbit c i) eqn:E; [|reflexivity].
  assert (X : N.testbit (N.land m m') i = false) by (rewrite D; apply N.bits_0).
  rewrite N.land_spec, (H i E) in X. exact X.
Qed.

Lemma sub_0 m : sub 0 m.
Proof. intros i H. rewrite N.bits_0 in H. discriminate. Qed.

Lemma sub_refl m : sub m m.
Proof. intros i H. exact H. Qed.

Lemma sub_land_r a m : sub (N.land a m) m.
Proof. intros i H. rewrite N.land_spec in H. now apply andb_true_iff in H. Qed.

Lemma sub_lor_l a b : sub a (N.lor a b).
Proof. intros i H. rewrite N.lor_spec, H. reflexivity. Qed.

Lemma sub_lor_r a b : sub b (N.lor a b).
Proof. intros i H. rewrite N.lor_spec, H. apply orb_true_r. Qed.

Lemma sub_trans a b c : sub a b -> sub b c -> sub a c.
Proof. intros H1 H2 i H. apply H2, H1, H. Qed.

(* ---------- magnitude and bits ---------- *)
Lemma testbit_small v w i : v < 2 ^ w -> w <= i -> N.testbit v i = false.
Proof.
  intros Hv Hi. destruct v as [|pv]; [apply N.bits_0|]. apply N.bits_above_log2.
  apply N.log2_lt_pow2; [lia|]. eapply N.lt_le_trans; [exact Hv|]. apply N.pow_le_mono_r; lia.
Qed.

Lemma lt_pow2_bits n k : (forall i, k <= i -> N.testbit n i = false) -> n < 2 ^ k.
Proof.
  intros H. destruct n as [|pn]; [apply N.neq_0_lt_0; apply N.pow_nonzero; lia|].
  apply N.log2_lt_pow2; [lia|].
  destruct (N.lt_ge_cases (N.log2 (N.pos pn)) k) as [Hlt|Hge]; [exact Hlt|exfalso].
  specialize (H _ Hge). rewrite N.bit_log2 in H by lia. discriminate.
Qed.

Lemma lor_lt a b k : a < 2 ^ k -> b < 2 ^ k -> N.lor a b < 2 ^ k.
Proof.
  intros Ha Hb. apply lt_pow2_bits. intros i Hi.
  now rewrite N.lor_spec, (testbit_small a k i Ha Hi), (testbit_small b k i Hb Hi).
Qed.

Lemma sub_lt c m k : sub c m -> m < 2 ^ k -> c < 2 ^ k.
Proof.
  intros S Hm. apply lt_pow2_bits. intros i Hi. destruct (N.testbit c i) eqn:E; [|reflexivity].
  apply S in E. rewrite (testbit_small m k i Hm Hi) in E. discriminate.
Qed.

Lemma testbit_lt n k i : n < 2 ^ k -> N.testbit n i = true -> i < k.
Proof.
  intros Hn Hi. destruct (N.lt_ge_cases i k) as [Hlt|Hge]; [exact Hlt|].
  rewrite (testbit_small n k i Hn Hge) in Hi. discriminate.
Qed.

Lemma bits_of_lt n k i : In i (bits_of n) -> n < 2 ^ k -> i < k.
Proof. intros Hi Hn. apply bits_of_spec in Hi. exact (testbit_lt n k i Hn Hi). Qed.

Lemma land_0_testbit a b i : N.land a b = 0 -> N.testbit b i = true -> N.testbit a i = false.
Proof.
  intros H Hb. assert (X : N.testbit (N.land a b) i = false) by (rewrite H; apply N.bits_0).
  rewrite N.land_spec, Hb, andb_true_r in X. exact X.
Qed.

Lemma land_nonzero_testbit a k : N.land a (bit k) <> 0 -> N.testbit a k = true.
Proof.
  intros H. destruct (N.testbit a k) eqn:E; [reflexivity|exfalso]. apply H.
  apply N.bits_inj_0. intro i. rewrite N.land_spec, bit_spec.
  destruct (N.eqb_spec i k) as [->|_]; [now rewrite E|apply andb_false_r].
Qed.

Lemma land_zero_testbit a k : N.land a (bit k) = 0 -> N.testbit a k = false.
Proof. intros H. apply (land_0_testbit a (bit k) k H). rewrite bit_spec. apply N.eqb_refl. Qed.

(* ---------- single bits ---------- *)
Lemma bit_pow k : bit k = 2 ^ k.
Proof. unfold bit. apply N.shiftl_1_l. Qed.

Lemma bit_nonzero k : bit k <> 0.
Proof. rewrite bit_pow. apply N.pow_nonzero. lia. Qed.

Lemma bit_lt k n : k < n -> bit k < 2 ^ n.
Proof. intros H. rewrite bit_pow. apply N.pow_lt_mono_r; lia. Qed.

Lemma bit_shiftr8 k : N.shiftr (bit k) 8 = if 8 <=? k then bit (k - 8) else 0.
Proof.
  apply N.bits_inj. intro i. rewrite N.shiftr_spec by lia. rewrite bit_spec.
  destruct (N.leb_spec 8 k) as [H|H].
  - rewrite bit_spec. destruct (N.eqb_spec (i + 8) k), (N.eqb_spec i (k - 8)); try reflexivity; lia.
  - rewrite N.bits_0. destruct (N.eqb_spec (i + 8) k); [lia|reflexivity].
Qed.

Lemma bit_shiftl8 k : w64 (N.shiftl (bit k) 8) = if k + 8 <? 64 then bit (k + 8) else 0.
Proof.
  unfold w64. rewrite two64. unfold bit. rewrite N.shiftl_shiftl. fold (bit (k + 8)).
  destruct (N.ltb_spec (k + 8) 64) as [H|H].
  - apply N.mod_small. now apply bit_lt.
  - apply N.bits_inj_0. intro i. destruct (N.lt_ge_cases i 64) as [Hi|Hi].
    + rewrite N.mod_pow2_bits_low by exact Hi. rewrite bit_spec. destruct (N.eqb_spec i (k + 8)); [lia|reflexivity].
    + now apply N.mod_pow2_bits_high.
Qed.

(* ---------- trailing zeros ---------- *)
Lemma ctz_pos_spec p : Pos.testbit p (ctz_pos p) = true.
Proof.
  induction p as [q IH|q IH|]; cbn [ctz_pos]; try reflexivity.
  destruct (ctz_pos q) as [|c] eqn:E; cbn; [exact IH|]. rewrite Pos.pred_N_succ. exact IH.
Qed.

Lemma ctz64_testbit x : x <> 0 -> N.testbit x (ctz64 x) = true.
Proof. destruct x as [|p]; [congruence|]. intros _. cbn [ctz64 N.testbit]. apply ctz_pos_spec. Qed.

Lemma ctz64_lt x : x <> 0 -> x < 2 ^ 64 -> ctz64 x < 64.
Proof. intros H0 H. exact (testbit_lt x 64 _ H (ctz64_testbit x H0)). Qed.

Lemma ctz64_bit k : ctz64 (bit k) = k.
Proof.
  pose proof (ctz64_testbit (bit k) (bit_nonzero k)) as H. rewrite bit_spec in H. now apply N.eqb_eq in H.
Qed.

Lemma ctz64_0 : ctz64 0 = 64.
Proof. reflexivity. Qed.

(* ---------- the set/clear round trips of make/unmake ---------- *)
Ltac bitwise i :=
  apply N.bits_inj; intro i; unfold clear; rewrite ?N.lor_spec, ?N.ldiff_spec, ?N.land_spec, ?N.lor_spec, ?N.ldiff_spec.

(* move a piece from s to t and back: (((x & !s) | t) | s) & !t *)
Lemma move_and_back x s t : sub s x -> N.land x t = 0 -> clear (N.lor (N.lor (clear x s) t) s) t = x.
Proof.
  intros Hs Ht. bitwise i.
  pose proof (Hs i) as Hs'. pose proof (fun H => land_0_testbit x t i Ht H) as Ht'.
  destruct (N.testbit x i), (N.testbit s i), (N.testbit t i); cbn in *; try reflexivity;
    try (specialize (Hs' eq_refl); discriminate); try (specialize (Ht' eq_refl); discriminate).
Qed.

(* castle form: (((x & !s) | t) & !t) | s *)
Lemma move_and_back' x s t : sub s x -> N.land x t = 0 -> N.lor (clear (N.lor (clear x s) t) t) s = x.
Proof.
  intros Hs Ht. bitwise i.
  pose proof (Hs i) as Hs'. pose proof (fun H => land_0_testbit x t i Ht H) as Ht'.
  destruct (N.testbit x i), (N.testbit s i), (N.testbit t i); cbn in *; try reflexivity;
    try (specialize (Hs' eq_refl); discriminate); try (specialize (Ht' eq_refl); discriminate).
Qed.

Lemma clear_then_set x m : sub m x -> N.lor (clear x m) m = x.
Proof.
  intros Hs. bitwise i. pose proof (Hs i) as Hs'.
  destruct (N.testbit x i), (N.testbit m i); cbn in *; try reflexivity. specialize (Hs' eq_refl). discriminate.
Qed.

Lemma set_then_clear x m : N.land x m = 0 -> clear (N.lor x m) m = x.
Proof.
  intros Ht. bitwise i. pose proof (fun H => land_0_testbit x m i Ht H) as Ht'.
  destruct (N.testbit x i), (N.testbit m i); cbn in *; try reflexivity. specialize (Ht' eq_refl). discriminate.
Qed.

Lemma clear_disjoint x m : N.land x m = 0 -> clear x m = x.
Proof.
  intros Ht. bitwise i. pose proof (fun H => land_0_testbit x m i Ht H) as Ht'.
  destruct (N.testbit x i), (N.testbit m i); cbn in *; try reflexivity. specialize (Ht' eq_refl). discriminate.
Qed.

Lemma set_sub x m : sub m x -> N.lor x m = x.
Proof.
  intros Hs. bitwise i. pose proof (Hs i) as Hs'.
  destruct (N.testbit x i), (N.testbit m i); cbn in *; try reflexivity. specialize (Hs' eq_refl). discriminate.
Qed.

Lemma clear_0 x : clear x 0 = x.
Proof. unfold clear. apply N.ldiff_0_r. Qed.

Lemma sub_bit x k : N.testbit x k = true -> sub (bit k) x.
Proof. intros H i Hi. rewrite bit_spec in Hi. apply N.eqb_eq in Hi. now subst. Qed.

Lemma land_bit_0 x k : N.testbit x k = false -> N.land x (bit k) = 0.
Proof.
  intros H. apply N.bits_inj_0. intro i. rewrite N.land_spec, bit_spec.
  destruct (N.eqb_spec i k) as [->|_]; [now rewrite H|apply andb_false_r].
Qed.

Lemma clear_testbit x m i : N.testbit (clear x m) i = N.testbit x i && negb (N.testbit m i).
Proof. unfold clear. apply N.ldiff_spec. Qed.

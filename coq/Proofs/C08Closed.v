(* Proofs/C08Closed.v : the concrete C08 theorems of Proofs/SearchRefine.v / Proofs/C08Chess.v (depth >= 2) with their two
   avoidable hypotheses removed, and the exact value connected to what the engine prints.

   Part 2   (first in the file: it only needs the imports of SearchRefine.v)
            the clock bound  `half root + D < 6`  is replaced by a premise on the engine's repetition history that
            covers EVERY half-move clock:

     history_fresh T h D root :=  for every position y at a ply 1..D of the search tree below root, no entry of h that the
                                  repetition test of y inspects (Draws.in_window (ply clock of y) (half-move clock of y))
                                  equals the key of y.

            With [Minimax.ply_unique] (no key occurs at two plies <= D of the tree) no repetition leaf fires at any node of
            any iteration: an inspected entry is either an entry of the history the `go` started from (fresh), or it was
            written by the search itself, and then it is the key of a tree position y' stored at the ply clock of y' -- if
            it equalled the key of the visiting node y, ply_unique would put y' at the ply of y, i.e. at the index of y
            itself, which is never inspected (only indices <= index - 4 are).  No "no u16 wrap" condition on the ply clock
            is needed.  [HI] is the invariant on `s_history`; the refinement proof of Proofs/SearchRefine.v (Parts C, D) is
            repeated with it in place of the clock bound ([node_okH], [nm_loop_refineH], [node_okH_S], [go_refineH],
            [go_depth_concreteH], closed form [go_depth_closedH]).  [history_fresh_single], [position_fen_state]: the
            state after `position fen X` (no moves) is fresh as soon as no key of the tree is 0.
   Part 3   [go_last_report]: the last `info` of a go reports the newest non-aborted iteration (depth, score, pv) and
            `bestmove` announces its move -- every oracle, no hypothesis.
   Part 1   ND through the rules: [make_inj_uci], [succs_NoDup_legal] (legal positions; uses C01/C02).
   Part 1b  ND on the bitboards: [make_inj_fields], [succs_NoDup_model] (wf + rights_wf only, no e.p. condition).
   Part 4   [ND_of_sane], [ND_chess : ND GT goodC]; [go_depth_closed_chess], [go_depth_after_position_fen],
            [reported_score_exact_chess], [reported_score_after_position_fen], [go_depth_closed_tables].
   Part 5   boolean checkers for ply_unique (sim = equality) and "no key is 0" on a concrete tree, with soundness.
   Part 6   [goodC_not_legal_pos]; the example at half-move clock 40 ([ex40_reported]).
   Part 7   the definitions as statements. *)
Require Import Ink.Lib.Str.
Require Import NArith ZArith List Bool Lia Arith Permutation.
Require Import Ink.Lib.Bits Ink.Model.Tables Ink.Model.Board Ink.Model.Fen Ink.Model.Notation Ink.Model.History.
Require Import Ink.Model.Heuristic Ink.Model.UciTx Ink.Model.Search.
Require Ink.Model.HashTable.
Require Ink.Spec.Minimax Ink.Model.SearchCore Ink.Proofs.MinimaxProofs Ink.Proofs.AlphaBeta Ink.Proofs.AlphaBetaTT
        Ink.Proofs.AlphaBetaInst.
Require Ink.Proofs.ZobristProofs Ink.Proofs.HistoryProofs Ink.Spec.Draws Ink.Spec.FifoMap.
Require Import Ink.Proofs.HashTableProofs Ink.Proofs.SearchProofs Ink.Proofs.ChessGame Ink.Proofs.SearchRefine.
Require Ink.Proofs.RepetitionProofs.
Import ListNotations.
Open Scope N_scope.

Arguments N.add : simpl never.
Arguments N.sub : simpl never.
Arguments N.mul : simpl never.
Arguments N.div : simpl never.
Arguments N.modulo : simpl never.
Arguments N.eqb : simpl never.
Arguments N.ltb : simpl never.
Arguments N.leb : simpl never.
Arguments Z.add : simpl never.
Arguments Z.mul : simpl never.
Arguments Z.opp : simpl never.
Arguments Z.max : simpl never.
Arguments Z.min : simpl never.
Arguments Z.ltb : simpl never.
Arguments Z.leb : simpl never.
Arguments Z.gtb : simpl never.
Arguments Z.geb : simpl never.

(* ================================================================== *)
(* 2.1 the repetition test finds nothing when no inspected entry equals the key                                    *)

Lemma countb_false f l : (forall x, In x l -> f x = false) -> Draws.countb f l = 0.
Proof.
  induction l as [|a r IH]; intros H; cbn [Draws.countb]; [reflexivity|].
  rewrite (H a (or_introl eq_refl)), IH; [reflexivity|]. intros x Hx. apply H. now right.
Qed.

Lemma visit_fresh h ply pc zh hm :
  (forall x, Draws.in_window pc (hm mod 65536) x = true -> hget h x <> zh) -> snd (visit h ply pc zh hm) = false.
Proof.
  intros H. rewrite HistoryProofs.visit_spec. cbn [snd].
  assert (E : Draws.occurrences (hget ((pc, zh) :: h)) pc (hm mod 65536) = 0).
  { unfold Draws.occurrences. apply countb_false. intros x Hx.
    apply HistoryProofs.window_In in Hx as Hx2.
    assert (Hw : Draws.in_window pc (hm mod 65536) x = true) by (apply HistoryProofs.in_window_iff; exact Hx2).
    cbn [hget]. rewrite N.eqb_refl.
    destruct (N.eqb_spec x pc) as [->|Hne]; [lia|]. apply N.eqb_neq. now apply H. }
  rewrite E. replace (2 <=? 0) with false by reflexivity. apply andb_false_r.
Qed.

(* ================================================================== *)
(* 2.2 ply clocks in the search tree; the premise [history_fresh]; the invariant [HI]                               *)
Section Fresh.
Variable T : Tables.t.
Local Notation succs := (ChessGame.succs T).
Local Notation at_ply := (Minimax.at_ply board succs).
Local Notation clock_ok := RepetitionProofs.clock_ok.
Local Notation ply_count := RepetitionProofs.ply_count.

(* a position i plies below the root has the un-cast ply count of the root plus i *)
Lemma at_ply_clock root : clock_ok root -> forall i y, at_ply root i y ->
  clock_ok y /\ ply_count y = ply_count root + N.of_nat i.
Proof.
  intros Hc i y H. induction H as [|i p q _ IH Hq].
  - split; [exact Hc|]. change (N.of_nat 0) with 0. lia.
  - destruct IH as [Hp Ep]. apply children_in in Hq as (m & _ & Hmk & _).
    destruct (RepetitionProofs.ply_count_make p m q Hp Hmk) as [Hq Eq]. split; [exact Hq|]. rewrite Eq, Ep, Nat2N.inj_succ. lia.
Qed.

(* positions at the same ply store their keys at the same index of the history *)
Lemma at_ply_same_clock root i x y : clock_ok root -> at_ply root i x -> at_ply root i y -> ply_clock_w x = ply_clock_w y.
Proof.
  intros Hc Hx Hy. destruct (at_ply_clock root Hc i x Hx) as [_ Ex]. destruct (at_ply_clock root Hc i y Hy) as [_ Ey].
  rewrite !RepetitionProofs.ply_clock_w_count, Ex, Ey. reflexivity.
Qed.

(* THE PREMISE.  [h] is the engine's repetition history when the `go` arrives.  For every position y at a ply 1..D of
   the tree below root and every index x that the repetition test of y inspects -- Draws.in_window c hm x, i.e.
   x = c mod 2, x + 4 <= c and c - hm <= x for the ply clock c of y and its half-move clock hm (as u16) -- the entry
   h[x] differs from the key of y. *)
Definition history_fresh (h : hist) (D : nat) (root : board) : Prop :=
  forall i y x, (1 <= i <= D)%nat -> at_ply root i y ->
    Draws.in_window (ply_clock_w y) (half y mod 65536) x = true -> hget h x <> zobrist_hash T y.

(* the invariant of the search on `s_history`: an entry is still the one of h0, or it is the key of a position of the
   tree (ply <= D), stored at the ply clock of that position *)
Definition HI (h0 : hist) (D : nat) (root : board) (h : hist) : Prop :=
  forall x, hget h x = hget h0 x \/
            exists i y, (i <= D)%nat /\ at_ply root i y /\ ply_clock_w y = x /\ hget h x = zobrist_hash T y.

Lemma HI_init h0 D root : HI h0 D root h0.
Proof. intros x. now left. Qed.

Lemma HI_set h0 D root h i y : HI h0 D root h -> (i <= D)%nat -> at_ply root i y ->
  HI h0 D root (hset h (ply_clock_w y) (zobrist_hash T y)).
Proof.
  intros H Hi Hy x. rewrite HistoryProofs.hget_hset. destruct (N.eqb_spec x (ply_clock_w y)) as [->|Hne]; [|apply H].
  right. exists i, y. repeat split; assumption.
Qed.

Variable sim : nat -> board -> board -> Prop.

(* no node of the tree takes the repetition leaf *)
Lemma HI_visit h0 D root h i y :
  clock_ok root -> Minimax.ply_unique board succs (zobrist_hash T) sim D root -> history_fresh h0 D root ->
  HI h0 D root h -> (i <= D)%nat -> at_ply root i y ->
  snd (visit h (N.of_nat i) (ply_clock_w y) (zobrist_hash T y) (half y)) = false.
Proof.
  intros Hc HU HF H Hi Hy. destruct i as [|i]; [apply HistoryProofs.visit_root|].
  apply visit_fresh. intros x Hw E.
  destruct (H x) as [E0|(j & y' & Hj & Hy' & Ex & Ek)].
  - apply (HF (S i) y x); [lia|exact Hy|exact Hw|]. now rewrite <- E0.
  - rewrite E in Ek. destruct (HU (S i) j y y' Hi Hj Hy Hy' Ek) as [<- _].
    pose proof (at_ply_same_clock root (S i) y y' Hc Hy Hy') as Ec.
    apply HistoryProofs.in_window_iff in Hw. lia.
Qed.

(* the history the model leaves after `position fen X` (no move list): one entry, the key of X at its ply clock.
   It is fresh as soon as no key of the tree below X is 0 -- the value of every unwritten entry *)
Lemma history_fresh_single D root :
  Minimax.ply_unique board succs (zobrist_hash T) sim D root ->
  (forall i y, (1 <= i <= D)%nat -> at_ply root i y -> zobrist_hash T y <> 0) ->
  history_fresh (hset hempty (ply_clock_w root) (zobrist_hash T root)) D root.
Proof.
  intros HU Hnz i y x Hi Hy _. rewrite HistoryProofs.hget_hset. destruct (x =? ply_clock_w root).
  - intros E. symmetry in E. destruct (HU i 0%nat y root ltac:(lia) ltac:(lia) Hy (Minimax.at_ply_0 board succs root) E) as [E0 _]. lia.
  - rewrite HistoryProofs.hget_hempty. intros E. symmetry in E. exact (Hnz i y Hi Hy E).
Qed.

(* that state: Search::set_position_from with an empty move list *)
Lemma position_fen_state f st :
  s_board (set_position_from T f [] st) = board_of_fen f /\
  s_history (set_position_from T f [] st) =
    hset hempty (ply_clock_w (board_of_fen f)) (zobrist_hash T (board_of_fen f)).
Proof. split; reflexivity. Qed.

End Fresh.

(* frames on the history *)
Lemma try_set_pv_hist st : s_history (try_set_pv_from_continuation st) = s_history st.
Proof.
  unfold try_set_pv_from_continuation.
  repeat (match goal with |- context [match ?x with _ => _ end] => destruct x end); reflexivity.
Qed.

Lemma reset_for_go_hist st : s_history (reset_for_go st) = s_history st.
Proof. unfold reset_for_go. destruct (s_reset_next st); reflexivity. Qed.

(* ================================================================== *)
(* 2.3 the refinement of Proofs/SearchRefine.v (Parts C, D) with [HI] in place of the clock bound                   *)
Section RefineH.
Variable T : Tables.t.
Hypothesis HT : ZobristProofs.gen_masks_ok T = true.
Variable good : nat -> board -> Prop.
Variable Q : nat.
Hypothesis inverse : forall n b m, good (S n) b -> In m (gen_pseudo T b) ->
  exists b', make b m = Some b' /\ unmake b' m = Some b /\ (is_valid T b' = true -> good n b').
Hypothesis good_mono : forall n b, good (S n) b -> good n b.
Hypothesis qfuel_bound : forall n b, good n b -> (qfuel b <= Q)%nat.
Hypothesis good_sane : forall n b, good n b -> sane b = true.

Local Notation succs := (ChessGame.succs T).
Local Notation noisy_succs := (ChessGame.noisy_succs T).
Local Notation noisy_any := (ChessGame.noisy_any T).
Variable stat : board -> Z.
Hypothesis stat_good : forall n b, good n b -> stat b = ChessGame.static T b.
Local Notation static := stat.
Local Notation terminal := (ChessGame.terminal T).
Local Notation children := (ChessGame.children T).
Local Notation Hdec := (chess_qmeasure_dec T HT).
Local Notation W := (SearchRefine.W T).
Local Notation Mx := (SearchRefine.Mx T).
Local Notation root_empty := (SearchRefine.root_empty T).
Local Notation order_q := (SearchRefine.order_q T).
Local Notation at_ply := (Minimax.at_ply board succs).

Hypothesis HK : ZobristProofs.keys_rows_ok T = true.
Variable orc : oracle.
Hypothesis quiet_abort : abort_at orc = None.
Hypothesis quiet_inbox : forall k, inbox orc k = [].

(* the tree, its depth, the history the `go` starts from *)
Variable sim : nat -> board -> board -> Prop.
Variable root : board.
Variable D : nat.
Variable h0 : hist.
Hypothesis Hclock : RepetitionProofs.clock_ok root.
Hypothesis HU : Minimax.ply_unique board succs (zobrist_hash T) sim D root.
Hypothesis HFr : history_fresh T h0 D root.

Local Notation HIh := (HI T h0 D root).
Local Notation good_le' := (SearchRefine.good_le' good good_mono).

Local Notation nttC o :=
  (SearchCore.negamax_tt board succs noisy_succs noisy_any static terminal W qmeasure order_q o rep0 root_empty
     atable a_get a_put (zobrist_hash T) Mx).
Local Notation probeC := (SearchCore.probe board atable a_get (zobrist_hash T)).

Lemma node_prelude_refineH ply i d a0 b0 st at_ path :
  SI st -> TR (s_tt st) at_ -> ply = N.of_nat i -> (i <= D)%nat -> at_ply root i (s_board st) -> HIh (s_history st) ->
  SearchCore.is_root board path = (ply =? 0) ->
  let r := node_prelude T orc ply (N.of_nat d) a0 b0 (zobrist_hash T (s_board st)) st in
  (s_board (snd r) = s_board st /\ s_tt (snd r) = s_tt st /\ s_stop (snd r) = s_stop st /\ s_go (snd r) = s_go st /\
   HIh (s_history (snd r))) /\
  match probeC at_ d (s_board st) a0 b0 with
  | inl res => exists v, fst r = PreReturn v /\ vm_value v = fst res
  | inr (alpha, beta) =>
      if SearchCore.is_root board path && root_empty (s_board st) then fst r = PreReturn (leaf 0)
      else exists ttm, fst r = PreGo alpha beta ttm (gen_pseudo T (s_board st))
  end.
Proof.
  intros (Hstop & Hmt & Hsm) HTR Hply Hi Hat HH Hroot. unfold node_prelude.
  destruct (poll_block_quiet T orc quiet_abort quiet_inbox st Hmt) as (Hp & B1 & T1 & S1 & G1).
  pose proof (RepetitionProofs.poll_block_hc T orc st) as [Hh1 _].
  destruct (poll_block T orc st) as [o st1]. cbn [fst snd] in Hp, B1, T1, S1, G1, Hh1. subst o.
  cbv zeta. sproj. rewrite B1, Hh1.
  pose proof (HI_visit T sim h0 D root (s_history st) i (s_board st) Hclock HU HFr HH Hi Hat) as Hv. rewrite <- Hply in Hv.
  assert (Hf : fst (visit (s_history st) ply (ply_clock_w (s_board st)) (zobrist_hash T (s_board st)) (half (s_board st))) =
               hset (s_history st) (ply_clock_w (s_board st)) (zobrist_hash T (s_board st))) by reflexivity.
  destruct (visit (s_history st) ply (ply_clock_w (s_board st)) (zobrist_hash T (s_board st)) (half (s_board st))) as [h' rp].
  cbn [fst snd] in Hv, Hf. subst rp.
  assert (HH' : HIh h') by (rewrite Hf; now apply (HI_set T h0 D root (s_history st) i)).
  set (st3 := set_history (set_nm_nodes st1 (s_nm_nodes st1 + 1)) h').
  assert (F3 : s_board st3 = s_board st /\ s_tt st3 = s_tt st /\ s_stop st3 = s_stop st /\ s_go st3 = s_go st /\ s_history st3 = h').
  { subst st3. sproj. repeat split; assumption. }
  destruct F3 as (B3 & T3 & S3 & G3 & H3).
  assert (HTR3 : TR (s_tt st3) at_) by (rewrite T3; exact HTR).
  pose proof (tt_probe_refine T HT HK st3 at_ d (s_board st) a0 b0 HTR3) as Hpr.
  destruct (tt_probe st3 (zobrist_hash T (s_board st)) (N.of_nat d) a0 b0) as [v|[[al be] ttm]],
           (probeC at_ d (s_board st) a0 b0) as [res|[al' be']]; try contradiction.
  - cbn [fst snd]. split; [rewrite H3; repeat split; assumption|]. exists v. split; [reflexivity|exact Hpr].
  - destruct Hpr as [-> ->]. rewrite (filter_search_moves_nil st3) by (rewrite G3; exact Hsm).
    rewrite Hroot. unfold SearchRefine.root_empty.
    assert (Eb : (if ply =? 0 then gen_pseudo T (s_board st) else gen_pseudo T (s_board st)) = gen_pseudo T (s_board st))
      by (destruct (ply =? 0); reflexivity).
    rewrite Eb.
    destruct ((ply =? 0) && is_nil (gen_pseudo T (s_board st))); cbn [fst snd];
      (split; [rewrite H3; repeat split; assumption|]); [reflexivity|]. exists ttm. reflexivity.
Qed.

(* "depth k refines", for nodes of the tree at a ply i with i + k <= D *)
Definition node_okH (k : nat) : Prop :=
  forall ply i path st a0 b0 ispv zph at_,
  good (k + S Q) (s_board st) -> SI st -> TR (s_tt st) at_ ->
  ply = N.of_nat i -> (i + k <= D)%nat -> at_ply root i (s_board st) -> HIh (s_history st) ->
  SearchCore.is_root board path = (ply =? 0) ->
  exists o, (forall path' q l, Permutation l (o path' q l)) /\
    let r := negamax T orc k ply a0 b0 ispv (zobrist_hash T (s_board st)) zph st in
    let R := nttC o k path (s_board st) a0 b0 at_ in
    s_board (snd r) = s_board st /\ s_stop (snd r) = false /\ s_go (snd r) = s_go st /\
    vm_value (fst r) = fst (fst R) /\ TR (s_tt (snd r)) (snd R) /\ HIh (s_history (snd r)) /\
    ((1 <= k)%nat -> forall n, tt_le n (s_tt st) -> n < N.of_nat k -> HRm (s_board st) (vm_mv (fst r)) (snd (fst R))).

Lemma do_unmake_hist st m : s_history (do_unmake st m) = s_history st.
Proof. exact (proj1 (RepetitionProofs.do_unmake_hc st m)). Qed.

Lemma nm_loop_refineH k (IHk : node_okH k) path0 b ply i :
  good (S (k + S Q)) b -> ply = N.of_nat i -> (i + S k <= D)%nat -> at_ply root i b ->
  forall moves, (forall m, In m moves -> In m (gen_pseudo T b)) -> (k = 0%nat \/ NoDup (children b moves)) ->
  forall ispv pvm zph rd beta alpha bv bm bc lg st at_ bpv,
  s_board st = b -> SI st -> TR (s_tt st) at_ -> HRm b bm bpv -> HIh (s_history st) ->
  exists o, (forall path' q l, Permutation l (o path' q l)) /\
    let r := nm_loop T (negamax T orc k (ply + 1)) moves ispv pvm (zobrist_hash T b) zph rd beta alpha bv bm bc lg st in
    let R := SearchCore.loop_tt board atable (nttC o k (b :: path0)) (children b moves) alpha beta bv bpv at_ in
    s_board (snd r) = b /\ s_stop (snd r) = false /\ s_go (snd r) = s_go st /\ TR (s_tt (snd r)) (snd R) /\
    HIh (s_history (snd r)) /\
    exists bm' bc' lg', fst r = LDone (fst (fst R)) bm' bc' lg' /\ lg' = lg || negb (is_nil (children b moves)) /\
                        HRm b bm' (snd (fst R)).
Proof.
  intros Hgood Hply Hik Hat moves. induction moves as [|mv rest IH];
    intros Hin Hnd ispv pvm zph rd beta alpha bv bm bc lg st at_ bpv Hb HSI HTR HH HHi.
  - exists (fun _ _ l => l). split; [intros; apply Permutation_refl|].
    cbn [nm_loop ChessGame.children SearchCore.loop_tt fst snd is_nil negb]. destruct HSI as (Hs & _).
    split; [exact Hb|split; [exact Hs|split; [reflexivity|split; [exact HTR|split; [exact HHi|]]]]].
    exists bm, bc, lg. rewrite orb_false_r. split; [reflexivity|split; [reflexivity|exact HH]].
  - subst b.
    assert (Hmv : In mv (gen_pseudo T (s_board st))) by (apply Hin; now left).
    assert (Hrest : forall m, In m rest -> In m (gen_pseudo T (s_board st))) by (intros; apply Hin; now right).
    destruct (inverse (k + S Q)%nat (s_board st) mv Hgood Hmv) as (b1 & Hmk & Hun & Hg1).
    cbn [nm_loop ChessGame.children]. cbn [ChessGame.children] in Hnd. rewrite Hmk. rewrite Hmk in Hnd.
    destruct HSI as (Hstop & Hmt & Hsm).
    destruct (is_valid T b1) eqn:Hv; cbn [negb].
    + (* a legal move *)
      assert (Hnd' : k = 0%nat \/ NoDup (children (s_board st) rest)).
      { destruct Hnd as [E|Hnd]; [now left|right]. now inversion Hnd. }
      assert (Hnotin : k = 0%nat \/ ~ In b1 (children (s_board st) rest)).
      { destruct Hnd as [E|Hnd]; [now left|right]. now inversion Hnd. }
      assert (Hsane : sane (s_board st) = true) by (eapply good_sane; exact Hgood).
      destruct (child_hash T HT HK (s_board st) mv b1 Hsane Hmv Hmk) as (zx & zpx & Hzx & Hzh).
      rewrite Hzx. rewrite <- Hzh.
      set (st1 := set_board st b1).
      assert (HSI1 : SI st1) by (repeat split; assumption).
      assert (Hat1 : at_ply root (S i) b1).
      { apply (Minimax.at_ply_S board succs root i (s_board st) b1 Hat). apply children_in. exists mv. auto. }
      assert (Hply1 : ply + 1 = N.of_nat (S i)) by (rewrite Nat2N.inj_succ; lia).
      destruct (IHk (ply + 1) (S i) (s_board st :: path0) st1 (- beta)%Z (- alpha)%Z (ispv && opt_move_eqb pvm mv) (N.lxor zph zpx) at_
                  (Hg1 eq_refl) HSI1 HTR Hply1 ltac:(lia) Hat1 HHi) as (oc & Hpc & Hc).
      { cbn [SearchCore.is_root]. symmetry. apply N.eqb_neq. lia. }
      cbv zeta in Hc. change (s_board st1) with b1 in Hc.
      destruct Hc as (B3 & S3 & G3 & V3 & T3 & HH3 & _).
      destruct (negamax T orc k (ply + 1) (- beta)%Z (- alpha)%Z (ispv && opt_move_eqb pvm mv) (zobrist_hash T b1) (N.lxor zph zpx) st1)
        as [child st3]. cbn [fst snd] in B3, S3, G3, V3, T3, HH3.
      rewrite S3.
      set (Rc := nttC oc k (s_board st :: path0) b1 (- beta)%Z (- alpha)%Z at_) in *.
      assert (B4 : s_board (do_unmake st3 mv) = s_board st) by (apply do_unmake_board; rewrite B3; exact Hun).
      destruct (do_unmake_frame st3 mv) as (T4 & S4 & G4).
      pose proof (do_unmake_hist st3 mv) as H4.
      set (cv := (- vm_value child)%Z).
      assert (Ecv : cv = (- fst (fst Rc))%Z) by (unfold cv; now rewrite V3).
      set (bv' := if (bv <? cv)%Z then cv else bv).
      set (bpv' := if (bv <? cv)%Z then b1 :: snd (fst Rc) else bpv).
      assert (Etriple : (if (bv <? cv)%Z then (cv, Some mv, Some child) else (bv, bm, bc)) =
                        (bv', (if (bv <? cv)%Z then Some mv else bm), (if (bv <? cv)%Z then Some child else bc))).
      { unfold bv'. destruct (bv <? cv)%Z; reflexivity. }
      rewrite Etriple. cbv beta iota zeta.
      assert (HH' : HRm (s_board st) (if (bv <? cv)%Z then Some mv else bm) bpv').
      { unfold bpv'. destruct (bv <? cv)%Z; [|exact HH]. cbn [HRm]. exists mv. split; [reflexivity|exact Hmk]. }
      destruct (beta <=? Z.max alpha bv')%Z eqn:Ecut.
      * (* cutoff *)
        exists oc. split; [exact Hpc|]. cbv zeta. rewrite loop_tt_cons. cbv zeta. fold Rc.
        rewrite <- Ecv, Zgtb_ltb. fold bv'. rewrite Zgeb_leb, Ecut.
        cbn [fst snd]. sproj. rewrite T4, S4, G4, H4.
        split; [exact B4|split; [exact S3|split; [exact G3|split; [exact T3|split; [exact HH3|]]]]].
        eexists _, _, _. split; [reflexivity|]. split; [now rewrite orb_true_r|]. exact HH'.
      * (* next move *)
        assert (HSI4 : SI (do_unmake st3 mv)).
        { split; [rewrite S4; exact S3|]. rewrite G4, G3. split; assumption. }
        assert (HTR4 : TR (s_tt (do_unmake st3 mv)) (snd Rc)) by (rewrite T4; exact T3).
        assert (HH4 : HIh (s_history (do_unmake st3 mv))) by (rewrite H4; exact HH3).
        destruct (IH Hrest Hnd' ispv pvm zph rd beta (Z.max alpha bv') bv' (if (bv <? cv)%Z then Some mv else bm)
                     (if (bv <? cv)%Z then Some child else bc) true (do_unmake st3 mv) (snd Rc) bpv' B4 HSI4 HTR4 HH' HH4)
          as (orr & Hpr & Hr).
        cbv zeta in Hr.
        set (o := fun path' q l => if under board board_eq_dec path0 b1 path' q then oc path' q l else orr path' q l).
        exists o. split; [intros path' q l; unfold o; destruct (under _ _ _ _ _ _); [apply Hpc|apply Hpr]|].
        cbv zeta. rewrite loop_tt_cons. cbv zeta.
        assert (Eoc : forall a be t, nttC o k (s_board st :: path0) b1 a be t = nttC oc k (s_board st :: path0) b1 a be t).
        { intros a be t. apply negamax_tt_ext. intros path' q l Hd. unfold o.
          now rewrite (under_desc board board_eq_dec path0 (s_board st) b1 path' q Hd). }
        rewrite Eoc. fold Rc. rewrite <- Ecv, Zgtb_ltb. fold bv'. fold bpv'. rewrite Zgeb_leb, Ecut.
        assert (Eor : forall al be bst pv t,
                  SearchCore.loop_tt board atable (nttC o k (s_board st :: path0)) (children (s_board st) rest) al be bst pv t =
                  SearchCore.loop_tt board atable (nttC orr k (s_board st :: path0)) (children (s_board st) rest) al be bst pv t).
        { intros al be bst pv t. apply loop_tt_ext. intros c Hc a be' t'. destruct Hnotin as [E0|Hnotin].
          - subst k. reflexivity.
          - apply negamax_tt_ext. intros path' q l Hd. unfold o.
            assert (Hne : c <> b1) by (intros ->; contradiction).
            now rewrite (under_other board board_eq_dec path0 (s_board st) b1 c path' q Hne Hd). }
        rewrite Eor.
        destruct Hr as (B5 & S5 & G5 & T5 & HH5 & bm' & bc' & lg' & E5 & L5 & H5).
        split; [exact B5|split; [exact S5|split; [rewrite G5, G4, G3; reflexivity|split; [exact T5|split; [exact HH5|]]]]].
        exists bm', bc', lg'. split; [exact E5|]. split; [|exact H5]. rewrite L5. cbn [is_nil negb orb]. now rewrite orb_true_r.
    + (* the move leaves the king in check: taken back at once *)
      assert (B1 : s_board (do_unmake (set_board st b1) mv) = s_board st) by (apply do_unmake_board; exact Hun).
      destruct (do_unmake_frame (set_board st b1) mv) as (T1 & S1 & G1).
      pose proof (do_unmake_hist (set_board st b1) mv) as H1.
      assert (HSI1 : SI (do_unmake (set_board st b1) mv)).
      { split; [rewrite S1; exact Hstop|]. rewrite G1. split; assumption. }
      assert (HTR1 : TR (s_tt (do_unmake (set_board st b1) mv)) at_) by (rewrite T1; exact HTR).
      assert (HH1 : HIh (s_history (do_unmake (set_board st b1) mv))) by (rewrite H1; exact HHi).
      destruct (IH Hrest Hnd ispv pvm zph rd beta alpha bv bm bc lg (do_unmake (set_board st b1) mv) at_ bpv B1 HSI1 HTR1 HH HH1)
        as (orr & Hpr & Hr).
      exists orr. split; [exact Hpr|]. cbv zeta in Hr |- *.
      destruct Hr as (B5 & S5 & G5 & T5 & Hrest').
      split; [exact B5|split; [exact S5|split; [rewrite G5, G1; reflexivity|split; [exact T5|exact Hrest']]]].
Qed.

Lemma node_okH_0 : node_okH 0.
Proof.
  intros ply i path st a0 b0 ispv zph at_ Hg HSI HTR Hply Hik Hat HHi Hroot.
  exists id_order. split; [intros; apply Permutation_refl|]. cbv zeta.
  cbn [negamax SearchCore.negamax_tt]. cbv zeta. rewrite rep_leaf0.
  destruct (node_prelude_refineH ply i 0 a0 b0 st at_ path HSI HTR Hply ltac:(lia) Hat HHi Hroot) as ((B3 & T3 & S3 & G3 & HH3) & Hpre).
  destruct HSI as (Hstop & Hmt & Hsm).
  change (N.of_nat 0) with 0 in *.
  destruct (node_prelude T orc ply 0 a0 b0 (zobrist_hash T (s_board st)) st) as [pr st3]. cbn [fst snd] in *.
  destruct (probeC at_ 0 (s_board st) a0 b0) as [res|[alpha beta]].
  - destruct Hpre as (v & -> & Hv). cbn [fst snd].
    split; [exact B3|split; [congruence|split; [exact G3|split; [exact Hv|split; [rewrite T3; exact HTR|split; [exact HH3|lia]]]]]].
  - destruct (SearchCore.is_root board path && root_empty (s_board st)).
    + subst pr. cbn [fst snd vm_value leaf].
      split; [exact B3|split; [congruence|split; [exact G3|split; [reflexivity|split; [rewrite T3; exact HTR|split; [exact HH3|lia]]]]]].
    + destruct Hpre as (ttm & ->).
      assert (Hg3 : good (S Q) (s_board st3)) by (rewrite B3; exact Hg).
      destruct (leaf_node_refine T HT good Q inverse good_mono qfuel_bound good_sane stat stat_good alpha beta zph st3 Hg3) as [B4 V4].
      rewrite B3 in B4, V4.
      destruct (leaf_node_qframe T (turn (s_board st)) alpha beta zph (gen_pseudo T (s_board st)) st3) as (T4 & _ & S4 & G4).
      destruct (RepetitionProofs.leaf_node_hc T (turn (s_board st)) alpha beta zph (gen_pseudo T (s_board st)) st3) as [H4 _].
      cbn [fst snd].
      split; [exact B4|split; [congruence|split; [congruence|split; [exact V4|split; [rewrite T4, T3; exact HTR|split; [rewrite H4; exact HH3|lia]]]]]].
Qed.

Lemma node_okH_S k : (k = 0%nat \/ ND T good) -> node_okH k -> node_okH (S k).
Proof.
  intros HND IHk ply i path st a0 b0 ispv zph at_ Hg HSI HTR Hply Hik Hat HHi Hroot.
  destruct (node_prelude_refineH ply i (S k) a0 b0 st at_ path HSI HTR Hply ltac:(lia) Hat HHi Hroot) as ((B3 & T3 & S3 & G3 & HH3) & Hpre).
  assert (HSI0 := HSI). destruct HSI as (Hstop & Hmt & Hsm).
  cbn [negamax]. cbv zeta.
  destruct (node_prelude T orc ply (N.of_nat (S k)) a0 b0 (zobrist_hash T (s_board st)) st) as [pr st3] eqn:Epre.
  cbn [fst snd] in B3, T3, S3, G3, HH3, Hpre.
  destruct (probeC at_ (S k) (s_board st) a0 b0) as [res|[alpha beta]] eqn:Eprobe.
  - (* the table answers *)
    exists id_order. split; [intros; apply Permutation_refl|].
    cbn [SearchCore.negamax_tt]. rewrite rep_leaf0, Eprobe.
    destruct Hpre as (v & -> & Hv). cbn [fst snd].
    split; [exact B3|split; [congruence|split; [exact G3|split; [exact Hv|split; [rewrite T3; exact HTR|split; [exact HH3|]]]]]].
    intros _ n Hle Hn. rewrite (probe_miss_abs T HT HK _ _ (S k) (s_board st) a0 b0 n HTR Hle Hn) in Eprobe. discriminate.
  - destruct (SearchCore.is_root board path && root_empty (s_board st)) eqn:Eroot.
    + (* root without pseudo-legal move *)
      exists id_order. split; [intros; apply Permutation_refl|].
      cbn [SearchCore.negamax_tt]. rewrite rep_leaf0, Eprobe, Eroot. subst pr. cbn [fst snd vm_value vm_mv leaf HRm].
      split; [exact B3|split; [congruence|split; [exact G3|split; [reflexivity|split; [rewrite T3; exact HTR|split; [exact HH3|]]]]]].
      intros; exact I.
    + destruct Hpre as (ttm & ->).
      unfold interior_node. cbv zeta.
      set (pvm := if ispv then match s_pv st3 with Some l => nth_error l (N.to_nat ply) | None => None end else None).
      set (kl := killer_get (s_killers st3) (N.of_nat (S k))).
      set (sorted := sort_moves (gen_pseudo T (s_board st)) pvm ttm kl).
      assert (Hperm : Permutation (succs (s_board st)) (children (s_board st) sorted)) by apply children_sorted_perm.
      assert (Hnd : k = 0%nat \/ NoDup (children (s_board st) sorted)).
      { destruct HND as [E|HND]; [now left|right]. eapply Permutation_NoDup; [exact Hperm|]. eapply HND. exact Hg. }
      assert (HSI3 : SI st3) by (split; [congruence|rewrite G3; split; assumption]).
      assert (HTR3 : TR (s_tt st3) at_) by (rewrite T3; exact HTR).
      destruct (nm_loop_refineH k IHk path (s_board st) ply i Hg Hply Hik Hat sorted
                  (fun m Hm => sort_moves_in _ _ _ _ _ Hm) Hnd ispv pvm zph (N.of_nat (S k)) beta alpha (loss_score T)
                  None None false st3 at_ [] B3 HSI3 HTR3 I HH3) as (ol & Hpl & Hl).
      cbv zeta in Hl.
      set (o := fun (path' : list board) (q : board) (l : list board) =>
                  if Nat.eqb (length path') (length path)
                  then (if list_eq_dec board_eq_dec l (succs (s_board st)) then children (s_board st) sorted else l)
                  else ol path' q l).
      exists o. split.
      { intros path' q l. unfold o. destruct (Nat.eqb _ _); [|apply Hpl].
        destruct (list_eq_dec board_eq_dec l (succs (s_board st))) as [->|_]; [exact Hperm|apply Permutation_refl]. }
      assert (Eo : forall X al be bst pv t,
                 SearchCore.loop_tt board atable (nttC o k (s_board st :: path)) X al be bst pv t =
                 SearchCore.loop_tt board atable (nttC ol k (s_board st :: path)) X al be bst pv t).
      { intros X al be bst pv t. apply loop_tt_ext. intros c _ a be' t'. apply negamax_tt_ext. intros path' q l Hd. unfold o.
        apply desc_length in Hd. cbn [length] in Hd.
        destruct (Nat.eqb_spec (length path') (length path)) as [E|_]; [lia|reflexivity]. }
      cbn [SearchCore.negamax_tt]. rewrite rep_leaf0, Eprobe, Eroot.
      destruct Hl as (B5 & S5 & G5 & T5 & HH5 & bm' & bc' & lg' & E5 & L5 & H5).
      destruct (nm_loop T (negamax T orc k (ply + 1)) sorted ispv pvm (zobrist_hash T (s_board st)) zph (N.of_nat (S k)) beta alpha
                  (loss_score T) None None false st3) as [lr st4]. cbn [fst snd] in B5, S5, G5, T5, HH5, E5. subst lr.
      destruct (succs (s_board st)) as [|c0 r0] eqn:Es.
      * (* no legal move *)
        apply Permutation_nil in Hperm. rewrite Hperm in L5, T5. cbn [is_nil negb orb] in L5. subst lg'. cbn [negb].
        cbn [SearchCore.loop_tt snd] in T5. cbn [fst snd vm_value vm_mv leaf HRm]. rewrite B5.
        split; [reflexivity|split; [exact S5|split; [congruence|split; [apply evaluate_for_terminal|split; [exact T5|split; [exact HH5|]]]]]].
        intros; exact I.
      * (* the move loop ran *)
        assert (Hne : children (s_board st) sorted <> []).
        { intros E. rewrite E in Hperm. apply Permutation_sym, Permutation_nil in Hperm. discriminate. }
        assert (Elg : lg' = true).
        { rewrite L5. destruct (children (s_board st) sorted); [contradiction|reflexivity]. }
        clear L5. subst lg'. cbn [negb].
        assert (Eord : o path (s_board st) (c0 :: r0) = children (s_board st) sorted).
        { unfold o. rewrite Nat.eqb_refl. destruct (list_eq_dec board_eq_dec (c0 :: r0) (c0 :: r0)); [reflexivity|contradiction]. }
        rewrite Eord, Eo. change (- W)%Z with (loss_score T).
        set (LR := SearchCore.loop_tt board atable (nttC ol k (s_board st :: path)) (children (s_board st) sorted) alpha beta
                     (loss_score T) [] at_) in *.
        rewrite is_mate_eq. unfold SearchCore.store.
        destruct (SearchCore.is_mate_score W Mx (fst (fst LR))); cbn [negb fst snd vm_value vm_mv].
        -- split; [exact B5|split; [exact S5|split; [congruence|split; [reflexivity|split; [exact T5|split; [exact HH5|]]]]]].
           intros; exact H5.
        -- sproj. split; [exact B5|split; [exact S5|split; [congruence|split; [reflexivity|split; [|split; [exact HH5|intros; exact H5]]]]]].
           apply (HR_put tt_entry aentry ER); [exact T5|].
           unfold ER. cbn [SearchCore.e_depth SearchCore.e_value SearchCore.e_type te_depth te_value te_type te_mv vm_value].
           split; [now rewrite Nat2N.id|split; [reflexivity|split; [|reflexivity]]].
           unfold SearchCore.node_type. rewrite Zgeb_leb.
           destruct (fst (fst LR) <=? a0)%Z; [reflexivity|]. destruct (beta <=? fst (fst LR))%Z; reflexivity.
Qed.

(* node level: the concrete search_negamax computes the table-using mirror, at every half-move clock *)
Theorem negamax_refineH K : ((K <= 1)%nat \/ ND T good) -> forall k, (k <= K)%nat -> node_okH k.
Proof.
  intros H. induction k as [|k IH]; intros Hk; [exact node_okH_0|].
  apply node_okH_S; [destruct H as [H|H]; [left; lia|right; exact H]|apply IH; lia].
Qed.

(* ---- iterative deepening ---- *)
Local Notation iterC oit :=
  (SearchCore.iteration board succs noisy_succs noisy_any static terminal W qmeasure order_q oit rep0 root_empty
     atable a_get a_put (zobrist_hash T) Mx).
Local Notation godC oit :=
  (SearchCore.go_depth board succs noisy_succs noisy_any static terminal W qmeasure order_q oit rep0 root_empty
     atable a_get a_put (zobrist_hash T) Mx).
Local Notation tt_at := (SearchRefine.tt_at T stat).
Local Notation log_ok := (SearchRefine.log_ok T stat).
Local Notation rec_ok := (SearchRefine.rec_ok T stat).

Lemma id_step_refineH a at_ :
  node_okH (id_fuel a) -> SI (id_st a) -> TR (s_tt (id_st a)) at_ -> good (id_fuel a + S Q) (s_board (id_st a)) ->
  s_board (id_st a) = root -> (id_fuel a <= D)%nat -> HIh (s_history (id_st a)) ->
  exists o, (forall path' q l, Permutation l (o path' q l)) /\
    let R := nttC o (id_fuel a) [] (s_board (id_st a)) (- W)%Z W at_ in
    let a' := id_next T orc None a in
    (exists it, id_log a' = it :: id_log a /\ it_depth it = id_depth a /\ vm_value (it_result it) = fst (fst R) /\
       it_aborted it = (match vm_mv (it_result it) with Some _ => false | None => true end) /\
       ((1 <= id_fuel a)%nat -> forall n, tt_le n (s_tt (id_st a)) -> n < N.of_nat (id_fuel a) ->
          HRm (s_board (id_st a)) (vm_mv (it_result it)) (snd (fst R)))) /\
    id_fuel a' = S (id_fuel a) /\ id_depth a' = id_depth a + 1 /\
    s_board (id_st a') = s_board (id_st a) /\ SI (id_st a') /\ TR (s_tt (id_st a')) (snd R) /\
    HIh (s_history (id_st a')) /\
    (forall n, N.of_nat (id_fuel a) <= n -> tt_le n (s_tt (id_st a)) -> tt_le n (s_tt (id_st a'))).
Proof.
  intros Hok HSI HTR Hg Hb Hfd HHi.
  assert (Hat : at_ply root 0 (s_board (id_st a))) by (rewrite Hb; constructor).
  destruct (Hok 0 0%nat [] (id_st a) (loss_score T) (win_score T)
              (match s_pv (id_st a) with Some _ => true | None => false end) (pawn_hash T (s_board (id_st a))) at_
              Hg HSI HTR eq_refl ltac:(lia) Hat HHi eq_refl) as (o & Hpo & Hr).
  exists o. split; [exact Hpo|]. cbv zeta in Hr |- *.
  change (loss_score T) with (- W)%Z in Hr. change (win_score T) with W in Hr.
  assert (Hinv : forall n, N.of_nat (id_fuel a) <= n -> tt_le n (s_tt (id_st a)) ->
            tt_le n (s_tt (snd (negamax T orc (id_fuel a) 0 (- W)%Z W (match s_pv (id_st a) with Some _ => true | None => false end)
                                    (zobrist_hash T (s_board (id_st a))) (pawn_hash T (s_board (id_st a))) (id_st a))))).
  { intros n Hn. exact (proj2 (negamax_inv2 T orc n (id_fuel a) 0 (- W)%Z W _ _ _ (id_st a) Hn)). }
  destruct Hr as (B1 & S1 & G1 & V1 & T1 & HH1 & H1).
  destruct HSI as (Hstop & Hmt & Hsm).
  unfold id_next, id_step. cbv zeta.
  change (loss_score T) with (- W)%Z. change (win_score T) with W.
  destruct (negamax T orc (id_fuel a) 0 (- W)%Z W (match s_pv (id_st a) with Some _ => true | None => false end)
              (zobrist_hash T (s_board (id_st a))) (pawn_hash T (s_board (id_st a))) (id_st a)) as [current st1].
  cbn [fst snd] in B1, S1, G1, V1, T1, HH1, H1, Hinv.
  unfold generate_info, read_clock. cbv beta iota zeta. sproj. rewrite S1. cbn [orb].
  destruct (vm_mv current) as [mv0|] eqn:Emv;
    cbn [negb orb]; cbv beta iota zeta; sproj; cbn [un id_log id_fuel id_depth id_st]; sproj;
    (split; [eexists; split; [reflexivity|]; cbn [it_depth it_result it_aborted]; rewrite ?Emv;
             split; [reflexivity|split; [exact V1|split; [reflexivity|exact H1]]]|]);
    (split; [reflexivity|split; [reflexivity|split; [exact B1|split; [|split; [exact T1|split; [exact HH1|exact Hinv]]]]]]);
    (unfold SI; sproj; split; [exact S1|rewrite G1; split; assumption]).
Qed.

Definition loop_okH (tt0 : atable) (a : idstate) : Prop :=
  (length (id_log a) <= D)%nat ->
  exists oit : oracle_it, (forall d path q l, Permutation l (oit d path q l)) /\
    id_fuel a = S (length (id_log a)) /\ id_depth a = N.of_nat (S (length (id_log a))) /\
    s_board (id_st a) = root /\ SI (id_st a) /\
    TR (s_tt (id_st a)) (tt_at oit root tt0 (length (id_log a))) /\
    tt_le (N.of_nat (length (id_log a))) (s_tt (id_st a)) /\
    (match id_log a with [] => True | it :: _ => it_depth it = N.of_nat (length (id_log a)) end) /\
    HIh (s_history (id_st a)) /\
    Forall (log_ok D root tt0 oit (length (id_log a))) (id_log a).

Lemma loop_okH_step tt0 a :
  (forall k, (k <= D)%nat -> node_okH k) -> good (D + S Q) root ->
  loop_okH tt0 a -> loop_okH tt0 (id_next T orc None a).
Proof.
  intros Hok Hg Ha Hlen.
  assert (Hlog : exists it, id_log (id_next T orc None a) = it :: id_log a).
  { destruct (C03_family_empty T) as (E1 & E2 & E3).
    pose proof (id_step_spec T _ _ E1 E2 E3 orc None a) as Hs. cbv zeta in Hs.
    destruct Hs as ((it & Hl & _) & _). exists it. exact Hl. }
  destruct Hlog as (it0 & Hlog0). rewrite Hlog0 in Hlen. cbn [length] in Hlen.
  destruct Ha as (oit & Hp & Hf & Hd & Hb & HSI & HTR & Hle & _ & HHi & Hall); [lia|].
  set (j := length (id_log a)) in *.
  assert (Hg' : good (id_fuel a + S Q) (s_board (id_st a))).
  { rewrite Hf, Hb. eapply good_le'; [|exact Hg]. lia. }
  assert (Hokj : node_okH (id_fuel a)) by (apply Hok; rewrite Hf; lia).
  destruct (id_step_refineH a (tt_at oit root tt0 j) Hokj HSI HTR Hg' Hb ltac:(rewrite Hf; lia) HHi) as (o & Hpo & Hr).
  cbv zeta in Hr. destruct Hr as ((it & Hl & Hdep & Hv & Hab & HH) & Hf' & Hd' & Hb' & HSI' & HTR' & HHi' & Hinv).
  rewrite Hf, Hb in *.
  set (oit' := fun d : nat => if Nat.eqb d (S j) then o else oit d).
  assert (Eold : forall d, (1 <= d <= j)%nat -> oit d = oit' d).
  { intros d Hdj. unfold oit'. destruct (Nat.eqb_spec d (S j)); [lia|reflexivity]. }
  assert (Enew : oit' (S j) = o) by (unfold oit'; now rewrite Nat.eqb_refl).
  assert (Ett : forall d, (d <= j)%nat -> tt_at oit' root tt0 d = tt_at oit root tt0 d).
  { intros d Hdj. symmetry. apply (tt_at_ext T HT stat HK). intros d' Hd'j. apply Eold. lia. }
  assert (Eit : iterC oit' (S j) root (tt_at oit' root tt0 j) = nttC o (S j) [] root (- W)%Z W (tt_at oit root tt0 j)).
  { rewrite Ett by lia. unfold SearchCore.iteration. now rewrite Enew. }
  exists oit'. rewrite Hl. cbn [length]. fold j.
  split; [intros d path q l; unfold oit'; destruct (Nat.eqb d (S j)); [apply Hpo|apply Hp]|].
  split; [exact Hf'|]. split; [rewrite Hd', Hd, !Nat2N.inj_succ; lia|].
  split; [exact Hb'|]. split; [exact HSI'|].
  split; [cbn [SearchRefine.tt_at]; rewrite Eit; exact HTR'|].
  split.
  { apply Hinv; [lia|]. eapply tt_le_mono; [|exact Hle]. lia. }
  split; [rewrite Hdep; exact Hd|].
  split; [exact HHi'|].
  constructor.
  - exists j. split; [rewrite Hdep; exact Hd|]. split; [lia|]. split; [exact Hab|]. cbv zeta. rewrite Eit. split; [exact Hv|].
    apply (HH ltac:(lia) (N.of_nat j)); [exact Hle|lia].
  - eapply Forall_impl; [|exact Hall]. intros it' (d & H1 & H2 & H2' & H3). exists d. split; [exact H1|]. split; [lia|]. split; [exact H2'|].
    cbv zeta in H3 |- *. rewrite Ett by lia. rewrite <- (iter_ext T stat oit oit' (S d)) by (apply Eold; lia). exact H3.
Qed.

Lemma best_move_refineH st :
  (forall k, (k <= D)%nat -> node_okH k) -> s_stop st = false -> g_movetime (s_go st) = None -> g_wtime (s_go st) = None -> g_btime (s_go st) = None ->
  g_searchmoves (s_go st) = [] ->
  good (D + S Q) root -> s_board st = root -> HIh (s_history st) ->
  let log := snd (fst (best_move T orc st)) in
  (length log <= D)%nat ->
  (exists oit : oracle_it, (forall d path q l, Permutation l (oit d path q l)) /\
    Forall (log_ok D root (tt0_of st) oit (length log)) log) /\
  (match log with [] => True | it :: _ => it_depth it = N.of_nat (length log) end).
Proof.
  intros Hok Hstop Hmt Hw Hb Hsm Hg Hbr HHi. unfold best_move. cbv zeta.
  set (st1 := set_killers _ _).
  set (st2 := if s_try_prev_pv st1 then try_set_pv_from_continuation st1 else st1).
  assert (F2 : s_board st2 = s_board st /\ s_go st2 = s_go st /\ s_tt st2 = HashTable.clear tt_entry (s_tt st) /\ s_stop st2 = false /\
               s_history st2 = s_history st).
  { subst st2. destruct (s_try_prev_pv st1); [|repeat split; assumption].
    destruct (try_set_pv_frame st1) as (B & _ & G & TT). rewrite (try_set_pv_stop st1), (try_set_pv_hist st1). repeat split; assumption. }
  destruct F2 as (B2 & G2 & T2 & S2 & H2).
  assert (Hmt2 : g_movetime (s_go st2) = None) by (rewrite G2; exact Hmt).
  rewrite Hmt2. rewrite (calc_time_none st2) by (rewrite G2; assumption). cbn [option_map].
  set (st3 := set_go st2 (set_movetime (s_go st2) None)).
  assert (F3 : s_board st3 = s_board st /\ SI st3 /\ s_tt st3 = HashTable.clear tt_entry (s_tt st) /\ s_history st3 = s_history st).
  { subst st3. sproj. split; [exact B2|]. split; [|split; [exact T2|exact H2]]. unfold SI. sproj. cbn [g_movetime g_searchmoves set_movetime].
    rewrite G2. repeat split; assumption. }
  destruct F3 as (B3 & HSI3 & T3 & H3).
  assert (Hmt3 : g_movetime (s_go st3) = None) by reflexivity. rewrite Hmt3.
  set (a0 := {| id_depth := 1; id_fuel := 1; id_best := None; id_uci_pv := None; id_score := None; id_log := []; id_st := st3 |}).
  set (p := match match g_depth (s_go st2) with Some dd => N.max dd 1 | None => 999999 end with Npos p => p | N0 => xH end).
  assert (I0 : loop_okH (tt0_of st) a0).
  { intros _. exists (fun _ => id_order). split; [intros; apply Permutation_refl|]. cbn [a0 id_log id_fuel id_depth id_st length SearchRefine.tt_at].
    split; [reflexivity|]. split; [reflexivity|]. split; [rewrite B3; exact Hbr|]. split; [exact HSI3|].
    split; [rewrite T3; split; [reflexivity|split; [reflexivity|constructor]]|]. split; [rewrite T3; apply tt_le_clear|]. split; [exact I|].
    split; [rewrite H3; exact HHi|constructor]. }
  pose proof (iter_until_ind (loop_okH (tt0_of st)) (loop_okH (tt0_of st))
                (id_step T orc None)) as HL.
  specialize (HL (fun a Ha => ltac:(
     pose proof (loop_okH_step (tt0_of st) a Hok Hg Ha) as Hn; unfold id_next in Hn;
     destruct (id_step T orc None a); exact Hn)) p a0 I0).
  unfold read_clock. cbv beta iota zeta.
  set (fin := match iter_until p (id_step T orc None) a0 with inl a => a | inr a => a end) in *.
  assert (Hfin : loop_okH (tt0_of st) fin).
  { subst fin. destruct (iter_until p (id_step T orc None) a0); exact HL. }
  cbn [fst snd]. intros Hlen. destruct (Hfin Hlen) as (oit & Hp & _ & _ & _ & _ & _ & _ & Hhd & _ & Hall).
  split; [exists oit; split; [exact Hp|exact Hall]|exact Hhd].
Qed.

(* the whole `go` *)
Theorem go_refineH g st :
  (forall k, (k <= D)%nat -> node_okH k) ->
  g_movetime g = None -> g_wtime g = None -> g_btime g = None -> g_searchmoves g = [] ->
  good (D + S Q) root -> s_board st = root -> HIh (s_history st) ->
  (length (fst (go_full T orc g st)) <= D)%nat ->
  (exists oit : oracle_it, (forall d path q l, Permutation l (oit d path q l)) /\
     Forall (rec_ok D root (tt0_of st) oit) (fst (go_full T orc g st))) /\
  (match fst (go_full T orc g st) with [] => True | it :: _ => it_depth it = N.of_nat (length (fst (go_full T orc g st))) end).
Proof.
  intros Hok Hmt Hw Hb Hsm Hg Hbr HHi. unfold go_full. cbv zeta.
  set (st0 := set_reads (set_drains (set_go st g) 0) 0).
  destruct (reset_for_go_facts st0) as (B1 & G1 & S1 & E1).
  pose proof (reset_for_go_hist st0) as H1.
  change (s_board st0) with (s_board st) in B1. change (s_go st0) with g in G1. change (tt0_of st0) with (tt0_of st) in E1.
  change (s_history st0) with (s_history st) in H1.
  pose proof (best_move_refineH (reset_for_go st0) Hok S1) as HB.
  rewrite G1, B1, E1, H1 in HB. specialize (HB Hmt Hw Hb Hsm Hg Hbr HHi). cbv zeta in HB.
  destruct (best_move T orc (reset_for_go st0)) as [[[bm pm] log] st2]. cbn [fst snd] in HB |- *.
  intros Hlen. destruct (HB Hlen) as ((oit & Hp & Hall) & Hhd). split; [|exact Hhd]. exists oit. split; [exact Hp|].
  eapply Forall_impl; [|exact Hall]. intros it (d & H1' & H2 & H2' & H3). exists d. split; [exact H1'|]. split; [lia|]. split; [exact H2'|].
  cbv zeta in H3 |- *. rewrite god_tt_at. exact H3.
Qed.

(* ---- transfer of the abstract exactness theorem ---- *)
Hypothesis static_bound : forall p, (- W < static p < W)%Z.
Hypothesis sim_nm : forall r' r x y, sim r' x y -> (r <= r')%nat ->
  Minimax.nm board succs noisy_succs noisy_any static terminal qmeasure r x =
  Minimax.nm board succs noisy_succs noisy_any static terminal qmeasure r y.
Hypothesis sim_le : forall r r' x y, (r <= r')%nat -> sim r' x y -> sim r x y.

Local Notation inb := (SearchRefine.inb T).
Local Notation exact_rec := (SearchRefine.exact_rec T stat).

Theorem go_depth_concreteH g st dd :
  g_depth g = Some dd -> D = depth_of dd ->
  ((D <= 1)%nat \/ ND T good) ->
  g_movetime g = None -> g_wtime g = None -> g_btime g = None -> g_searchmoves g = [] ->
  good (D + S Q) root -> s_board st = root -> s_history st = h0 ->
  root_empty root = false -> inb D root ->
  Forall (fun it => exists d, (S d <= D)%nat /\ exact_rec root d it) (fst (go_full T orc g st)) /\
  (succs root <> [] ->
     exists it rest, fst (go_full T orc g st) = it :: rest /\ exact_rec root (pred D) it).
Proof.
  intros Hd HD HND Hmt Hw Hb Hsm Hg Hbr Hh Hre Hinb.
  pose proof (go_full_len T good Q inverse good_mono qfuel_bound orc g st dd Hd) as Hlen. fold (depth_of dd) in Hlen. rewrite <- HD in Hlen.
  assert (HHi : HIh (s_history st)) by (rewrite Hh; apply HI_init).
  destruct (go_refineH g st (negamax_refineH D HND) Hmt Hw Hb Hsm Hg Hbr HHi Hlen) as ((oit & Hp & Hall) & Hhd).
  assert (HF : Forall (fun it => exists d, (S d <= D)%nat /\ exact_rec root d it) (fst (go_full T orc g st))).
  { eapply Forall_impl; [|exact Hall]. intros it (d & H1 & H2 & Hab & H3). exists d. split; [exact H2|]. split; [exact H1|].
    cbv zeta in H3. destruct H3 as [V HH].
    assert (HU' : Minimax.ply_unique board succs (zobrist_hash T) sim (S d) root).
    { intros i j x y Hi Hj Hx Hy Hk. destruct (HU i j x y ltac:(lia) ltac:(lia) Hx Hy Hk) as [E S']. split; [exact E|].
      eapply sim_le; [|exact S']. lia. }
    destruct (AlphaBetaInst.go_depth_exact board succs noisy_succs noisy_any static terminal qmeasure W Hdec order_q (order_q_perm T)
                rep0 root_empty (fun _ _ => eq_refl) atable a_get a_put (zobrist_hash T) Mx a_put_spec static_bound
                inb (inb_step T) (inb_terminal T) root sim sim_nm sim_le oit Hp (S d) (tt0_of st) ltac:(lia) HU' (tt0_empty st) Hre
                (inb_le' T (S d) D _ H2 Hinb)) as [Ev Hbm].
    split; [rewrite V; exact Ev|]. intros Hne.
    destruct (Hbm Hne) as (q & rest & k & Ek & E1 & E2 & E3). injection Ek as <-.
    rewrite E1 in HH. destruct (HRm_cons _ _ _ _ HH) as (m & Hm & Hmk). rewrite Hab, Hm. split; [reflexivity|].
    exists m, q. repeat split; assumption. }
  split; [exact HF|]. intros Hne.
  assert (HF' : Forall (fun it => exists d, (S d <= depth_of dd)%nat /\ SearchRefine.exact_rec T stat (s_board st) d it) (fst (go_full T orc g st))).
  { rewrite Hbr, <- HD. exact HF. }
  assert (Hhd' : match fst (go_full T orc g st) with [] => True | it :: _ => it_depth it = N.of_nat (length (fst (go_full T orc g st))) end) by exact Hhd.
  rewrite <- Hbr in Hne.
  destruct (all_exact_full T HT stat HK orc g st dd Hmt Hw Hb Hd HF' Hhd' Hne) as (it & rest & E & Hex).
  exists it, rest. split; [exact E|]. rewrite HD, <- Hbr. exact Hex.
Qed.

End RefineH.

(* ================================================================== *)
(* 2.4 closed form for any table set: the hypotheses packaged as in Proofs/SearchRefine.v (Section Closed)           *)
Section ClosedH.
Variable T : Tables.t.
Hypothesis HT : ZobristProofs.gen_masks_ok T = true.
Variable good : nat -> board -> Prop.
Variable Q : nat.
Hypothesis HF : C03_family T good Q.
Hypothesis good_sane : forall n b, good n b -> sane b = true.
Hypothesis good_full : forall n b, good n b -> 1 <= full b.
Hypothesis HK : ZobristProofs.keys_rows_ok T = true.
Hypothesis HW : (0 < win_score T)%Z.
Hypothesis good_static : forall n b, good n b -> (- win_score T < ChessGame.static T b < win_score T)%Z.

Local Notation succs := (ChessGame.succs T).
Local Notation noisy_succs := (ChessGame.noisy_succs T).
Local Notation noisy_any := (ChessGame.noisy_any T).
Local Notation terminal := (ChessGame.terminal T).
Local Notation stat := (static_sat T).
Local Notation nmC := (Minimax.nm board succs noisy_succs noisy_any stat terminal qmeasure).

Lemma good_clock n b : good n b -> RepetitionProofs.clock_ok b.
Proof.
  intros Hg. split; [|exact (good_full n b Hg)].
  destruct (sane_elim b (good_sane n b Hg)) as (Hwf & _). now apply AbsProofs.wf_turn.
Qed.

(* node level: search_negamax computes the table-using mirror for some ordering oracle that is a permutation, at every
   half-move clock, at every node of the depth-D tree below root, the history invariant [HI] being handed on *)
Theorem negamax_refines_closedH : forall orc, quiet orc ->
  forall (sim : nat -> board -> board -> Prop) (root : board) (D : nat) (h0 : hist),
  RepetitionProofs.clock_ok root -> Minimax.ply_unique board succs (zobrist_hash T) sim D root -> history_fresh T h0 D root ->
  forall K, ((K <= 1)%nat \/ ND T good) -> forall k, (k <= K)%nat -> node_okH T good Q stat orc root D h0 k.
Proof.
  destruct HF as (H1 & H2 & H3). intros orc [Qa Qi] sim root D h0 Hc HU HFr.
  exact (negamax_refineH T HT good Q H1 H2 H3 good_sane stat (fun n b H => static_sat_eq T b (good_static n b H)) HK orc Qa Qi
           sim root D h0 Hc HU HFr).
Qed.

Theorem go_depth_closedH : forall orc, quiet orc ->
  forall sim : nat -> board -> board -> Prop,
  (forall r' r x y, sim r' x y -> (r <= r')%nat -> nmC r x = nmC r y) ->
  (forall r r' x y, (r <= r')%nat -> sim r' x y -> sim r x y) ->
  forall g st dd, g_depth g = Some dd -> ((depth_of dd <= 1)%nat \/ ND T good) -> plain_go g ->
  good (depth_of dd + S Q) (s_board st) ->
  Minimax.ply_unique board succs (zobrist_hash T) sim (depth_of dd) (s_board st) ->
  history_fresh T (s_history st) (depth_of dd) (s_board st) ->
  root_empty T (s_board st) = false -> inb T (depth_of dd) (s_board st) ->
  Forall (fun it => exists d, (S d <= depth_of dd)%nat /\ exact_rec T stat (s_board st) d it) (fst (go_full T orc g st)) /\
  (succs (s_board st) <> [] ->
     exists it rest, fst (go_full T orc g st) = it :: rest /\ exact_rec T stat (s_board st) (pred (depth_of dd)) it).
Proof.
  destruct HF as (H1 & H2 & H3). intros orc [Qa Qi] sim S1 S2 g st dd Hd HND (G1 & G2 & G3 & G4) Hg HU HFr Hre Hinb.
  exact (go_depth_concreteH T HT good Q H1 H2 H3 good_sane stat
           (fun n b H => static_sat_eq T b (good_static n b H)) HK orc Qa Qi sim (s_board st) (depth_of dd) (s_history st)
           (good_clock _ _ Hg) HU HFr (static_sat_bound T HW) S1 S2 g st dd Hd eq_refl HND G1 G2 G3 G4 Hg eq_refl eq_refl Hre Hinb).
Qed.

End ClosedH.

(* ================================================================== *)
(* Part 3: what one `go` reports about its newest iteration.  If the newest iteration record is not aborted, the LAST
   `info` message of the go (the message right before `bestmove`) carries the depth, the score ([score_from_value] of
   the value, on the engine's board) and the principal variation of that iteration, and `bestmove` announces its move
   (ponder: the second move of its line).  One walk over the deepening loop ([rinv], preserved by [id_step]), then
   `go_full` is unfolded as in SessionProofs.go_full_facts. *)
Require Import Ink.Proofs.SessionProofs.
Open Scope N_scope.

Section Report.
Variable T : Tables.t.
Variable orc : oracle.

(* what the newest message says about the newest record, when that record is not aborted *)
Definition reports (a : idstate) (it : iter_rec) (i : info) : Prop :=
  i_depth i = Some (it_depth it) /\
  i_score i = Some (score_from_value T (vm_value (it_result it)) (s_board (id_st a))) /\
  i_pv i = Some (map uci_of_move (calc_pv (it_result it))) /\
  id_best a = Some (it_result it) /\
  id_uci_pv a = Some (calc_pv (it_result it)).

Definition rinv (a0 a : idstate) : Prop :=
  exists l, s_out (id_st a) = l ++ s_out (id_st a0) /\ forallb is_info l = true /\
    match id_log a with
    | [] => True
    | it :: _ => exists i l', l = OInfo i :: l' /\ (it_aborted it = false -> reports a it i)
    end.

Lemma rinv_refl a : id_log a = [] -> rinv a a.
Proof. intro H. exists []. split; [reflexivity|]. split; [reflexivity|]. rewrite H. exact I. Qed.

Lemma rinv_step mt a0 a : rinv a0 a -> rinv a0 (id_next T orc mt a).
Proof.
  intros (l & Hl & Hi & _).
  unfold id_next, id_step. cbv zeta.
  match goal with |- context [negamax T orc ?d ?p ?x ?y ?v ?z ?w (id_st a)] =>
    pose proof (negamax_outs T orc d p x y v z w (id_st a)) as O1;
    destruct (negamax T orc d p x y v z w (id_st a)) as [current st1] end.
  cbn [snd] in O1. destruct O1 as (l1 & E1 & F1).
  unfold read_clock, generate_info. cbv beta iota zeta. sproj.
  destruct (s_stop st1 || match vm_mv current with Some _ => false | None => true end) eqn:Eab;
    cbn [negb]; cbv beta iota zeta; unfold read_clock; cbv beta iota zeta; sproj;
    match goal with |- context [if ?c then inr ?x else inl ?y] =>
      replace (un (if c then inr x else inl y)) with x by (destruct c; reflexivity) end.
  - (* aborted: nothing is claimed about the message *)
    unfold rinv. cbn [id_log id_st id_best id_uci_pv]. sproj.
    eexists (_ :: l1 ++ l). split; [rewrite E1, Hl, app_assoc; reflexivity|]. split.
    + cbn [forallb is_info]. rewrite forallb_app, F1, Hi. reflexivity.
    + do 2 eexists. split; [reflexivity|]. cbn [it_aborted]. discriminate.
  - (* kept: the message carries this iteration *)
    unfold rinv. cbn [id_log id_st id_best id_uci_pv]. sproj.
    eexists (_ :: l1 ++ l). split; [rewrite E1, Hl, app_assoc; reflexivity|]. split.
    + cbn [forallb is_info]. rewrite forallb_app, F1, Hi. reflexivity.
    + do 2 eexists. split; [reflexivity|]. intros _. unfold reports.
      cbn [it_depth it_result i_depth i_score i_pv id_best id_uci_pv id_st option_map]. sproj.
      repeat split; reflexivity.
Qed.

Lemma rinv_step' mt a0 a : rinv a0 a -> match id_step T orc mt a with inl a' => rinv a0 a' | inr b => rinv a0 b end.
Proof. intro H. pose proof (rinv_step mt a0 a H) as H1. unfold id_next in H1. destruct (id_step T orc mt a); exact H1. Qed.

Lemma nth_error_map_1 {A B} (f : A -> B) (l : list A) n : option_map f (nth_error l n) = nth_error (map f l) n.
Proof. revert l. induction n as [|n IH]; intros [|x r]; cbn [nth_error map option_map]; try reflexivity. apply IH. Qed.

(* the state-level statement: outputs newest first *)
Lemma go_full_report g st it rest :
  fst (go_full T orc g st) = it :: rest -> it_aborted it = false ->
  exists l i ponder,
    s_out (snd (go_full T orc g st)) =
      OBestmove (option_map uci_of_move (vm_mv (it_result it))) ponder :: OInfo i :: l ++ s_out st /\
    forallb is_info l = true /\
    i_depth i = Some (it_depth it) /\
    i_score i = Some (score_from_value T (vm_value (it_result it)) (s_board (snd (go_full T orc g st)))) /\
    i_pv i = Some (map uci_of_move (calc_pv (it_result it))) /\
    ponder = nth_error (map uci_of_move (calc_pv (it_result it))) 1.
Proof.
  unfold go_full. cbv zeta.
  set (st0 := set_reads _ _).
  destruct (reset_for_go_frame st0) as (B1 & O1 & G1).
  set (sr := reset_for_go st0) in *. clearbody sr.
  unfold best_move. cbv zeta.
  set (st1 := set_killers _ _).
  set (st2 := if s_try_prev_pv st1 then try_set_pv_from_continuation st1 else st1).
  assert (F2 : s_out st2 = s_out sr).
  { subst st2. destruct (s_try_prev_pv st1); [|reflexivity]. destruct (try_set_pv_frame st1) as (_ & O & _ & _). exact O. }
  set (st3 := match g_movetime (s_go st2) with None => _ | Some _ => st2 end).
  assert (O3 : s_out st3 = s_out sr).
  { subst st3. destruct (g_movetime (s_go st2)); [exact F2|]. sproj. exact F2. }
  clearbody st3. clear F2.
  set (a0 := {| id_depth := 1; id_fuel := 1; id_best := None; id_uci_pv := None; id_score := None; id_log := []; id_st := st3 |}).
  set (p := match _ with Npos p => p | N0 => xH end).
  assert (I0 : rinv a0 a0) by (apply rinv_refl; reflexivity).
  pose proof (iter_until_ind (rinv a0) (rinv a0) (id_step T orc (g_movetime (s_go st3)))
                (fun a H => rinv_step' (g_movetime (s_go st3)) a0 a H) p a0 I0) as HL.
  assert (HF : exists fin, (match iter_until p (id_step T orc (g_movetime (s_go st3))) a0 with inl a => a | inr a => a end) = fin
                           /\ rinv a0 fin).
  { destruct (iter_until p _ a0) as [x|x]; exists x; (split; [reflexivity|exact HL]). }
  destruct HF as (fin & -> & (l & Hl & Hi & Hlog)).
  unfold read_clock. cbv beta iota zeta. cbn [fst snd]. cbn [id_st a0] in *.
  intros Elog Hab. rewrite Elog in Hlog. destruct Hlog as (i & l' & -> & Hrep).
  destruct (Hrep Hab) as (Hd & Hs & Hp & Hb & Hu).
  cbn [forallb is_info] in Hi.
  exists l', i. eexists. rewrite Hb, Hu. sproj.
  split; [rewrite Hl, O3, O1; reflexivity|].
  split; [exact Hi|]. split; [exact Hd|]. split; [exact Hs|]. split; [exact Hp|].
  apply nth_error_map_1.
Qed.

End Report.

Theorem go_last_report (T : Tables.t) (orc : oracle) (g : go_params) (st : sstate) it rest :
  fst (go_full T orc g st) = it :: rest -> it_aborted it = false ->
  exists infos i ponder,
    go_msgs T orc g st = infos ++ [OInfo i; OBestmove (option_map uci_of_move (vm_mv (it_result it))) ponder] /\
    forallb is_info infos = true /\
    i_depth i = Some (it_depth it) /\
    i_score i = Some (score_from_value T (vm_value (it_result it)) (s_board (snd (go_full T orc g st)))) /\
    i_pv i = Some (map uci_of_move (calc_pv (it_result it))) /\
    ponder = nth_error (map uci_of_move (calc_pv (it_result it))) 1.
Proof.
  intros Elog Hab.
  destruct (go_full_report T orc g st it rest Elog Hab) as (l & i & ponder & Hout & Hi & Hd & Hs & Hp & Hpo).
  exists (rev l), i, ponder. split; [|split; [|tauto]].
  - unfold go_msgs, go. rewrite (new_msgs_app st _ (_ :: _ :: l) Hout).
    cbn [rev]. rewrite <- app_assoc. reflexivity.
  - rewrite forallb_forall in *. intros m Hm. apply Hi. apply in_rev. exact Hm.
Qed.


(* ================================================================== *)
(* Part 1: distinct pseudo-legal moves of one legal position lead to distinct boards (ND).

   make_inj_uci      two generated moves of a position satisfying the invariants (wf, rights_wf, ep_ok, is_valid)
                     that `make` to the same board have the same UCI triple (from, to, promotion);
   children_NoDup    generic: the successor list has no duplicates as soon as the moves are told apart by a key f
                     that is determined by the successor board;
   succs_NoDup_inv   NoDup (ChessGame.succs T b) under the position invariants;
   succs_NoDup_legal the same from `legal_pos (abs b)`.

   Proof of make_inj_uci.  Both moves are m_i = mk T b s_i t_i (kindN k_i) ic_i ie_i pr_i epo_i with mfacts M_i
   (MakeProofs.gen_mfacts).  By core_exact the cells of the common successor q are newcells ... of EACH move, so the
   two cell functions F_1, F_2 agree everywhere.  [F_char] describes newcells completely, square by square, under
   mfacts; comparing F_1 and F_2 at s_1, s_2 (sources agree: a vacated foreign source would have to be the rook of a
   castling move, both ways round), then at t_1 (targets agree: the only other square that receives a piece of the
   mover is the rook's castling target, and then the placed pieces differ), then the piece placed on the target
   (promotion kinds agree) gives the claim. *)
Require Import Ink.Spec.Rules.
Require Import Ink.Proofs.Abs Ink.Proofs.AttackProofs Ink.Proofs.AbsProofs Ink.Proofs.CheckProofs Ink.Proofs.MakeUnmake.
Require Import Ink.Proofs.GenShape Ink.Proofs.MoveGenProofs Ink.Proofs.MakeProofs.
Open Scope N_scope.

(* ================================================================== *)
(* 1. generic: no duplicates among the children                        *)
(* ================================================================== *)
Lemma children_NoDup (T : Tables.t) (b : board) {A} (f : move -> A) (ms : list move) :
  NoDup (map f ms) ->
  (forall m1 m2 q, In m1 ms -> In m2 ms -> make b m1 = Some q -> make b m2 = Some q -> f m1 = f m2) ->
  NoDup (ChessGame.children T b ms).
Proof.
  induction ms as [|m r IH]; intros ND Hinj; cbn [ChessGame.children]; [constructor|].
  cbn [map] in ND. inversion ND as [|? ? Hn ND']; subst.
  assert (IH' : NoDup (ChessGame.children T b r)).
  { apply IH; [exact ND'|]. intros m1 m2 q H1 H2. apply Hinj; now right. }
  destruct (make b m) as [b'|] eqn:Em; [|exact IH'].
  destruct (is_valid T b') eqn:Ev; [|exact IH'].
  constructor; [|exact IH'].
  intros Hin. apply ChessGame.children_in in Hin as (m' & Hm' & Emk & _).
  apply Hn. rewrite (Hinj m m' b' (or_introl eq_refl) (or_intror Hm') Em Emk).
  now apply in_map.
Qed.

(* ================================================================== *)
(* 2. the cells after one move, square by square                       *)
(* ================================================================== *)
Section Cells.
Variable T : Tables.t.
Variable b : board.
Hypothesis Hwf : wf b = true.
Hypothesis Hrw : rights_wf b = true.

Let c : color := col_of (turn b).
Let f : N -> option piece := cell_of b.

Section One.
Variables (s t : N) (k : kind) (ic ie : bool) (pr epo : N).
Hypothesis M : mfacts b s t k ic ie pr epo.

Let pl : piece := placed_of c k pr.
Let F : N -> option piece := newcells c f s t pl ie ic.

Lemma nd_src : f s = Some (c, k).
Proof. exact (mf_src _ _ _ _ _ _ _ _ M). Qed.

Lemma nd_st : s <> t.
Proof. intros E. apply (mf_notown _ _ _ _ _ _ _ _ M k). rewrite <- E. exact nd_src. Qed.

Lemma nd_pl_color : fst pl = c.
Proof. unfold pl, placed_of. now destruct (kind_of pr). Qed.

(* the piece standing on the target afterwards *)
Lemma nd_placed :
  (kind_of pr = None /\ pl = (c, k)) \/
  (exists kp, kind_of pr = Some kp /\ kp <> Pawn /\ k = Pawn /\ pl = (c, kp)).
Proof.
  unfold pl, placed_of. destruct (mf_pr _ _ _ _ _ _ _ _ M) as [E | (Ek & Hin)].
  - left. rewrite E. split; reflexivity.
  - right. destruct (promo_kind pr Hin) as (kp & Ekp & _ & _ & Hkp). exists kp. rewrite Ekp. repeat split; assumption.
Qed.

(* complete description of the new cell function *)
Lemma F_char x :
  (x = s /\ F x = None) \/
  (x = t /\ F x = Some pl) \/
  (ie = true /\ x <> s /\ x <> t /\ f x = Some (opp c, Pawn) /\ F x = None) \/
  (ic = true /\ k = King /\ x <> s /\ x <> t /\ f x = Some (c, Rook) /\ F x = None) \/
  (ic = true /\ k = King /\ x <> s /\ x <> t /\ f x = None /\ F x = Some (c, Rook)) \/
  (x <> s /\ x <> t /\ F x = f x).
Proof.
  pose proof nd_st as Hst. pose proof nd_src as Hsrc.
  unfold F, newcells. cbv zeta.
  destruct (bool_cases ic) as [Eic|Eic].
  - (* castling *)
    destruct (mf_castle _ _ _ _ _ _ _ _ M Eic) as (Eie & _ & Ek & _).
    destruct (shape_squares b Hwf Hrw s t k ic ie pr epo M Eic)
      as (rf & rt & Ecs & _ & _ & Hrf & Hrt & Hrft & Hrtt & Hrfs & Hrts & _).
    fold c in Hrf. fold f in Hrf, Hrt.
    assert (Hrr : rf <> rt) by (intros E; rewrite E, Hrt in Hrf; discriminate).
    rewrite Eic, Eie, Ecs.
    destruct (N.eq_dec x rt) as [E1|E1].
    { subst x. right. right. right. right. left. rewrite upd_same. repeat split; assumption. }
    rewrite (upd_other _ rt _ x E1).
    destruct (N.eq_dec x rf) as [E2|E2].
    { subst x. right. right. right. left. rewrite upd_same. repeat split; assumption. }
    rewrite (upd_other _ rf _ x E2).
    destruct (N.eq_dec x t) as [E3|E3].
    { subst x. right. left. rewrite upd_same. split; reflexivity. }
    rewrite (upd_other _ t _ x E3).
    destruct (N.eq_dec x s) as [E4|E4].
    { subst x. left. rewrite upd_same. split; reflexivity. }
    rewrite (upd_other _ s _ x E4).
    right. right. right. right. right. repeat split; assumption.
  - rewrite Eic. destruct (bool_cases ie) as [Eie|Eie]; rewrite Eie.
    + (* en passant *)
      destruct (mf_ep _ _ _ _ _ _ _ _ M Eie) as (_ & _ & (Hte & Hv & _)). fold c in Hv. fold f in Hte, Hv.
      assert (Hvs : victim c t <> s).
      { intros E. rewrite E, Hsrc in Hv. injection Hv as Hc _. destruct c; discriminate. }
      assert (Hvt : victim c t <> t) by (intros E; rewrite E, Hte in Hv; discriminate).
      destruct (N.eq_dec x (victim c t)) as [E1|E1].
      { subst x. right. right. left. rewrite upd_same. repeat split; assumption. }
      rewrite (upd_other _ (victim c t) _ x E1).
      destruct (N.eq_dec x t) as [E3|E3].
      { subst x. right. left. rewrite upd_same. split; reflexivity. }
      rewrite (upd_other _ t _ x E3).
      destruct (N.eq_dec x s) as [E4|E4].
      { subst x. left. rewrite upd_same. split; reflexivity. }
      rewrite (upd_other _ s _ x E4).
      right. right. right. right. right. repeat split; assumption.
    + destruct (N.eq_dec x t) as [E3|E3].
      { subst x. right. left. rewrite upd_same. split; reflexivity. }
      rewrite (upd_other _ t _ x E3).
      destruct (N.eq_dec x s) as [E4|E4].
      { subst x. left. rewrite upd_same. split; reflexivity. }
      rewrite (upd_other _ s _ x E4).
      right. right. right. right. right. repeat split; assumption.
Qed.

Lemma F_at_s : F s = None.
Proof.
  pose proof nd_st as Hst.
  destruct (F_char s) as [(_ & H)|[(E & _)|[(_ & E & _)|[(_ & _ & E & _)|[(_ & _ & E & _)|(E & _)]]]]];
    [exact H|contradiction|now elim E|now elim E|now elim E|now elim E].
Qed.

Lemma F_at_t : F t = Some pl.
Proof.
  pose proof nd_st as Hst.
  destruct (F_char t) as [(E & _)|[(_ & H)|[(_ & _ & E & _)|[(_ & _ & _ & E & _)|[(_ & _ & _ & E & _)|(_ & E & _)]]]]];
    [now elim Hst|exact H|now elim E|now elim E|now elim E|now elim E].
Qed.

End One.

(* ================================================================== *)
(* 3. two moves with the same successor                                *)
(* ================================================================== *)
Section Two.
Variables (s1 t1 : N) (k1 : kind) (ic1 ie1 : bool) (pr1 epo1 : N).
Variables (s2 t2 : N) (k2 : kind) (ic2 ie2 : bool) (pr2 epo2 : N).
Hypothesis M1 : mfacts b s1 t1 k1 ic1 ie1 pr1 epo1.
Hypothesis M2 : mfacts b s2 t2 k2 ic2 ie2 pr2 epo2.

Let F1 : N -> option piece := newcells c f s1 t1 (placed_of c k1 pr1) ie1 ic1.
Let F2 : N -> option piece := newcells c f s2 t2 (placed_of c k2 pr2) ie2 ic2.

Hypothesis HF : forall x, F1 x = F2 x.

(* the source of move 1 is the source of move 2, unless move 2 castles with the rook on s1 *)
Lemma src_half s t k ic ie pr epo s' k' (G : N -> option piece) :
  mfacts b s t k ic ie pr epo ->
  (forall x, G x = newcells c f s t (placed_of c k pr) ie ic x) ->
  f s' = Some (c, k') -> G s' = None -> s' <> s -> k = King /\ k' = Rook.
Proof.
  intros M HG Hsrc' HG' Hne. rewrite HG in HG'.
  destruct (F_char s t k ic ie pr epo M s')
    as [(E & _)|[(_ & H)|[(_ & _ & _ & H & _)|[(_ & Ek & _ & _ & H & _)|[(_ & _ & _ & _ & H & _)|(_ & _ & H)]]]]].
  - contradiction.
  - rewrite H in HG'. discriminate.
  - rewrite Hsrc' in H. injection H as Hc _. exfalso. fold c in Hc. destruct c; discriminate.
  - rewrite Hsrc' in H. injection H as ->. split; [exact Ek|reflexivity].
  - rewrite Hsrc' in H. discriminate.
  - rewrite H, Hsrc' in HG'. discriminate.
Qed.

Lemma same_src : s1 = s2.
Proof.
  destruct (N.eq_dec s1 s2) as [E|Hne]; [exact E|exfalso].
  pose proof (nd_src _ _ _ _ _ _ _ M1) as Hs1. pose proof (nd_src _ _ _ _ _ _ _ M2) as Hs2.
  pose proof (F_at_s _ _ _ _ _ _ _ M1) as A1. pose proof (F_at_s _ _ _ _ _ _ _ M2) as A2.
  fold c f in Hs1, Hs2, A1, A2.
  assert (B1 : F2 s1 = None) by (rewrite <- HF; exact A1).
  assert (B2 : F1 s2 = None) by (rewrite HF; exact A2).
  destruct (src_half s2 t2 k2 ic2 ie2 pr2 epo2 s1 k1 F2 M2 (fun x => eq_refl) Hs1 B1 Hne) as [X1 X2].
  destruct (src_half s1 t1 k1 ic1 ie1 pr1 epo1 s2 k2 F1 M1 (fun x => eq_refl) Hs2 B2 (fun E => Hne (eq_sym E))) as [Y1 Y2].
  rewrite X2 in Y1. discriminate.
Qed.

Lemma same_kind : k1 = k2.
Proof.
  pose proof (nd_src _ _ _ _ _ _ _ M1) as Hs1. pose proof (nd_src _ _ _ _ _ _ _ M2) as Hs2.
  rewrite same_src, Hs2 in Hs1. now injection Hs1.
Qed.

(* the target of move 1 is the target of move 2 *)
Lemma dst_half s t k ic ie pr epo t' pr' epo' ic' ie' (G : N -> option piece) :
  mfacts b s t k ic ie pr epo -> mfacts b s t' k ic' ie' pr' epo' ->
  (forall x, G x = newcells c f s t (placed_of c k pr) ie ic x) ->
  G t' = Some (placed_of c k pr') -> t' = t.
Proof.
  intros M M' HG HG'. destruct (N.eq_dec t' t) as [E|Hne]; [exact E|exfalso]. rewrite HG in HG'.
  pose proof (nd_pl_color k pr') as Hcol. cbv zeta in Hcol.
  destruct (F_char s t k ic ie pr epo M t')
    as [(E & _)|[(E & _)|[(_ & _ & _ & _ & H)|[(_ & _ & _ & _ & _ & H)|[(_ & Ek & _ & _ & _ & H)|(_ & _ & H)]]]]].
  - exact (nd_st _ _ _ _ _ _ _ M' (eq_sym E)).
  - contradiction.
  - rewrite H in HG'. discriminate.
  - rewrite H in HG'. discriminate.
  - rewrite H in HG'. injection HG' as Epl.
    destruct (nd_placed _ _ _ _ _ _ _ M') as [(_ & E)|(kp & _ & _ & E & _)].
    + cbv zeta in E. rewrite E in Epl. injection Epl as Epl. rewrite Ek in Epl. discriminate.
    + rewrite Ek in E. discriminate.
  - rewrite H in HG'. apply (mf_notown _ _ _ _ _ _ _ _ M' (snd (placed_of c k pr'))).
    fold c f. rewrite HG'. rewrite <- Hcol at 2. now destruct (placed_of c k pr').
Qed.

Lemma same_dst : t1 = t2.
Proof.
  pose proof same_src as Es. pose proof same_kind as Ek.
  pose proof (F_at_t _ _ _ _ _ _ _ M1) as A1. fold c f in A1.
  assert (B1 : F2 t1 = Some (placed_of c k1 pr1)) by (rewrite <- HF; exact A1).
  revert M1 M2 B1. unfold F2. rewrite Es, Ek. intros M1' M2' B1.
  exact (dst_half s2 t2 k2 ic2 ie2 pr2 epo2 t1 pr1 epo1 ic1 ie1 _ M2' M1' (fun x => eq_refl) B1).
Qed.

Lemma same_promo : kind_of pr1 = kind_of pr2.
Proof.
  pose proof same_kind as Ek. pose proof same_dst as Et.
  pose proof (F_at_t _ _ _ _ _ _ _ M1) as A1. pose proof (F_at_t _ _ _ _ _ _ _ M2) as A2. fold c f in A1, A2.
  assert (E : placed_of c k1 pr1 = placed_of c k2 pr2).
  { fold F1 in A1. fold F2 in A2. rewrite HF, Et, A2 in A1. now injection A1. }
  destruct (nd_placed _ _ _ _ _ _ _ M1) as [(P1 & Q1)|(kp1 & P1 & N1 & K1 & Q1)];
    destruct (nd_placed _ _ _ _ _ _ _ M2) as [(P2 & Q2)|(kp2 & P2 & N2 & K2 & Q2)];
    cbv zeta in Q1, Q2; fold c in Q1, Q2; rewrite Q1, Q2 in E; rewrite P1, P2.
  - reflexivity.
  - exfalso. injection E as E. rewrite Ek, K2 in E. now apply N2.
  - exfalso. injection E as E. rewrite <- Ek, K1 in E. apply N1. now symmetry.
  - injection E as ->. reflexivity.
Qed.

End Two.
End Cells.

(* ================================================================== *)
(* 4. the theorems                                                     *)
(* ================================================================== *)
Theorem make_inj_uci (T : Tables.t) : tables_attacks_ok T = true -> tables_castle_ok T = true -> tables_ranks_ok T = true ->
  forall b m1 m2 q, wf b = true -> rights_wf b = true -> ep_ok b -> is_valid T b = true ->
  In m1 (gen_pseudo T b) -> In m2 (gen_pseudo T b) -> make b m1 = Some q -> make b m2 = Some q -> uci_of m1 = uci_of m2.
Proof.
  intros OK HC HR b m1 m2 q Hwf Hrw Hep Hv Hin1 Hin2 Hm1 Hm2.
  apply gen_pseudo_cases in Hin1 as (s1 & t1 & pc1 & ic1 & ie1 & pr1 & epo1 & Hc1 & ->).
  apply gen_pseudo_cases in Hin2 as (s2 & t2 & pc2 & ic2 & ie2 & pr2 & epo2 & Hc2 & ->).
  destruct (gen_mfacts T OK HC HR b Hwf Hrw Hep Hv s1 t1 pc1 ic1 ie1 pr1 epo1 Hc1) as (k1 & -> & M1 & _).
  destruct (gen_mfacts T OK HC HR b Hwf Hrw Hep Hv s2 t2 pc2 ic2 ie2 pr2 epo2 Hc2) as (k2 & -> & M2 & _).
  destruct (core_exact T b Hwf Hrw s1 t1 k1 ic1 ie1 pr1 epo1 M1 q Hm1) as (_ & A1 & _).
  destruct (core_exact T b Hwf Hrw s2 t2 k2 ic2 ie2 pr2 epo2 M2 q Hm2) as (_ & A2 & _).
  assert (HF : forall x, newcells (col_of (turn b)) (cell_of b) s1 t1 (placed_of (col_of (turn b)) k1 pr1) ie1 ic1 x =
                         newcells (col_of (turn b)) (cell_of b) s2 t2 (placed_of (col_of (turn b)) k2 pr2) ie2 ic2 x).
  { intros x. rewrite <- (agrb_cell q _ x A1). exact (agrb_cell q _ x A2). }
  pose proof (same_src b Hwf Hrw _ _ _ _ _ _ _ _ _ _ _ _ _ _ M1 M2 HF) as Es.
  pose proof (same_dst b Hwf Hrw _ _ _ _ _ _ _ _ _ _ _ _ _ _ M1 M2 HF) as Et.
  pose proof (same_promo b Hwf Hrw _ _ _ _ _ _ _ _ _ _ _ _ _ _ M1 M2 HF) as Ep.
  change (uci_of (mk T b s1 t1 (kindN k1) ic1 ie1 pr1 epo1)) with (the_mv s1 t1 pr1).
  change (uci_of (mk T b s2 t2 (kindN k2) ic2 ie2 pr2 epo2)) with (the_mv s2 t2 pr2).
  unfold the_mv. rewrite Es, Et, Ep. reflexivity.
Qed.

Lemma movegen_ranks' T : tables_movegen_ok T = true -> tables_ranks_ok T = true.
Proof.
  intros H. destruct (tables_movegen_elim T H) as (H1 & H2 & H7 & H8 & _).
  unfold tables_ranks_ok. rewrite H1, H2, H7, H8. reflexivity.
Qed.

Theorem succs_NoDup_inv (T : Tables.t) : tables_attacks_ok T = true -> tables_movegen_ok T = true ->
  forall b, wf b = true -> rights_wf b = true -> ep_ok b -> is_valid T b = true -> NoDup (ChessGame.succs T b).
Proof.
  intros OK MK b Hwf Hrw Hep Hv. unfold ChessGame.succs.
  apply (children_NoDup T b uci_of).
  - exact (NoDup_pseudo T OK MK b Hwf Hrw).
  - intros m1 m2 q H1 H2 E1 E2.
    exact (make_inj_uci T OK (tables_movegen_castle T MK) (movegen_ranks' T MK) b m1 m2 q Hwf Hrw Hep Hv H1 H2 E1 E2).
Qed.

Theorem succs_NoDup_legal (T : Tables.t) : tables_attacks_ok T = true -> tables_movegen_ok T = true ->
  forall b, wf b = true -> legal_pos (abs b) = true -> NoDup (ChessGame.succs T b).
Proof.
  intros OK MK b Hwf Hl. apply (legal_pos_iff T OK b Hwf) in Hl as (Hrw & Hep & Hv).
  now apply succs_NoDup_inv.
Qed.


(* ================================================================== *)
(* Part 1b: the same at the level of the bitboards (no use of Spec/Rules.v), with NO hypothesis on the e.p. square and none
   on "the side not to move is not in check": two generated moves of one board that `make` to the same board have the same
   source square, target square and promotion piece.

   Method.  The effect of a move on the mover's six piece boards is described by two finite sets of (piece, square)
   pairs, the removed and the added ones ([delta]).  For a generated move ([ZobristProofs.gen_kind]) every removed pair
   is set and every added pair is clear in the mover's boards BEFORE the move, hence both sets can be read off from the
   boards before and after ([delta_rem], [delta_add]).  Two moves with the same successor therefore have the same sets,
   and the sets determine source, target and promotion piece ([shape_inj]). *)
Require Ink.Proofs.RepetitionInstance.
Require Import Ink.Proofs.Preserve Ink.Proofs.ZobristProofs.
Open Scope N_scope.

Arguments N.add : simpl never.
Arguments N.sub : simpl never.
Arguments N.mul : simpl never.
Arguments N.eqb : simpl never.
Arguments N.ltb : simpl never.
Arguments N.leb : simpl never.
Arguments N.lor : simpl never.
Arguments N.land : simpl never.
Arguments N.ldiff : simpl never.
Arguments N.shiftl : simpl never.
Arguments N.shiftr : simpl never.
Arguments N.testbit : simpl never.

(* ================================================================== *)
(* 1. finite sets of (piece, square) pairs and the effect of a move    *)
(* ================================================================== *)
Definition memb (k sq : N) (l : list (N * N)) : bool :=
  existsb (fun x => (k =? fst x) && (sq =? snd x)) l.

Definition delta (A A' : pstate) (rem add : list (N * N)) : Prop :=
  forall k sq, N.testbit (occ_of A' k) sq = (N.testbit (occ_of A k) sq && negb (memb k sq rem)) || memb k sq add.

Definition all_set (A : pstate) (l : list (N * N)) : Prop :=
  forall k sq, memb k sq l = true -> N.testbit (occ_of A k) sq = true.
Definition all_clear (A : pstate) (l : list (N * N)) : Prop :=
  forall k sq, memb k sq l = true -> N.testbit (occ_of A k) sq = false.

Lemma memb_one k sq p s : memb k sq [(p, s)] = (k =? p) && (sq =? s).
Proof. unfold memb. cbn [existsb fst snd]. apply orb_false_r. Qed.

Lemma memb_two k sq p s p' s' : memb k sq [(p, s); (p', s')] = ((k =? p) && (sq =? s)) || ((k =? p') && (sq =? s')).
Proof. unfold memb. cbn [existsb fst snd]. now rewrite orb_false_r. Qed.

Lemma memb_one_true k sq p s : memb k sq [(p, s)] = true -> k = p /\ sq = s.
Proof. rewrite memb_one. intros H. apply andb_true_iff in H as [H1 H2]. split; now apply N.eqb_eq. Qed.

Lemma memb_one_refl p s : memb p s [(p, s)] = true.
Proof. rewrite memb_one, !N.eqb_refl. reflexivity. Qed.

Lemma all_set_one A p s : N.testbit (occ_of A p) s = true -> all_set A [(p, s)].
Proof. intros H k sq Hm. apply memb_one_true in Hm as [-> ->]. exact H. Qed.

Lemma all_clear_one A p s : N.testbit (occ_of A p) s = false -> all_clear A [(p, s)].
Proof. intros H k sq Hm. apply memb_one_true in Hm as [-> ->]. exact H. Qed.

Lemma memb_two_true k sq p s p' s' : memb k sq [(p, s); (p', s')] = true -> (k = p /\ sq = s) \/ (k = p' /\ sq = s').
Proof.
  rewrite memb_two. intros H. apply orb_true_iff in H as [H|H]; apply andb_true_iff in H as [H1 H2];
    apply N.eqb_eq in H1; apply N.eqb_eq in H2; tauto.
Qed.

Lemma all_set_two A p s p' s' :
  N.testbit (occ_of A p) s = true -> N.testbit (occ_of A p') s' = true -> all_set A [(p, s); (p', s')].
Proof. intros H H' k sq Hm. apply memb_two_true in Hm as [[-> ->]|[-> ->]]; assumption. Qed.

Lemma all_clear_two A p s p' s' :
  N.testbit (occ_of A p) s = false -> N.testbit (occ_of A p') s' = false -> all_clear A [(p, s); (p', s')].
Proof. intros H H' k sq Hm. apply memb_two_true in Hm as [[-> ->]|[-> ->]]; assumption. Qed.

(* Step 2: the two sets are determined by the boards before and after *)
Lemma delta_rem A A' rem add : delta A A' rem add -> all_set A rem -> all_clear A add ->
  forall k sq, memb k sq rem = N.testbit (occ_of A k) sq && negb (N.testbit (occ_of A' k) sq).
Proof.
  intros D Hs Hc k sq. rewrite (D k sq).
  destruct (memb k sq rem) eqn:Er.
  - rewrite (Hs k sq Er). cbn [andb negb orb].
    destruct (memb k sq add) eqn:Ea; [|reflexivity].
    pose proof (Hc k sq Ea) as Hx. rewrite (Hs k sq Er) in Hx. discriminate Hx.
  - cbn [negb]. rewrite andb_true_r.
    destruct (N.testbit (occ_of A k) sq); reflexivity.
Qed.

Lemma delta_add A A' rem add : delta A A' rem add -> all_set A rem -> all_clear A add ->
  forall k sq, memb k sq add = negb (N.testbit (occ_of A k) sq) && N.testbit (occ_of A' k) sq.
Proof.
  intros D Hs Hc k sq. rewrite (D k sq).
  destruct (memb k sq add) eqn:Ea.
  - rewrite (Hc k sq Ea). reflexivity.
  - rewrite orb_false_r. destruct (N.testbit (occ_of A k) sq); reflexivity.
Qed.

(* ================================================================== *)
(* 2. the effect of the four kinds of generated move                   *)
(* ================================================================== *)
Definition side_of (wt : bool) (q : board) : pstate := if wt then white q else black q.

Lemma side_of_assemble wt a p t e f h : side_of wt (assemble wt a p t e f h) = a.
Proof. destruct wt; reflexivity. Qed.

Lemma make_side b m q : make b m = Some q ->
  exists p, sides_make (is_white_turn b) (active b) (passive b) m = Some (side_of (is_white_turn b) q, p).
Proof.
  rewrite make_split. destruct (sides_make (is_white_turn b) (active b) (passive b) m) as [[a p]|]; [|discriminate].
  intros H. injection H as <-. exists p. now rewrite side_of_assemble.
Qed.

Lemma tb_do_castle A rf kf rt kt k sq :
  N.testbit (occ_of (do_castle A rf kf rt kt) k) sq =
  (N.testbit (occ_of A k) sq && negb ((k =? ROOK) && (sq =? rf)) && negb ((k =? KING) && (sq =? kf)))
  || ((k =? ROOK) && (sq =? rt)) || ((k =? KING) && (sq =? kt)).
Proof.
  unfold do_castle. now rewrite (tb_or _ _ _ _ _ piece_ok_KING), (tb_or _ _ _ _ _ piece_ok_ROOK), !tb_clr, !bit_spec.
Qed.

Lemma piece_ok_of_range p : 1 <= p <= 6 -> piece_ok p.
Proof.
  intros H. unfold piece_ok. cbn [In].
  assert (E : p = 1 \/ p = 2 \/ p = 3 \/ p = 4 \/ p = 5 \/ p = 6) by lia. intuition.
Qed.

(* piece moved to an empty-of-own square: ordinary move *)
Lemma delta_ordinary wt A P m a p :
  castle m = false -> ep_attack m = false -> promo m = NO_PIECE -> piece_ok (piece_moved m) ->
  sides_make wt A P m = Some (a, p) ->
  delta A a [(piece_moved m, src m)] [(piece_moved m, dst m)].
Proof.
  intros Hc He Hp Hk Hm. unfold sides_make in Hm. rewrite Hc, He, Hp in Hm.
  change (negb (NO_PIECE =? NO_PIECE)) with false in Hm. cbv iota zeta in Hm. injection Hm as <- _.
  intros k sq. rewrite (tb_or _ _ _ _ _ Hk), tb_clr, tb_rights, !bit_spec, !memb_one. reflexivity.
Qed.

Lemma delta_promotion wt A P m a p :
  castle m = false -> ep_attack m = false -> promo m <> NO_PIECE -> piece_ok (promo m) ->
  sides_make wt A P m = Some (a, p) ->
  delta A a [(PAWN, src m)] [(promo m, dst m)].
Proof.
  intros Hc He Hp Hk Hm. unfold sides_make in Hm. rewrite Hc, He in Hm.
  apply N.eqb_neq in Hp. rewrite Hp in Hm. cbn [negb] in Hm. cbv iota zeta in Hm. injection Hm as <- _.
  intros k sq. rewrite (tb_or _ _ _ _ _ Hk), tb_clr, tb_rights, !bit_spec, !memb_one. reflexivity.
Qed.

Lemma delta_enpassant wt A P m a p :
  castle m = false -> ep_attack m = true ->
  sides_make wt A P m = Some (a, p) ->
  delta A a [(PAWN, src m)] [(PAWN, dst m)].
Proof.
  intros Hc He Hm. unfold sides_make in Hm. rewrite Hc, He in Hm. cbv iota zeta in Hm. injection Hm as <- _.
  intros k sq. rewrite (tb_or _ _ _ _ _ piece_ok_PAWN), tb_clr, tb_rights, !bit_spec, !memb_one. reflexivity.
Qed.

Lemma delta_castling wt A P m a p rf rt :
  castle m = true -> castle_squares (dst m) = Some (rf, rt) ->
  sides_make wt A P m = Some (a, p) ->
  delta A a [(ROOK, rf); (KING, src m)] [(ROOK, rt); (KING, dst m)].
Proof.
  intros Hc Hsq Hm. unfold sides_make in Hm. rewrite Hc, Hsq in Hm. cbv iota zeta in Hm. injection Hm as <- _.
  intros k sq. rewrite tb_do_castle, tb_rights, !memb_two.
  destruct (N.testbit (occ_of A k) sq), (k =? ROOK), (k =? KING), (sq =? rf), (sq =? src m), (sq =? rt), (sq =? dst m);
    reflexivity.
Qed.

(* ================================================================== *)
(* 3. the shape of the two sets, and injectivity                       *)
(* ================================================================== *)
(* what the removed / added sets of a generated move look like, in terms of the three fields of interest *)
Definition shape (m : move) (rem add : list (N * N)) : Prop :=
  (exists p p', rem = [(p, src m)] /\ add = [(p', dst m)] /\
     ((p = p' /\ promo m = NO_PIECE) \/ (p = PAWN /\ p' = promo m /\ 2 <= promo m <= 5)))
  \/ (exists rf rt, rem = [(ROOK, rf); (KING, src m)] /\ add = [(ROOK, rt); (KING, dst m)] /\ promo m = NO_PIECE).

Definition effect (b : board) (m : move) (q : board) : Prop :=
  exists rem add, delta (active b) (side_of (is_white_turn b) q) rem add /\
                  all_set (active b) rem /\ all_clear (active b) add /\ shape m rem add.

Lemma gen_kind_effect T b m q : gen_kind T b m -> make b m = Some q -> effect b m q.
Proof.
  intros G Hmk. apply make_side in Hmk as [pp Hsm]. unfold effect.
  destruct G as [s t p epo -> Hp Hs Ht | s t pr -> Hpr Hs Ht | s -> Hne Hs Ht | s t rf rt -> Hin Hrf Hks Hrt Hkt].
  - (* ordinary *)
    exists [(p, s)], [(p, t)]. split; [|split; [|split]].
    + apply (delta_ordinary _ _ _ (mk_move T b s t p false false NO_PIECE epo) _ _ eq_refl eq_refl eq_refl
               (piece_ok_of_range p Hp) Hsm).
    + now apply all_set_one.
    + apply all_clear_one. now apply full_occ_false.
    + left. exists p, p. repeat split. left. split; reflexivity.
  - (* promotion *)
    assert (Hok : piece_ok pr) by (apply piece_ok_of_range; lia).
    assert (Hnz : pr <> NO_PIECE) by (unfold NO_PIECE; lia).
    exists [(PAWN, s)], [(pr, t)]. split; [|split; [|split]].
    + apply (delta_promotion _ _ _ (mk_move T b s t PAWN false false pr NO_SQUARE) _ _ eq_refl eq_refl Hnz Hok Hsm).
    + apply all_set_one. exact Hs.
    + apply all_clear_one. now apply full_occ_false.
    + left. exists PAWN, pr. repeat split. right. repeat split; (reflexivity || apply Hpr).
  - (* e.p. *)
    exists [(PAWN, s)], [(PAWN, ep b)]. split; [|split; [|split]].
    + apply (delta_enpassant _ _ _ (mk_move T b s (ep b) PAWN false true NO_PIECE NO_SQUARE) _ _ eq_refl eq_refl Hsm).
    + apply all_set_one. exact Hs.
    + apply all_clear_one. now apply full_occ_false.
    + left. exists PAWN, PAWN. repeat split. left. split; reflexivity.
  - (* castling *)
    exists [(ROOK, rf); (KING, s)], [(ROOK, rt); (KING, t)]. split; [|split; [|split]].
    + apply (delta_castling (is_white_turn b) (active b) (passive b) (mk_move T b s t KING true false NO_PIECE NO_SQUARE)
               _ pp rf rt eq_refl); [|exact Hsm].
      change (dst (mk_move T b s t KING true false NO_PIECE NO_SQUARE)) with t.
      cbn [In] in Hin. destruct Hin as [E|[E|[E|[E|[]]]]]; injection E as _ _ <- <- <-; reflexivity.
    + apply all_set_two; assumption.
    + apply all_clear_two; assumption.
    + right. exists rf, rt. repeat split.
Qed.

(* a one-pair set is never a castling set *)
Lemma one_not_castle p s rf ks :
  (forall k sq, memb k sq [(p, s)] = memb k sq [(ROOK, rf); (KING, ks)]) -> False.
Proof.
  intros H.
  pose proof (H ROOK rf) as H1. pose proof (H KING ks) as H2.
  rewrite memb_one, memb_two, !N.eqb_refl in H1, H2. cbn [andb orb] in H1. rewrite orb_true_r in H2.
  apply andb_true_iff in H1 as [H1 _]. apply andb_true_iff in H2 as [H2 _].
  apply N.eqb_eq in H1. apply N.eqb_eq in H2. rewrite <- H1 in H2. discriminate H2.
Qed.

Lemma one_one p s p' s' :
  (forall k sq, memb k sq [(p, s)] = memb k sq [(p', s')]) -> p = p' /\ s = s'.
Proof.
  intros H. pose proof (H p s) as H1. rewrite memb_one_refl in H1. symmetry in H1. now apply memb_one_true in H1.
Qed.

Lemma shape_inj m1 m2 rem1 add1 rem2 add2 :
  shape m1 rem1 add1 -> shape m2 rem2 add2 ->
  (forall k sq, memb k sq rem1 = memb k sq rem2) -> (forall k sq, memb k sq add1 = memb k sq add2) ->
  src m1 = src m2 /\ dst m1 = dst m2 /\ promo m1 = promo m2.
Proof.
  intros S1 S2 Hr Ha.
  destruct S1 as [(p1 & p1' & -> & -> & C1)|(rf1 & rt1 & -> & -> & Q1)];
  destruct S2 as [(p2 & p2' & -> & -> & C2)|(rf2 & rt2 & -> & -> & Q2)].
  - (* simple / simple *)
    apply one_one in Hr as [Ep Es]. apply one_one in Ha as [Ep' Et].
    split; [exact Es|]. split; [exact Et|].
    destruct C1 as [[E1 Z1]|(E1 & E1' & R1)]; destruct C2 as [[E2 Z2]|(E2 & E2' & R2)].
    + now rewrite Z1, Z2.
    + exfalso. subst. rewrite <- Ep' in R2. unfold PAWN in R2. lia.
    + exfalso. subst. rewrite Ep' in R1. unfold PAWN in R1. lia.
    + now rewrite <- E1', <- E2'.
  - exfalso. exact (one_not_castle _ _ _ _ Hr).
  - exfalso. apply (one_not_castle p2 (src m2) rf1 (src m1)). intros k sq. symmetry. apply Hr.
  - (* castling / castling: the king pairs *)
    assert (K : forall s rf rf' s', (forall k sq, memb k sq [(ROOK, rf); (KING, s)] = memb k sq [(ROOK, rf'); (KING, s')]) ->
                                    s = s').
    { intros s rf rf' s' H. pose proof (H KING s) as H1. rewrite !memb_two, !N.eqb_refl in H1.
      change (KING =? ROOK) with false in H1. cbn [andb orb] in H1. symmetry in H1. now apply N.eqb_eq in H1. }
    split; [exact (K _ _ _ _ Hr)|]. split; [exact (K _ _ _ _ Ha)|]. now rewrite Q1, Q2.
Qed.

(* ================================================================== *)
(* 4. the theorems                                                     *)
(* ================================================================== *)
Lemma effect_inj b m1 m2 q : effect b m1 q -> effect b m2 q ->
  src m1 = src m2 /\ dst m1 = dst m2 /\ promo m1 = promo m2.
Proof.
  intros (rem1 & add1 & D1 & S1 & C1 & Sh1) (rem2 & add2 & D2 & S2 & C2 & Sh2).
  apply (shape_inj m1 m2 rem1 add1 rem2 add2 Sh1 Sh2).
  - intros k sq. rewrite (delta_rem _ _ _ _ D1 S1 C1 k sq). symmetry. exact (delta_rem _ _ _ _ D2 S2 C2 k sq).
  - intros k sq. rewrite (delta_add _ _ _ _ D1 S1 C1 k sq). symmetry. exact (delta_add _ _ _ _ D2 S2 C2 k sq).
Qed.

Theorem make_inj_fields (T : Tables.t) : ZobristProofs.gen_masks_ok T = true ->
  forall b m1 m2 q, wf b = true -> ZobristProofs.castle_wf b = true ->
  In m1 (gen_pseudo T b) -> In m2 (gen_pseudo T b) -> make b m1 = Some q -> make b m2 = Some q ->
  src m1 = src m2 /\ dst m1 = dst m2 /\ promo m1 = promo m2.
Proof.
  intros HM b m1 m2 q Hwf Hcw H1 H2 E1 E2.
  apply (effect_inj b m1 m2 q).
  - exact (gen_kind_effect T b m1 q (gen_pseudo_kind T b m1 Hwf Hcw HM H1) E1).
  - exact (gen_kind_effect T b m2 q (gen_pseudo_kind T b m2 Hwf Hcw HM H2) E2).
Qed.

Theorem make_inj_uci_model (T : Tables.t) : ZobristProofs.gen_masks_ok T = true ->
  forall b m1 m2 q, wf b = true -> ZobristProofs.castle_wf b = true ->
  In m1 (gen_pseudo T b) -> In m2 (gen_pseudo T b) -> make b m1 = Some q -> make b m2 = Some q ->
  Abs.uci_of m1 = Abs.uci_of m2.
Proof.
  intros HM b m1 m2 q Hwf Hcw H1 H2 E1 E2.
  destruct (make_inj_fields T HM b m1 m2 q Hwf Hcw H1 H2 E1 E2) as (Es & Et & Ep).
  unfold Abs.uci_of. now rewrite Es, Et, Ep.
Qed.

Theorem succs_NoDup_model (T : Tables.t) : AttackProofs.tables_attacks_ok T = true -> MoveGenProofs.tables_movegen_ok T = true ->
  ZobristProofs.gen_masks_ok T = true ->
  forall b, wf b = true -> MakeUnmake.rights_wf b = true -> NoDup (ChessGame.succs T b).
Proof.
  intros OK MK HM b Hwf Hrw. unfold ChessGame.succs.
  apply (children_NoDup T b Abs.uci_of).
  - exact (MoveGenProofs.NoDup_pseudo T OK MK b Hwf Hrw).
  - intros m1 m2 q H1 H2 E1 E2.
    exact (make_inj_uci_model T HM b m1 m2 q Hwf (RepetitionInstance.rights_wf_castle_wf b Hrw) H1 H2 E1 E2).
Qed.


(* ================================================================== *)
(* Part 4: ND for every family of sane boards; the chess instance; the closed theorems                              *)
Require Import Ink.Proofs.ChessInstance Ink.Proofs.RepetitionInstance Ink.Proofs.C08Chess.
Require Ink.Gen.Tables Ink.Gen.SweepAll.
Open Scope N_scope.

(* rights_wf (MakeUnmake) and castle_wf (ZobristProofs) are the same condition written twice: the converse of
   RepetitionInstance.rights_wf_castle_wf *)
Lemma impl_forms_conv x r k : implb x (k && r) = true -> negb x || (r && k) = true.
Proof. destruct x, r, k; cbn; auto. Qed.

Lemma castle_wf_rights_wf b : ZobristProofs.castle_wf b = true -> rights_wf b = true.
Proof.
  unfold rights_wf, ZobristProofs.castle_wf. rewrite !andb_true_iff. intros (((H1 & H2) & H3) & H4).
  repeat split; now apply impl_forms_conv.
Qed.

(* ND (Proofs/SearchRefine.v) for any family of sane boards (wf, castle_wf, ep_wf): no condition on the e.p. square is used *)
Theorem ND_of_sane (T : Tables.t) (good : nat -> board -> Prop) :
  tables_attacks_ok T = true -> tables_movegen_ok T = true -> ZobristProofs.gen_masks_ok T = true ->
  (forall n b, good n b -> sane b = true) -> ND T good.
Proof.
  intros OK MK HM H n b Hg. destruct (sane_elim b (H n b Hg)) as (Hwf & Hcw & _).
  exact (succs_NoDup_model T OK MK HM b Hwf (castle_wf_rights_wf b Hcw)).
Qed.

(* ND for any family of well-formed boards that are legal positions of the rules (the route through Spec/Rules.v) *)
Theorem ND_of_legal (T : Tables.t) (good : nat -> board -> Prop) :
  tables_attacks_ok T = true -> tables_movegen_ok T = true ->
  (forall n b, good n b -> wf b = true /\ legal_pos (abs b) = true) -> ND T good.
Proof. intros OK MK H n b Hg. destruct (H n b Hg) as [Hwf Hl]. exact (succs_NoDup_legal T OK MK b Hwf Hl). Qed.

Lemma goodC_wf n b : goodC n b -> wf b = true.
Proof. intros ((Hwf & _) & _). exact Hwf. Qed.
Lemma goodC_full : forall n b, goodC n b -> 1 <= full b.
Proof. intros n b (_ & _ & Hf). exact Hf. Qed.

(* item 1, chess: distinct legal moves of a goodC board give distinct successors *)
Theorem ND_chess : ND GT goodC.
Proof. exact (ND_of_sane GT goodC Ink.Gen.SweepAll.tables_ok gen_tables_movegen_ok GT_masks goodC_sane). Qed.

Theorem succs_NoDup_chess : forall n b, goodC n b -> NoDup (ChessGame.succs GT b).
Proof. exact ND_chess. Qed.

Local Notation nmG := (Minimax.nm board (ChessGame.succs GT) (ChessGame.noisy_succs GT) (ChessGame.noisy_any GT) (static_sat GT)
                         (ChessGame.terminal GT) qmeasure).

(* item 2: `go depth dd` at every half-move clock *)
Theorem go_depth_closed_chess :
  forall orc, quiet orc ->
  forall sim : nat -> board -> board -> Prop,
  (forall r' r x y, sim r' x y -> (r <= r')%nat -> nmG r x = nmG r y) ->
  (forall r r' x y, (r <= r')%nat -> sim r' x y -> sim r x y) ->
  forall g st dd, g_depth g = Some dd -> plain_go g ->
  goodC (depth_of dd + 130) (s_board st) ->
  Minimax.ply_unique board (ChessGame.succs GT) (zobrist_hash GT) sim (depth_of dd) (s_board st) ->
  history_fresh GT (s_history st) (depth_of dd) (s_board st) ->
  root_empty GT (s_board st) = false -> full (s_board st) + N.of_nat (depth_of dd) < 16777216 ->
  Forall (fun it => exists d, (S d <= depth_of dd)%nat /\ exact_rec GT (static_sat GT) (s_board st) d it)
         (fst (go_full GT orc g st)) /\
  (ChessGame.succs GT (s_board st) <> [] ->
   exists it rest, fst (go_full GT orc g st) = it :: rest /\
                   exact_rec GT (static_sat GT) (s_board st) (pred (depth_of dd)) it).
Proof.
  intros orc Hq sim S1 S2 g st dd Hd Hp Hg HU HFr Hre Hf.
  exact (go_depth_closedH GT GT_masks goodC 129 goodC_family goodC_sane goodC_full GT_rows GT_win goodC_static orc Hq sim S1 S2
           g st dd Hd (or_intror ND_chess) Hp Hg HU HFr Hre (goodC_inb _ _ _ Hg Hf)).
Qed.

(* the same for the state the model is in after `position fen X` (no move list): the premise on the history becomes
   "no key of the tree below X is 0" *)
Theorem go_depth_after_position_fen :
  forall orc, quiet orc ->
  forall sim : nat -> board -> board -> Prop,
  (forall r' r x y, sim r' x y -> (r <= r')%nat -> nmG r x = nmG r y) ->
  (forall r r' x y, (r <= r')%nat -> sim r' x y -> sim r x y) ->
  forall g f st0 dd, g_depth g = Some dd -> plain_go g ->
  let root := board_of_fen f in
  let st := set_position_from GT f [] st0 in
  goodC (depth_of dd + 130) root ->
  Minimax.ply_unique board (ChessGame.succs GT) (zobrist_hash GT) sim (depth_of dd) root ->
  (forall i y, (1 <= i <= depth_of dd)%nat -> Minimax.at_ply board (ChessGame.succs GT) root i y -> zobrist_hash GT y <> 0) ->
  root_empty GT root = false -> full root + N.of_nat (depth_of dd) < 16777216 ->
  Forall (fun it => exists d, (S d <= depth_of dd)%nat /\ exact_rec GT (static_sat GT) root d it)
         (fst (go_full GT orc g st)) /\
  (ChessGame.succs GT root <> [] ->
   exists it rest, fst (go_full GT orc g st) = it :: rest /\
                   exact_rec GT (static_sat GT) root (pred (depth_of dd)) it).
Proof.
  intros orc Hq sim S1 S2 g f st0 dd Hd Hp root st Hg HU Hnz Hre Hf.
  destruct (position_fen_state GT f st0) as [Eb Eh]. fold st in Eb, Eh. fold root in Eb, Eh.
  rewrite <- Eb in *.
  apply (go_depth_closed_chess orc Hq sim S1 S2 g st dd Hd Hp Hg HU); [|exact Hre|exact Hf].
  rewrite Eh. rewrite Eb. rewrite Eb in HU, Hnz. exact (history_fresh_single GT sim (depth_of dd) root HU Hnz).
Qed.

(* item 3: what the engine prints.  With a legal move at the root, the last `info` line of the go reports depth D and
   the score of the exact value nm D root, and `bestmove` is a move attaining it *)
Theorem reported_score_exact_chess :
  forall orc, quiet orc ->
  forall sim : nat -> board -> board -> Prop,
  (forall r' r x y, sim r' x y -> (r <= r')%nat -> nmG r x = nmG r y) ->
  (forall r r' x y, (r <= r')%nat -> sim r' x y -> sim r x y) ->
  forall g st dd, g_depth g = Some dd -> plain_go g ->
  goodC (depth_of dd + 130) (s_board st) ->
  Minimax.ply_unique board (ChessGame.succs GT) (zobrist_hash GT) sim (depth_of dd) (s_board st) ->
  history_fresh GT (s_history st) (depth_of dd) (s_board st) ->
  full (s_board st) + N.of_nat (depth_of dd) < 16777216 ->
  ChessGame.succs GT (s_board st) <> [] ->
  exists infos i ponder m q,
    go_msgs GT orc g st = infos ++ [OInfo i; OBestmove (Some (uci_of_move m)) ponder] /\
    forallb is_info infos = true /\
    i_depth i = Some (N.of_nat (depth_of dd)) /\
    i_score i = Some (score_from_value GT (nmG (depth_of dd) (s_board st)) (s_board st)) /\
    (exists pv, i_pv i = Some (uci_of_move m :: pv) /\ ponder = nth_error pv 0) /\
    make (s_board st) m = Some q /\ In q (ChessGame.succs GT (s_board st)) /\
    (- nmG (pred (depth_of dd)) q)%Z = nmG (depth_of dd) (s_board st).
Proof.
  intros orc Hq sim S1 S2 g st dd Hd Hp Hg HU HFr Hf Hne.
  assert (Hre : root_empty GT (s_board st) = false).
  { unfold SearchRefine.root_empty. destruct (gen_pseudo GT (s_board st)) as [|m0 r0] eqn:E; [|reflexivity].
    exfalso. apply Hne. unfold ChessGame.succs. rewrite E. reflexivity. }
  destruct (go_depth_closed_chess orc Hq sim S1 S2 g st dd Hd Hp Hg HU HFr Hre Hf) as [_ Hex].
  destruct (Hex Hne) as (it & rest & Elog & (Hdep & Hval & Hmv)).
  destruct (Hmv Hne) as (Hab & m & q & Em & Hmk & Hqin & Hbest).
  assert (Hpos : (1 <= depth_of dd)%nat) by (unfold depth_of; lia).
  assert (ED : S (pred (depth_of dd)) = depth_of dd) by lia. rewrite ED in Hdep, Hval, Hbest.
  destruct (go_last_report GT orc g st it rest Elog Hab) as (infos & i & ponder & Hmsg & Hinf & Hd' & Hs & Hpv & Hpo).
  assert (Hb : s_board (snd (go_full GT orc g st)) = s_board st).
  { exact (C09_go_depth_board_thm GT goodC 129 goodC_family orc g st dd Hd Hg). }
  rewrite Hb, Hval in Hs. rewrite Em in Hmsg. cbn [option_map] in Hmsg.
  exists infos, i, ponder, m, q.
  split; [exact Hmsg|]. split; [exact Hinf|]. split; [rewrite Hd', Hdep; reflexivity|]. split; [exact Hs|].
  split.
  { destruct (calc_pv_head (it_result it) m Em) as (r & Er). rewrite Er in Hpv, Hpo. cbn [map] in Hpv, Hpo.
    exists (map uci_of_move r). split; [exact Hpv|]. rewrite Hpo. reflexivity. }
  split; [exact Hmk|]. split; [exact Hqin|exact Hbest].
Qed.

Theorem reported_score_after_position_fen :
  forall orc, quiet orc ->
  forall sim : nat -> board -> board -> Prop,
  (forall r' r x y, sim r' x y -> (r <= r')%nat -> nmG r x = nmG r y) ->
  (forall r r' x y, (r <= r')%nat -> sim r' x y -> sim r x y) ->
  forall g f st0 dd, g_depth g = Some dd -> plain_go g ->
  let root := board_of_fen f in
  let st := set_position_from GT f [] st0 in
  goodC (depth_of dd + 130) root ->
  Minimax.ply_unique board (ChessGame.succs GT) (zobrist_hash GT) sim (depth_of dd) root ->
  (forall i y, (1 <= i <= depth_of dd)%nat -> Minimax.at_ply board (ChessGame.succs GT) root i y -> zobrist_hash GT y <> 0) ->
  full root + N.of_nat (depth_of dd) < 16777216 ->
  ChessGame.succs GT root <> [] ->
  exists infos i ponder m q,
    go_msgs GT orc g st = infos ++ [OInfo i; OBestmove (Some (uci_of_move m)) ponder] /\
    forallb is_info infos = true /\
    i_depth i = Some (N.of_nat (depth_of dd)) /\
    i_score i = Some (score_from_value GT (nmG (depth_of dd) root) root) /\
    (exists pv, i_pv i = Some (uci_of_move m :: pv) /\ ponder = nth_error pv 0) /\
    make root m = Some q /\ In q (ChessGame.succs GT root) /\
    (- nmG (pred (depth_of dd)) q)%Z = nmG (depth_of dd) root.
Proof.
  intros orc Hq sim S1 S2 g f st0 dd Hd Hp root st Hg HU Hnz Hf Hne.
  destruct (position_fen_state GT f st0) as [Eb Eh]. fold st in Eb, Eh. fold root in Eb, Eh.
  rewrite <- Eb in *.
  apply (reported_score_exact_chess orc Hq sim S1 S2 g st dd Hd Hp Hg HU); [|exact Hf|exact Hne].
  rewrite Eh. rewrite Eb. rewrite Eb in HU, Hnz. exact (history_fresh_single GT sim (depth_of dd) root HU Hnz).
Qed.

(* ---- the general-T closed form with ND discharged: any table set that passes the regenerated obligations, any C03
   family of sane boards ---- *)
Theorem go_depth_closed_tables (T : Tables.t) (good : nat -> board -> Prop) (Q : nat) :
  tables_attacks_ok T = true -> tables_movegen_ok T = true ->
  ZobristProofs.gen_masks_ok T = true -> ZobristProofs.keys_rows_ok T = true -> (0 < win_score T)%Z ->
  C03_family T good Q ->
  (forall n b, good n b -> sane b = true) -> (forall n b, good n b -> 1 <= full b) ->
  (forall n b, good n b -> (- win_score T < ChessGame.static T b < win_score T)%Z) ->
  forall orc, quiet orc ->
  forall sim : nat -> board -> board -> Prop,
  (forall r' r x y, sim r' x y -> (r <= r')%nat ->
     Minimax.nm board (ChessGame.succs T) (ChessGame.noisy_succs T) (ChessGame.noisy_any T) (static_sat T) (ChessGame.terminal T) qmeasure r x =
     Minimax.nm board (ChessGame.succs T) (ChessGame.noisy_succs T) (ChessGame.noisy_any T) (static_sat T) (ChessGame.terminal T) qmeasure r y) ->
  (forall r r' x y, (r <= r')%nat -> sim r' x y -> sim r x y) ->
  forall g st dd, g_depth g = Some dd -> plain_go g ->
  good (depth_of dd + S Q)%nat (s_board st) ->
  Minimax.ply_unique board (ChessGame.succs T) (zobrist_hash T) sim (depth_of dd) (s_board st) ->
  history_fresh T (s_history st) (depth_of dd) (s_board st) ->
  root_empty T (s_board st) = false -> inb T (depth_of dd) (s_board st) ->
  Forall (fun it => exists d, (S d <= depth_of dd)%nat /\ exact_rec T (static_sat T) (s_board st) d it) (fst (go_full T orc g st)) /\
  (ChessGame.succs T (s_board st) <> [] ->
     exists it rest, fst (go_full T orc g st) = it :: rest /\ exact_rec T (static_sat T) (s_board st) (pred (depth_of dd)) it).
Proof.
  intros OK MK HT HK HW HF Hsane Hfull Hstatic orc Hq sim S1 S2 g st dd Hd Hp Hg HU HFr Hre Hinb.
  exact (go_depth_closedH T HT good Q HF Hsane Hfull HK HW Hstatic orc Hq sim S1 S2 g st dd Hd
           (or_intror (ND_of_sane T good OK MK HT Hsane)) Hp Hg HU HFr Hre Hinb).
Qed.

(* ================================================================== *)
(* Part 5: executable checkers for the two premises on keys (ply_unique with sim = equality; no key is 0), so that the
   hypotheses of the closed theorems can be discharged by computation on a concrete position                        *)
Section Checkers.
Variable T : Tables.t.
Local Notation succs := (ChessGame.succs T).
Local Notation at_ply := (Minimax.at_ply board succs).

Fixpoint level (i : nat) (root : board) : list board :=
  match i with O => [root] | S k => flat_map succs (level k root) end.

Lemma at_ply_level root i x : at_ply root i x -> In x (level i root).
Proof.
  induction 1 as [|i p q _ IH Hq]; cbn [level]; [now left|]. apply in_flat_map. exists p. split; assumption.
Qed.

(* (ply, key, position) for every position within D plies *)
Definition tree_nodes (D : nat) (root : board) : list (nat * N * board) :=
  flat_map (fun i => map (fun x => (i, zobrist_hash T x, x)) (level i root)) (seq 0 (S D)).

Lemma tree_nodes_in D root i x : (i <= D)%nat -> at_ply root i x -> In (i, zobrist_hash T x, x) (tree_nodes D root).
Proof.
  intros Hi Hx. unfold tree_nodes. apply in_flat_map. exists i. split; [apply in_seq; lia|].
  apply in_map_iff. exists x. split; [reflexivity|now apply at_ply_level].
Qed.

Definition board_eqb (x y : board) : bool := if board_eq_dec x y then true else false.

Definition ply_unique_check (D : nat) (root : board) : bool :=
  let ns := tree_nodes D root in
  forallb (fun a => forallb (fun b =>
     if snd (fst a) =? snd (fst b) then Nat.eqb (fst (fst a)) (fst (fst b)) && board_eqb (snd a) (snd b) else true) ns) ns.

Lemma ply_unique_check_sound D root : ply_unique_check D root = true ->
  Minimax.ply_unique board succs (zobrist_hash T) (fun _ x y => x = y) D root.
Proof.
  intros H i j x y Hi Hj Hx Hy Hk. unfold ply_unique_check in H. cbv zeta in H.
  rewrite forallb_forall in H. specialize (H _ (tree_nodes_in D root i x Hi Hx)).
  rewrite forallb_forall in H. specialize (H _ (tree_nodes_in D root j y Hj Hy)).
  cbn [fst snd] in H. rewrite Hk, N.eqb_refl in H. apply andb_true_iff in H as [H1 H2].
  apply Nat.eqb_eq in H1. unfold board_eqb in H2. destruct (board_eq_dec x y); [auto|discriminate].
Qed.

Definition keys_nonzero_check (D : nat) (root : board) : bool :=
  forallb (fun a => negb (snd (fst a) =? 0)) (tree_nodes D root).

Lemma keys_nonzero_check_sound D root : keys_nonzero_check D root = true ->
  forall i y, (1 <= i <= D)%nat -> at_ply root i y -> zobrist_hash T y <> 0.
Proof.
  intros H i y Hi Hy. unfold keys_nonzero_check in H. rewrite forallb_forall in H.
  specialize (H _ (tree_nodes_in D root i y ltac:(lia) Hy)). cbn [fst snd] in H.
  apply negb_true_iff, N.eqb_neq in H. exact H.
Qed.

End Checkers.

(* ================================================================== *)
(* Part 6: goodC is wider than the legal positions of the rules; the example                                        *)

(* an e.p. square on a wrong rank (accepted by the FEN reader) satisfies ep_free and ep_wf: C01/C02 (the correspondence with
   Spec/Rules.v) are not available on such a board, the model-level proof of ND ([succs_NoDup_model]) is *)
Definition bogus_ep_board : board := board_of_fen (RepetitionProofs.ex_fen (lit "4k3/8/8/8/3p4/8/8/4K3 w - d5 0 1")).
Lemma goodC_not_legal_pos : exists n b, goodC n b /\ legal_pos (abs b) = false.
Proof.
  exists 200%nat, bogus_ep_board. split; [apply (good_c10b_spec GT); vm_compute; reflexivity|vm_compute; reflexivity].
Qed.

(* ---- the example: K+R+P against K+P, half-move clock 40, `position fen ..` then `go depth 2` ---- *)
Definition ex40_fen : fen := RepetitionProofs.ex_fen (lit "8/5p2/8/4k3/8/3R4/4P3/4K3 w - - 40 60").
Definition ex40_root : board := board_of_fen ex40_fen.
Definition ex40_go : go_params :=
  {| g_searchmoves := []; g_wtime := None; g_btime := None; g_winc := None; g_binc := None; g_depth := Some 2; g_movetime := None |}.
Definition sim_eq (r : nat) (x y : board) : Prop := x = y.

Lemma sim_eq_nm : forall r' r x y, sim_eq r' x y -> (r <= r')%nat -> nmG r x = nmG r y.
Proof. intros r' r x y -> _. reflexivity. Qed.
Lemma sim_eq_le : forall r r' x y, (r <= r')%nat -> sim_eq r' x y -> sim_eq r x y.
Proof. intros r r' x y _ H. exact H. Qed.

Lemma ex40_reported : forall orc, quiet orc -> forall st0,
  exists infos i ponder m q,
    go_msgs GT orc ex40_go (set_position_from GT ex40_fen [] st0) = infos ++ [OInfo i; OBestmove (Some (uci_of_move m)) ponder] /\
    forallb is_info infos = true /\ i_depth i = Some 2 /\ i_score i = Some (Cp 430) /\
    make ex40_root m = Some q /\ (- nmG 1 q)%Z = 430%Z.
Proof.
  intros orc Hq st0.
  destruct (reported_score_after_position_fen orc Hq sim_eq sim_eq_nm sim_eq_le ex40_go ex40_fen st0 2 eq_refl
              ltac:(repeat split)) as (infos & i & ponder & m & q & H1 & H2 & H3 & H4 & _ & H6 & _ & H8).
  - apply (good_c10b_spec GT). vm_compute. reflexivity.
  - apply ply_unique_check_sound. vm_compute. reflexivity.
  - apply keys_nonzero_check_sound. vm_compute. reflexivity.
  - vm_compute. reflexivity.
  - vm_compute. discriminate.
  - change (depth_of 2) with 2%nat in *. fold ex40_root in H4, H6, H8.
    assert (E : nmG 2 ex40_root = 430%Z) by (vm_compute; reflexivity).
    rewrite E in H4, H8.
    assert (Es : score_from_value GT 430 ex40_root = Cp 430) by (vm_compute; reflexivity).
    rewrite Es in H4.
    exists infos, i, ponder, m, q. repeat split; assumption.
Qed.

(* ================================================================== *)
(* Part 7: the definitions, as statements                                                                           *)
Lemma history_fresh_iff T h D root : history_fresh T h D root <->
  forall i y x, (1 <= i <= D)%nat -> Minimax.at_ply board (ChessGame.succs T) root i y ->
    x mod 2 = ply_clock_w y mod 2 -> x + 4 <= ply_clock_w y -> ply_clock_w y - half y mod 65536 <= x ->
    hget h x <> zobrist_hash T y.
Proof.
  unfold history_fresh. split; intros H i y x Hi Hy.
  - intros A B C. apply (H i y x Hi Hy). apply HistoryProofs.in_window_iff. auto.
  - intros Hw. apply HistoryProofs.in_window_iff in Hw as (A & B & C). now apply (H i y x Hi Hy).
Qed.

Lemma HI_def T h0 D root h : HI T h0 D root h <->
  forall x, hget h x = hget h0 x \/
            exists (i : nat) (y : board), (i <= D)%nat /\ Minimax.at_ply board (ChessGame.succs T) root i y /\ ply_clock_w y = x /\
                                          hget h x = zobrist_hash T y.
Proof. reflexivity. Qed.

Lemma history_fresh_position_fen (T : Tables.t) (sim : nat -> board -> board -> Prop) (D : nat) (f : fen) (st0 : sstate) :
  let root := board_of_fen f in
  let st := set_position_from T f [] st0 in
  Minimax.ply_unique board (ChessGame.succs T) (zobrist_hash T) sim D root ->
  (forall (i : nat) (y : board), (1 <= i <= D)%nat -> Minimax.at_ply board (ChessGame.succs T) root i y -> zobrist_hash T y <> 0) ->
  s_board st = root /\ history_fresh T (s_history st) D (s_board st).
Proof.
  intros root st HU Hnz. destruct (position_fen_state T f st0) as [Eb Eh].
  split; [exact Eb|]. fold st in Eb, Eh. rewrite Eh, Eb. exact (history_fresh_single T sim D root HU Hnz).
Qed.

(* Proofs/RulesFlip.v : the colour flip on the RULES of chess (Spec/Rules.v) - property C11, rules level.

   flip_pos p   mirror the ranks (square s = file + 8 * row  |->  file + 8 * (7 - row)), swap the colour of every piece,
                the side to move and the castling rights, mirror the e.p. target; both clocks unchanged.
   flip_umove u mirror the two squares of a move, keep the promotion piece.

   Proved (all for the Spec only, no model involved, except the last part):
     flip_pos_involutive, legal_pos_flip, in_check_flip, attacked_flip, pseudo_moves_flip (Permutation),
     legal_moves_flip (Permutation), apply_flip (up to the full-move number, which the rules advance after BLACK's
     move only; apply_flip_fullc says by how much it differs), capture_or_promotion_flip, checkmate/stalemate_flip,
   and the link with the model:  abs (EvalProofs.flip b) = flip_pos (abs b)  for well-formed boards (abs_flip).

   The enumeration order of Rules.legal_moves (squares 0..63, i.e. rank 8 first; directions N,E,S,W) is NOT
   preserved by the flip, so the move lists correspond as multisets (Permutation), not as lists
   (legal_moves_flip_not_list). *)
Require Import Ink.Lib.Str.
Require Import NArith ZArith List Bool Lia ZifyBool ZifyN Permutation.
Require Import Ink.Spec.Rules.
Import ListNotations.
Open Scope Z_scope.

Arguments Z.add : simpl never.
Arguments Z.mul : simpl never.
Arguments Z.sub : simpl never.
Arguments Z.opp : simpl never.
Arguments Z.div : simpl never.
Arguments Z.modulo : simpl never.
Arguments Z.eqb : simpl never.
Arguments Z.ltb : simpl never.
Arguments Z.leb : simpl never.
Arguments Z.abs : simpl never.
Arguments Z.to_nat : simpl never.
Arguments Z.of_nat : simpl never.

(* lia with division / modulo by constants *)
Ltac dlia := Z.to_euclidean_division_equations; lia.

(* ================================================================== *)
(* Part 0: list toolkit                                                *)
(* ================================================================== *)

Lemma flat_map_map {A B C} (f : B -> list C) (g : A -> B) l : flat_map f (map g l) = flat_map (fun x => f (g x)) l.
Proof. induction l as [|a r IH]; cbn [map flat_map]; [reflexivity|now rewrite IH]. Qed.

Lemma map_flat_map {A B C} (f : A -> list B) (g : B -> C) l : map g (flat_map f l) = flat_map (fun x => map g (f x)) l.
Proof. induction l as [|a r IH]; cbn [map flat_map]; [reflexivity|now rewrite map_app, IH]. Qed.

Lemma flat_map_perm_pointwise {A B} (f g : A -> list B) l :
  (forall x, In x l -> Permutation (f x) (g x)) -> Permutation (flat_map f l) (flat_map g l).
Proof.
  induction l as [|a r IH]; intros H; cbn [flat_map]; [constructor|].
  apply Permutation_app; [apply H; now left|apply IH; intros x Hx; apply H; now right].
Qed.

Lemma filter_perm {A} (f : A -> bool) l l' : Permutation l l' -> Permutation (filter f l) (filter f l').
Proof.
  induction 1 as [|x l l' _ IH|x y l|l l' l'' _ IH1 _ IH2]; cbn [filter].
  - constructor.
  - destruct (f x); [now constructor|exact IH].
  - destruct (f x), (f y); try apply Permutation_refl. apply perm_swap.
  - eapply Permutation_trans; eassumption.
Qed.

Lemma filter_map_comm {A B} (g : A -> B) (f : B -> bool) l : filter f (map g l) = map g (filter (fun x => f (g x)) l).
Proof. induction l as [|a r IH]; cbn [map filter]; [reflexivity|]. destruct (f (g a)); cbn [map]; now rewrite IH. Qed.

Lemma filter_ext_in' {A} (f g : A -> bool) l : (forall x, In x l -> f x = g x) -> filter f l = filter g l.
Proof.
  induction l as [|a r IH]; intros H; cbn [filter]; [reflexivity|].
  rewrite (H a) by now left. rewrite IH; [reflexivity|]. intros x Hx. apply H. now right.
Qed.

Lemma existsb_perm {A} (f : A -> bool) l l' : Permutation l l' -> existsb f l = existsb f l'.
Proof.
  induction 1 as [|x l l' _ IH|x y l|l l' l'' _ IH1 _ IH2]; cbn [existsb].
  - reflexivity.
  - now rewrite IH.
  - destruct (f x), (f y); reflexivity.
  - congruence.
Qed.

Lemma forallb_perm {A} (f : A -> bool) l l' : Permutation l l' -> forallb f l = forallb f l'.
Proof.
  induction 1 as [|x l l' _ IH|x y l|l l' l'' _ IH1 _ IH2]; cbn [forallb].
  - reflexivity.
  - now rewrite IH.
  - destruct (f x), (f y); reflexivity.
  - congruence.
Qed.

Lemma existsb_ext_in {A} (f g : A -> bool) l : (forall x, In x l -> f x = g x) -> existsb f l = existsb g l.
Proof.
  induction l as [|a r IH]; intros H; cbn [existsb]; [reflexivity|].
  rewrite (H a) by now left. rewrite IH; [reflexivity|]. intros x Hx. apply H. now right.
Qed.

Lemma forallb_ext_in {A} (f g : A -> bool) l : (forall x, In x l -> f x = g x) -> forallb f l = forallb g l.
Proof.
  induction l as [|a r IH]; intros H; cbn [forallb]; [reflexivity|].
  rewrite (H a) by now left. rewrite IH; [reflexivity|]. intros x Hx. apply H. now right.
Qed.

Lemma existsb_map {A B} (g : A -> B) (f : B -> bool) l : existsb f (map g l) = existsb (fun x => f (g x)) l.
Proof. induction l as [|a r IH]; cbn [map existsb]; [reflexivity|now rewrite IH]. Qed.

Lemma forallb_map {A B} (g : A -> B) (f : B -> bool) l : forallb f (map g l) = forallb (fun x => f (g x)) l.
Proof. induction l as [|a r IH]; cbn [map forallb]; [reflexivity|now rewrite IH]. Qed.

(* a boolean permutation test for concrete lists *)
Section PermB.
Variable A : Type.
Variable eqb : A -> A -> bool.
Hypothesis eqb_eq : forall x y, eqb x y = true -> x = y.

Fixpoint rem1 (x : A) (l : list A) : option (list A) :=
  match l with
  | [] => None
  | y :: r => if eqb x y then Some r else match rem1 x r with Some r' => Some (y :: r') | None => None end
  end.

Fixpoint permb (l1 l2 : list A) : bool :=
  match l1 with
  | [] => match l2 with [] => true | _ => false end
  | x :: r => match rem1 x l2 with Some l2' => permb r l2' | None => false end
  end.

Lemma rem1_perm x l l' : rem1 x l = Some l' -> Permutation l (x :: l').
Proof.
  revert l'. induction l as [|y r IH]; intros l' H; cbn [rem1] in H; [discriminate|].
  destruct (eqb x y) eqn:E.
  - apply eqb_eq in E. subst y. injection H as <-. apply Permutation_refl.
  - destruct (rem1 x r) as [r'|]; [|discriminate]. injection H as <-.
    eapply Permutation_trans; [apply perm_skip, IH; reflexivity|apply perm_swap].
Qed.

Lemma permb_sound l1 : forall l2, permb l1 l2 = true -> Permutation l1 l2.
Proof.
  induction l1 as [|x r IH]; intros l2 H; cbn [permb] in H.
  - destruct l2; [constructor|discriminate].
  - destruct (rem1 x l2) as [l2'|] eqn:E; [|discriminate].
    apply Permutation_sym. eapply Permutation_trans; [apply rem1_perm; exact E|].
    apply perm_skip, Permutation_sym, IH, H.
Qed.
End PermB.

Definition zz_eqb (a b : Z * Z) : bool := (fst a =? fst b) && (snd a =? snd b).
Lemma zz_eqb_eq a b : zz_eqb a b = true -> a = b.
Proof. destruct a, b. unfold zz_eqb. cbn [fst snd]. intros H. apply andb_true_iff in H as [H1 H2]. f_equal; lia. Qed.
Lemma z_eqb_eq (a b : Z) : (a =? b) = true -> a = b.
Proof. lia. Qed.

(* ---- set_nth ---- *)
Lemma length_set_nth {A} (l : list A) : forall i v, length (set_nth l i v) = length l.
Proof. induction l as [|x r IH]; intros [|i] v; cbn [set_nth length]; try reflexivity. now rewrite IH. Qed.

Lemma nth_set_nth {A} (l : list A) d : forall i j v,
  nth i (set_nth l j v) d = if (i =? j)%nat then (if (j <? length l)%nat then v else d) else nth i l d.
Proof.
  induction l as [|x r IH]; intros i j v.
  - destruct j; cbn [set_nth nth length]; destruct i; cbn [Nat.eqb]; try reflexivity.
    + destruct (i =? j)%nat; reflexivity.
  - destruct j as [|j]; cbn [set_nth].
    + destruct i as [|i]; cbn [nth Nat.eqb]; reflexivity.
    + destruct i as [|i]; cbn [nth Nat.eqb]; [reflexivity|]. rewrite IH. cbn [length].
      change (S j <? S (length r))%nat with (j <? length r)%nat. reflexivity.
Qed.

(* ================================================================== *)
(* Part 1: squares, directions                                         *)
(* ================================================================== *)

Definition fsq (s : Z) : Z := sq_of (fileZ s) (7 - rowZ s).
Definition fdir (d : Z * Z) : Z * Z := (fst d, - snd d).
Definition fpc (pc : piece) : piece := (opp (fst pc), snd pc).
Definition fcell (o : option piece) : option piece := option_map fpc o.

Lemma fileZ_fsq s : fileZ (fsq s) = fileZ s.
Proof. unfold fsq, sq_of, fileZ, rowZ. dlia. Qed.
Lemma rowZ_fsq s : rowZ (fsq s) = 7 - rowZ s.
Proof. unfold fsq, sq_of, fileZ, rowZ. dlia. Qed.
Lemma fsq_invol s : fsq (fsq s) = s.
Proof. unfold fsq at 1. rewrite fileZ_fsq, rowZ_fsq. unfold sq_of, fileZ, rowZ. dlia. Qed.
Lemma fsq_range s : 0 <= s < 64 -> 0 <= fsq s < 64.
Proof. unfold fsq, sq_of, fileZ, rowZ. dlia. Qed.
Lemma fsq_range_inv s : 0 <= fsq s < 64 -> 0 <= s < 64.
Proof. intros H. apply fsq_range in H. now rewrite fsq_invol in H. Qed.
Lemma fsq_inj a b : fsq a = fsq b -> a = b.
Proof. intros H. rewrite <- (fsq_invol a), H. apply fsq_invol. Qed.
Lemma fsq_eqb a b : (fsq a =? b) = (a =? fsq b).
Proof.
  destruct (Z.eqb_spec (fsq a) b) as [E|E]; destruct (Z.eqb_spec a (fsq b)) as [E'|E']; try reflexivity; exfalso.
  - apply E'. rewrite <- E. symmetry. apply fsq_invol.
  - apply E. rewrite E'. apply fsq_invol.
Qed.
Lemma fsq_eqb2 a b : (fsq a =? fsq b) = (a =? b).
Proof. now rewrite fsq_eqb, fsq_invol. Qed.
Lemma fsq_sq_of f r : 0 <= f < 8 -> fsq (sq_of f r) = sq_of f (7 - r).
Proof. unfold fsq, sq_of, fileZ, rowZ. intros H. dlia. Qed.
Lemma sq_of_file_row s : sq_of (fileZ s) (rowZ s) = s.
Proof. unfold sq_of, fileZ, rowZ. dlia. Qed.
Lemma fileZ_range s : 0 <= fileZ s < 8.
Proof. unfold fileZ. dlia. Qed.
Lemma fileZ_sq_of f r : 0 <= f < 8 -> fileZ (sq_of f r) = f.
Proof. unfold fileZ, sq_of. intros. dlia. Qed.
Lemma rowZ_sq_of f r : 0 <= f < 8 -> rowZ (sq_of f r) = r.
Proof. unfold rowZ, sq_of. intros. dlia. Qed.
Lemma rowZ_range s : 0 <= s < 64 -> 0 <= rowZ s < 8.
Proof. unfold rowZ. intros. dlia. Qed.

Lemma on_board_flip f r : on_board f (7 - r) = on_board f r.
Proof. unfold on_board. lia. Qed.
Lemma on_board_range f r : on_board f r = true -> 0 <= f < 8 /\ 0 <= r < 8.
Proof. unfold on_board. lia. Qed.
Lemma on_board_sq f r : on_board f r = true -> 0 <= sq_of f r < 64.
Proof. unfold on_board, sq_of. lia. Qed.
Lemma on_board_file_row s : 0 <= s < 64 -> on_board (fileZ s) (rowZ s) = true.
Proof. unfold on_board, fileZ, rowZ. intros. dlia. Qed.

Lemma in_squares_iff s : In s squares <-> 0 <= s < 64.
Proof.
  unfold squares. rewrite in_map_iff. split.
  - intros (i & <- & Hi). apply in_seq in Hi. lia.
  - intros H. exists (Z.to_nat s). split; [lia|]. apply in_seq. lia.
Qed.

Lemma NoDup_squares : NoDup squares.
Proof. unfold squares. apply FinFun.Injective_map_NoDup; [intros a b H; lia|apply seq_NoDup]. Qed.

Lemma squares_flip_perm : Permutation (map fsq squares) squares.
Proof. apply (permb_sound Z Z.eqb z_eqb_eq). vm_compute. reflexivity. Qed.

Lemma nth_map_squares {A} (g : Z -> A) d s : 0 <= s < 64 -> nth (Z.to_nat s) (map g squares) d = g s.
Proof.
  intros H. unfold squares. rewrite map_map.
  rewrite (nth_indep _ d (g (Z.of_nat 0))) by (rewrite map_length, seq_length; lia).
  rewrite (map_nth (fun i => g (Z.of_nat i))). rewrite seq_nth by lia. f_equal. lia.
Qed.

Lemma existsb_squares_flip (g : Z -> bool) : existsb g squares = existsb (fun s => g (fsq s)) squares.
Proof. rewrite <- (existsb_perm g _ _ squares_flip_perm). apply existsb_map. Qed.

(* direction lists are closed under the flip *)
Lemma orth_flip : Permutation (map fdir orth) orth.
Proof. apply (permb_sound _ zz_eqb zz_eqb_eq). vm_compute. reflexivity. Qed.
Lemma diag_flip : Permutation (map fdir diag) diag.
Proof. apply (permb_sound _ zz_eqb zz_eqb_eq). vm_compute. reflexivity. Qed.
Lemma both_flip : Permutation (map fdir (orth ++ diag)) (orth ++ diag).
Proof. apply (permb_sound _ zz_eqb zz_eqb_eq). vm_compute. reflexivity. Qed.
Lemma knight_flip : Permutation (map fdir knight_steps) knight_steps.
Proof. apply (permb_sound _ zz_eqb zz_eqb_eq). vm_compute. reflexivity. Qed.

(* ================================================================== *)
(* Part 2: the flip of a position                                      *)
(* ================================================================== *)

Definition fcells (cs : list (option piece)) : list (option piece) :=
  map (fun s => fcell (nth (Z.to_nat (fsq s)) cs None)) squares.

Definition flip_pos (p : pos) : pos :=
  {| cells := fcells (cells p); to_move := opp (to_move p);
     wk := bk p; wq := bq p; bk := wk p; bq := wq p;
     epsq := option_map fsq (epsq p); halfc := halfc p; fullc := fullc p |}.

Definition flip_umove (u : mv) : mv := {| from := fsq (from u); to := fsq (to u); prom := prom u |}.

(* the position with another full-move number *)
Definition with_full (p : pos) (n : N) : pos :=
  {| cells := cells p; to_move := to_move p; wk := wk p; wq := wq p; bk := bk p; bq := bq p;
     epsq := epsq p; halfc := halfc p; fullc := n |}.

Lemma opp_invol c : opp (opp c) = c.
Proof. now destruct c. Qed.
Lemma fpc_invol pc : fpc (fpc pc) = pc.
Proof. destruct pc as [c k]. unfold fpc. cbn [fst snd]. now rewrite opp_invol. Qed.
Lemma fcell_invol o : fcell (fcell o) = o.
Proof. destruct o as [pc|]; cbn [fcell option_map]; [now rewrite fpc_invol|reflexivity]. Qed.

Lemma length_fcells cs : length (fcells cs) = 64%nat.
Proof. unfold fcells. now rewrite map_length. Qed.

Lemma nth_fcells cs s : 0 <= s < 64 -> nth (Z.to_nat s) (fcells cs) None = fcell (nth (Z.to_nat (fsq s)) cs None).
Proof. intros H. unfold fcells. now rewrite nth_map_squares. Qed.

Lemma get_flip p s : 0 <= s < 64 -> get (flip_pos p) s = fcell (get p (fsq s)).
Proof. intros H. unfold get. cbn [cells flip_pos]. now apply nth_fcells. Qed.

Lemma get_flip' p s : 0 <= s < 64 -> get (flip_pos p) (fsq s) = fcell (get p s).
Proof. intros H. rewrite get_flip by now apply fsq_range. now rewrite fsq_invol. Qed.

Lemma fcells_invol cs : length cs = 64%nat -> fcells (fcells cs) = cs.
Proof.
  intros HL. apply (nth_ext _ _ None None); [now rewrite length_fcells|].
  intros i Hi. rewrite length_fcells in Hi.
  replace i with (Z.to_nat (Z.of_nat i)) by lia.
  assert (R : 0 <= Z.of_nat i < 64) by lia.
  rewrite nth_fcells by exact R. rewrite nth_fcells by now apply fsq_range.
  now rewrite fsq_invol, fcell_invol.
Qed.

Theorem flip_pos_involutive p : length (cells p) = 64%nat -> flip_pos (flip_pos p) = p.
Proof.
  intros HL. destruct p as [cs c a1 a2 a3 a4 e h f]. unfold flip_pos. cbn [cells to_move wk wq bk bq epsq halfc fullc] in *.
  rewrite fcells_invol by exact HL. rewrite opp_invol. f_equal.
  destruct e as [e|]; cbn [option_map]; [now rewrite fsq_invol|reflexivity].
Qed.

Lemma fcells_put cs s v : length cs = 64%nat -> 0 <= s < 64 ->
  fcells (put cs s v) = put (fcells cs) (fsq s) (fcell v).
Proof.
  intros HL Hs. unfold put. apply (nth_ext _ _ None None).
  - now rewrite length_set_nth, !length_fcells.
  - intros i Hi. rewrite length_fcells in Hi.
    pose proof (fsq_range s Hs) as Hfs.
    replace i with (Z.to_nat (Z.of_nat i)) at 1 by lia.
    assert (R : 0 <= Z.of_nat i < 64) by lia. pose proof (fsq_range _ R) as R'.
    rewrite nth_fcells by exact R. rewrite !nth_set_nth. rewrite length_fcells, HL.
    destruct (Nat.eqb_spec (Z.to_nat (fsq (Z.of_nat i))) (Z.to_nat s)) as [E|E].
    + assert (E' : fsq (Z.of_nat i) = s) by lia.
      assert (E2 : i = Z.to_nat (fsq s)) by (rewrite <- E', fsq_invol; lia).
      rewrite <- E2, Nat.eqb_refl.
      destruct (Nat.ltb_spec (Z.to_nat s) 64); [|lia]. destruct (Nat.ltb_spec i 64); [|lia]. reflexivity.
    + destruct (Nat.eqb_spec i (Z.to_nat (fsq s))) as [E2|E2].
      * exfalso. apply E. f_equal. rewrite E2. rewrite Z2Nat.id by lia. apply fsq_invol.
      * replace i with (Z.to_nat (Z.of_nat i)) at 2 by lia. now rewrite nth_fcells by exact R.
Qed.

(* ---- own / enemy / empty / is_piece ---- *)
Lemma color_eqb_opp2 a b : color_eqb (opp a) (opp b) = color_eqb a b.
Proof. now destruct a, b. Qed.

Lemma own_flip p c s : 0 <= s < 64 -> own (flip_pos p) (opp c) (fsq s) = own p c s.
Proof. intros H. unfold own. rewrite get_flip' by exact H. destruct (get p s) as [[c' k]|]; cbn; [apply color_eqb_opp2|reflexivity]. Qed.
Lemma enemy_flip p c s : 0 <= s < 64 -> enemy (flip_pos p) (opp c) (fsq s) = enemy p c s.
Proof. intros H. unfold enemy. rewrite get_flip' by exact H. destruct (get p s) as [[c' k]|]; cbn; [now rewrite color_eqb_opp2|reflexivity]. Qed.
Lemma empty_flip p s : 0 <= s < 64 -> empty (flip_pos p) (fsq s) = empty p s.
Proof. intros H. unfold empty. rewrite get_flip' by exact H. destruct (get p s) as [[c' k]|]; reflexivity. Qed.
Lemma is_piece_flip p s c k : 0 <= s < 64 -> is_piece (flip_pos p) (fsq s) (opp c) k = is_piece p s c k.
Proof. intros H. unfold is_piece. rewrite get_flip' by exact H. destruct (get p s) as [[c' k']|]; cbn; [now rewrite color_eqb_opp2|reflexivity]. Qed.

(* ================================================================== *)
(* Part 3: attacks                                                     *)
(* ================================================================== *)

Lemma slide_flip p n : forall f r d, slide (flip_pos p) n f (7 - r) (fdir d) = map fsq (slide p n f r d).
Proof.
  induction n as [|n IH]; intros f r d; cbn [slide]; [reflexivity|].
  cbn [fdir fst snd]. replace (7 - r + - snd d) with (7 - (r + snd d)) by lia.
  rewrite on_board_flip. destruct (on_board (f + fst d) (r + snd d)) eqn:Eb; [|reflexivity].
  pose proof (on_board_range _ _ Eb) as [Hf Hr]. pose proof (on_board_sq _ _ Eb) as Hs.
  rewrite <- (fsq_sq_of _ _ Hf). rewrite get_flip' by exact Hs.
  destruct (get p (sq_of (f + fst d) (r + snd d))) as [pc|]; cbn [fcell option_map map]; [reflexivity|].
  f_equal. apply (IH (f + fst d) (r + snd d) d).
Qed.

Lemma step_targets_flip f r ds : step_targets f (7 - r) (map fdir ds) = map fsq (step_targets f r ds).
Proof.
  unfold step_targets. rewrite flat_map_map, map_flat_map. apply flat_map_ext. intros d.
  cbn [fdir fst snd]. replace (7 - r + - snd d) with (7 - (r + snd d)) by lia.
  rewrite on_board_flip. destruct (on_board (f + fst d) (r + snd d)) eqn:Eb; [|reflexivity].
  pose proof (on_board_range _ _ Eb) as [Hf Hr]. cbn [map]. now rewrite fsq_sq_of.
Qed.

Lemma slide_in_range p n : forall f r d t, In t (slide p n f r d) -> 0 <= t < 64.
Proof.
  induction n as [|n IH]; intros f r d t H; cbn [slide] in H; [destruct H|].
  destruct (on_board (f + fst d) (r + snd d)) eqn:Eb; [|destruct H].
  pose proof (on_board_sq _ _ Eb) as Hs.
  destruct (get p (sq_of (f + fst d) (r + snd d))); destruct H as [<-|H]; try exact Hs; [destruct H|eapply IH; exact H].
Qed.

Lemma step_targets_in_range f r ds t : In t (step_targets f r ds) -> 0 <= t < 64.
Proof.
  unfold step_targets. intros H. apply in_flat_map in H as (d & _ & H).
  destruct (on_board (f + fst d) (r + snd d)) eqn:Eb; [|destruct H].
  destruct H as [<-|[]]. now apply on_board_sq.
Qed.

Lemma attacked_from_in_range p s pc t : In t (attacked_from p s pc) -> 0 <= t < 64.
Proof.
  unfold attacked_from. destruct (snd pc); intros H;
    try (now apply step_targets_in_range in H);
    apply in_flat_map in H as (d & _ & H); now apply slide_in_range in H.
Qed.

Lemma forward_opp c : forward (opp c) = - forward c.
Proof. now destruct c. Qed.

Lemma slides_flip p f r ds : Permutation (map fdir ds) ds ->
  Permutation (flat_map (slide (flip_pos p) 7 f (7 - r)) ds) (map fsq (flat_map (slide p 7 f r) ds)).
Proof.
  intros HP. eapply Permutation_trans; [apply Permutation_flat_map, Permutation_sym, HP|].
  rewrite flat_map_map, map_flat_map. erewrite flat_map_ext; [apply Permutation_refl|].
  intros d. apply slide_flip.
Qed.

Lemma steps_flip f r ds : Permutation (map fdir ds) ds ->
  Permutation (step_targets f (7 - r) ds) (map fsq (step_targets f r ds)).
Proof.
  intros HP. rewrite <- step_targets_flip. unfold step_targets. apply Permutation_flat_map, Permutation_sym, HP.
Qed.

Theorem attacked_from_flip p s pc :
  Permutation (attacked_from (flip_pos p) (fsq s) (fpc pc)) (map fsq (attacked_from p s pc)).
Proof.
  unfold attacked_from. rewrite fileZ_fsq, rowZ_fsq. destruct pc as [c k]. cbn [fpc fst snd]. destruct k.
  - rewrite <- step_targets_flip. cbn [map fdir fst snd]. rewrite forward_opp. apply Permutation_refl.
  - apply steps_flip, knight_flip.
  - apply slides_flip, diag_flip.
  - apply slides_flip, orth_flip.
  - apply slides_flip, both_flip.
  - apply steps_flip, both_flip.
Qed.

Lemma zmem_flip p s pc t : zmem (fsq t) (attacked_from (flip_pos p) (fsq s) (fpc pc)) = zmem t (attacked_from p s pc).
Proof.
  unfold zmem. rewrite (existsb_perm _ _ _ (attacked_from_flip p s pc)). rewrite existsb_map.
  apply existsb_ext_in. intros x _. apply fsq_eqb2.
Qed.

Theorem attacked_flip p t c : attacked (flip_pos p) (fsq t) (opp c) = attacked p t c.
Proof.
  unfold attacked. rewrite existsb_squares_flip. apply existsb_ext_in. intros s Hs. apply in_squares_iff in Hs.
  rewrite get_flip' by exact Hs. destruct (get p s) as [pc|]; cbn [fcell option_map]; [|reflexivity].
  rewrite zmem_flip. destruct pc as [c' k]. cbn [fpc fst snd]. now rewrite color_eqb_opp2.
Qed.

Lemma attacked_flip' p t c : attacked (flip_pos p) t c = attacked p (fsq t) (opp c).
Proof. rewrite <- (fsq_invol t) at 1. rewrite <- (opp_invol c) at 1. apply attacked_flip. Qed.

(* ================================================================== *)
(* Part 4: kings and check                                             *)
(* ================================================================== *)

Definition is_king_at (p : pos) (c : color) (s : Z) : bool :=
  match get p s with Some (c', King) => color_eqb c c' | _ => false end.

Lemma find_hd_filter {A} (f : A -> bool) l : find f l = hd_error (filter f l).
Proof. induction l as [|a r IH]; cbn [find filter]; [reflexivity|]. destruct (f a); [reflexivity|exact IH]. Qed.

Lemma filter_squares_flip (g g' : Z -> bool) : (forall s, 0 <= s < 64 -> g' (fsq s) = g s) ->
  Permutation (filter g' squares) (map fsq (filter g squares)).
Proof.
  intros H. eapply Permutation_trans; [apply filter_perm, Permutation_sym, squares_flip_perm|].
  rewrite filter_map_comm. erewrite filter_ext_in'; [apply Permutation_refl|].
  intros s Hs. apply in_squares_iff in Hs. now apply H.
Qed.

Lemma count_kind_as_filter p c : count_kind p c King = length (filter (is_king_at p c) squares).
Proof.
  unfold count_kind. apply (f_equal (@length Z)). apply filter_ext_in'. intros s _. unfold is_king_at.
  destruct (get p s) as [[c' k]|]; [|reflexivity]. destruct k; cbn [kind_eqb]; now rewrite ?andb_true_r, ?andb_false_r.
Qed.

Theorem count_kind_flip p c k : count_kind (flip_pos p) (opp c) k = count_kind p c k.
Proof.
  unfold count_kind. erewrite Permutation_length; [|apply filter_squares_flip]; [now rewrite map_length|].
  intros s Hs. cbv beta. rewrite get_flip' by exact Hs. destruct (get p s) as [[c' k']|]; cbn; [now rewrite color_eqb_opp2|reflexivity].
Qed.

Lemma is_king_at_flip p c s : 0 <= s < 64 -> is_king_at (flip_pos p) (opp c) (fsq s) = is_king_at p c s.
Proof.
  intros Hs. unfold is_king_at. rewrite get_flip' by exact Hs. destruct (get p s) as [[c' k]|]; cbn; [|reflexivity].
  destruct k; try reflexivity. apply color_eqb_opp2.
Qed.

Theorem king_sq_flip p c : (count_kind p c King <= 1)%nat -> king_sq (flip_pos p) (opp c) = option_map fsq (king_sq p c).
Proof.
  intros Hc. rewrite count_kind_as_filter in Hc.
  change (king_sq (flip_pos p) (opp c)) with (find (is_king_at (flip_pos p) (opp c)) squares).
  change (king_sq p c) with (find (is_king_at p c) squares). rewrite !find_hd_filter.
  pose proof (filter_squares_flip (is_king_at p c) (is_king_at (flip_pos p) (opp c)) (is_king_at_flip p c)) as HP.
  destruct (filter (is_king_at p c) squares) as [|x [|y r]]; cbn [map] in HP.
  - apply Permutation_sym, Permutation_nil in HP. now rewrite HP.
  - apply Permutation_sym, Permutation_length_1_inv in HP. now rewrite HP.
  - cbn [length] in Hc. lia.
Qed.

Theorem in_check_flip p c : (count_kind p c King <= 1)%nat -> in_check (flip_pos p) (opp c) = in_check p c.
Proof.
  intros Hc. unfold in_check. rewrite king_sq_flip by exact Hc.
  destruct (king_sq p c) as [k|]; cbn [option_map]; [apply attacked_flip|reflexivity].
Qed.

(* "at most one king" as a statement about squares *)
Definition uniq_king (p : pos) (c : color) : Prop :=
  forall s1 s2, 0 <= s1 < 64 -> 0 <= s2 < 64 -> get p s1 = Some (c, King) -> get p s2 = Some (c, King) -> s1 = s2.

Lemma is_king_at_true p c s : is_king_at p c s = true <-> get p s = Some (c, King).
Proof.
  unfold is_king_at. destruct (get p s) as [[c' k]|]; [|split; discriminate].
  destruct k; try (split; [discriminate|intros H; discriminate H]).
  destruct c, c'; cbn; split; intros H; try reflexivity; try discriminate H.
Qed.

Lemma uniq_king_count p c : uniq_king p c <-> (count_kind p c King <= 1)%nat.
Proof.
  rewrite count_kind_as_filter. split.
  - intros U. pose proof (NoDup_filter (is_king_at p c) NoDup_squares) as ND.
    destruct (filter (is_king_at p c) squares) as [|x [|y r]] eqn:E; cbn [length]; try lia. exfalso.
    assert (Hx : In x (filter (is_king_at p c) squares)) by (rewrite E; now left).
    assert (Hy : In y (filter (is_king_at p c) squares)) by (rewrite E; right; now left).
    apply filter_In in Hx as [Hx1 Hx2]. apply filter_In in Hy as [Hy1 Hy2].
    apply in_squares_iff in Hx1, Hy1. apply is_king_at_true in Hx2, Hy2.
    pose proof (U x y Hx1 Hy1 Hx2 Hy2) as Exy. subst y. inversion ND as [|? ? Hn _]. apply Hn. now left.
  - intros Hc s1 s2 H1 H2 G1 G2.
    assert (I1 : In s1 (filter (is_king_at p c) squares)) by (apply filter_In; split; [now apply in_squares_iff|now apply is_king_at_true]).
    assert (I2 : In s2 (filter (is_king_at p c) squares)) by (apply filter_In; split; [now apply in_squares_iff|now apply is_king_at_true]).
    destruct (filter (is_king_at p c) squares) as [|x [|y r]]; cbn [length] in Hc; [destruct I1| |lia].
    destruct I1 as [<-|[]]. destruct I2 as [<-|[]]. reflexivity.
Qed.

(* ================================================================== *)
(* Part 5: pseudo-legal moves                                          *)
(* ================================================================== *)

Lemma last_row_opp c : last_row (opp c) = 7 - last_row c.
Proof. now destruct c. Qed.
Lemma start_row_opp c : start_row (opp c) = 7 - start_row c.
Proof. now destruct c. Qed.
Lemma home_row_opp c : home_row (opp c) = 7 - home_row c.
Proof. now destruct c. Qed.

Lemma pawn_to_flip c s t : pawn_to (opp c) (fsq s) (fsq t) = map flip_umove (pawn_to c s t).
Proof.
  unfold pawn_to. rewrite rowZ_fsq, last_row_opp.
  replace (7 - rowZ t =? 7 - last_row c) with (rowZ t =? last_row c) by lia.
  destruct (rowZ t =? last_row c); reflexivity.
Qed.

Definition mk_from (s t : Z) : mv := {| from := s; to := t; prom := None |}.

Lemma std_flip p c s l l' : Permutation l' (map fsq l) -> (forall t, In t l -> 0 <= t < 64) ->
  Permutation (map (mk_from (fsq s)) (filter (fun t => negb (own (flip_pos p) (opp c) t)) l'))
              (map flip_umove (map (mk_from s) (filter (fun t => negb (own p c t)) l))).
Proof.
  intros HP Hr. rewrite map_map.
  eapply Permutation_trans; [apply Permutation_map, filter_perm, HP|].
  rewrite filter_map_comm, map_map.
  erewrite (filter_ext_in' (fun x => negb (own (flip_pos p) (opp c) (fsq x)))); [apply Permutation_refl|].
  intros t Ht. cbv beta. now rewrite own_flip by (apply Hr, Ht).
Qed.

Lemma castle_part_flip p c s : 0 <= s < 64 ->
  (let h := home_row (opp c) in
   let e := sq_of 4 h in
   if (fsq s =? e) && negb (attacked (flip_pos p) e (opp (opp c))) then
     (if (match opp c with White => wk (flip_pos p) | Black => bk (flip_pos p) end)
         && empty (flip_pos p) (sq_of 5 h) && empty (flip_pos p) (sq_of 6 h)
         && negb (attacked (flip_pos p) (sq_of 5 h) (opp (opp c))) && negb (attacked (flip_pos p) (sq_of 6 h) (opp (opp c)))
      then [{| from := fsq s; to := sq_of 6 h; prom := None |}] else []) ++
     (if (match opp c with White => wq (flip_pos p) | Black => bq (flip_pos p) end)
         && empty (flip_pos p) (sq_of 3 h) && empty (flip_pos p) (sq_of 2 h) && empty (flip_pos p) (sq_of 1 h)
         && negb (attacked (flip_pos p) (sq_of 3 h) (opp (opp c))) && negb (attacked (flip_pos p) (sq_of 2 h) (opp (opp c)))
      then [{| from := fsq s; to := sq_of 2 h; prom := None |}] else [])
   else []) =
  map flip_umove
  (let h := home_row c in
   let e := sq_of 4 h in
   if (s =? e) && negb (attacked p e (opp c)) then
     (if (match c with White => wk p | Black => bk p end)
         && empty p (sq_of 5 h) && empty p (sq_of 6 h)
         && negb (attacked p (sq_of 5 h) (opp c)) && negb (attacked p (sq_of 6 h) (opp c))
      then [{| from := s; to := sq_of 6 h; prom := None |}] else []) ++
     (if (match c with White => wq p | Black => bq p end)
         && empty p (sq_of 3 h) && empty p (sq_of 2 h) && empty p (sq_of 1 h)
         && negb (attacked p (sq_of 3 h) (opp c)) && negb (attacked p (sq_of 2 h) (opp c))
      then [{| from := s; to := sq_of 2 h; prom := None |}] else [])
   else []).
Proof.
  intros Hs. cbv zeta. rewrite home_row_opp.
  assert (Hh : 0 <= home_row c < 8) by (destruct c; cbn; lia).
  assert (F : forall k, 0 <= k < 8 -> sq_of k (7 - home_row c) = fsq (sq_of k (home_row c))) by (intros k Hk; now rewrite fsq_sq_of).
  assert (R : forall k, 0 <= k < 8 -> 0 <= sq_of k (home_row c) < 64) by (intros k Hk; unfold sq_of; lia).
  rewrite !F by lia. rewrite fsq_eqb2. rewrite !attacked_flip. rewrite !empty_flip by (apply R; lia).
  replace (match opp c with White => wk (flip_pos p) | Black => bk (flip_pos p) end) with (match c with White => wk p | Black => bk p end)
    by (destruct c; reflexivity).
  replace (match opp c with White => wq (flip_pos p) | Black => bq (flip_pos p) end) with (match c with White => wq p | Black => bq p end)
    by (destruct c; reflexivity).
  destruct ((s =? sq_of 4 (home_row c)) && negb (attacked p (sq_of 4 (home_row c)) (opp c))); [|reflexivity].
  rewrite map_app.
  destruct (_ && _ && _ && _ && _); destruct (_ && _ && _ && _ && _ && _); reflexivity.
Qed.

Theorem piece_moves_flip p s pc : 0 <= s < 64 ->
  Permutation (piece_moves (flip_pos p) (fsq s) (fpc pc)) (map flip_umove (piece_moves p s pc)).
Proof.
  intros Hs. destruct pc as [c k].
  assert (STD : forall k', Permutation
            (map (mk_from (fsq s)) (filter (fun t => negb (own (flip_pos p) (opp c) t)) (attacked_from (flip_pos p) (fsq s) (opp c, k'))))
            (map flip_umove (map (mk_from s) (filter (fun t => negb (own p c t)) (attacked_from p s (c, k')))))).
  { intros k'. apply std_flip; [apply (attacked_from_flip p s (c, k'))|]. intros t. apply attacked_from_in_range. }
  destruct k; try exact (STD _).
  - (* pawn *)
    unfold piece_moves. cbn [fpc fst snd]. rewrite fileZ_fsq, rowZ_fsq. cbv zeta.
    pose proof (fileZ_range s) as Hf. pose proof (rowZ_range s Hs) as Hr.
    set (f := fileZ s) in *. set (r := rowZ s) in *. rewrite forward_opp.
    replace (7 - r + - forward c) with (7 - (r + forward c)) by lia.
    replace (7 - (r + forward c) + - forward c) with (7 - (r + forward c + forward c)) by lia.
    rewrite map_app. apply Permutation_app.
    + (* pushes: the same list *)
      rewrite on_board_flip. destruct (on_board f (r + forward c)) eqn:Eb; cbn [andb]; [|apply Permutation_refl].
      pose proof (on_board_sq _ _ Eb) as R1.
      rewrite <- (fsq_sq_of f (r + forward c)) by exact Hf. rewrite empty_flip by exact R1.
      destruct (empty p (sq_of f (r + forward c))); [|apply Permutation_refl].
      rewrite map_app, pawn_to_flip. apply Permutation_app; [apply Permutation_refl|].
      rewrite start_row_opp. replace (7 - r =? 7 - start_row c) with (r =? start_row c) by lia.
      destruct (Z.eqb_spec r (start_row c)) as [Er|Er]; cbn [andb]; [|apply Permutation_refl].
      assert (R2 : 0 <= sq_of f (r + forward c + forward c) < 64) by (rewrite Er; unfold sq_of; destruct c; cbn; lia).
      rewrite <- (fsq_sq_of f (r + forward c + forward c)) by exact Hf. rewrite empty_flip by exact R2.
      destruct (empty p (sq_of f (r + forward c + forward c))); apply Permutation_refl.
    + (* captures *)
      eapply Permutation_trans; [apply Permutation_flat_map; exact (attacked_from_flip p s (c, Pawn))|].
      rewrite flat_map_map, map_flat_map. apply flat_map_perm_pointwise. intros t Ht. apply attacked_from_in_range in Ht.
      rewrite enemy_flip by exact Ht. cbn [epsq flip_pos].
      replace (match option_map fsq (epsq p) with Some e => e =? fsq t | None => false end)
        with (match epsq p with Some e => e =? t | None => false end)
        by (destruct (epsq p); cbn [option_map]; [now rewrite fsq_eqb2|reflexivity]).
      destruct (_ || _); [rewrite pawn_to_flip|]; apply Permutation_refl.
  - (* king *)
    unfold piece_moves. cbn [fpc fst snd]. rewrite map_app. apply Permutation_app; [exact (STD King)|].
    match goal with |- Permutation ?a ?b => replace a with b; [apply Permutation_refl|] end.
    symmetry. exact (castle_part_flip p c s Hs).
Qed.

Theorem pseudo_moves_flip p : Permutation (pseudo_moves (flip_pos p)) (map flip_umove (pseudo_moves p)).
Proof.
  unfold pseudo_moves.
  eapply Permutation_trans; [apply Permutation_flat_map, Permutation_sym, squares_flip_perm|].
  rewrite flat_map_map, map_flat_map. apply flat_map_perm_pointwise. intros s Hs. apply in_squares_iff in Hs.
  rewrite get_flip' by exact Hs. destruct (get p s) as [pc|]; cbn [fcell option_map]; [|apply Permutation_refl].
  cbn [to_move flip_pos]. destruct pc as [c k]. cbn [fpc fst snd]. rewrite color_eqb_opp2.
  destruct (color_eqb c (to_move p)); [apply (piece_moves_flip p s (c, k) Hs)|apply Permutation_refl].
Qed.

(* shape of pseudo-legal moves *)
Lemma pawn_to_shape c s t u : In u (pawn_to c s t) -> from u = s /\ to u = t /\ prom u <> Some King.
Proof.
  unfold pawn_to. destruct (rowZ t =? last_row c).
  - intros H. apply in_map_iff in H as (k & <- & Hk). cbn [from to prom]. repeat split.
    intros E. injection E as ->. cbn in Hk. intuition discriminate.
  - intros [<-|[]]. cbn. repeat split. discriminate.
Qed.

Lemma piece_moves_shape p s pc u : 0 <= s < 64 -> In u (piece_moves p s pc) ->
  from u = s /\ 0 <= to u < 64 /\ prom u <> Some King.
Proof.
  intros Hs. destruct pc as [c k].
  assert (STD : forall k', In u (map (mk_from s) (filter (fun t => negb (own p c t)) (attacked_from p s (c, k')))) ->
                           from u = s /\ 0 <= to u < 64 /\ prom u <> Some King).
  { intros k' H. apply in_map_iff in H as (t & <- & Ht). apply filter_In in Ht as [Ht _].
    apply attacked_from_in_range in Ht. cbn. repeat split; try lia. discriminate. }
  destruct k; try exact (STD _).
  - unfold piece_moves. cbn [fst snd]. cbv zeta. intros H. apply in_app_iff in H as [H|H].
    + destruct (on_board (fileZ s) (rowZ s + forward c)) eqn:Eb; cbn [andb] in H; [|destruct H].
      pose proof (on_board_sq _ _ Eb) as R1.
      destruct (empty p (sq_of (fileZ s) (rowZ s + forward c))); [|destruct H].
      apply in_app_iff in H as [H|H].
      * apply pawn_to_shape in H as (A & B & C). rewrite B. auto.
      * destruct (Z.eqb_spec (rowZ s) (start_row c)) as [Er|Er]; cbn [andb] in H; [|destruct H].
        destruct (empty p _); [|destruct H]. destruct H as [<-|[]]. cbn [from to prom].
        pose proof (fileZ_range s). repeat split; try discriminate; rewrite Er; unfold sq_of; destruct c; cbn; lia.
    + apply in_flat_map in H as (t & Ht & H). apply attacked_from_in_range in Ht.
      destruct (_ || _); [|destruct H]. apply pawn_to_shape in H as (A & B & C). rewrite B. auto.
  - unfold piece_moves. cbn [fst snd]. cbv zeta. intros H. apply in_app_iff in H as [H|H]; [exact (STD King H)|].
    assert (R : forall k, 0 <= k < 8 -> 0 <= sq_of k (home_row c) < 64) by (intros k Hk; unfold sq_of; destruct c; cbn; lia).
    destruct (_ && _); [|destruct H]. apply in_app_iff in H as [H|H].
    + destruct (_ && _ && _ && _ && _); [|destruct H]. destruct H as [<-|[]]. cbn. repeat split; try apply R; try lia. discriminate.
    + destruct (_ && _ && _ && _ && _ && _); [|destruct H]. destruct H as [<-|[]]. cbn. repeat split; try apply R; try lia. discriminate.
Qed.

Theorem pseudo_moves_shape p u : In u (pseudo_moves p) ->
  0 <= from u < 64 /\ 0 <= to u < 64 /\ prom u <> Some King /\
  exists k, get p (from u) = Some (to_move p, k).
Proof.
  unfold pseudo_moves. intros H. apply in_flat_map in H as (s & Hs & H). apply in_squares_iff in Hs.
  destruct (get p s) as [[c k]|] eqn:Eg; [|destruct H]. cbn [fst] in H.
  destruct (color_eqb c (to_move p)) eqn:Ec; [|destruct H].
  apply piece_moves_shape in H as (A & B & C); [|exact Hs]. rewrite A. repeat split; try lia; try exact C.
  exists k. rewrite Eg. f_equal. f_equal. destruct c, (to_move p); try reflexivity; discriminate Ec.
Qed.

(* ================================================================== *)
(* Part 6: making a move                                               *)
(* ================================================================== *)

Lemma length_put cs s v : length (put cs s v) = length cs.
Proof. apply length_set_nth. Qed.

Lemma is_ep_capture_flip p u : 0 <= from u < 64 -> is_ep_capture (flip_pos p) (flip_umove u) = is_ep_capture p u.
Proof.
  intros Hf. unfold is_ep_capture. cbn [flip_umove from to]. rewrite get_flip' by exact Hf.
  destruct (get p (from u)) as [[c k]|]; cbn [fcell option_map fpc fst snd]; [|reflexivity].
  destruct k; try reflexivity. cbn [epsq flip_pos]. destruct (epsq p) as [e|]; cbn [option_map]; [|reflexivity].
  now rewrite fsq_eqb2, !fileZ_fsq.
Qed.

Lemma is_castling_flip p u : 0 <= from u < 64 -> is_castling (flip_pos p) (flip_umove u) = is_castling p u.
Proof.
  intros Hf. unfold is_castling. cbn [flip_umove from to]. rewrite get_flip' by exact Hf.
  destruct (get p (from u)) as [[c k]|]; cbn [fcell option_map fpc fst snd]; [|reflexivity].
  destruct k; try reflexivity. now rewrite !fileZ_fsq.
Qed.

Lemma is_pawn_move_flip p u : 0 <= from u < 64 -> is_pawn_move (flip_pos p) (flip_umove u) = is_pawn_move p u.
Proof.
  intros Hf. unfold is_pawn_move. cbn [flip_umove from to]. rewrite get_flip' by exact Hf.
  destruct (get p (from u)) as [[c k]|]; cbn [fcell option_map fpc fst snd]; [|reflexivity]. destruct k; reflexivity.
Qed.

Theorem is_capture_flip p u : 0 <= from u < 64 -> 0 <= to u < 64 -> is_capture (flip_pos p) (flip_umove u) = is_capture p u.
Proof.
  intros Hf Ht. unfold is_capture. rewrite is_ep_capture_flip by exact Hf. cbn [flip_umove to].
  now rewrite empty_flip by exact Ht.
Qed.

Theorem capture_or_promotion_flip p u : 0 <= from u < 64 -> 0 <= to u < 64 ->
  capture_or_promotion (flip_pos p) (flip_umove u) = capture_or_promotion p u.
Proof. intros Hf Ht. unfold capture_or_promotion. now rewrite is_capture_flip. Qed.

Lemma pos_eq p q :
  cells p = cells q -> to_move p = to_move q -> wk p = wk q -> wq p = wq q -> bk p = bk q -> bq p = bq q ->
  epsq p = epsq q -> halfc p = halfc q -> fullc p = fullc q -> p = q.
Proof. destruct p, q. cbn. intros. subst. reflexivity. Qed.

Lemma fsq_consts : fsq 60 = 4 /\ fsq 63 = 7 /\ fsq 56 = 0 /\ fsq 4 = 60 /\ fsq 7 = 63 /\ fsq 0 = 56.
Proof. repeat split; reflexivity. Qed.

(* apply commutes with the flip in every component except the full-move number *)
Theorem apply_flip p u n : length (cells p) = 64%nat -> 0 <= from u < 64 -> 0 <= to u < 64 ->
  with_full (apply (flip_pos p) (flip_umove u)) n = with_full (flip_pos (apply p u)) n.
Proof.
  intros HL Hf Ht. unfold apply.
  rewrite is_ep_capture_flip, is_castling_flip, is_pawn_move_flip, is_capture_flip by assumption.
  cbn [flip_umove from to prom]. rewrite get_flip' by exact Hf.
  destruct (get p (from u)) as [pc|] eqn:Eg; cbn [fcell option_map]; [|reflexivity].
  pose proof (fileZ_range (to u)) as Hft. pose proof (fileZ_range (from u)) as Hff.
  pose proof (rowZ_range _ Hf) as Hrf. pose proof (rowZ_range _ Ht) as Hrt.
  destruct fsq_consts as (C60 & C63 & C56 & C4 & C7 & C0).
  apply pos_eq; cbn [with_full flip_pos cells to_move wk wq bk bq epsq halfc fullc]; try reflexivity.
  - (* cells *)
    rewrite !fileZ_fsq, !rowZ_fsq.
    assert (P : match prom u with Some k => Some (opp (to_move p), k) | None => Some (fpc pc) end
                = fcell (match prom u with Some k => Some (to_move p, k) | None => Some pc end))
      by (destruct (prom u); reflexivity).
    assert (Re : 0 <= sq_of (fileZ (to u)) (rowZ (from u)) < 64) by (unfold sq_of; lia).
    assert (Rk : forall k, 0 <= k < 8 -> 0 <= sq_of k (rowZ (from u)) < 64) by (intros k Hk; unfold sq_of; lia).
    assert (Fk : forall k, 0 <= k < 8 -> sq_of k (7 - rowZ (from u)) = fsq (sq_of k (rowZ (from u)))) by (intros k Hk; now rewrite fsq_sq_of).
    rewrite (Fk (fileZ (to u))) by exact Hft. rewrite !Fk by lia.
    destruct (is_castling p u); [destruct (fileZ (to u) =? 6)|]; destruct (is_ep_capture p u);
      repeat (rewrite fcells_put by (first [rewrite ?length_put; exact HL|assumption|apply Rk; lia]));
      rewrite P; reflexivity.
  - rewrite !fsq_eqb, C60, C63. reflexivity.
  - rewrite !fsq_eqb, C60, C56. reflexivity.
  - rewrite !fsq_eqb, C4, C7. reflexivity.
  - rewrite !fsq_eqb, C4, C0. reflexivity.
  - rewrite !fileZ_fsq, !rowZ_fsq.
    replace (Z.abs (7 - rowZ (to u) - (7 - rowZ (from u))) =? 2) with (Z.abs (rowZ (to u) - rowZ (from u)) =? 2) by lia.
    destruct (is_pawn_move p u); cbn [andb option_map]; [|reflexivity].
    destruct (Z.eqb_spec (Z.abs (rowZ (to u) - rowZ (from u))) 2) as [E|E]; cbn [option_map]; [|reflexivity].
    rewrite fsq_sq_of by exact Hff. f_equal. f_equal. dlia.
Qed.

(* ... and the full-move numbers: the rules advance it after Black's move *)
Theorem apply_flip_fullc p u : get p (from u) <> None -> 0 <= from u < 64 ->
  fullc (apply p u) = (match to_move p with Black => fullc p + 1 | White => fullc p end)%N /\
  fullc (apply (flip_pos p) (flip_umove u)) = (match to_move p with White => fullc p + 1 | Black => fullc p end)%N.
Proof.
  intros Hg Hf. unfold apply. cbn [flip_umove from]. rewrite get_flip' by exact Hf.
  destruct (get p (from u)) as [pc|]; [|contradiction]. cbn [fcell option_map fullc flip_pos to_move].
  destruct (to_move p); split; reflexivity.
Qed.

(* check detection reads the cells only *)
Lemma get_cells p q s : cells p = cells q -> get p s = get q s.
Proof. unfold get. now intros ->. Qed.

Lemma slide_cells p q n : cells p = cells q -> forall f r d, slide p n f r d = slide q n f r d.
Proof.
  intros E. induction n as [|n IH]; intros f r d; cbn [slide]; [reflexivity|].
  rewrite (get_cells p q _ E). destruct (on_board _ _); [|reflexivity]. destruct (get q _); [reflexivity|]. now rewrite IH.
Qed.

Lemma attacked_from_cells p q s pc : cells p = cells q -> attacked_from p s pc = attacked_from q s pc.
Proof.
  intros E. unfold attacked_from.
  destruct (snd pc); [reflexivity|reflexivity| | | |reflexivity]; apply flat_map_ext; intros d; now apply slide_cells.
Qed.

Lemma attacked_cells p q t c : cells p = cells q -> attacked p t c = attacked q t c.
Proof.
  intros E. unfold attacked. apply existsb_ext_in. intros s _. rewrite (get_cells p q s E).
  destruct (get q s) as [pc|]; [|reflexivity]. now rewrite (attacked_from_cells p q s pc E).
Qed.

Lemma in_check_cells p q c : cells p = cells q -> in_check p c = in_check q c.
Proof.
  intros E. unfold in_check, king_sq.
  replace (find (fun s => match get p s with Some (c', King) => color_eqb c c' | _ => false end) squares)
    with (find (fun s => match get q s with Some (c', King) => color_eqb c c' | _ => false end) squares).
  - destruct (find _ squares); [now apply attacked_cells|reflexivity].
  - generalize squares. intros l. induction l as [|a r IH]; cbn [find]; [reflexivity|].
    rewrite (get_cells p q a E). now rewrite IH.
Qed.

Lemma in_check_with_full p n c : in_check (with_full p n) c = in_check p c.
Proof. now apply in_check_cells. Qed.

(* ---- the mover keeps at most one king ---- *)
Definition getc (cs : list (option piece)) (s : Z) : option piece := nth (Z.to_nat s) cs None.

Lemma getc_put cs s t v : 0 <= s -> 0 <= t < Z.of_nat (length cs) ->
  getc (put cs t v) s = if s =? t then v else getc cs s.
Proof.
  intros Hs Ht. unfold getc, put. rewrite nth_set_nth.
  destruct (Nat.eqb_spec (Z.to_nat s) (Z.to_nat t)) as [E|E]; destruct (Z.eqb_spec s t) as [E'|E']; try lia; try reflexivity.
  destruct (Nat.ltb_spec (Z.to_nat t) (length cs)); [reflexivity|lia].
Qed.

Lemma apply_king p u pc s c : length (cells p) = 64%nat -> 0 <= from u < 64 -> 0 <= to u < 64 ->
  get p (from u) = Some pc -> prom u <> Some King -> 0 <= s < 64 ->
  get (apply p u) s = Some (c, King) ->
  (s = to u /\ pc = (c, King)) \/ (get p s = Some (c, King) /\ s <> from u).
Proof.
  intros HL Hf Ht Eg Hp Hs. unfold apply. rewrite Eg. unfold get at 1. cbn [cells].
  fold (getc (cells p) s).
  pose proof (fileZ_range (to u)) as Hft. pose proof (rowZ_range _ Hf) as Hrf.
  assert (Rk : forall k, 0 <= k < 8 -> 0 <= sq_of k (rowZ (from u)) < 64) by (intros k Hk; unfold sq_of; lia).
  match goal with |- nth _ ?cs _ = _ -> _ => change (getc cs s = Some (c, King) -> (s = to u /\ pc = (c, King)) \/ (get p s = Some (c, King) /\ s <> from u)) end.
  assert (PL : match prom u with Some k => Some (to_move p, k) | None => Some pc end = Some (c, King) -> pc = (c, King)).
  { destruct (prom u) as [k|]; intros E; [|congruence]. injection E as E1 E2. subst k. contradiction. }
  destruct (is_castling p u); [destruct (fileZ (to u) =? 6)|]; destruct (is_ep_capture p u);
    repeat (rewrite getc_put by (rewrite ?length_put, ?HL; first [lia|split; [apply Rk; lia|apply Rk; lia]|pose proof (Rk (fileZ (to u)) Hft); lia|pose proof (Rk 0 ltac:(lia)); pose proof (Rk 3 ltac:(lia)); pose proof (Rk 5 ltac:(lia)); pose proof (Rk 7 ltac:(lia)); lia]));
    repeat match goal with |- context [if ?a =? ?b then _ else _] => destruct (Z.eqb_spec a b) end;
    intros H; try discriminate H; try (left; split; [assumption|now apply PL]); try (right; split; assumption).
Qed.

Theorem apply_uniq_king p u pc c : length (cells p) = 64%nat -> 0 <= from u < 64 -> 0 <= to u < 64 ->
  get p (from u) = Some pc -> prom u <> Some King -> uniq_king p c -> uniq_king (apply p u) c.
Proof.
  intros HL Hf Ht Eg Hp U s1 s2 H1 H2 G1 G2.
  destruct (apply_king p u pc s1 c HL Hf Ht Eg Hp H1 G1) as [[A1 B1]|[A1 B1]];
    destruct (apply_king p u pc s2 c HL Hf Ht Eg Hp H2 G2) as [[A2 B2]|[A2 B2]].
  - congruence.
  - exfalso. apply B2. apply U; try assumption. now rewrite Eg, B1.
  - exfalso. apply B1. apply U; try assumption. now rewrite Eg, B2.
  - now apply U.
Qed.

Theorem legal_flip p u : length (cells p) = 64%nat -> (count_kind p (to_move p) King <= 1)%nat ->
  In u (pseudo_moves p) -> legal (flip_pos p) (flip_umove u) = legal p u.
Proof.
  intros HL Hc Hu. destruct (pseudo_moves_shape p u Hu) as (Hf & Ht & Hp & k & Eg).
  unfold legal. f_equal. cbn [to_move flip_pos].
  rewrite <- (in_check_with_full (apply (flip_pos p) (flip_umove u)) 0).
  rewrite (apply_flip p u 0 HL Hf Ht). rewrite in_check_with_full.
  apply in_check_flip. apply uniq_king_count. eapply apply_uniq_king; try eassumption. now apply uniq_king_count.
Qed.

Theorem legal_moves_flip p : length (cells p) = 64%nat -> (count_kind p (to_move p) King <= 1)%nat ->
  Permutation (legal_moves (flip_pos p)) (map flip_umove (legal_moves p)).
Proof.
  intros HL Hc. unfold legal_moves.
  eapply Permutation_trans; [apply filter_perm, pseudo_moves_flip|].
  rewrite filter_map_comm. erewrite filter_ext_in'; [apply Permutation_refl|].
  intros u Hu. now apply legal_flip.
Qed.

Lemma flip_umove_invol u : flip_umove (flip_umove u) = u.
Proof. destruct u as [f t pr]. unfold flip_umove. cbn. now rewrite !fsq_invol. Qed.

Lemma perm_nil_iff {A B} (f : A -> B) l l' : Permutation l' (map f l) -> (l' = [] <-> l = []).
Proof.
  intros HP. split; intros E.
  - subst l'. apply Permutation_nil in HP. now destruct l.
  - subst l. now apply Permutation_sym, Permutation_nil in HP.
Qed.

Theorem checkmate_flip p : length (cells p) = 64%nat -> (count_kind p (to_move p) King <= 1)%nat ->
  checkmate (flip_pos p) = checkmate p.
Proof.
  intros HL Hc. unfold checkmate. pose proof (perm_nil_iff _ _ _ (legal_moves_flip p HL Hc)) as N.
  cbn [to_move flip_pos]. rewrite (in_check_flip p _ Hc).
  destruct (legal_moves p) as [|a r]; destruct (legal_moves (flip_pos p)) as [|a' r']; try reflexivity; exfalso.
  - destruct N as [_ N]. discriminate (N eq_refl).
  - destruct N as [N _]. discriminate (N eq_refl).
Qed.

Theorem stalemate_flip p : length (cells p) = 64%nat -> (count_kind p (to_move p) King <= 1)%nat ->
  stalemate (flip_pos p) = stalemate p.
Proof.
  intros HL Hc. unfold stalemate. pose proof (perm_nil_iff _ _ _ (legal_moves_flip p HL Hc)) as N.
  cbn [to_move flip_pos]. rewrite (in_check_flip p _ Hc).
  destruct (legal_moves p) as [|a r]; destruct (legal_moves (flip_pos p)) as [|a' r']; try reflexivity; exfalso.
  - destruct N as [_ N]. discriminate (N eq_refl).
  - destruct N as [N _]. discriminate (N eq_refl).
Qed.

(* ================================================================== *)
(* Part 7: legal positions                                             *)
(* ================================================================== *)

Lemma is_piece_flip' p s c k : 0 <= s < 64 -> is_piece (flip_pos p) s c k = is_piece p (fsq s) (opp c) k.
Proof.
  intros Hs. rewrite <- (fsq_invol s) at 1. rewrite <- (opp_invol c) at 1. apply is_piece_flip. now apply fsq_range.
Qed.

Definition edge_rows : list Z := map Z.of_nat (seq 0 8 ++ seq 56 8).

Lemma edge_rows_flip : Permutation (map fsq edge_rows) edge_rows.
Proof. apply (permb_sound Z Z.eqb z_eqb_eq). vm_compute. reflexivity. Qed.

Lemma edge_rows_range s : In s edge_rows -> 0 <= s < 64.
Proof.
  unfold edge_rows. intros H. apply in_map_iff in H as (i & <- & Hi). apply in_app_iff in Hi as [Hi|Hi]; apply in_seq in Hi; lia.
Qed.

Lemma edge_pawns_flip p :
  forallb (fun s => negb (is_piece (flip_pos p) s White Pawn || is_piece (flip_pos p) s Black Pawn)) edge_rows
  = forallb (fun s => negb (is_piece p s White Pawn || is_piece p s Black Pawn)) edge_rows.
Proof.
  rewrite <- (forallb_perm (fun s => negb (is_piece p s White Pawn || is_piece p s Black Pawn)) _ _ edge_rows_flip).
  rewrite forallb_map. apply forallb_ext_in. intros s Hs. apply edge_rows_range in Hs.
  rewrite !is_piece_flip' by exact Hs. cbn [opp]. now rewrite orb_comm.
Qed.

Theorem ep_consistent_flip p : ep_consistent (flip_pos p) = ep_consistent p.
Proof.
  unfold ep_consistent. cbn [epsq flip_pos to_move]. destruct (epsq p) as [e|]; cbn [option_map]; [|reflexivity].
  set (m := opp (to_move p)). rewrite rowZ_fsq, fileZ_fsq, forward_opp.
  replace (7 - rowZ e =? match opp m with White => 5 | Black => 2 end) with (rowZ e =? match m with White => 5 | Black => 2 end)
    by (destruct m; cbn [opp]; lia).
  destruct (Z.eqb_spec (rowZ e) (match m with White => 5 | Black => 2 end)) as [Er|Er]; cbn [andb]; [|reflexivity].
  pose proof (fileZ_range e) as Hf.
  assert (Hr : rowZ e = 5 \/ rowZ e = 2) by (destruct m; lia).
  assert (He : 0 <= e < 64) by (rewrite <- (sq_of_file_row e); unfold sq_of; lia).
  assert (Hfw : forward m = 1 \/ forward m = -1) by (destruct m; cbn; lia).
  replace (7 - rowZ e + - forward m) with (7 - (rowZ e + forward m)) by lia.
  replace (7 - rowZ e - - forward m) with (7 - (rowZ e - forward m)) by lia.
  rewrite <- !fsq_sq_of by exact Hf.
  rewrite is_piece_flip by (unfold sq_of; lia). rewrite !empty_flip by (first [exact He|unfold sq_of; lia]).
  reflexivity.
Qed.

Theorem legal_pos_flip p : length (cells p) = 64%nat -> legal_pos (flip_pos p) = legal_pos p.
Proof.
  intros HL. unfold legal_pos. fold edge_rows.
  rewrite ep_consistent_flip, edge_pawns_flip. cbn [cells flip_pos]. rewrite length_fcells, HL. cbn [Nat.eqb andb].
  change White with (opp Black) at 1. rewrite count_kind_flip.
  change Black with (opp White) at 2. rewrite count_kind_flip.
  cbn [wk wq bk bq to_move flip_pos].
  rewrite !is_piece_flip' by lia.
  change (fsq 60) with 4. change (fsq 63) with 7. change (fsq 56) with 0.
  change (fsq 4) with 60. change (fsq 7) with 63. change (fsq 0) with 56. cbn [opp].
  destruct (Nat.eqb_spec (count_kind p White King) 1) as [EW|EW]; destruct (Nat.eqb_spec (count_kind p Black King) 1) as [EB|EB];
    cbn [andb]; try reflexivity.
  rewrite (in_check_flip p (opp (to_move p))) by (destruct (to_move p); cbn [opp]; lia).
  destruct (negb (in_check p (opp (to_move p)))); cbn [andb]; [|reflexivity].
  destruct (forallb _ edge_rows); cbn [andb]; [|reflexivity].
  destruct (negb (wk p) || _), (negb (wq p) || _), (negb (bk p) || _), (negb (bq p) || _); reflexivity.
Qed.

(* the length hypothesis is needed: flip_pos always produces 64 cells *)
Lemma legal_pos_flip_needs_length : exists p, legal_pos (flip_pos p) = true /\ legal_pos p = false.
Proof.
  exists {| cells := map (fun s => if s =? 4 then Some (Black, King) else if s =? 60 then Some (White, King) else None) squares ++ [None];
            to_move := White; wk := false; wq := false; bk := false; bq := false; epsq := None; halfc := 0; fullc := 1 |}.
  split; vm_compute; reflexivity.
Qed.

(* ================================================================== *)
(* Part 8: the model's colour flip (Proofs/EvalProofs.v) is flip_pos   *)
(* ================================================================== *)
Require Import Ink.Lib.Bits Ink.Model.Board.
Require Import Ink.Proofs.Abs Ink.Proofs.AbsProofs Ink.Proofs.EvalProofs.
Open Scope Z_scope.

Lemma mirror_fsq sq : (sq < 64)%N -> Z.of_N (mirror sq) = fsq (Z.of_N sq).
Proof.
  intros H. destruct (mirror_facts sq H) as (_ & E & _). rewrite E. unfold fsq, sq_of, fileZ, rowZ.
  zify. Z.to_euclidean_division_equations. lia.
Qed.

Lemma cell_of_flip b sq : wf b = true -> (sq < 64)%N -> cell_of (flip b) sq = fcell (cell_of b (mirror sq)).
Proof.
  intros Hwf Hsq. pose proof (flip_wf b Hwf) as Hwf'.
  assert (K : forall c k, cell_of (flip b) sq = Some (c, k) <-> cell_of b (mirror sq) = Some (opp c, k)).
  { intros c k. rewrite (cell_of_iff (flip b) sq c k Hwf'), (cell_of_iff b (mirror sq) (opp c) k Hwf).
    rewrite bb_of_flip. rewrite flip_bb_testbit by (first [apply wf_bb_u64; exact Hwf|exact Hsq]). reflexivity. }
  destruct (cell_of b (mirror sq)) as [[c k]|] eqn:E; cbn [fcell option_map fpc fst snd].
  - apply K. now rewrite opp_invol.
  - destruct (cell_of (flip b) sq) as [[c k]|] eqn:E'; [|reflexivity]. exfalso.
    destruct (K c k) as [K1 _]. specialize (K1 eq_refl). discriminate K1.
Qed.

Theorem abs_flip b : wf b = true -> ep b <> 56%N -> abs (flip b) = flip_pos (abs b).
Proof.
  intros Hwf He. pose proof (wf_turn b Hwf) as Ht.
  apply pos_eq; cbn [abs flip flip_pos cells to_move wk wq bk bq epsq halfc fullc Board.white Board.black Board.turn Board.ep
                      Board.half Board.full flip_p Board.ks Board.qs]; try reflexivity.
  - apply (nth_ext _ _ None None); [now rewrite length_fcells, map_length, seq_length|].
    intros i Hi. rewrite map_length, seq_length in Hi.
    rewrite (nth_indep _ None (cell_of (flip b) (N.of_nat 0))) by (rewrite map_length, seq_length; lia).
    rewrite (map_nth (fun i => cell_of (flip b) (N.of_nat i))), seq_nth by lia. rewrite Nat.add_0_l.
    replace i with (Z.to_nat (Z.of_nat i)) at 2 by lia. rewrite nth_fcells by lia.
    change (nth (Z.to_nat (fsq (Z.of_nat i))) (map (fun i0 => cell_of b (N.of_nat i0)) (seq 0 64)) None)
      with (get (abs b) (fsq (Z.of_nat i))).
    assert (Hn : (N.of_nat i < 64)%N) by lia.
    replace (Z.of_nat i) with (Z.of_N (N.of_nat i)) by lia. rewrite <- mirror_fsq by exact Hn.
    rewrite get_abs by (now apply mirror_lt64). now apply cell_of_flip.
  - unfold opposite. assert (turn b = 0 \/ turn b = 1)%N as [-> | ->] by lia; reflexivity.
  - unfold flip_ep. destruct (N.eqb_spec (ep b) 0) as [E0|E0]; cbn [option_map]; [reflexivity|].
    destruct (N.eqb_spec (mirror (ep b)) 0) as [E1|E1].
    + exfalso. apply He. rewrite <- (mirror_involutive (ep b)), E1. reflexivity.
    + f_equal. apply mirror_fsq. destruct (wf_unpack b Hwf) as (_ & _ & _ & _ & _ & H6 & _). exact H6.
Qed.

(* ================================================================== *)
(* Part 9: what does NOT hold (witnesses by computation)               *)
(* ================================================================== *)
Require Import Ink.Model.Fen Ink.Proofs.MakeUnmake.
Open Scope Z_scope.

Definition kind_eq (a b : option kind) : bool :=
  match a, b with Some x, Some y => kind_eqb x y | None, None => true | _, _ => false end.
Definition mv_eqb (a b : mv) : bool := (from a =? from b) && (to a =? to b) && kind_eq (prom a) (prom b).
Fixpoint list_eqb (l1 l2 : list mv) : bool :=
  match l1, l2 with [] , [] => true | a :: r, b :: s => mv_eqb a b && list_eqb r s | _, _ => false end.

Lemma list_eqb_false l1 l2 : list_eqb l1 l2 = false -> l1 <> l2.
Proof.
  revert l2. induction l1 as [|a r IH]; intros [|b s] H E; try discriminate; cbn [list_eqb] in H.
  injection E as -> ->. apply andb_false_iff in H as [H|H]; [|now apply (IH s)].
  unfold mv_eqb in H. rewrite !Z.eqb_refl in H. destruct (prom b) as [[]|]; discriminate.
Qed.

Definition start_pos : pos := abs (board_of_text STARTPOS).

(* the enumeration order of Rules.legal_moves is not preserved: only Permutation *)
Theorem legal_moves_flip_not_list : exists p,
  legal_pos p = true /\ legal_moves (flip_pos p) <> map flip_umove (legal_moves p).
Proof. exists start_pos. split; [vm_compute; reflexivity|]. apply list_eqb_false. vm_compute. reflexivity. Qed.

(* exact equality of the successor fails on the full-move number: after White's e2e4 it is still 1, after the twin's
   (Black's) e7e5 it is 2 *)
Theorem apply_flip_refuted : exists p u,
  legal_pos p = true /\ In u (legal_moves p) /\ apply (flip_pos p) (flip_umove u) <> flip_pos (apply p u) /\
  fullc (apply (flip_pos p) (flip_umove u)) = 2%N /\ fullc (flip_pos (apply p u)) = 1%N.
Proof.
  exists start_pos, {| from := 52; to := 36; prom := None |}.
  assert (F : fullc (apply (flip_pos start_pos) (flip_umove {| from := 52; to := 36; prom := None |})) = 2%N) by (vm_compute; reflexivity).
  assert (G : fullc (flip_pos (apply start_pos {| from := 52; to := 36; prom := None |})) = 1%N) by (vm_compute; reflexivity).
  split; [vm_compute; reflexivity|]. split; [vm_compute; tauto|]. split; [|split; assumption].
  intros E. rewrite E in F. rewrite F in G. discriminate G.
Qed.

(* with two kings of one colour `in_check` looks at the first one in square order, which the flip changes *)
Definition two_kings : pos :=
  {| cells := map (fun s => if s =? 0 then Some (White, King) else if s =? 63 then Some (White, King)
                            else if s =? 1 then Some (Black, Rook) else if s =? 20 then Some (Black, King) else None) squares;
     to_move := White; wk := false; wq := false; bk := false; bq := false; epsq := None; halfc := 0; fullc := 1 |}.
Theorem in_check_flip_needs_one_king :
  in_check two_kings White = true /\ in_check (flip_pos two_kings) (opp White) = false /\ count_kind two_kings White King = 2%nat.
Proof. vm_compute. repeat split; reflexivity. Qed.

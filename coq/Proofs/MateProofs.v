(* Proofs/MateProofs.v : forced mates on the spec level (Spec/Minimax.v), property C08 second half.

   All statements are about EXTENSION TREES (hence also about nm, via the nominal tree), because a table-using
   search may value a node by a deeper tree:
     mate_lower   a forced mate in <= n is worth at least mate_value n in every tree of depth >= 2n-1
     mate_upper   no forced mate in <= n: every tree is worth at most mate_value (n+1)
     mate_stable  mate_in n p -> every tree of depth >= 2n-1 has value exactly mate_value n p
     nm_mate, best_move_keeps_mate, pv_mate_line *)
Require Import NArith ZArith List Bool Lia Permutation.
Import ListNotations.
Require Import Ink.Spec.Minimax Ink.Model.SearchCore Ink.Proofs.MinimaxProofs Ink.Proofs.AlphaBeta Ink.Proofs.AlphaBetaInst.
Open Scope Z_scope.

Arguments Z.add : simpl never.
Arguments Z.sub : simpl never.
Arguments Z.mul : simpl never.
Arguments Z.opp : simpl never.
Arguments Z.max : simpl never.
Arguments Z.min : simpl never.
Arguments Z.of_nat : simpl never.

Lemma forallb_false_exists {A : Type} (f : A -> bool) l : forallb f l = false -> exists x, In x l /\ f x = false.
Proof.
  induction l as [|a l IH]; cbn [forallb]; [discriminate|]. intros H. apply andb_false_iff in H.
  destruct H as [H|H]; [exists a; split; [now left|exact H]|].
  destruct (IH H) as (x & Hx & Hf). exists x. split; [now right|exact Hf].
Qed.

Section Mate.
Variable pos : Type.
Variable succs : pos -> list pos.
Variable noisy_succs : pos -> list pos.
Variable noisy_any : pos -> bool.
Variable static : pos -> Z.
Variable terminal : pos -> Z.
Variable qmeasure : pos -> nat.
Variable checkmated : pos -> bool.
Variable W : Z.
Variable M : Z.
Variable movenum : pos -> Z.
Variable black : pos -> bool.

Hypothesis Hdec : Minimax.qmeasure_dec pos noisy_succs qmeasure.
Hypothesis Hck : Minimax.checkmated_ok pos succs checkmated.
Hypothesis Htm : Minimax.terminal_mate pos terminal checkmated W movenum.
Hypothesis Hcs : Minimax.clock_step pos succs movenum black.
Hypothesis Hqs : Minimax.quiet_static pos static W M.
Hypothesis Hqt : Minimax.quiet_terminal pos succs terminal checkmated W M.
Hypothesis HMW : 0 <= M <= W.

Local Notation nm := (Minimax.nm pos succs noisy_succs noisy_any static terminal qmeasure).
Local Notation win_in := (Minimax.win_in pos succs checkmated).
Local Notation lose_in := (Minimax.lose_in pos succs checkmated).
Local Notation mate_in := (Minimax.mate_in pos succs checkmated).
Local Notation mate_value := (Minimax.mate_value pos W movenum black).
Local Notation bump := (Minimax.bump pos black).
Local Notation tree := (Minimax.tree pos).
Local Notation root := (Minimax.root pos).
Local Notation val := (Minimax.val pos succs noisy_succs noisy_any static terminal qmeasure).
Local Notation ext := (Minimax.ext pos succs).
Local Notation nomtree := (Minimax.nomtree pos succs).
Local Notation Leaf := (Minimax.Leaf pos).
Local Notation Node := (Minimax.Node pos).

(* full-move numbers for which mate scores stay inside the mate band *)
Definition good (p : pos) : Prop := 0 <= movenum p /\ movenum p + 2 <= M.
Local Notation allpos := (Minimax.allpos pos good).

(* value, for the side to move at q, of being mated by the opponent's k-th move from now *)
Definition lose_value (k : nat) (q : pos) : Z := - (W - (movenum q + Z.of_nat k)).

(* ---- win_in / lose_in, unfolded ---- *)
Lemma win_in_S k p : win_in (S k) p = true <-> exists q, In q (succs p) /\ lose_in k q = true.
Proof. cbn [Minimax.win_in]. rewrite existsb_exists. reflexivity. Qed.

Lemma win_in_S_false k p q : win_in (S k) p = false -> In q (succs p) -> lose_in k q = false.
Proof.
  intros H Hq. destruct (lose_in k q) eqn:E; [|reflexivity].
  assert (H' : win_in (S k) p = true) by (apply win_in_S; now exists q). congruence.
Qed.

Lemma lose_in_true k q : lose_in k q = true ->
  checkmated q = true \/ (succs q <> [] /\ forall r, In r (succs q) -> win_in k r = true).
Proof.
  unfold Minimax.lose_in. intros H. apply orb_true_iff in H. destruct H as [H|H]; [now left|right].
  apply andb_true_iff in H. destruct H as [H1 H2]. split.
  - unfold Minimax.nomoves in H1. destruct (succs q); [discriminate|discriminate].
  - now rewrite forallb_forall in H2.
Qed.

Lemma lose_in_false k q : lose_in k q = false ->
  checkmated q = false /\ (succs q = [] \/ exists r, In r (succs q) /\ win_in k r = false).
Proof.
  unfold Minimax.lose_in. intros H. apply orb_false_iff in H. destruct H as [H1 H2]. split; [exact H1|].
  apply andb_false_iff in H2. destruct H2 as [H2|H2].
  - left. unfold Minimax.nomoves in H2. destruct (succs q); [reflexivity|discriminate].
  - right. now apply forallb_false_exists.
Qed.

Lemma lose_in_checkmated k q : checkmated q = true -> lose_in k q = true.
Proof. intros H. unfold Minimax.lose_in. now rewrite H. Qed.

(* ---- clocks along a move ---- *)
Lemma step_movenum p q : In q (succs p) -> movenum q = movenum p + bump p.
Proof. intros H. exact (proj1 (Hcs p q H)). Qed.
Lemma step_bump p q : In q (succs p) -> bump q = 1 - bump p.
Proof. intros H. unfold Minimax.bump. rewrite (proj2 (Hcs p q H)). destruct (black p); reflexivity. Qed.
Lemma bump_range p : 0 <= bump p <= 1.
Proof. unfold Minimax.bump. destruct (black p); lia. Qed.

(* ---- leaves ---- *)
Lemma leaf_mated p : checkmated p = true -> nm 0 p = - (W - movenum p).
Proof. intros H. rewrite (MinimaxProofs.nm_nomoves pos succs) by now apply Hck. now apply Htm. Qed.

Lemma leaf_quiet p : checkmated p = false -> - (W - M) <= nm 0 p <= W - M.
Proof.
  intros H. destruct (succs p) as [|c r] eqn:E.
  - rewrite (MinimaxProofs.nm_nomoves pos succs) by exact E. now apply Hqt.
  - rewrite (MinimaxProofs.nm_0 pos succs). unfold Minimax.horizon, Minimax.nomoves. rewrite E.
    destruct (noisy_any p); [|apply Hqs].
    apply (MinimaxProofs.qs_bounds pos noisy_succs static qmeasure (- (W - M)) (W - M)); [exact Hqs|reflexivity].
Qed.

(* ---- shape of an extension tree ---- *)
Lemma ext_node_inv r p ts : ext r (Node p ts) ->
  succs p <> [] /\ Permutation (map root ts) (succs p) /\ Forall (ext (pred r)) ts.
Proof. intros H. inversion H; subst. auto. Qed.

Lemma ext_leaf_inv r p : ext r (Leaf p) -> r = 0%nat \/ succs p = [].
Proof. intros H. inversion H; subst; auto. Qed.

Lemma child_of_succ p ts q : Permutation (map root ts) (succs p) -> In q (succs p) -> exists c, In c ts /\ root c = q.
Proof.
  intros HP Hq. apply (Permutation_in _ (Permutation_sym HP)) in Hq. apply in_map_iff in Hq.
  destruct Hq as (c & Hc & Hin). now exists c.
Qed.

Lemma succ_of_child p ts c : Permutation (map root ts) (succs p) -> In c ts -> In (root c) (succs p).
Proof. intros HP Hc. apply (Permutation_in _ HP). now apply in_map. Qed.

Lemma children_nonempty p ts : succs p <> [] -> Permutation (map root ts) (succs p) -> ts <> [].
Proof. intros Hne HP ->. cbn [map] in HP. apply Permutation_nil in HP. now apply Hne. Qed.

(* ---- lower bounds: a forced mate is seen by every sufficiently deep tree ---- *)
Lemma mate_lower : forall t,
  (forall n r, win_in n (root t) = true -> ext r t -> (2 * n - 1 <= r)%nat -> mate_value n (root t) <= val t) /\
  (forall k r, lose_in k (root t) = true -> ext r t -> (2 * k <= r)%nat -> val t <= lose_value k (root t)).
Proof.
  induction t as [p|p ts IH] using (tree_ind2 pos); cbn [Minimax.root].
  - split.
    + intros n r Hw He Hr. exfalso. destruct n as [|n]; [discriminate|].
      apply win_in_S in Hw. destruct Hw as (q & Hq & _).
      destruct (ext_leaf_inv r p He) as [->|Hs]; [lia|]. rewrite Hs in Hq. destruct Hq.
    + intros k r Hl He Hr. rewrite (val_leaf pos succs noisy_succs noisy_any static terminal qmeasure).
      destruct (lose_in_true k p Hl) as [Hc|[Hne Hall]].
      * rewrite (leaf_mated p Hc). unfold lose_value. lia.
      * exfalso. destruct (succs p) as [|c0 l0] eqn:E; [now apply Hne|].
        destruct k as [|k]; [specialize (Hall c0 (or_introl eq_refl)); discriminate|].
        destruct (ext_leaf_inv r p He) as [->|Hs]; [lia|]. rewrite E in Hs. discriminate.
  - rewrite Forall_forall in IH. split.
    + intros n r Hw He Hr. destruct (ext_node_inv r p ts He) as (Hne & HP & HF). rewrite Forall_forall in HF.
      destruct n as [|n]; [discriminate|]. apply win_in_S in Hw. destruct Hw as (q & Hq & Hl).
      destruct (child_of_succ p ts q HP Hq) as (c & Hc & Hrc).
      destruct (IH c Hc) as [_ IHl]. rewrite Hrc in IHl.
      assert (Hv : val c <= lose_value n q) by (apply (IHl n (pred r)); [exact Hl|now apply HF|lia]).
      pose proof (val_node_ge pos succs noisy_succs noisy_any static terminal qmeasure p ts c Hc) as Hge.
      unfold Minimax.mate_value, lose_value in *. rewrite (step_movenum p q Hq) in Hv. lia.
    + intros k r Hl He Hr. destruct (ext_node_inv r p ts He) as (Hne & HP & HF). rewrite Forall_forall in HF.
      destruct (lose_in_true k p Hl) as [Hc|[_ Hall]]; [exfalso; apply Hne; now apply Hck|].
      destruct k as [|k].
      { exfalso. destruct (succs p) as [|c0 l0] eqn:E; [now apply Hne|].
        specialize (Hall c0 (or_introl eq_refl)). discriminate. }
      apply (val_node_le pos succs noisy_succs noisy_any static terminal qmeasure);
        [exact (children_nonempty p ts Hne HP)|].
      intros c Hc. pose proof (succ_of_child p ts c HP Hc) as Hq.
      destruct (IH c Hc) as [IHw _].
      assert (Hv : mate_value (S k) (root c) <= val c)
        by (apply (IHw (S k) (pred r)); [now apply Hall|now apply HF|lia]).
      unfold Minimax.mate_value, lose_value in *.
      rewrite (step_movenum p (root c) Hq), (step_bump p (root c) Hq) in Hv. lia.
Qed.

(* ---- upper bounds: without a forced mate in <= n no tree is worth more than a mate in n+1 ---- *)
Definition in_band (p : pos) (n : nat) : Prop := n = 0%nat \/ movenum p + bump p + Z.of_nat n + 1 <= M.
Definition in_band' (q : pos) (k : nat) : Prop := k = 0%nat \/ movenum q + Z.of_nat k + 1 <= M.

Lemma mate_upper : forall t r, ext r t -> allpos t ->
  (forall n, win_in n (root t) = false -> in_band (root t) n -> val t <= mate_value (S n) (root t)) /\
  (forall k, (k = 0%nat \/ lose_in (pred k) (root t) = false) -> in_band' (root t) k ->
             lose_value k (root t) <= val t).
Proof.
  induction t as [p|p ts IH] using (tree_ind2 pos); cbn [Minimax.root]; intros r He Hall.
  - rewrite (allpos_leaf pos good) in Hall. destruct Hall as [G1 G2]. pose proof (bump_range p) as Hb.
    rewrite (val_leaf pos succs noisy_succs noisy_any static terminal qmeasure). split.
    + intros n _ Hband. unfold Minimax.mate_value. unfold in_band in Hband.
      destruct (checkmated p) eqn:Ec; [rewrite (leaf_mated p Ec)|pose proof (leaf_quiet p Ec)]; lia.
    + intros k Hk Hband. unfold lose_value. unfold in_band' in Hband.
      destruct (checkmated p) eqn:Ec.
      * rewrite (leaf_mated p Ec). destruct Hk as [->|Hk]; [lia|].
        rewrite (lose_in_checkmated _ p Ec) in Hk. discriminate.
      * pose proof (leaf_quiet p Ec). lia.
  - rewrite (allpos_node pos good) in Hall. destruct Hall as [[G1 G2] Hch]. rewrite Forall_forall in IH, Hch.
    destruct (ext_node_inv r p ts He) as (Hne & HP & HF). rewrite Forall_forall in HF.
    pose proof (bump_range p) as Hb. pose proof (children_nonempty p ts Hne HP) as Hts.
    split.
    + intros n Hw Hband.
      apply (val_node_le pos succs noisy_succs noisy_any static terminal qmeasure); [exact Hts|].
      intros c Hc. pose proof (succ_of_child p ts c HP Hc) as Hq.
      destruct (IH c Hc (pred r) (HF c Hc) (Hch c Hc)) as [_ IHl].
      assert (Hv : lose_value n (root c) <= val c).
      { apply IHl.
        - destruct n as [|n]; [now left|right]. cbn [pred]. now apply (win_in_S_false n p).
        - unfold in_band, in_band' in *. rewrite (step_movenum p (root c) Hq). lia. }
      unfold Minimax.mate_value, lose_value in *. rewrite (step_movenum p (root c) Hq) in Hv. lia.
    + intros k Hk Hband. destruct k as [|k].
      * destruct ts as [|c ts']; [contradiction|]. assert (Hc : In c (c :: ts')) by now left.
        pose proof (succ_of_child p _ c HP Hc) as Hq.
        destruct (IH c Hc (pred r) (HF c Hc) (Hch c Hc)) as [IHw _].
        assert (Hv : val c <= mate_value 1 (root c)) by (apply IHw; [reflexivity|now left]).
        pose proof (val_node_ge pos succs noisy_succs noisy_any static terminal qmeasure p _ c Hc) as Hge.
        unfold Minimax.mate_value, lose_value in *.
        rewrite (step_movenum p (root c) Hq), (step_bump p (root c) Hq) in Hv. lia.
      * destruct Hk as [Hk|Hk]; [discriminate|]. cbn [pred] in Hk.
        destruct (lose_in_false k p Hk) as [_ [Hs|(q & Hq & Hwq)]]; [contradiction|].
        destruct (child_of_succ p ts q HP Hq) as (c & Hc & Hrc).
        destruct (IH c Hc (pred r) (HF c Hc) (Hch c Hc)) as [IHw _]. rewrite Hrc in IHw.
        assert (Hv : val c <= mate_value (S k) q).
        { apply IHw; [exact Hwq|]. unfold in_band, in_band' in *.
          rewrite (step_movenum p q Hq), (step_bump p q Hq). lia. }
        pose proof (val_node_ge pos succs noisy_succs noisy_any static terminal qmeasure p ts c Hc) as Hge.
        unfold Minimax.mate_value, lose_value in *.
        rewrite (step_movenum p q Hq), (step_bump p q Hq) in Hv. lia.
Qed.

(* ---- the exact value of a forced mate, stable under deeper search ---- *)
Theorem mate_stable : forall n p t r, (1 <= n)%nat -> mate_in n p -> root t = p -> ext r t -> (2 * n - 1 <= r)%nat ->
  allpos t -> movenum p + bump p + Z.of_nat n <= M -> val t = mate_value n p.
Proof.
  intros n p t r Hn [Hw Hnw] <- He Hr Hall Hband.
  destruct (mate_lower t) as [Lo _]. destruct (mate_upper t r He Hall) as [Up _].
  specialize (Lo n r Hw He Hr).
  assert (U : val t <= mate_value (S (pred n)) (root t)).
  { apply Up; [exact Hnw|]. unfold in_band. destruct n as [|[|n]]; [lia|now left|right]. cbn [pred]. lia. }
  replace (S (pred n)) with n in U by lia. lia.
Qed.

(* the full-move numbers of a nominal tree *)
Lemma nomtree_good : forall d p, 0 <= movenum p -> movenum p + Z.of_nat d + 2 <= M -> allpos (nomtree d p).
Proof.
  induction d as [|k IH]; intros p H0 H1; cbn [Minimax.nomtree].
  - rewrite (allpos_leaf pos good). unfold good. lia.
  - destruct (succs p) as [|c l] eqn:E; [rewrite (allpos_leaf pos good); unfold good; lia|]. rewrite <- E.
    rewrite (allpos_node pos good). split; [unfold good; lia|]. rewrite Forall_forall.
    intros t Ht. apply in_map_iff in Ht. destruct Ht as (q & <- & Hq).
    pose proof (step_movenum p q Hq). pose proof (bump_range p). apply IH; lia.
Qed.

(* ... in terms of nm *)
Theorem nm_mate : forall n d p, (1 <= n)%nat -> mate_in n p -> (2 * n - 1 <= d)%nat ->
  0 <= movenum p -> movenum p + Z.of_nat d + 2 <= M -> nm d p = mate_value n p.
Proof.
  intros n d p Hn Hm Hd H0 H1.
  rewrite <- (nomtree_val pos succs noisy_succs noisy_any static terminal qmeasure d p).
  apply (mate_stable n p (nomtree d p) d Hn Hm).
  - apply (nomtree_root pos succs).
  - apply (nomtree_ext pos succs).
  - exact Hd.
  - now apply nomtree_good.
  - pose proof (bump_range p). lia.
Qed.

(* a move that attains the mate value keeps the forced mate: the opponent is lost in n-1 *)
Theorem best_move_keeps_mate : forall n k p q, (1 <= n)%nat -> In q (succs p) ->
  - nm k q = mate_value n p -> 0 <= movenum p -> movenum p + Z.of_nat k + 3 <= M -> movenum p + bump p + Z.of_nat n + 1 <= M ->
  lose_in (pred n) q = true.
Proof.
  intros n k p q Hn Hq Hv H0 H1 H2. destruct (lose_in (pred n) q) eqn:E; [reflexivity|exfalso].
  pose proof (step_movenum p q Hq) as Hm. pose proof (bump_range p) as Hb.
  assert (Hg : allpos (nomtree k q)) by (apply nomtree_good; lia).
  destruct (mate_upper (nomtree k q) k (nomtree_ext pos succs k q) Hg) as [_ Up].
  rewrite (nomtree_root pos succs) in Up.
  assert (U : lose_value n q <= val (nomtree k q)).
  { apply Up; [now right|]. unfold in_band'. right. lia. }
  rewrite (nomtree_val pos succs noisy_succs noisy_any static terminal qmeasure) in U.
  unfold lose_value, Minimax.mate_value in *. lia.
Qed.

(* ---- the principal variation of a mate score is a real mating line ---- *)
Local Notation pvline := (AlphaBeta.pvline pos succs noisy_succs noisy_any static terminal qmeasure).
Local Notation legal_step := (AlphaBeta.legal_step pos succs).

Lemma last_cons (q : pos) l d : last (q :: l) d = last l q.
Proof. revert q d; induction l as [|x l IH]; intros q d; [reflexivity|]. cbn [last] in *. destruct l; [reflexivity|apply IH]. Qed.

Lemma mate_value_band n p : (1 <= n)%nat -> movenum p + bump p + Z.of_nat n <= M -> W - M < mate_value n p.
Proof. intros Hn H. unfold Minimax.mate_value. lia. Qed.

Lemma pv_mate_line : forall d p pv v, pvline d p pv v -> 0 <= movenum p -> movenum p + Z.of_nat d + 2 <= M ->
  (W - M < v -> exists line rest n, pv = line ++ rest /\ chain legal_step p line /\ (1 <= n)%nat /\
       length line = (2 * n - 1)%nat /\ (2 * n - 1 <= d)%nat /\ checkmated (last line p) = true /\ v = mate_value n p) /\
  (v < - (W - M) -> exists line rest k, pv = line ++ rest /\ chain legal_step p line /\
       length line = (2 * k)%nat /\ (2 * k <= d)%nat /\ checkmated (last line p) = true /\ v = lose_value k p).
Proof.
  assert (Hleaf : forall p v, v = nm 0 p -> 0 <= movenum p -> movenum p + 2 <= M ->
    (W - M < v -> False) /\
    (v < - (W - M) -> checkmated p = true /\ v = lose_value 0 p)).
  { intros p v -> H0 H1. destruct (checkmated p) eqn:Ec.
    - rewrite (leaf_mated p Ec). unfold lose_value. split; [lia|intros _; split; [reflexivity|lia]].
    - pose proof (leaf_quiet p Ec). split; intros; lia. }
  induction d as [|k IH]; intros p pv v Hpv H0 H1.
  - cbn [AlphaBeta.pvline] in Hpv. destruct Hpv as [Hv _].
    destruct (Hleaf p v Hv H0 ltac:(lia)) as [L1 L2]. split; [intros H; destruct (L1 H)|].
    intros H. destruct (L2 H) as [Hc Hlv]. exists [], pv, 0%nat. cbn [app chain length last].
    repeat split; try assumption; lia.
  - cbn [AlphaBeta.pvline] in Hpv. destruct Hpv as [Hv Hpv].
    destruct (succs p) as [|c0 r0] eqn:E.
    + subst pv. assert (Hv0 : v = nm 0 p).
      { rewrite Hv. now rewrite !(MinimaxProofs.nm_nomoves pos succs) by exact E. }
      destruct (Hleaf p v Hv0 H0 ltac:(lia)) as [L1 L2]. split; [intros H; destruct (L1 H)|].
      intros H. destruct (L2 H) as [Hc Hlv]. exists [], [], 0%nat. cbn [app chain length last].
      repeat split; try assumption; lia.
    + destruct Hpv as (q & pv' & -> & Hq & Hpv'). rewrite <- E in Hq.
      pose proof (step_movenum p q Hq) as Hm. pose proof (step_bump p q Hq) as Hb. pose proof (bump_range p) as Hbr.
      destruct (IH q pv' (- v) Hpv' ltac:(lia) ltac:(lia)) as [IHpos IHneg]. split.
      * intros H. destruct IHneg as (line & rest & j & E1 & E2 & E3 & E4 & E5 & E6); [lia|].
        exists (q :: line), rest, (S j). rewrite last_cons. cbn [app chain length].
        repeat split; try assumption; try lia; [now rewrite E1|].
        unfold lose_value, Minimax.mate_value in *. lia.
      * intros H. destruct IHpos as (line & rest & n & E1 & E2 & En & E3 & E4 & E5 & E6); [lia|].
        exists (q :: line), rest, n. rewrite last_cons. cbn [app chain length].
        repeat split; try assumption; try lia; [now rewrite E1|].
        unfold lose_value, Minimax.mate_value in *. lia.
Qed.

(* ================================================================== *)
(* the search finds forced mates, and reported mates are real            *)
Variable order_q : pos -> list pos -> list pos.
Hypothesis order_q_perm : forall p l, Permutation l (order_q p l).
Variable rep : list pos -> pos -> option Z.
Variable root_empty : pos -> bool.
Hypothesis no_rep : forall path p, rep path p = None.
Hypothesis HM1 : 1 <= M.

(* positions whose mate scores are strictly inside (-W, W), d plies deep *)
Definition inb (d : nat) (p : pos) : Prop := 1 <= movenum p /\ movenum p + Z.of_nat d + 2 <= M.

Lemma inb_step k p q : inb (S k) p -> In q (succs p) -> inb k q.
Proof. intros [H1 H2] Hq. pose proof (step_movenum p q Hq). pose proof (bump_range p). unfold inb. lia. Qed.

Lemma static_bound p : - W < static p < W.
Proof. pose proof (Hqs p). lia. Qed.

Lemma terminal_bound d p : inb d p -> succs p = [] -> - W < terminal p < W.
Proof.
  intros [H1 H2] Hs. destruct (checkmated p) eqn:Ec; [rewrite (Htm p Ec); lia|].
  pose proof (Hqt p Hs Ec). lia.
Qed.

Section NoTable.
Variable order : list pos -> pos -> list pos -> list pos.
Hypothesis order_perm : forall path p l, Permutation l (order path p l).

Local Notation negamax_ab :=
  (SearchCore.negamax_ab pos succs noisy_succs noisy_any static terminal W qmeasure order_q order rep root_empty).
Local Notation root_exact := (AlphaBeta.root_exact pos succs noisy_succs noisy_any static terminal qmeasure W Hdec
  order_q order_q_perm order order_perm rep root_empty no_rep static_bound inb inb_step terminal_bound).

(* whenever a positive mate score is reported, the principal variation is a legal line of 2N-1 plies ending in checkmate,
   and the score is the one of a mate in N *)
Theorem reported_mate_is_real : forall d p, root_empty p = false -> inb d p ->
  let R := negamax_ab d [] p (- W) W in
  W - M < fst R ->
  exists line rest n, snd R = line ++ rest /\ chain legal_step p line /\ (1 <= n)%nat /\
    length line = (2 * n - 1)%nat /\ (2 * n - 1 <= d)%nat /\ checkmated (last line p) = true /\ fst R = mate_value n p.
Proof.
  intros d p Hre Hinb. cbv zeta. intros Hv. destruct (root_exact d p Hre Hinb) as [_ Hpv].
  destruct Hinb as [H1 H2].
  destruct (pv_mate_line d p _ _ Hpv ltac:(lia) H2) as [Pos _]. exact (Pos Hv).
Qed.

(* a forced mate in n is found by the depth 2n-1 search: score, first move, whole line *)
Theorem search_finds_mate : forall n p, (1 <= n)%nat -> mate_in n p -> root_empty p = false ->
  1 <= movenum p -> movenum p + Z.of_nat (2 * n - 1) + 3 <= M ->
  let R := negamax_ab (2 * n - 1) [] p (- W) W in
  fst R = mate_value n p /\
  (exists q rest, snd R = q :: rest /\ In q (succs p) /\ lose_in (pred n) q = true) /\
  (exists line rest, snd R = line ++ rest /\ chain legal_step p line /\ length line = (2 * n - 1)%nat /\
                     checkmated (last line p) = true).
Proof.
  intros n p Hn Hm Hre H1 H2. cbv zeta. pose proof (bump_range p) as Hb.
  assert (Hinb : inb (2 * n - 1) p) by (unfold inb; lia).
  destruct (root_exact (2 * n - 1)%nat p Hre Hinb) as [Ev Hpv].
  assert (Enm : nm (2 * n - 1) p = mate_value n p) by (apply nm_mate; try assumption; lia).
  rewrite Enm in Ev. split; [exact Ev|]. split.
  - assert (Hne : succs p <> []).
    { destruct Hm as [Hw _]. destruct n as [|n']; [lia|]. apply win_in_S in Hw. destruct Hw as (q & Hq & _).
      intros Hs. rewrite Hs in Hq. destruct Hq. }
    assert (Ed : (2 * n - 1)%nat = S (2 * n - 2)) by lia.
    pose proof (AlphaBeta.root_best_move pos succs noisy_succs noisy_any static terminal qmeasure W Hdec
      order_q order_q_perm order order_perm rep root_empty no_rep static_bound inb inb_step terminal_bound
      (2 * n - 2)%nat p Hre) as BM. rewrite <- Ed in BM. cbv zeta in BM.
    destruct (BM Hinb Hne) as (q & rest & E1 & E2 & E3 & _).
    exists q, rest. split; [exact E1|]. split; [exact E2|].
    apply (best_move_keeps_mate n (2 * n - 2) p q Hn E2); lia.
  - destruct (pv_mate_line _ p _ _ Hpv ltac:(lia) ltac:(lia)) as [Pos _].
    destruct Pos as (line & rest & n' & E1 & E2 & E3 & E4 & E5 & E6 & E7).
    { rewrite Ev. apply mate_value_band; [exact Hn|lia]. }
    assert (n' = n) as -> by (rewrite Ev in E7; unfold Minimax.mate_value in E7; lia).
    exists line, rest. repeat split; assumption.
Qed.

End NoTable.

(* ---- with the transposition table: any draft >= 2n-1, any valid table ---- *)
Section WithTable.
Variable order : list pos -> pos -> list pos -> list pos.
Hypothesis order_perm : forall path p l, Permutation l (order path p l).
Variable table : Type.
Variable tt_get : table -> N -> option (entry pos).
Variable tt_put : table -> N -> entry pos -> table.
Variable key : pos -> N.
Hypothesis tt_put_spec : forall t k e k' e',
  tt_get (tt_put t k e) k' = Some e' -> (k' = k /\ e' = e) \/ tt_get t k' = Some e'.
Variable vis : pos -> Prop.
Hypothesis vis_succ : forall p q, vis p -> In q (succs p) -> vis q.
Hypothesis ext_key : forall e p p', vis p -> vis p' -> key p = key p' ->
  SearchCore.is_mate_score W M (e_value pos e) = false ->
  AlphaBetaTT.entry_ok pos (xadm pos succs noisy_succs noisy_any static terminal qmeasure good) e p ->
  AlphaBetaTT.entry_ok pos (xadm pos succs noisy_succs noisy_any static terminal qmeasure good) e p'.

Local Notation negamax_tt :=
  (SearchCore.negamax_tt pos succs noisy_succs noisy_any static terminal W qmeasure order_q order rep root_empty
                         table tt_get tt_put key M).
Local Notation tt_valid_ext :=
  (AlphaBetaInst.tt_valid_ext pos succs noisy_succs noisy_any static terminal qmeasure table tt_get key vis good).

Theorem search_finds_mate_tt : forall n d p tt, (1 <= n)%nat -> mate_in n p -> (2 * n - 1 <= d)%nat ->
  root_empty p = false -> vis p -> tt_valid_ext tt ->
  1 <= movenum p -> movenum p + Z.of_nat d + 2 <= M ->
  let R := negamax_tt d [] p (- W) W tt in
  fst (fst R) = mate_value n p /\ tt_valid_ext (snd R).
Proof.
  intros n d p tt Hn Hm Hd Hre Hvis Hval H1 H2. cbv zeta. pose proof (bump_range p) as Hb.
  assert (Hgood : allpos (nomtree d p)) by (apply nomtree_good; lia).
  assert (Hroot : AlphaBeta.root_ok pos root_empty [] p) by (intros _; exact Hre).
  assert (HW : - W < W) by (pose proof (static_bound p); lia).
  split.
  - assert (Hdet : forall t, root t = p -> ext d t -> allpos t -> val t = mate_value n p).
    { intros t Ht He Ha. apply (mate_stable n p t d); try assumption; lia. }
    destruct (AlphaBetaInst.negamax_tt_determined pos succs noisy_succs noisy_any static terminal qmeasure W Hdec
                order_q order_q_perm order order_perm rep root_empty no_rep table tt_get tt_put key M tt_put_spec
                vis vis_succ good ext_key d [] p (- W) W tt (mate_value n p)) as (O1 & O2 & O3);
      try assumption; try lia.
    remember (fst (fst (negamax_tt d [] p (- W) W tt))) as v eqn:Ev. clear Ev.
    assert (Hband : - W < mate_value n p < W) by (unfold Minimax.mate_value; lia).
    destruct (Z.le_gt_cases v (- W)) as [H|H]; [specialize (O2 H); lia|].
    destruct (Z.le_gt_cases W v) as [H'|H']; [assert (H'' : v >= W) by lia; specialize (O3 H''); lia|].
    apply O1. lia.
  - destruct (AlphaBetaInst.negamax_tt_sound pos succs noisy_succs noisy_any static terminal qmeasure W Hdec
                order_q order_q_perm order order_perm rep root_empty no_rep table tt_get tt_put key M tt_put_spec
                vis vis_succ good ext_key d [] p (- W) W tt) as (_ & _ & V); try assumption; try lia.
Qed.

End WithTable.

End Mate.

(* Proofs for C19 (Lichess payload decoding): model (Model/Json.v, Model/Serde.v) vs spec (Spec/LichessApi.v). *)
Require Import Ink.Lib.Str.
Require Import NArith ZArith List Bool Lia Arith.
Import ListNotations.
Require Import Ink.Model.Json Ink.Model.Serde Ink.Spec.LichessApi.
Open Scope N_scope.
Arguments N.add : simpl never.
Arguments N.sub : simpl never.
Arguments N.mul : simpl never.
Arguments N.div : simpl never.
Arguments N.modulo : simpl never.
Arguments N.eqb : simpl never.
Arguments N.ltb : simpl never.
Arguments N.leb : simpl never.
Arguments Z.add : simpl never.
Arguments Z.mul : simpl never.

(* ------------------------------------------------------------------ text equality *)
Lemma str_eqb_spec a : forall b, reflect (a = b) (str_eqb a b).
Proof.
  induction a as [|x a IH]; intros [|y b]; cbn [str_eqb]; try (constructor; congruence).
  destruct (N.eqb_spec x y) as [->|Hne]; cbn [andb].
  - destruct (IH b) as [->|Hne]; constructor; congruence.
  - constructor; congruence.
Qed.
Lemma str_eqb_refl a : str_eqb a a = true.
Proof. destruct (str_eqb_spec a a); congruence. Qed.
Lemma str_eqb_eq a b : str_eqb a b = true -> a = b.
Proof. destruct (str_eqb_spec a b); congruence. Qed.
Lemma str_eqb_neq a b : a <> b -> str_eqb a b = false.
Proof. destruct (str_eqb_spec a b); congruence. Qed.
Lemma str_eqb_sym a b : str_eqb a b = str_eqb b a.
Proof. destruct (str_eqb_spec a b), (str_eqb_spec b a); congruence. Qed.

Lemma mem_str_In x l : mem_str x l = true <-> In x l.
Proof.
  unfold mem_str. rewrite existsb_exists. split.
  - intros (y & Hy & E). apply str_eqb_eq in E. now subst.
  - intros H. exists x. split; [assumption|apply str_eqb_refl].
Qed.

Lemma nodup_str_NoDup l : nodup_str l = true -> NoDup l.
Proof.
  induction l as [|x r IH]; cbn [nodup_str]; [constructor|].
  intros H. apply andb_true_iff in H as [H1 H2]. constructor; [|auto].
  intros Hin. apply mem_str_In in Hin. rewrite Hin in H1. discriminate.
Qed.

(* ------------------------------------------------------------------ association lists *)
Section AssocLemmas.
Context {A : Type}.
Implicit Types l : list (str * A).

Lemma lookup_app k l1 l2 :
  lookup k (l1 ++ l2) = match lookup k l1 with Some v => Some v | None => lookup k l2 end.
Proof. induction l1 as [|[k' a] r IH]; cbn [lookup app]; [reflexivity|]. destruct (str_eqb k k'); auto. Qed.

Lemma lookup_all_In k l d : In d (lookup_all k l) <-> In (k, d) l.
Proof.
  induction l as [|[k' a] r IH]; cbn [lookup_all In]; [tauto|].
  destruct (str_eqb_spec k k') as [->|Hne]; cbn [In]; rewrite IH.
  - split; (intros [H|H]; [left; congruence|now right]).
  - split; [now right|]. intros [H|H]; [congruence|assumption].
Qed.

Lemma lookup_all_remove_other k t l : k <> t -> lookup_all k (remove_key t l) = lookup_all k l.
Proof.
  intros Hne. induction l as [|[k' a] r IH]; cbn [remove_key lookup_all]; [reflexivity|].
  destruct (str_eqb_spec t k') as [->|Hne2].
  - rewrite (str_eqb_neq k k') by assumption. exact IH.
  - cbn [lookup_all]. destruct (str_eqb k k'); [f_equal|]; exact IH.
Qed.

Lemma lookup_all_filter k (p : str -> bool) l :
  p k = true -> lookup_all k (filter (fun e => p (fst e)) l) = lookup_all k l.
Proof.
  intros Hp. induction l as [|[k' a] r IH]; cbn [filter lookup_all fst]; [reflexivity|].
  destruct (str_eqb_spec k k') as [<-|Hne].
  - rewrite Hp. cbn [lookup_all]. rewrite str_eqb_refl. now f_equal.
  - destruct (p k'); cbn [lookup_all]; [rewrite (str_eqb_neq k k') by assumption|]; exact IH.
Qed.

Lemma lookup_In k l v : lookup k l = Some v -> In (k, v) l.
Proof.
  induction l as [|[k' a] r IH]; cbn [lookup]; [discriminate|].
  destruct (str_eqb_spec k k') as [->|Hne]; [intros [= ->]; now left|intros H; right; auto].
Qed.

Lemma lookup_NoDup k l v : NoDup (map fst l) -> In (k, v) l -> lookup k l = Some v.
Proof.
  induction l as [|[k' a] r IH]; cbn [lookup map fst]; [intros _ []|].
  intros Hnd [H|H]; inversion Hnd as [|? ? Hnotin Hnd']; subst.
  - inversion H; subst. now rewrite str_eqb_refl.
  - destruct (str_eqb_spec k k') as [->|Hne]; [|auto].
    exfalso. apply Hnotin. change k' with (fst (k', v)). now apply in_map.
Qed.
End AssocLemmas.

(* ------------------------------------------------------------------ C19_moves: split / join / trim *)
Lemma split_on_nonnil c x : split_on c x <> [].
Proof. destruct x as [|y r]; cbn [split_on]; [discriminate|]. destruct (N.eqb y c); [discriminate|]. destruct (split_on c r); discriminate. Qed.

Lemma split_on_no_sep c t : contains_chr c t = false -> split_on c t = [t].
Proof.
  induction t as [|y r IH]; cbn [contains_chr split_on]; [reflexivity|].
  intros H. apply orb_false_iff in H as [H1 H2]. rewrite H1. now rewrite IH.
Qed.

Lemma split_on_app_sep c t rest :
  contains_chr c t = false -> split_on c (t ++ c :: rest) = t :: split_on c rest.
Proof.
  induction t as [|y r IH]; cbn [contains_chr split_on app].
  - intros _. now rewrite N.eqb_refl.
  - intros H. apply orb_false_iff in H as [H1 H2]. rewrite H1. now rewrite IH.
Qed.

Lemma split_on_join c ms :
  Forall (fun t => contains_chr c t = false) ms -> ms <> [] -> split_on c (join [c] ms) = ms.
Proof.
  induction ms as [|t r IH]; [congruence|]. intros HF _. inversion HF as [|? ? Ht Hr]; subst.
  destruct r as [|t2 r2].
  - cbn [join]. now apply split_on_no_sep.
  - change (join [c] (t :: t2 :: r2)) with (t ++ [c] ++ join [c] (t2 :: r2)). cbn [app].
    rewrite split_on_app_sep by assumption. f_equal. apply IH; [assumption|discriminate].
Qed.

Lemma token_no_space t : uci_token t -> contains_chr 32 t = false.
Proof.
  unfold uci_token, token_ok. intros H. apply andb_true_iff in H as [_ H].
  induction t as [|c r IH]; cbn [contains_chr forallb] in *; [reflexivity|].
  apply andb_true_iff in H as [H1 H2]. rewrite IH by assumption. rewrite orb_false_r.
  destruct (N.eqb_spec c 32) as [->|]; [discriminate H1|reflexivity].
Qed.

Lemma trim_start_id c r : is_whitespace c = false -> trim_start (c :: r) = c :: r.
Proof. intros H. cbn [trim_start]. now rewrite H. Qed.

Lemma trim_nonempty x a b y z :
  x = a :: y -> x = z ++ [b] -> is_whitespace a = false -> is_whitespace b = false -> trim x <> [].
Proof.
  intros E1 E2 Ha Hb. unfold trim, trim_end. rewrite E1, (trim_start_id a y Ha), <- E1, E2.
  rewrite rev_app_distr. cbn [rev app]. rewrite (trim_start_id b _ Hb).
  cbn [rev]. intros H. apply app_eq_nil in H as [_ H]. discriminate.
Qed.

Lemma token_first_last t : uci_token t ->
  exists a y b z, t = a :: y /\ t = z ++ [b] /\ is_whitespace a = false /\ is_whitespace b = false.
Proof.
  unfold uci_token, token_ok. intros H. apply andb_true_iff in H as [H0 H].
  destruct t as [|a y]; [discriminate|]. rewrite forallb_forall in H.
  destruct (exists_last (l := a :: y)) as (z & b & E); [discriminate|].
  exists a, y, b, z. repeat split; try assumption.
  - specialize (H a (or_introl eq_refl)). now destruct (is_whitespace a).
  - assert (In b (a :: y)) by (rewrite E; apply in_or_app; right; now left).
    specialize (H b H1). now destruct (is_whitespace b).
Qed.

Lemma join_first_last ms : Forall uci_token ms -> ms <> [] ->
  exists a y b z, join [32] ms = a :: y /\ join [32] ms = z ++ [b] /\ is_whitespace a = false /\ is_whitespace b = false.
Proof.
  induction ms as [|t r IH]; [congruence|]. intros HF _. inversion HF as [|? ? Ht Hr]; subst.
  destruct (token_first_last t Ht) as (a & y & b & z & E1 & E2 & Ha & Hb).
  destruct r as [|t2 r2].
  - cbn [join]. exists a, y, b, z. auto.
  - destruct (IH Hr) as (a' & y' & b' & z' & E1' & E2' & Ha' & Hb'); [discriminate|].
    change (join [32] (t :: t2 :: r2)) with (t ++ [32] ++ join [32] (t2 :: r2)).
    exists a, (y ++ [32] ++ join [32] (t2 :: r2)), b', (t ++ [32] ++ z').
    repeat split; try assumption.
    + now rewrite E1 at 1.
    + rewrite E2' at 1. now rewrite !app_assoc.
Qed.

Lemma space_sv_join ms : Forall uci_token ms -> ms <> [] -> space_sv (join [32] ms) = ms.
Proof.
  intros HF Hne. unfold space_sv.
  destruct (join_first_last ms HF Hne) as (a & y & b & z & E1 & E2 & Ha & Hb).
  pose proof (trim_nonempty _ a b y z E1 E2 Ha Hb) as Ht.
  destruct (trim (join [32] ms)); [congruence|].
  apply split_on_join; [|assumption].
  eapply Forall_impl; [|exact HF]. intros t. apply token_no_space.
Qed.

Lemma space_sv_nil : space_sv [] = [].
Proof. reflexivity. Qed.

(* ------------------------------------------------------------------ induction over schemas *)
Section SchemaInd.
Variable P : schema -> Prop.
Hypothesis HStr : P SStr.
Hypothesis HU32 : P SU32.
Hypothesis HI32 : P SI32.
Hypothesis HU64 : P SU64.
Hypothesis HBool : P SBool.
Hypothesis HNever : P SNever.
Hypothesis HOpt : forall s, P s -> P (SOpt s).
Hypothesis HStruct : forall fs, Forall (fun f => P (fsch f)) fs -> P (SStruct fs).
Hypothesis HUnit : forall names, P (SUnitEnum names).
Hypothesis HTagged : forall tag vs, Forall (fun v => Forall (fun f => P (fsch f)) (snd v)) vs -> P (STagged tag vs).
Hypothesis HSpace : P SSpaceSV.
Hypothesis HCsv : forall names, P (SCsvRules names).

Fixpoint schema_ind' (s : schema) : P s :=
  match s with
  | SStr => HStr | SU32 => HU32 | SI32 => HI32 | SU64 => HU64 | SBool => HBool | SNever => HNever
  | SOpt s' => HOpt s' (schema_ind' s')
  | SStruct fs =>
    HStruct fs ((fix go (fs : list field) : Forall (fun f => P (fsch f)) fs :=
                   match fs with
                   | [] => Forall_nil _
                   | f :: r => Forall_cons f (schema_ind' (fsch f)) (go r)
                   end) fs)
  | SUnitEnum names => HUnit names
  | STagged tag vs =>
    HTagged tag vs
      ((fix gov (vs : list (str * list field)) : Forall (fun v => Forall (fun f => P (fsch f)) (snd v)) vs :=
          match vs with
          | [] => Forall_nil _
          | v :: r =>
            Forall_cons v
              ((fix go (fs : list field) : Forall (fun f => P (fsch f)) fs :=
                  match fs with
                  | [] => Forall_nil _
                  | f :: r => Forall_cons f (schema_ind' (fsch f)) (go r)
                  end) (snd v))
              (gov r)
          end) vs)
  | SSpaceSV => HSpace
  | SCsvRules names => HCsv names
  end.
End SchemaInd.

(* ------------------------------------------------------------------ unfolding the nested fixpoints *)
Definition decs_of (D : schema -> dec) (fs : list field) : list (fmeta * dec) :=
  map (fun f => (meta_of f, D (fsch f))) fs.
Definition confs_of (C : schema -> conf) (fs : list field) : list (fmeta * conf) :=
  map (fun f => (meta_of f, C (fsch f))) fs.

Lemma decode_struct top fs : decode_at top (SStruct fs) = run_struct (decs_of (decode_at false) fs).
Proof. reflexivity. Qed.

Lemma decode_tagged top tag vs :
  decode_at top (STagged tag vs) = run_tagged top tag (map (fun v => (fst v, decs_of (decode_at false) (snd v))) vs).
Proof.
  cbn [decode_at]. f_equal. induction vs as [|[n fs] r IH]; [reflexivity|]. cbn [map fst snd]. rewrite <- IH. reflexivity.
Qed.

Lemma conforms_struct fs : conforms (SStruct fs) = conf_struct (confs_of conforms fs).
Proof. reflexivity. Qed.

Lemma conforms_tagged tag vs :
  conforms (STagged tag vs) = conf_tagged tag (map (fun v => (fst v, confs_of conforms (snd v))) vs).
Proof.
  cbn [conforms]. f_equal. induction vs as [|[n fs] r IH]; [reflexivity|]. cbn [map fst snd]. rewrite <- IH. reflexivity.
Qed.

Lemma wf_struct fs :
  schema_wf (SStruct fs) = fields_shape_ok fs && forallb (fun f => schema_wf (fsch f)) fs.
Proof. reflexivity. Qed.

Lemma wf_tagged tag vs :
  schema_wf (STagged tag vs) =
  nodup_str (map fst vs) &&
  forallb (fun v => fields_shape_ok (snd v) && negb (mem_str tag (map fwire (expand (snd v))))
                    && forallb (fun f => schema_wf (fsch f)) (snd v)) vs.
Proof.
  cbn [schema_wf]. f_equal. induction vs as [|[n fs] r IH]; [reflexivity|]. cbn [forallb snd]. rewrite <- IH. reflexivity.
Qed.

(* ------------------------------------------------------------------ structs: decoder vs conformance *)
Definition sound_pair (d : fmeta * dec) (c : fmeta * conf) : Prop :=
  fst d = fst c /\ forall j v, snd c j v -> snd d j = Ok v.

Lemma find_field_inv {B} k (ds : list (fmeta * B)) m f :
  find_field k ds = Some (m, f) -> mflat m = false /\ mwire m = k /\ In (m, f) ds.
Proof.
  unfold find_field. intros H. apply find_some in H as [Hin H]. unfold is_named in H. cbn [fst] in H.
  apply andb_true_iff in H as [H1 H2]. apply str_eqb_eq in H2. repeat split; auto.
  now destruct (mflat m).
Qed.

Lemma find_field_F2 k ds cs : Forall2 sound_pair ds cs ->
  match find_field k ds, find_field k cs with
  | Some d, Some c => sound_pair d c
  | None, None => True
  | _, _ => False
  end.
Proof.
  induction 1 as [|d c ds cs Hdc HF IH]; [exact I|].
  unfold find_field in *. cbn [find]. destruct Hdc as [E Hs].
  assert (En : is_named k d = is_named k c) by (unfold is_named; now rewrite E). rewrite En.
  destruct (is_named k c); [split; assumption|exact IH].
Qed.

Lemma known_key_F2 k ds cs : Forall2 sound_pair ds cs -> known_key ds k = known_key cs k.
Proof.
  intros H. unfold known_key. pose proof (find_field_F2 k ds cs H) as F.
  destruct (find_field k ds), (find_field k cs); tauto.
Qed.

Lemma collect_F2 ds cs doc : Forall2 sound_pair ds cs -> collect ds doc = collect cs doc.
Proof.
  intros H. unfold collect. apply filter_ext. intros e. now rewrite (known_key_F2 _ ds cs H).
Qed.

Lemma conf_fields_field cs doc coll : forall vs, conf_fields cs doc coll vs ->
  forall m C, In (m, C) cs -> mflat m = false -> exists v, field_ok m C doc v.
Proof.
  induction cs as [|[m0 C0] r IH]; intros vs H m C Hin Hm; [destruct Hin|].
  cbn [conf_fields] in H. destruct Hin as [E|Hin].
  - inversion E; subst. rewrite Hm in H. destruct H as (v & rest & _ & Hok & _). now exists v.
  - destruct (mflat m0).
    + destruct H as (inner & rest & _ & _ & H). eapply IH; eauto.
    + destruct H as (v & rest & _ & _ & H). eapply IH; eauto.
Qed.

Lemma In_F2_left ds cs d : Forall2 sound_pair ds cs -> In d ds -> exists c, In c cs /\ sound_pair d c.
Proof.
  induction 1 as [|d0 c0 ds cs Hdc HF IH]; intros Hin; [destruct Hin|].
  destruct Hin as [<-|Hin]; [exists c0; split; [now left|assumption]|].
  destruct (IH Hin) as (c & Hc & Hs). exists c. split; [now right|assumption].
Qed.

(* a key of doc that names a field: unique in doc and its value decodes *)
Lemma known_entry ds cs doc coll vs k d :
  Forall2 sound_pair ds cs -> conf_fields cs doc coll vs -> In (k, d) doc -> known_key ds k = true ->
  lookup_all k doc = [d] /\ exists m (f : dec) v, find_field k ds = Some (m, f) /\ f d = Ok v.
Proof.
  intros HF HC Hin Hk. unfold known_key in Hk.
  destruct (find_field k ds) as [[m f]|] eqn:Ef; [|discriminate].
  destruct (find_field_inv k ds m f Ef) as (Hm & Hw & Hd).
  destruct (In_F2_left ds cs (m, f) HF Hd) as ([m' C] & Hc & [E Hs]). cbn [fst snd] in E, Hs. subst m'.
  destruct (conf_fields_field cs doc coll vs HC m C Hc Hm) as (v & Hok).
  unfold field_ok in Hok. rewrite Hw in Hok. apply lookup_all_In in Hin.
  destruct (lookup_all k doc) as [|d1 [|d2 rest]]; [destruct Hin| |destruct Hok].
  destruct Hin as [->|[]]. split; [reflexivity|]. exists m, f, v. split; [reflexivity|]. now apply Hs.
Qed.

Definition acc_spec (ds : list (fmeta * dec)) (doc acc acc' : list (str * json)) : Prop :=
  forall k, lookup k acc' =
            match lookup k acc with
            | Some v => Some v
            | None =>
              match find_field k ds, lookup_all k doc with
              | Some (_, f), d :: _ => match f d with Ok v => Some v | _ => None end
              | _, _ => None
              end
            end.

Lemma lookup_all_cons_other {A} k k0 (d0 : A) rest : k <> k0 -> lookup_all k ((k0, d0) :: rest) = lookup_all k rest.
Proof. intros H. cbn [lookup_all]. now rewrite (str_eqb_neq k k0). Qed.

Lemma run_fields_ok (ds : list (fmeta * dec)) : forall doc acc,
  (forall k d, In (k, d) doc -> known_key ds k = true ->
     has_key k acc = false /\ lookup_all k doc = [d] /\ exists m (f : dec) v, find_field k ds = Some (m, f) /\ f d = Ok v) ->
  exists acc', run_fields ds doc acc = Ok acc' /\ acc_spec ds doc acc acc'.
Proof.
  induction doc as [|[k0 d0] rest IH]; intros acc H.
  - exists acc. split; [reflexivity|]. intros k. unfold acc_spec. destruct (lookup k acc); [reflexivity|].
    cbn [lookup_all]. match goal with |- context [@find_field ?B ?k ?d] => destruct (@find_field B k d) as [[? ?]|] end; reflexivity.
  - cbn [run_fields]. destruct (known_key ds k0) eqn:Hk0.
    + destruct (H k0 d0 (or_introl eq_refl) Hk0) as (Hacc & Hall & m0 & f0 & v0 & Ef & Hv).
      rewrite Ef, Hacc, Hv.
      cbn [lookup_all] in Hall. rewrite str_eqb_refl in Hall.
      assert (Hrest0 : lookup_all k0 rest = []) by congruence.
      destruct (IH (acc ++ [(k0, v0)])) as (acc' & Hrun & Hspec).
      { intros k d Hin Hk.
        assert (Hne : k <> k0).
        { intros ->. apply lookup_all_In in Hin. rewrite Hrest0 in Hin. destruct Hin. }
        destruct (H k d (or_intror Hin) Hk) as (Ha & Hl & Hex).
        rewrite lookup_all_cons_other in Hl by assumption. split; [|split; assumption].
        unfold has_key in *. rewrite lookup_app. destruct (lookup k acc); [discriminate|].
        cbn [lookup]. now rewrite (str_eqb_neq k k0). }
      exists acc'. split; [exact Hrun|]. intros k. rewrite (Hspec k), lookup_app.
      destruct (lookup k acc) as [v|] eqn:El; [reflexivity|]. cbn [lookup].
      destruct (str_eqb_spec k k0) as [->|Hne].
      * rewrite Ef. cbn [lookup_all]. rewrite str_eqb_refl, Hv. reflexivity.
      * rewrite lookup_all_cons_other by assumption. reflexivity.
    + assert (Ef : find_field k0 ds = None).
      { unfold known_key in Hk0. destruct (find_field k0 ds); [discriminate|reflexivity]. }
      rewrite Ef.
      destruct (IH acc) as (acc' & Hrun & Hspec).
      { intros k d Hin Hk.
        assert (Hne : k <> k0) by (intros ->; congruence).
        destruct (H k d (or_intror Hin) Hk) as (Ha & Hl & Hex).
        rewrite lookup_all_cons_other in Hl by assumption. auto. }
      exists acc'. split; [exact Hrun|]. intros k. rewrite (Hspec k).
      destruct (lookup k acc); [reflexivity|].
      destruct (str_eqb_spec k k0) as [->|Hne].
      * rewrite Ef. reflexivity.
      * rewrite lookup_all_cons_other by assumption. reflexivity.
Qed.

Definition nonflat_nodup {B} (ds : list (fmeta * B)) : Prop :=
  NoDup (map mwire (filter (fun m => negb (mflat m)) (map fst ds))).

Lemma find_field_self {B} (ds : list (fmeta * B)) m f :
  nonflat_nodup ds -> In (m, f) ds -> mflat m = false -> find_field (mwire m) ds = Some (m, f).
Proof.
  unfold nonflat_nodup, find_field. induction ds as [|[m0 f0] r IH]; intros Hnd Hin Hm; [destruct Hin|].
  cbn [find]. unfold is_named at 1. cbn [fst].
  cbn [map fst filter] in Hnd.
  destruct Hin as [E|Hin].
  - inversion E; subst. rewrite Hm, str_eqb_refl. reflexivity.
  - destruct (mflat m0) eqn:Em0; cbn [negb andb] in *; [now apply IH|].
    cbn [map] in Hnd. inversion Hnd as [|? ? Hnotin Hnd']; subst.
    destruct (str_eqb_spec (mwire m) (mwire m0)) as [E|Hne]; [|now apply IH].
    exfalso. apply Hnotin. rewrite <- E. apply in_map. apply filter_In. split.
    + change m with (fst (m, f)). now apply in_map.
    + now rewrite Hm.
Qed.

Lemma finish_ok ds_all doc acc' coll :
  nonflat_nodup ds_all -> acc_spec ds_all doc [] acc' ->
  forall ds cs vs, Forall2 sound_pair ds cs -> incl ds ds_all ->
    conf_fields cs doc coll vs -> finish ds acc' coll = Ok vs.
Proof.
  intros Hnd Hspec. induction ds as [|[m f] r IH]; intros cs vs HF Hincl HC.
  - inversion HF; subst. cbn [conf_fields] in HC. subst. reflexivity.
  - inversion HF as [|? [m' C] ? cs' [E Hs] HF']; subst. cbn [fst snd] in E, Hs. subst m'.
    cbn [conf_fields] in HC. cbn [finish].
    assert (Hincl' : incl r ds_all) by (intros x Hx; apply Hincl; now right).
    destruct (mflat m) eqn:Em.
    + destruct HC as (inner & rest & -> & HCi & HCr). rewrite (Hs _ _ HCi).
      now rewrite (IH cs' rest HF' Hincl' HCr).
    + destruct HC as (v & rest & -> & Hok & HCr).
      rewrite (IH cs' rest HF' Hincl' HCr).
      assert (Hself : find_field (mwire m) ds_all = Some (m, f)).
      { apply find_field_self; [assumption| |assumption]. apply Hincl. now left. }
      rewrite (Hspec (mwire m)). cbn [lookup]. rewrite Hself.
      unfold field_ok in Hok.
      destruct (lookup_all (mwire m) doc) as [|d [|d2 l]]; [|apply Hs in Hok|destruct Hok].
      * now rewrite Hok.
      * now rewrite Hok.
Qed.

Lemma missing_required_false ds cs doc coll vs acc' :
  Forall2 sound_pair ds cs -> conf_fields cs doc coll vs -> acc_spec ds doc [] acc' ->
  missing_required ds acc' = false.
Proof.
  intros HF HC Hspec. unfold missing_required.
  apply not_true_is_false. intros H. apply existsb_exists in H as ([m f] & Hin & H). cbn [fst] in H.
  apply andb_true_iff in H as [H H3]. apply andb_true_iff in H as [H1 H2].
  assert (Hm : mflat m = false) by now destruct (mflat m).
  destruct (In_F2_left ds cs (m, f) HF Hin) as ([m' C] & Hc & [E Hs]). cbn [fst snd] in E, Hs. subst m'.
  destruct (conf_fields_field cs doc coll vs HC m C Hc Hm) as (v & Hok). unfold field_ok in Hok.
  destruct (lookup_all (mwire m) doc) as [|d [|d2 l]] eqn:El; [| |destruct Hok].
  - rewrite Hok in H3. discriminate.
  - assert (Hind : In (mwire m, d) doc) by (apply lookup_all_In; rewrite El; now left).
    assert (Hk : known_key ds (mwire m) = true).
    { unfold known_key, find_field. destruct (find (is_named (mwire m)) ds) eqn:Ef; [reflexivity|].
      exfalso. eapply find_none in Ef; [|exact Hin]. unfold is_named in Ef. cbn [fst] in Ef.
      now rewrite Hm, str_eqb_refl in Ef. }
    destruct (known_entry ds cs doc coll vs (mwire m) d HF HC Hind Hk) as (_ & m1 & f1 & v1 & Ef & Hv).
    unfold has_key in H2. rewrite (Hspec (mwire m)) in H2. cbn [lookup] in H2. rewrite Ef, El, Hv in H2. discriminate.
Qed.

Lemma run_struct_fields_ok ds cs d vs :
  Forall2 sound_pair ds cs -> nonflat_nodup ds ->
  conf_fields cs d (collect cs d) vs -> run_struct_fields ds (JObj d) = Ok vs.
Proof.
  intros HF Hnd HC. cbn [run_struct_fields].
  destruct (run_fields_ok ds d []) as (acc' & Hrun & Hspec).
  { intros k x Hin Hk. split; [reflexivity|]. eapply known_entry; eauto. }
  rewrite Hrun. rewrite (missing_required_false ds cs d _ vs acc' HF HC Hspec).
  rewrite (collect_F2 ds cs d HF).
  eapply finish_ok; eauto. apply incl_refl.
Qed.

(* ------------------------------------------------------------------ C19_decode *)
Lemma nonflat_nodup_of_fs {B} (g : field -> B) fs :
  nodup_str (nonflat_wires fs) = true -> nonflat_nodup (map (fun f => (meta_of f, g f)) fs).
Proof.
  intros H. apply nodup_str_NoDup in H. unfold nonflat_nodup.
  replace (map mwire (filter (fun m => negb (mflat m)) (map fst (map (fun f => (meta_of f, g f)) fs))))
    with (nonflat_wires fs); [assumption|].
  unfold nonflat_wires. clear H. induction fs as [|f r IH]; [reflexivity|].
  cbn [map filter fst meta_of mflat]. destruct (fflatten f); cbn [negb map mwire meta_of]; now rewrite IH.
Qed.

Lemma F2_decs_confs fs :
  Forall (fun f => forall top j v, conforms (fsch f) j v -> decode_at top (fsch f) j = Ok v) fs ->
  Forall2 sound_pair (decs_of (decode_at false) fs) (confs_of conforms fs).
Proof.
  induction 1 as [|f r Hf HF IH]; [constructor|]. cbn [decs_of confs_of map]. constructor; [|exact IH].
  split; [reflexivity|]. cbn [snd]. intros j v. apply Hf.
Qed.

Lemma lookup_map_snd {A B} (g : A -> B) k (l : list (str * A)) :
  lookup k (map (fun v => (fst v, g (snd v))) l) = option_map g (lookup k l).
Proof.
  induction l as [|[k' a] r IH]; [reflexivity|]. cbn [map lookup fst snd]. destruct (str_eqb k k'); [reflexivity|exact IH].
Qed.

Lemma csv_rules_ok names ws :
  Forall (fun w => lookup (lower (fst w)) names = Some (snd w)) ws ->
  csv_rules names (map fst ws) = Some (map (fun w => JStr (snd w) false) ws).
Proof.
  induction 1 as [|w r Hw HF IH]; [reflexivity|]. cbn [map csv_rules]. now rewrite Hw, IH.
Qed.

Lemma fields_forall (P : schema -> Prop) fs :
  Forall (fun f => schema_wf (fsch f) = true -> P (fsch f)) fs ->
  forallb (fun f => schema_wf (fsch f)) fs = true -> Forall (fun f => P (fsch f)) fs.
Proof.
  induction 1 as [|f r Hf HF IH]; [constructor|]. cbn [forallb]. intros H. apply andb_true_iff in H as [H1 H2].
  constructor; auto.
Qed.

Theorem decode_conforms : forall s, schema_wf s = true ->
  forall top doc v, conforms s doc v -> decode_at top s doc = Ok v.
Proof.
  apply (schema_ind' (fun s => schema_wf s = true -> forall top doc v, conforms s doc v -> decode_at top s doc = Ok v)).
  - intros _ top doc v (x & e & -> & ->). reflexivity.
  - intros _ top doc v (z & -> & -> & Hr). cbn [decode_at]. unfold run_int.
    destruct (Z.leb_spec 0 z), (Z.leb_spec z 4294967295); try lia. reflexivity.
  - intros _ top doc v (z & -> & -> & Hr). cbn [decode_at]. unfold run_int.
    destruct (Z.leb_spec (-2147483648) z), (Z.leb_spec z 2147483647); try lia. reflexivity.
  - intros _ top doc v (z & -> & -> & Hr). cbn [decode_at]. unfold run_int.
    destruct (Z.leb_spec 0 z), (Z.leb_spec z 18446744073709551615); try lia. reflexivity.
  - intros _ top doc v (b & -> & ->). reflexivity.
  - intros _ top doc v [].
  - intros s IH Hwf top doc v H. cbn [schema_wf] in Hwf. cbn [conforms] in H. cbn [decode_at].
    destruct doc; try (apply IH; assumption). now subst.
  - intros fs IH Hwf top doc v H. rewrite wf_struct in Hwf. apply andb_true_iff in Hwf as [Hshape Hsub].
    rewrite decode_struct. rewrite conforms_struct in H. unfold conf_struct in H.
    destruct doc as [| | | | |?|d]; try contradiction. destruct v as [| | | | |?|vs]; try contradiction.
    unfold run_struct. unfold fields_shape_ok in Hshape. repeat (apply andb_true_iff in Hshape as [Hshape ?]).
    erewrite run_struct_fields_ok; [reflexivity| | |exact H].
    + apply F2_decs_confs. apply (fields_forall (fun s => forall top j v, conforms s j v -> decode_at top s j = Ok v) fs IH Hsub).
    + now apply nonflat_nodup_of_fs.
  - intros names _ top doc v (n & e & -> & -> & Hm). cbn [decode_at run_unit_enum]. now rewrite Hm.
  - intros tag vs IH Hwf top doc v H. rewrite wf_tagged in Hwf. apply andb_true_iff in Hwf as [_ Hvs].
    rewrite decode_tagged. rewrite conforms_tagged in H. unfold conf_tagged in H.
    destruct doc as [| | | | |?|d]; try contradiction. destruct v as [| | | | |?|vs0]; try contradiction.
    destruct vs0 as [|[t tv] fields]; try contradiction. destruct tv as [| | | |n esc| |]; try contradiction.
    destruct esc; try contradiction.
    cbv beta iota in H. destruct H as (Et & e & cs & Hall & Hlk & HC). subst t.
    rewrite lookup_map_snd in Hlk.
    match type of Hlk with option_map _ ?X = _ => destruct X as [fs|] eqn:En end; [|discriminate].
    cbn [option_map] in Hlk. inversion Hlk; subst cs. clear Hlk.
    cbn [run_tagged]. rewrite Hall. cbn [variant_of]. rewrite lookup_map_snd, En. cbn [option_map].
    apply lookup_In in En. rewrite forallb_forall in Hvs. specialize (Hvs _ En). cbn [snd] in Hvs.
    apply andb_true_iff in Hvs as [Hvs Hsub]. apply andb_true_iff in Hvs as [Hshape _].
    unfold fields_shape_ok in Hshape. repeat (apply andb_true_iff in Hshape as [Hshape ?]).
    rewrite Forall_forall in IH. specialize (IH _ En). cbn [snd] in IH.
    erewrite run_struct_fields_ok; [reflexivity| | |exact HC].
    + apply F2_decs_confs. apply (fields_forall (fun s => forall top j v, conforms s j v -> decode_at top s j = Ok v) fs IH Hsub).
    + now apply nonflat_nodup_of_fs.
  - intros _ top doc v (ms & HF & -> & ->). cbn [decode_at].
    destruct ms as [|m r]; [reflexivity|]. rewrite space_sv_join; [reflexivity|assumption|discriminate].
  - intros names _ top doc v (ws & -> & Hne & HF1 & HF2 & ->). cbn [decode_at].
    rewrite split_on_join.
    + now rewrite csv_rules_ok.
    + clear -HF2. induction HF2; cbn [map]; constructor; auto.
    + destruct ws; [congruence|discriminate].
Qed.

(* ------------------------------------------------------------------ compat soundness: helpers *)
Lemma Forall2_In_l {A B} (R : A -> B -> Prop) l l' x : Forall2 R l l' -> In x l -> exists y, In y l' /\ R x y.
Proof.
  induction 1 as [|a b l l' Hab HF IH]; intros Hin; [destruct Hin|].
  destruct Hin as [<-|Hin]; [exists b; split; [now left|assumption]|].
  destruct (IH Hin) as (y & Hy & Hr). exists y. split; [now right|assumption].
Qed.
Lemma Forall2_In_r {A B} (R : A -> B -> Prop) l l' y : Forall2 R l l' -> In y l' -> exists x, In x l /\ R x y.
Proof.
  induction 1 as [|a b l l' Hab HF IH]; intros Hin; [destruct Hin|].
  destruct Hin as [<-|Hin]; [exists a; split; [now left|assumption]|].
  destruct (IH Hin) as (x & Hx & Hr). exists x. split; [now right|assumption].
Qed.
Lemma Forall2_exists {A B} (R : A -> B -> Prop) l : (forall x, In x l -> exists y, R x y) -> exists l', Forall2 R l l'.
Proof.
  induction l as [|a r IH]; intros H; [exists []; constructor|].
  destruct (H a (or_introl eq_refl)) as (b & Hb). destruct IH as (r' & Hr); [intros x Hx; apply H; now right|].
  exists (b :: r'). now constructor.
Qed.
Lemma Forall2_weaken {A B} (R R' : A -> B -> Prop) l l' : (forall x y, R x y -> R' x y) -> Forall2 R l l' -> Forall2 R' l l'.
Proof. intros H. induction 1; constructor; auto. Qed.

Lemma Forall2_impl_In {A B} (R R' : A -> B -> Prop) l l' :
  (forall x y, In x l -> R x y -> R' x y) -> Forall2 R l l' -> Forall2 R' l l'.
Proof.
  intros H HF. induction HF as [|a b l l' Hab HF IH]; constructor.
  - apply H; [now left|assumption].
  - apply IH. intros x y Hx. apply H. now right.
Qed.

Definition Rfield (D : list (str * json)) (c : fmeta * conf) (kv : str * json) : Prop :=
  fst kv = mwire (fst c) /\ field_ok (fst c) (snd c) D (snd kv).

Lemma conf_fields_flat cs D X : (forall c, In c cs -> mflat (fst c) = false) ->
  forall vs, conf_fields cs D X vs <-> Forall2 (Rfield D) cs vs.
Proof.
  induction cs as [|[m C] r IH]; intros Hnf vs; cbn [conf_fields].
  - split; [intros ->; constructor|intros H; now inversion H].
  - pose proof (Hnf (m, C) (or_introl eq_refl)) as Hm. cbn [fst] in Hm. rewrite Hm.
    assert (Hr : forall c, In c r -> mflat (fst c) = false) by (intros c Hc; apply Hnf; now right).
    split.
    + intros (v & rest & -> & Hok & Hrest). constructor; [split; [reflexivity|exact Hok]|]. now apply IH.
    + intros H. inversion H as [|? [k v] ? rest [E Hok] HF]; subst. cbn [fst snd] in *. subst k.
      exists v, rest. split; [reflexivity|]. split; [exact Hok|]. now apply IH.
Qed.

Lemma field_ok_ext m C D D' v :
  lookup_all (mwire m) D' = lookup_all (mwire m) D -> field_ok m C D v -> field_ok m C D' v.
Proof. unfold field_ok. now intros ->. Qed.

Lemma Rfield_keys D cs vs : Forall2 (Rfield D) cs vs -> map fst vs = map (fun c => mwire (fst c)) cs.
Proof. induction 1 as [|c kv cs vs [E _] HF IH]; [reflexivity|]. cbn [map]. now rewrite E, IH. Qed.

Lemma confs_of_app C l1 l2 : confs_of C (l1 ++ l2) = confs_of C l1 ++ confs_of C l2.
Proof. unfold confs_of. apply map_app. Qed.

Lemma confs_of_nonflat C fs : (forall f, In f fs -> fflatten f = false) ->
  forall c, In c (confs_of C fs) -> mflat (fst c) = false.
Proof.
  intros H c Hc. unfold confs_of in Hc. apply in_map_iff in Hc as (f & <- & Hf). cbn [fst meta_of mflat]. now apply H.
Qed.

Lemma known_key_confs C fs k :
  known_key (confs_of C fs) k = mem_str k (nonflat_wires fs).
Proof.
  unfold known_key, find_field, nonflat_wires. induction fs as [|f r IH]; [reflexivity|].
  cbn [confs_of map find filter]. unfold is_named at 1. cbn [fst meta_of mflat mwire].
  destruct (fflatten f); cbn [negb andb].
  - exact IH.
  - cbn [map mem_str existsb]. unfold mem_str in *. cbn [existsb].
    destruct (str_eqb k (fwire f)); [reflexivity|exact IH].
Qed.

(* regrouping the wire-level view of an implementation struct into its flatten structure *)
Lemma regroup D coll : forall fb,
  (forall g, In g fb -> fflatten g = true ->
     exists inner, fsch g = SStruct inner /\
       forall h, In h inner -> fflatten h = false /\ lookup_all (fwire h) coll = lookup_all (fwire h) D) ->
  forall ve, Forall2 (Rfield D) (confs_of conforms (expand fb)) ve -> conf_fields (confs_of conforms fb) D coll ve.
Proof.
  induction fb as [|g r IH]; intros Hfl ve HF.
  - cbn in HF. inversion HF. reflexivity.
  - assert (Hfl' : forall g0, In g0 r -> fflatten g0 = true ->
       exists inner, fsch g0 = SStruct inner /\
         forall h, In h inner -> fflatten h = false /\ lookup_all (fwire h) coll = lookup_all (fwire h) D)
      by (intros g0 Hg0; apply Hfl; now right).
    cbn [confs_of map conf_fields]. cbn [fst meta_of mflat].
    unfold expand in HF. cbn [flat_map] in HF. fold (expand r) in HF.
    destruct (fflatten g) eqn:Eg.
    + destruct (Hfl g (or_introl eq_refl) Eg) as (inner & Es & Hin). rewrite Es in HF.
      rewrite confs_of_app in HF. apply Forall2_app_inv_l in HF as (v1 & v2 & H1 & H2 & ->).
      exists v1, v2. split; [reflexivity|]. split; [|now apply IH].
      rewrite Es, conforms_struct. unfold conf_struct.
      apply conf_fields_flat.
      * apply confs_of_nonflat. intros h Hh. now apply Hin.
      * eapply Forall2_impl_In; [|exact H1]. intros c kv Hc [E Hok]. split; [exact E|].
        unfold confs_of in Hc. apply in_map_iff in Hc as (h & <- & Hh). cbn [fst snd] in *.
        eapply field_ok_ext; [|exact Hok]. cbn [meta_of mwire]. now apply Hin.
    + cbn [app] in HF. inversion HF as [|? [k v] ? rest [E Hok] HF']; subst. cbn [fst snd meta_of mwire] in *. subst k.
      exists v, rest. split; [reflexivity|]. split; [exact Hok|]. now apply IH.
Qed.

Lemma shape_expand fb : fields_shape_ok fb = true -> forallb (fun f => schema_wf (fsch f)) fb = true ->
  NoDup (map fwire (expand fb)) /\
  forall g, In g (expand fb) -> fflatten g = false /\ schema_wf (fsch g) = true.
Proof.
  intros Hs Hw. unfold fields_shape_ok in Hs. repeat (apply andb_true_iff in Hs as [Hs ?]).
  split; [now apply nodup_str_NoDup|].
  intros g Hg. unfold expand in Hg. apply in_flat_map in Hg as (g0 & Hg0 & Hg).
  rewrite forallb_forall in *. pose proof (Hw _ Hg0) as Hw0. pose proof (H0 _ Hg0) as Hf0. unfold flatten_ok in Hf0.
  destruct (fflatten g0) eqn:E0.
  - apply andb_true_iff in Hf0 as [_ Hf0]. destruct (fsch g0) as [| | | | | | |inner| | | |] eqn:Es; try discriminate.
    rewrite forallb_forall in Hf0. specialize (Hf0 _ Hg). apply andb_true_iff in Hf0 as [Hf0 _].
    split; [now destruct (fflatten g)|].
    rewrite wf_struct in Hw0. apply andb_true_iff in Hw0 as [_ Hw0]. rewrite forallb_forall in Hw0. now apply Hw0.
  - destruct Hg as [<-|[]]. auto.
Qed.

Lemma shape_regroup fb D : fields_shape_ok fb = true ->
  forall g, In g fb -> fflatten g = true ->
    exists inner, fsch g = SStruct inner /\
      forall h, In h inner -> fflatten h = false /\
        lookup_all (fwire h) (collect (confs_of conforms fb) D) = lookup_all (fwire h) D.
Proof.
  intros Hs g Hg Eg. unfold fields_shape_ok in Hs. repeat (apply andb_true_iff in Hs as [Hs ?]).
  rewrite forallb_forall in H0. specialize (H0 _ Hg). unfold flatten_ok in H0. rewrite Eg in H0.
  apply andb_true_iff in H0 as [_ H0]. destruct (fsch g) as [| | | | | | |inner| | | |]; try discriminate.
  exists inner. split; [reflexivity|]. intros h Hh. rewrite forallb_forall in H0. specialize (H0 _ Hh).
  apply andb_true_iff in H0 as [Ha Hb]. split; [now destruct (fflatten h)|].
  unfold collect. apply (lookup_all_filter (fwire h) (fun k => negb (known_key (confs_of conforms fb) k))).
  now rewrite known_key_confs.
Qed.

Lemma find_wire_inv w fs g : find_wire w fs = Some g -> In g fs /\ fwire g = w.
Proof.
  unfold find_wire. intros H. apply find_some in H as [H1 H2]. apply str_eqb_eq in H2. auto.
Qed.

Lemma find_wire_self fs g : NoDup (map fwire fs) -> In g fs -> find_wire (fwire g) fs = Some g.
Proof.
  unfold find_wire. induction fs as [|f r IH]; intros Hnd Hin; [destruct Hin|].
  cbn [find]. cbn [map] in Hnd. inversion Hnd as [|? ? Hnotin Hnd']; subst.
  destruct Hin as [->|Hin]; [now rewrite str_eqb_refl|].
  destruct (str_eqb_spec (fwire g) (fwire f)) as [E|Hne]; [|now apply IH].
  exfalso. apply Hnotin. rewrite <- E. now apply in_map.
Qed.

Definition carries_list (l l' : list (str * json)) : Prop :=
  Forall (fun kx => snd kx = JNull \/ exists y, lookup (fst kx) l' = Some y /\ carries (snd kx) y) l.

Lemma carries_obj l l' : carries (JObj l) (JObj l') <-> carries_list l l'.
Proof.
  unfold carries_list. cbn [carries]. induction l as [|[k x] r IH].
  - split; [constructor|trivial].
  - split.
    + intros [H1 H2]. constructor; [exact H1|]. now apply IH.
    + intros H. inversion H; subst. split; [assumption|]. now apply IH.
Qed.

Lemma carries_refl_leaf v : match v with JObj _ | JNull => False | _ => True end -> carries v v.
Proof. destruct v; cbn; tauto. Qed.

Definition P_compat (a : schema) : Prop :=
  forall b, compat a b = true -> schema_wf b = true ->
  forall doc v, conforms a doc v -> exists v', conforms b doc v' /\ carries v v'.

Definition field_compat (eb : list field) (f : field) : bool :=
  match find_wire (fwire f) eb with
  | Some g => compat (fsch f) (fsch g) && (negb (fdefault f) || is_never (fsch f) && lenient g)
  | None => is_never (fsch f)
  end.

Lemma compat_struct fa b :
  compat (SStruct fa) b =
  match strip_opt b with
  | SStruct fb => impl_fields_ok fa (expand fb) && forallb (field_compat (expand fb)) fa
  | _ => false
  end.
Proof. cbn [compat]. destruct (strip_opt b); reflexivity. Qed.

Lemma compat_tagged ta va b :
  compat (STagged ta va) b =
  match strip_opt b with
  | STagged tb vb =>
    str_eqb ta tb &&
    forallb (fun v => match lookup (fst v) vb with
                      | Some fb => impl_fields_ok (snd v) (expand fb) && forallb (field_compat (expand fb)) (snd v)
                      | None => false
                      end) va
  | _ => false
  end.
Proof.
  cbn [compat]. destruct (strip_opt b); try reflexivity. f_equal.
  induction va as [|[n fa] r IH]; [reflexivity|]. cbn [forallb fst snd]. rewrite <- IH.
  destruct (lookup n vs); reflexivity.
Qed.

Lemma absent_value_lenient f v : absent_value (meta_of f) = Some v -> lenient f = true.
Proof.
  unfold absent_value, lenient. cbn [meta_of mopt mdefault]. destruct (is_opt (fsch f)); [reflexivity|].
  destruct (fdefault f); [reflexivity|discriminate].
Qed.

Lemma lenient_absent g : lenient g = true -> exists v, absent_value (meta_of g) = Some v.
Proof.
  unfold absent_value, lenient. cbn [meta_of mopt mdefault]. destruct (is_opt (fsch g)); [eexists; reflexivity|].
  cbn [orb]. intros ->. eexists; reflexivity.
Qed.

Lemma confs_keys C fs : map (fun c => mwire (fst c)) (confs_of C fs) = map fwire fs.
Proof. unfold confs_of. rewrite map_map. reflexivity. Qed.

Lemma in_confs C fs f : In f fs -> In (meta_of f, C (fsch f)) (confs_of C fs).
Proof. intros H. unfold confs_of. apply in_map_iff. now exists f. Qed.

Lemma field_exists fa eb D va g :
  Forall (fun f => P_compat (fsch f)) fa ->
  NoDup (map fwire fa) -> NoDup (map fwire eb) ->
  impl_fields_ok fa eb = true -> forallb (field_compat eb) fa = true ->
  Forall2 (Rfield D) (confs_of conforms fa) va ->
  In g eb -> schema_wf (fsch g) = true ->
  exists kv, Rfield D (meta_of g, conforms (fsch g)) kv /\
             forall vf, lookup (fwire g) va = Some vf -> carries vf (snd kv).
Proof.
  intros HP Hna Hnb Himpl Hcomp Ha Hg Hwg.
  unfold impl_fields_ok in Himpl. apply andb_true_iff in Himpl as [_ Himpl].
  rewrite forallb_forall in Himpl. specialize (Himpl g Hg).
  destruct (find_wire (fwire g) fa) as [f|] eqn:Ef; [|discriminate].
  apply find_wire_inv in Ef as [Hf Ew].
  destruct (Forall2_In_l _ _ _ _ Ha (in_confs conforms fa f Hf)) as ([k vf] & Hkv & [Ek Hok]).
  cbn [fst snd meta_of mwire] in Ek, Hok. subst k.
  assert (Hlk : lookup (fwire g) va = Some vf).
  { rewrite <- Ew. apply lookup_NoDup; [|assumption]. rewrite (Rfield_keys _ _ _ Ha), confs_keys. assumption. }
  rewrite forallb_forall in Hcomp. specialize (Hcomp f Hf). unfold field_compat in Hcomp.
  rewrite Ew, (find_wire_self eb g Hnb Hg) in Hcomp. apply andb_true_iff in Hcomp as [Hc Hd].
  unfold field_ok in Hok. cbn [meta_of mwire] in Hok. rewrite Ew in Hok.
  destruct (lookup_all (fwire g) D) as [|d [|d2 l]] eqn:El; [| |destruct Hok].
  - pose proof (absent_value_lenient f vf Hok) as Hlf. rewrite Hlf in Himpl. cbn [negb] in Himpl. rewrite orb_false_r in Himpl.
    destruct (lenient_absent g Himpl) as (vg & Hvg). exists (fwire g, vg). split.
    + split; [reflexivity|]. unfold field_ok. cbn [fst snd meta_of mwire]. now rewrite El.
    + intros vf' E. rewrite Hlk in E. inversion E; subst vf'. cbn [snd].
      assert (vf = JNull); [|subst; exact I].
      unfold absent_value in Hok. cbn [meta_of mopt mdefault] in Hok. destruct (is_opt (fsch f)); [congruence|].
      destruct (fdefault f); [|discriminate]. cbn [negb orb] in Hd. apply andb_true_iff in Hd as [Hn _].
      destruct (fsch f); try discriminate. cbn in Hok. congruence.
  - rewrite Forall_forall in HP. destruct (HP f Hf (fsch g) Hc Hwg d vf Hok) as (vg & Hvg & Hcar).
    exists (fwire g, vg). split.
    + split; [reflexivity|]. unfold field_ok. cbn [fst snd meta_of mwire]. now rewrite El.
    + intros vf' E. rewrite Hlk in E. inversion E; subst vf'. exact Hcar.
Qed.

Lemma struct_compat_sound fa fb D va :
  Forall (fun f => P_compat (fsch f)) fa ->
  NoDup (map fwire fa) ->
  impl_fields_ok fa (expand fb) = true -> forallb (field_compat (expand fb)) fa = true ->
  fields_shape_ok fb = true -> forallb (fun f => schema_wf (fsch f)) fb = true ->
  conf_fields (confs_of conforms fa) D (collect (confs_of conforms fa) D) va ->
  exists vb, conf_fields (confs_of conforms fb) D (collect (confs_of conforms fb) D) vb /\ carries_list va vb.
Proof.
  intros HP Hna Himpl Hcomp Hshape Hwf HC.
  destruct (shape_expand fb Hshape Hwf) as [Hnb Heb].
  assert (Hnofl : forall f, In f fa -> fflatten f = false).
  { unfold impl_fields_ok in Himpl. apply andb_true_iff in Himpl as [H _]. rewrite forallb_forall in H.
    intros f Hf. specialize (H f Hf). now destruct (fflatten f). }
  apply conf_fields_flat in HC; [|now apply confs_of_nonflat].
  destruct (Forall2_exists
              (fun c kv => Rfield D c kv /\ forall vf, lookup (mwire (fst c)) va = Some vf -> carries vf (snd kv))
              (confs_of conforms (expand fb))) as (ve & Hve).
  { intros c Hc. unfold confs_of in Hc. apply in_map_iff in Hc as (g & <- & Hg).
    destruct (Heb g Hg) as [_ Hwg]. cbn [fst meta_of mwire].
    exact (field_exists fa (expand fb) D va g HP Hna Hnb Himpl Hcomp HC Hg Hwg). }
  assert (Hve' : Forall2 (Rfield D) (confs_of conforms (expand fb)) ve)
    by (eapply Forall2_weaken; [|exact Hve]; intros x y [H _]; exact H).
  exists ve. split.
  - apply regroup; [|exact Hve']. now apply shape_regroup.
  - unfold carries_list. apply Forall_forall. intros [k x] Hkx. cbn [fst snd].
    destruct (Forall2_In_r _ _ _ _ HC Hkx) as (c & Hc & [Ek Hok]).
    unfold confs_of in Hc. apply in_map_iff in Hc as (f & <- & Hf). cbn [fst snd meta_of mwire] in Ek, Hok. subst k.
    rewrite forallb_forall in Hcomp. pose proof (Hcomp f Hf) as Hcf. unfold field_compat in Hcf.
    destruct (find_wire (fwire f) (expand fb)) as [g|] eqn:Eg.
    + right. apply find_wire_inv in Eg as [Hg Ew].
      destruct (Forall2_In_l _ _ _ _ Hve (in_confs conforms _ g Hg)) as ([k vg] & Hkv & [[Ek _] HQ]).
      cbn [fst snd meta_of mwire] in Ek, HQ. subst k. exists vg. split.
      * rewrite <- Ew. apply lookup_NoDup; [|assumption]. rewrite (Rfield_keys _ _ _ Hve'), confs_keys. assumption.
      * apply HQ. rewrite Ew. apply lookup_NoDup; [|assumption]. rewrite (Rfield_keys _ _ _ HC), confs_keys. assumption.
    + left. destruct (fsch f) eqn:Es; try discriminate. unfold field_ok in Hok.
      destruct (lookup_all (mwire (meta_of f)) D) as [|d [|d2 l]]; [|destruct Hok|destruct Hok].
      unfold absent_value in Hok. cbn [meta_of mopt mdefault] in Hok. rewrite Es in Hok. cbn in Hok.
      destruct (fdefault f); [congruence|discriminate].
Qed.

Lemma conforms_strip b doc v : doc <> JNull -> conforms (strip_opt b) doc v -> conforms b doc v.
Proof.
  intros Hne H. destruct b; cbn [strip_opt] in H; try exact H. cbn [conforms]. destruct doc; try exact H. congruence.
Qed.
Lemma wf_strip b : schema_wf b = true -> schema_wf (strip_opt b) = true.
Proof. destruct b; auto. Qed.

Lemma expand_noflat fa : (forall f, In f fa -> fflatten f = false) -> expand fa = fa.
Proof.
  unfold expand. induction fa as [|f r IH]; intros H; [reflexivity|]. cbn [flat_map].
  rewrite (H f (or_introl eq_refl)). cbn [app]. f_equal. apply IH. intros g Hg. apply H. now right.
Qed.

Lemma impl_fields_ok_noflat fa eb : impl_fields_ok fa eb = true -> forall f, In f fa -> fflatten f = false.
Proof.
  unfold impl_fields_ok. intros H. apply andb_true_iff in H as [H _]. rewrite forallb_forall in H.
  intros f Hf. specialize (H f Hf). now destruct (fflatten f).
Qed.

Lemma shape_nodup_api fa eb : fields_shape_ok fa = true -> impl_fields_ok fa eb = true -> NoDup (map fwire fa).
Proof.
  intros Hs Hi. unfold fields_shape_ok in Hs. repeat (apply andb_true_iff in Hs as [Hs ?]).
  rewrite (expand_noflat fa (impl_fields_ok_noflat fa eb Hi)) in H1. now apply nodup_str_NoDup.
Qed.

Ltac int_case :=
  let z := fresh "z" in let Hr := fresh "Hr" in let Eb := fresh "Eb" in
  intros _ b Hc Hwb doc v (z & -> & -> & Hr); cbn [compat] in Hc; unfold range_incl in Hc;
  destruct (strip_opt b) eqn:Eb; cbn in Hc; try discriminate;
  (exists (JNum z); split; [apply conforms_strip; [discriminate|]; rewrite Eb; cbn [conforms]; exists z; repeat split; lia|reflexivity]).

Theorem compat_sound : forall a, schema_wf a = true -> P_compat a.
Proof.
  apply (schema_ind' (fun a => schema_wf a = true -> P_compat a)).
  - (* SStr *) intros _ b Hc Hwb doc v (x & e & -> & ->). cbn [compat] in Hc.
    destruct (strip_opt b) eqn:Eb; try discriminate. exists (JStr x false). split; [|reflexivity].
    apply conforms_strip; [discriminate|]. rewrite Eb. cbn [conforms]. eauto.
  - int_case.
  - int_case.
  - int_case.
  - (* SBool *) intros _ b Hc Hwb doc v (x & -> & ->). cbn [compat] in Hc.
    destruct (strip_opt b) eqn:Eb; try discriminate. exists (JBool x). split; [|reflexivity].
    apply conforms_strip; [discriminate|]. rewrite Eb. cbn [conforms]. eauto.
  - (* SNever *) intros _ b _ _ doc v [].
  - (* SOpt *) intros a IH Hwa b Hc Hwb doc v H. cbn [compat] in Hc. destruct b as [| | | | | |b'| | | | |]; try discriminate.
    cbn [schema_wf] in Hwa, Hwb. cbn [conforms] in H.
    destruct doc; try (destruct (IH Hwa b' Hc Hwb _ v H) as (v' & Hv' & Hcar); exists v'; split; [exact Hv'|exact Hcar]).
    subst v. exists JNull. split; [reflexivity|exact I].
  - (* SStruct *) intros fa IH Hwa b Hc Hwb doc v H.
    rewrite compat_struct in Hc. destruct (strip_opt b) as [| | | | | | |fb| | | |] eqn:Eb; try discriminate.
    apply andb_true_iff in Hc as [Himpl Hcomp].
    apply wf_strip in Hwb. rewrite Eb, wf_struct in Hwb. apply andb_true_iff in Hwb as [Hshb Hwfb].
    rewrite wf_struct in Hwa. apply andb_true_iff in Hwa as [Hsha Hwfa].
    rewrite conforms_struct in H. unfold conf_struct in H.
    destruct doc as [| | | | |?|d]; try contradiction. destruct v as [| | | | |?|va]; try contradiction.
    destruct (struct_compat_sound fa fb d va) as (vb & Hvb & Hcar); try assumption.
    + apply (fields_forall P_compat fa IH Hwfa).
    + eapply shape_nodup_api; eassumption.
    + exists (JObj vb). split; [|now apply carries_obj].
      apply conforms_strip; [discriminate|]. rewrite Eb, conforms_struct. exact Hvb.
  - (* SUnitEnum *) intros names _ b Hc Hwb doc v (n & e & -> & -> & Hm). cbn [compat] in Hc.
    destruct (strip_opt b) as [| | | | | | | |nb| | |] eqn:Eb; try discriminate. exists (JStr n false). split; [|reflexivity].
    apply conforms_strip; [discriminate|]. rewrite Eb. cbn [conforms]. exists n, e. repeat split.
    rewrite forallb_forall in Hc. apply Hc. now apply mem_str_In.
  - (* STagged *) intros ta va IH Hwa b Hc Hwb doc v H.
    rewrite compat_tagged in Hc. destruct (strip_opt b) as [| | | | | | | | |tb vb| |] eqn:Eb; try discriminate.
    apply andb_true_iff in Hc as [Et Hc]. apply str_eqb_eq in Et. subst tb.
    apply wf_strip in Hwb. rewrite Eb, wf_tagged in Hwb. apply andb_true_iff in Hwb as [_ Hwb].
    rewrite wf_tagged in Hwa. apply andb_true_iff in Hwa as [_ Hwa].
    rewrite conforms_tagged in H. unfold conf_tagged in H.
    destruct doc as [| | | | |?|d]; try contradiction. destruct v as [| | | | |?|vs0]; try contradiction.
    destruct vs0 as [|[t tv] fields]; try contradiction. destruct tv as [| | | |n esc| |]; try contradiction.
    destruct esc; try contradiction.
    cbv beta iota in H. destruct H as (Et & e & cs & Hall & Hlk & HC). subst t.
    rewrite lookup_map_snd in Hlk.
    match type of Hlk with option_map _ ?X = _ => destruct X as [fa|] eqn:En end; [|discriminate].
    cbn [option_map] in Hlk. inversion Hlk; subst cs. clear Hlk.
    apply lookup_In in En.
    rewrite forallb_forall in Hc. specialize (Hc _ En). cbn [fst snd] in Hc.
    destruct (lookup n vb) as [fb|] eqn:Enb; [|discriminate]. apply andb_true_iff in Hc as [Himpl Hcomp].
    pose proof (lookup_In _ _ _ Enb) as Hinb.
    rewrite forallb_forall in Hwb. specialize (Hwb _ Hinb). cbn [snd] in Hwb.
    apply andb_true_iff in Hwb as [Hwb Hwfb]. apply andb_true_iff in Hwb as [Hshb _].
    rewrite forallb_forall in Hwa. specialize (Hwa _ En). cbn [snd] in Hwa.
    apply andb_true_iff in Hwa as [Hwa Hwfa]. apply andb_true_iff in Hwa as [Hsha Htag].
    rewrite Forall_forall in IH. specialize (IH _ En). cbn [snd] in IH.
    pose proof (impl_fields_ok_noflat _ _ Himpl) as Hnofl.
    destruct (struct_compat_sound fa fb (remove_key ta d) fields) as (vb' & Hvb & Hcar); try assumption.
    + apply (fields_forall P_compat fa IH Hwfa).
    + eapply shape_nodup_api; eassumption.
    + exists (JObj ((ta, JStr n false) :: vb')). split.
      * apply conforms_strip; [discriminate|]. rewrite Eb, conforms_tagged. unfold conf_tagged.
        split; [reflexivity|]. exists e, (confs_of conforms fb). split; [exact Hall|]. split; [|exact Hvb].
        rewrite lookup_map_snd.
        match goal with |- option_map _ ?X = _ => replace X with (Some fb) by (symmetry; exact Enb) end. reflexivity.
      * apply carries_obj. constructor.
        { right. exists (JStr n false). cbn [fst snd lookup]. rewrite str_eqb_refl. split; reflexivity. }
        apply conf_fields_flat in HC; [|now apply confs_of_nonflat].
        pose proof (Rfield_keys _ _ _ HC) as Hkeys. rewrite confs_keys in Hkeys.
        unfold carries_list in Hcar. rewrite Forall_forall in Hcar. apply Forall_forall. intros [k x] Hkx.
        destruct (Hcar _ Hkx) as [Hl|(y & Hy & Hc')]; [now left|right]. cbn [fst snd] in *.
        exists y. split; [|exact Hc']. cbn [lookup].
        rewrite str_eqb_neq; [exact Hy|]. intros ->.
        rewrite (expand_noflat fa Hnofl) in Htag. rewrite <- Hkeys in Htag.
        assert (mem_str ta (map fst fields) = true); [|now rewrite H in Htag].
        apply mem_str_In. change ta with (fst (ta, x)). now apply in_map.
  - (* SSpaceSV *) intros _ b Hc Hwb doc v (ms & HF & -> & ->). cbn [compat] in Hc.
    destruct (strip_opt b) eqn:Eb; try discriminate. eexists. split; [|reflexivity].
    apply conforms_strip; [discriminate|]. rewrite Eb. cbn [conforms]. exists ms. auto.
  - (* SCsvRules *) intros names _ b Hc. discriminate.
Qed.

(* ------------------------------------------------------------------ the JSON parser never runs out of fuel *)
Lemma skip_ws_le x : (length (skip_ws x) <= length x)%nat.
Proof. induction x as [|c r IH]; cbn [skip_ws length]; [lia|]. destruct (is_json_ws c); cbn [length]; lia. Qed.

Lemma skip_ws_cons x c r : skip_ws x = c :: r -> (length r < length x)%nat.
Proof. intros H. pose proof (skip_ws_le x) as L. rewrite H in L. cbn [length] in L. lia. Qed.

Ltac ps_crush H IH :=
  repeat first
    [ discriminate H
    | match type of H with
      | context [match parse_string ?y with _ => _ end] =>
        let E := fresh "E" in
        destruct (parse_string y) as [[[? ?] ?]|] eqn:E; [apply IH in E; [|cbn [length] in *; lia]|]
      | context [match hex4 ?a ?b ?c ?d with _ => _ end] => destruct (hex4 a b c d)
      | context [if ?b then _ else _] => destruct b
      | context [match ?l with [] => _ | _ :: _ => _ end] => is_var l; destruct l
      end ].

Lemma parse_string_lt : forall n x s e r,
  (length x <= n)%nat -> parse_string x = Some (s, e, r) -> (length r < length x)%nat.
Proof.
  induction n as [|n IH]; intros x s e r Hn H.
  - destruct x; [discriminate|cbn [length] in Hn; lia].
  - destruct x as [|c x1]; [discriminate|]. cbn [parse_string] in H. cbn [length] in Hn.
    assert (IH' : forall y s e r, (length y <= n)%nat -> parse_string y = Some (s, e, r) -> (length r < length y)%nat)
      by exact IH.
    clear IH. ps_crush H IH'; inversion H; subst; cbn [length] in *; lia.
Qed.

Lemma take_digits_len x : forall d r, take_digits x = (d, r) -> length x = (length d + length r)%nat.
Proof.
  induction x as [|c x IH]; cbn [take_digits]; intros d r H.
  - inversion H. reflexivity.
  - destruct (is_ascii_digit c).
    + destruct (take_digits x) as [d' r'] eqn:E. inversion H; subst. cbn [length]. rewrite (IH d' r eq_refl). lia.
    + inversion H; subst. reflexivity.
Qed.

Lemma parse_number_lt x v rest : parse_number x = Some (v, rest) -> (length rest < length x)%nat.
Proof.
  unfold parse_number. intros H.
  destruct (match x with [] => (false, x) | c :: r => if c =? 45 then (true, r) else (false, x) end) as [neg x1] eqn:E1.
  assert (L1 : (length x1 <= length x)%nat).
  { destruct x as [|c r]; [inversion E1; subst; lia|]. destruct (c =? 45); inversion E1; subst; cbn [length]; lia. }
  destruct (take_digits x1) as [ip x2] eqn:E2. apply take_digits_len in E2.
  destruct ip as [|d0 more]; [discriminate|]. cbn [length] in E2.
  destruct ((d0 =? 48) && nonempty more); [discriminate|].
  match type of H with match ?F with _ => _ end = _ => destruct F as [[[hf ft] x3]|] eqn:E3 end; [|discriminate].
  assert (L3 : (length x3 <= length x2)%nat).
  { destruct x2 as [|c r]; [inversion E3; subst; lia|]. destruct (c =? 46).
    - destruct (take_digits r) as [fp x3'] eqn:E. apply take_digits_len in E. destruct fp; [discriminate|].
      inversion E3; subst. cbn [length] in *. lia.
    - inversion E3; subst. lia. }
  match type of H with match ?F with _ => _ end = _ => destruct F as [[[he et] x4]|] eqn:E4 end; [|discriminate].
  assert (L4 : (length x4 <= length x3)%nat).
  { destruct x3 as [|c r]; [inversion E4; subst; lia|]. destruct ((c =? 101) || (c =? 69)).
    - match type of E4 with (let (_, _) := ?F in _) = _ => destruct F as [sg r1] eqn:E5 end.
      assert (L5 : (length r1 <= length r)%nat).
      { destruct r as [|s r']; [inversion E5; subst; lia|]. destruct ((s =? 43) || (s =? 45)); inversion E5; subst; cbn [length]; lia. }
      destruct (take_digits r1) as [ep x4'] eqn:E. apply take_digits_len in E. destruct ep; [discriminate|].
      inversion E4; subst. cbn [length] in *. lia.
    - inversion E4; subst. lia. }
  assert (rest = x4).
  { destruct (hf || he); [now inversion H|]. destruct neg.
    - destruct ((digits_val 0 (d0 :: more) =? 0) || (9223372036854775808 <? digits_val 0 (d0 :: more))); now inversion H.
    - destruct (18446744073709551615 <? digits_val 0 (d0 :: more)); now inversion H. }
  subst. lia.
Qed.

Lemma str_eqb_length a : forall b, str_eqb a b = true -> length a = length b.
Proof. intros b H. apply str_eqb_eq in H. now subst. Qed.

Lemma expect_lit_lt l v x v' r : l <> [] -> expect_lit l v x = POk v' r -> (length r < length x)%nat.
Proof.
  unfold expect_lit, starts_with. intros Hl H. destruct (str_eqb l (firstn (length l) x)) eqn:E; [|discriminate].
  inversion H; subst. apply str_eqb_length in E. rewrite firstn_length in E. rewrite skipn_length.
  destruct l; [congruence|]. cbn [length] in *. lia.
Qed.

Lemma expect_lit_nofuel l v x : expect_lit l v x <> PFuel.
Proof. unfold expect_lit. destruct (starts_with l x); discriminate. Qed.

Section Loops.
Variable pv : str -> pres json.
Hypothesis pv_lt : forall y v r, pv y = POk v r -> (length r < length y)%nat.
Hypothesis pv_nofuel : forall y, pv y <> PFuel.

Lemma elems_loop_ok : forall m y acc, (length y < m)%nat ->
  elems_loop pv m y acc <> PFuel /\ forall v r, elems_loop pv m y acc = POk v r -> (length r < length y)%nat.
Proof.
  induction m as [|m IH]; intros y acc Hm; [lia|]. cbn [elems_loop].
  destruct (pv y) as [v y1| |] eqn:E; [|split; [discriminate|intros ? ? [=]]|exfalso; eapply pv_nofuel; eauto].
  apply pv_lt in E. destruct (skip_ws y1) as [|c y2] eqn:Es; [split; [discriminate|intros ? ? [=]]|].
  apply skip_ws_cons in Es. destruct (c =? 44).
  - destruct (IH y2 (v :: acc)) as [H1 H2]; [lia|]. split; [exact H1|]. intros v' r Hr. apply H2 in Hr. lia.
  - destruct (c =? 93); split; try discriminate; intros ? ? [=]; subst. lia.
Qed.

Lemma members_loop_ok : forall m y acc, (length y < m)%nat ->
  members_loop pv m y acc <> PFuel /\ forall v r, members_loop pv m y acc = POk v r -> (length r < length y)%nat.
Proof.
  induction m as [|m IH]; intros y acc Hm; [lia|]. cbn [members_loop].
  destruct (skip_ws y) as [|q y0] eqn:E0; [split; [discriminate|intros ? ? [=]]|]. apply skip_ws_cons in E0.
  destruct (q =? 34); [|split; [discriminate|intros ? ? [=]]].
  destruct (parse_string y0) as [[[k e] y1]|] eqn:Ep; [|split; [discriminate|intros ? ? [=]]].
  apply (parse_string_lt _ _ _ _ _ (le_n _)) in Ep.
  destruct (skip_ws y1) as [|c y2] eqn:E1; [split; [discriminate|intros ? ? [=]]|]. apply skip_ws_cons in E1.
  destruct (c =? 58); [|split; [discriminate|intros ? ? [=]]].
  destruct (pv y2) as [v y3| |] eqn:E; [|split; [discriminate|intros ? ? [=]]|exfalso; eapply pv_nofuel; eauto].
  apply pv_lt in E. destruct (skip_ws y3) as [|c' y4] eqn:E3; [split; [discriminate|intros ? ? [=]]|].
  apply skip_ws_cons in E3. destruct (c' =? 44).
  - destruct (IH y4 ((k, v) :: acc)) as [H1 H2]; [lia|]. split; [exact H1|]. intros v' r Hr. apply H2 in Hr. lia.
  - destruct (c' =? 125); split; try discriminate; intros ? ? [=]; subst. lia.
Qed.
End Loops.

Lemma parse_value_ok n : forall d x, (length x < n)%nat ->
  parse_value d n x <> PFuel /\ forall v r, parse_value d n x = POk v r -> (length r < length x)%nat.
Proof.
  induction d as [|d IH]; intros x Hn; cbn [parse_value];
    (destruct (skip_ws x) as [|c r] eqn:Es; [split; [discriminate|intros ? ? [=]]|]);
    pose proof (skip_ws_le x) as Lx; rewrite Es in Lx;
    (destruct (c =? 110); [split; [apply expect_lit_nofuel|intros ? ? H; apply expect_lit_lt in H; [lia|discriminate]]|]);
    (destruct (c =? 116); [split; [apply expect_lit_nofuel|intros ? ? H; apply expect_lit_lt in H; [lia|discriminate]]|]);
    (destruct (c =? 102); [split; [apply expect_lit_nofuel|intros ? ? H; apply expect_lit_lt in H; [lia|discriminate]]|]);
    (destruct (c =? 34);
     [destruct (parse_string r) as [[[s e] r']|] eqn:Ep; [|split; [discriminate|intros ? ? [=]]];
      apply (parse_string_lt _ _ _ _ _ (le_n _)) in Ep; split; [discriminate|intros ? ? [=]; subst; cbn [length] in *; lia]|]).
  - (* depth 0 *)
    destruct (c =? 91); [split; [discriminate|intros ? ? [=]]|].
    destruct (c =? 123); [split; [discriminate|intros ? ? [=]]|].
    destruct ((c =? 45) || is_ascii_digit c); [|split; [discriminate|intros ? ? [=]]].
    destruct (parse_number (c :: r)) as [[v r']|] eqn:En; [|split; [discriminate|intros ? ? [=]]].
    apply parse_number_lt in En. split; [discriminate|intros ? ? [=]; subst; lia].
  - assert (Hpv_lt : forall y v r0, (length y < n)%nat -> parse_value d n y = POk v r0 -> (length r0 < length y)%nat)
      by (intros y v r0 Hy; apply (IH y Hy)).
    cbn [length] in Lx.
    destruct (c =? 91).
    { destruct (starts_with_chr 93 (skip_ws r)) eqn:Ec.
      - split; [discriminate|]. intros ? ? [=]; subst. pose proof (skip_ws_le r).
        destruct (skip_ws r); cbn [tl length] in *; lia.
      - (* the loop only ever calls the nested parser on suffixes of r, all shorter than n *)
        set (pv := fun y => if Nat.ltb (length y) n then parse_value d n y else PErr).
        assert (Heq : forall m y acc, (length y < n)%nat -> elems_loop (parse_value d n) m y acc = elems_loop pv m y acc).
        { induction m as [|m IHm]; intros y acc Hy; [reflexivity|]. cbn [elems_loop]. unfold pv at 1.
          destruct (Nat.ltb_spec (length y) n); [|lia].
          destruct (parse_value d n y) as [v y1| |] eqn:E; try reflexivity.
          apply Hpv_lt in E; [|assumption]. destruct (skip_ws y1) as [|c' y2] eqn:Es'; [reflexivity|].
          apply skip_ws_cons in Es'. destruct (c' =? 44); [|reflexivity]. apply IHm. lia. }
        rewrite Heq by lia.
        destruct (elems_loop_ok pv) with (m := n) (y := r) (acc := @nil json) as [H1 H2].
        + intros y v r0. unfold pv. destruct (Nat.ltb_spec (length y) n); [now apply Hpv_lt|discriminate].
        + intros y. unfold pv. destruct (Nat.ltb_spec (length y) n); [now apply IH|discriminate].
        + lia.
        + split; [exact H1|]. intros v r0 Hr. apply H2 in Hr. lia. }
    destruct (c =? 123).
    { destruct (starts_with_chr 125 (skip_ws r)) eqn:Ec.
      - split; [discriminate|]. intros ? ? [=]; subst. pose proof (skip_ws_le r).
        destruct (skip_ws r); cbn [tl length] in *; lia.
      - set (pv := fun y => if Nat.ltb (length y) n then parse_value d n y else PErr).
        assert (Heq : forall m y acc, (length y < n)%nat -> members_loop (parse_value d n) m y acc = members_loop pv m y acc).
        { induction m as [|m IHm]; intros y acc Hy; [reflexivity|]. cbn [members_loop].
          destruct (skip_ws y) as [|q y0] eqn:E0; [reflexivity|]. apply skip_ws_cons in E0.
          destruct (q =? 34); [|reflexivity].
          destruct (parse_string y0) as [[[k e] y1]|] eqn:Ep; [|reflexivity].
          apply (parse_string_lt _ _ _ _ _ (le_n _)) in Ep.
          destruct (skip_ws y1) as [|c' y2] eqn:E1; [reflexivity|]. apply skip_ws_cons in E1.
          destruct (c' =? 58); [|reflexivity]. unfold pv at 1.
          destruct (Nat.ltb_spec (length y2) n); [|lia].
          destruct (parse_value d n y2) as [v y3| |] eqn:E; try reflexivity.
          apply Hpv_lt in E; [|assumption]. destruct (skip_ws y3) as [|c'' y4] eqn:E3; [reflexivity|].
          apply skip_ws_cons in E3. destruct (c'' =? 44); [|reflexivity]. apply IHm. lia. }
        rewrite Heq by lia.
        destruct (members_loop_ok pv) with (m := n) (y := r) (acc := @nil (str * json)) as [H1 H2].
        + intros y v r0. unfold pv. destruct (Nat.ltb_spec (length y) n); [now apply Hpv_lt|discriminate].
        + intros y. unfold pv. destruct (Nat.ltb_spec (length y) n); [now apply IH|discriminate].
        + lia.
        + split; [exact H1|]. intros v r0 Hr. apply H2 in Hr. lia. }
    destruct ((c =? 45) || is_ascii_digit c); [|split; [discriminate|intros ? ? [=]]].
    destruct (parse_number (c :: r)) as [[v r']|] eqn:En; [|split; [discriminate|intros ? ? [=]]].
    apply parse_number_lt in En. cbn [length] in En. split; [discriminate|intros ? ? [=]; subst; lia].
Qed.

Theorem parse_json_fuel x : parse_json_res x <> PFuel.
Proof.
  unfold parse_json_res. destruct (parse_value_ok (S (length x)) recursion_limit x (Nat.lt_succ_diag_r _)) as [H _].
  destruct (parse_value recursion_limit (S (length x)) x) as [v rest| |]; [|discriminate|congruence].
  destruct (skip_ws rest); discriminate.
Qed.

(* ------------------------------------------------------------------ UCI move texts: finite sweep *)
Definition uci_texts : list str :=
  flat_map (fun a => flat_map (fun b => flat_map (fun c => flat_map (fun d =>
    map (fun p => [a; b; c; d] ++ p) uci_promos) uci_ranks) uci_files) uci_ranks) uci_files.

Definition uci_roundtrip (s : str) : bool :=
  match uci_move_parse s with Ok t => str_eqb t s | _ => false end.

Lemma uci_sweep : forallb (fun s => uci_roundtrip s && token_ok s) uci_texts = true.
Proof. vm_compute. reflexivity. Qed.

Lemma uci_texts_complete s : uci_wellformed s -> In s uci_texts.
Proof.
  intros (a & b & c & d & p & -> & Ha & Hb & Hc & Hd & Hp). unfold uci_texts.
  apply in_flat_map. exists a. split; [exact Ha|].
  apply in_flat_map. exists b. split; [exact Hb|].
  apply in_flat_map. exists c. split; [exact Hc|].
  apply in_flat_map. exists d. split; [exact Hd|].
  apply in_map_iff. exists p. split; [reflexivity|exact Hp].
Qed.

Theorem uci_accepts s : uci_wellformed s -> uci_move_parse s = Ok s /\ uci_move_ok s = true /\ uci_token s.
Proof.
  intros H. apply uci_texts_complete in H. pose proof uci_sweep as Hs. rewrite forallb_forall in Hs.
  specialize (Hs s H). apply andb_true_iff in Hs as [H1 H2]. unfold uci_roundtrip in H1. unfold uci_move_ok.
  destruct (uci_move_parse s) as [t| |]; try discriminate. apply str_eqb_eq in H1. subst. auto.
Qed.

(* the move parser is total without panics, and accepts only texts of 4 or 5 characters *)
Theorem uci_no_panic s : uci_move_parse s <> Panic.
Proof.
  unfold uci_move_parse. destruct s as [|c1 [|c2 [|c3 [|c4 r4]]]]; try discriminate.
  destruct (square_from_chars c1 c2); [|discriminate]. destruct (square_from_chars c3 c4); [|discriminate].
  destruct r4 as [|c5 [|c6 r6]]; try discriminate. destruct (piece_from_char c5); discriminate.
Qed.

Theorem uci_ok_length s t : uci_move_parse s = Ok t -> (length s = 4 \/ length s = 5)%nat.
Proof.
  unfold uci_move_parse. destruct s as [|c1 [|c2 [|c3 [|c4 r4]]]]; try discriminate.
  destruct (square_from_chars c1 c2); [|discriminate]. destruct (square_from_chars c3 c4); [|discriminate].
  destruct r4 as [|c5 [|c6 r6]]; try discriminate; cbn [length]; auto.
Qed.

(* ------------------------------------------------------------------ the property statements *)
Theorem C19_decode_thm : forall s doc v, schema_wf s = true -> conforms s doc v -> decode s doc = Ok v.
Proof. intros s doc v Hwf H. unfold decode. now apply decode_conforms. Qed.

Theorem C19_compat_sound_thm : forall api impl, compatible api impl = true ->
  forall doc v, conforms api doc v -> exists v', decode impl doc = Ok v' /\ carries v v'.
Proof.
  intros api impl H doc v Hc. unfold compatible in H. apply andb_true_iff in H as [H Hcompat].
  apply andb_true_iff in H as [Hwa Hwb].
  destruct (compat_sound api Hwa impl Hcompat Hwb doc v Hc) as (v' & Hv' & Hcar).
  exists v'. split; [|exact Hcar]. now apply C19_decode_thm.
Qed.

Theorem C19_moves_thm :
  (forall ms, Forall uci_token ms -> ms <> [] -> space_sv (join [32] ms) = ms) /\ space_sv [] = [].
Proof. split; [exact space_sv_join|exact space_sv_nil]. Qed.

(* ------------------------------------------------------------------ find_bad reports a path exactly when compat fails *)
Section BadFields.
Variable FB : schema -> schema -> option (list str).
Variable eb : list field.
Fixpoint bad_fields (fa : list field) : option (list str) :=
  match fa with
  | [] => None
  | f :: r =>
    match find_wire (fwire f) eb with
    | Some g =>
      match FB (fsch f) (fsch g) with
      | Some p => Some (fwire f :: p)
      | None => if negb (fdefault f) || is_never (fsch f) && lenient g then bad_fields r else Some [fwire f]
      end
    | None => match fsch f with SNever => bad_fields r | _ => Some [fwire f] end
    end
  end.
End BadFields.

Lemma find_bad_struct fa b :
  find_bad (SStruct fa) b =
  match strip_opt b with
  | SStruct fb =>
    match bad_fields find_bad (expand fb) fa with Some p => Some p | None => first_bad_impl_field fa (expand fb) end
  | _ => Some []
  end.
Proof. cbn [find_bad]. destruct (strip_opt b); reflexivity. Qed.

Lemma find_bad_tagged ta va b :
  find_bad (STagged ta va) b =
  match strip_opt b with
  | STagged tb vb =>
    if negb (str_eqb ta tb) then Some [ta]
    else (fix gov (va : list (str * list field)) : option (list str) :=
            match va with
            | [] => None
            | v :: r =>
              match lookup (fst v) vb with
              | Some fb =>
                match bad_fields find_bad (expand fb) (snd v) with
                | Some p => Some (fst v :: p)
                | None => match first_bad_impl_field (snd v) (expand fb) with
                          | Some p => Some (fst v :: p)
                          | None => gov r
                          end
                end
              | None => Some [fst v]
              end
            end) va
  | _ => Some []
  end.
Proof.
  cbn [find_bad]. destruct (strip_opt b); try reflexivity. destruct (negb (str_eqb ta tag)); [reflexivity|].
  induction va as [|[n fa] r IH]; [reflexivity|]. cbn [fst snd]. rewrite <- IH. reflexivity.
Qed.

Lemma find_none_forallb {A} (p q : A -> bool) l :
  (forall x, q x = negb (p x)) -> (find p l = None <-> forallb q l = true).
Proof.
  intros Hq. induction l as [|a r IH]; cbn [find forallb]; [tauto|]. rewrite Hq.
  destruct (p a); cbn [negb andb]; [split; discriminate|exact IH].
Qed.

Lemma first_bad_iff fa eb : first_bad_impl_field fa eb = None <-> impl_fields_ok fa eb = true.
Proof.
  unfold first_bad_impl_field, impl_fields_ok. rewrite andb_true_iff.
  rewrite <- (find_none_forallb (fun f => fflatten f) (fun f => negb (fflatten f)) fa) by reflexivity.
  rewrite <- (find_none_forallb
                (fun g => negb match find_wire (fwire g) fa with
                               | Some f => lenient g || negb (lenient f)
                               | None => false
                               end)
                (fun g => match find_wire (fwire g) fa with
                          | Some f => lenient g || negb (lenient f)
                          | None => false
                          end) eb) by (intros x; now rewrite negb_involutive).
  destruct (find (fun f => fflatten f) fa).
  - split; [discriminate|intros [H _]; discriminate].
  - match goal with |- context [find ?p eb] => destruct (find p eb) end.
    + split; [discriminate|intros [_ H]; discriminate].
    + tauto.
Qed.

Lemma bad_fields_iff FB eb fa :
  Forall (fun f => forall b, FB (fsch f) b = None <-> compat (fsch f) b = true) fa ->
  (bad_fields FB eb fa = None <-> forallb (field_compat eb) fa = true).
Proof.
  induction 1 as [|f r Hf HF IH]; cbn [bad_fields forallb]; [tauto|]. unfold field_compat at 1.
  destruct (find_wire (fwire f) eb) as [g|].
  - specialize (Hf (fsch g)). destruct (FB (fsch f) (fsch g)) as [p|].
    + destruct (compat (fsch f) (fsch g)); [destruct Hf as [_ Hf]; discriminate (Hf eq_refl)|]. cbn [andb]. split; discriminate.
    + destruct Hf as [Hf _]. rewrite (Hf eq_refl). cbn [andb].
      destruct (negb (fdefault f) || is_never (fsch f) && lenient g); cbn [andb]; [exact IH|split; discriminate].
  - destruct (fsch f); cbn [is_never andb]; try (split; discriminate). exact IH.
Qed.

Theorem find_bad_none_iff : forall a b, find_bad a b = None <-> compat a b = true.
Proof.
  apply (schema_ind' (fun a => forall b, find_bad a b = None <-> compat a b = true));
    try (intros; cbn [find_bad]; match goal with |- context [if ?c then _ else _] => destruct c end; split; congruence).
  - intros a IH b. cbn [find_bad compat]. destruct b; try (split; discriminate). apply IH.
  - intros fa IH b. rewrite find_bad_struct, compat_struct. destruct (strip_opt b); try (split; discriminate).
    rewrite andb_true_iff, <- first_bad_iff, <- (bad_fields_iff find_bad _ fa IH).
    destruct (bad_fields find_bad (expand fs) fa); [split; [discriminate|intros [_ H]; discriminate]|].
    tauto.
  - intros ta va IH b. rewrite find_bad_tagged, compat_tagged. destruct (strip_opt b) as [| | | | | | | | |tb vb| |]; try (split; discriminate).
    destruct (str_eqb ta tb); cbn [negb andb]; [|split; discriminate].
    induction va as [|[n fa] r IHr]; cbn [forallb fst snd]; [tauto|].
    inversion IH as [|? ? Hfa Hr]; subst. cbn [snd] in Hfa. specialize (IHr Hr).
    destruct (lookup n vb) as [fb|]; [|split; discriminate].
    rewrite !andb_true_iff, <- first_bad_iff, <- (bad_fields_iff find_bad _ fa Hfa).
    destruct (bad_fields find_bad (expand fb) fa); [split; [discriminate|intros [[_ H] _]; discriminate]|].
    destruct (first_bad_impl_field fa (expand fb)); [split; [discriminate|intros [[H _] _]; discriminate]|].
    rewrite IHr. tauto.
Qed.

(* Proofs/MinimaxProofs.v : basic facts about Spec/Minimax.v (no implementation model involved).
   - maxneg toolkit (monotone, permutation invariant, attained)
   - qs does not depend on the fuel once fuel >= qmeasure; unfolding equation
   - horizon p = if no legal move then terminal p else qs p    (the code's pseudo-legal "noisy_any" test is immaterial)
   - value bounds
   (forced mates: Proofs/MateProofs.v) *)
Require Import ZArith List Bool Lia Permutation.
Import ListNotations.
Require Import Ink.Spec.Minimax.
Open Scope Z_scope.

Arguments Z.add : simpl never.
Arguments Z.sub : simpl never.
Arguments Z.mul : simpl never.
Arguments Z.opp : simpl never.
Arguments Z.max : simpl never.
Arguments Z.min : simpl never.

Section MaxNeg.
Variable pos : Type.
Local Notation maxneg := (Minimax.maxneg pos).

Lemma maxneg_ge f l acc : acc <= maxneg f l acc.
Proof.
  revert acc; induction l as [|c r IH]; intros acc; cbn [Minimax.maxneg]; [lia|].
  specialize (IH (Z.max acc (- f c))). lia.
Qed.

Lemma maxneg_mono f l a1 a2 : a1 <= a2 -> maxneg f l a1 <= maxneg f l a2.
Proof.
  revert a1 a2; induction l as [|c r IH]; intros a1 a2 H; cbn [Minimax.maxneg]; [lia|]. apply IH. lia.
Qed.

Lemma maxneg_max f l a1 a2 : maxneg f l (Z.max a1 a2) = Z.max (maxneg f l a1) (maxneg f l a2).
Proof.
  revert a1 a2; induction l as [|c r IH]; intros a1 a2; cbn [Minimax.maxneg]; [reflexivity|].
  replace (Z.max (Z.max a1 a2) (- f c)) with (Z.max (Z.max a1 (- f c)) (Z.max a2 (- f c))) by lia. apply IH.
Qed.

Lemma maxneg_le_max f l a b : maxneg f l a <= Z.max a (maxneg f l b).
Proof.
  revert a b; induction l as [|c r IH]; intros a b; cbn [Minimax.maxneg]; [lia|].
  specialize (IH (Z.max a (- f c)) (Z.max b (- f c))).
  pose proof (maxneg_ge f r (Z.max b (- f c))). lia.
Qed.

Lemma maxneg_cons f c r acc : maxneg f (c :: r) acc = Z.max (- f c) (maxneg f r acc).
Proof.
  cbn [Minimax.maxneg]. rewrite maxneg_max. pose proof (maxneg_ge f r (- f c)) as H1.
  pose proof (maxneg_le_max f r (- f c) acc) as H2. lia.
Qed.

Lemma maxneg_ge_in f l acc c : In c l -> - f c <= maxneg f l acc.
Proof.
  revert acc; induction l as [|c' r IH]; intros acc Hin; [destruct Hin|].
  rewrite maxneg_cons. destruct Hin as [->|Hin]; [lia|]. specialize (IH acc Hin). lia.
Qed.

Lemma maxneg_le f l acc u : acc <= u -> (forall c, In c l -> - f c <= u) -> maxneg f l acc <= u.
Proof.
  revert acc; induction l as [|c r IH]; intros acc Ha Hl; cbn [Minimax.maxneg]; [exact Ha|].
  apply IH; [|intros c' Hc'; apply Hl; now right]. pose proof (Hl c (or_introl eq_refl)). lia.
Qed.

Lemma maxneg_attained f l acc : maxneg f l acc = acc \/ exists c, In c l /\ maxneg f l acc = - f c.
Proof.
  revert acc; induction l as [|c r IH]; intros acc; cbn [Minimax.maxneg]; [now left|].
  destruct (IH (Z.max acc (- f c))) as [E|(c' & Hin & E)].
  - destruct (Z.le_ge_cases (- f c) acc) as [H|H].
    + left. rewrite E. lia.
    + right. exists c. split; [now left|]. rewrite E. lia.
  - right. exists c'. split; [now right|exact E].
Qed.

Lemma maxneg_ext f g l acc : (forall c, In c l -> f c = g c) -> maxneg f l acc = maxneg g l acc.
Proof.
  revert acc; induction l as [|c r IH]; intros acc H; cbn [Minimax.maxneg]; [reflexivity|].
  rewrite (H c) by now left. apply IH. intros c' Hc'. apply H. now right.
Qed.

Lemma maxneg_perm f l l' acc : Permutation l l' -> maxneg f l acc = maxneg f l' acc.
Proof.
  intros HP. revert acc. induction HP as [|x l l' HP IH|x y l|l l' l'' HP1 IH1 HP2 IH2]; intros acc.
  - reflexivity.
  - cbn [Minimax.maxneg]. apply IH.
  - cbn [Minimax.maxneg]. f_equal. lia.
  - now rewrite IH1.
Qed.

Lemma maxneg_app f l1 l2 acc : maxneg f (l1 ++ l2) acc = maxneg f l2 (maxneg f l1 acc).
Proof. revert acc; induction l1 as [|c r IH]; intros acc; cbn [Minimax.maxneg app]; [reflexivity|apply IH]. Qed.

End MaxNeg.

Section Facts.
Variable pos : Type.
Variable succs : pos -> list pos.
Variable noisy_succs : pos -> list pos.
Variable noisy_any : pos -> bool.
Variable static : pos -> Z.
Variable terminal : pos -> Z.
Variable qmeasure : pos -> nat.

Local Notation maxneg := (Minimax.maxneg pos).
Local Notation qs_fuel := (Minimax.qs_fuel pos noisy_succs static).
Local Notation qs := (Minimax.qs pos noisy_succs static qmeasure).
Local Notation nomoves := (Minimax.nomoves pos succs).
Local Notation horizon := (Minimax.horizon pos succs noisy_succs noisy_any static terminal qmeasure).
Local Notation nm := (Minimax.nm pos succs noisy_succs noisy_any static terminal qmeasure).

Hypothesis Hdec : Minimax.qmeasure_dec pos noisy_succs qmeasure.

Lemma qs_fuel_indep : forall f1 f2 p, (qmeasure p <= f1)%nat -> (qmeasure p <= f2)%nat -> qs_fuel f1 p = qs_fuel f2 p.
Proof.
  assert (Hnil : forall p, qmeasure p = O -> noisy_succs p = []).
  { intros p Hp. destruct (noisy_succs p) as [|q r] eqn:E; [reflexivity|].
    pose proof (Hdec p q) as H. rewrite E in H. specialize (H (or_introl eq_refl)). lia. }
  induction f1 as [|k1 IH]; intros f2 p H1 H2.
  - destruct f2 as [|k2]; [reflexivity|]. cbn [Minimax.qs_fuel]. rewrite Hnil by lia. reflexivity.
  - destruct f2 as [|k2].
    + cbn [Minimax.qs_fuel]. rewrite Hnil by lia. reflexivity.
    + cbn [Minimax.qs_fuel]. apply maxneg_ext. intros q Hq. pose proof (Hdec p q Hq). apply IH; lia.
Qed.

Lemma qs_fuel_enough fuel p : (qmeasure p <= fuel)%nat -> qs_fuel fuel p = qs p.
Proof. intros H. unfold Minimax.qs. apply qs_fuel_indep; [exact H|lia]. Qed.

Lemma qs_unfold p : qs p = maxneg qs (noisy_succs p) (static p).
Proof.
  rewrite <- (qs_fuel_enough (S (qmeasure p)) p) by lia. cbn [Minimax.qs_fuel].
  apply maxneg_ext. intros q Hq. apply qs_fuel_enough. pose proof (Hdec p q Hq). lia.
Qed.

Lemma qs_ge_static p : static p <= qs p.
Proof. rewrite qs_unfold. apply maxneg_ge. Qed.

Lemma qs_no_noisy p : noisy_succs p = [] -> qs p = static p.
Proof. intros H. rewrite qs_unfold, H. reflexivity. Qed.

(* the decision "enter quiescence?" on pseudo-legal noisy moves does not matter *)
Lemma horizon_eq : Minimax.noisy_any_ok pos noisy_succs noisy_any ->
  forall p, horizon p = if nomoves p then terminal p else qs p.
Proof.
  intros Hany p. unfold Minimax.horizon. destruct (nomoves p); [reflexivity|].
  destruct (noisy_any p) eqn:E; [reflexivity|]. symmetry. apply qs_no_noisy. now apply Hany.
Qed.

Lemma nm_nomoves d p : succs p = [] -> nm d p = terminal p.
Proof. intros H. destruct d; cbn [Minimax.nm]; now rewrite H. Qed.

Lemma nm_0 p : nm 0 p = horizon p.
Proof.
  cbn [Minimax.nm]. destruct (succs p) eqn:E; [|reflexivity].
  unfold Minimax.horizon, Minimax.nomoves. now rewrite E.
Qed.

Lemma nm_S k p c r : succs p = c :: r -> nm (S k) p = maxneg (nm k) r (- nm k c).
Proof. intros H. cbn [Minimax.nm]. now rewrite H. Qed.

(* with any base value below the children: the form the search loop computes *)
Lemma nm_S_base k p b : succs p <> [] -> (forall q, In q (succs p) -> b <= - nm k q) ->
  nm (S k) p = maxneg (nm k) (succs p) b.
Proof.
  intros Hne Hb. destruct (succs p) as [|c r] eqn:E; [contradiction|].
  rewrite (nm_S k p c r E). cbn [Minimax.maxneg]. f_equal. specialize (Hb c (or_introl eq_refl)). lia.
Qed.

Lemma nm_S_ge k p q : In q (succs p) -> - nm k q <= nm (S k) p.
Proof.
  intros Hin. destruct (succs p) as [|c r] eqn:E; [destruct Hin|].
  rewrite (nm_S k p c r E). destruct Hin as [->|Hin]; [apply maxneg_ge|now apply maxneg_ge_in].
Qed.

Lemma nm_S_attained k p : succs p <> [] -> exists q, In q (succs p) /\ nm (S k) p = - nm k q.
Proof.
  intros Hne. destruct (succs p) as [|c r] eqn:E; [contradiction|]. rewrite (nm_S k p c r E).
  destruct (maxneg_attained pos (nm k) r (- nm k c)) as [H|(q & Hq & H)].
  - exists c. split; [now left|exact H].
  - exists q. split; [now right|exact H].
Qed.

Lemma nm_S_le k p u : succs p <> [] -> (forall q, In q (succs p) -> - nm k q <= u) -> nm (S k) p <= u.
Proof.
  intros Hne H. destruct (nm_S_attained k p Hne) as (q & Hq & ->). now apply H.
Qed.

(* ---- bounds ---- *)
Section Bounds.
Variables lo hi : Z.
Hypothesis static_bound : forall p, lo <= static p <= hi.


Hypothesis sym : lo = - hi.

Lemma qs_fuel_bounds : forall fuel p, lo <= qs_fuel fuel p <= hi.
Proof.
  induction fuel as [|k IH]; intros p; cbn [Minimax.qs_fuel]; [apply static_bound|].
  pose proof (static_bound p) as Hs. split.
  - pose proof (maxneg_ge pos (qs_fuel k) (noisy_succs p) (static p)). lia.
  - apply maxneg_le; [lia|]. intros c _. specialize (IH c). lia.
Qed.

Lemma qs_bounds p : lo <= qs p <= hi.
Proof. apply qs_fuel_bounds. Qed.

Hypothesis terminal_bound : forall p, succs p = [] -> lo <= terminal p <= hi.

Lemma horizon_bounds p : lo <= horizon p <= hi.
Proof.
  unfold Minimax.horizon, Minimax.nomoves. destruct (succs p) eqn:E; [now apply terminal_bound|].
  destruct (noisy_any p); [apply qs_bounds|apply static_bound].
Qed.

Lemma nm_bounds : forall d p, lo <= nm d p <= hi.
Proof.
  induction d as [|k IH]; intros p.
  - rewrite nm_0. apply horizon_bounds.
  - destruct (succs p) as [|c r] eqn:E.
    + rewrite nm_nomoves by exact E. now apply terminal_bound.
    + assert (Hne : succs p <> []) by (rewrite E; discriminate).
      destruct (nm_S_attained k p Hne) as (q & _ & ->). specialize (IH q). lia.
Qed.
End Bounds.

End Facts.

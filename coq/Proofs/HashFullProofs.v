(* `hashfull` stays a permill value: Model/Search.v computes `(load_factor() * 1000.0) as u32` in binary32 arithmetic
   ([f32]: round to nearest, ties to even, 24-bit significand).  While the table holds at most `capacity` entries the
   result is at most 1000, for EVERY capacity (also above 2^24, where `len as f32` and `capacity as f32` are rounded):
     - rounding an integer to binary32 is monotone ([val_mono]), so len as f32 <= cap as f32;
     - a quotient that is at most a small integer c (here 1, then 1000) is still at most c after rounding ([f32_le]).
   Used by Proofs/SessionProofs.v (C16_one_go_output_shape). *)
Require Import Ink.Lib.Str.
Require Import NArith ZArith List Bool Lia Arith.
Require Import Ink.Model.Search.
Import ListNotations.
Open Scope N_scope.
Arguments N.add : simpl never.
Arguments N.sub : simpl never.
Arguments N.mul : simpl never.
Arguments N.div : simpl never.
Arguments N.modulo : simpl never.
Arguments N.eqb : simpl never.
Arguments N.ltb : simpl never.
Arguments N.leb : simpl never.
Arguments N.pow : simpl never.
Arguments N.shiftl : simpl never.
Arguments N.size : simpl never.
Arguments Z.add : simpl never.
Arguments Z.sub : simpl never.
Arguments Z.mul : simpl never.
Arguments Z.opp : simpl never.
Arguments Z.ltb : simpl never.
Arguments Z.to_N : simpl never.
Arguments Z.of_N : simpl never.

(* round to nearest, ties to even: x / d as an integer *)
Definition rnd (x d : N) : N :=
  let m := x / d in let r := x mod d in if (d <? 2 * r) || ((2 * r =? d) && N.odd m) then m + 1 else m.

Lemma rnd_cases x d : 0 < d -> exists m r, x = d * m + r /\ r < d /\ x / d = m /\
  ((rnd x d = m /\ 2 * r <= d) \/ (rnd x d = m + 1 /\ d <= 2 * r)).
Proof.
  intro Hd. exists (x / d), (x mod d). assert (Hd0 : d <> 0) by lia.
  split; [apply N.div_mod; exact Hd0|]. split; [apply N.mod_lt; exact Hd0|]. split; [reflexivity|].
  unfold rnd. cbv zeta. remember (x / d) as m. remember (x mod d) as r.
  destruct (N.ltb_spec d (2 * r)); cbn [orb]; [right; split; [reflexivity|lia]|].
  destruct (N.eqb_spec (2 * r) d); cbn [andb]; [|left; split; [reflexivity|lia]].
  destruct (N.odd m); [right; split; [reflexivity|lia]|left; split; [reflexivity|lia]].
Qed.

Lemma rnd_le x d I : 0 < d -> x <= I * d -> rnd x d <= I.
Proof.
  intros Hd Hx. destruct (rnd_cases x d Hd) as (m & r & E & Hr & _ & [[-> H]|[-> H]]); nia.
Qed.

Lemma rnd_lower x d : 0 < d -> x / d <= rnd x d.
Proof. intro Hd. destruct (rnd_cases x d Hd) as (m & r & E & Hr & -> & [[-> H]|[-> H]]); lia. Qed.

Lemma rnd_upper x d : 0 < d -> rnd x d <= x / d + 1.
Proof. intro Hd. destruct (rnd_cases x d Hd) as (m & r & E & Hr & -> & [[-> H]|[-> H]]); lia. Qed.

Lemma rnd_one y : rnd y 1 = y.
Proof.
  unfold rnd. cbv zeta. rewrite N.div_1_r, N.mod_1_r. reflexivity.
Qed.

Lemma rnd_mono x y d : 0 < d -> x <= y -> rnd x d <= rnd y d.
Proof.
  intros Hd Hxy. destruct (N.eq_dec x y) as [->|Hne]; [lia|].
  destruct (rnd_cases x d Hd) as (mx & rx & Ex & Rx & _ & Cx).
  destruct (rnd_cases y d Hd) as (my & ry & Ey & Ry & _ & Cy).
  assert (Hm : mx <= my) by nia.
  destruct (N.eq_dec mx my) as [->|Hm'].
  - assert (rx < ry) by nia. destruct Cx as [[-> Hx]|[-> Hx]]; destruct Cy as [[-> Hy]|[-> Hy]]; lia.
  - destruct Cx as [[-> Hx]|[-> Hx]]; destruct Cy as [[-> Hy]|[-> Hy]]; lia.
Qed.

(* 2^(size x - 1) <= x < 2^(size x) *)
Lemma size_bounds x : 0 < x -> exists s, N.size x = s + 1 /\ 2 ^ s <= x /\ x < 2 ^ (s + 1).
Proof.
  intro Hx. exists (N.log2 x). split; [rewrite N.size_log2 by lia; lia|].
  destruct (N.log2_spec x Hx) as [H1 H2]. rewrite <- N.add_1_r in H2. split; assumption.
Qed.

Lemma size_mono x y : x <= y -> N.size x <= N.size y.
Proof.
  intro H. destruct (N.eq_dec x 0) as [->|Hx]; [change (N.size 0) with 0; apply N.le_0_l|].
  rewrite !N.size_log2 by lia. apply -> N.succ_le_mono. apply N.log2_le_mono. exact H.
Qed.

Lemma size_mul_le c d x : x <= c * d -> N.size x <= N.size c + N.size d.
Proof.
  intro H. destruct (N.eq_dec x 0) as [->|Hx]; [change (N.size 0) with 0; lia|].
  assert (Hc : 0 < c) by nia. assert (Hd : 0 < d) by nia.
  destruct (size_bounds c Hc) as (sc & -> & _ & C2). destruct (size_bounds d Hd) as (sd & -> & _ & D2).
  rewrite N.size_log2 by exact Hx. apply N.le_succ_l. apply N.log2_lt_pow2; [lia|].
  rewrite N.pow_add_r. nia.
Qed.

Definition f32_e (num den : N) : Z :=
  let k := (Z.of_N (N.size num) - Z.of_N (N.size den))%Z in
  let e1 := (k - 24)%Z in
  let '(n1, d1) := if (e1 <? 0)%Z then (N.shiftl num (Z.to_N (- e1)), den) else (num, N.shiftl den (Z.to_N e1)) in
  if n1 / d1 <? 16777216 then e1 else (e1 + 1)%Z.

Lemma f32_eq num den : num <> 0 -> den <> 0 ->
  f32 num den = let e := f32_e num den in
    if (e <? 0)%Z then (rnd (num * 2 ^ Z.to_N (- e)) den, 2 ^ Z.to_N (- e))
    else (rnd num (den * 2 ^ Z.to_N e) * 2 ^ Z.to_N e, 1).
Proof.
  intros Hn Hd. unfold f32. apply N.eqb_neq in Hn, Hd. rewrite Hn, Hd. cbn [orb]. cbv zeta.
  fold (f32_e num den). set (e := f32_e num den).
  destruct (e <? 0)%Z; unfold rnd; cbv zeta; rewrite ?N.shiftl_mul_pow2, ?N.mul_1_l; reflexivity.
Qed.

Lemma f32_e_range num den :
  (f32_e num den = Z.of_N (N.size num) - Z.of_N (N.size den) - 24 \/
   f32_e num den = Z.of_N (N.size num) - Z.of_N (N.size den) - 24 + 1)%Z.
Proof.
  unfold f32_e. cbv zeta.
  destruct (Z.of_N (N.size num) - Z.of_N (N.size den) - 24 <? 0)%Z;
  match goal with |- context [if ?c then _ else _] => destruct c end; tauto.
Qed.

(* an upper bound c * den that is a small integer multiple survives the rounding *)
Lemma f32_le c num den : N.size c <= 22 -> num <= c * den ->
  fst (f32 num den) <= c * snd (f32 num den) /\ 0 < snd (f32 num den).
Proof.
  intros Hc Hle.
  destruct (N.eq_dec num 0) as [->|Hn]; [unfold f32; cbn [orb fst snd N.eqb]; change (0 =? 0) with true; cbn [orb fst snd]; lia|].
  destruct (N.eq_dec den 0) as [->|Hd]; [unfold f32; rewrite N.eqb_refl, orb_true_r; cbn [fst snd]; lia|].
  rewrite (f32_eq num den Hn Hd). cbv zeta.
  pose proof (size_mul_le c den num Hle) as Hs.
  assert (He : (f32_e num den < 0)%Z) by (destruct (f32_e_range num den) as [->| ->]; lia).
  apply Z.ltb_lt in He. rewrite He. cbn [fst snd].
  set (p := 2 ^ Z.to_N (- f32_e num den)). assert (Hp : 0 < p) by (subst p; apply N.neq_0_lt_0; apply N.pow_nonzero; lia).
  split; [|exact Hp]. apply rnd_le; [lia|]. nia.
Qed.

(* ---------- integers: f32 (x as f32) ---------- *)
Definition val (x : N) : N := let s := N.size x in if s <=? 24 then x else rnd x (2 ^ (s - 24)) * 2 ^ (s - 24).

Lemma f32_e_int x : 0 < x -> f32_e x 1 = (Z.of_N (N.size x) - 24)%Z.
Proof.
  intro Hx. unfold f32_e. change (N.size 1) with 1. cbv zeta.
  destruct (size_bounds x Hx) as (s & Hs & L & U). rewrite Hs. change 16777216 with (2 ^ 24).
  destruct (Z.ltb_spec (Z.of_N (s + 1) - Z.of_N 1 - 24) 0) as [He|He].
  - assert (Ep : Z.to_N (- (Z.of_N (s + 1) - Z.of_N 1 - 24)) = 24 - s) by lia. rewrite Ep.
    rewrite N.shiftl_mul_pow2, N.div_1_r.
    assert (H24 : 2 ^ 24 = 2 ^ s * 2 ^ (24 - s)) by (rewrite <- N.pow_add_r; f_equal; lia).
    destruct (N.ltb_spec (x * 2 ^ (24 - s)) (2 ^ 24)) as [Hlt|Hge]; [|lia].
    exfalso. rewrite H24 in Hlt. assert (0 < 2 ^ (24 - s)) by (apply N.neq_0_lt_0; apply N.pow_nonzero; lia). nia.
  - assert (Ep : Z.to_N (Z.of_N (s + 1) - Z.of_N 1 - 24) = s - 24) by lia. rewrite Ep.
    rewrite N.shiftl_mul_pow2, N.mul_1_l.
    assert (Hs2 : 2 ^ s = 2 ^ (s - 24) * 2 ^ 24) by (rewrite <- N.pow_add_r; f_equal; lia).
    assert (Hq : 2 ^ 24 <= x / 2 ^ (s - 24)).
    { apply N.div_le_lower_bound; [apply N.pow_nonzero; lia|]. rewrite <- Hs2. exact L. }
    destruct (N.ltb_spec (x / 2 ^ (s - 24)) (2 ^ 24)); lia.
Qed.

Lemma f32_int x : 0 < x -> exists a2, 0 < a2 /\ f32 x 1 = (val x * a2, a2).
Proof.
  intro Hx. rewrite f32_eq by lia. cbv zeta. rewrite (f32_e_int x Hx). unfold val. cbv zeta.
  destruct (Z.ltb_spec (Z.of_N (N.size x) - 24) 0) as [He|He].
  - exists (2 ^ Z.to_N (- (Z.of_N (N.size x) - 24))). split; [apply N.neq_0_lt_0; apply N.pow_nonzero; lia|].
    rewrite rnd_one. destruct (N.leb_spec (N.size x) 24); [reflexivity|lia].
  - exists 1. split; [lia|]. assert (Eq : Z.to_N (Z.of_N (N.size x) - 24) = N.size x - 24) by lia. rewrite Eq, N.mul_1_l, N.mul_1_r.
    destruct (N.leb_spec (N.size x) 24) as [Hle|Hgt]; [|reflexivity].
    assert (E0 : N.size x - 24 = 0) by lia. rewrite E0. change (2 ^ 0) with 1. rewrite rnd_one, N.mul_1_r. reflexivity.
Qed.

Lemma val_mono x y : 0 < x -> x <= y -> val x <= val y.
Proof.
  intros Hx Hxy. assert (Hy : 0 < y) by lia. unfold val. cbv zeta.
  pose proof (size_mono x y Hxy) as Hs.
  destruct (size_bounds x Hx) as (sx & Esx & Lx & Ux). destruct (size_bounds y Hy) as (sy & Esy & Ly & Uy).
  rewrite Esx, Esy in *.
  assert (Hpos : forall k, 0 < 2 ^ k) by (intro k; apply N.neq_0_lt_0; apply N.pow_nonzero; lia).
  (* lower bound for a rounded y with more than 24 bits: at least 2^sy *)
  assert (Hlow : 24 < sy + 1 -> 2 ^ sy <= rnd y (2 ^ (sy + 1 - 24)) * 2 ^ (sy + 1 - 24)).
  { intro H. assert (E : 2 ^ sy = 2 ^ 23 * 2 ^ (sy + 1 - 24)) by (rewrite <- N.pow_add_r; f_equal; lia).
    assert (Hq : 2 ^ 23 <= y / 2 ^ (sy + 1 - 24)).
    { apply N.div_le_lower_bound; [apply N.pow_nonzero; lia|]. rewrite N.mul_comm, <- E. exact Ly. }
    pose proof (rnd_lower y (2 ^ (sy + 1 - 24)) (Hpos _)). pose proof (Hpos (sy + 1 - 24)). rewrite E. nia. }
  destruct (N.leb_spec (sx + 1) 24) as [Hx24|Hx24]; destruct (N.leb_spec (sy + 1) 24) as [Hy24|Hy24]; try lia.
  - (* x exact, y rounded *)
    specialize (Hlow Hy24). assert (2 ^ (sx + 1) <= 2 ^ sy) by (apply N.pow_le_mono_r; lia). lia.
  - (* both rounded *)
    destruct (N.eq_dec sx sy) as [->|Hne].
    + apply N.mul_le_mono_r. apply rnd_mono; [apply Hpos|exact Hxy].
    + specialize (Hlow Hy24).
      assert (E : 2 ^ (sx + 1) = 2 ^ 24 * 2 ^ (sx + 1 - 24)) by (rewrite <- N.pow_add_r; f_equal; lia).
      assert (Hq : x / 2 ^ (sx + 1 - 24) < 2 ^ 24).
      { apply N.div_lt_upper_bound; [apply N.pow_nonzero; lia|]. rewrite N.mul_comm, <- E. exact Ux. }
      pose proof (rnd_upper x (2 ^ (sx + 1 - 24)) (Hpos _)). pose proof (Hpos (sx + 1 - 24)).
      assert (2 ^ (sx + 1) <= 2 ^ sy) by (apply N.pow_le_mono_r; lia).
      assert (rnd x (2 ^ (sx + 1 - 24)) * 2 ^ (sx + 1 - 24) <= 2 ^ (sx + 1)) by (rewrite E; nia). lia.
Qed.

Lemma f32_mono_int x y : x <= y ->
  fst (f32 x 1) * snd (f32 y 1) <= 1 * (snd (f32 x 1) * fst (f32 y 1)).
Proof.
  intro Hxy. destruct (N.eq_dec x 0) as [->|Hx].
  - unfold f32 at 1 2. change (0 =? 0) with true. cbn [orb fst snd]. lia.
  - destruct (f32_int x ltac:(lia)) as (a2 & Ha & ->). destruct (f32_int y ltac:(lia)) as (b2 & Hb & ->).
    cbn [fst snd]. pose proof (val_mono x y ltac:(lia) Hxy) as Hv.
    rewrite N.mul_1_l, N.mul_assoc, (N.mul_comm a2 (val y)). apply N.mul_le_mono_r. apply N.mul_le_mono_r. exact Hv.
Qed.

Theorem hash_full_bound len cap : len <= cap -> hash_full len cap <= 1000.
Proof.
  intro H. unfold hash_full.
  pose proof (f32_mono_int len cap H) as H1.
  destruct (f32 len 1) as [a1 a2]. destruct (f32 cap 1) as [b1 b2]. cbn [fst snd] in H1.
  pose proof (f32_le 1 (a1 * b2) (a2 * b1) ltac:(cbv; discriminate) H1) as [H2 H2'].
  destruct (f32 (a1 * b2) (a2 * b1)) as [q1 q2]. cbn [fst snd] in H2, H2'.
  assert (H3 : q1 * 1000 <= 1000 * q2) by lia.
  pose proof (f32_le 1000 (q1 * 1000) q2 ltac:(cbv; discriminate) H3) as [H4 H4'].
  destruct (f32 (q1 * 1000) q2) as [r1 r2]. cbn [fst snd] in H4, H4'.
  apply N.div_le_upper_bound; lia.
Qed.

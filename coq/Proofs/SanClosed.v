(* Property C14, closed: the hypothesis bundles gen_ok / succ_ok of Proofs/SanModelProofs.v are discharged from the
   move-generation (C01), make (C02), unmake (C03) and check-detection (C05) proofs, for every well-formed board whose
   abstraction is a legal position of the rules.
   Part A  attributes of generated moves; the two bundles; model writer = SanSpec.san; converse; marks
   Part B  the model of the SAN reader (Model/Notation.v pgn_to_bb, PGN_REGEX as priority-ordered recogniser) against
           SanSpec.denotes / parse_san *)
Require Import Ink.Lib.Str.
Require Import NArith ZArith List Bool Lia ZifyBool ZifyN.
Import ListNotations.
Require Import Ink.Lib.Bits Ink.Model.Tables Ink.Model.Board Ink.Model.Fen Ink.Model.Notation.
Require Import Ink.Spec.Rules Ink.Spec.SanSpec.
Require Import Ink.Proofs.Abs Ink.Proofs.AttackProofs Ink.Proofs.AbsProofs Ink.Proofs.CheckProofs Ink.Proofs.MakeUnmake
               Ink.Proofs.GenShape.
Require Import Ink.Proofs.MoveGenProofs Ink.Proofs.MakeProofs Ink.Proofs.SanProofs Ink.Proofs.SanModelProofs.
Open Scope N_scope.

Arguments N.add : simpl never.
Arguments N.sub : simpl never.
Arguments N.mul : simpl never.
Arguments N.div : simpl never.
Arguments N.modulo : simpl never.
Arguments N.eqb : simpl never.
Arguments N.ltb : simpl never.
Arguments N.leb : simpl never.
Arguments Z.add : simpl never.
Arguments Z.mul : simpl never.

(* ================================================================ Part A *)

Lemma movegen_ranks T : tables_movegen_ok T = true -> tables_ranks_ok T = true.
Proof.
  intros H. destruct (tables_movegen_elim T H) as (H1 & H2 & H7 & H8 & _).
  unfold tables_ranks_ok. rewrite H1, H2, H7, H8. reflexivity.
Qed.

(* ---------- facts recorded for a generated move; texts ---------- *)
Record move_facts (b : board) (y : move) : Prop := {
  gf_src : src y < 64;
  gf_dst : dst y < 64;
  gf_kind : exists k, kind_of (piece_moved y) = Some k /\ piece_moved y = kindN k /\
                      get (abs b) (Z.of_N (src y)) = Some (to_move (abs b), k);
  gf_attack : is_attack y = is_capture (abs b) (uci_of y);
  gf_promo : promo y = 0 \/ 2 <= promo y <= 5;
  gf_castle : castle y = is_castling (abs b) (uci_of y)
}.

(* ---------- UCI text of a generated move = UCI text of its abstraction ---------- *)
Lemma to_uci_spec b y : move_facts b y -> to_uci y = uci (uci_of y).
Proof.
  intros F. destruct F as [Hs Hd _ _ Hp _].
  unfold to_uci, uci, square_str, uci_of. cbn [from to prom].
  apply N.ltb_lt in Hs. apply N.ltb_lt in Hd. rewrite Hs, Hd, !sq_text_of_N. f_equal. f_equal.
  destruct Hp as [E | E].
  - rewrite E. reflexivity.
  - assert (promo y = 2 \/ promo y = 3 \/ promo y = 4 \/ promo y = 5) as [E'|[E'|[E'|E']]] by lia; rewrite E'; reflexivity.
Qed.

Lemma kind_letter_inj k k' : kind_letter k = kind_letter k' -> k = k'.
Proof. destruct k, k'; intros E; try reflexivity; cbv in E; discriminate. Qed.

Lemma uci_inj u u' : (0 <= from u < 64)%Z -> (0 <= to u < 64)%Z -> (0 <= from u' < 64)%Z -> (0 <= to u' < 64)%Z ->
  uci u = uci u' -> u = u'.
Proof.
  intros Hf Ht Hf' Ht' E. unfold uci in E. rewrite !sq_text_eq in E. cbn [app] in E.
  injection E as E1 E2 E3 E4 E5.
  apply mv_ext.
  - apply sq_eq; [apply file_chr_inj | apply rank_chr_inj]; auto.
  - apply sq_eq; [apply file_chr_inj | apply rank_chr_inj]; auto.
  - destruct (prom u), (prom u'); try discriminate; try reflexivity. injection E5 as E5. apply kind_letter_inj in E5. congruence.
Qed.

(* no white space in a UCI move text *)
Lemma trim_start_id x : match x with [] => True | c :: _ => is_whitespace c = false end -> trim_start x = x.
Proof. destruct x as [|c r]; [reflexivity|]. intros H. cbn [trim_start]. rewrite H. reflexivity. Qed.

Lemma trim_id x : (forall c, In c x -> is_whitespace c = false) -> trim x = x.
Proof.
  intros H. unfold trim, trim_end. rewrite (trim_start_id x).
  - rewrite trim_start_id; [apply rev_involutive|].
    destruct (rev x) as [|c r] eqn:E; [exact I|]. apply H. apply in_rev. rewrite E. left. reflexivity.
  - destruct x as [|c r]; [exact I|]. apply H. left. reflexivity.
Qed.

Lemma graphic_not_ws c : 33 <= c <= 126 -> is_whitespace c = false.
Proof. intros H. unfold is_whitespace. lia. Qed.

Lemma kind_letter_range k : 98 <= kind_letter k <= 114.
Proof. destruct k; cbv; split; discriminate. Qed.

Lemma trim_uci u : (0 <= from u < 64)%Z -> (0 <= to u < 64)%Z -> trim (uci u) = uci u.
Proof.
  intros Hf Ht. apply trim_id. intros c Hc. apply graphic_not_ws.
  pose proof (file_chr_filec _ Hf). pose proof (rank_chr_rankc _ Hf).
  pose proof (file_chr_filec _ Ht). pose proof (rank_chr_rankc _ Ht).
  unfold filec, rankc in *.
  unfold uci in Hc. rewrite !sq_text_eq in Hc. cbn [app In] in Hc.
  destruct Hc as [<-|[<-|[<-|[<-|Hc]]]]; try lia.
  destruct (prom u) as [k|]; [|contradiction]. destruct Hc as [<-|[]]. pose proof (kind_letter_range k). lia.
Qed.

Lemma find_first_unique {A} (f : A -> bool) l r :
  In r l -> f r = true -> (forall y, In y l -> f y = true -> y = r) -> find_first f l = Some r.
Proof.
  induction l as [|x l IH]; intros Hin Hf Hu; [contradiction|]. cbn [find_first].
  destruct (f x) eqn:E.
  - f_equal. apply Hu; [left; reflexivity | exact E].
  - destruct Hin as [-> | Hin]; [congruence|]. apply IH; auto. intros y Hy. apply Hu. right. exact Hy.
Qed.

Lemma NoDup_map_inj {A B} (g : A -> B) l x y : NoDup (map g l) -> In x l -> In y l -> g x = g y -> x = y.
Proof.
  induction l as [|a l IH]; intros Hnd Hx Hy E; [contradiction|].
  cbn [map] in Hnd. inversion Hnd as [|? ? Hni Hnd']; subst.
  destruct Hx as [-> | Hx]; destruct Hy as [-> | Hy]; auto.
  - exfalso. apply Hni. rewrite E. apply in_map. exact Hy.
  - exfalso. apply Hni. rewrite <- E. apply in_map. exact Hx.
Qed.

Lemma legal_range p u : In u (legal_moves p) -> (0 <= from u < 64)%Z /\ (0 <= to u < 64)%Z.
Proof. intros H. destruct (legal_facts p u H) as (k & A & B & _). auto. Qed.

(* ---------- the check / mate marks, in the words of the property ---------- *)
Lemma san_marks p u : In u (legal_moves p) ->
  let p' := Rules.apply p u in
  (In 35 (san p u) <-> checkmate p' = true) /\
  (In 43 (san p u) <-> in_check p' (to_move p') = true /\ checkmate p' = false) /\
  (stalemate p' = true -> ~ In 35 (san p u) /\ ~ In 43 (san p u)) /\
  (in_check p' (to_move p') = false -> ~ In 35 (san p u) /\ ~ In 43 (san p u)).
Proof.
  intros Hu p'. pose proof (body_nomark p u Hu) as Hb.
  assert (B35 : ~ In 35 (body p u)) by (intros X; apply Hb in X; discriminate).
  assert (B43 : ~ In 43 (body p u)) by (intros X; apply Hb in X; discriminate).
  unfold san. unfold check_mark, gives_mate, gives_check. cbv zeta. fold p'.
  unfold checkmate, stalemate.
  destruct (legal_moves p') eqn:L; destruct (in_check p' (to_move p')) eqn:C; cbn [negb];
    rewrite ?in_app_iff; cbn [In]; repeat split; intros; try discriminate; try tauto;
    try (intuition (try discriminate; try congruence)).
Qed.


Section Closed.
Variable T : Tables.t.
Hypothesis OK : tables_attacks_ok T = true.
Hypothesis MK : tables_movegen_ok T = true.

Let HC : tables_castle_ok T = true := tables_movegen_castle T MK.
Let HR : tables_ranks_ok T = true := movegen_ranks T MK.

(* property C02 in the shape C01 uses it *)
Lemma hmake b : wf b = true -> legal_pos (abs b) = true ->
  forall m, In m (gen_pseudo T b) ->
    exists b', make b m = Some b' /\ wf b' = true /\ abs b' = Rules.apply (abs b) (uci_of m).
Proof.
  intros Hwf Hl m Hm. apply (legal_pos_iff T OK b Hwf) in Hl as (Hr & He & Hv).
  destruct (MakeProofs.C02_step T OK HC HR b m Hwf Hr He Hv Hm) as (b' & E & A & W & _).
  exists b'. auto.
Qed.

Lemma legal_exact b : wf b = true -> legal_pos (abs b) = true ->
  (forall u, In u (map uci_of (gen_legal T b)) <-> In u (legal_moves (abs b))) /\
  NoDup (map uci_of (gen_legal T b)) /\
  (gen_legal T b = [] <-> legal_moves (abs b) = []).
Proof.
  intros Hwf Hl. destruct (legal_pos_conditions b Hwf Hl) as [Hr He].
  pose proof (hmake b Hwf Hl) as Hmake.
  destruct (MoveGenProofs.C01_legal_exact T OK MK b Hwf Hr He Hmake) as [H1 H2].
  split; [exact H1|]. split; [exact H2|]. exact (MoveGenProofs.C01_terminal T OK MK b Hwf Hr He Hmake).
Qed.

(* ---------- what a generated move records, in the words of the rules ---------- *)
Lemma is_attack_mk b s t k ic ie pr epo : wf b = true -> mfacts b s t k ic ie pr epo ->
  is_attack (mk T b s t (kindN k) ic ie pr epo) = is_capture (abs b) (the_mv s t pr).
Proof.
  intros Hwf M. destruct M as [Hs Ht Hsrc Hno Hnk Hic Hie Hcas Hepf Hpr Hepo].
  pose proof (wf_agr b Hwf) as A. set (c := col_of (turn b)) in *.
  unfold is_attack, mk. cbv zeta. cbn [piece_attacked].
  unfold is_capture. rewrite Hie. change (to (the_mv s t pr)) with (Z.of_N t).
  unfold empty. rewrite (get_abs b t Ht).
  destruct ie.
  - destruct (Hepf eq_refl) as (_ & _ & (_ & Hvic & _ & _)). rewrite orb_true_r.
    assert (E : (if is_white_turn b then t + 8 else t - 8) = victim c t).
    { rewrite is_white_turn_col. fold c. destruct c; reflexivity. }
    rewrite E. fold c in Hvic. rewrite (agr_piece_at_pas_some _ _ _ _ _ _ A Hvic). reflexivity.
  - rewrite orb_false_r.
    assert (E : (if is_white_turn b then t + 0 else t - 0) = t) by (destruct (is_white_turn b); [apply N.add_0_r | apply N.sub_0_r]).
    rewrite E.
    destruct (cell_of b t) as [[c' k']|] eqn:G.
    + destruct (color_cases c c') as [-> | ->]; [exfalso; exact (Hno k' eq_refl)|].
      rewrite (agr_piece_at_pas_some _ _ _ _ _ _ A G). destruct k'; reflexivity.
    + rewrite (agr_piece_at_pas_none _ _ _ _ _ A); [reflexivity|]. intros k' X. rewrite G in X. discriminate.
Qed.

Lemma generated_facts b y : wf b = true -> legal_pos (abs b) = true -> In y (gen_pseudo T b) -> move_facts b y.
Proof.
  intros Hwf Hl Hy. apply (legal_pos_iff T OK b Hwf) in Hl as (Hr & He & Hv).
  apply gen_pseudo_cases in Hy as (s & t & pc & ic & ie & pr & epo & Hc & ->).
  destruct (gen_mfacts T OK HC HR b Hwf Hr He Hv s t pc ic ie pr epo Hc) as (k & -> & M & _ & _).
  pose proof (is_attack_mk b s t k ic ie pr epo Hwf M) as Hatt.
  destruct M as [Hs Ht Hsrc Hno Hnk Hic Hie Hcas Hepf Hpr Hepo].
  constructor.
  - rewrite mk_src. exact Hs.
  - rewrite mk_dst. exact Ht.
  - exists k. rewrite mk_moved, mk_src. split; [apply kind_of_kindN|]. split; [reflexivity|].
    rewrite (get_abs b s Hs). exact Hsrc.
  - exact Hatt.
  - rewrite mk_promo. destruct Hpr as [-> | [_ Hin]]; [left; reflexivity|right].
    unfold PROMO_PIECES in Hin. cbn [In] in Hin. destruct Hin as [<-|[<-|[<-|[<-|[]]]]]; cbv; split; discriminate.
  - rewrite mk_castle. symmetry. exact Hic.
Qed.

(* ---------- the two bundles ---------- *)
Theorem gen_ok_closed b : wf b = true -> legal_pos (abs b) = true -> SanModelProofs.gen_ok T b.
Proof.
  intros Hwf Hl. destruct (legal_exact b Hwf Hl) as (Hset & _ & _).
  assert (F : forall y, In y (m_legal T b) -> move_facts b y).
  { intros y Hy. apply filter_In in Hy as [Hy _]. exact (generated_facts b y Hwf Hl Hy). }
  unfold SanModelProofs.gen_ok. split; [|split; [|split]].
  - intros x. symmetry. exact (Hset x).
  - intros y Hy. destruct (gf_kind b y (F y Hy)) as (k & K1 & _ & K2). exists k. auto.
  - intros y Hy. exact (gf_attack b y (F y Hy)).
  - intros y Hy. exact (gf_promo b y (F y Hy)).
Qed.

Lemma legal_successor b r b1 : wf b = true -> legal_pos (abs b) = true ->
  In r (m_legal T b) -> make b r = Some b1 ->
  wf b1 = true /\ legal_pos (abs b1) = true /\ abs b1 = Rules.apply (abs b) (uci_of r) /\ is_valid T b1 = true.
Proof.
  intros Hwf Hl Hr Hm. apply filter_In in Hr as [Hin Hleg].
  unfold is_move_legal in Hleg. rewrite Hm in Hleg.
  destruct (MakeProofs.C02_legal_pos_preserved T OK HC HR b r b1 Hwf Hl Hin Hm Hleg) as [W L].
  destruct (hmake b Hwf Hl r Hin) as (b' & E & _ & A). rewrite Hm in E. injection E as <-. auto.
Qed.

Theorem succ_ok_closed b r b1 : wf b = true -> legal_pos (abs b) = true ->
  In r (m_legal T b) -> make b r = Some b1 -> SanModelProofs.succ_ok T b r b1.
Proof.
  intros Hwf Hl Hr Hm. destruct (legal_successor b r b1 Hwf Hl Hr Hm) as (W & L & A & _).
  unfold SanModelProofs.succ_ok. split; [exact A|]. split; [exact (current_in_check_spec T OK b1 W)|].
  destruct (legal_exact b1 W L) as (_ & _ & Hnil).
  unfold is_any_move_legal. rewrite existsb_nonempty. fold (gen_legal T b1).
  destruct (gen_legal T b1) eqn:G; destruct (legal_moves (abs b1)) eqn:G'; try reflexivity.
  - destruct Hnil as [Hn _]. discriminate (Hn eq_refl).
  - destruct Hnil as [_ Hn]. discriminate (Hn eq_refl).
Qed.

(* ---------- the legal moves of the model, indexed by the legal moves of the rules ---------- *)
Lemma legal_rep b u : wf b = true -> legal_pos (abs b) = true -> In u (legal_moves (abs b)) ->
  exists r, In r (gen_legal T b) /\ uci_of r = u.
Proof.
  intros Hwf Hl Hu. destruct (legal_exact b Hwf Hl) as (Hset & _ & _).
  apply Hset in Hu. apply in_map_iff in Hu as (r & E & Hr). eauto.
Qed.

Lemma legal_of_rep b r : wf b = true -> legal_pos (abs b) = true -> In r (gen_legal T b) -> In (uci_of r) (legal_moves (abs b)).
Proof.
  intros Hwf Hl Hr. destruct (legal_exact b Hwf Hl) as (Hset & _ & _). apply Hset. apply in_map. exact Hr.
Qed.

(* ---------- the writer of the model = SanSpec.san, no hypothesis left ---------- *)
Theorem output_closed b s text ob : wf b = true -> legal_pos (abs b) = true ->
  uci_to_pgn T b s = (inr text, ob) ->
  exists u, In u (legal_moves (abs b)) /\ uci u = trim s /\ text = san (abs b) u.
Proof.
  intros Hwf Hl H.
  destruct (model_uci_to_pgn_is_san T b s text ob (gen_ok_closed b Hwf Hl)
              (fun r b1 Hr Hm => succ_ok_closed b r b1 Hwf Hl Hr Hm) H) as (r & Hr & Hu & Ht).
  exists (uci_of r). split; [exact (legal_of_rep b r Hwf Hl Hr)|]. split; [|exact Ht].
  rewrite <- Hu. symmetry. apply (to_uci_spec b). apply filter_In in Hr as [Hr _]. exact (generated_facts b r Hwf Hl Hr).
Qed.

(* converse: every legal move of the rules, given by its UCI text, is answered with its SAN; the argument board is
   what is left behind as long as the half-move clock fits the 12 bits of the move record (C03) *)
Theorem output_converse b u : wf b = true -> legal_pos (abs b) = true -> In u (legal_moves (abs b)) ->
  exists ob, uci_to_pgn T b (uci u) = (inr (san (abs b) u), ob) /\ (half b < 4096 -> ob = Some b).
Proof.
  intros Hwf Hl Hu.
  destruct (legal_rep b u Hwf Hl Hu) as (r & Hr & Eu).
  destruct (legal_range _ _ Hu) as [Rf Rt].
  destruct (legal_pos_conditions b Hwf Hl) as [Hrw Hepb].
  destruct (MoveGenProofs.C01_pseudo_exact T OK MK b Hwf Hrw Hepb) as [_ Hnd].
  pose proof Hr as Hr'. apply filter_In in Hr' as [Hin Hleg].
  unfold is_move_legal in Hleg. destruct (make b r) as [b1|] eqn:Hm; [|discriminate].
  assert (F : find_first (fun m => str_eqb (to_uci m) (trim (uci u))) (gen_pseudo T b) = Some r).
  { rewrite (trim_uci u Rf Rt). apply find_first_unique; [exact Hin| |].
    - apply str_eqb_eq. rewrite (to_uci_spec b r (generated_facts b r Hwf Hl Hin)), Eu. reflexivity.
    - intros y Hy Ey. apply str_eqb_eq in Ey.
      pose proof (generated_facts b y Hwf Hl Hy) as Fy. rewrite (to_uci_spec b y Fy) in Ey.
      apply (NoDup_map_inj uci_of _ y r Hnd Hy Hin). rewrite Eu.
      destruct Fy as [Ys Yd _ _ _ _].
      apply uci_inj; auto; unfold uci_of; cbn [from to]; clear - Ys Yd; lia. }
  assert (R : exists text, uci_to_pgn T b (uci u) = (inr text, unmake b1 r)).
  { unfold uci_to_pgn. cbv zeta. rewrite F, Hm, Hleg. cbn [negb]. eexists. reflexivity. }
  destruct R as (text & R). exists (unmake b1 r). split.
  - destruct (output_closed b (uci u) text _ Hwf Hl R) as (u' & Hu' & Eu' & ->).
    rewrite (trim_uci u Rf Rt) in Eu'. destruct (legal_range _ _ Hu') as [Rf' Rt'].
    rewrite (uci_inj u' u Rf' Rt' Rf Rt Eu') in R. exact R.
  - intros Hh. destruct (MakeUnmake.C03_unmake_make T HC b r Hwf Hrw Hin Hh) as (b' & E1 & E2).
    rewrite Hm in E1. injection E1 as <-. exact E2.
Qed.

(* ---------- the check / mate marks, in the words of the property ---------- *)
Theorem marks_closed b s text ob : wf b = true -> legal_pos (abs b) = true ->
  uci_to_pgn T b s = (inr text, ob) ->
  exists u, In u (legal_moves (abs b)) /\ uci u = trim s /\
    let p' := Rules.apply (abs b) u in
    (In 35 text <-> checkmate p' = true) /\
    (In 43 text <-> in_check p' (to_move p') = true /\ checkmate p' = false) /\
    (stalemate p' = true -> ~ In 35 text /\ ~ In 43 text) /\
    (in_check p' (to_move p') = false -> ~ In 35 text /\ ~ In 43 text).
Proof.
  intros Hwf Hl H. destruct (output_closed b s text ob Hwf Hl H) as (u & Hu & Eu & ->).
  exists u. split; [exact Hu|]. split; [exact Eu|]. exact (san_marks (abs b) u Hu).
Qed.

End Closed.

(* ================================================================ Part B.1: PGN_REGEX on well-shaped texts *)
Lemma is_file_c_iff c : is_file_c c = true <-> filec c.
Proof. unfold is_file_c, filec. lia. Qed.
Lemma is_rank_c_iff c : is_rank_c c = true <-> rankc c.
Proof. unfold is_rank_c, rankc. lia. Qed.

Lemma suffix_tail t : suffix_ok t = tail_ok t.
Proof. reflexivity. Qed.

Definition markc (c : N) : Prop := c = 43 \/ c = 35 \/ c = 33 \/ c = 63.
Definition head_in (P : N -> Prop) (s : str) : Prop := match s with [] => True | c :: _ => P c end.

Lemma suffix_head t : suffix_ok t = true -> head_in markc t.
Proof.
  destruct t as [|c t]; [exact (fun _ => I)|]. unfold suffix_ok, head_in, markc. intros H.
  destruct ((c =? 43) || (c =? 35)) eqn:E; [lia|]. cbn [forallb] in H. lia.
Qed.

(* a literal head that the text does not have *)
Ltac head_lit c H :=
  destruct c as [|c]; [try reflexivity; exfalso; lia|];
  repeat (destruct c as [c|c|]; try reflexivity; try (exfalso; lia)).

Definition caps_move (pc hf hr : option N) (tk : bool) (f r : N) (pr : option N) : san_caps :=
  {| c_piece := pc; c_from_file := hf; c_from_rank := hr; c_takes := tk; c_target := Some [f; r];
     c_promo := pr; c_castle := false; c_long := false |}.
Definition caps_castle (l : bool) : san_caps :=
  {| c_piece := None; c_from_file := None; c_from_rank := None; c_takes := false; c_target := None;
     c_promo := None; c_castle := true; c_long := l |}.

Definition promo_part (pr : option N) : str := match pr with Some q => [61; q] | None => [] end.

Lemma try_target_ok pc ff fr tk f r pr t : filec f -> rankc r ->
  (forall q, pr = Some q -> mem_chr q (lit "BNRQ") = true) -> suffix_ok t = true ->
  try_target pc ff fr tk (f :: r :: promo_part pr ++ t) = Some (caps_move pc ff fr tk f r pr).
Proof.
  intros Hf Hr Hq Ht. apply is_file_c_iff in Hf. apply is_rank_c_iff in Hr.
  unfold try_target. rewrite Hf, Hr. cbn [andb].
  destruct pr as [q|]; cbn [promo_part app].
  - rewrite (Hq q eq_refl), Ht. reflexivity.
  - pose proof (suffix_head t Ht) as Hh. destruct t as [|c t']; [reflexivity|].
    unfold head_in, markc in Hh.
    assert (E : match c :: t' with
                | 61 :: p :: rest' => if mem_chr p (lit "BNRQ") && suffix_ok rest'
                    then Some {| c_piece := pc; c_from_file := ff; c_from_rank := fr; c_takes := tk; c_target := Some [f; r];
                                 c_promo := Some p; c_castle := false; c_long := false |} else None
                | _ => None end = None).
    { destruct Hh as [-> | [-> | [-> | ->]]]; reflexivity. }
    rewrite E, Ht. reflexivity.
Qed.

Lemma try_target_nofile pc ff fr tk s : head_in (fun c => ~ filec c) s -> try_target pc ff fr tk s = None.
Proof.
  intros H. destruct s as [|a [|b rest]]; try reflexivity. unfold head_in in H.
  unfold try_target. destruct (is_file_c a) eqn:E; [apply is_file_c_iff in E; contradiction | reflexivity].
Qed.

Lemma try_takes_x pc ff fr s : try_takes pc ff fr (120 :: s) =
  match try_target pc ff fr true s with Some c => Some c | None => try_target pc ff fr false (120 :: s) end.
Proof. reflexivity. Qed.

Lemma try_takes_other pc ff fr s : head_in (fun c => c <> 120) s -> try_takes pc ff fr s = try_target pc ff fr false s.
Proof.
  intros H. unfold try_takes.
  assert (E : match s with 120 :: r => try_target pc ff fr true r | _ => None end = None).
  { destruct s as [|c r]; [reflexivity|]. unfold head_in in H. head_lit c H. }
  rewrite E. reflexivity.
Qed.

Lemma try_takes_ok pc ff fr (tk : bool) f r pr t : filec f -> rankc r ->
  (forall q, pr = Some q -> mem_chr q (lit "BNRQ") = true) -> suffix_ok t = true ->
  try_takes pc ff fr ((if tk then [120] else []) ++ f :: r :: promo_part pr ++ t) = Some (caps_move pc ff fr tk f r pr).
Proof.
  intros Hf Hr Hq Ht. destruct tk; cbn [app].
  - rewrite try_takes_x, try_target_ok by assumption. reflexivity.
  - rewrite try_takes_other by (unfold head_in, filec in *; lia). apply try_target_ok; assumption.
Qed.

Lemma try_takes_fail pc ff fr s : head_in (fun c => c <> 120 /\ ~ filec c) s -> try_takes pc ff fr s = None.
Proof.
  intros H. rewrite try_takes_other by (destruct s; [exact I | exact (proj1 H)]).
  apply try_target_nofile. destruct s; [exact I | exact (proj2 H)].
Qed.

Lemma try_rank_present pc ff rc rest c : rankc rc -> try_takes pc ff (Some rc) rest = Some c ->
  try_rank pc ff (rc :: rest) = Some c.
Proof. intros Hr H. apply is_rank_c_iff in Hr. unfold try_rank. rewrite Hr, H. reflexivity. Qed.

Lemma try_rank_fallback pc ff rc rest : try_takes pc ff (Some rc) rest = None ->
  try_rank pc ff (rc :: rest) = try_takes pc ff None (rc :: rest).
Proof. intros H. unfold try_rank. rewrite H. destruct (is_rank_c rc); reflexivity. Qed.

Lemma try_rank_absent pc ff s : head_in (fun c => ~ rankc c) s -> try_rank pc ff s = try_takes pc ff None s.
Proof.
  intros H. unfold try_rank. destruct s as [|c r]; [reflexivity|]. unfold head_in in H.
  destruct (is_rank_c c) eqn:E; [apply is_rank_c_iff in E; contradiction | reflexivity].
Qed.

Lemma try_file_present pc fc rest c : filec fc -> try_rank pc (Some fc) rest = Some c ->
  try_file pc (fc :: rest) = Some c.
Proof. intros Hf H. apply is_file_c_iff in Hf. unfold try_file. rewrite Hf, H. reflexivity. Qed.

Lemma try_file_fallback pc fc rest : try_rank pc (Some fc) rest = None ->
  try_file pc (fc :: rest) = try_rank pc None (fc :: rest).
Proof. intros H. unfold try_file. rewrite H. destruct (is_file_c fc); reflexivity. Qed.

Lemma try_file_absent pc s : head_in (fun c => ~ filec c) s -> try_file pc s = try_rank pc None s.
Proof.
  intros H. unfold try_file. destruct s as [|c r]; [reflexivity|]. unfold head_in in H.
  destruct (is_file_c c) eqn:E; [apply is_file_c_iff in E; contradiction | reflexivity].
Qed.

Definition letterc (c : N) : Prop := c = 66 \/ c = 78 \/ c = 82 \/ c = 81 \/ c = 75.     (* B N R Q K *)
Lemma mem_letter c : mem_chr c (lit "BNRQK") = true <-> letterc c.
Proof. unfold mem_chr, letterc. cbn [lit String.list_ascii_of_string map existsb]. cbv [N_of_ascii N_of_digits]. cbn. lia. Qed.

Lemma try_piece_present l rest c : letterc l -> try_file (Some l) rest = Some c -> try_piece (l :: rest) = Some c.
Proof. intros Hl H. apply mem_letter in Hl. unfold try_piece. rewrite Hl, H. reflexivity. Qed.

Lemma try_piece_absent s : head_in (fun c => ~ letterc c) s -> try_piece s = try_file None s.
Proof.
  intros H. unfold try_piece. destruct s as [|c r]; [reflexivity|]. unfold head_in in H.
  destruct (mem_chr c (lit "BNRQK")) eqn:E; [apply mem_letter in E; contradiction | reflexivity].
Qed.

Definition optc (o : option N) : str := match o with Some c => [c] | None => [] end.
Definition form_text (pc hf hr : option N) (tk : bool) (f r : N) (pr : option N) (t : str) : str :=
  optc pc ++ optc hf ++ optc hr ++ (if tk then [120] else []) ++ f :: r :: promo_part pr ++ t.

Lemma head_promo_tail pr t : suffix_ok t = true -> head_in (fun c => c = 61 \/ markc c) (promo_part pr ++ t).
Proof.
  intros Ht. destruct pr as [q|]; [left; reflexivity|]. cbn [promo_part app].
  pose proof (suffix_head t Ht) as H. destruct t; [exact I | right; exact H].
Qed.

Theorem regex_form pc hf hr tk f r pr t :
  (forall l, pc = Some l -> letterc l) -> (forall c, hf = Some c -> filec c) -> (forall c, hr = Some c -> rankc c) ->
  filec f -> rankc r -> (forall q, pr = Some q -> mem_chr q (lit "BNRQ") = true) -> suffix_ok t = true ->
  pgn_regex (form_text pc hf hr tk f r pr t) = Some (caps_move pc hf hr tk f r pr).
Proof.
  intros Hpc Hhf Hhr Hf Hr Hq Ht. unfold form_text.
  set (X := (if tk then [120] else []) ++ f :: r :: promo_part pr ++ t).
  assert (HX : forall pc' ff fr, try_takes pc' ff fr X = Some (caps_move pc' ff fr tk f r pr))
    by (intros; apply try_takes_ok; assumption).
  assert (HXh : head_in (fun c => c = 120 \/ filec c) X) by (unfold X; destruct tk; cbn [app head_in]; auto).
  (* rank level *)
  assert (HR : forall pc' ff, try_rank pc' ff (optc hr ++ X) = Some (caps_move pc' ff hr tk f r pr)).
  { intros pc' ff. destruct hr as [rc|]; cbn [optc app].
    - apply try_rank_present; [apply Hhr; reflexivity | apply HX].
    - rewrite try_rank_absent; [apply HX|].
      destruct X as [|c X']; [exact I|]. unfold head_in in *. unfold rankc, filec in *. lia. }
  (* file level *)
  assert (HF : forall pc', try_file pc' (optc hf ++ optc hr ++ X) = Some (caps_move pc' hf hr tk f r pr)).
  { intros pc'. destruct hf as [fc|]; cbn [optc app].
    - apply try_file_present; [apply Hhf; reflexivity | apply HR].
    - destruct hr as [rc|]; cbn [optc app].
      + rewrite try_file_absent; [apply (HR pc' None)|].
        pose proof (Hhr rc eq_refl). unfold head_in, rankc, filec in *. lia.
      + destruct tk; unfold X; cbn [app].
        * rewrite try_file_absent; [apply (HR pc' None)|]. unfold head_in, filec. lia.
        * rewrite try_file_fallback; [apply (HR pc' None)|].
          pose proof (head_promo_tail pr t Ht) as Hh.
          rewrite try_rank_fallback.
          -- apply try_takes_fail. unfold head_in, rankc, filec in *. lia.
          -- apply try_takes_fail. destruct (promo_part pr ++ t) as [|c rest]; [exact I|].
             unfold head_in, markc, filec in *. lia. }
  unfold pgn_regex.
  assert (HP : try_piece (optc pc ++ optc hf ++ optc hr ++ X) = Some (caps_move pc hf hr tk f r pr)).
  { destruct pc as [l|]; cbn [optc app].
    - apply try_piece_present; [apply Hpc; reflexivity | apply HF].
    - rewrite try_piece_absent; [apply HF|].
      assert (Hh : head_in (fun c => c = 120 \/ filec c \/ rankc c) (optc hf ++ optc hr ++ X)).
      { destruct hf as [fc|]; cbn [optc app head_in]; [right; left; apply Hhf; reflexivity|].
        destruct hr as [rc|]; cbn [optc app head_in]; [right; right; apply Hhr; reflexivity|].
        destruct X; [exact I|]. unfold head_in in *. tauto. }
      destruct (optc hf ++ optc hr ++ X); [exact I|]. unfold head_in, letterc, filec, rankc in *. lia. }
  rewrite HP. reflexivity.
Qed.

Theorem regex_castle (long : bool) t : suffix_ok t = true ->
  pgn_regex ((if long then lit "O-O-O" else lit "O-O") ++ t) = Some (caps_castle long).
Proof.
  intros Ht. pose proof (suffix_head t Ht) as Hh.
  destruct long.
  - change (lit "O-O-O" ++ t) with (79 :: 45 :: 79 :: 45 :: 79 :: t).
    unfold pgn_regex.
    assert (E : try_piece (79 :: 45 :: 79 :: 45 :: 79 :: t) = None).
    { rewrite try_piece_absent by (unfold head_in, letterc; lia).
      rewrite try_file_absent by (unfold head_in, filec; lia).
      rewrite try_rank_absent by (unfold head_in, rankc; lia).
      apply try_takes_fail. unfold head_in, filec; lia. }
    rewrite E. unfold try_castle. rewrite Ht. reflexivity.
  - change (lit "O-O" ++ t) with (79 :: 45 :: 79 :: t).
    unfold pgn_regex.
    assert (E : try_piece (79 :: 45 :: 79 :: t) = None).
    { rewrite try_piece_absent by (unfold head_in, letterc; lia).
      rewrite try_file_absent by (unfold head_in, filec; lia).
      rewrite try_rank_absent by (unfold head_in, rankc; lia).
      apply try_takes_fail. unfold head_in, filec; lia. }
    rewrite E. unfold try_castle.
    assert (E2 : match t with
                 | 45 :: 79 :: rest' => if suffix_ok rest' then Some (caps_castle true) else None
                 | _ => None end = None).
    { destruct t as [|c t']; [reflexivity|]. unfold head_in, markc in Hh. destruct Hh as [-> | [-> | [-> | ->]]]; reflexivity. }
    unfold caps_castle in E2. rewrite E2, Ht. reflexivity.
Qed.

(* ================================================================ Part B.2: two facts about pawn moves *)
Section PawnGeom.
Local Open Scope Z_scope.

Lemma pawn_to_prom c s t m : In m (pawn_to c s t) -> to m = t /\ (prom m = None <-> rowZ t <> last_row c).
Proof.
  unfold pawn_to. destruct (Z.eqb_spec (rowZ t) (last_row c)) as [E|E]; intros H.
  - apply in_map_iff in H as (k & <- & _). cbn [to prom]. split; [reflexivity|]. split; [discriminate | contradiction].
  - destruct H as [<- | []]. cbn [to prom]. tauto.
Qed.

(* a pawn move promotes exactly when it reaches the last row *)
Lemma pawn_prom_row p s c m : In m (piece_moves p s (c, Pawn)) -> 0 <= s < 64 ->
  (prom m = None <-> rowZ (to m) <> last_row c).
Proof.
  intros H Hs. unfold piece_moves in H. cbn [fst snd] in H.
  pose proof (file_row_range s Hs) as [Hf Hr].
  apply in_app_or in H. destruct H as [H|H].
  - destruct (on_board (fileZ s) (rowZ s + forward c) && empty p (sq_of (fileZ s) (rowZ s + forward c))) eqn:E; [|contradiction].
    apply in_app_or in H. destruct H as [H|H].
    + apply pawn_to_prom in H as [-> H]. exact H.
    + destruct ((rowZ s =? start_row c) && empty p (sq_of (fileZ s) (rowZ s + forward c + forward c))) eqn:E2; [|contradiction].
      destruct H as [<- | []]. cbn [to prom]. apply andb_true_iff in E2 as [E2 _]. apply Z.eqb_eq in E2.
      rewrite row_sq_of by lia. split; [|reflexivity]. intros _. rewrite E2. destruct c; cbn; lia.
  - apply in_flat_map in H as (t & _ & H).
    destruct (enemy p c t || match epsq p with Some e => e =? t | None => false end); [|contradiction].
    apply pawn_to_prom in H as [-> H]. exact H.
Qed.

(* all pawn moves of one side to one square start on the same row (e.p.-consistent position) *)
Lemma pawn_same_row p m m' :
  ep_consistent p = true ->
  0 <= from m < 64 -> 0 <= from m' < 64 ->
  get p (from m) = Some (to_move p, Pawn) -> get p (from m') = Some (to_move p, Pawn) ->
  In m (piece_moves p (from m) (to_move p, Pawn)) -> In m' (piece_moves p (from m') (to_move p, Pawn)) ->
  to m = to m' -> rowZ (from m) = rowZ (from m').
Proof.
  intros Hep Hs Hs' Hg Hg' Hm Hm' Hto.
  set (c := to_move p) in *.
  destruct (pawn_move_inv _ _ _ _ Hm Hs) as [Ht Sh].
  destruct (pawn_move_inv _ _ _ _ Hm' Hs') as [Ht' Sh'].
  pose proof (forward_range c) as Hfw.
  (* a double push of x excludes any other kind of move of y to the same square *)
  assert (Dbl : forall x y, 0 <= from x < 64 -> 0 <= from y < 64 ->
            get p (from y) = Some (c, Pawn) -> to x = to y ->
            fileZ (to x) = fileZ (from x) -> empty p (to x) = true ->
            rowZ (to x) = rowZ (from x) + 2 * forward c -> empty p (sq_of (fileZ (from x)) (rowZ (from x) + forward c)) = true ->
            (pawn_push p c (from y) y \/ pawn_diag p c (from y) y) -> rowZ (from x) = rowZ (from y)).
  { intros x y Hx Hy Gy Exy Fx Ex Rx Ix Shy.
    assert (Rto : rowZ (to y) = rowZ (to x)) by congruence.
    assert (Fto : fileZ (to y) = fileZ (to x)) by congruence.
    destruct Shy as [[Pf [_ Pr]] | [Df [Dr [En | Ep]]]].
    - destruct Pr as [Pr | [Pr _]]; [|lia]. exfalso.
      replace (sq_of (fileZ (from x)) (rowZ (from x) + forward c)) with (sq_of (fileZ (from y)) (rowZ (from y))) in Ix
        by (f_equal; lia).
      rewrite <- sq_decomp in Ix. unfold empty in Ix. rewrite Gy in Ix. discriminate.
    - exfalso. rewrite <- Exy in En. unfold enemy in En. unfold empty in Ex. destruct (get p (to x)) as [[? ?]|]; discriminate.
    - exfalso. rewrite <- Exy in Ep. unfold ep_consistent in Hep. rewrite Ep in Hep. fold c in Hep.
      rewrite !andb_true_iff in Hep. destruct Hep as [[[_ Hpc] _] _].
      rewrite forward_opp in Hpc. unfold is_piece in Hpc.
      replace (sq_of (fileZ (to x)) (rowZ (to x) + - forward c)) with (sq_of (fileZ (from x)) (rowZ (from x) + forward c)) in Hpc
        by (f_equal; lia).
      unfold empty in Ix. destruct (get p (sq_of (fileZ (from x)) (rowZ (from x) + forward c))); discriminate. }
  assert (Rto : rowZ (to m) = rowZ (to m')) by congruence.
  destruct Sh as [[Pf [Pe Pr]] | [Df [Dr Dc]]].
  - destruct Pr as [Pr | [Pr Pi]].
    + destruct Sh' as [[Pf' [Pe' Pr']] | [Df' [Dr' Dc']]].
      * destruct Pr' as [Pr' | [Pr' Pi']]; [lia|]. symmetry.
        apply (Dbl m' m); auto. left. split; [exact Pf|]. split; [exact Pe|]. left. exact Pr.
      * lia.
    + apply (Dbl m m'); auto.
  - destruct Sh' as [[Pf' [Pe' Pr']] | [Df' [Dr' Dc']]].
    + destruct Pr' as [Pr' | [Pr' Pi']]; [lia|]. symmetry.
      apply (Dbl m' m); auto. right. split; [exact Df|]. split; [exact Dr | exact Dc].
    + lia.
Qed.

End PawnGeom.

(* ================================================================ Part B.3: the reader of the model *)
Definition accepts (c : san_caps) (m : move) : bool :=
  let file_ok := match c_from_file c with Some f => file_of (src m) =? f - 97 | None => true end in
  let rank_ok := match c_from_rank c with Some r => rank_of (src m) =? 8 - (r - 48) | None => true end in
  let target_ok := match c_target c with Some t => dst m =? square_of_text t | None => false end in
  match c_piece c with
  | Some p => (piece_moved m =? piece_of_letter p) && (negb (c_takes c) || is_attack m) && file_ok && rank_ok && target_ok
  | None =>
      if c_castle c then castle m && (file_of (dst m) =? (if c_long c then 2 else 6))
      else (piece_moved m =? PAWN) && (negb (c_takes c) || is_attack m)
           && (match c_promo c with Some p => is_promotion m && (promo m =? piece_of_letter p) | None => true end)
           && file_ok && target_ok
  end.

Lemma pgn_to_bb_unfold T b s :
  pgn_to_bb T b s =
  match pgn_regex s with
  | None => None
  | Some c => match filter (accepts c) (gen_legal T b) with [m] => Some m | _ => None end
  end.
Proof.
  unfold pgn_to_bb. destruct (pgn_regex s) as [c|]; [|reflexivity]. cbv zeta.
  assert (E : forall P, filter (is_move_legal T b) (filter P (gen_legal T b)) = filter P (gen_legal T b)).
  { intros P. apply filter_all. intros x Hx. apply filter_In in Hx as [Hx _]. apply filter_In in Hx as [_ Hx]. exact Hx. }
  unfold accepts. destruct (c_piece c); [rewrite E; reflexivity|]. destruct (c_castle c); rewrite E; reflexivity.
Qed.

Lemma filter_single {A B} (g : A -> B) (P : A -> bool) l x :
  NoDup (map g l) -> In x l -> P x = true -> (forall y, In y l -> P y = true -> g y = g x) -> filter P l = [x].
Proof.
  induction l as [|a l IH]; intros Hnd Hx Px Hall; [contradiction|].
  cbn [map] in Hnd. inversion Hnd as [|? ? Hni Hnd']; subst. cbn [filter].
  destruct Hx as [-> | Hx].
  - rewrite Px. f_equal. apply filter_nil. intros y Hy. destruct (P y) eqn:E; [|reflexivity]. exfalso.
    apply Hni. rewrite <- (Hall y (or_intror Hy) E). apply in_map. exact Hy.
  - destruct (P a) eqn:Pa.
    + exfalso. apply Hni. rewrite (Hall a (or_introl eq_refl) Pa). apply in_map. exact Hx.
    + apply IH; auto. intros y Hy. apply Hall. right. exact Hy.
Qed.

(* ---------- characters: model side = spec side ---------- *)
Lemma square_of_text_of d : d < 64 -> square_of_text [file_char d; rank_char d] = d.
Proof.
  intros H. unfold square_of_text, file_char, rank_char, file_of, rank_of.
  pose proof (N.div_mod d 8). assert (d / 8 < 8) by (apply N.div_lt_upper_bound; lia).
  assert (d mod 8 < 8) by (apply N.mod_upper_bound; lia). lia.
Qed.

Lemma file_ok_iff x d : (file_of x =? file_char d - 97) = (file_of x =? file_of d).
Proof. unfold file_char. f_equal. lia. Qed.
Lemma rank_ok_iff x d : d < 64 -> (rank_of x =? 8 - (rank_char d - 48)) = (rank_of x =? rank_of d).
Proof.
  intros H. unfold rank_char, rank_of. assert (d / 8 < 8) by (apply N.div_lt_upper_bound; lia). f_equal. lia.
Qed.

Lemma rank_lt8 x : x < 64 -> rank_of x < 8.
Proof. intros H. unfold rank_of. apply N.div_lt_upper_bound; lia. Qed.
Lemma file_char_sub x : file_of x = file_char x - 97.
Proof. unfold file_char. lia. Qed.
Lemma rank_char_sub x : x < 64 -> rank_of x = 8 - (rank_char x - 48).
Proof. intros H. pose proof (rank_lt8 x H). unfold rank_char. lia. Qed.
Lemma file_char_eq x y : file_of x = file_char y - 97 -> file_char x = file_char y.
Proof. unfold file_char. lia. Qed.
Lemma rank_char_eq x y : y < 64 -> rank_of x = 8 - (rank_char y - 48) -> rank_char x = rank_char y.
Proof. intros H. pose proof (rank_lt8 y H). unfold rank_char. lia. Qed.

Lemma letter_of_kind k : k <> Pawn -> letterc (kind_upper k) /\ piece_of_letter (kind_upper k) = kindN k.
Proof. destruct k; intros H; try contradiction; split; cbv; auto 6. Qed.
Lemma promo_letter k : k = Knight \/ k = Bishop \/ k = Rook \/ k = Queen ->
  mem_chr (kind_upper k) (lit "BNRQ") = true /\ piece_of_letter (kind_upper k) = kindN k.
Proof. intros [-> | [-> | [-> | ->]]]; split; reflexivity. Qed.
Lemma kindN_inj k k' : kindN k = kindN k' -> k = k'.
Proof. intros E. apply (f_equal kind_of) in E. rewrite !kind_of_kindN in E. congruence. Qed.

(* ---------- the acceptable bodies of a non-castling move, as a function of three choices ---------- *)
Definition piece_opt (k : kind) : option N := match k with Pawn => None | _ => Some (kind_upper k) end.
Definition btext (k : kind) (hf hr : option N) (tk : bool) (t : Z) (pm : option kind) : str :=
  optc (piece_opt k) ++ optc hf ++ optc hr ++ (if tk then [120] else []) ++
  file_chr t :: rank_chr t :: promo_part (option_map kind_upper pm).

Lemma btext_form k hf hr tk t pm tl :
  btext k hf hr tk t pm ++ tl = form_text (piece_opt k) hf hr tk (file_chr t) (rank_chr t) (option_map kind_upper pm) tl.
Proof. unfold btext, form_text. rewrite <- !app_assoc. reflexivity. Qed.

Lemma letter_piece_opt p u c k : get p (from u) = Some (c, k) -> letter p u = optc (piece_opt k).
Proof. intros G. unfold letter. rewrite G. destruct k; reflexivity. Qed.
Lemma promo_text_part u : promo_text u = promo_part (option_map kind_upper (prom u)).
Proof. unfold promo_text. destruct (prom u); reflexivity. Qed.

Lemma body_form p u c k B : get p (from u) = Some (c, k) -> is_castling p u = false -> In B (bodies p u) ->
  exists hf hr tk,
    (hf = None \/ hf = Some (file_chr (from u))) /\ (hr = None \/ hr = Some (rank_chr (from u))) /\
    (tk = true -> is_capture p u = true) /\ B = btext k hf hr tk (to u) (prom u).
Proof.
  intros G Hc HB. destruct (bodies_noncastle_In p u B Hc HB) as (h & x & Hh & Hx & ->).
  rewrite (letter_piece_opt p u c k G), promo_text_part, sq_text_eq.
  assert (X : exists tk, (tk = true -> is_capture p u = true) /\ x = if tk then [120] else []).
  { unfold marks in Hx. destruct (is_capture p u); cbn [In] in Hx.
    - destruct Hx as [<- | [<- | []]]; [exists true | exists false]; auto.
    - destruct Hx as [<- | []]. exists false. split; [discriminate | reflexivity]. }
  destruct X as (tk & Htk & ->).
  unfold hints in Hh. cbn [In] in Hh.
  destruct Hh as [<- | [<- | [<- | [<- | []]]]].
  - exists None, None, tk. auto.
  - exists (Some (file_chr (from u))), None, tk. auto.
  - exists None, (Some (rank_chr (from u))), tk. auto.
  - exists (Some (file_chr (from u))), (Some (rank_chr (from u))), tk. auto.
Qed.

Lemma body_form_intro p u c k hf hr tk : get p (from u) = Some (c, k) -> is_castling p u = false ->
  (hf = None \/ hf = Some (file_chr (from u))) -> (hr = None \/ hr = Some (rank_chr (from u))) ->
  (tk = true -> is_capture p u = true) -> In (btext k hf hr tk (to u) (prom u)) (bodies p u).
Proof.
  intros G Hc Hf Hr Htk. unfold bodies. rewrite Hc. unfold btext.
  rewrite <- (letter_piece_opt p u c k G), <- promo_text_part.
  apply in_flat_map. exists (optc hf ++ optc hr). split.
  - unfold hints. destruct Hf as [-> | ->]; destruct Hr as [-> | ->]; cbn [optc app In]; auto.
  - apply in_map_iff. exists (if tk then [120] else []). split; [rewrite <- !app_assoc; reflexivity|].
    unfold marks. destruct tk; [rewrite (Htk eq_refl)|destruct (is_capture p u)]; cbn [In]; auto.
Qed.

Lemma split_marks_app s : forall B t, split_marks s = (B, t) -> s = B ++ t.
Proof.
  induction s as [|c s IH]; intros B t H; cbn [split_marks] in H.
  - injection H as <- <-. reflexivity.
  - destruct (is_mark c); [injection H as <- <-; reflexivity|].
    destruct (split_marks s) as [a b0] eqn:E. injection H as <- <-. cbn [app]. f_equal. apply IH. reflexivity.
Qed.

Lemma denotes_inv p s u : denotes p s u = true ->
  In u (legal_moves p) /\ exists B t, split_marks s = (B, t) /\ s = B ++ t /\ In B (bodies p u) /\ tail_ok t = true.
Proof.
  unfold denotes. intros H. apply andb_true_iff in H as [H1 H2]. apply existsb_mv_In in H1. split; [exact H1|].
  destruct (split_marks s) as [B t] eqn:E. apply andb_true_iff in H2 as [H2 H3]. apply mem_str_In in H2.
  exists B, t. split; [reflexivity|]. split; [apply split_marks_app; exact E|]. auto.
Qed.

Lemma denotes_intro p s u B t : In u (legal_moves p) -> split_marks s = (B, t) -> In B (bodies p u) -> tail_ok t = true ->
  denotes p s u = true.
Proof.
  intros H1 E H2 H3. unfold denotes. rewrite (proj2 (existsb_mv_In u _) H1), E, (proj2 (mem_str_In _ _) H2), H3. reflexivity.
Qed.

Lemma accepts_move_iff k0 hf hr tk f r pr m :
  accepts (caps_move (piece_opt k0) hf hr tk f r pr) m = true <->
  (piece_moved m = kindN k0 /\ (tk = true -> is_attack m = true) /\
   (forall c, hf = Some c -> file_of (src m) = c - 97) /\
   (k0 <> Pawn -> forall c, hr = Some c -> rank_of (src m) = 8 - (c - 48)) /\
   dst m = square_of_text [f; r] /\
   (k0 = Pawn -> forall q, pr = Some q -> promo m <> 0 /\ promo m = piece_of_letter q)).
Proof.
  unfold accepts, caps_move. cbn [c_piece c_from_file c_from_rank c_takes c_target c_promo c_castle c_long].
  assert (Hf : (match hf with Some f0 => file_of (src m) =? f0 - 97 | None => true end) = true <->
               (forall c, hf = Some c -> file_of (src m) = c - 97)).
  { destruct hf as [c0|].
    - rewrite N.eqb_eq. split; [intros H c [= <-]; exact H | intros H; apply H; reflexivity].
    - split; [intros _ c X; discriminate X | reflexivity]. }
  assert (Hr : (match hr with Some r0 => rank_of (src m) =? 8 - (r0 - 48) | None => true end) = true <->
               (forall c, hr = Some c -> rank_of (src m) = 8 - (c - 48))).
  { destruct hr as [c0|].
    - rewrite N.eqb_eq. split; [intros H c [= <-]; exact H | intros H; apply H; reflexivity].
    - split; [intros _ c X; discriminate X | reflexivity]. }
  assert (Ht : (negb tk || is_attack m) = true <-> (tk = true -> is_attack m = true)).
  { destruct tk; cbn [negb orb]; split; intros H; auto. discriminate. }
  assert (Hp : (match pr with Some p0 => is_promotion m && (promo m =? piece_of_letter p0) | None => true end) = true <->
               (forall q, pr = Some q -> promo m <> 0 /\ promo m = piece_of_letter q)).
  { unfold is_promotion. destruct pr as [q0|].
    - rewrite andb_true_iff, negb_true_iff, N.eqb_eq, N.eqb_neq.
      split; [intros H q [= <-]; exact H | intros H; apply H; reflexivity].
    - split; [intros _ q X; discriminate X | reflexivity]. }
  destruct k0; cbn [piece_opt];
    try (match goal with |- context [piece_of_letter (kind_upper ?k)] =>
           replace (piece_of_letter (kind_upper k)) with (kindN k) by reflexivity end);
    rewrite !andb_true_iff, Hf, Ht, ?Hr, ?Hp, !N.eqb_eq; change PAWN with (kindN Pawn).
  1: { split.
       - intros ((((A & B) & C) & D) & E). split; [exact A|]. split; [exact B|]. split; [exact D|].
         split; [intros X; contradiction|]. split; [exact E|]. intros _. exact C.
       - intros (A & B & D & _ & E & C). split; [split; [split; [split|]|]|]; auto. }
  all: (split;
        [ intros ((((A & B) & D) & R) & E); split; [exact A|]; split; [exact B|]; split; [exact D|];
          split; [intros _; exact R|]; split; [exact E|]; intros X; discriminate X
        | intros (A & B & D & R & E & _); split; [split; [split; [split|]|]|]; auto; apply R; discriminate ]).
Qed.

Section Reader.
Variable T : Tables.t.
Hypothesis OK : tables_attacks_ok T = true.
Hypothesis MK : tables_movegen_ok T = true.
Variable b : board.
Hypothesis Hwf : wf b = true.
Hypothesis Hl : legal_pos (abs b) = true.
Let p := abs b.

(* what is known about a legal move of the model, both in model and in rules terms *)
Record rep (r : move) (k : kind) : Prop := {
  rp_src : src r < 64;
  rp_dst : dst r < 64;
  rp_moved : piece_moved r = kindN k;
  rp_get : get p (from (uci_of r)) = Some (to_move p, k);
  rp_legal : In (uci_of r) (legal_moves p);
  rp_pm : In (uci_of r) (piece_moves p (from (uci_of r)) (to_move p, k));
  rp_prom : k <> Pawn -> prom (uci_of r) = None;
  rp_attack : is_attack r = is_capture p (uci_of r);
  rp_castle : castle r = is_castling p (uci_of r);
  rp_promo : promo r = 0 \/ 2 <= promo r <= 5
}.

Lemma rep_of r : In r (gen_legal T b) -> exists k, rep r k.
Proof.
  intros Hr. pose proof (legal_of_rep T OK MK b r Hwf Hl Hr) as Hu. fold p in Hu.
  apply filter_In in Hr as [Hin _]. pose proof (generated_facts T OK MK b r Hwf Hl Hin) as F.
  destruct F as [Hs Hd (k & K1 & K2 & K3) Hat Hpr Hca]. fold p in K3, Hat, Hca.
  destruct (legal_facts p (uci_of r) Hu) as (k' & _ & _ & G & Hpm & Hprom).
  change (from (uci_of r)) with (Z.of_N (src r)) in G, Hpm. rewrite K3 in G. injection G as <-.
  exists k. constructor; auto.
Qed.

Lemma rep_range r k : rep r k -> (0 <= from (uci_of r) < 64)%Z /\ (0 <= to (uci_of r) < 64)%Z.
Proof. intros R. exact (legal_range p _ (rp_legal r k R)). Qed.

(* the chars of the origin / target of a model move *)
Lemma from_file_chr r : file_chr (from (uci_of r)) = file_char (src r).
Proof. apply file_chr_of_N. Qed.
Lemma from_rank_chr r : rank_chr (from (uci_of r)) = rank_char (src r).
Proof. apply rank_chr_of_N. Qed.
Lemma to_file_chr r : file_chr (to (uci_of r)) = file_char (dst r).
Proof. apply file_chr_of_N. Qed.
Lemma to_rank_chr r : rank_chr (to (uci_of r)) = rank_char (dst r).
Proof. apply rank_chr_of_N. Qed.

(* a castling move of the rules: e-file to g- or c-file *)
Lemma castle_files r k : rep r k -> is_castling p (uci_of r) = true ->
  k = King /\ file_of (src r) = 4 /\ (file_of (dst r) = 6 \/ file_of (dst r) = 2).
Proof.
  intros R C. destruct (rep_range r k R) as [Rf Rt].
  destruct (is_castling_inv p (uci_of r) k (rp_get r k R) C) as [-> A].
  destruct (king_two_files p _ _ _ (rp_pm r King R) Rf A) as (Fs & Ft & _).
  pose proof (home_row_range (to_move p)) as Hh.
  split; [reflexivity|]. split.
  - apply N2Z.inj. rewrite <- fileZ_of_N. change (Z.of_N (src r)) with (from (uci_of r)). rewrite Fs. apply file_sq_of. lia.
  - destruct Ft as [Ft|Ft]; [left|right]; apply N2Z.inj; rewrite <- fileZ_of_N;
      change (Z.of_N (dst r)) with (to (uci_of r)); rewrite Ft; apply file_sq_of; lia.
Qed.

Lemma castle_text_files r : file_of (src r) = 4 ->
  castle_text (uci_of r) = if file_of (dst r) =? 6 then lit "O-O" else if 4 <? file_of (dst r) then lit "O-O" else lit "O-O-O".
Proof.
  intros E. unfold castle_text. change (from (uci_of r)) with (Z.of_N (src r)). change (to (uci_of r)) with (Z.of_N (dst r)).
  rewrite !fileZ_of_N, E.
  destruct (N.eqb_spec (file_of (dst r)) 6) as [->|]; [reflexivity|].
  destruct (N.ltb_spec 4 (file_of (dst r))); destruct (Z.ltb_spec (Z.of_N 4) (Z.of_N (file_of (dst r)))); try reflexivity; lia.
Qed.

(* one king per side *)
Lemma king_unique r r' : rep r King -> rep r' King -> src r' = src r.
Proof.
  intros R R'. pose proof (rp_get r King R) as G. pose proof (rp_get r' King R') as G'.
  change (from (uci_of r)) with (Z.of_N (src r)) in G. change (from (uci_of r')) with (Z.of_N (src r')) in G'.
  unfold p in G, G'. rewrite (get_abs b _ (rp_src r King R)) in G. rewrite (get_abs b _ (rp_src r' King R')) in G'.
  set (c := to_move (abs b)) in *.
  pose proof (wf_kingpos b c Hwf) as K. apply K in G. apply K in G'. congruence.
Qed.

Lemma promo_cases r k kq : rep r k -> prom (uci_of r) = Some kq ->
  (kq = Knight \/ kq = Bishop \/ kq = Rook \/ kq = Queen) /\ promo r = kindN kq.
Proof.
  intros R E. change (prom (uci_of r)) with (kind_of (promo r)) in E.
  pose proof (kind_of_some _ _ E) as E2. split; [|exact E2].
  destruct (rp_promo r k R) as [Z|Z]; rewrite E2 in Z.
  - exfalso. destruct kq; discriminate Z.
  - destruct kq; auto; exfalso; [change (kindN Pawn) with 1 in Z | change (kindN King) with 6 in Z]; lia.
Qed.


(* ---------- the core: spec-denoted moves are accepted by the model reader; what the model reader accepts next to a
              denoted move is denoted too (or is the same move) ---------- *)
Lemma reader_core s r0 : In r0 (gen_legal T b) -> denotes p s (uci_of r0) = true ->
  exists c, pgn_regex s = Some c /\ accepts c r0 = true /\
    forall r', In r' (gen_legal T b) -> accepts c r' = true ->
      denotes p s (uci_of r') = true \/ uci_of r' = uci_of r0.
Proof.
  intros Hr0 Hd. destruct (rep_of r0 Hr0) as (k0 & R0).
  destruct (denotes_inv p s _ Hd) as (Hu0 & B & t & Hsp & Hs & HB & Ht).
  destruct (is_castling p (uci_of r0)) eqn:C0.
  - (* castling *)
    destruct (castle_files r0 k0 R0 C0) as (-> & F4 & F62).
    unfold bodies in HB. rewrite C0 in HB. destruct HB as [<- | []].
    set (long := negb (file_of (dst r0) =? 6)).
    assert (Ect : castle_text (uci_of r0) = if long then lit "O-O-O" else lit "O-O").
    { rewrite (castle_text_files r0 F4). unfold long. destruct F62 as [E|E]; rewrite E; reflexivity. }
    exists (caps_castle long). split; [rewrite Hs, Ect; apply regex_castle; rewrite suffix_tail; exact Ht|].
    split.
    + unfold accepts. cbn [caps_castle c_piece c_castle c_long]. rewrite (rp_castle r0 King R0), C0. unfold long.
      destruct F62 as [E|E]; rewrite E; reflexivity.
    + intros r' Hr' Ha. left. destruct (rep_of r' Hr') as (k' & R').
      unfold accepts in Ha. cbn [caps_castle c_piece c_castle c_long] in Ha.
      apply andb_true_iff in Ha as [Ca Fa]. rewrite (rp_castle r' k' R') in Ca.
      destruct (castle_files r' k' R' Ca) as (-> & F4' & F62').
      apply (denotes_intro p s _ _ t (rp_legal r' King R') Hsp); [|exact Ht].
      unfold bodies. rewrite Ca. left. rewrite Ect, (castle_text_files r' F4').
      apply N.eqb_eq in Fa. rewrite Fa. destruct long; reflexivity.
  - (* an ordinary move *)
    destruct (rep_range r0 k0 R0) as [Rf0 Rt0].
    destruct (body_form p _ _ k0 B (rp_get r0 k0 R0) C0 HB) as (hf & hr & tk & Hhf & Hhr & Htk & ->).
    rewrite btext_form in Hs.
    set (u0 := uci_of r0) in *.
    exists (caps_move (piece_opt k0) hf hr tk (file_chr (to u0)) (rank_chr (to u0)) (option_map kind_upper (prom u0))).
    split.
    { rewrite Hs. apply regex_form.
      - intros l El. destruct k0; try discriminate El; injection El as <-; cbv; auto 6.
      - intros c Ec. destruct Hhf as [-> | ->]; [discriminate|]. injection Ec as <-. apply file_chr_filec. exact Rf0.
      - intros c Ec. destruct Hhr as [-> | ->]; [discriminate|]. injection Ec as <-. apply rank_chr_rankc. exact Rf0.
      - apply file_chr_filec. exact Rt0.
      - apply rank_chr_rankc. exact Rt0.
      - intros q Eq. destruct (prom u0) as [kq|] eqn:Pq; [|discriminate]. injection Eq as <-.
        apply promo_letter. exact (proj1 (promo_cases r0 k0 kq R0 Pq)).
      - rewrite suffix_tail. exact Ht. }
    assert (Edst : square_of_text [file_chr (to u0); rank_chr (to u0)] = dst r0).
    { unfold u0. rewrite to_file_chr, to_rank_chr. apply square_of_text_of. exact (rp_dst r0 k0 R0). }
    split.
    { apply accepts_move_iff. split; [exact (rp_moved r0 k0 R0)|].
      split; [intros E; rewrite (rp_attack r0 k0 R0); exact (Htk E)|].
      split; [|split; [|split]].
      - intros c Ec. destruct Hhf as [-> | ->]; [discriminate|]. injection Ec as <-.
        unfold u0; rewrite ?from_file_chr, ?file_chr_of_N. apply file_char_sub.
      - intros _ c Ec. destruct Hhr as [-> | ->]; [discriminate|]. injection Ec as <-.
        unfold u0; rewrite ?from_rank_chr, ?rank_chr_of_N. apply rank_char_sub. exact (rp_src r0 k0 R0).
      - symmetry. exact Edst.
      - intros _ q Eq. destruct (prom u0) as [kq|] eqn:Pq; [|discriminate]. injection Eq as <-.
        destruct (promo_cases r0 k0 kq R0 Pq) as [Kq Ep]. destruct (promo_letter kq Kq) as [_ Epl].
        rewrite Epl, Ep. split; [|reflexivity]. destruct Kq as [-> | [-> | [-> | ->]]]; discriminate. }
    intros r' Hr' Ha. destruct (rep_of r' Hr') as (k' & R').
    apply accepts_move_iff in Ha as (Am & At & Af & Ar & Ad & Ap).
    rewrite (rp_moved r' k' R') in Am. apply kindN_inj in Am. subst k'.
    rewrite Edst in Ad.
    destruct (rep_range r' k0 R') as [Rf' Rt'].
    set (u' := uci_of r') in *.
    assert (Eto : to u' = to u0) by (unfold u', u0, uci_of; cbn [to]; congruence).
    assert (Ehf : hf = None \/ hf = Some (file_chr (from u'))).
    { destruct Hhf as [-> | ->]; [left; reflexivity | right]. f_equal.
      specialize (Af _ eq_refl). unfold u0 in Af. rewrite from_file_chr in Af. unfold u0, u'. rewrite !from_file_chr. symmetry. apply file_char_eq. exact Af. }
    assert (Ehr : hr = None \/ hr = Some (rank_chr (from u'))).
    { destruct Hhr as [-> | ->]; [left; reflexivity | right]. f_equal.
      destruct (kind_eq_dec k0 Pawn) as [-> | Hk].
      - assert (Erow : rowZ (from u0) = rowZ (from u')).
        { apply (pawn_same_row p u0 u'); auto.
          + apply ep_consistent_of_legal. exact Hl.
          + exact (rp_get r0 Pawn R0).
          + exact (rp_get r' Pawn R').
          + exact (rp_pm r0 Pawn R0).
          + exact (rp_pm r' Pawn R'). }
        unfold rank_chr. rewrite Erow. reflexivity.
      - specialize (Ar Hk _ eq_refl). unfold u0 in Ar. rewrite from_rank_chr in Ar. unfold u0, u'. rewrite !from_rank_chr. symmetry. apply rank_char_eq; [exact (rp_src r0 k0 R0) | exact Ar]. }
    assert (Eprom : prom u' = prom u0).
    { destruct (kind_eq_dec k0 Pawn) as [-> | Hk].
      - destruct (prom u0) as [kq|] eqn:Pq.
        + destruct (promo_cases r0 Pawn kq R0 Pq) as [Kq Ep]. destruct (promo_letter kq Kq) as [_ Epl].
          destruct (Ap eq_refl _ eq_refl) as [_ Ap2]. rewrite Epl in Ap2.
          change (kind_of (promo r') = Some kq). rewrite Ap2. apply kind_of_kindN.
        + apply (pawn_prom_row p _ _ _ (rp_pm r' Pawn R') Rf'). fold u'. rewrite Eto.
          apply (pawn_prom_row p _ _ _ (rp_pm r0 Pawn R0) Rf0). exact Pq.
      - unfold u', u0. rewrite (rp_prom r' k0 R' Hk). symmetry. exact (rp_prom r0 k0 R0 Hk). }
    assert (Etk : tk = true -> is_capture p u' = true).
    { intros E. unfold u'. rewrite <- (rp_attack r' k0 R'). exact (At E). }
    destruct (is_castling p u') eqn:C'.
    + right. destruct (castle_files r' k0 R' C') as (-> & _ & _).
      apply mv_ext; [|exact Eto|exact Eprom].
      unfold u', u0, uci_of. cbn [from]. f_equal. exact (king_unique r0 r' R0 R').
    + left. apply (denotes_intro p s u' _ t (rp_legal r' k0 R') Hsp); [|exact Ht].
      rewrite <- Eto, <- Eprom. exact (body_form_intro p u' _ k0 hf hr tk (rp_get r' k0 R') C' Ehf Ehr Etk).
Qed.


Lemma nodup_legal : NoDup (map uci_of (gen_legal T b)).
Proof. exact (proj1 (proj2 (legal_exact T OK MK b Hwf Hl))). Qed.

(* whenever the reader of the spec finds THE move of a text, the reader of the model returns that move *)
Theorem reader_complete s u : parse_san p s = POk u ->
  exists r, pgn_to_bb T b s = Some r /\ uci_of r = u /\ In r (gen_legal T b).
Proof.
  intros H. destruct (parse_san_ok p s u H) as (Hu & Hd & Hun).
  destruct (legal_rep T OK MK b u Hwf Hl Hu) as (r & Hr & <-).
  destruct (reader_core s r Hr Hd) as (c & Hre & Ha & Hall).
  exists r. split; [|auto]. rewrite pgn_to_bb_unfold, Hre.
  rewrite (filter_single uci_of (accepts c) _ r nodup_legal Hr Ha); [reflexivity|].
  intros y Hy Py. destruct (Hall y Hy Py) as [D | E]; [apply Hun; exact D | exact E].
Qed.

(* a move returned by the reader of the model is legal, and every move the text denotes is that move *)
Theorem reader_sound s r : pgn_to_bb T b s = Some r ->
  In r (gen_legal T b) /\ In (uci_of r) (legal_moves p) /\ forall u, denotes p s u = true -> u = uci_of r.
Proof.
  rewrite pgn_to_bb_unfold. destruct (pgn_regex s) as [c|] eqn:Hre; [|discriminate].
  destruct (filter (accepts c) (gen_legal T b)) as [|m [|m' l]] eqn:F; try discriminate. intros [= ->].
  assert (Hin : In r (filter (accepts c) (gen_legal T b))) by (rewrite F; left; reflexivity).
  apply filter_In in Hin as [Hr _].
  split; [exact Hr|]. split; [exact (legal_of_rep T OK MK b r Hwf Hl Hr)|].
  intros u Hd. destruct (denotes_inv p s u Hd) as (Hu & _).
  destruct (legal_rep T OK MK b u Hwf Hl Hu) as (ru & Hru & <-).
  destruct (reader_core s ru Hru Hd) as (c' & Hre' & Ha & _). rewrite Hre in Hre'. injection Hre' as <-.
  assert (Hin : In ru (filter (accepts c) (gen_legal T b))) by (apply filter_In; auto).
  rewrite F in Hin. destruct Hin as [<- | []]. reflexivity.
Qed.

End Reader.

(* ---------- the three answers of the spec reader ---------- *)
Lemma dedup_In l x : In x (dedup l) <-> In x l.
Proof.
  induction l as [|y r IH]; cbn [dedup]; [tauto|].
  destruct (existsb (mv_eqb y) r) eqn:E.
  - rewrite IH. cbn [In]. split; [tauto|]. intros [<- | Hx]; [apply existsb_mv_In; exact E | exact Hx].
  - cbn [In]. rewrite IH. tauto.
Qed.
Lemma dedup_head l a tl : dedup l = a :: tl -> ~ In a tl.
Proof.
  induction l as [|y r IH]; cbn [dedup]; [discriminate|].
  destruct (existsb (mv_eqb y) r) eqn:E; [exact IH|]. intros H Hin. injection H as H1 H2. subst a tl.
  apply (proj1 (dedup_In _ _)) in Hin. apply (proj2 (existsb_mv_In _ _)) in Hin. rewrite E in Hin. discriminate.
Qed.

Lemma parse_san_ambiguous p s : parse_san p s = PAmbiguous ->
  exists m m', m <> m' /\ denotes p s m = true /\ denotes p s m' = true.
Proof.
  unfold parse_san. intros H. destruct (dedup (filter (denotes p s) (legal_moves p))) as [|a [|c r]] eqn:E; try discriminate.
  exists a, c. split.
  - intros <-. apply (dedup_head _ _ _ E). left. reflexivity.
  - assert (Ha : In a (dedup (filter (denotes p s) (legal_moves p)))) by (rewrite E; left; reflexivity).
    assert (Hc : In c (dedup (filter (denotes p s) (legal_moves p)))) by (rewrite E; right; left; reflexivity).
    apply dedup_In, filter_In in Ha. apply dedup_In, filter_In in Hc. tauto.
Qed.

Section ReaderParse.
Variable T : Tables.t.
Hypothesis OK : tables_attacks_ok T = true.
Hypothesis MK : tables_movegen_ok T = true.
Variable b : board.
Hypothesis Hwf : wf b = true.
Hypothesis Hl : legal_pos (abs b) = true.

(* model reader against parse_san, for EVERY string: a returned move is the spec's move unless the spec rejects the
   text (non-standard texts the regex lets through); nothing is returned when the spec finds the text ambiguous *)
Theorem reader_vs_parse s :
  match pgn_to_bb T b s with
  | Some r => In (uci_of r) (legal_moves (abs b)) /\ (parse_san (abs b) s = POk (uci_of r) \/ parse_san (abs b) s = PErr)
  | None => parse_san (abs b) s = PErr \/ parse_san (abs b) s = PAmbiguous
  end.
Proof.
  destruct (pgn_to_bb T b s) as [r|] eqn:E.
  - destruct (reader_sound T OK MK b Hwf Hl s r E) as (_ & Hu & Hun). split; [exact Hu|].
    destruct (parse_san (abs b) s) as [m| |] eqn:P.
    + left. f_equal. apply Hun. exact (proj1 (proj2 (parse_san_ok _ _ _ P))).
    + right. reflexivity.
    + exfalso. destruct (parse_san_ambiguous _ _ P) as (m & m' & Hne & D & D'). apply Hne.
      rewrite (Hun m D), (Hun m' D'). reflexivity.
  - destruct (parse_san (abs b) s) as [m| |] eqn:P; auto. exfalso.
    destruct (reader_complete T OK MK b Hwf Hl s m P) as (r & Hr & _). congruence.
Qed.

(* round trips *)
Theorem reader_roundtrip u : In u (legal_moves (abs b)) ->
  exists r, pgn_to_bb T b (san (abs b) u) = Some r /\ uci_of r = u.
Proof.
  intros Hu. destruct (reader_complete T OK MK b Hwf Hl _ u (roundtrip_spec (abs b) u Hl Hu)) as (r & H1 & H2 & _). eauto.
Qed.

Theorem reader_roundtrip_model s text ob : uci_to_pgn T b s = (inr text, ob) ->
  exists r, pgn_to_bb T b text = Some r /\ to_uci r = trim s /\ In (uci_of r) (legal_moves (abs b)).
Proof.
  intros H. destruct (output_closed T OK MK b s text ob Hwf Hl H) as (u & Hu & Eu & ->).
  destruct (reader_complete T OK MK b Hwf Hl _ u (roundtrip_spec (abs b) u Hl Hu)) as (r & H1 & H2 & Hr).
  exists r. split; [exact H1|]. split; [|rewrite H2; exact Hu].
  apply filter_In in Hr as [Hr _]. rewrite (to_uci_spec b r (generated_facts T OK MK b r Hwf Hl Hr)), H2. exact Eu.
Qed.

End ReaderParse.

(* ---------- "model reader = parse_san on every string" is false: three kinds of non-standard text ---------- *)
Definition rd_castle_board : board := board_of_text (lit "r3k2r/8/8/8/8/8/8/R3K2R w KQkq - 0 1").
Definition rd_start_board : board := board_of_text STARTPOS.

Lemma reader_eq_refuted :
  (* castling written as a king move *)
  (exists b r, wf b = true /\ legal_pos (abs b) = true /\
     pgn_to_bb Ink.Gen.Tables.tables b (lit "Kg1") = Some r /\ to_uci r = lit "e1g1" /\ castle r = true /\
     parse_san (abs b) (lit "Kg1") = PErr) /\
  (* promotion suffix on a piece move *)
  (exists b r, wf b = true /\ legal_pos (abs b) = true /\
     pgn_to_bb Ink.Gen.Tables.tables b (lit "Nf3=Q") = Some r /\ to_uci r = lit "g1f3" /\
     parse_san (abs b) (lit "Nf3=Q") = PErr) /\
  (* pawn move with a wrong origin rank (the rank hint of a pawn move is not looked at) *)
  (exists b r, wf b = true /\ legal_pos (abs b) = true /\
     pgn_to_bb Ink.Gen.Tables.tables b (lit "e3e4") = Some r /\ to_uci r = lit "e2e4" /\
     parse_san (abs b) (lit "e3e4") = PErr).
Proof.
  split; [|split].
  - exists rd_castle_board. eexists.
    split; [vm_compute; reflexivity|]. split; [vm_compute; reflexivity|]. split; [vm_compute; reflexivity|].
    split; [vm_compute; reflexivity|]. split; vm_compute; reflexivity.
  - exists rd_start_board. eexists.
    split; [vm_compute; reflexivity|]. split; [vm_compute; reflexivity|]. split; [vm_compute; reflexivity|].
    split; vm_compute; reflexivity.
  - exists rd_start_board. eexists.
    split; [vm_compute; reflexivity|]. split; [vm_compute; reflexivity|]. split; [vm_compute; reflexivity|].
    split; vm_compute; reflexivity.
Qed.

(* ---------- the clock bound of output_converse is needed: at 4096 the board that comes back has clock 0 (C03) ---------- *)
Definition cv_board : board := board_of_text (lit "rnbqkbnr/pppppppp/8/8/8/8/PPPPPPPP/RNBQKBNR w KQkq - 4096 1").
Lemma output_converse_needs_half :
  exists b u ob, wf b = true /\ legal_pos (abs b) = true /\ In u (legal_moves (abs b)) /\ half b = 4096 /\
    uci_to_pgn Ink.Gen.Tables.tables b (uci u) = (inr (san (abs b) u), ob) /\ option_map half ob = Some 0.
Proof.
  exists cv_board, {| from := 62%Z; to := 45%Z; prom := None |}.
  exists (snd (uci_to_pgn Ink.Gen.Tables.tables cv_board (uci {| from := 62%Z; to := 45%Z; prom := None |}))).
  split; [vm_compute; reflexivity|]. split; [vm_compute; reflexivity|].
  split; [apply (proj1 (existsb_mv_In _ _)); vm_compute; reflexivity|]. split; [vm_compute; reflexivity|].
  split; vm_compute; reflexivity.
Qed.

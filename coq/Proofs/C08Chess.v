(* Proofs/C08Chess.v : the concrete C08 theorems of Proofs/SearchRefine.v for the chess family of
   Proofs/RepetitionInstance.v and the tables of the current tree.

     good_c10 T n b := wf b /\ rights_wf b /\ ep_free b /\ is_valid T b /\ half b + n < 4096 /\ ep_wf b /\ 1 <= full b,   Q = 129

   Discharged here: C03_family (gen_search_family), good_sane (wf, castle_wf = rights_wf, ep_wf), the table conditions
   gen_masks_ok / keys_rows_ok, 0 < win_score.
   gen_masks_ok / keys_rows_ok, 0 < win_score; the range of the static evaluation on well-formed boards ([static_range],
   from the boolean table check [eval_range_ok]); [inb] from  full-move number + depth < 2^24  ([inb_range]).
   Still hypotheses: from depth 2 on ND (distinct legal moves give distinct positions) and ply_unique (no key at two
   plies, no collision between positions that differ); half-move clock + depth < 6; the root has a pseudo-legal move. *)
Require Import Ink.Lib.Str.
Require Import NArith ZArith List Bool Lia Arith.
Require Import Ink.Lib.Bits Ink.Model.Tables Ink.Model.Board Ink.Model.Search.
Require Ink.Spec.Minimax Ink.Model.SearchCore Ink.Proofs.AlphaBeta.
Require Ink.Proofs.ZobristProofs Ink.Proofs.MakeUnmake Ink.Proofs.AbsProofs Ink.Proofs.EvalProofs Ink.Proofs.GenShape Ink.Gen.Tables.
Require Import Ink.Model.Heuristic.
Require Import Ink.Proofs.SearchProofs Ink.Proofs.ChessInstance Ink.Proofs.RepetitionProofs Ink.Proofs.RepetitionInstance.
Require Import Ink.Proofs.ChessGame Ink.Proofs.SearchRefine.
Import ListNotations.
Open Scope N_scope.

Definition GT : Tables.t := Ink.Gen.Tables.tables.
Definition goodC : nat -> board -> Prop := good_c10 GT.

Lemma GT_masks : ZobristProofs.gen_masks_ok GT = true.
Proof. exact ZobristProofs.gen_gen_masks_ok. Qed.
Lemma GT_rows : ZobristProofs.keys_rows_ok GT = true.
Proof. exact ZobristProofs.gen_keys_rows_ok. Qed.
Lemma GT_win : (0 < win_score GT)%Z.
Proof. reflexivity. Qed.

Lemma goodC_family : C03_family GT goodC 129.
Proof. exact (proj1 gen_search_family). Qed.

Lemma goodC_sane : forall n b, goodC n b -> sane b = true.
Proof.
  intros n b ((Hwf & Hr & _) & Hep & _). unfold sane, ZobristProofs.good.
  rewrite Hwf, (rights_wf_castle_wf b Hr), Hep. reflexivity.
Qed.

(* ================================================================== *)
(* the range of the evaluation, for any table set that passes [eval_range_ok]                                       *)
Section Range.
Variable T : Tables.t.

Definition PB : Z := 1000.    (* bound on the piece-square entries (generous: tuning the tables must not break the range obligation) *)
Definition pst_le (ts : list (list (list Z))) : bool :=
  forallb (fun stg => forallb (fun row => forallb (fun v => (Z.abs v <=? PB)%Z) row) stg) ts.
Definition vsum : N := val_q T + val_r T + val_b T + val_n T + val_p T.
Definition eval_range_ok : bool :=
  (64 * vsum <? 2 ^ 31) && pst_le (pst_white T) && pst_le (pst_black T) &&
  (Z.abs (draw_score T) <? win_score T)%Z && (Z.of_N (64 * vsum) + 768 * PB <? win_score T)%Z.

Lemma nthN_forallb {A} (P : A -> bool) l i d : forallb P l = true -> P d = true -> P (nthN l i d) = true.
Proof.
  unfold nthN. intros Hl Hd. destruct (nth_in_or_default (N.to_nat i) l d) as [H|H]; [|now rewrite H].
  exact (proj1 (forallb_forall _ _) Hl _ H).
Qed.

Lemma zsum_bound B l : (0 <= B)%Z -> (forall x, In x l -> (Z.abs x <= B)%Z) ->
  (Z.abs (EvalProofs.zsum l) <= Z.of_nat (length l) * B)%Z.
Proof.
  intros HB. induction l as [|x r IH]; intros H; cbn [EvalProofs.zsum length]; [lia|].
  rewrite Nat2Z.inj_succ, Z.mul_succ_l. specialize (IH (fun y Hy => H y (or_intror Hy))).
  pose proof (H x (or_introl eq_refl)). lia.
Qed.

Lemma pss_bound occ row : occ < 2 ^ 64 -> forallb (fun v => (Z.abs v <=? PB)%Z) row = true ->
  (Z.abs (piece_square_sum occ row) <= 64 * PB)%Z.
Proof.
  intros Hocc Hrow. rewrite EvalProofs.piece_square_sum_as_sum.
  pose proof (zsum_bound PB (map (fun s => nthN row s 0%Z) (bits_of occ)) ltac:(unfold PB; lia)) as HB.
  rewrite map_length in HB.
  assert (HL : (length (bits_of occ) <= 64)%nat).
  { pose proof (popcount_le_64 occ Hocc) as H. rewrite AbsProofs.popcount_length in H. lia. }
  assert (H1 : (Z.abs (EvalProofs.zsum (map (fun s => nthN row s 0%Z) (bits_of occ))) <= Z.of_nat (length (bits_of occ)) * PB)%Z).
  { apply HB. intros x Hx. apply in_map_iff in Hx as (s & <- & _). apply Z.leb_le.
    apply (nthN_forallb (fun v => (Z.abs v <=? PB)%Z)); [exact Hrow|reflexivity]. }
  unfold PB in *. nia.
Qed.

Lemma player_bound p tables : GenShape.bb_bounded p ->
  forallb (fun row => forallb (fun v => (Z.abs v <=? PB)%Z) row) tables = true ->
  (Z.abs (piece_square_sum_for_player p tables) <= 6 * (64 * PB))%Z.
Proof.
  intros (H1 & H2 & H3 & H4 & H5 & H6) Ht. unfold piece_square_sum_for_player.
  assert (R : forall k, forallb (fun v => (Z.abs v <=? PB)%Z) (nthN tables k []) = true).
  { intros k. apply (nthN_forallb (fun row => forallb (fun v => (Z.abs v <=? PB)%Z) row)); [exact Ht|reflexivity]. }
  pose proof (pss_bound (pawns p) _ H1 (R (PAWN - 1))). pose proof (pss_bound (knights p) _ H2 (R (KNIGHT - 1))).
  pose proof (pss_bound (bishops p) _ H3 (R (BISHOP - 1))). pose proof (pss_bound (rooks p) _ H4 (R (ROOK - 1))).
  pose proof (pss_bound (queens p) _ H5 (R (QUEEN - 1))). pose proof (pss_bound (kings p) _ H6 (R (KING - 1))). lia.
Qed.

Hypothesis HR : eval_range_ok = true.

Lemma range_elim : 64 * vsum < 2 ^ 31 /\ pst_le (pst_white T) = true /\ pst_le (pst_black T) = true /\
  (Z.abs (draw_score T) < win_score T)%Z /\ (Z.of_N (64 * vsum) + 768 * PB < win_score T)%Z.
Proof.
  unfold eval_range_ok in HR. rewrite !andb_true_iff in HR. destruct HR as ((((A & B) & C) & D) & E).
  apply N.ltb_lt in A. apply Z.ltb_lt in D, E. auto.
Qed.

Lemma piece_value_bound p : GenShape.bb_bounded p -> (0 <= piece_value T p <= Z.of_N (64 * vsum))%Z.
Proof.
  intros (H1 & H2 & H3 & H4 & H5 & H6). destruct range_elim as (A & _). unfold piece_value.
  pose proof (popcount_le_64 _ H1). pose proof (popcount_le_64 _ H2). pose proof (popcount_le_64 _ H3).
  pose proof (popcount_le_64 _ H4). pose proof (popcount_le_64 _ H5).
  set (n := popcount (queens p) * val_q T + popcount (rooks p) * val_r T + popcount (bishops p) * val_b T
            + popcount (knights p) * val_n T + popcount (pawns p) * val_p T).
  assert (Hn : n <= 64 * vsum) by (unfold n, vsum; nia).
  rewrite EvalProofs.to_i32_small by lia. lia.
Qed.

Lemma static_range b : wf b = true -> (- win_score T < ChessGame.static T b < win_score T)%Z.
Proof.
  intros Hwf. destruct (GenShape.wf_elim b Hwf) as (Bw & Bb & Hturn & _).
  destruct range_elim as (A & Pw & Pb & D & E).
  assert (Hev : (Z.abs (evaluate T b true) < win_score T)%Z).
  { unfold evaluate. destruct (max_half_moves T <=? half b); [exact D|].
    unfold evaluate_ongoing, piece_square_value. cbv zeta.
    pose proof (piece_value_bound _ Bw). pose proof (piece_value_bound _ Bb).
    assert (Sw : forallb (fun row => forallb (fun v => (Z.abs v <=? PB)%Z) row) (nthN (pst_white T) (game_stage b) []) = true).
    { apply (nthN_forallb (fun stg => forallb (fun row => forallb (fun v => (Z.abs v <=? PB)%Z) row) stg)); [exact Pw|reflexivity]. }
    assert (Sb : forallb (fun row => forallb (fun v => (Z.abs v <=? PB)%Z) row) (nthN (pst_black T) (game_stage b) []) = true).
    { apply (nthN_forallb (fun stg => forallb (fun row => forallb (fun v => (Z.abs v <=? PB)%Z) row) stg)); [exact Pb|reflexivity]. }
    pose proof (player_bound _ _ Bw Sw). pose proof (player_bound _ _ Bb Sb). lia. }
  unfold ChessGame.static, heuristic_factor.
  assert (turn b = 0 \/ turn b = 1) as [-> | ->] by lia; cbn [Z.of_N]; lia.
Qed.

(* mate scores stay inside (loss_score, win_score) while the full-move number is below 2^24 *)
Lemma terminal_range b : turn b < 2 -> 1 <= full b -> (Z.of_N (full b) < win_score T)%Z -> (win_score T <= 2 ^ 30)%Z ->
  (- win_score T < ChessGame.terminal T b < win_score T)%Z.
Proof.
  intros Hturn Hf1 Hf2 Hw. destruct range_elim as (_ & _ & _ & D & _).
  unfold ChessGame.terminal, evaluate, heuristic_factor, loss_score.
  assert (Ei : to_i32 (full b) = Z.of_N (full b)) by (apply EvalProofs.to_i32_small; lia).
  assert (turn b = 0 \/ turn b = 1) as [E | E] by lia; rewrite E; cbn [Z.of_N];
    destruct (is_current_in_check T b); unfold WHITE, BLACK; cbn [N.eqb]; try lia.
  - change (0 =? 0) with true. cbv iota. lia.
  - change (1 =? 0) with false. change (1 =? 1) with true. cbv iota. lia.
Qed.

Lemma inb_range : forall d b, turn b < 2 -> 1 <= full b -> (Z.of_N (full b + N.of_nat d) < win_score T)%Z ->
  (win_score T <= 2 ^ 30)%Z -> inb T d b.
Proof.
  induction d as [|d IH]; intros b Ht Hf1 Hf2 Hw; cbn [inb]; (split; [intros _; apply terminal_range; try assumption; lia|]); [exact I|].
  intros q Hq. unfold ChessGame.succs in Hq. apply children_in in Hq as (m & _ & Hmk & _).
  destruct (make_fields b m q Hmk) as (E1 & E2 & _).
  apply IH; [rewrite E1; unfold opposite; lia|rewrite E2; lia| |exact Hw].
  rewrite E2. rewrite Nat2N.inj_succ in Hf2. lia.
Qed.

End Range.

Lemma GT_range : eval_range_ok GT = true.
Proof. vm_compute. reflexivity. Qed.

(* discharged for the tables of the tree: the static evaluation of a well-formed board is in range *)
Lemma goodC_static : forall n b, goodC n b -> (- win_score GT < ChessGame.static GT b < win_score GT)%Z.
Proof. intros n b ((Hwf & _) & _). exact (static_range GT GT_range b Hwf). Qed.

Lemma goodC_inb d n b : goodC n b -> full b + N.of_nat d < 16777216 -> inb GT d b.
Proof.
  intros ((Hwf & _) & _ & Hfull) Hf. destruct (GenShape.wf_elim b Hwf) as (_ & _ & Hturn & _).
  apply (inb_range GT GT_range); try assumption; [change (win_score GT) with 16777216%Z; lia|vm_compute; discriminate].
Qed.

(* (a) *)
Theorem quiescence_concrete_chess : forall fuel alpha beta zph st,
  goodC fuel (s_board st) -> (qmeasure (s_board st) < fuel)%nat -> (alpha < beta)%Z ->
  vm_value (fst (quiescence GT fuel alpha beta zph st)) =
  AlphaBeta.clamp alpha beta (Minimax.qs board (ChessGame.noisy_succs GT) (ChessGame.static GT) qmeasure (s_board st)).
Proof. exact (quiescence_concrete_closed GT GT_masks goodC 129 goodC_family goodC_sane). Qed.

(* (b) *)
Theorem horizon_concrete_chess : forall alpha beta zph st,
  goodC 130 (s_board st) ->
  (alpha < Minimax.horizon board (ChessGame.succs GT) (ChessGame.noisy_succs GT) (ChessGame.noisy_any GT) (ChessGame.static GT)
             (ChessGame.terminal GT) qmeasure (s_board st) < beta)%Z ->
  vm_value (fst (leaf_node GT (turn (s_board st)) alpha beta zph (gen_pseudo GT (s_board st)) st)) =
  Minimax.horizon board (ChessGame.succs GT) (ChessGame.noisy_succs GT) (ChessGame.noisy_any GT) (ChessGame.static GT)
    (ChessGame.terminal GT) qmeasure (s_board st).
Proof. exact (leaf_node_concrete_closed GT GT_masks goodC 129 goodC_family goodC_sane). Qed.

(* (c) *)
Theorem depth1_concrete_chess :
  forall orc, quiet orc -> forall g st, g_depth g = Some 1 -> plain_go g ->
  goodC 131 (s_board st) -> half (s_board st) < 5 -> full (s_board st) + 1 < 16777216 ->
  root_empty GT (s_board st) = false ->
  Forall (exact_rec GT (static_sat GT) (s_board st) 0) (fst (go_full GT orc g st)) /\
  (ChessGame.succs GT (s_board st) <> [] ->
   exists it, fst (go_full GT orc g st) = [it] /\ exact_rec GT (static_sat GT) (s_board st) 0 it).
Proof.
  intros orc Hq g st Hd Hp Hg Hh Hf Hre.
  exact (depth1_concrete_closed GT GT_masks goodC 129 goodC_family goodC_sane GT_rows GT_win goodC_static orc Hq g st Hd Hp Hg Hh Hre
           (goodC_inb 1 131 _ Hg Hf)).
Qed.

(* (d) *)
Theorem go_depth_concrete_chess :
  forall orc, quiet orc ->
  forall sim : nat -> board -> board -> Prop,
  (forall r' r x y, sim r' x y -> (r <= r')%nat ->
     Minimax.nm board (ChessGame.succs GT) (ChessGame.noisy_succs GT) (ChessGame.noisy_any GT) (static_sat GT)
       (ChessGame.terminal GT) qmeasure r x =
     Minimax.nm board (ChessGame.succs GT) (ChessGame.noisy_succs GT) (ChessGame.noisy_any GT) (static_sat GT)
       (ChessGame.terminal GT) qmeasure r y) ->
  (forall r r' x y, (r <= r')%nat -> sim r' x y -> sim r x y) ->
  forall g st dd, g_depth g = Some dd -> ((depth_of dd <= 1)%nat \/ ND GT goodC) -> plain_go g ->
  goodC (depth_of dd + 130) (s_board st) -> half (s_board st) + N.of_nat (depth_of dd) < 6 ->
  Minimax.ply_unique board (ChessGame.succs GT) (zobrist_hash GT) sim (depth_of dd) (s_board st) ->
  root_empty GT (s_board st) = false -> full (s_board st) + N.of_nat (depth_of dd) < 16777216 ->
  Forall (fun it => exists d, (S d <= depth_of dd)%nat /\ exact_rec GT (static_sat GT) (s_board st) d it)
         (fst (go_full GT orc g st)) /\
  (ChessGame.succs GT (s_board st) <> [] ->
   exists it rest, fst (go_full GT orc g st) = it :: rest /\
                   exact_rec GT (static_sat GT) (s_board st) (pred (depth_of dd)) it).
Proof.
  intros orc Hq sim S1 S2 g st dd Hd HND Hp Hg Hh HU Hre Hf.
  exact (go_depth_concrete_closed GT GT_masks goodC 129 goodC_family goodC_sane GT_rows GT_win goodC_static orc Hq sim S1 S2
           g st dd Hd HND Hp Hg Hh HU Hre (goodC_inb _ _ _ Hg Hf)).
Qed.

(* Reusable facts about the text toolkit of Lib/Str.v: str_eqb, split_on / join, parse_digits / show_N. *)
Require Import Ink.Lib.Str.
Require Import NArith List Bool Lia.
Import ListNotations.
Open Scope N_scope.

Arguments N.add : simpl never.
Arguments N.sub : simpl never.
Arguments N.mul : simpl never.
Arguments N.div : simpl never.
Arguments N.modulo : simpl never.
Arguments N.eqb : simpl never.
Arguments N.ltb : simpl never.
Arguments N.leb : simpl never.
Arguments N.pow : simpl never.

(* ---------- str_eqb ---------- *)
Lemma str_eqb_eq a : forall b, str_eqb a b = true <-> a = b.
Proof.
  induction a as [|x a IH]; intros [|y b]; cbn [str_eqb]; try (split; [discriminate|discriminate]); [tauto|].
  rewrite andb_true_iff, N.eqb_eq, IH. split; [intros [-> ->]; reflexivity|intros [= -> ->]; auto].
Qed.
Lemma str_eqb_refl a : str_eqb a a = true.
Proof. now apply str_eqb_eq. Qed.
Lemma str_eqb_neq a b : str_eqb a b = false <-> a <> b.
Proof. rewrite <- str_eqb_eq. destruct (str_eqb a b); split; congruence. Qed.

Lemma mem_str_In x l : mem_str x l = true <-> In x l.
Proof.
  unfold mem_str. rewrite existsb_exists. split.
  - intros (y & Hy & E). apply str_eqb_eq in E. now subst.
  - intros H. exists x. split; [assumption|apply str_eqb_refl].
Qed.
Lemma mem_chr_In c l : mem_chr c l = true <-> In c l.
Proof.
  unfold mem_chr. rewrite existsb_exists. split.
  - intros (y & Hy & E). apply N.eqb_eq in E. now subst.
  - intros H. exists c. split; [assumption|apply N.eqb_refl].
Qed.
Lemma contains_chr_In c x : contains_chr c x = true <-> In c x.
Proof.
  induction x as [|y r IH]; cbn [contains_chr In]; [split; [discriminate|tauto]|].
  rewrite orb_true_iff, N.eqb_eq, IH. tauto.
Qed.

(* ---------- split_on / join ---------- *)
Lemma split_on_nonnil c x : split_on c x <> [].
Proof.
  induction x as [|y r IH]; cbn [split_on]; [discriminate|].
  destruct (N.eqb y c); [discriminate|]. destruct (split_on c r); [contradiction|discriminate].
Qed.

Lemma split_on_nosep c p : ~ In c p -> split_on c p = [p].
Proof.
  induction p as [|y r IH]; intros H; cbn [split_on]; [reflexivity|].
  destruct (N.eqb_spec y c) as [->|Hne]; [exfalso; apply H; now left|].
  rewrite IH; [reflexivity|]. intros Hin. apply H. now right.
Qed.

Lemma split_on_app c p r : ~ In c p -> split_on c (p ++ c :: r) = p :: split_on c r.
Proof.
  induction p as [|y q IH]; intros H; cbn [split_on app].
  - now rewrite N.eqb_refl.
  - destruct (N.eqb_spec y c) as [->|Hne]; [exfalso; apply H; now left|].
    rewrite IH; [reflexivity|]. intros Hin. apply H. now right.
Qed.

Lemma join_cons sep x y l : join sep (x :: y :: l) = x ++ sep ++ join sep (y :: l).
Proof. reflexivity. Qed.

(* splitting a joined list gives the list back *)
Lemma split_on_join c l : l <> [] -> (forall p, In p l -> ~ In c p) -> split_on c (join [c] l) = l.
Proof.
  induction l as [|x l IH]; intros Hne H; [contradiction|].
  destruct l as [|y l].
  - cbn [join]. apply split_on_nosep. apply H. now left.
  - rewrite join_cons. cbn [app]. rewrite split_on_app by (apply H; now left).
    f_equal. apply IH; [discriminate|]. intros p Hp. apply H. now right.
Qed.

(* joining the pieces of a split gives the text back *)
Lemma join_split_on c s : join [c] (split_on c s) = s.
Proof.
  induction s as [|y r IH]; [reflexivity|]. cbn [split_on].
  destruct (N.eqb_spec y c) as [->|Hne].
  - pose proof (split_on_nonnil c r) as Hn. destruct (split_on c r) as [|p ps]; [contradiction|].
    rewrite join_cons. cbn [app]. now rewrite IH.
  - pose proof (split_on_nonnil c r) as Hn. destruct (split_on c r) as [|p ps]; [contradiction|].
    destruct ps as [|q ps].
    + cbn [join] in *. now rewrite IH.
    + rewrite join_cons in IH |- *. cbn [app] in IH |- *. now rewrite IH.
Qed.

Lemma split_on_pieces_nosep c s p : In p (split_on c s) -> ~ In c p.
Proof.
  revert p. induction s as [|y r IH]; intros p; cbn [split_on].
  - intros [<-|[]]. tauto.
  - destruct (N.eqb_spec y c) as [->|Hne].
    + intros [<-|H]; [tauto|now apply IH].
    + pose proof (split_on_nonnil c r) as Hn. destruct (split_on c r) as [|q qs]; [contradiction|].
      intros [<-|H].
      * intros [E|E]; [congruence|]. revert E. apply IH. now left.
      * apply IH. now right.
Qed.

Lemma In_join c l x : In x (join [c] l) -> x = c \/ exists p, In p l /\ In x p.
Proof.
  induction l as [|a l IH]; [intros []|]. destruct l as [|b l].
  - cbn [join]. intros H. right. exists a. split; [now left|assumption].
  - rewrite join_cons. cbn [app]. intros H. apply in_app_or in H as [H|[H|H]].
    + right. exists a. split; [now left|assumption].
    + now left.
    + destruct (IH H) as [E|(p & Hp & Hx)]; [now left|]. right. exists p. split; [now right|assumption].
Qed.

(* ---------- parse_digits ---------- *)
Lemma parse_digits_snoc maxv ds c : forall a,
  parse_digits maxv a (ds ++ [c]) =
  match parse_digits maxv a ds with
  | Some v => if is_ascii_digit c then (if v * 10 + digit_val c <=? maxv then Some (v * 10 + digit_val c) else None) else None
  | None => None
  end.
Proof.
  induction ds as [|d ds IH]; intros a; cbn [app parse_digits].
  - destruct (is_ascii_digit c); [|reflexivity]. destruct (_ <=? _); reflexivity.
  - destruct (is_ascii_digit d); [|reflexivity]. destruct (_ <=? _); [apply IH|reflexivity].
Qed.

Lemma parse_digits_ge maxv x : forall a n, parse_digits maxv a x = Some n -> a <= n.
Proof.
  induction x as [|c r IH]; intros a n; cbn [parse_digits].
  - intros [= <-]. lia.
  - destruct (is_ascii_digit c); [|discriminate]. destruct (N.leb_spec (a * 10 + digit_val c) maxv) as [Hle|Hle]; [|discriminate].
    intros H. apply IH in H. lia.
Qed.

Lemma parse_digits_le_max maxv x : forall a n, a <= maxv -> parse_digits maxv a x = Some n -> n <= maxv.
Proof.
  induction x as [|c r IH]; intros a n Ha; cbn [parse_digits].
  - intros [= <-]. assumption.
  - destruct (is_ascii_digit c); [|discriminate]. destruct (N.leb_spec (a * 10 + digit_val c) maxv) as [Hle|Hle]; [|discriminate].
    apply IH. assumption.
Qed.

(* the bound only matters through the final value *)
Lemma parse_digits_mono m1 m2 x : forall a n, m1 <= m2 -> parse_digits m1 a x = Some n -> parse_digits m2 a x = Some n.
Proof.
  induction x as [|c r IH]; intros a n Hm; cbn [parse_digits]; [auto|].
  destruct (is_ascii_digit c); [|discriminate]. destruct (N.leb_spec (a * 10 + digit_val c) m1) as [Hle1|Hle1]; [|discriminate].
  destruct (N.leb_spec (a * 10 + digit_val c) m2) as [Hle2|Hle2]; [|lia]. now apply IH.
Qed.
Lemma parse_digits_shrink m1 m2 x : forall a n, n <= m1 -> parse_digits m2 a x = Some n -> parse_digits m1 a x = Some n.
Proof.
  induction x as [|c r IH]; intros a n Hn; cbn [parse_digits]; [auto|].
  destruct (is_ascii_digit c); [|discriminate]. destruct (N.leb_spec (a * 10 + digit_val c) m2) as [Hle2|Hle2]; [|discriminate].
  intros H. pose proof (parse_digits_ge _ _ _ _ H).
  destruct (N.leb_spec (a * 10 + digit_val c) m1) as [Hle1|Hle1]; [|lia]. now apply IH.
Qed.

Lemma parse_digits_all_digits maxv x : forall a n, parse_digits maxv a x = Some n -> forallb is_ascii_digit x = true.
Proof.
  induction x as [|c r IH]; intros a n; cbn [parse_digits forallb]; [reflexivity|].
  destruct (is_ascii_digit c); [|discriminate]. destruct (_ <=? _); [|discriminate]. cbn. apply IH.
Qed.

(* parse_unsigned on a text that starts with a digit is parse_digits *)
Lemma parse_unsigned_digits maxv x : nonempty x = true -> forallb is_ascii_digit x = true ->
  parse_unsigned maxv x = parse_digits maxv 0 x.
Proof.
  destruct x as [|c r]; [discriminate|]. intros _ H. cbn [forallb] in H. apply andb_true_iff in H as [Hc _].
  unfold parse_unsigned. destruct (N.eqb_spec c 43) as [->|]; [discriminate|reflexivity].
Qed.

Lemma parse_dec_digits x : nonempty x = true -> parse_dec x = parse_digits (2^200) 0 x.
Proof. destruct x; [discriminate|reflexivity]. Qed.

(* a u32 parse and the unbounded decimal parse agree on digit strings *)
Lemma parse_u32_dec x n : nonempty x = true -> forallb is_ascii_digit x = true ->
  parse_u32 x = Some n -> parse_dec x = Some n.
Proof.
  intros Hne Hd. unfold parse_u32. rewrite parse_unsigned_digits, parse_dec_digits by assumption.
  apply parse_digits_mono. change (2^200) with 1606938044258990275541962092341162602522202993782792835301376. lia.
Qed.
Lemma parse_dec_u32 x n : nonempty x = true -> forallb is_ascii_digit x = true ->
  parse_dec x = Some n -> n < 2^32 -> parse_u32 x = Some n.
Proof.
  intros Hne Hd. unfold parse_u32. rewrite parse_unsigned_digits, parse_dec_digits by assumption.
  intros H Hn. eapply parse_digits_shrink; [|exact H]. change (2^32) with 4294967296 in Hn. lia.
Qed.
Lemma parse_u32_lt x n : parse_u32 x = Some n -> n < 2^32.
Proof.
  change (2^32) with 4294967296. unfold parse_u32, parse_unsigned. destruct x as [|c r]; [discriminate|].
  destruct (N.eqb c 43).
  - destruct r; [discriminate|]. intros H. apply parse_digits_le_max in H; lia.
  - intros H. apply parse_digits_le_max in H; lia.
Qed.

(* ---------- show_N ---------- *)
(* what a decimal rendering is: non-empty, ASCII digits, no leading zero unless it is "0", and it parses back *)
Definition decimal_of (n : N) (ds : str) : Prop :=
  ds <> [] /\ forallb is_ascii_digit ds = true /\
  (forall maxv, n <= maxv -> parse_digits maxv 0 ds = Some n) /\
  (n <> 0 -> hd 0 ds <> 48) /\ (n = 0 -> ds = [48]).

Lemma digit_char_ok n : is_ascii_digit (48 + n mod 10) = true /\ digit_val (48 + n mod 10) = n mod 10.
Proof.
  pose proof (N.mod_upper_bound n 10 ltac:(lia)) as H. revert H. generalize (n mod 10). intros r H.
  unfold is_ascii_digit, digit_val. split; [|lia].
  apply andb_true_iff. split; apply N.leb_le; lia.
Qed.

Lemma show_N_aux_spec k : forall n acc, n < 2 ^ N.of_nat k ->
  exists ds, show_N_aux (S k) n acc = ds ++ acc /\ decimal_of n ds.
Proof.
  induction k as [|k IH]; intros n acc Hn.
  - change (2 ^ N.of_nat 0) with 1 in Hn. assert (n = 0) by lia. subst n.
    exists [48]. split; [reflexivity|]. unfold decimal_of. split; [discriminate|]. split; [reflexivity|].
    split; [|split; [congruence|reflexivity]].
    intros maxv Hm. cbn [parse_digits]. change (is_ascii_digit 48) with true. cbv iota.
    change (0 * 10 + digit_val 48) with 0. destruct (N.leb_spec 0 maxv); [reflexivity|lia].
  - cbn [show_N_aux]. destruct (N.eqb_spec (n / 10) 0) as [Hz|Hz].
    + exists [48 + n mod 10]. split; [reflexivity|].
      assert (Hlt : n < 10) by (apply N.div_small_iff in Hz; lia).
      rewrite (N.mod_small n 10) by lia.
      assert (Hdg : is_ascii_digit (48 + n) = true)
        by (unfold is_ascii_digit; apply andb_true_iff; split; apply N.leb_le; lia).
      unfold decimal_of. split; [discriminate|]. split; [cbn [forallb]; now rewrite Hdg|].
      split; [|split].
      * intros maxv Hm. cbn [parse_digits]. rewrite Hdg. unfold digit_val.
        replace (0 * 10 + (48 + n - 48)) with n by lia.
        destruct (N.leb_spec n maxv); [reflexivity|lia].
      * cbn [hd]. lia.
      * intros ->. reflexivity.
    + assert (Hk : n / 10 < 2 ^ N.of_nat k).
      { rewrite Nat2N.inj_succ, N.pow_succ_r' in Hn.
        assert (n / 10 <= n / 2) by (apply N.div_le_compat_l; lia).
        assert (n / 2 < 2 ^ N.of_nat k) by (apply N.div_lt_upper_bound; lia). lia. }
      destruct (IH (n / 10) ((48 + n mod 10) :: acc) Hk) as (ds & E & (D1 & D2 & D3 & D4 & D5)).
      exists (ds ++ [48 + n mod 10]). split.
      * rewrite <- app_assoc. cbn [app]. exact E.
      * destruct (digit_char_ok n) as [Hd Hv].
        unfold decimal_of. split; [destruct ds; discriminate|]. split; [|split; [|split]].
        -- rewrite forallb_app, D2. cbn [forallb]. now rewrite Hd.
        -- intros maxv Hm. rewrite parse_digits_snoc.
           assert (Hdiv : n = n / 10 * 10 + n mod 10) by (rewrite N.mul_comm; apply N.div_mod; lia).
           assert (Hle : n / 10 <= n) by (apply N.div_le_upper_bound; lia).
           rewrite (D3 maxv) by lia. rewrite Hd, Hv, <- Hdiv.
           destruct (N.leb_spec n maxv); [reflexivity|lia].
        -- intros _. destruct ds as [|d ds]; [contradiction|]. cbn [app hd]. apply (D4 Hz).
        -- intros ->. exfalso. apply Hz. reflexivity.
Qed.

Lemma show_N_decimal n : decimal_of n (show_N n).
Proof.
  unfold show_N.
  destruct (show_N_aux_spec (N.to_nat (N.size n)) n []) as (ds & E & D).
  - rewrite N2Nat.id. apply N.size_gt.
  - rewrite E, app_nil_r. exact D.
Qed.

Lemma show_N_nonempty n : nonempty (show_N n) = true.
Proof. destruct (show_N_decimal n) as (H & _). destruct (show_N n); [contradiction|reflexivity]. Qed.
Lemma show_N_digits n : forallb is_ascii_digit (show_N n) = true.
Proof. apply show_N_decimal. Qed.
Lemma show_N_no_leading_zero n : n <> 0 -> hd 0 (show_N n) <> 48.
Proof. apply show_N_decimal. Qed.
Lemma show_N_0 : show_N 0 = [48].
Proof. reflexivity. Qed.
Lemma show_N_parse_digits n maxv : n <= maxv -> parse_digits maxv 0 (show_N n) = Some n.
Proof. apply show_N_decimal. Qed.

Lemma parse_dec_show_N n : n <= 2^200 -> parse_dec (show_N n) = Some n.
Proof. intros H. rewrite parse_dec_digits by apply show_N_nonempty. now apply show_N_parse_digits. Qed.
Lemma parse_u32_show_N n : n < 2^32 -> parse_u32 (show_N n) = Some n.
Proof.
  intros H. unfold parse_u32. rewrite parse_unsigned_digits by (apply show_N_nonempty || apply show_N_digits).
  apply show_N_parse_digits. change (2^32) with 4294967296 in H. lia.
Qed.
Lemma parse_u64_show_N n : n < 2^64 -> parse_u64 (show_N n) = Some n.
Proof.
  intros H. unfold parse_u64. rewrite parse_unsigned_digits by (apply show_N_nonempty || apply show_N_digits).
  apply show_N_parse_digits. change (2^64) with 18446744073709551616 in H. lia.
Qed.

Lemma show_N_inj n m : show_N n = show_N m -> n = m.
Proof.
  intros E. pose proof (show_N_parse_digits n (N.max n m) ltac:(lia)) as H1.
  pose proof (show_N_parse_digits m (N.max n m) ltac:(lia)) as H2. rewrite E in H1. congruence.
Qed.

Lemma is_ascii_digit_range c : is_ascii_digit c = true <-> 48 <= c <= 57.
Proof. unfold is_ascii_digit. rewrite andb_true_iff, !N.leb_le. tauto. Qed.

(* a decimal rendering contains no separator character (anything that is not a digit) *)
Lemma show_N_notin c n : is_ascii_digit c = false -> ~ In c (show_N n).
Proof.
  intros Hc Hin. pose proof (show_N_digits n) as H. rewrite forallb_forall in H. rewrite (H c Hin) in Hc. discriminate.
Qed.

(* the decimal text of a value is unique: digits, no leading zero, same value  ==>  same text *)
Lemma parse_digits_pos m c r n : is_ascii_digit c = true -> c <> 48 -> parse_digits m 0 (c :: r) = Some n -> 1 <= n.
Proof.
  intros Hc Hne. cbn [parse_digits]. rewrite Hc. destruct (_ <=? m); [|discriminate].
  intros H. apply parse_digits_ge in H. apply is_ascii_digit_range in Hc. unfold digit_val in H. lia.
Qed.

Lemma decimal_unique m ds : forall es n,
  forallb is_ascii_digit ds = true -> forallb is_ascii_digit es = true ->
  hd 0 ds <> 48 -> hd 0 es <> 48 ->
  parse_digits m 0 ds = Some n -> parse_digits m 0 es = Some n -> ds = es.
Proof.
  induction ds as [|d ds IH] using rev_ind; intros es n Hd He Nd Ne H1 H2.
  - cbn in H1. injection H1 as <-. destruct es as [|e es]; [reflexivity|].
    cbn [forallb] in He. apply andb_true_iff in He as [He _]. cbn [hd] in Ne.
    pose proof (parse_digits_pos _ _ _ _ He Ne H2). lia.
  - destruct es as [|e es _] using rev_ind.
    + cbn in H2. injection H2 as <-. destruct ds as [|d0 ds]; cbn [app] in *.
      * cbn [forallb] in Hd. apply andb_true_iff in Hd as [Hd _]. pose proof (parse_digits_pos _ _ _ _ Hd Nd H1). lia.
      * cbn [forallb] in Hd. apply andb_true_iff in Hd as [Hd _]. pose proof (parse_digits_pos _ _ _ _ Hd Nd H1). lia.
    + rewrite forallb_app in Hd, He. cbn [forallb] in Hd, He.
      apply andb_true_iff in Hd as [Hd Hdc]. apply andb_true_iff in He as [He Hec].
      rewrite andb_true_r in Hdc, Hec.
      rewrite parse_digits_snoc in H1, H2. rewrite Hdc in H1. rewrite Hec in H2.
      destruct (parse_digits m 0 ds) as [v|] eqn:E1; [|discriminate].
      destruct (parse_digits m 0 es) as [u|] eqn:E2; [|discriminate].
      destruct (_ <=? m); [|discriminate]. destruct (_ <=? m); [|discriminate].
      injection H1 as H1. injection H2 as H2.
      apply is_ascii_digit_range in Hdc, Hec. unfold digit_val in *.
      assert (v = u /\ d = e) as [-> ->] by lia.
      f_equal. apply (IH es u); try assumption; try reflexivity.
      * destruct ds; [cbn; lia|exact Nd].
      * destruct es; [cbn; lia|exact Ne].
Qed.

(* rendering the value of a canonical decimal text gives the text back *)
Lemma show_N_parse_dec h n : forallb is_ascii_digit h = true -> (h = [48] \/ hd 0 h <> 48) ->
  parse_dec h = Some n -> show_N n = h.
Proof.
  intros Hd Hz Hp. destruct Hz as [->|Hz].
  - cbn in Hp. injection Hp as <-. reflexivity.
  - destruct h as [|c r]; [discriminate|]. rewrite parse_dec_digits in Hp by reflexivity.
    assert (Hc : is_ascii_digit c = true) by (cbn [forallb] in Hd; now apply andb_true_iff in Hd as [? _]).
    pose proof (parse_digits_pos _ _ _ _ Hc Hz Hp) as Hpos.
    set (m := N.max n (2^200)).
    apply (decimal_unique m) with (n := n).
    + apply show_N_digits.
    + exact Hd.
    + apply show_N_no_leading_zero. lia.
    + exact Hz.
    + apply show_N_parse_digits. lia.
    + eapply parse_digits_mono; [|exact Hp]. lia.
Qed.

(* Proofs/ChessGame.v : chess as an instance of the abstract game of Spec/Minimax.v (property C08).

     pos           := board (Model/Board.v)
     succs b       := [b' | m in gen_pseudo T b, make b m = Some b', is_valid T b' = true]      (generation order)
     noisy_succs b := the same over gen_nonquiet T b, on SANE boards (see below); [] on a board that is not sane
     noisy_any b   := is_any_move_non_quiescent (gen_pseudo T b)
     static b      := heuristic_factor (turn b) * evaluate T b true
     terminal b    := heuristic_factor (turn b) * evaluate T b false
     qmeasure b    := (number of pieces) + (number of pawns), as a sum of the popcounts of the 12 piece boards

   Why the guard on noisy_succs.  The hypotheses of Spec/Minimax.v quantify over ALL positions.  On a board whose
   e.p. square is bogus (no pawn behind it: accepted by the FEN reader, see C03_bogus_ep_still_restored) the capture
   generator emits an "e.p. capture" that removes nothing, so neither [qmeasure_dec] nor [noisy_any_ok] holds for the
   unguarded list.  [sane] = ZobristProofs.good = wf && castle_wf && ep_wf is an invariant of play from the start
   position; on sane boards the guarded and the raw list coincide ([noisy_succs_sane]).

   Proved here, for every table set with [gen_masks_ok T = true] (true for the generated tables):
     chess_noisy_sub, chess_qmeasure_dec, chess_noisy_any_ok      -- the Section hypotheses of Spec/Minimax.v
     qmeasure_lt_qfuel : wf b = true -> qmeasure b < qfuel b       -- the engine's capture-search fuel suffices *)
Require Import Ink.Lib.Str.
Require Import NArith ZArith List Bool Lia Arith Permutation.
Require Import Ink.Lib.Bits Ink.Model.Tables Ink.Model.Board Ink.Model.Heuristic Ink.Model.Search.
Require Ink.Spec.Minimax.
Require Ink.Proofs.AbsProofs Ink.Proofs.MakeUnmake.
Require Import Ink.Proofs.BitFacts Ink.Proofs.ZobristProofs Ink.Proofs.SearchProofs.
Import ListNotations.
Open Scope N_scope.

Arguments N.add : simpl never.
Arguments N.sub : simpl never.
Arguments N.mul : simpl never.
Arguments N.div : simpl never.
Arguments N.modulo : simpl never.
Arguments N.eqb : simpl never.
Arguments N.ltb : simpl never.
Arguments N.leb : simpl never.
Arguments N.lor : simpl never.
Arguments N.land : simpl never.
Arguments N.ldiff : simpl never.
Arguments N.shiftl : simpl never.
Arguments N.shiftr : simpl never.
Arguments N.testbit : simpl never.
Arguments Z.add : simpl never.
Arguments Z.mul : simpl never.
Arguments Z.opp : simpl never.

(* ================================================================== *)
(* popcount facts                                                     *)

Lemma NoDup_app_disj {A} (l1 l2 : list A) :
  NoDup l1 -> NoDup l2 -> (forall x, In x l1 -> ~ In x l2) -> NoDup (l1 ++ l2).
Proof.
  induction l1 as [|a r IH]; intros H1 H2 Hd; cbn [app]; [exact H2|].
  inversion H1 as [|? ? Ha Hr]; subst. constructor.
  - rewrite in_app_iff. intros [H|H]; [now apply Ha|]. apply (Hd a); [now left|exact H].
  - apply IH; [exact Hr|exact H2|]. intros x Hx. apply Hd. now right.
Qed.

Lemma popcount_length' n : popcount n = N.of_nat (length (bits_of n)).
Proof. apply AbsProofs.popcount_length. Qed.

Lemma popcount_lor_disj a b : N.land a b = 0 -> popcount (N.lor a b) = popcount a + popcount b.
Proof.
  intros Hd. rewrite !popcount_length'. rewrite <- Nat2N.inj_add, <- app_length. f_equal.
  apply Permutation_length. apply NoDup_Permutation.
  - apply bits_of_NoDup.
  - apply NoDup_app_disj; try apply bits_of_NoDup.
    intros x Ha Hb. rewrite bits_of_spec in Ha, Hb.
    assert (E : N.testbit (N.land a b) x = true) by (rewrite N.land_spec, Ha, Hb; reflexivity).
    rewrite Hd, N.bits_0 in E. discriminate.
  - intros x. rewrite in_app_iff, !bits_of_spec, N.lor_spec. apply orb_true_iff.
Qed.

Lemma popcount_clear_set x s : N.testbit x s = true -> popcount (clear x (bit s)) + 1 = popcount x.
Proof.
  intros H. rewrite !popcount_length'. rewrite (Permutation_length (bits_of_clear_perm x s H)).
  cbn [length]. lia.
Qed.

Lemma popcount_clear_le x s : popcount (clear x (bit s)) <= popcount x.
Proof.
  destruct (N.testbit x s) eqn:E.
  - pose proof (popcount_clear_set x s E). lia.
  - rewrite clear_absent by exact E. lia.
Qed.

Lemma popcount_set_le x t : popcount (N.lor x (bit t)) <= popcount x + 1.
Proof.
  destruct (N.testbit x t) eqn:E.
  - rewrite set_present by exact E. lia.
  - rewrite !popcount_length'. rewrite (Permutation_length (bits_of_set_perm x t E)). cbn [length]. lia.
Qed.


(* ================================================================== *)
(* the measure: pieces + pawns                                         *)

Definition cnt (p : pstate) : N :=
  popcount (pawns p) + popcount (pawns p) + popcount (knights p) + popcount (bishops p)
  + popcount (rooks p) + popcount (queens p) + popcount (kings p).

Definition bmeasure (b : board) : N := cnt (white b) + cnt (black b).
Definition qmeasure (b : board) : nat := N.to_nat (bmeasure b).

Definition wgt (x : N) : N := if x =? PAWN then 2 else 1.

Ltac six_cases x Hx :=
  let H := fresh in
  assert (H : x = 1 \/ x = 2 \/ x = 3 \/ x = 4 \/ x = 5 \/ x = 6) by lia;
  destruct H as [-> |[-> |[-> |[-> |[-> | ->]]]]].

Lemma cnt_set_occ p x v : 1 <= x <= 6 ->
  cnt (set_occ p x v) + wgt x * popcount (occ_of p x) = cnt p + wgt x * popcount v.
Proof.
  intros Hx. six_cases x Hx; unfold cnt; cbv [set_occ occ_of]; cbn [pawns knights bishops rooks queens kings];
    [replace (wgt 1) with 2 by reflexivity|replace (wgt 2) with 1 by reflexivity|replace (wgt 3) with 1 by reflexivity
    |replace (wgt 4) with 1 by reflexivity|replace (wgt 5) with 1 by reflexivity|replace (wgt 6) with 1 by reflexivity]; lia.
Qed.

Lemma set_occ_out p x v : ~ (1 <= x <= 6) -> set_occ p x v = p.
Proof.
  intros Hx. destruct x as [|q]; [reflexivity|]. do 3 (try destruct q as [q|q|]); try reflexivity; exfalso; apply Hx; lia.
Qed.

Lemma cnt_set_rights p q k : cnt (set_rights p q k) = cnt p.
Proof. reflexivity. Qed.

Lemma wgt_pos x : 1 <= wgt x.
Proof. unfold wgt. destruct (x =? PAWN); lia. Qed.

Lemma cnt_clr_set p x s : 1 <= x <= 6 -> N.testbit (occ_of p x) s = true ->
  cnt (clr_occ p x (bit s)) + wgt x = cnt p.
Proof.
  intros Hx H. pose proof (cnt_set_occ p x (clear (occ_of p x) (bit s)) Hx) as E.
  pose proof (popcount_clear_set _ _ H) as E2. unfold clr_occ. nia.
Qed.

Lemma cnt_clr_le p x s : cnt (clr_occ p x (bit s)) <= cnt p.
Proof.
  unfold clr_occ. destruct (N.le_gt_cases 1 x) as [H1|H1]; [destruct (N.le_gt_cases x 6) as [H2|H2]|].
  - pose proof (cnt_set_occ p x (clear (occ_of p x) (bit s)) (conj H1 H2)) as E.
    pose proof (popcount_clear_le (occ_of p x) s). pose proof (wgt_pos x). nia.
  - rewrite set_occ_out by lia. lia.
  - rewrite set_occ_out by lia. lia.
Qed.

Lemma cnt_or_le p x t : cnt (or_occ p x (bit t)) <= cnt p + wgt x.
Proof.
  unfold or_occ. destruct (N.le_gt_cases 1 x) as [H1|H1]; [destruct (N.le_gt_cases x 6) as [H2|H2]|].
  - pose proof (cnt_set_occ p x (N.lor (occ_of p x) (bit t)) (conj H1 H2)) as E.
    pose proof (popcount_set_le (occ_of p x) t). pose proof (wgt_pos x). nia.
  - rewrite set_occ_out by lia. lia.
  - rewrite set_occ_out by lia. lia.
Qed.

Lemma bmeasure_active_passive b : bmeasure b = cnt (active b) + cnt (passive b).
Proof. unfold bmeasure, active, passive. destruct (is_white_turn b); lia. Qed.

Lemma bmeasure_assemble wt a p t e f h : bmeasure (MakeUnmake.assemble wt a p t e f h) = cnt a + cnt p.
Proof. unfold bmeasure, MakeUnmake.assemble. destruct wt; cbn [white black]; lia. Qed.

Lemma piece_at_full p t : N.testbit (full_occ p) t = true -> piece_at p t <> NO_PIECE.
Proof.
  intros H E. destruct (piece_at_spec p t) as [_|[Hr _]]; [|rewrite E in Hr; unfold NO_PIECE in Hr; lia].
  revert E. unfold piece_at, piece_at_mask. rewrite !nz_land_bit.
  unfold full_occ in H. rewrite !N.lor_spec in H.
  destruct (N.testbit (pawns p) t); [discriminate|]. destruct (N.testbit (knights p) t); [discriminate|].
  destruct (N.testbit (bishops p) t); [discriminate|]. destruct (N.testbit (rooks p) t); [discriminate|].
  destruct (N.testbit (queens p) t); [discriminate|]. destruct (N.testbit (kings p) t); [discriminate|].
  discriminate H.
Qed.

Lemma piece_at_pawn p t : N.testbit (pawns p) t = true -> piece_at p t = PAWN.
Proof. intros H. unfold piece_at, piece_at_mask. rewrite nz_land_bit, H. reflexivity. Qed.

(* ---- the three kinds of non-quiet move lower the measure ---- *)
Lemma measure_ordinary b m b' :
  castle m = false -> ep_attack m = false -> promo m = NO_PIECE -> 1 <= piece_moved m <= 6 ->
  N.testbit (occ_of (active b) (piece_moved m)) (src m) = true ->
  piece_attacked m = piece_at (passive b) (dst m) -> is_attack m = true ->
  make b m = Some b' -> bmeasure b' < bmeasure b.
Proof.
  intros Hc He Hp Hpm Hs Hpa Hatt Hmk. rewrite MakeUnmake.make_split in Hmk. unfold MakeUnmake.sides_make in Hmk.
  rewrite Hc, He, Hp in Hmk. change (negb (NO_PIECE =? NO_PIECE)) with false in Hmk. cbv iota zeta in Hmk.
  injection Hmk as <-. rewrite bmeasure_assemble, bmeasure_active_passive.
  set (act1 := set_rights (active b) _ _). set (pas1 := set_rights (passive b) _ _).
  pose proof (cnt_or_le (clr_occ act1 (piece_moved m) (bit (src m))) (piece_moved m) (dst m)) as A1.
  pose proof (cnt_clr_set act1 (piece_moved m) (src m) Hpm Hs) as A2.
  change (cnt act1) with (cnt (active b)) in A2.
  unfold is_attack in Hatt. rewrite Hpa in Hatt. apply negb_true_iff, N.eqb_neq in Hatt.
  destruct (piece_at_spec (passive b) (dst m)) as [E|[Hr Ht]]; [contradiction|].
  rewrite Hpa. pose proof (cnt_clr_set pas1 _ (dst m) Hr Ht) as P1.
  change (cnt pas1) with (cnt (passive b)) in P1. pose proof (wgt_pos (piece_at (passive b) (dst m))). lia.
Qed.

Lemma measure_promo b m b' :
  castle m = false -> ep_attack m = false -> 2 <= promo m <= 6 ->
  N.testbit (pawns (active b)) (src m) = true ->
  make b m = Some b' -> bmeasure b' < bmeasure b.
Proof.
  intros Hc He Hp Hs Hmk. rewrite MakeUnmake.make_split in Hmk. unfold MakeUnmake.sides_make in Hmk.
  rewrite Hc, He in Hmk. assert (E0 : (promo m =? NO_PIECE) = false) by (apply N.eqb_neq; unfold NO_PIECE; lia).
  rewrite E0 in Hmk. cbn [negb] in Hmk. cbv iota zeta in Hmk.
  injection Hmk as <-. rewrite bmeasure_assemble, bmeasure_active_passive.
  set (act1 := set_rights (active b) _ _). set (pas1 := set_rights (passive b) _ _).
  pose proof (cnt_or_le (clr_occ act1 PAWN (bit (src m))) (promo m) (dst m)) as A1.
  assert (HP : 1 <= PAWN <= 6) by (unfold PAWN; lia).
  pose proof (cnt_clr_set act1 PAWN (src m) HP Hs) as A2.
  change (cnt act1) with (cnt (active b)) in A2.
  pose proof (cnt_clr_le pas1 (piece_attacked m) (dst m)) as P1. change (cnt pas1) with (cnt (passive b)) in P1.
  assert (W1 : wgt (promo m) = 1).
  { unfold wgt. destruct (N.eqb_spec (promo m) PAWN) as [E|E]; [unfold PAWN in E; lia|reflexivity]. }
  replace (wgt PAWN) with 2 in A2 by reflexivity. lia.
Qed.

Lemma measure_ep b m b' :
  wf b = true -> ep_wf b = true -> ep b <> NO_SQUARE ->
  castle m = false -> ep_attack m = true -> dst m = ep b ->
  N.testbit (pawns (active b)) (src m) = true ->
  make b m = Some b' -> bmeasure b' < bmeasure b.
Proof.
  intros Hwf Hew Hne Hc He Hd Hs Hmk. rewrite MakeUnmake.make_split in Hmk. unfold MakeUnmake.sides_make in Hmk.
  rewrite Hc, He in Hmk. cbv iota zeta in Hmk.
  injection Hmk as <-. rewrite bmeasure_assemble, bmeasure_active_passive.
  set (act1 := set_rights (active b) _ _). set (pas1 := set_rights (passive b) _ _).
  pose proof (cnt_or_le (clr_occ act1 PAWN (bit (src m))) PAWN (dst m)) as A1.
  assert (HP : 1 <= PAWN <= 6) by (unfold PAWN; lia).
  pose proof (cnt_clr_set act1 PAWN (src m) HP Hs) as A2.
  change (cnt act1) with (cnt (active b)) in A2.
  assert (V : exists v, (if is_white_turn b then w64 (N.shiftl (bit (dst m)) 8) else N.shiftr (bit (dst m)) 8) = bit v
                        /\ N.testbit (pawns (passive b)) v = true).
  { unfold ep_wf in Hew. apply N.eqb_neq in Hne. rewrite Hne in Hew. cbn [orb] in Hew.
    rewrite Hd. unfold passive, is_white_turn. destruct (turn b =? WHITE).
    - apply andb_true_iff in Hew as [A B]. apply N.ltb_lt in A. exists (ep b + 8). split; [now apply shiftl_bit_8|exact B].
    - apply andb_true_iff in Hew as [A B]. apply N.leb_le in A. exists (ep b - 8). split; [now apply shiftr_bit_8|exact B]. }
  destruct V as (v & -> & Hv).
  pose proof (cnt_clr_set pas1 PAWN v HP Hv) as P1.
  change (cnt pas1) with (cnt (passive b)) in P1. replace (wgt PAWN) with 2 in * by reflexivity. lia.
Qed.

(* ================================================================== *)
(* the game                                                            *)
Section Chess.
Variable T : Tables.t.

(* positions reached by the moves of [ms] that pass `is_valid`, in the order of [ms] *)
Fixpoint children (b : board) (ms : list move) : list board :=
  match ms with
  | [] => []
  | m :: r => match make b m with
              | Some b' => if is_valid T b' then b' :: children b r else children b r
              | None => children b r
              end
  end.

Definition sane (b : board) : bool := ZobristProofs.good b.

Definition succs (b : board) : list board := children b (gen_pseudo T b).
Definition noisy_succs_raw (b : board) : list board := children b (gen_nonquiet T b).
Definition noisy_succs (b : board) : list board := if sane b then noisy_succs_raw b else [].
Definition noisy_any (b : board) : bool := is_any_move_non_quiescent (gen_pseudo T b).
Definition static (b : board) : Z := (heuristic_factor (turn b) * evaluate T b true)%Z.
Definition terminal (b : board) : Z := (heuristic_factor (turn b) * evaluate T b false)%Z.

Lemma noisy_succs_sane b : sane b = true -> noisy_succs b = noisy_succs_raw b.
Proof. unfold noisy_succs. now intros ->. Qed.

Lemma children_in b ms q : In q (children b ms) <-> exists m, In m ms /\ make b m = Some q /\ is_valid T q = true.
Proof.
  induction ms as [|m r IH]; cbn [children In].
  - split; [intros []|intros (m & [] & _)].
  - destruct (make b m) as [b'|] eqn:Em.
    + destruct (is_valid T b') eqn:Ev; cbn [In]; rewrite IH; split.
      * intros [<-|(m' & H1 & H2)]; [exists m; auto|exists m'; tauto].
      * intros (m' & [<-|H1] & H2 & H3); [left; congruence|right; exists m'; auto].
      * intros (m' & H1 & H2); exists m'; tauto.
      * intros (m' & [<-|H1] & H2 & H3); [congruence|exists m'; auto].
    + rewrite IH; split.
      * intros (m' & H1 & H2); exists m'; tauto.
      * intros (m' & [<-|H1] & H2 & H3); [congruence|exists m'; auto].
Qed.

Lemma children_app b l1 l2 : children b (l1 ++ l2) = children b l1 ++ children b l2.
Proof.
  induction l1 as [|m r IH]; cbn [app children]; [reflexivity|].
  destruct (make b m) as [b'|]; [destruct (is_valid T b')|]; cbn [app]; now rewrite IH.
Qed.

Lemma children_perm b l l' : Permutation l l' -> Permutation (children b l) (children b l').
Proof.
  induction 1 as [|m l l' _ IH|x y l|l l' l'' _ IH1 _ IH2]; cbn [children].
  - constructor.
  - destruct (make b m) as [b'|]; [destruct (is_valid T b')|]; [now constructor|exact IH|exact IH].
  - destruct (make b x) as [bx|]; [destruct (is_valid T bx)|]; (destruct (make b y) as [by_|]; [destruct (is_valid T by_)|]);
      try apply Permutation_refl. apply perm_swap.
  - eapply Permutation_trans; eassumption.
Qed.

(* ---- every move of the capture generator is a capture, a promotion or an e.p. capture; none is a castling ---- *)
Lemma make_move_true_shape b s t pc ie pr epo m : In m (make_move T b true s t pc false ie pr epo) ->
  castle m = false /\ (is_attack m || is_promotion m) = true.
Proof.
  unfold make_move. cbv zeta. rewrite andb_true_r.
  match goal with |- context [if ?c then _ else _] => destruct c eqn:E end; [intros []|].
  intros [<-|[]]. split; [reflexivity|]. unfold is_attack, is_promotion. cbn [piece_attacked promo].
  rewrite <- negb_andb. rewrite E. reflexivity.
Qed.

Lemma gen_attacks_true_shape b s occ pc m : In m (gen_attacks T b true s occ pc) ->
  castle m = false /\ (is_attack m || is_promotion m) = true.
Proof. unfold gen_attacks. intros H. apply in_flat_map in H as (t & _ & H). now apply make_move_true_shape in H. Qed.

Lemma promotions_shape b s t m : In m (pawn_promotions T b s t) -> castle m = false /\ is_promotion m = true.
Proof.
  intros H. apply in_promotions in H as (q & Hq & ->). split; [reflexivity|].
  unfold is_promotion, mk_move. cbv zeta. cbn [promo]. apply negb_true_iff, N.eqb_neq. unfold NO_PIECE. lia.
Qed.

Definition noisy_shape (m : move) : Prop := castle m = false /\ (is_attack m || is_promotion m || ep_attack m) = true.

Lemma shape_of_ap m : castle m = false /\ (is_attack m || is_promotion m) = true -> noisy_shape m.
Proof. intros [H1 H2]. split; [exact H1|]. now rewrite H2. Qed.

Lemma nonquiet_shape b m : In m (gen_nonquiet T b) -> noisy_shape m.
Proof.
  unfold gen_nonquiet, gen_common. cbv zeta. rewrite !in_app_iff.
  assert (Hs : forall po ao fo lk pc, In m (sliding_moves T b true po ao fo lk pc) -> noisy_shape m).
  { intros po ao fo lk pc H. unfold sliding_moves in H. apply in_flat_map in H as (s & _ & H).
    apply shape_of_ap. now apply gen_attacks_true_shape in H. }
  assert (Hl : forall po ao tbl pc, In m (single_moves T b true po ao tbl pc) -> noisy_shape m).
  { intros po ao tbl pc H. unfold single_moves in H. apply in_flat_map in H as (s & _ & H).
    apply shape_of_ap. now apply gen_attacks_true_shape in H. }
  intros [H|[H|[H|[H|[H|[H|[H|H]]]]]]]; try (now eapply Hs; eauto); try (now eapply Hl; eauto).
  - (* pawn attacks *)
    unfold pawn_attacks in H. cbv zeta in H. apply in_flat_map in H as (s & _ & H).
    unfold gen_pawn_attacks in H. apply in_flat_map in H as (t & Ht & H). cbv zeta in H.
    rewrite bits_of_spec, testbit_clear_gen in Ht. apply andb_true_iff in Ht as [Ht _].
    rewrite N.land_spec in Ht. apply andb_true_iff in Ht as [_ Ht]. rewrite N.lor_spec in Ht.
    destruct (nz (N.land (bit t) (RANK_8 T)) || nz (N.land (bit t) (RANK_1 T))).
    + apply promotions_shape in H as [H1 H2]. split; [exact H1|]. rewrite H2. now rewrite orb_true_r.
    + rewrite make_move_nq in H. destruct H as [<-|[]]. split; [reflexivity|].
      destruct (N.eqb_spec t (ep b)) as [E|E].
      * change (ep_attack (mk_move T b s t PAWN false true NO_PIECE NO_SQUARE)) with true. apply orb_true_r.
      * apply orb_true_iff in Ht as [Ht|Ht].
        -- unfold is_attack. rewrite mk_move_attacked_noep.
           pose proof (piece_at_full _ _ Ht) as Hn. apply N.eqb_neq in Hn. rewrite Hn. reflexivity.
        -- rewrite testbit_clear_gen in Ht. apply andb_true_iff in Ht as [Ht _]. rewrite bit_spec in Ht.
           apply N.eqb_eq in Ht. contradiction.
  - (* pawn pushes *)
    unfold pawn_moves in H. cbv zeta in H. apply in_flat_map in H as (s & _ & H).
    destruct (nz _) in H; [destruct H|]. destruct (nz _) in H.
    + apply promotions_shape in H as [H1 H2]. split; [exact H1|]. rewrite H2. now rewrite orb_true_r.
    + apply in_app_iff in H as [H|H]; [apply shape_of_ap; now apply make_move_true_shape in H|].
      destruct (_ && _) in H; [|destruct H]. apply shape_of_ap. now apply make_move_true_shape in H.
Qed.

Hypothesis HT : gen_masks_ok T = true.

Lemma sane_elim b : sane b = true -> wf b = true /\ castle_wf b = true /\ ep_wf b = true.
Proof. unfold sane, ZobristProofs.good. intros H. apply andb_true_iff in H as [H H3]. apply andb_true_iff in H as [H1 H2]. auto. Qed.

(* a generated e.p. capture on a sane board takes a pawn *)
Lemma ep_move_attacks b s : sane b = true -> ep b <> NO_SQUARE ->
  piece_attacked (mk_move T b s (ep b) PAWN false true NO_PIECE NO_SQUARE) = PAWN.
Proof.
  intros Hs Hne. destruct (sane_elim b Hs) as (_ & _ & Hew). unfold ep_wf in Hew.
  apply N.eqb_neq in Hne. rewrite Hne in Hew. cbn [orb] in Hew.
  unfold mk_move. cbv zeta. cbn [piece_attacked]. unfold passive, is_white_turn.
  destruct (turn b =? WHITE); apply andb_true_iff in Hew as [_ B]; now apply piece_at_pawn.
Qed.

Lemma nonquiet_move_dec b m b' : sane b = true -> In m (gen_nonquiet T b) -> make b m = Some b' -> bmeasure b' < bmeasure b.
Proof.
  intros Hs Hin Hmk. destruct (sane_elim b Hs) as (Hwf & Hcw & Hew).
  destruct (nonquiet_shape b m Hin) as [Hc Hk].
  destruct (gen_pseudo_kind T b m Hwf Hcw HT (gen_nonquiet_incl T b m Hin))
    as [s t p epo -> Hp Hsrc Ht|s t q -> Hq Hsrc Ht|s -> Hne Hsrc Ht|s t rf rt -> Hl H1 H2 H3 H4].
  - change (ep_attack (mk_move T b s t p false false NO_PIECE epo)) with false in Hk.
    change (is_promotion (mk_move T b s t p false false NO_PIECE epo)) with false in Hk.
    rewrite !orb_false_r in Hk.
    eapply measure_ordinary; try exact Hmk; try reflexivity; try assumption. apply mk_move_attacked_noep.
  - eapply measure_promo; try exact Hmk; try reflexivity; try assumption. cbn [promo mk_move]. lia.
  - eapply measure_ep; try exact Hmk; try reflexivity; assumption.
  - discriminate Hc.
Qed.

(* ---- the Section hypotheses of Spec/Minimax.v ---- *)
Theorem chess_noisy_sub : Minimax.noisy_sub board succs noisy_succs.
Proof.
  intros p q. unfold noisy_succs, noisy_succs_raw, succs. destruct (sane p); [|intros []].
  rewrite !children_in. intros (m & H1 & H2). exists m. split; [now apply gen_nonquiet_incl|exact H2].
Qed.

Theorem chess_qmeasure_dec : Minimax.qmeasure_dec board noisy_succs qmeasure.
Proof.
  intros p q. unfold noisy_succs, noisy_succs_raw. destruct (sane p) eqn:Hs; [|intros []].
  rewrite children_in. intros (m & H1 & H2 & _). unfold qmeasure.
  pose proof (nonquiet_move_dec p m q Hs H1 H2). lia.
Qed.

Theorem chess_noisy_any_ok : Minimax.noisy_any_ok board noisy_succs noisy_any.
Proof.
  intros p Hn. unfold noisy_succs, noisy_succs_raw. destruct (sane p) eqn:Hs; [|reflexivity].
  destruct (gen_nonquiet T p) as [|m r] eqn:E; [reflexivity|]. exfalso.
  assert (Hin : In m (gen_nonquiet T p)) by (rewrite E; now left).
  destruct (sane_elim p Hs) as (Hwf & Hcw & Hew).
  pose proof (gen_nonquiet_incl T p m Hin) as Hps.
  assert (Hq : (is_attack m || is_promotion m) = true).
  { destruct (nonquiet_shape p m Hin) as [Hc Hk].
    destruct (ep_attack m) eqn:Ee; [|now rewrite orb_false_r in Hk].
    destruct (gen_pseudo_kind T p m Hwf Hcw HT Hps)
      as [s t pc epo -> _ _ _|s t q -> _ _ _|s -> Hne _ _|s t rf rt -> _ _ _ _ _]; try discriminate Ee.
    unfold is_attack. rewrite (ep_move_attacks p s Hs Hne). reflexivity. }
  unfold noisy_any, is_any_move_non_quiescent in Hn.
  assert (Ht : existsb (fun m0 => is_attack m0 || is_promotion m0) (gen_pseudo T p) = true).
  { apply existsb_exists. exists m. split; assumption. }
  rewrite Ht in Hn. discriminate.
Qed.

End Chess.

(* ================================================================== *)
(* the engine's fuel for the capture search is enough: qmeasure b < qfuel b on well-formed boards *)
Fixpoint sumpop (l : list N) : N := match l with [] => 0 | x :: r => popcount x + sumpop r end.

Lemma disjoint_sum l : forall acc, disjoint_all acc l = true -> popcount (fold_left N.lor l acc) = popcount acc + sumpop l.
Proof.
  induction l as [|x r IH]; intros acc H; cbn [fold_left sumpop disjoint_all] in *; [lia|].
  apply andb_true_iff in H as [H1 H2]. apply N.eqb_eq in H1.
  rewrite (IH _ H2), (popcount_lor_disj _ _ H1). lia.
Qed.

Lemma all_occ_fold b : fold_left N.lor (bbs b) 0 = N.lor (full_occ (white b)) (full_occ (black b)).
Proof.
  unfold bbs, full_occ. cbn [fold_left]. apply N.bits_inj. intros i. rewrite !N.lor_spec, N.bits_0.
  destruct (N.testbit (pawns (white b)) i), (N.testbit (knights (white b)) i), (N.testbit (bishops (white b)) i),
           (N.testbit (rooks (white b)) i), (N.testbit (queens (white b)) i), (N.testbit (kings (white b)) i);
    cbn [orb]; try reflexivity;
  destruct (N.testbit (pawns (black b)) i), (N.testbit (knights (black b)) i), (N.testbit (bishops (black b)) i),
           (N.testbit (rooks (black b)) i), (N.testbit (queens (black b)) i), (N.testbit (kings (black b)) i); reflexivity.
Qed.

Theorem qmeasure_lt_qfuel b : wf b = true -> (qmeasure b < qfuel b)%nat.
Proof.
  intros Hwf. destruct (AbsProofs.wf_unpack b Hwf) as (_ & Hd & _).
  pose proof (disjoint_sum (bbs b) 0 Hd) as E. rewrite all_occ_fold in E.
  unfold qmeasure, qfuel, bmeasure, cnt. rewrite E. unfold bbs. cbn [sumpop popcount]. lia.
Qed.

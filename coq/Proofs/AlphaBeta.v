(* Proofs/AlphaBeta.v : soundness of the search core (Model/SearchCore.v) against Spec/Minimax.v.  Property C08.

   Part 1  quiescence     fst (qs_ab fuel p a b) = clamp a b (qs p)                 (fail hard)
   Part 2  negamax, no transposition table: fail-soft soundness, root exactness, best move, order independence,
           principal variation of an in-window result
   Part 3  negamax with transposition table: Proofs/AlphaBetaTT.v (generic proof), Proofs/AlphaBetaInst.v (instances),
           forced mates: Proofs/MateProofs.v. *)
Require Import NArith ZArith List Bool Lia Permutation.
Import ListNotations.
Require Import Ink.Spec.Minimax Ink.Model.SearchCore Ink.Proofs.MinimaxProofs.
Open Scope Z_scope.

Arguments Z.add : simpl never.
Arguments Z.sub : simpl never.
Arguments Z.mul : simpl never.
Arguments Z.opp : simpl never.
Arguments Z.max : simpl never.
Arguments Z.min : simpl never.
Arguments N.eqb : simpl never.

(* v result, x true value, (a, b) window: the fail-soft contract *)
Definition ok (v x a b : Z) : Prop :=
  (a < v < b -> v = x) /\ (v <= a -> x <= v) /\ (v >= b -> x >= v).

Definition clamp (a b x : Z) : Z := Z.max a (Z.min b x).

Lemma clamp_ok a b x : a < b -> ok (clamp a b x) x a b.
Proof. unfold ok, clamp. intros H. repeat split; intros; lia. Qed.

Lemma ok_refl x a b : ok x x a b.
Proof. unfold ok. repeat split; intros; lia. Qed.

(* a legal line: every element is related to its predecessor *)
Fixpoint chain {pos : Type} (R : pos -> pos -> Prop) (p : pos) (l : list pos) : Prop :=
  match l with [] => True | q :: r => R p q /\ chain R q r end.

Lemma chain_weaken {pos : Type} (R R' : pos -> pos -> Prop) : (forall p q, R p q -> R' p q) ->
  forall l p, chain R p l -> chain R' p l.
Proof. intros H. induction l as [|q r IH]; intros p; cbn [chain]; [trivial|]. intros [H1 H2]. split; auto. Qed.

(* ================================================================== *)
Section Game.
Variable pos : Type.
Variable succs : pos -> list pos.
Variable noisy_succs : pos -> list pos.
Variable noisy_any : pos -> bool.
Variable static : pos -> Z.
Variable terminal : pos -> Z.
Variable qmeasure : pos -> nat.
Variable W : Z.

Hypothesis Hsub : Minimax.noisy_sub pos succs noisy_succs.
Hypothesis Hdec : Minimax.qmeasure_dec pos noisy_succs qmeasure.

Local Notation maxneg := (Minimax.maxneg pos).
Local Notation qs := (Minimax.qs pos noisy_succs static qmeasure).
Local Notation horizon := (Minimax.horizon pos succs noisy_succs noisy_any static terminal qmeasure).
Local Notation nm := (Minimax.nm pos succs noisy_succs noisy_any static terminal qmeasure).
Local Notation qs_unfold := (MinimaxProofs.qs_unfold pos noisy_succs static qmeasure Hdec).

(* ------------------------------------------------------------------ *)
(* Part 1 : quiescence                                                  *)

Variable order_q : pos -> list pos -> list pos.
Hypothesis order_q_perm : forall p l, Permutation l (order_q p l).

Local Notation qloop := (SearchCore.qloop pos).
Local Notation qs_ab := (SearchCore.qs_ab pos noisy_succs static order_q).

Lemma qloop_clamp (f : pos -> Z -> Z -> res pos) (g : pos -> Z) (l : list pos) :
  (forall c a b, In c l -> a < b -> fst (f c a b) = clamp a b (g c)) ->
  forall alpha beta bpv, alpha < beta ->
  fst (qloop f l alpha beta bpv) = clamp alpha beta (maxneg g l alpha).
Proof.
  intros Hf. induction l as [|c r IH]; intros alpha beta bpv Hab; cbn [SearchCore.qloop Minimax.maxneg].
  - cbn [fst]. unfold clamp. lia.
  - assert (Hc : fst (f c (- beta) (- alpha)) = clamp (- beta) (- alpha) (g c)) by (apply Hf; [now left|lia]).
    remember (f c (- beta) (- alpha)) as fc eqn:Efc. clear Efc.
    assert (IH' : forall alpha beta bpv, alpha < beta ->
              fst (qloop f r alpha beta bpv) = clamp alpha beta (maxneg g r alpha)).
    { apply IH. intros c' a b Hin. apply Hf. now right. }
    pose proof (maxneg_ge pos g r (Z.max alpha (- g c))) as Hge.
    destruct (Z.geb_spec (- fst fc) beta) as [Hcut|Hcut].
    + cbn [fst]. unfold clamp in *. lia.
    + destruct (Z.gtb_spec (- fst fc) alpha) as [Hup|Hup].
      * rewrite IH' by lia.
        assert (E : - fst fc = Z.max alpha (- g c)) by (unfold clamp in Hc; lia).
        rewrite E. unfold clamp in *. lia.
      * rewrite IH' by lia.
        assert (E : Z.max alpha (- g c) = alpha) by (unfold clamp in Hc; lia).
        rewrite E. reflexivity.
Qed.

Lemma qs_ab_clamp : forall fuel p alpha beta, (qmeasure p <= fuel)%nat -> alpha < beta ->
  fst (qs_ab fuel p alpha beta) = clamp alpha beta (qs p).
Proof.
  induction fuel as [|k IH]; intros p alpha beta Hfuel Hab.
  - cbn [SearchCore.qs_ab].
    assert (Hnil : noisy_succs p = []).
    { destruct (noisy_succs p) as [|q r] eqn:E; [reflexivity|].
      pose proof (Hdec p q) as H. rewrite E in H. specialize (H (or_introl eq_refl)). lia. }
    rewrite (MinimaxProofs.qs_no_noisy pos noisy_succs static qmeasure Hdec p Hnil).
    destruct (Z.geb_spec (static p) beta) as [Hsp|Hsp]; cbn [fst]; unfold clamp; lia.
  - cbn [SearchCore.qs_ab].
    pose proof (MinimaxProofs.qs_ge_static pos noisy_succs static qmeasure Hdec p) as Hge.
    destruct (Z.geb_spec (static p) beta) as [Hsp|Hsp].
    + cbn [fst]. unfold clamp. lia.
    + rewrite (qloop_clamp (qs_ab k) qs).
      * rewrite <- (maxneg_perm pos qs _ _ (Z.max alpha (static p)) (order_q_perm p (noisy_succs p))).
        rewrite maxneg_max. rewrite <- qs_unfold.
        pose proof (maxneg_ge pos qs (noisy_succs p) alpha) as H1.
        pose proof (maxneg_le_max pos qs (noisy_succs p) alpha (static p)) as H2.
        rewrite <- qs_unfold in H2. unfold clamp. lia.
      * intros c a b Hin Hlt. apply IH; [|exact Hlt].
        apply (Permutation_in _ (Permutation_sym (order_q_perm p (noisy_succs p)))) in Hin.
        pose proof (Hdec p c Hin). lia.
      * lia.
Qed.

(* the fail-hard contract in words *)
Theorem qs_ab_sound : forall p alpha beta, alpha < beta ->
  let v := fst (qs_ab (qmeasure p) p alpha beta) in
  (alpha < v < beta -> v = qs p) /\
  (v <= alpha -> v = alpha /\ qs p <= alpha) /\
  (v >= beta -> v = beta /\ qs p >= beta).
Proof.
  intros p alpha beta Hab. cbv zeta. rewrite qs_ab_clamp by (auto; lia). unfold clamp.
  repeat split; intros; lia.
Qed.

(* the chain returned by quiescence is a line of legal captures / promotions *)
Definition noisy_step (p q : pos) : Prop := In q (noisy_succs p).
Definition legal_step (p q : pos) : Prop := In q (succs p).

Lemma qloop_chain (f : pos -> Z -> Z -> res pos) (p : pos) (l : list pos) :
  (forall c a b, In c l -> chain noisy_step c (snd (f c a b))) ->
  (forall c, In c l -> noisy_step p c) ->
  forall alpha beta bpv, chain noisy_step p bpv -> chain noisy_step p (snd (qloop f l alpha beta bpv)).
Proof.
  intros Hf Hl. induction l as [|c r IH]; intros alpha beta bpv Hb; cbn [SearchCore.qloop]; [exact Hb|].
  assert (IH' : forall alpha beta bpv, chain noisy_step p bpv -> chain noisy_step p (snd (qloop f r alpha beta bpv))).
  { apply IH; intros; [apply Hf|apply Hl]; now right. }
  assert (Hc : chain noisy_step p (c :: snd (f c (- beta) (- alpha)))).
  { cbn [chain]. split; [apply Hl; now left|apply Hf; now left]. }
  destruct (- fst (f c (- beta) (- alpha)) >=? beta); [exact Hc|].
  destruct (- fst (f c (- beta) (- alpha)) >? alpha); apply IH'; assumption.
Qed.

Lemma qs_ab_chain : forall fuel p alpha beta, chain noisy_step p (snd (qs_ab fuel p alpha beta)).
Proof.
  induction fuel as [|k IH]; intros p alpha beta; cbn [SearchCore.qs_ab];
    destruct (static p >=? beta); cbn [snd chain]; trivial.
  apply qloop_chain; [intros; apply IH| |exact I].
  intros c Hc. apply (Permutation_in _ (Permutation_sym (order_q_perm p (noisy_succs p)))) in Hc. exact Hc.
Qed.

(* ------------------------------------------------------------------ *)
(* Part 2 : negamax without transposition table                         *)

Variable order : list pos -> pos -> list pos -> list pos.
Hypothesis order_perm : forall path p l, Permutation l (order path p l).
Variable rep : list pos -> pos -> option Z.
Variable root_empty : pos -> bool.

(* C08 speaks about positions without repetition history: the repetition leaf never fires *)
Hypothesis no_rep : forall path p, rep path p = None.
(* all leaf values lie strictly inside (loss_score, win_score) *)
Hypothesis static_bound : forall p, - W < static p < W.
(* mate scores are -(W - fullmove): they are strictly inside the window only while the full-move number is in range,
   and that number grows along a line.  So the bound on terminal values is asked for the positions within the
   remaining depth only: [inb d p] = "p and everything within d plies below p is in range". *)
Variable inb : nat -> pos -> Prop.
Hypothesis inb_step : forall k p q, inb (S k) p -> In q (succs p) -> inb k q.
Hypothesis terminal_bound : forall d p, inb d p -> succs p = [] -> - W < terminal p < W.

Local Notation loop := (SearchCore.loop pos).
Local Notation horizon_ab := (SearchCore.horizon_ab pos succs noisy_succs noisy_any static terminal qmeasure order_q).
Local Notation negamax_ab :=
  (SearchCore.negamax_ab pos succs noisy_succs noisy_any static terminal W qmeasure order_q order rep root_empty).

Lemma nm_bound : forall d p, inb d p -> - W < nm d p < W.
Proof.
  induction d as [|k IH]; intros p Hin.
  - rewrite (MinimaxProofs.nm_0 pos succs). unfold Minimax.horizon, Minimax.nomoves.
    destruct (succs p) as [|c r] eqn:E; [now apply (terminal_bound 0%nat)|].
    destruct (noisy_any p); [|apply static_bound].
    pose proof (MinimaxProofs.qs_bounds pos noisy_succs static qmeasure (- (W - 1)) (W - 1)) as H.
    assert (H' : - (W - 1) <= qs p <= W - 1); [|lia].
    apply H; [intros q; pose proof (static_bound q); lia|lia].
  - destruct (succs p) as [|c r] eqn:E.
    + rewrite (MinimaxProofs.nm_nomoves pos succs) by exact E. now apply (terminal_bound (S k)).
    + assert (Hne : succs p <> []) by (rewrite E; discriminate).
      destruct (MinimaxProofs.nm_S_attained pos succs noisy_succs noisy_any static terminal qmeasure k p Hne)
        as (q & Hq & ->).
      pose proof (IH q (inb_step k p q Hin Hq)). lia.
Qed.

(* principal variation of an in-window result: every node on it has exactly the negated value of its parent, down
   to the horizon (the tail inside quiescence is not constrained here) *)
Fixpoint pvline (d : nat) (p : pos) (pv : list pos) (v : Z) : Prop :=
  v = nm d p /\
  match d with
  | O => True
  | S k => match succs p with
           | [] => pv = []
           | _ :: _ => exists q pv', pv = q :: pv' /\ In q (succs p) /\ pvline k q pv' (- v)
           end
  end.

Lemma pvline_S_intro k p q pv' v : v = nm (S k) p -> In q (succs p) -> pvline k q pv' (- v) ->
  pvline (S k) p (q :: pv') v.
Proof.
  intros Hv Hq Hl. cbn [pvline]. split; [exact Hv|].
  destruct (succs p) as [|c0 r0] eqn:E; [destruct Hq|]. exists q, pv'. repeat split; assumption.
Qed.

(* the move loop.  alpha0 = window bottom the node was entered with; the running alpha lies between alpha0 and
   max alpha0 best (it IS max alpha0 best after the first move); x0 = exact maximum over the children already
   processed (or the base value); b0 = initial best value (loss_score); PV = what is known about an in-window
   child result *)
Lemma loop_ok (f : pos -> Z -> Z -> res pos) (g : pos -> Z) (PV : pos -> res pos -> Prop) (Q : pos -> Prop) (l : list pos) :
  (forall c a b, In c l -> a < b ->
     ok (fst (f c a b)) (g c) a b /\ (a < fst (f c a b) < b -> PV c (f c a b))) ->
  (forall c, In c l -> Q c) ->
  forall alpha0 alpha beta best bpv x0 b0,
   alpha0 <= alpha <= Z.max alpha0 best -> alpha < beta -> b0 <= best ->
   ((alpha0 < best -> best = x0) /\ (best <= alpha0 -> x0 <= best)) ->
   (alpha0 < best -> b0 < best -> exists q child, bpv = q :: snd child /\ Q q /\ best = - fst child /\ PV q child) ->
   let R := loop f l alpha beta best bpv in
   ok (fst R) (maxneg g l x0) alpha0 beta /\
   (alpha0 < fst R < beta -> b0 < fst R ->
      exists q child, snd R = q :: snd child /\ Q q /\ fst R = - fst child /\ PV q child).
Proof.
  intros Hf HQ. induction l as [|c r IH]; intros alpha0 alpha beta best bpv x0 b0 Ha Hab Hb0 [H1 H2] Hpv;
    cbn [SearchCore.loop Minimax.maxneg]; cbv zeta.
  - cbn [fst snd]. split; [unfold ok; repeat split; intros; lia|]. intros Hin Hb. apply Hpv; lia.
  - destruct (Hf c (- beta) (- alpha) (or_introl eq_refl)) as [(C1 & C2 & C3) C4]; [lia|].
    remember (f c (- beta) (- alpha)) as fc eqn:Efc. clear Efc.
    assert (IH' : forall alpha0 alpha beta best bpv x0 b0,
      alpha0 <= alpha <= Z.max alpha0 best -> alpha < beta -> b0 <= best ->
      (alpha0 < best -> best = x0) /\ (best <= alpha0 -> x0 <= best) ->
      (alpha0 < best -> b0 < best -> exists q child, bpv = q :: snd child /\ Q q /\ best = - fst child /\ PV q child) ->
      ok (fst (loop f r alpha beta best bpv)) (maxneg g r x0) alpha0 beta /\
      (alpha0 < fst (loop f r alpha beta best bpv) < beta -> b0 < fst (loop f r alpha beta best bpv) ->
        exists q child, snd (loop f r alpha beta best bpv) = q :: snd child /\ Q q /\
                        fst (loop f r alpha beta best bpv) = - fst child /\ PV q child)).
    { apply IH; intros; [apply Hf|apply HQ]; try assumption; now right. }
    pose proof (maxneg_ge pos g r (Z.max x0 (- g c))) as Hge.
    destruct (Z.gtb_spec (- fst fc) best) as [Hv|Hv].
    + destruct (Z.geb_spec (Z.max alpha (- fst fc)) beta) as [Hcut|Hcut].
      * cbn [fst snd]. split; [unfold ok; repeat split; intros; lia|]. intros Hin. exfalso. lia.
      * apply IH'; [lia|lia|lia|split; intros; lia|].
        intros Hgt _. exists c, fc. repeat split; [apply HQ; now left|]. apply C4. lia.
    + destruct (Z.geb_spec (Z.max alpha best) beta) as [Hcut|Hcut].
      * cbn [fst snd]. split; [unfold ok; repeat split; intros; lia|]. intros Hin. exfalso. lia.
      * apply IH'; [lia|lia|lia|split; intros; lia|exact Hpv].
Qed.

Lemma horizon_ab_ok p alpha beta : alpha < beta -> ok (fst (horizon_ab p alpha beta)) (nm 0 p) alpha beta.
Proof.
  intros Hab. rewrite (MinimaxProofs.nm_0 pos succs). unfold SearchCore.horizon_ab, Minimax.horizon, Minimax.nomoves.
  destruct (succs p) as [|c r]; [apply ok_refl|].
  destruct (noisy_any p); [|apply ok_refl].
  rewrite qs_ab_clamp by (auto; lia). now apply clamp_ok.
Qed.

Definition root_ok (path : list pos) (p : pos) : Prop := path = [] -> root_empty p = false.

Local Notation is_root := (SearchCore.is_root pos).

Lemma root_guard path p : root_ok path p -> is_root path && root_empty p = false.
Proof.
  unfold root_ok. destruct path as [|x path]; cbn [SearchCore.is_root]; [intros H; now rewrite H|reflexivity].
Qed.

Lemma rep_leaf_none path p : SearchCore.rep_leaf pos rep path p = None.
Proof. unfold SearchCore.rep_leaf. destruct (is_root path); [reflexivity|apply no_rep]. Qed.

Theorem negamax_ab_sound_pv : forall d path p alpha beta, alpha < beta -> root_ok path p -> inb d p ->
  let R := negamax_ab d path p alpha beta in
  ok (fst R) (nm d p) alpha beta /\ (alpha < fst R < beta -> pvline d p (snd R) (fst R)).
Proof.
  induction d as [|k IH]; intros path p alpha beta Hab Hroot Hinb; cbv zeta.
  - cbn [SearchCore.negamax_ab]. rewrite rep_leaf_none, (root_guard path p Hroot).
    pose proof (horizon_ab_ok p alpha beta Hab) as H. split; [exact H|].
    intros Hin. cbn [pvline]. split; [|exact I]. now apply H.
  - cbn [SearchCore.negamax_ab]. rewrite rep_leaf_none, (root_guard path p Hroot).
    destruct (succs p) as [|c0 r0] eqn:E.
    + cbn [fst snd]. rewrite (MinimaxProofs.nm_nomoves pos succs) by exact E. split; [apply ok_refl|].
      intros _. cbn [pvline]. rewrite E. split; [|reflexivity].
      now rewrite (MinimaxProofs.nm_nomoves pos succs) by exact E.
    + assert (Hne : succs p <> []) by (rewrite E; discriminate). rewrite <- E.
      pose proof (order_perm path p (succs p)) as HP.
      assert (Enm : nm (S k) p = maxneg (nm k) (order path p (succs p)) (- W)).
      { rewrite <- (maxneg_perm pos (nm k) _ _ (- W) HP).
        apply (MinimaxProofs.nm_S_base pos succs); [exact Hne|]. intros q Hq. pose proof (nm_bound k q (inb_step k p q Hinb Hq)). lia. }
      rewrite Enm.
      destruct (loop_ok (negamax_ab k (p :: path)) (nm k)
                  (fun c rr => pvline k c (snd rr) (fst rr)) (fun c => In c (succs p)) (order path p (succs p)))
        with (alpha0 := alpha) (alpha := alpha) (beta := beta) (best := - W) (bpv := @nil pos) (x0 := - W) (b0 := - W)
        as [L1 L2].
      * intros c a b Hc Hlt. apply IH; [exact Hlt|unfold root_ok; discriminate|].
        apply (inb_step k p c Hinb). exact (Permutation_in _ (Permutation_sym HP) Hc).
      * intros c Hc. exact (Permutation_in _ (Permutation_sym HP) Hc).
      * lia.
      * exact Hab.
      * lia.
      * split; intros; lia.
      * intros; lia.
      * split; [exact L1|]. intros Hin.
        assert (Ev : fst (loop (negamax_ab k (p :: path)) (order path p (succs p)) alpha beta (- W) []) = nm (S k) p).
        { destruct L1 as (L1 & _). rewrite Enm. now apply L1. }
        destruct L2 as (q & child & E1 & E2 & E3 & E4); [exact Hin|rewrite Ev; pose proof (nm_bound (S k) p Hinb); lia|].
        rewrite E1. apply pvline_S_intro; [exact Ev|exact E2|]. rewrite E3, Z.opp_involutive. exact E4.
Qed.

Theorem negamax_ab_sound : forall d path p alpha beta, alpha < beta -> root_ok path p -> inb d p ->
  let v := fst (negamax_ab d path p alpha beta) in
  (alpha < v < beta -> v = nm d p) /\ (v <= alpha -> nm d p <= v) /\ (v >= beta -> nm d p >= v).
Proof. intros d path p alpha beta Hab Hroot Hinb. exact (proj1 (negamax_ab_sound_pv d path p alpha beta Hab Hroot Hinb)). Qed.

(* the root call of best_move(): window (loss_score, win_score) *)
Theorem root_exact : forall d p, root_empty p = false -> inb d p ->
  let R := negamax_ab d [] p (- W) W in
  fst R = nm d p /\ pvline d p (snd R) (fst R).
Proof.
  intros d p Hre Hinb. cbv zeta. pose proof (nm_bound d p Hinb) as HB.
  destruct (negamax_ab_sound_pv d [] p (- W) W) as [(O1 & O2 & O3) Hpv]; [lia|intros _; exact Hre|exact Hinb|].
  remember (negamax_ab d [] p (- W) W) as R eqn:ER. clear ER.
  assert (Hin : - W < fst R < W).
  { destruct (Z.le_gt_cases (fst R) (- W)) as [H|H]; [specialize (O2 H); lia|].
    destruct (Z.le_gt_cases W (fst R)) as [H'|H']; [assert (H'' : fst R >= W) by lia; specialize (O3 H''); lia|lia]. }
  split; [now apply O1|now apply Hpv].
Qed.

(* ... and the announced move attains the value *)
Theorem root_best_move : forall k p, root_empty p = false -> inb (S k) p -> succs p <> [] ->
  let R := negamax_ab (S k) [] p (- W) W in
  exists q pv', snd R = q :: pv' /\ In q (succs p) /\ - nm k q = nm (S k) p /\ fst R = nm (S k) p.
Proof.
  intros k p Hre Hinb Hne. cbv zeta. destruct (root_exact (S k) p Hre Hinb) as [Ev Hpv].
  cbn [pvline] in Hpv. destruct Hpv as [_ Hpv]. destruct (succs p) as [|c0 r0] eqn:E; [contradiction|].
  destruct Hpv as (q & pv' & E1 & E2 & E3). exists q, pv'. repeat split; try assumption.
  destruct k; cbn [pvline] in E3; destruct E3 as [E3 _]; rewrite <- E3, Ev; lia.
Qed.

(* the chain is a line of legal moves, whatever the window *)
Lemma loop_chain (f : pos -> Z -> Z -> res pos) (p : pos) (l : list pos) :
  (forall c a b, In c l -> chain legal_step c (snd (f c a b))) ->
  (forall c, In c l -> legal_step p c) ->
  forall alpha beta best bpv, chain legal_step p bpv -> chain legal_step p (snd (loop f l alpha beta best bpv)).
Proof.
  intros Hf Hl. induction l as [|c r IH]; intros alpha beta best bpv Hb; cbn [SearchCore.loop]; [exact Hb|].
  assert (IH' : forall alpha beta best bpv, chain legal_step p bpv ->
                  chain legal_step p (snd (loop f r alpha beta best bpv))).
  { apply IH; intros; [apply Hf|apply Hl]; now right. }
  assert (Hc : chain legal_step p (c :: snd (f c (- beta) (- alpha)))).
  { cbn [chain]. split; [apply Hl; now left|apply Hf; now left]. }
  cbv zeta. destruct (- fst (f c (- beta) (- alpha)) >? best).
  - destruct (Z.max alpha (- fst (f c (- beta) (- alpha))) >=? beta); [exact Hc|now apply IH'].
  - destruct (Z.max alpha best >=? beta); [exact Hb|now apply IH'].
Qed.

Lemma negamax_ab_chain : forall d path p alpha beta, chain legal_step p (snd (negamax_ab d path p alpha beta)).
Proof.
  induction d as [|k IH]; intros path p alpha beta; cbn [SearchCore.negamax_ab];
    (destruct (SearchCore.rep_leaf pos rep path p); [exact I|]);
    (destruct (is_root path && root_empty p); [exact I|]).
  - unfold SearchCore.horizon_ab. destruct (succs p); [exact I|]. destruct (noisy_any p); [|exact I].
    apply (chain_weaken noisy_step legal_step); [intros x y; apply Hsub|apply qs_ab_chain].
  - destruct (succs p) as [|c0 r0] eqn:E; [exact I|]. rewrite <- E.
    apply loop_chain; [intros; apply IH| |exact I].
    intros c Hc. exact (Permutation_in _ (Permutation_sym (order_perm path p (succs p))) Hc).
Qed.

End Game.

(* the root value does not depend on the ordering oracles (move ordering, killers, stored pv ...) *)
Theorem negamax_order_independent :
  forall (pos : Type) (succs noisy_succs : pos -> list pos) (noisy_any : pos -> bool) (static terminal : pos -> Z)
         (qmeasure : pos -> nat) (W : Z),
  Minimax.qmeasure_dec pos noisy_succs qmeasure ->
  forall (rep : list pos -> pos -> option Z) (root_empty : pos -> bool),
  (forall path p, rep path p = None) ->
  (forall p, - W < static p < W) ->
  forall inb : nat -> pos -> Prop,
  (forall k p q, inb (S k) p -> In q (succs p) -> inb k q) ->
  (forall d p, inb d p -> succs p = [] -> - W < terminal p < W) ->
  forall (order_q1 order_q2 : pos -> list pos -> list pos) (order1 order2 : list pos -> pos -> list pos -> list pos),
  (forall p l, Permutation l (order_q1 p l)) -> (forall p l, Permutation l (order_q2 p l)) ->
  (forall path p l, Permutation l (order1 path p l)) -> (forall path p l, Permutation l (order2 path p l)) ->
  forall d p, root_empty p = false -> inb d p ->
  fst (SearchCore.negamax_ab pos succs noisy_succs noisy_any static terminal W qmeasure order_q1 order1 rep root_empty
         d [] p (- W) W) =
  fst (SearchCore.negamax_ab pos succs noisy_succs noisy_any static terminal W qmeasure order_q2 order2 rep root_empty
         d [] p (- W) W).
Proof.
  intros pos succs noisy_succs noisy_any static terminal qmeasure W Hdec rep root_empty Hrep Hst inb Hstep Hterm
         oq1 oq2 o1 o2 Hq1 Hq2 H1 H2 d p Hre Hinb.
  destruct (root_exact pos succs noisy_succs noisy_any static terminal qmeasure W Hdec oq1 Hq1 o1 H1 rep root_empty
              Hrep Hst inb Hstep Hterm d p Hre Hinb) as [E1 _].
  destruct (root_exact pos succs noisy_succs noisy_any static terminal qmeasure W Hdec oq2 Hq2 o2 H2 rep root_empty
              Hrep Hst inb Hstep Hterm d p Hre Hinb) as [E2 _].
  cbv zeta in E1, E2. now rewrite E1, E2.
Qed.

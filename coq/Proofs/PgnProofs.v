(* Proofs for property C17 (PGN stream reader, fixed by /verif/fixes/c17-pgn-reader.patch).
   Part 1: the chunked reader refines the abstract reader, for every chunk size >= 1 and every fragmentation.
   Part 2: on files in the Lichess layout the abstract reader returns every game completely.
   Part 3: the model fuel is never exhausted and the model never panics. *)
Require Import Ink.Lib.Str.
Require Import NArith List Bool Arith Lia.
Import ListNotations.
Require Import Ink.Model.PgnReader Ink.Spec.PgnSpec.
Arguments N.add : simpl never.
Arguments N.sub : simpl never.
Arguments N.mul : simpl never.
Arguments N.div : simpl never.
Arguments N.modulo : simpl never.
Arguments N.eqb : simpl never.
Arguments N.ltb : simpl never.
Arguments N.leb : simpl never.
Local Open Scope nat_scope.

(* ================================================================== *)
(* Part 1: simulation concrete window  ~  abstract remaining bytes     *)
(* ================================================================== *)

(* the bytes the concrete reader has not consumed yet *)
Definition alpha (c : cstate) : list N := skipn (current_byte c) (buffer c) ++ input c.

(* the buffer never exceeds chunk_size (no "Assertion Error"), and it is only empty when the input is used up
   (the state after `Ok(0)`: buffer cleared, eof_reached) -- otherwise `read` into an empty buffer would lose
   the rest of the input *)
Definition Inv (c : cstate) : Prop :=
  length (buffer c) <= chunk_size c /\ (buffer c = [] -> input c = []).

Lemma read_len_spec : forall bl fr inp,
  read_len bl fr inp <= bl /\ read_len bl fr inp <= length inp /\
  (0 < bl -> inp <> [] -> 0 < read_len bl fr inp).
Proof.
  intros bl fr inp. unfold read_len. rewrite firstn_length.
  assert (L : inp <> [] -> 0 < length inp) by (destruct inp; cbn; [congruence | lia]).
  destruct fr; repeat split; intros; try specialize (L H0); lia.
Qed.

Lemma skipn_nth : forall (l : list N) i, i < length l ->
  exists x, nth_error l i = Some x /\ skipn i l = x :: skipn (S i) l.
Proof.
  induction l as [|y l IH]; intros i H; cbn in H; [lia|].
  destruct i; [exists y; auto|].
  destruct (IH i) as (x & H1 & H2); [lia|]. exists x. split; auto.
Qed.

Lemma firstn_app_exact : forall (a b : list N) n, length a = n -> firstn n (a ++ b) = a.
Proof.
  intros a b n H. subst n. rewrite firstn_app, Nat.sub_diag, firstn_all. cbn. apply app_nil_r.
Qed.

Lemma ensure_cases : forall c r c', Inv c -> ensure_buffer c = (r, c') ->
  Inv c' /\
  ((alpha c = [] /\ r = Ok false /\ alpha c' = []) \/
   (exists b l, alpha c = b :: l /\ r = Ok true /\
                nth_error (buffer c') (current_byte c') = Some b /\
                alpha c' = b :: l /\ Inv (increment_byte c') /\ alpha (increment_byte c') = l)).
Proof.
  intros c r c' [I1 I2] E. unfold ensure_buffer in E.
  destruct (length (buffer c) <=? current_byte c) eqn:B.
  - apply Nat.leb_le in B.
    assert (A : alpha c = input c) by (unfold alpha; rewrite skipn_all2 by lia; reflexivity).
    remember (read_len (length (buffer c)) (frag c) (input c)) as n eqn:Hn.
    destruct (read_len_spec (length (buffer c)) (frag c) (input c)) as (R1 & R2 & R3).
    rewrite <- Hn in R1, R2, R3.
    assert (Z : n = 0 -> input c = []).
    { intros Hz. destruct (input c) eqn:Ei; [reflexivity|]. exfalso.
      assert (0 < length (buffer c)).
      { destruct (buffer c) eqn:Eb; [specialize (I2 eq_refl); congruence | cbn; lia]. }
      assert (0 < n) by (apply R3; [assumption | congruence]). lia. }
    (* after a successful read the buffer holds exactly the n bytes just read *)
    assert (FULL : n <> 0 -> forall buf', buf' = firstn n (input c) ->
              let c2 := {| chunk_size := chunk_size c; buffer := buf'; current_byte := 0; eof := eof c;
                           input := skipn n (input c); frag := tl (frag c) |} in
              n <= chunk_size c ->
              Inv c2 /\ exists b l, alpha c = b :: l /\ nth_error (buffer c2) (current_byte c2) = Some b /\
                                    alpha c2 = b :: l /\ Inv (increment_byte c2) /\ alpha (increment_byte c2) = l).
    { intros Hnz buf' Hb c2 Hc.
      assert (Lb : length buf' = n) by (subst buf'; rewrite firstn_length; lia).
      assert (Ac2 : alpha c2 = input c).
      { unfold alpha, c2; cbn [current_byte buffer input skipn]. subst buf'. apply firstn_skipn. }
      assert (I : Inv c2).
      { split; cbn [buffer chunk_size input c2]; [lia|]. intros Hb'. rewrite Hb' in Lb. cbn in Lb. lia. }
      split; [exact I|].
      destruct (skipn_nth buf' 0) as (x & Hx1 & Hx2); [lia|].
      exists x, (skipn 1 buf' ++ skipn n (input c)).
      assert (Ax : alpha c2 = x :: skipn 1 buf' ++ skipn n (input c)).
      { unfold alpha, c2; cbn [current_byte buffer input]. rewrite Hx2. reflexivity. }
      repeat split.
      - rewrite <- Ax, A. symmetry. exact Ac2.
      - exact Hx1.
      - exact Ax.
      - unfold c2; cbn [increment_byte buffer chunk_size]. lia.
      - unfold c2; cbn [increment_byte buffer input]. intros Hb'. rewrite Hb' in Lb. cbn in Lb. lia. }
    destruct (n =? 0) eqn:N0.
    + apply Nat.eqb_eq in N0. inversion E; subst r c'; clear E.
      specialize (Z N0). split.
      * split; cbn [buffer chunk_size input length]; [lia|]. intros _. rewrite Z. destruct n; reflexivity.
      * left. rewrite A, Z. unfold alpha; cbn [current_byte buffer input].
        repeat split. destruct n; reflexivity.
    + apply Nat.eqb_neq in N0.
      destruct (n <? chunk_size c) eqn:N1.
      * apply Nat.ltb_lt in N1. inversion E; subst r c'; clear E.
        cbn [input frag].
        assert (Hr : resize n (firstn n (input c) ++ skipn n (buffer c)) = firstn n (input c)).
        { unfold resize. rewrite firstn_app_exact by (rewrite firstn_length; lia).
          rewrite app_length, firstn_length, Nat.min_l by lia.
          replace (n - (n + length (skipn n (buffer c)))) with 0 by lia. cbn. apply app_nil_r. }
        rewrite Hr.
        destruct (FULL N0 _ eq_refl) as (I & b & l & H1 & H2 & H3 & H4 & H5); [lia|].
        split; [exact I|]. right. exists b, l. repeat split; try assumption; apply H4.
      * apply Nat.ltb_ge in N1.
        destruct (chunk_size c <? n) eqn:N2; [apply Nat.ltb_lt in N2; lia|].
        inversion E; subst r c'; clear E.
        assert (Hs : skipn n (buffer c) = []) by (apply skipn_all2; lia).
        rewrite Hs, app_nil_r.
        destruct (FULL N0 _ eq_refl) as (I & b & l & H1 & H2 & H3 & H4 & H5); [lia|].
        split; [exact I|]. right. exists b, l. repeat split; try assumption; apply H4.
  - apply Nat.leb_gt in B. inversion E; subst r c'; clear E.
    split; [split; assumption|]. right.
    destruct (skipn_nth (buffer c) (current_byte c) B) as (x & Hx1 & Hx2).
    exists x, (skipn (S (current_byte c)) (buffer c) ++ input c).
    assert (Ax : alpha c = x :: skipn (S (current_byte c)) (buffer c) ++ input c)
      by (unfold alpha; rewrite Hx2; reflexivity).
    repeat split; auto.
Qed.

Definition simM {A : Type} (mc : M cstate A) (ma : M (list N) A) : Prop :=
  forall c, Inv c ->
    fst (mc c) = fst (ma (alpha c)) /\ Inv (snd (mc c)) /\ alpha (snd (mc c)) = snd (ma (alpha c)).

Lemma sim_peek : simM c_peek_byte a_peek_byte.
Proof.
  intros c I. unfold c_peek_byte. destruct (ensure_buffer c) as [r c'] eqn:E.
  destruct (ensure_cases c r c' I E) as (I' & [(A0 & Hr & A1) | (b & l & A0 & Hr & Hn & A1 & I2 & A2)]);
    subst r; rewrite A0; cbn.
  - auto.
  - rewrite Hn. cbn. auto.
Qed.

Lemma sim_pop : simM c_pop_byte a_pop_byte.
Proof.
  intros c I. unfold c_pop_byte, bind, c_peek_byte. destruct (ensure_buffer c) as [r c'] eqn:E.
  destruct (ensure_cases c r c' I E) as (I' & [(A0 & Hr & A1) | (b & l & A0 & Hr & Hn & A1 & I2 & A2)]);
    subst r; rewrite A0; cbn.
  - auto.
  - rewrite Hn. cbn. auto.
Qed.

Lemma sim_skip : simM c_skip_byte a_skip_byte.
Proof.
  intros c I. unfold c_skip_byte. destruct (ensure_buffer c) as [r c'] eqn:E.
  destruct (ensure_cases c r c' I E) as (I' & [(A0 & Hr & A1) | (b & l & A0 & Hr & Hn & A1 & I2 & A2)]);
    subst r; rewrite A0; cbn; auto.
Qed.

Lemma sim_ret : forall (A : Type) (a : A), simM (ret a) (ret a).
Proof. intros A a c I. cbn. auto. Qed.

Lemma sim_fail : forall (A : Type) (e : perr), simM (@fail cstate A e) (fail e).
Proof. intros A e c I. cbn. auto. Qed.

Lemma sim_bind : forall (A B : Type) (mc : M cstate A) (ma : M (list N) A)
                        (fc : A -> M cstate B) (fa : A -> M (list N) B),
  simM mc ma -> (forall a, simM (fc a) (fa a)) -> simM (bind mc fc) (bind ma fa).
Proof.
  intros A B mc ma fc fa Hm Hf c I. unfold bind.
  destruct (Hm c I) as (H1 & H2 & H3).
  destruct (mc c) as [r c']. destruct (ma (alpha c)) as [r' l']. cbn in H1, H2, H3. subst r' l'.
  destruct r as [a|e]; [apply Hf; assumption | cbn; auto].
Qed.

Lemma sim_attempt : forall (A : Type) (mc : M cstate A) (ma : M (list N) A),
  simM mc ma -> simM (attempt mc) (attempt ma).
Proof.
  intros A mc ma Hm c I. unfold attempt.
  destruct (Hm c I) as (H1 & H2 & H3).
  destruct (mc c) as [r c']. destruct (ma (alpha c)) as [r' l']. cbn in H1, H2, H3. subst r' l'.
  destruct r as [a|e]; [|destruct (is_abort e)]; cbn; auto.
Qed.

Lemma sim_then_check : forall (A : Type) (mc : M cstate A) (ma : M (list N) A) kc ka,
  simM mc ma -> simM kc ka -> simM (then_check mc kc) (then_check ma ka).
Proof.
  intros A mc ma kc ka Hm Hk c I. unfold then_check.
  destruct (Hm c I) as (H1 & H2 & H3).
  destruct (mc c) as [r c']. destruct (ma (alpha c)) as [r' l']. cbn in H1, H2, H3. subst r' l'.
  destruct (Hk c' H2) as (K1 & K2 & K3).
  destruct (kc c') as [q c'']. destruct (ka (alpha c')) as [q' l'']. cbn in K1, K2, K3. subst q' l''.
  destruct r as [a|e]; [|destruct (is_abort e)]; cbn; auto; destruct q; cbn; auto.
Qed.

Ltac sim_step :=
  first
    [ assumption
    | apply sim_ret | apply sim_fail | apply sim_peek | apply sim_pop | apply sim_skip
    | apply sim_attempt | apply sim_then_check
    | apply sim_bind; [ | intros ? ]
    | match goal with
      | |- simM (if ?b then _ else _) (if ?b then _ else _) => destruct b
      | |- simM (match ?o with Some _ => _ | None => _ end) (match ?o with Some _ => _ | None => _ end) =>
          destruct o
      end ].
Ltac sim := repeat sim_step.

Lemma sim_consume : forall e, simM (consume CSrc e) (consume ASrc e).
Proof. intros e. unfold consume. sim. Qed.

Lemma sim_skip_blank_lines : forall F, simM (skip_blank_lines CSrc F) (skip_blank_lines ASrc F).
Proof. induction F; cbn [skip_blank_lines]; sim. Qed.

Lemma sim_skip_blank_lines_and_spaces : forall F,
  simM (skip_blank_lines_and_spaces CSrc F) (skip_blank_lines_and_spaces ASrc F).
Proof. induction F; cbn [skip_blank_lines_and_spaces]; sim. Qed.

Lemma sim_skip_spaces : forall F, simM (skip_spaces CSrc F) (skip_spaces ASrc F).
Proof. induction F; cbn [skip_spaces]; sim. Qed.

Lemma sim_skip_to_next_line : forall F, simM (skip_to_next_line CSrc F) (skip_to_next_line ASrc F).
Proof. induction F; cbn [skip_to_next_line]; sim. Qed.

Lemma sim_read_token : forall F, simM (read_token CSrc F) (read_token ASrc F).
Proof. induction F; cbn [read_token]; sim. Qed.

Lemma sim_read_until_loop : forall F b c, simM (read_until_loop CSrc F b c) (read_until_loop ASrc F b c).
Proof. induction F; intros b c; cbn [read_until_loop]; sim. apply IHF. Qed.

Lemma sim_read_until : forall F b, simM (read_until CSrc F b) (read_until ASrc F b).
Proof. intros F b. unfold read_until. sim. apply sim_read_until_loop. Qed.

Lemma sim_read_tag_pair_line : forall F, simM (read_tag_pair_line CSrc F) (read_tag_pair_line ASrc F).
Proof.
  intros F. unfold read_tag_pair_line, read_tag_name, read_tag_value.
  repeat first [ apply sim_consume | apply sim_read_until | sim_step ].
Qed.

Lemma sim_read_tag_pairs_loop : forall n F acc,
  simM (read_tag_pairs_loop CSrc n F acc) (read_tag_pairs_loop ASrc n F acc).
Proof.
  induction n; intros F acc; cbn [read_tag_pairs_loop];
    repeat first [ apply sim_read_tag_pair_line | apply IHn | sim_step ].
Qed.

Lemma sim_read_move : forall F, simM (read_move CSrc F) (read_move ASrc F).
Proof.
  intros F. unfold read_move, read_braced_annotation, read_semicolon_annotation.
  repeat first [ apply sim_consume | apply sim_read_until | apply sim_skip_blank_lines_and_spaces
               | apply sim_skip_spaces | apply sim_read_token | sim_step ].
Qed.

Lemma sim_read_moves_loop : forall n F, simM (read_moves_loop CSrc n F) (read_moves_loop ASrc n F).
Proof.
  induction n; intros F; cbn [read_moves_loop];
    repeat first [ apply sim_read_move | apply IHn | sim_step ].
Qed.

Lemma sim_read_pgn : forall F, simM (read_pgn CSrc F) (read_pgn ASrc F).
Proof.
  intros F. unfold read_pgn, read_moves, read_tag_pairs.
  repeat first [ apply sim_read_tag_pairs_loop | apply sim_skip_blank_lines | apply sim_read_moves_loop
               | apply sim_skip_to_next_line | sim_step ].
Qed.

Lemma sim_next : forall F c, Inv c ->
  fst (next CSrc F c) = fst (next ASrc F (alpha c)) /\
  Inv (snd (next CSrc F c)) /\ alpha (snd (next CSrc F c)) = snd (next ASrc F (alpha c)).
Proof.
  intros F c I. unfold next.
  destruct (sim_skip_blank_lines_and_spaces F c I) as (H1 & H2 & H3).
  destruct (skip_blank_lines_and_spaces CSrc F c) as [r c'].
  destruct (skip_blank_lines_and_spaces ASrc F (alpha c)) as [r' l']. cbn in H1, H2, H3. subst r' l'.
  destruct r as [u|e].
  - destruct (sim_read_pgn F c' H2) as (K1 & K2 & K3).
    destruct (read_pgn CSrc F c') as [q c'']. destruct (read_pgn ASrc F (alpha c')) as [q' l''].
    cbn in K1, K2, K3. subst q' l''. cbn. auto.
  - destruct e; cbn; auto.
Qed.

Lemma sim_run_loop : forall n F c, Inv c -> run_loop CSrc n F c = run_loop ASrc n F (alpha c).
Proof.
  induction n; intros F c I; cbn [run_loop]; [reflexivity|].
  destruct (sim_next F c I) as (H1 & H2 & H3).
  destruct (next CSrc F c) as [o c']. destruct (next ASrc F (alpha c)) as [o' l'].
  cbn in H1, H2, H3. subst o' l'.
  destruct o as [[g|e]|]; [|reflexivity|reflexivity].
  f_equal. apply IHn. exact H2.
Qed.

Lemma init_inv : forall chunk fr bytes, 1 <= chunk ->
  Inv (c_init chunk fr bytes) /\ alpha (c_init chunk fr bytes) = bytes.
Proof.
  intros chunk fr bytes H. split; [split|]; cbn [c_init buffer chunk_size input current_byte alpha].
  - rewrite repeat_length. lia.
  - destruct chunk; [lia|]. cbn. discriminate.
  - unfold alpha; cbn [c_init buffer current_byte input]. rewrite skipn_all2; [reflexivity|].
    rewrite repeat_length. lia.
Qed.

Theorem chunk_independent : forall bytes chunk frag,
  1 <= chunk -> run_concrete chunk frag bytes = run_abstract bytes.
Proof.
  intros bytes chunk fr H. unfold run_concrete, run_abstract.
  destruct (init_inv chunk fr bytes H) as [I A].
  rewrite (sim_run_loop _ _ _ I), A. reflexivity.
Qed.

(* ================================================================== *)
(* Part 2: completeness on the Lichess layout (abstract reader)        *)
(* ================================================================== *)

Lemma bind_ok : forall (T A B : Type) (m : M T A) (f : A -> M T B) s a s',
  m s = (Ok a, s') -> bind m f s = f a s'.
Proof. intros. unfold bind. rewrite H. reflexivity. Qed.

Lemma then_check_ok : forall (T A : Type) (m : M T A) (k : M T unit) s a s' u s'',
  m s = (Ok a, s') -> k s' = (Ok u, s'') -> then_check m k s = (Ok a, s'').
Proof. intros. unfold then_check. rewrite H, H0. reflexivity. Qed.

Lemma neqb : forall a b : N, a <> b -> N.eqb a b = false.
Proof. intros. apply N.eqb_neq. assumption. Qed.

Definition nonws (c : N) : Prop := c <> 32%N /\ c <> 10%N.
Definition good (c : N) : Prop := c <> 32%N /\ c <> 10%N /\ c <> 123%N /\ c <> 59%N.
Definition starts_good (l : list N) : Prop := exists b r, l = b :: r /\ good b.
Definition ws_only (l : list N) : Prop := Forall (fun c => c = 32%N \/ c = 10%N) l.
(* what may follow a token: the end of the input or white space *)
Definition tok_end (l : list N) : Prop := l = [] \/ exists b r, l = b :: r /\ (b = 32%N \/ b = 10%N).

Lemma consume_ok : forall e l, consume ASrc e (e :: l) = (Ok tt, l).
Proof. intros. unfold consume, bind. cbn. rewrite N.eqb_refl. reflexivity. Qed.

Lemma skip_ws_spec : forall ws rest F, ws_only ws -> (exists b r, rest = b :: r /\ nonws b) -> length ws < F ->
  skip_blank_lines_and_spaces ASrc F (ws ++ rest) = (Ok tt, rest).
Proof.
  induction ws as [|w ws IH]; intros rest F Hw (b & r & -> & Hb1 & Hb2) HF.
  - destruct F; [cbn in HF; lia|]. cbn. unfold bind. cbn.
    rewrite (neqb b 10 Hb2). cbn. rewrite (neqb b 32 Hb1). reflexivity.
  - destruct F; [cbn in HF; lia|]. inversion Hw; subst. cbn in HF.
    cbn [skip_blank_lines_and_spaces app]. unfold bind at 1. cbn [peek_byte ASrc a_peek_byte].
    destruct H1 as [-> | ->].
    + change (N.eqb 32 10) with false. cbv iota. unfold bind at 1. cbn [peek_byte ASrc a_peek_byte].
      change (N.eqb 32 32) with true. cbv iota. unfold bind at 1. cbn [skip_byte ASrc a_skip_byte].
      apply IH; [assumption | | lia]. exists b, r. repeat split; assumption.
    + change (N.eqb 10 10) with true. cbv iota. unfold bind at 1. cbn [skip_byte ASrc a_skip_byte].
      apply IH; [assumption | | lia]. exists b, r. repeat split; assumption.
Qed.

Lemma skip_ws_closed : forall ws F, ws_only ws -> length ws < F ->
  skip_blank_lines_and_spaces ASrc F ws = (Err EClosed, []).
Proof.
  induction ws as [|w ws IH]; intros F Hw HF.
  - destruct F; [cbn in HF; lia|]. reflexivity.
  - destruct F; [cbn in HF; lia|]. inversion Hw; subst. cbn in HF.
    cbn [skip_blank_lines_and_spaces]. unfold bind at 1. cbn [peek_byte ASrc a_peek_byte].
    destruct H1 as [-> | ->].
    + change (N.eqb 32 10) with false. cbv iota. unfold bind at 1. cbn [peek_byte ASrc a_peek_byte].
      change (N.eqb 32 32) with true. cbv iota. unfold bind at 1. cbn [skip_byte ASrc a_skip_byte].
      apply IH; [assumption | lia].
    + change (N.eqb 10 10) with true. cbv iota. unfold bind at 1. cbn [skip_byte ASrc a_skip_byte].
      apply IH; [assumption | lia].
Qed.

Lemma skip_spaces_stop : forall F b l, b <> 32%N -> skip_spaces ASrc (S F) (b :: l) = (Ok tt, b :: l).
Proof.
  intros. cbn [skip_spaces]. unfold bind. cbn [peek_byte ASrc a_peek_byte]. rewrite (neqb _ _ H). reflexivity.
Qed.

Lemma skip_spaces_one : forall F b l, b <> 32%N ->
  skip_spaces ASrc (S (S F)) (32%N :: b :: l) = (Ok tt, b :: l).
Proof.
  intros. cbn [skip_spaces]. unfold bind at 1. cbn [peek_byte ASrc a_peek_byte].
  change (N.eqb 32 32) with true. cbv iota. unfold bind at 1. cbn [skip_byte ASrc a_skip_byte].
  apply (skip_spaces_stop F b l H).
Qed.

Lemma skip_blank_lines_one : forall F b l, b <> 10%N ->
  skip_blank_lines ASrc (S (S F)) (10%N :: b :: l) = (Ok tt, b :: l).
Proof.
  intros. cbn [skip_blank_lines]. unfold bind at 1. cbn [peek_byte ASrc a_peek_byte].
  change (N.eqb 10 10) with true. cbv iota. unfold bind at 1. cbn [skip_byte ASrc a_skip_byte].
  unfold bind. cbn [peek_byte ASrc a_peek_byte]. rewrite (neqb _ _ H). reflexivity.
Qed.

Lemma skip_to_next_line_nil : forall F, skip_to_next_line ASrc (S F) [] = (Ok tt, []).
Proof. reflexivity. Qed.

Lemma skip_to_next_line_nl : forall F l, skip_to_next_line ASrc (S F) (10%N :: l) = (Ok tt, l).
Proof. reflexivity. Qed.

Lemma read_token_spec : forall tok rest F, Forall nonws tok -> tok_end rest -> length tok < F ->
  read_token ASrc F (tok ++ rest) = (Ok tok, rest).
Proof.
  induction tok as [|c tok IH]; intros rest F Ht He HF.
  - destruct F; [cbn in HF; lia|]. cbn [app read_token]. unfold bind, attempt. cbn [peek_byte ASrc a_peek_byte].
    destruct He as [-> | (b & r & -> & [-> | ->])]; reflexivity.
  - destruct F; [cbn in HF; lia|]. inversion Ht as [|? ? [H1 H2] Ht']; subst. cbn in HF.
    cbn [app read_token]. unfold bind at 1. unfold attempt. cbn [peek_byte ASrc a_peek_byte].
    rewrite (neqb _ _ H1), (neqb _ _ H2). cbn [orb]. unfold bind at 1. cbn [skip_byte ASrc a_skip_byte].
    unfold bind. rewrite IH; [reflexivity | assumption | assumption | lia].
Qed.

Lemma contains_chr_false : forall b x, contains_chr b x = false -> Forall (fun c => c <> b) x.
Proof.
  induction x as [|y x IH]; intros H; constructor; cbn in H; apply orb_false_iff in H; destruct H as [H1 H2].
  - apply N.eqb_neq. assumption.
  - apply IH. assumption.
Qed.

Lemma read_until_loop_spec : forall b x rest F, Forall (fun c => c <> b) x -> length x < F ->
  read_until_loop ASrc F b (hd 0%N (x ++ b :: rest)) (x ++ b :: rest) = (Ok x, b :: rest).
Proof.
  induction x as [|c x IH]; intros rest F Hx HF.
  - destruct F; [cbn in HF; lia|]. cbn [app hd read_until_loop]. rewrite N.eqb_refl. reflexivity.
  - destruct F; [cbn in HF; lia|]. inversion Hx; subst. cbn in HF.
    cbn [app hd read_until_loop]. rewrite (neqb _ _ H1).
    unfold bind at 1. cbn [skip_byte ASrc a_skip_byte].
    unfold bind at 1. unfold peek_byte at 1. cbn [ASrc]. unfold a_peek_byte at 1.
    specialize (IH rest F H2).
    destruct (x ++ b :: rest) as [|d t] eqn:E; [destruct x; discriminate|].
    cbn [hd] in IH. unfold bind. rewrite IH by lia. reflexivity.
Qed.

Lemma read_until_spec : forall b x rest F, contains_chr b x = false -> length x < F ->
  read_until ASrc F b (x ++ b :: rest) = (Ok x, b :: rest).
Proof.
  intros b x rest F Hx HF. unfold read_until, bind. unfold peek_byte at 1. cbn [ASrc]. unfold a_peek_byte at 1.
  pose proof (read_until_loop_spec b x rest F (contains_chr_false _ _ Hx) HF) as H.
  destruct (x ++ b :: rest) as [|d t] eqn:E; [destruct x; discriminate|].
  exact H.
Qed.

(* ---- tag section ---- *)
Lemma read_tag_pair_line_spec : forall kv rest F, tag_okb kv = true -> length (render_tag kv) < F ->
  read_tag_pair_line ASrc F (render_tag kv ++ rest) = (Ok kv, rest).
Proof.
  intros [k v] rest F Hok HF. unfold tag_okb in Hok. cbn [fst snd] in Hok.
  apply andb_true_iff in Hok. destruct Hok as [Hk Hv].
  apply negb_true_iff in Hk. apply negb_true_iff in Hv.
  unfold render_tag in *. cbn [fst snd] in *. rewrite !app_length in HF. cbn [length] in HF.
  unfold read_tag_pair_line, read_tag_name, read_tag_value.
  rewrite <- !app_assoc. cbn [app].
  erewrite bind_ok by apply consume_ok. cbv beta.
  erewrite bind_ok by (apply read_until_spec; [assumption | lia]). cbv beta.
  erewrite bind_ok by apply consume_ok. cbv beta.
  erewrite bind_ok.
  2:{ erewrite bind_ok by apply consume_ok. cbv beta.
      eapply then_check_ok; [apply read_until_spec; [assumption | lia] | apply consume_ok]. }
  cbv beta.
  erewrite bind_ok by apply consume_ok. cbv beta.
  erewrite bind_ok by apply consume_ok. cbv beta.
  reflexivity.
Qed.

Lemma hm_insert_tag_set : forall k v m, hm_insert k v m = tag_set k v m.
Proof. induction m as [|[k' v'] m IH]; cbn; [reflexivity|]. rewrite IH. reflexivity. Qed.

Lemma render_tag_length : forall kv, 1 <= length (render_tag kv).
Proof. intros. unfold render_tag. cbn. lia. Qed.

Lemma read_tag_pairs_loop_spec : forall tags acc rest n F,
  forallb tag_okb tags = true -> length tags < n -> length (render_tags tags) < F ->
  read_tag_pairs_loop ASrc n F acc (render_tags tags ++ 10%N :: rest)
  = (Ok (fold_left (fun m kv => tag_set (fst kv) (snd kv) m) tags acc), 10%N :: rest).
Proof.
  induction tags as [|kv tags IH]; intros acc rest n F Hok Hn HF.
  - destruct n; [cbn in Hn; lia|]. reflexivity.
  - destruct n; [cbn in Hn; lia|]. cbn in Hn. cbn [forallb] in Hok. apply andb_true_iff in Hok.
    destruct Hok as [Hkv Hok].
    unfold render_tags in *. cbn [flat_map] in *. rewrite app_length in HF.
    cbn [read_tag_pairs_loop fold_left].
    rewrite <- app_assoc.
    assert (Hhd : exists t, render_tag kv ++ flat_map render_tag tags ++ 10%N :: rest = 91%N :: t)
      by (unfold render_tag; cbn; eauto).
    destruct Hhd as [t Ht].
    unfold bind at 1. unfold peek_byte at 1. cbn [ASrc]. unfold a_peek_byte at 1. rewrite Ht.
    change (N.eqb 91 91) with true. cbv iota. rewrite <- Ht.
    erewrite bind_ok by (apply read_tag_pair_line_spec; [assumption | lia]). cbv beta.
    rewrite hm_insert_tag_set. apply IH; [assumption | lia | lia].
Qed.

(* ---- strings ---- *)
Lemma str_eqb_eq : forall a b, str_eqb a b = true -> a = b.
Proof.
  induction a as [|x a IH]; destruct b as [|y b]; cbn; intros H; try discriminate; [reflexivity|].
  apply andb_true_iff in H. destruct H as [H1 H2]. apply N.eqb_eq in H1. subst. f_equal. apply IH. assumption.
Qed.

Lemma is_result_token : forall r, is_result (result_token r) = true.
Proof. destruct r; reflexivity. Qed.

Lemma is_result_inv : forall t, is_result t = true -> exists r, t = result_token r.
Proof.
  intros t H. unfold is_result, mem_str, result_tokens in H. cbn [existsb] in H.
  repeat (apply orb_true_iff in H; destruct H as [H|H]); try discriminate; apply str_eqb_eq in H.
  - exists WhiteWins; assumption.
  - exists BlackWins; assumption.
  - exists Drawn; assumption.
  - exists Unfinished; assumption.
Qed.

Lemma dot_not_result : forall t, contains_chr 46 t = true -> is_result t = false.
Proof.
  intros t H. destruct (is_result t) eqn:E; [|reflexivity].
  destruct (is_result_inv t E) as [r ->]. destruct r; discriminate.
Qed.

Lemma result_token_shape : forall r, exists b t, result_token r = b :: t /\ good b /\ Forall nonws (b :: t).
Proof.
  destruct r; cbn; eexists; eexists; (split; [reflexivity|]); unfold good, nonws;
    repeat (constructor || split); discriminate.
Qed.

(* ---- move numbers ---- *)
Definition is_digit (c : N) : Prop := (48 <= c /\ c <= 57)%N.

Lemma show_N_aux_digits : forall fuel n acc, Forall is_digit acc -> Forall is_digit (show_N_aux fuel n acc).
Proof.
  induction fuel as [|k IH]; intros n acc H; cbn [show_N_aux]; [assumption|].
  assert (D : Forall is_digit ((48 + n mod 10)%N :: acc)).
  { constructor; [|assumption]. unfold is_digit.
    pose proof (N.mod_upper_bound n 10 ltac:(discriminate)) as HH. set (m := (n mod 10)%N) in *. clearbody m. lia. }
  destruct (N.eqb (n / 10) 0); [assumption | apply IH; assumption].
Qed.

Lemma show_N_aux_nonempty : forall fuel n acc, acc <> [] -> show_N_aux fuel n acc <> [].
Proof.
  induction fuel as [|k IH]; intros n acc H; cbn [show_N_aux]; [assumption|].
  destruct (N.eqb (n / 10) 0); [discriminate | apply IH; discriminate].
Qed.

Lemma show_N_shape : forall n, exists d t, show_N n = d :: t /\ Forall is_digit (d :: t).
Proof.
  intros n. pose proof (show_N_aux_digits (S (N.to_nat (N.size n))) n [] (Forall_nil _)) as D.
  fold (show_N n) in D.
  assert (NE : show_N n <> []).
  { unfold show_N. cbn [show_N_aux]. destruct (N.eqb (n / 10) 0); [discriminate|].
    apply show_N_aux_nonempty. discriminate. }
  destruct (show_N n) as [|d t]; [congruence|]. eauto.
Qed.

Lemma digit_good : forall c, is_digit c -> good c.
Proof. intros c [H1 H2]. unfold good. repeat split; intros ->; lia. Qed.
Lemma good_nonws : forall c, good c -> nonws c.
Proof. intros c (H1 & H2 & _). split; assumption. Qed.

Lemma contains_chr_app_r : forall c x y, contains_chr c y = true -> contains_chr c (x ++ y) = true.
Proof. induction x; intros; cbn; [assumption|]. rewrite IHx by assumption. apply orb_true_r. Qed.

Lemma Forall_app_intro : forall (A : Type) (P : A -> Prop) x y, Forall P x -> Forall P y -> Forall P (x ++ y).
Proof. intros. apply Forall_app. split; assumption. Qed.

(* a move number is absent, or a token with a `.` followed by one space *)
Lemma move_number_cases : forall bn ply,
  move_number bn ply = [] \/
  exists d num, move_number bn ply = (d :: num) ++ [32%N] /\ good d /\ Forall nonws (d :: num) /\
                contains_chr 46 (d :: num) = true.
Proof.
  intros bn ply. unfold move_number.
  destruct (show_N_shape (ply / 2 + 1)) as (d & t & E & D). rewrite E.
  assert (Gd : good d) by (inversion D; apply digit_good; assumption).
  assert (Nw : Forall nonws (d :: t)).
  { eapply Forall_impl; [|exact D]. intros. apply good_nonws, digit_good. assumption. }
  destruct (N.even ply).
  - right. exists d, (t ++ [46%N]). repeat split.
    + cbn. rewrite <- app_assoc. reflexivity.
    + apply Gd. + apply Gd. + apply Gd. + apply Gd.
    + change (d :: t ++ [46%N]) with ((d :: t) ++ [46%N]). apply Forall_app_intro; [assumption|].
      repeat constructor; discriminate.
    + change (d :: t ++ [46%N]) with ((d :: t) ++ [46%N]). apply contains_chr_app_r. reflexivity.
  - destruct bn; [|left; reflexivity].
    right. exists d, (t ++ [46; 46; 46]%N). repeat split.
    + cbn. rewrite <- app_assoc. reflexivity.
    + apply Gd. + apply Gd. + apply Gd. + apply Gd.
    + change (d :: t ++ [46; 46; 46]%N) with ((d :: t) ++ [46; 46; 46]%N). apply Forall_app_intro; [assumption|].
      repeat constructor; discriminate.
    + change (d :: t ++ [46; 46; 46]%N) with ((d :: t) ++ [46; 46; 46]%N). apply contains_chr_app_r. reflexivity.
Qed.

(* ---- SAN tokens ---- *)
Lemma san_ok_facts : forall san, san_okb san = true ->
  exists c t, san = c :: t /\ good c /\ Forall nonws san /\ contains_chr 46 san = false /\ is_result san = false.
Proof.
  intros san H. unfold san_okb in H.
  apply andb_true_iff in H. destruct H as [H H3]. apply andb_true_iff in H. destruct H as [H1 H2].
  destruct san as [|c t]; [discriminate|]. exists c, t. split; [reflexivity|].
  apply andb_true_iff in H1. destruct H1 as [H1a H1b].
  apply negb_true_iff, N.eqb_neq in H1a. apply negb_true_iff, N.eqb_neq in H1b.
  rewrite forallb_forall in H2.
  assert (CH : forall x, In x (c :: t) -> x <> 32%N /\ x <> 10%N /\ x <> 46%N).
  { intros x Hx. specialize (H2 x Hx). unfold san_char_okb in H2.
    apply andb_true_iff in H2. destruct H2 as [H2 H2c]. apply andb_true_iff in H2. destruct H2 as [H2a H2b].
    apply negb_true_iff, N.eqb_neq in H2a. apply negb_true_iff, N.eqb_neq in H2b.
    apply negb_true_iff, N.eqb_neq in H2c. auto. }
  repeat split.
  - apply (CH c). left; reflexivity.
  - apply (CH c). left; reflexivity.
  - assumption.
  - assumption.
  - apply Forall_forall. intros x Hx. destruct (CH x Hx) as (A & B & _). split; assumption.
  - destruct (contains_chr 46 (c :: t)) eqn:E; [|reflexivity]. exfalso.
    assert (G : forall l, contains_chr 46 l = true -> In 46%N l).
    { induction l as [|y l IH]; cbn; intros G; [discriminate|]. apply orb_true_iff in G. destruct G as [G|G].
      - left. apply N.eqb_eq. assumption.
      - right. apply IH. assumption. }
    destruct (CH _ (G _ E)) as (_ & _ & C). congruence.
  - apply negb_true_iff in H3. exact H3.
Qed.

(* ---- one move ---- *)
Definition move_tail (F : nat) (mv : str) : M (list N) (option raw_move) :=
  _ <- skip_spaces ASrc F ;;
  byte <- peek_byte ASrc ;;
  annotation <- (if N.eqb byte 123 then (a <- read_braced_annotation ASrc F ;; ret (Some a))
                 else if N.eqb byte 59 then (a <- read_semicolon_annotation ASrc F ;; ret (Some a))
                 else ret None) ;;
  ret (Some (mv, annotation)).

Lemma move_tail_spec : forall F mv c rest,
  comment_okb c = true -> starts_good rest -> length (render_comment c ++ 32%N :: rest) < F ->
  exists sp', ws_only sp' /\ length sp' <= 1 /\
    move_tail F mv (render_comment c ++ 32%N :: rest) = (Ok (Some (mv, c)), sp' ++ rest).
Proof.
  intros F mv c rest Hc (b & r & -> & G1 & G2 & G3 & G4) HF. unfold move_tail.
  destruct c as [text|]; cbn [render_comment app] in *.
  - exists [32%N]. split; [repeat constructor; auto|]. split; [cbn; lia|].
    apply negb_true_iff in Hc. cbn [length] in HF. rewrite !app_length in HF. cbn [length] in HF.
    destruct F as [|[|F]]; [lia | lia |].
    erewrite bind_ok by (apply skip_spaces_one; discriminate). cbv beta.
    erewrite bind_ok by reflexivity. cbv beta.
    change (N.eqb 123 123) with true. cbv iota.
    erewrite bind_ok.
    2:{ erewrite bind_ok.
        2:{ unfold read_braced_annotation. erewrite bind_ok by apply consume_ok. cbv beta.
            rewrite <- app_assoc. cbn [app].
            eapply then_check_ok; [apply read_until_spec; [assumption | lia] | apply consume_ok]. }
        cbv beta. reflexivity. }
    cbv beta. reflexivity.
  - exists []. split; [constructor|]. split; [cbn; lia|]. cbn [length] in HF.
    destruct F as [|[|F]]; [lia | lia |].
    erewrite bind_ok by (apply skip_spaces_one; assumption). cbv beta.
    erewrite bind_ok by reflexivity. cbv beta.
    rewrite (neqb _ _ G3), (neqb _ _ G4).
    erewrite bind_ok by reflexivity. cbv beta. reflexivity.
Qed.

Lemma read_move_unfold : forall F,
  read_move ASrc F =
  (_ <- skip_blank_lines_and_spaces ASrc F ;;
   token <- read_token ASrc F ;;
   if is_result token then ret None
   else
     mv <- (if contains_chr 46 token then (_ <- skip_spaces ASrc F ;; read_token ASrc F) else ret token) ;;
     move_tail F mv).
Proof. reflexivity. Qed.

Lemma starts_good_nonws : forall l, starts_good l -> exists b r, l = b :: r /\ nonws b.
Proof. intros l (b & r & E & G). exists b, r. split; [assumption | apply good_nonws; assumption]. Qed.

Lemma read_move_item : forall F sp bn ply san c rest,
  ws_only sp -> san_okb san = true -> comment_okb c = true -> starts_good rest ->
  length (sp ++ move_number bn ply ++ san ++ render_comment c ++ 32%N :: rest) < F ->
  exists sp', ws_only sp' /\ length sp' <= 1 /\
    read_move ASrc F (sp ++ move_number bn ply ++ san ++ render_comment c ++ 32%N :: rest)
    = (Ok (Some (san, c)), sp' ++ rest).
Proof.
  intros F sp bn ply san c rest Hsp Hsan Hc Hrest HF.
  destruct (san_ok_facts san Hsan) as (s0 & st & Es & Gs & Ns & Ds & Rs). subst san.
  rewrite !app_length in HF. cbn [length] in HF.
  destruct (move_tail_spec F (s0 :: st) c rest Hc Hrest) as (sp' & W & L & E);
    [rewrite app_length; cbn [length]; lia|].
  exists sp'. split; [assumption|]. split; [assumption|].
  assert (TE : tok_end (render_comment c ++ 32%N :: rest)).
  { right. destruct c; cbn; eauto. }
  rewrite read_move_unfold.
  destruct (move_number_cases bn ply) as [Emn | (d & num & Emn & Gd & Nn & Dn)]; rewrite Emn in *.
  - cbn [app length] in *.
    erewrite bind_ok.
    2:{ apply skip_ws_spec; [assumption | | lia]. exists s0, (st ++ render_comment c ++ 32%N :: rest).
        split; [reflexivity | apply good_nonws; assumption]. }
    cbv beta.
    erewrite bind_ok by (apply (read_token_spec (s0 :: st)); [assumption | assumption | cbn [length] in *; lia]).
    cbv beta. rewrite Rs, Ds.
    erewrite bind_ok by reflexivity. cbv beta. exact E.
  - rewrite app_length in HF. cbn [length] in HF.
    rewrite <- !app_assoc. cbn [app].
    erewrite bind_ok.
    2:{ apply skip_ws_spec; [assumption | | lia]. eexists; eexists. split; [reflexivity | apply good_nonws; assumption]. }
    cbv beta.
    erewrite bind_ok.
    2:{ apply (read_token_spec (d :: num)); [assumption | right; eauto | cbn [length] in *; lia]. }
    cbv beta.
    rewrite (dot_not_result _ Dn), Dn.
    erewrite bind_ok.
    2:{ destruct F as [|[|F]]; [lia | lia |].
        erewrite bind_ok.
        2:{ cbn [app]. apply skip_spaces_one. apply Gs. }
        cbv beta. apply (read_token_spec (s0 :: st)); [assumption | assumption | cbn [length] in *; lia]. }
    cbv beta. exact E.
Qed.

Lemma read_move_result : forall F sp r tail, ws_only sp -> tok_end tail ->
  length (sp ++ result_token r ++ tail) < F ->
  read_move ASrc F (sp ++ result_token r ++ tail) = (Ok None, tail).
Proof.
  intros F sp r tail Hsp Ht HF. rewrite !app_length in HF.
  destruct (result_token_shape r) as (b & t & E & G & Nw).
  rewrite read_move_unfold.
  erewrite bind_ok.
  2:{ apply skip_ws_spec; [assumption | | lia]. rewrite E. eexists; eexists.
      split; [reflexivity | apply good_nonws; assumption]. }
  cbv beta.
  erewrite bind_ok.
  2:{ apply read_token_spec; [rewrite E; assumption | assumption | lia]. }
  cbv beta. rewrite is_result_token. reflexivity.
Qed.

(* ---- the movetext line ---- *)
Lemma movetext_starts_good : forall bn ply ms r tail,
  forallb move_okb ms = true -> starts_good (render_moves bn ply ms ++ result_token r ++ tail).
Proof.
  intros bn ply ms r tail H. destruct ms as [|[san c] ms].
  - cbn [render_moves app]. destruct (result_token_shape r) as (b & t & E & G & _). rewrite E.
    exists b, (t ++ tail). split; [reflexivity | assumption].
  - cbn [forallb] in H. apply andb_true_iff in H. destruct H as [H _].
    unfold move_okb in H. cbn [fst snd] in H. apply andb_true_iff in H. destruct H as [H _].
    destruct (san_ok_facts san H) as (s0 & st & Es & Gs & _). subst san.
    cbn [render_moves].
    destruct (move_number_cases bn ply) as [Emn | (d & num & Emn & Gd & _)]; rewrite Emn.
    + cbn [app]. eexists; eexists. split; [reflexivity | assumption].
    + cbn [app]. eexists; eexists. split; [reflexivity | assumption].
Qed.

Lemma read_moves_loop_spec : forall ms bn ply sp r tail n F,
  ws_only sp -> forallb move_okb ms = true -> tok_end tail -> length ms < n ->
  length (sp ++ render_moves bn ply ms ++ result_token r ++ tail) < F ->
  read_moves_loop ASrc n F (sp ++ render_moves bn ply ms ++ result_token r ++ tail) = (Ok ms, tail).
Proof.
  induction ms as [|[san c] ms IH]; intros bn ply sp r tail n F Hsp Hok Ht Hn HF.
  - destruct n; [cbn in Hn; lia|]. cbn [render_moves app read_moves_loop] in *.
    erewrite bind_ok by (apply read_move_result; assumption). cbv beta. reflexivity.
  - destruct n; [cbn in Hn; lia|]. cbn [length] in Hn.
    cbn [forallb] in Hok. apply andb_true_iff in Hok. destruct Hok as [Hm Hok].
    unfold move_okb in Hm. cbn [fst snd] in Hm. apply andb_true_iff in Hm. destruct Hm as [Hsan Hc].
    cbn [render_moves read_moves_loop] in *.
    assert (EQ : sp ++ (move_number bn ply ++ san ++ render_comment c ++ [32%N] ++ render_moves bn (ply + 1) ms)
                   ++ result_token r ++ tail
                 = sp ++ move_number bn ply ++ san ++ render_comment c
                   ++ 32%N :: (render_moves bn (ply + 1) ms ++ result_token r ++ tail)).
    { rewrite <- !app_assoc. reflexivity. }
    rewrite EQ in *.
    destruct (read_move_item F sp bn ply san c (render_moves bn (ply + 1) ms ++ result_token r ++ tail))
      as (sp' & W & L & E); try assumption.
    { apply movetext_starts_good. assumption. }
    erewrite bind_ok by exact E. cbv beta iota.
    erewrite bind_ok.
    2:{ apply IH; try assumption; [lia|].
        rewrite !app_length in *. cbn [length] in HF. rewrite !app_length in HF. lia. }
    cbv beta. reflexivity.
Qed.

Definition after_line (tail : list N) : list N := match tail with [] => [] | _ :: t => t end.
(* what follows a game: the end of the input, or the newline ending the movetext line *)
Definition line_end (tail : list N) : Prop := tail = [] \/ exists t, tail = 10%N :: t.

Lemma line_end_tok_end : forall tail, line_end tail -> tok_end tail.
Proof. intros tail [-> | (t & ->)]; [left; reflexivity | right; eauto]. Qed.

Lemma render_tags_length : forall tags, length tags <= length (render_tags tags).
Proof.
  unfold render_tags. induction tags as [|kv l IHl]; cbn [flat_map length]; [lia|].
  rewrite app_length. pose proof (render_tag_length kv). lia.
Qed.

Lemma render_moves_length : forall ms bn p, length ms <= length (render_moves bn p ms).
Proof.
  induction ms as [|[san c] l IHl]; intros bn p; cbn [render_moves length]; [lia|].
  rewrite !app_length. cbn [length]. specialize (IHl bn (p + 1)%N). lia.
Qed.

Lemma read_pgn_spec : forall g tail F, game_okb g = true -> line_end tail ->
  length (render_game g ++ tail) < F ->
  read_pgn ASrc F (render_game g ++ tail) = (Ok (raw_of g), after_line tail).
Proof.
  intros g tail F Hok Ht HF. unfold game_okb in Hok.
  apply andb_true_iff in Hok. destruct Hok as [Hok Hms]. apply andb_true_iff in Hok. destruct Hok as [Hne Htags].
  unfold render_game in *. rewrite <- !app_assoc in *. cbn [app] in *.
  rewrite !app_length in HF. cbn [length] in HF. rewrite !app_length in HF.
  unfold read_pgn, read_tag_pairs.
  pose proof (render_tags_length (g_tags g)) as Ltags.
  erewrite bind_ok by (apply read_tag_pairs_loop_spec; [assumption | lia | lia]). cbv beta.
  destruct (movetext_starts_good (g_black_numbers g) 0%N (g_moves g) (g_result g) tail Hms)
    as (b & rr & E & G).
  erewrite bind_ok.
  2:{ rewrite E. destruct F as [|[|F]]; [lia | lia |]. apply skip_blank_lines_one. apply G. }
  cbv beta. rewrite <- E.
  unfold read_moves.
  assert (SK : forall F', skip_to_next_line ASrc (S F') tail = (Ok tt, after_line tail)).
  { intros; destruct Ht as [-> | (t & ->)]; reflexivity. }
  pose proof (render_moves_length (g_moves g) (g_black_numbers g) 0%N) as Lms.
  erewrite bind_ok.
  2:{ erewrite bind_ok.
      2:{ apply (read_moves_loop_spec (g_moves g) (g_black_numbers g) 0%N []); cbn [app];
            [constructor | assumption | apply line_end_tok_end; assumption | lia | ].
          rewrite !app_length. lia. }
      cbv beta.
      erewrite bind_ok by (destruct F; [lia|]; apply SK).
      cbv beta. reflexivity. }
  cbv beta. reflexivity.
Qed.

(* ---- the iterator ---- *)
Lemma ws_only_newlines : forall j, ws_only (repeat 10%N j).
Proof. induction j; cbn; constructor; auto. Qed.

Lemma render_game_starts : forall g tail, game_okb g = true ->
  exists b r, render_game g ++ tail = b :: r /\ nonws b.
Proof.
  intros g tail H. unfold game_okb in H. apply andb_true_iff in H. destruct H as [H _].
  apply andb_true_iff in H. destruct H as [H _].
  unfold render_game, render_tags. destruct (g_tags g) as [|kv l]; [discriminate|].
  cbn. eexists; eexists. split; [reflexivity|]. split; discriminate.
Qed.

Lemma next_game : forall g tail j F, game_okb g = true -> line_end tail ->
  length (repeat 10%N j ++ render_game g ++ tail) < F ->
  next ASrc F (repeat 10%N j ++ render_game g ++ tail) = (Some (Ok (raw_of g)), after_line tail).
Proof.
  intros g tail j F Hg Ht HF. unfold next. rewrite app_length in HF.
  rewrite skip_ws_spec; [| apply ws_only_newlines | apply render_game_starts; assumption | lia].
  rewrite read_pgn_spec; [reflexivity | assumption | assumption | lia].
Qed.

Lemma next_end : forall j F, j < F -> next ASrc F (repeat 10%N j) = (None, []).
Proof.
  intros j F H. unfold next. rewrite skip_ws_closed; [reflexivity | apply ws_only_newlines |].
  rewrite repeat_length. assumption.
Qed.

Lemma after_line_length : forall tail, length (after_line tail) <= length tail.
Proof. destruct tail; cbn; lia. Qed.

Lemma run_loop_complete : forall gs j k n F, layout_ok gs -> length gs < n ->
  length (repeat 10%N j ++ render_n gs k) < F ->
  run_loop ASrc n F (repeat 10%N j ++ render_n gs k) = map Ok (map raw_of gs).
Proof.
  unfold layout_ok. induction gs as [|g gs IH]; intros j k n F Hok Hn HF.
  - destruct n; [cbn in Hn; lia|]. cbn [render_n map run_loop] in *.
    rewrite <- repeat_app in *. rewrite repeat_length in HF. rewrite next_end by assumption. reflexivity.
  - destruct n; [cbn in Hn; lia|]. cbn [length] in Hn.
    cbn [forallb] in Hok. apply andb_true_iff in Hok. destruct Hok as [Hg Hok].
    cbn [render_n map run_loop] in *.
    set (tail := match gs with [] => repeat 10%N k | _ :: _ => [10%N; 10%N] ++ render_n gs k end) in *.
    assert (LE : line_end tail).
    { unfold tail. destruct gs; [destruct k; [left; reflexivity | right; cbn; eauto] | right; cbn; eauto]. }
    rewrite next_game by assumption.
    assert (AF : exists j' k', after_line tail = repeat 10%N j' ++ render_n gs k').
    { unfold tail. destruct gs as [|g2 gs2].
      - exists (pred k), 0. cbn [render_n repeat]. rewrite app_nil_r. destruct k; reflexivity.
      - exists 1, k. reflexivity. }
    destruct AF as (j' & k' & AF).
    pose proof (after_line_length tail) as AL.
    rewrite AF in *. f_equal. apply IH; [assumption | lia |].
    rewrite !app_length in HF. lia.
Qed.

Lemma render_n_length : forall gs k, length gs <= length (render_n gs k).
Proof.
  induction gs as [|g gs IH]; intros k; cbn [render_n length]; [lia|].
  rewrite app_length. unfold render_game at 1. rewrite !app_length. cbn [length].
  destruct gs as [|g2 gs2]; [cbn [length]; lia|].
  specialize (IH k). cbn [app length] in *. lia.
Qed.

Theorem complete_n : forall gs k, layout_ok gs -> run_abstract (render_n gs k) = map Ok (map raw_of gs).
Proof.
  intros gs k H. unfold run_abstract, fuel_for.
  pose proof (render_n_length gs k) as L.
  apply (run_loop_complete gs 0 k); [assumption | lia | cbn [repeat app]; lia].
Qed.

Theorem complete : forall gs nl, layout_ok gs -> run_abstract (render gs nl) = map Ok (map raw_of gs).
Proof. intros gs nl H. unfold render. apply complete_n. assumption. Qed.

(* the two combined *)
Theorem reader_complete : forall gs nl chunk frag,
  layout_ok gs -> 1 <= chunk -> run_concrete chunk frag (render gs nl) = map Ok (map raw_of gs).
Proof. intros. rewrite chunk_independent by assumption. apply complete. assumption. Qed.

(* ================================================================== *)
(* Part 3: the fuel is never exhausted, the model never panics         *)
(* ================================================================== *)

(* a result that the Rust code can produce: a value or one of its three error values *)
Definition okr {A : Type} (r : res A) : Prop :=
  match r with Err e => is_abort e = false | Ok _ => True end.

(* on inputs shorter than n: no abort, and the input does not grow *)
Definition NI (n : nat) {A : Type} (m : M (list N) A) : Prop :=
  forall l, length l < n -> okr (fst (m l)) /\ length (snd (m l)) <= length l.
(* ... and a successful run consumes at least one byte *)
Definition ST (n : nat) {A : Type} (m : M (list N) A) : Prop :=
  forall l, length l < n ->
    okr (fst (m l)) /\ length (snd (m l)) <= length l /\
    (forall a, fst (m l) = Ok a -> length (snd (m l)) < length l).

Lemma ST_NI : forall n A (m : M (list N) A), ST n m -> NI n m.
Proof. intros n A m H l Hl. destruct (H l Hl) as (H1 & H2 & _). auto. Qed.
Lemma NI_le : forall n k A (m : M (list N) A), NI n m -> k <= n -> NI k m.
Proof. intros n k A m H Hk l Hl. apply H. lia. Qed.
Lemma ST_le : forall n k A (m : M (list N) A), ST n m -> k <= n -> ST k m.
Proof. intros n k A m H Hk l Hl. apply H. lia. Qed.

Lemma NI_ret : forall n A (a : A), NI n (ret a).
Proof. intros n A a l Hl. cbn. auto. Qed.
Lemma NI_fail : forall n A e, is_abort e = false -> NI n (@fail (list N) A e).
Proof. intros n A e H l Hl. cbn. auto. Qed.
Lemma NI_peek : forall n, NI n (peek_byte ASrc).
Proof. intros n l Hl. destruct l; cbn; auto. Qed.
Lemma ST_pop : forall n, ST n (pop_byte ASrc).
Proof. intros n l Hl. destruct l; cbn; repeat split; auto; intros; try discriminate; lia. Qed.
Lemma ST_skip : forall n, ST n (skip_byte ASrc).
Proof. intros n l Hl. destruct l; cbn; repeat split; auto; intros; try discriminate; lia. Qed.

Lemma NI_bind : forall n A B (m : M (list N) A) (f : A -> M (list N) B),
  NI n m -> (forall a, NI n (f a)) -> NI n (bind m f).
Proof.
  intros n A B m f Hm Hf l Hl. unfold bind. destruct (Hm l Hl) as (H1 & H2).
  destruct (m l) as [[a|e] l1]; cbn in *; [|auto].
  destruct (Hf a l1 ltac:(lia)) as (H3 & H4). split; [assumption | lia].
Qed.

(* the first step consumes a byte: the rest may run on one unit of fuel less *)
Lemma NI_bind_dec : forall k A B (m : M (list N) A) (f : A -> M (list N) B),
  ST (S k) m -> (forall a, NI k (f a)) -> NI (S k) (bind m f).
Proof.
  intros k A B m f Hm Hf l Hl. unfold bind. destruct (Hm l Hl) as (H1 & H2 & H3).
  destruct (m l) as [[a|e] l1]; cbn in *; [|auto].
  specialize (H3 a eq_refl).
  destruct (Hf a l1 ltac:(lia)) as (H4 & H5). split; [assumption | lia].
Qed.

Lemma ST_bind_l : forall n A B (m : M (list N) A) (f : A -> M (list N) B),
  ST n m -> (forall a, NI n (f a)) -> ST n (bind m f).
Proof.
  intros n A B m f Hm Hf l Hl. unfold bind. destruct (Hm l Hl) as (H1 & H2 & H3).
  destruct (m l) as [[a|e] l1]; cbn in *; [|repeat split; auto; intros; discriminate].
  specialize (H3 a eq_refl).
  destruct (Hf a l1 ltac:(lia)) as (H4 & H5). repeat split; [assumption | lia | intros; lia].
Qed.

Lemma NI_attempt : forall n A (m : M (list N) A), NI n m -> NI n (attempt m).
Proof.
  intros n A m Hm l Hl. unfold attempt. destruct (Hm l Hl) as (H1 & H2).
  destruct (m l) as [[a|e] l1]; cbn in *; [auto|]. rewrite H1. cbn. auto.
Qed.

(* `while let Ok(x) = m { .. }` where m consumes a byte *)
Lemma NI_attempt_dec : forall k A B (m : M (list N) A) (f : option A -> M (list N) B),
  ST (S k) m -> (forall a, NI k (f (Some a))) -> NI (S k) (f None) -> NI (S k) (bind (attempt m) f).
Proof.
  intros k A B m f Hm Hs Hn l Hl. unfold bind, attempt. destruct (Hm l Hl) as (H1 & H2 & H3).
  destruct (m l) as [[a|e] l1]; cbn in *.
  - specialize (H3 a eq_refl). destruct (Hs a l1 ltac:(lia)) as (H4 & H5). split; [assumption | lia].
  - rewrite H1. destruct (Hn l1 ltac:(lia)) as (H4 & H5). split; [assumption | lia].
Qed.

Lemma NI_then_check : forall n A (m : M (list N) A) k, NI n m -> NI n k -> NI n (then_check m k).
Proof.
  intros n A m k Hm Hk l Hl. unfold then_check. destruct (Hm l Hl) as (H1 & H2).
  destruct (m l) as [[a|e] l1]; cbn in *.
  - destruct (Hk l1 ltac:(lia)) as (H3 & H4). destruct (k l1) as [[u|e'] l2]; cbn in *; split; auto; lia.
  - rewrite H1. destruct (Hk l1 ltac:(lia)) as (H3 & H4). destruct (k l1) as [[u|e'] l2]; cbn in *; split; auto; lia.
Qed.

Lemma ST_consume : forall n e, ST n (consume ASrc e).
Proof.
  intros n e. unfold consume. apply ST_bind_l; [apply ST_pop|].
  intros a. destruct (N.eqb a e); [apply NI_ret | apply NI_fail; reflexivity].
Qed.

Lemma NI_skip_blank_lines : forall n, NI n (skip_blank_lines ASrc n).
Proof.
  induction n; [intros l Hl; lia|]. cbn [skip_blank_lines].
  apply NI_bind; [apply NI_peek|]. intros b. destruct (N.eqb b 10); [|apply NI_ret].
  apply NI_bind_dec; [apply ST_skip | intros _; assumption].
Qed.

Lemma NI_skip_ws : forall n, NI n (skip_blank_lines_and_spaces ASrc n).
Proof.
  induction n; [intros l Hl; lia|]. cbn [skip_blank_lines_and_spaces].
  apply NI_bind; [apply NI_peek|]. intros b. destruct (N.eqb b 10).
  - apply NI_bind_dec; [apply ST_skip | intros _; assumption].
  - apply NI_bind; [apply NI_peek|]. intros b2. destruct (N.eqb b2 32); [|apply NI_ret].
    apply NI_bind_dec; [apply ST_skip | intros _; assumption].
Qed.

Lemma NI_skip_spaces : forall n, NI n (skip_spaces ASrc n).
Proof.
  induction n; [intros l Hl; lia|]. cbn [skip_spaces].
  apply NI_bind; [apply NI_peek|]. intros b. destruct (N.eqb b 32); [|apply NI_ret].
  apply NI_bind_dec; [apply ST_skip | intros _; assumption].
Qed.

Lemma NI_skip_to_next_line : forall n, NI n (skip_to_next_line ASrc n).
Proof.
  induction n; [intros l Hl; lia|]. cbn [skip_to_next_line].
  apply NI_attempt_dec; [apply ST_pop | | apply NI_ret].
  intros b. destruct (N.eqb b 10); [apply NI_ret | assumption].
Qed.

Lemma NI_read_token : forall n, NI n (read_token ASrc n).
Proof.
  induction n; [intros l Hl; lia|]. cbn [read_token].
  apply NI_bind; [apply NI_attempt, NI_peek|]. intros [b|]; [|apply NI_ret].
  destruct (N.eqb b 32 || N.eqb b 10); [apply NI_ret|].
  apply NI_bind_dec; [apply ST_skip|]. intros _.
  apply NI_bind; [assumption | intros; apply NI_ret].
Qed.

Lemma NI_read_until_loop : forall n b c, NI n (read_until_loop ASrc n b c).
Proof.
  induction n; intros b c; [intros l Hl; lia|]. cbn [read_until_loop].
  destruct (N.eqb c b); [apply NI_ret|].
  apply NI_bind_dec; [apply ST_skip|]. intros _.
  apply NI_bind; [apply NI_peek|]. intros c'.
  apply NI_bind; [apply IHn | intros; apply NI_ret].
Qed.

Lemma NI_read_until : forall n b, NI n (read_until ASrc n b).
Proof. intros n b. unfold read_until. apply NI_bind; [apply NI_peek | intros; apply NI_read_until_loop]. Qed.

Lemma ST_read_tag_pair_line : forall F, ST F (read_tag_pair_line ASrc F).
Proof.
  intros F. unfold read_tag_pair_line, read_tag_name, read_tag_value.
  apply ST_bind_l; [apply ST_consume|]. intros _.
  apply NI_bind; [apply NI_read_until|]. intros name.
  apply NI_bind; [apply ST_NI, ST_consume|]. intros _.
  apply NI_bind.
  { apply NI_bind; [apply ST_NI, ST_consume|]. intros _.
    apply NI_then_check; [apply NI_read_until | apply ST_NI, ST_consume]. }
  intros value.
  apply NI_bind; [apply ST_NI, ST_consume|]. intros _.
  apply NI_bind; [apply ST_NI, ST_consume|]. intros _. apply NI_ret.
Qed.

Lemma NI_read_tag_pairs_loop : forall n F acc, n <= F -> NI n (read_tag_pairs_loop ASrc n F acc).
Proof.
  induction n; intros F acc Hn; [intros l Hl; lia|]. cbn [read_tag_pairs_loop].
  apply NI_bind; [apply NI_peek|]. intros b. destruct (N.eqb b 91).
  - apply NI_bind_dec; [apply (ST_le F); [apply ST_read_tag_pair_line | assumption]|].
    intros kv. apply IHn. lia.
  - destruct (N.eqb b 10); [apply NI_ret | apply NI_fail; reflexivity].
Qed.

Lemma NI_annotations : forall F,
  NI F (read_braced_annotation ASrc F) /\ NI F (read_semicolon_annotation ASrc F).
Proof.
  intros F. unfold read_braced_annotation, read_semicolon_annotation. split.
  - apply NI_bind; [apply ST_NI, ST_consume|]. intros _.
    apply NI_then_check; [apply NI_read_until | apply ST_NI, ST_consume].
  - apply NI_bind; [apply ST_NI, ST_consume|]. intros _.
    apply NI_then_check; [apply NI_read_until | apply ST_NI, ST_consume].
Qed.

Lemma NI_move_tail : forall F mv, NI F (move_tail F mv).
Proof.
  intros F mv. unfold move_tail. destruct (NI_annotations F) as [Hb Hs].
  apply NI_bind; [apply NI_skip_spaces|]. intros _.
  apply NI_bind; [apply NI_peek|]. intros byte.
  apply NI_bind; [|intros; apply NI_ret].
  destruct (N.eqb byte 123); [apply NI_bind; [assumption | intros; apply NI_ret]|].
  destruct (N.eqb byte 59); [apply NI_bind; [assumption | intros; apply NI_ret]|]. apply NI_ret.
Qed.

(* what happens in read_move after the first token *)
Definition after_token (F : nat) (token : str) : M (list N) (option raw_move) :=
  if is_result token then ret None
  else
    mv <- (if contains_chr 46 token then (_ <- skip_spaces ASrc F ;; read_token ASrc F) else ret token) ;;
    move_tail F mv.

Lemma NI_after_token : forall F token, NI F (after_token F token).
Proof.
  intros F token. unfold after_token. destruct (is_result token); [apply NI_ret|].
  apply NI_bind; [|intros; apply NI_move_tail].
  destruct (contains_chr 46 token); [|apply NI_ret].
  apply NI_bind; [apply NI_skip_spaces | intros; apply NI_read_token].
Qed.

Lemma NI_read_move : forall F, NI F (read_move ASrc F).
Proof.
  intros F. rewrite read_move_unfold.
  apply NI_bind; [apply NI_skip_ws|]. intros _.
  apply NI_bind; [apply NI_read_token|]. intros token. apply (NI_after_token F token).
Qed.

(* after skip_blank_lines_and_spaces succeeded, the next byte is neither a newline nor a space *)
Lemma skip_ws_post : forall n l u l', skip_blank_lines_and_spaces ASrc n l = (Ok u, l') ->
  exists b r, l' = b :: r /\ b <> 10%N /\ b <> 32%N.
Proof.
  induction n; intros l u l' H; [discriminate|]. cbn [skip_blank_lines_and_spaces] in H.
  unfold bind in H. cbn [peek_byte skip_byte ASrc] in H. unfold a_peek_byte, a_skip_byte in H.
  destruct l as [|b r]; [discriminate|].
  destruct (N.eqb b 10) eqn:E1; [apply IHn in H; assumption|].
  destruct (N.eqb b 32) eqn:E2; [apply IHn in H; assumption|].
  inversion H; subst. exists b, r. repeat split; apply N.eqb_neq; assumption.
Qed.

Lemma read_token_nonws : forall k b r, b <> 10%N -> b <> 32%N ->
  read_token ASrc (S k) (b :: r) =
  match read_token ASrc k r with (Ok t, l2) => (Ok (b :: t), l2) | (Err e, l2) => (Err e, l2) end.
Proof.
  intros k b r B1 B2. cbn [read_token]. unfold bind, attempt. cbn [peek_byte skip_byte ASrc a_peek_byte a_skip_byte].
  rewrite (neqb _ _ B1), (neqb _ _ B2). cbn [orb skip_byte ASrc a_skip_byte].
  destruct (read_token ASrc k r) as [[t|e] l2]; reflexivity.
Qed.

(* a move is never empty-handed: returning Some(move) consumes at least one byte *)
Lemma read_move_some : forall F l mv l', length l < F ->
  read_move ASrc F l = (Ok (Some mv), l') -> length l' < length l.
Proof.
  intros F l mv l' Hl H. rewrite read_move_unfold in H. unfold bind at 1 in H.
  destruct (NI_skip_ws F l Hl) as (_ & L1).
  destruct (skip_blank_lines_and_spaces ASrc F l) as [[u|e] l1] eqn:E1; [|discriminate]. cbn [snd] in L1.
  destruct (skip_ws_post _ _ _ _ E1) as (b & r & -> & B1 & B2).
  destruct F as [|k]; [lia|].
  change (bind (read_token ASrc (S k)) (after_token (S k)) (b :: r) = (Ok (Some mv), l')) in H.
  unfold bind in H. rewrite (read_token_nonws k b r B1 B2) in H.
  cbn [length] in L1.
  destruct (NI_read_token k r ltac:(lia)) as (_ & L2).
  destruct (read_token ASrc k r) as [[tok|e] l2]; [|discriminate]. cbn [snd] in L2.
  destruct (NI_after_token (S k) (b :: tok) l2 ltac:(lia)) as (_ & L3).
  rewrite H in L3. cbn [snd] in L3. lia.
Qed.

Lemma NI_read_moves_loop : forall n F, n <= F -> NI n (read_moves_loop ASrc n F).
Proof.
  induction n; intros F Hn; [intros l Hl; lia|]. intros l Hl. cbn [read_moves_loop]. unfold bind.
  destruct (NI_read_move F l ltac:(lia)) as (H1 & H2).
  destruct (read_move ASrc F l) as [[[mv|]|e] l1] eqn:E; cbn [fst snd] in *.
  - pose proof (read_move_some F l mv l1 ltac:(lia) E) as L.
    destruct (IHn F ltac:(lia) l1 ltac:(lia)) as (H3 & H4).
    destruct (read_moves_loop ASrc n F l1) as [[ms|e] l2]; cbn [fst snd ret] in *; split; auto; lia.
  - cbn. auto.
  - auto.
Qed.

Lemma NI_read_moves : forall F, NI F (read_moves ASrc F).
Proof.
  intros F. unfold read_moves.
  apply NI_bind; [apply NI_read_moves_loop; lia|]. intros ms.
  apply NI_bind; [apply NI_skip_to_next_line | intros; apply NI_ret].
Qed.

Lemma NI_read_pgn : forall F, NI F (read_pgn ASrc F).
Proof.
  intros F. unfold read_pgn, read_tag_pairs.
  apply NI_bind; [apply NI_read_tag_pairs_loop; lia|]. intros tags.
  apply NI_bind; [apply NI_skip_blank_lines|]. intros _.
  apply NI_bind; [apply NI_read_moves | intros; apply NI_ret].
Qed.

(* the tag section ends in front of a newline *)
Lemma read_tag_pairs_post : forall n F acc l r l', read_tag_pairs_loop ASrc n F acc l = (Ok r, l') ->
  exists t, l' = 10%N :: t.
Proof.
  induction n; intros F acc l r l' H; [discriminate|]. cbn [read_tag_pairs_loop] in H.
  unfold bind at 1 in H. cbn [peek_byte ASrc] in H. unfold a_peek_byte in H.
  destruct l as [|b t]; [discriminate|].
  destruct (N.eqb b 91).
  - unfold bind in H. destruct (read_tag_pair_line ASrc F (b :: t)) as [[kv|e] l1]; [|discriminate].
    apply IHn in H. assumption.
  - destruct (N.eqb b 10) eqn:E; [|discriminate]. apply N.eqb_eq in E. inversion H; subst. eauto.
Qed.

(* a game consumes at least one byte *)
Lemma read_pgn_ok : forall F l g l', length l < F -> read_pgn ASrc F l = (Ok g, l') -> length l' < length l.
Proof.
  intros F l g l' Hl H. unfold read_pgn, read_tag_pairs in H. unfold bind at 1 in H.
  destruct (NI_read_tag_pairs_loop F F [] (le_n _) l Hl) as (_ & L1).
  destruct (read_tag_pairs_loop ASrc F F [] l) as [[tags|e] l1] eqn:E1; [|discriminate]. cbn [snd] in L1.
  destruct (read_tag_pairs_post _ _ _ _ _ _ E1) as (t & ->). cbn [length] in L1.
  destruct F as [|k]; [lia|]. cbn [skip_blank_lines] in H.
  unfold bind at 1 in H. unfold bind at 1 in H. cbn [peek_byte ASrc] in H. unfold a_peek_byte in H.
  change (N.eqb 10 10) with true in H. cbv iota in H.
  unfold bind at 1 in H. cbn [skip_byte ASrc] in H. unfold a_skip_byte in H.
  destruct (NI_skip_blank_lines k t ltac:(lia)) as (_ & L2).
  destruct (skip_blank_lines ASrc k t) as [[u|e] l2]; [|discriminate]. cbn [snd] in L2.
  destruct (NI_read_moves (S k) l2 ltac:(lia)) as (_ & L3).
  unfold bind in H. destruct (read_moves ASrc (S k) l2) as [[ms|e] l3]; [|discriminate]. cbn [snd] in L3.
  inversion H; subst. lia.
Qed.

Lemma run_loop_clean : forall n F l, n <= F -> length l < n -> Forall okr (run_loop ASrc n F l).
Proof.
  induction n; intros F l Hn Hl; [lia|]. cbn [run_loop]. unfold next.
  destruct (NI_skip_ws F l ltac:(lia)) as (H1 & H2).
  destruct (skip_blank_lines_and_spaces ASrc F l) as [[u|e] l1]; cbn [fst snd] in *.
  - destruct (NI_read_pgn F l1 ltac:(lia)) as (H3 & H4).
    destruct (read_pgn ASrc F l1) as [[g|e] l2] eqn:E; cbn [fst snd] in *.
    + pose proof (read_pgn_ok F l1 g l2 ltac:(lia) E) as L.
      constructor; [exact I|]. apply IHn; lia.
    + constructor; [assumption | constructor].
  - destruct e; cbn in H1; try discriminate; constructor; try constructor; cbn; reflexivity.
Qed.

(* On EVERY input (well-formed or not) the abstract reader only reports what the Rust code can report. *)
Theorem abstract_clean : forall bytes, Forall okr (run_abstract bytes).
Proof. intros bytes. unfold run_abstract, fuel_for. apply run_loop_clean; lia. Qed.

(* ... and so does the chunked reader: no "Assertion Error", no index out of range, no exhausted fuel. *)
Theorem concrete_clean : forall bytes chunk frag, 1 <= chunk -> Forall okr (run_concrete chunk frag bytes).
Proof. intros. rewrite chunk_independent by assumption. apply abstract_clean. Qed.

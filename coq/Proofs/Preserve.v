(* Invariant preservation along generated moves (glue between C03 / C05 and the search theorems C07 / C09).

   Main theorem [make_preserves]:  for tables that pass the boolean table checks, a board b with
     wf b, rights_wf b, ep_free b (the e.p. square is "none" or an empty square) and is_valid T b (the side NOT to
     move is not in check), and ANY move m of the generator (pseudo-legal, legal or not):
       make b m = Some b'  ->  wf b' /\ rights_wf b' /\ ep_free b' /\ half b' <= half b + 1.
   The one non-structural ingredient is "a valid position has no pseudo-legal king capture" ([no_king_capture_piece],
   [no_king_capture_pawn]): a generated move reaches t from s only if the attack lookup from s contains t; the
   lookups are the geometric ones (C04, tables_attacks_ok) and those are symmetric (C05: slide_sym, step_sym via
   ray_link / step_link), so the backward lookup from t - which is what square_in_check asks - contains s.

   Why each hypothesis is needed for wf b':
   * is_valid T b : otherwise a pseudo-legal move may capture the king (popcount of kings becomes 0).
   * ep_free b    : with a piece standing ON the e.p. square the e.p. capture puts the pawn on an occupied square
                    (MakeUnmake.cx_ep_board: two pieces on e6 afterwards, the bitboards are no longer disjoint).
   * tables_rank18_ok / tables_geom_ok : RANK_1, RANK_8 (promotion test) and RANK_2, RANK_7 (double push) are the
                    real rank masks; otherwise an un-promoted pawn could reach the last rank.
   * tables_bounded : targets read from the tables are squares (< 64). *)
Require Import Ink.Lib.Str.
Require Import NArith ZArith List Bool Lia Arith.
Require Import Ink.Lib.Bits Ink.Model.Tables Ink.Model.Board.
Require Import Ink.Spec.Attacks Ink.Spec.Rules.
Require Import Ink.Proofs.Abs Ink.Proofs.AbsProofs Ink.Proofs.BitFacts Ink.Proofs.GenShape Ink.Proofs.MakeUnmake.
Require Import Ink.Proofs.AttackProofs Ink.Proofs.CheckProofs Ink.Proofs.LayoutProofs.
Import ListNotations.
Open Scope N_scope.

Arguments N.add : simpl never.
Arguments N.sub : simpl never.
Arguments N.mul : simpl never.
Arguments N.div : simpl never.
Arguments N.modulo : simpl never.
Arguments N.eqb : simpl never.
Arguments N.ltb : simpl never.
Arguments N.leb : simpl never.
Arguments N.pow : simpl never.
Arguments N.shiftl : simpl never.
Arguments N.shiftr : simpl never.
Arguments N.land : simpl never.
Arguments N.lor : simpl never.
Arguments N.ldiff : simpl never.
Arguments N.testbit : simpl never.

(* ================================================================== *)
(* 1. the six piece boards of one side under set / clear               *)
(* ================================================================== *)
Definition piece_ok (k : N) : Prop := In k [1; 2; 3; 4; 5; 6].

Lemma piece_ok_range k : piece_ok k -> 1 <= k <= 6.
Proof. unfold piece_ok. cbn [In]. intros [<-|[<-|[<-|[<-|[<-|[<-|[]]]]]]]; lia. Qed.

Lemma occ_set p k v k' :
  occ_of (set_occ p k v) k' = if (1 <=? k) && (k <=? 6) && (k' =? k) then v else occ_of p k'.
Proof. destruct p; case_piece k; case_piece k'; reflexivity. Qed.

Lemma occ_of_out p k : (1 <=? k) && (k <=? 6) = false -> occ_of p k = 0.
Proof. destruct p; case_piece k; cbn [occ_of]; intros H; try reflexivity; discriminate. Qed.

Lemma occ_nz_piece_ok p k sq : N.testbit (occ_of p k) sq = true -> piece_ok k.
Proof.
  unfold piece_ok. destruct p; case_piece k; cbn [occ_of In]; rewrite ?N.bits_0; intros H; try discriminate; tauto.
Qed.

Lemma piece_ok_b k : piece_ok k -> (1 <=? k) && (k <=? 6) = true.
Proof. unfold piece_ok. cbn [In]. intros [<-|[<-|[<-|[<-|[<-|[<-|[]]]]]]]; reflexivity. Qed.

Lemma occ_clr p k m k' : occ_of (clr_occ p k m) k' = if k' =? k then clear (occ_of p k') m else occ_of p k'.
Proof.
  unfold clr_occ. rewrite occ_set. destruct (N.eqb_spec k' k) as [->|Hne]; [|now rewrite andb_false_r].
  rewrite andb_true_r. destruct ((1 <=? k) && (k <=? 6)) eqn:E; [reflexivity|].
  rewrite (occ_of_out p k E). unfold clear. symmetry. apply N.ldiff_0_l.
Qed.

Lemma occ_or p k m k' : piece_ok k ->
  occ_of (or_occ p k m) k' = if k' =? k then N.lor (occ_of p k') m else occ_of p k'.
Proof.
  intros Hk. unfold or_occ. rewrite occ_set, (piece_ok_b k Hk). cbn [andb].
  destruct (N.eqb_spec k' k) as [->|Hne]; reflexivity.
Qed.

Lemma tb_clr p k m k' sq :
  N.testbit (occ_of (clr_occ p k m) k') sq = N.testbit (occ_of p k') sq && negb ((k' =? k) && N.testbit m sq).
Proof.
  rewrite occ_clr. destruct (k' =? k); cbn [andb negb]; [apply clear_testbit|now rewrite andb_true_r].
Qed.

Lemma tb_or p k m k' sq : piece_ok k ->
  N.testbit (occ_of (or_occ p k m) k') sq = N.testbit (occ_of p k') sq || ((k' =? k) && N.testbit m sq).
Proof.
  intros Hk. rewrite (occ_or p k m k' Hk). destruct (k' =? k); cbn [andb]; [apply N.lor_spec|now rewrite orb_false_r].
Qed.

Lemma tb_rights p q r k sq : N.testbit (occ_of (set_rights p q r) k) sq = N.testbit (occ_of p k) sq.
Proof. now rewrite occ_of_set_rights. Qed.

(* kinds as indices *)
Definition kd (k : N) : kind :=
  match k with 2 => Knight | 3 => Bishop | 4 => Rook | 5 => Queen | 6 => King | _ => Pawn end.

Lemma occ_pbb p k : piece_ok k -> occ_of p k = pbb p (kd k).
Proof. unfold piece_ok. cbn [In]. intros [<-|[<-|[<-|[<-|[<-|[<-|[]]]]]]]; reflexivity. Qed.

Lemma kd_inj k k' : piece_ok k -> piece_ok k' -> kd k = kd k' -> k = k'.
Proof.
  unfold piece_ok. cbn [In].
  intros [<-|[<-|[<-|[<-|[<-|[<-|[]]]]]]] [<-|[<-|[<-|[<-|[<-|[<-|[]]]]]]]; cbn; intros E; try reflexivity; discriminate.
Qed.

(* ================================================================== *)
(* 2. well-formedness as a property of the two sides                   *)
(* ================================================================== *)
Definition side_bounded (p : pstate) : Prop := forall k, occ_of p k < 2 ^ 64.
Definition side_disj (p : pstate) : Prop :=
  forall k k' sq, k <> k' -> N.testbit (occ_of p k) sq = true -> N.testbit (occ_of p k') sq = false.
Definition cross_disj (a p : pstate) : Prop :=
  forall k k' sq, N.testbit (occ_of a k) sq = true -> N.testbit (occ_of p k') sq = false.
Definition pawn_ranks (p : pstate) : Prop := forall sq, N.testbit (pawns p) sq = true -> 8 <= sq < 56.
Definition one_king (p : pstate) : Prop := exists x, kings p = bit x.

Record sides_ok (a p : pstate) : Prop := {
  so_ba : side_bounded a; so_bp : side_bounded p;
  so_da : side_disj a; so_dp : side_disj p; so_x : cross_disj a p;
  so_ka : one_king a; so_kp : one_king p;
  so_ra : pawn_ranks a; so_rp : pawn_ranks p
}.

Lemma cross_disj_sym a p : cross_disj a p -> cross_disj p a.
Proof.
  intros H k k' sq Hp. destruct (N.testbit (occ_of a k') sq) eqn:E; [|reflexivity].
  rewrite (H k' k sq E) in Hp. discriminate.
Qed.

Lemma sides_ok_sym a p : sides_ok a p -> sides_ok p a.
Proof. intros []. constructor; try assumption. now apply cross_disj_sym. Qed.

Lemma sides_ok_rights a p q r q' r' : sides_ok a p -> sides_ok (set_rights a q r) (set_rights p q' r').
Proof.
  intros [B1 B2 D1 D2 X K1 K2 R1 R2]. constructor.
  - intros k. rewrite occ_of_set_rights. apply B1.
  - intros k. rewrite occ_of_set_rights. apply B2.
  - intros k k' sq. rewrite !occ_of_set_rights. apply D1.
  - intros k k' sq. rewrite !occ_of_set_rights. apply D2.
  - intros k k' sq. rewrite !occ_of_set_rights. apply X.
  - exact K1.
  - exact K2.
  - exact R1.
  - exact R2.
Qed.

(* ---------- RANKS_18 ---------- *)
Lemma RANKS_18_true sq : N.testbit RANKS_18 sq = true -> sq < 8 \/ 56 <= sq < 64.
Proof.
  change RANKS_18 with (N.lor (N.ones 8) (N.shiftl (N.ones 8) 56)). rewrite N.lor_spec. intros H.
  apply orb_true_iff in H as [H|H].
  - left. destruct (N.lt_ge_cases sq 8) as [A|A]; [exact A|]. rewrite N.ones_spec_high in H by exact A. discriminate.
  - right. destruct (N.lt_ge_cases sq 56) as [A|A]; [rewrite N.shiftl_spec_low in H by exact A; discriminate|].
    rewrite N.shiftl_spec_high in H by lia.
    destruct (N.lt_ge_cases (sq - 56) 8) as [B|B]; [lia|]. rewrite N.ones_spec_high in H by exact B. discriminate.
Qed.

Lemma RANKS_18_false sq : sq < 64 -> N.testbit RANKS_18 sq = false -> 8 <= sq < 56.
Proof.
  change RANKS_18 with (N.lor (N.ones 8) (N.shiftl (N.ones 8) 56)). rewrite N.lor_spec. intros Hlt H.
  apply orb_false_iff in H as [H1 H2].
  destruct (N.lt_ge_cases sq 8) as [A|A]; [rewrite N.ones_spec_low in H1 by exact A; discriminate|].
  destruct (N.lt_ge_cases sq 56) as [B|B]; [lia|].
  rewrite N.shiftl_spec_high in H2 by lia. rewrite N.ones_spec_low in H2 by lia. discriminate.
Qed.

(* ---------- disjoint_all, both directions ---------- *)
Fixpoint pairwise_disj (l : list N) : Prop :=
  match l with [] => True | x :: r => (forall y, In y r -> N.land x y = 0) /\ pairwise_disj r end.

Lemma land_lor_0 a b c : N.land (N.lor a b) c = 0 <-> N.land a c = 0 /\ N.land b c = 0.
Proof. rewrite N.land_lor_distr_l. apply N.lor_eq_0_iff. Qed.

Lemma disjoint_all_intro l : forall acc,
  (forall x, In x l -> N.land acc x = 0) -> pairwise_disj l -> disjoint_all acc l = true.
Proof.
  induction l as [|x r IH]; intros acc Ha Hp; cbn [disjoint_all]; [reflexivity|].
  destruct Hp as [Hx Hp]. apply andb_true_iff. split.
  - apply N.eqb_eq. apply Ha. now left.
  - apply IH; [|exact Hp]. intros y Hy. apply land_lor_0. split; [apply Ha; now right|now apply Hx].
Qed.

Lemma pairwise_map (f : N -> N) l : NoDup l ->
  (forall k k', In k l -> In k' l -> k <> k' -> N.land (f k) (f k') = 0) -> pairwise_disj (map f l).
Proof.
  induction l as [|k r IH]; intros Hnd H; cbn [map pairwise_disj]; [exact I|].
  inversion Hnd as [|? ? Hnotin Hnd']; subst. split.
  - intros y Hy. apply in_map_iff in Hy as (k' & <- & Hk'). apply H; [now left|now right|].
    intros ->. now apply Hnotin.
  - apply IH; [exact Hnd'|]. intros a b Ha Hb. apply H; now right.
Qed.

Lemma pairwise_app l1 l2 : pairwise_disj l1 -> pairwise_disj l2 ->
  (forall x y, In x l1 -> In y l2 -> N.land x y = 0) -> pairwise_disj (l1 ++ l2).
Proof.
  induction l1 as [|x r IH]; intros H1 H2 Hx; cbn [app pairwise_disj]; [exact H2|].
  destruct H1 as [Hx1 H1]. split.
  - intros y Hy. apply in_app_or in Hy as [Hy|Hy]; [now apply Hx1|apply Hx; [now left|exact Hy]].
  - apply IH; [exact H1|exact H2|]. intros a b Ha Hb. apply Hx; [now right|exact Hb].
Qed.

Lemma land_zero_intro x y : (forall sq, N.testbit x sq = true -> N.testbit y sq = false) -> N.land x y = 0.
Proof.
  intros H. apply N.bits_inj_0. intro sq. rewrite N.land_spec.
  destruct (N.testbit x sq) eqn:E; [now rewrite (H sq E)|reflexivity].
Qed.

Definition PIECES : list N := [1; 2; 3; 4; 5; 6].
Lemma NoDup_PIECES : NoDup PIECES.
Proof. unfold PIECES. repeat constructor; cbn [In]; intros H; repeat destruct H as [H|H]; try discriminate; exact H. Qed.

Lemma bbs_map b : bbs b = map (occ_of (white b)) PIECES ++ map (occ_of (black b)) PIECES.
Proof. reflexivity. Qed.

Lemma popcount_double n : popcount (2 * n) = popcount n.
Proof. destruct n; reflexivity. Qed.

Lemma popcount_bit k : popcount (bit k) = 1.
Proof.
  induction k as [|k IH] using N.peano_ind; [reflexivity|].
  replace (bit (N.succ k)) with (2 * bit k); [now rewrite popcount_double|].
  rewrite !bit_pow, N.pow_succ_r'. reflexivity.
Qed.

(* ---------- wf <-> sides_ok ---------- *)
Lemma wf_sides b : wf b = true -> sides_ok (white b) (black b).
Proof.
  intros Hwf. destruct (wf_elim b Hwf) as (Bw & Bb & Ht & He & Hp).
  assert (Hd : forall c c', forall k k' sq, (c, k) <> (c', k') ->
             N.testbit (occ_of (pside b c) k) sq = true -> N.testbit (occ_of (pside b c') k') sq = false).
  { intros c c' k k' sq Hne H. destruct (N.testbit (occ_of (pside b c') k') sq) eqn:E; [exfalso|reflexivity].
    pose proof (occ_nz_piece_ok _ _ _ H) as Hk. pose proof (occ_nz_piece_ok _ _ _ E) as Hk'.
    rewrite (occ_pbb _ _ Hk) in H. rewrite (occ_pbb _ _ Hk') in E.
    assert (Hne' : (c, kd k) <> (c', kd k')).
    { intros X. injection X as -> X. apply Hne. f_equal. now apply kd_inj. }
    pose proof (bb_disjoint b c (kd k) c' (kd k') sq Hwf Hne' H) as F. unfold bb_of in F. congruence. }
  assert (Rk : forall c sq, N.testbit (pawns (pside b c)) sq = true -> 8 <= sq < 56).
  { intros c sq H.
    assert (Hu : N.testbit (N.lor (pawns (white b)) (pawns (black b))) sq = true).
    { rewrite N.lor_spec. destruct c; cbn [pside] in H; rewrite H; [reflexivity|apply orb_true_r]. }
    assert (Hlt : sq < 64).
    { apply (testbit_lt (N.lor (pawns (white b)) (pawns (black b))) 64 sq); [|exact Hu]. apply lor_lt; [apply Bw|apply Bb]. }
    apply RANKS_18_false; [exact Hlt|]. destruct (N.testbit RANKS_18 sq) eqn:E; [|reflexivity].
    rewrite (land_0_testbit _ _ sq Hp E) in Hu. discriminate. }
  constructor.
  - intros k. now apply occ_of_lt.
  - intros k. now apply occ_of_lt.
  - intros k k' sq Hne. apply (Hd White White). intros X. injection X as X. now apply Hne.
  - intros k k' sq Hne. apply (Hd Black Black). intros X. injection X as X. now apply Hne.
  - intros k k' sq. apply (Hd White Black). discriminate.
  - exists (king_of b White). exact (kings_eq_bit b White Hwf).
  - exists (king_of b Black). exact (kings_eq_bit b Black Hwf).
  - exact (Rk White).
  - exact (Rk Black).
Qed.

Lemma sides_wf b : sides_ok (white b) (black b) -> turn b < 2 -> ep b < 64 -> wf b = true.
Proof.
  intros [B1 B2 D1 D2 X [x1 K1] [x2 K2] R1 R2] Ht He. unfold wf. rewrite !andb_true_iff. repeat split.
  - rewrite bbs_map, forallb_app. apply andb_true_iff. split; apply forallb_forall; intros x Hx;
      apply in_map_iff in Hx as (k & <- & _); apply N.ltb_lt; rewrite two64; [apply B1|apply B2].
  - apply disjoint_all_intro; [intros x _; apply N.land_0_l|]. rewrite bbs_map. apply pairwise_app.
    + apply pairwise_map; [exact NoDup_PIECES|]. intros k k' _ _ Hne. apply land_zero_intro. intros sq. now apply D1.
    + apply pairwise_map; [exact NoDup_PIECES|]. intros k k' _ _ Hne. apply land_zero_intro. intros sq. now apply D2.
    + intros x y Hx Hy. apply in_map_iff in Hx as (k & <- & _). apply in_map_iff in Hy as (k' & <- & _).
      apply land_zero_intro. intros sq. apply X.
  - apply N.eqb_eq. rewrite K1. apply popcount_bit.
  - apply N.eqb_eq. rewrite K2. apply popcount_bit.
  - now apply N.ltb_lt.
  - now apply N.ltb_lt.
  - apply N.eqb_eq. apply N.bits_inj_0. intro sq. rewrite N.land_spec, N.lor_spec.
    destruct (N.testbit RANKS_18 sq) eqn:E; [|apply andb_false_r]. rewrite andb_true_r.
    apply RANKS_18_true in E.
    destruct (N.testbit (pawns (white b)) sq) eqn:E1; [apply R1 in E1; lia|].
    destruct (N.testbit (pawns (black b)) sq) eqn:E2; [apply R2 in E2; lia|]. reflexivity.
Qed.

Lemma wf_active_passive b : wf b = true -> sides_ok (active b) (passive b).
Proof.
  intros Hwf. pose proof (wf_sides b Hwf) as H. unfold active, passive.
  destruct (is_white_turn b); [exact H|now apply sides_ok_sym].
Qed.

Lemma wf_assemble wt a p t e f h : sides_ok a p -> t < 2 -> e < 64 -> wf (assemble wt a p t e f h) = true.
Proof.
  intros H Ht He. apply sides_wf; destruct wt; cbn [assemble white black turn ep]; try assumption.
  now apply sides_ok_sym.
Qed.

(* ---------- one step: everything new happens on the squares `news` ---------- *)
Lemma sides_ok_step a p a' p' news :
  sides_ok a p ->
  (forall k sq, ~ In sq news -> N.testbit (occ_of a' k) sq = true -> N.testbit (occ_of a k) sq = true) ->
  (forall k sq, N.testbit (occ_of p' k) sq = true -> N.testbit (occ_of p k) sq = true /\ ~ In sq news) ->
  (forall sq, In sq news -> sq < 64 /\
     (forall k k', k <> k' -> N.testbit (occ_of a' k) sq = true -> N.testbit (occ_of a' k') sq = false) /\
     (N.testbit (pawns a') sq = true -> 8 <= sq < 56)) ->
  one_king a' -> one_king p' -> sides_ok a' p'.
Proof.
  intros [B1 B2 D1 D2 X K1 K2 R1 R2] Ha Hp Hn Ka Kp. constructor.
  - intros k. apply lt_pow2_bits. intros i Hi. destruct (N.testbit (occ_of a' k) i) eqn:E; [exfalso|reflexivity].
    destruct (in_dec N.eq_dec i news) as [Hin|Hout].
    + destruct (Hn i Hin) as (Hlt & _). lia.
    + apply (Ha k i Hout) in E. pose proof (testbit_lt _ 64 i (B1 k) E). lia.
  - intros k. apply (sub_lt (occ_of p' k) (occ_of p k)); [|apply B2]. intros i Hi. now apply (Hp k i).
  - intros k k' sq Hne H. destruct (in_dec N.eq_dec sq news) as [Hin|Hout].
    + destruct (Hn sq Hin) as (_ & Hu & _). now apply (Hu k k').
    + destruct (N.testbit (occ_of a' k') sq) eqn:E; [|reflexivity].
      apply (Ha k sq Hout) in H. apply (Ha k' sq Hout) in E. rewrite (D1 k k' sq Hne H) in E. discriminate.
  - intros k k' sq Hne H. destruct (N.testbit (occ_of p' k') sq) eqn:E; [|reflexivity].
    apply Hp in H as [H _]. apply Hp in E as [E _]. rewrite (D2 k k' sq Hne H) in E. discriminate.
  - intros k k' sq H. destruct (N.testbit (occ_of p' k') sq) eqn:E; [|reflexivity].
    apply Hp in E as [E Hout]. apply (Ha k sq Hout) in H. rewrite (X k k' sq H) in E. discriminate.
  - exact Ka.
  - exact Kp.
  - intros sq H. destruct (in_dec N.eq_dec sq news) as [Hin|Hout].
    + destruct (Hn sq Hin) as (_ & _ & Hr). now apply Hr.
    + apply R1. exact (Ha PAWN sq Hout H).
  - intros sq H. apply R2. exact (proj1 (Hp PAWN sq H)).
Qed.

(* ================================================================== *)
(* 3. a valid position has no pseudo-legal king capture                *)
(* ================================================================== *)
Lemma ray_attacks_sym b ds s t : negd_closed ds -> s < 64 -> t < 64 ->
  N.testbit (ray_attacks ds s (total_occ b)) t = true -> N.testbit (ray_attacks ds t (total_occ b)) s = true.
Proof.
  intros Hcl Hs Ht H.
  apply (ray_link (abs b) (total_occ b) ds t s (total_occ_matches b) Hcl Ht Hs).
  apply (slides_ray_attacks (abs b) (total_occ b) ds s t (total_occ_matches b)). exact H.
Qed.

Lemma step_attacks_sym ds ds' s t : (forall d, In d ds <-> In (negd d) ds') -> s < 64 -> t < 64 ->
  N.testbit (step_attacks ds' s) t = true -> N.testbit (step_attacks ds t) s = true.
Proof.
  intros Hcl Hs Ht H. apply (step_link ds ds' t s Hcl Ht Hs). apply (step_bridge ds' s t). exact H.
Qed.

Section NoKingCapture.
Variable T : Tables.t.
Hypothesis OK : tables_attacks_ok T = true.

Lemma in_check_opp b : turn b < 2 ->
  in_check_by_bits T b (opposite (turn b)) =
  square_in_check T (opposite (turn b)) (active b) (ctz64 (kings (passive b)))
                  (N.lor (full_occ (passive b)) (full_occ (active b))).
Proof.
  intros Ht. unfold in_check_by_bits, active, passive, is_white_turn, opposite, WHITE.
  assert (E : turn b = 0 \/ turn b = 1) by lia. destruct E as [-> | ->]; reflexivity.
Qed.

Lemma square_in_check_or c pas sq full :
  square_in_check T c pas sq full =
  nz (N.land (rook_attacks T sq full) (N.lor (rooks pas) (queens pas))) ||
  nz (N.land (bishop_attacks T sq full) (N.lor (bishops pas) (queens pas))) ||
  nz (N.land (leaper (knight_tbl T) sq) (knights pas)) ||
  nz (N.land (leaper (if c =? WHITE then wpawn_tbl T else bpawn_tbl T) sq) (pawns pas)) ||
  nz (N.land (leaper (king_tbl T) sq) (kings pas)).
Proof. unfold square_in_check. repeat match goal with |- context [nz ?x] => destruct (nz x) end; reflexivity. Qed.

Lemma attacked_king_invalid b t : wf b = true -> N.testbit (kings (passive b)) t = true ->
  square_in_check T (opposite (turn b)) (active b) t (total_occ b) = true -> is_valid T b = false.
Proof.
  intros Hwf Hk Hc. unfold is_valid. rewrite in_check_opp by (now apply wf_turn).
  destruct (so_kp _ _ (wf_active_passive b Hwf)) as [x Kx]. rewrite Kx in Hk |- *.
  rewrite bit_spec in Hk. apply N.eqb_eq in Hk. subst x. rewrite ctz64_bit.
  rewrite N.lor_comm, total_occ_active_passive, Hc. reflexivity.
Qed.

Lemma active_sq_lt b k s : wf b = true -> N.testbit (occ_of (active b) k) s = true -> s < 64.
Proof. intros Hwf H. exact (testbit_lt _ 64 s (so_ba _ _ (wf_active_passive b Hwf) k) H). Qed.

Lemma check_from_piece b s t pc att : wf b = true ->
  In (pc, att) (piece_attack_sets T b s) -> N.testbit (occ_of (active b) pc) s = true ->
  N.testbit att t = true -> t < 64 ->
  square_in_check T (opposite (turn b)) (active b) t (total_occ b) = true.
Proof.
  intros Hwf Hin Hs Hatt Ht. pose proof (active_sq_lt b pc s Hwf Hs) as Hs64.
  unfold piece_attack_sets in Hin. cbv zeta in Hin. rewrite total_occ_active_passive in Hin.
  unfold rook_attacks, bishop_attacks in Hin.
  destruct (generic_slider_values T OK s (total_occ b) Hs64) as [Rs Bs]. rewrite Rs, Bs in Hin.
  destruct (generic_leapers T OK s Hs64) as (Ks & Ns & _ & _). rewrite Ks, Ns in Hin.
  rewrite square_in_check_or. unfold rook_attacks, bishop_attacks.
  destruct (generic_slider_values T OK t (total_occ b) Ht) as [Rt Bt]. rewrite Rt, Bt.
  destruct (generic_leapers T OK t Ht) as (Kt & Nt & _ & _). rewrite Kt, Nt.
  rewrite !orb_true_iff, !nz_land_exists.
  cbn [In] in Hin. destruct Hin as [E|[E|[E|[E|[E|[E|[]]]]]]]; injection E as <- <-; cbv [occ_of QUEEN BISHOP ROOK KNIGHT KING] in Hs.
  - left; left; left; left. exists s. split; [apply ray_attacks_sym; auto; exact orth_closed|].
    rewrite N.lor_spec, Hs. apply orb_true_r.
  - left; left; left; right. exists s. split; [apply ray_attacks_sym; auto; exact diag_closed|].
    rewrite N.lor_spec, Hs. apply orb_true_r.
  - left; left; left; right. exists s. split; [apply ray_attacks_sym; auto; exact diag_closed|].
    rewrite N.lor_spec, Hs. reflexivity.
  - left; left; left; left. exists s. split; [apply ray_attacks_sym; auto; exact orth_closed|].
    rewrite N.lor_spec, Hs. reflexivity.
  - left; left; right. exists s. split; [|exact Hs].
    apply (step_attacks_sym KNIGHT_DIRS KNIGHT_DIRS s t); auto. apply negd_closed_iff. exact knight_closed.
  - right. exists s. split; [|exact Hs].
    apply (step_attacks_sym KING_DIRS KING_DIRS s t); auto. apply negd_closed_iff. exact king_closed.
Qed.

Lemma check_from_pawn b s t : wf b = true -> N.testbit (pawns (active b)) s = true ->
  N.testbit (leaper (if is_white_turn b then wpawn_tbl T else bpawn_tbl T) s) t = true -> t < 64 ->
  square_in_check T (opposite (turn b)) (active b) t (total_occ b) = true.
Proof.
  intros Hwf Hs Hatt Ht. pose proof (active_sq_lt b PAWN s Hwf Hs) as Hs64.
  rewrite square_in_check_or, !orb_true_iff, !nz_land_exists. left; right. exists s. split; [|exact Hs].
  destruct (generic_leapers T OK s Hs64) as (_ & _ & Ws & Bs).
  destruct (generic_leapers T OK t Ht) as (_ & _ & Wt & Bt).
  pose proof (wf_turn b Hwf) as Hturn. assert (E : turn b = 0 \/ turn b = 1) by lia.
  unfold is_white_turn, opposite, WHITE in *. destruct E as [E|E]; rewrite E in *.
  - change (0 =? 0) with true in Hatt. change (1 - 0 =? 0) with false. cbv iota in *. rewrite Ws in Hatt. rewrite Bt.
    apply (step_attacks_sym BPAWN_DIRS WPAWN_DIRS s t); auto. exact (pawn_steps_neg Black).
  - change (1 =? 0) with false in Hatt. change (1 - 1 =? 0) with true. cbv iota in *. rewrite Bs in Hatt. rewrite Wt.
    apply (step_attacks_sym WPAWN_DIRS BPAWN_DIRS s t); auto. exact (pawn_steps_neg White).
Qed.

Lemma passive_king_lt b t : wf b = true -> N.testbit (kings (passive b)) t = true -> t < 64.
Proof. intros Hwf H. exact (testbit_lt _ 64 t (so_bp _ _ (wf_active_passive b Hwf) KING) H). Qed.

Theorem no_king_capture_piece b s t pc att : wf b = true -> is_valid T b = true ->
  In (pc, att) (piece_attack_sets T b s) -> N.testbit (occ_of (active b) pc) s = true ->
  N.testbit att t = true -> N.testbit (kings (passive b)) t = false.
Proof.
  intros Hwf Hv Hin Hs Hatt. destruct (N.testbit (kings (passive b)) t) eqn:Ek; [exfalso|reflexivity].
  pose proof (passive_king_lt b t Hwf Ek) as Ht.
  rewrite (attacked_king_invalid b t Hwf Ek (check_from_piece b s t pc att Hwf Hin Hs Hatt Ht)) in Hv. discriminate.
Qed.

Theorem no_king_capture_pawn b s t : wf b = true -> is_valid T b = true ->
  N.testbit (pawns (active b)) s = true -> N.testbit (pawn_capture_set T b s) t = true ->
  N.testbit (kings (passive b)) t = false.
Proof.
  intros Hwf Hv Hs Hatt. destruct (N.testbit (kings (passive b)) t) eqn:Ek; [exfalso|reflexivity].
  pose proof (passive_king_lt b t Hwf Ek) as Ht.
  unfold pawn_capture_set in Hatt. cbv zeta in Hatt. rewrite clear_testbit, N.land_spec in Hatt.
  apply andb_true_iff in Hatt as [Hatt _]. apply andb_true_iff in Hatt as [Hatt _].
  rewrite (attacked_king_invalid b t Hwf Ek (check_from_pawn b s t Hwf Hs Hatt Ht)) in Hv. discriminate.
Qed.

End NoKingCapture.

(* ================================================================== *)
(* 4. the four shapes of a move, on the piece boards                   *)
(* ================================================================== *)
Lemma piece_at_occ p t k : side_disj p -> N.testbit (occ_of p k) t = true -> piece_at p t = k.
Proof.
  intros D H. pose proof (occ_nz_piece_ok _ _ _ H) as Hk. rewrite piece_at_unfold.
  assert (F : forall k', k <> k' -> N.testbit (occ_of p k') t = false) by (intros k' Hne; now apply (D k k' t)).
  pose proof (F 1) as F1. pose proof (F 2) as F2. pose proof (F 3) as F3.
  pose proof (F 4) as F4. pose proof (F 5) as F5. pose proof (F 6) as F6. cbn [occ_of] in F1, F2, F3, F4, F5, F6.
  unfold piece_ok in Hk. cbn [In] in Hk.
  destruct Hk as [<-|[<-|[<-|[<-|[<-|[<-|[]]]]]]]; cbn [occ_of] in H;
    repeat first [rewrite F1 by discriminate | rewrite F2 by discriminate | rewrite F3 by discriminate
                 | rewrite F4 by discriminate | rewrite F5 by discriminate | rewrite F6 by discriminate];
    rewrite H; reflexivity.
Qed.

Lemma piece_at_free p t : (forall k, N.testbit (occ_of p k) t = false) -> piece_at p t = NO_PIECE.
Proof.
  intros F. rewrite piece_at_unfold.
  pose proof (F 1) as F1. pose proof (F 2) as F2. pose proof (F 3) as F3.
  pose proof (F 4) as F4. pose proof (F 5) as F5. pose proof (F 6) as F6. cbn [occ_of] in F1, F2, F3, F4, F5, F6.
  now rewrite F1, F2, F3, F4, F5, F6.
Qed.

Lemma piece_at_not_king p t : N.testbit (kings p) t = false -> piece_at p t <> KING.
Proof.
  intros Hk E. destruct (piece_at_cases p t) as [[H0|[_ H1]] _]; [rewrite H0 in E; discriminate|].
  rewrite E in H1. change (occ_of p KING) with (kings p) in H1. congruence.
Qed.

Lemma full_occ_free p sq : N.testbit (full_occ p) sq = false -> forall k, N.testbit (occ_of p k) sq = false.
Proof.
  intros H k. destruct (N.testbit (occ_of p k) sq) eqn:E; [|reflexivity]. apply occ_of_sub_full in E. congruence.
Qed.

Lemma free_full_occ p sq : (forall k, N.testbit (occ_of p k) sq = false) -> N.testbit (full_occ p) sq = false.
Proof.
  intros F. unfold full_occ. rewrite !N.lor_spec.
  pose proof (F 1) as F1. pose proof (F 2) as F2. pose proof (F 3) as F3.
  pose proof (F 4) as F4. pose proof (F 5) as F5. pose proof (F 6) as F6. cbn [occ_of] in F1, F2, F3, F4, F5, F6.
  now rewrite F1, F2, F3, F4, F5, F6.
Qed.

(* what the rest of the argument needs to know about a non-castling move *)
Record step_facts (A P a0 p0 : pstate) (s t : N) : Prop := {
  sf_ok : sides_ok a0 p0;
  sf_keep : forall k sq, sq <> s -> N.testbit (occ_of A k) sq = true -> N.testbit (occ_of a0 k) sq = true;
  sf_rooks : forall sq, sq <> t -> N.testbit (rooks P) sq = true -> N.testbit (rooks p0) sq = true;
  sf_kings : kings p0 = kings P;
  sf_sub_a : forall k sq, sq <> t -> N.testbit (occ_of a0 k) sq = true -> N.testbit (occ_of A k) sq = true;
  sf_sub_p : forall k sq, N.testbit (occ_of p0 k) sq = true -> N.testbit (occ_of P k) sq = true
}.

Lemma neq_eqb x y : x <> y -> (x =? y) = false.
Proof. intros H. now apply N.eqb_neq. Qed.

Lemma one_king_moved A pc s t : one_king A -> N.testbit (occ_of A pc) s = true -> piece_ok pc ->
  one_king (or_occ (clr_occ A pc (bit s)) pc (bit t)).
Proof.
  intros [x Kx] Hs Hpc. unfold one_king.
  change (exists y, occ_of (or_occ (clr_occ A pc (bit s)) pc (bit t)) KING = bit y).
  rewrite (occ_or _ _ _ _ Hpc), occ_clr. destruct (N.eqb_spec KING pc) as [<-|Hne].
  - change (occ_of A KING) with (kings A) in *. rewrite Kx in Hs |- *. rewrite bit_spec in Hs. apply N.eqb_eq in Hs. subst x.
    exists t. unfold clear. rewrite N.ldiff_diag. apply N.lor_0_l.
  - exists x. exact Kx.
Qed.

(* a piece (or a pawn that does not promote) goes from s to t, taking whatever stands on t *)
Lemma ordinary_ok A P pc s t :
  sides_ok A P -> piece_ok pc -> N.testbit (occ_of A pc) s = true ->
  (forall k, N.testbit (occ_of A k) t = false) -> t < 64 -> (pc = PAWN -> 8 <= t < 56) ->
  N.testbit (kings P) t = false ->
  step_facts A P (or_occ (clr_occ A pc (bit s)) pc (bit t)) (clr_occ P (piece_at P t) (bit t)) s t.
Proof.
  intros H Hpc Hs Hfree Ht Hrk Hnk.
  assert (Hpa : piece_at P t <> KING) by now apply piece_at_not_king.
  constructor.
  - apply (sides_ok_step A P _ _ [t] H).
    + intros k sq Hout Hb. rewrite (tb_or _ _ _ _ _ Hpc), tb_clr, !bit_spec in Hb.
      rewrite (neq_eqb sq t) in Hb by (intros ->; apply Hout; now left).
      rewrite andb_false_r, orb_false_r in Hb. now apply andb_true_iff in Hb as [Hb _].
    + intros k sq Hb. rewrite tb_clr, bit_spec in Hb. apply andb_true_iff in Hb as [Hb Hc]. split; [exact Hb|].
      intros [<-|[]]. rewrite (piece_at_occ P t k (so_dp _ _ H) Hb), !N.eqb_refl in Hc. discriminate.
    + intros sq [<-|[]]. split; [exact Ht|]. split.
      * intros k k' Hne Hb. rewrite (tb_or _ _ _ _ _ Hpc), tb_clr, !bit_spec, !Hfree, (N.eqb_refl t) in Hb.
        rewrite (tb_or _ _ _ _ _ Hpc), tb_clr, !bit_spec, !Hfree, (N.eqb_refl t).
        cbn [andb orb] in *. rewrite andb_true_r in *. apply N.eqb_eq in Hb. subst k. now apply neq_eqb, not_eq_sym.
      * change (pawns ?p) with (occ_of p PAWN). rewrite (tb_or _ _ _ _ _ Hpc), tb_clr, !bit_spec, !Hfree, (N.eqb_refl t).
        cbn [andb orb]. rewrite andb_true_r. intros Hb. apply N.eqb_eq in Hb. now apply Hrk.
    + apply one_king_moved; [exact (so_ka _ _ H)|exact Hs|exact Hpc].
    + destruct (so_kp _ _ H) as [x Kx]. exists x. change (kings ?p) with (occ_of p KING) in *.
      rewrite occ_clr. now rewrite (neq_eqb KING (piece_at P t)) by now apply not_eq_sym.
  - intros k sq Hne Hb. rewrite (tb_or _ _ _ _ _ Hpc), tb_clr, !bit_spec, Hb, (neq_eqb sq s Hne), andb_false_r. reflexivity.
  - intros sq Hne Hb. change (rooks ?p) with (occ_of p ROOK) in *.
    rewrite tb_clr, bit_spec, Hb, (neq_eqb sq t Hne), andb_false_r. reflexivity.
  - change (kings ?p) with (occ_of p KING). rewrite occ_clr.
    now rewrite (neq_eqb KING (piece_at P t)) by now apply not_eq_sym.
  - intros k sq Hne Hb. rewrite (tb_or _ _ _ _ _ Hpc), tb_clr, !bit_spec, (neq_eqb sq t Hne) in Hb.
    rewrite andb_false_r, orb_false_r in Hb. now apply andb_true_iff in Hb as [Hb _].
  - intros k sq Hb. rewrite tb_clr in Hb. now apply andb_true_iff in Hb as [Hb _].
Qed.

Lemma promo_piece pr : In pr PROMO_PIECES -> piece_ok pr /\ pr <> PAWN /\ pr <> KING.
Proof. unfold PROMO_PIECES, piece_ok. cbn [In]. intros [<-|[<-|[<-|[<-|[]]]]]; repeat split; try discriminate; tauto. Qed.

(* a pawn leaves s, the piece pr appears on t *)
Lemma promo_ok A P pr s t :
  sides_ok A P -> In pr PROMO_PIECES -> N.testbit (pawns A) s = true ->
  (forall k, N.testbit (occ_of A k) t = false) -> t < 64 -> N.testbit (kings P) t = false ->
  step_facts A P (or_occ (clr_occ A PAWN (bit s)) pr (bit t)) (clr_occ P (piece_at P t) (bit t)) s t.
Proof.
  intros H Hpr Hs Hfree Ht Hnk. destruct (promo_piece pr Hpr) as (Hpc & HnP & HnK).
  assert (Hpa : piece_at P t <> KING) by now apply piece_at_not_king.
  constructor.
  - apply (sides_ok_step A P _ _ [t] H).
    + intros k sq Hout Hb. rewrite (tb_or _ _ _ _ _ Hpc), tb_clr, !bit_spec in Hb.
      rewrite (neq_eqb sq t) in Hb by (intros ->; apply Hout; now left).
      rewrite andb_false_r, orb_false_r in Hb. now apply andb_true_iff in Hb as [Hb _].
    + intros k sq Hb. rewrite tb_clr, bit_spec in Hb. apply andb_true_iff in Hb as [Hb Hc]. split; [exact Hb|].
      intros [<-|[]]. rewrite (piece_at_occ P t k (so_dp _ _ H) Hb), !N.eqb_refl in Hc. discriminate.
    + intros sq [<-|[]]. split; [exact Ht|]. split.
      * intros k k' Hne Hb. rewrite (tb_or _ _ _ _ _ Hpc), tb_clr, !bit_spec, !Hfree, (N.eqb_refl t) in Hb.
        rewrite (tb_or _ _ _ _ _ Hpc), tb_clr, !bit_spec, !Hfree, (N.eqb_refl t).
        cbn [andb orb] in *. rewrite andb_true_r in *. apply N.eqb_eq in Hb. subst k. now apply neq_eqb, not_eq_sym.
      * change (pawns ?p) with (occ_of p PAWN). rewrite (tb_or _ _ _ _ _ Hpc), tb_clr, !bit_spec, !Hfree, (N.eqb_refl t).
        cbn [andb orb]. rewrite andb_true_r. intros Hb. apply N.eqb_eq in Hb. now elim HnP.
    + destruct (so_ka _ _ H) as [x Kx]. exists x. change (kings ?p) with (occ_of p KING) in *.
      rewrite (occ_or _ _ _ _ Hpc), occ_clr. rewrite (neq_eqb KING pr) by now apply not_eq_sym. exact Kx.
    + destruct (so_kp _ _ H) as [x Kx]. exists x. change (kings ?p) with (occ_of p KING) in *.
      rewrite occ_clr. now rewrite (neq_eqb KING (piece_at P t)) by now apply not_eq_sym.
  - intros k sq Hne Hb. rewrite (tb_or _ _ _ _ _ Hpc), tb_clr, !bit_spec, Hb, (neq_eqb sq s Hne), andb_false_r. reflexivity.
  - intros sq Hne Hb. change (rooks ?p) with (occ_of p ROOK) in *.
    rewrite tb_clr, bit_spec, Hb, (neq_eqb sq t Hne), andb_false_r. reflexivity.
  - change (kings ?p) with (occ_of p KING). rewrite occ_clr.
    now rewrite (neq_eqb KING (piece_at P t)) by now apply not_eq_sym.
  - intros k sq Hne Hb. rewrite (tb_or _ _ _ _ _ Hpc), tb_clr, !bit_spec, (neq_eqb sq t Hne) in Hb.
    rewrite andb_false_r, orb_false_r in Hb. now apply andb_true_iff in Hb as [Hb _].
  - intros k sq Hb. rewrite tb_clr in Hb. now apply andb_true_iff in Hb as [Hb _].
Qed.

Lemma piece_ok_PAWN : piece_ok PAWN. Proof. unfold piece_ok. cbn. tauto. Qed.
Lemma piece_ok_ROOK : piece_ok ROOK. Proof. unfold piece_ok. cbn. tauto. Qed.
Lemma piece_ok_KING : piece_ok KING. Proof. unfold piece_ok. cbn. tauto. Qed.

(* en passant onto an EMPTY square t; whatever v is, only the passive pawn board shrinks *)
Lemma ep_case_ok A P s t v :
  sides_ok A P -> N.testbit (pawns A) s = true ->
  (forall k, N.testbit (occ_of A k) t = false) -> (forall k, N.testbit (occ_of P k) t = false) -> 8 <= t < 56 ->
  step_facts A P (or_occ (clr_occ A PAWN (bit s)) PAWN (bit t)) (clr_occ P PAWN v) s t.
Proof.
  intros H Hs HfA HfP Ht. pose proof piece_ok_PAWN as Hpc.
  constructor.
  - apply (sides_ok_step A P _ _ [t] H).
    + intros k sq Hout Hb. rewrite (tb_or _ _ _ _ _ Hpc), tb_clr, !bit_spec in Hb.
      rewrite (neq_eqb sq t) in Hb by (intros ->; apply Hout; now left).
      rewrite andb_false_r, orb_false_r in Hb. now apply andb_true_iff in Hb as [Hb _].
    + intros k sq Hb. rewrite tb_clr in Hb. apply andb_true_iff in Hb as [Hb _]. split; [exact Hb|].
      intros [<-|[]]. rewrite HfP in Hb. discriminate.
    + intros sq [<-|[]]. split; [lia|]. split.
      * intros k k' Hne Hb. rewrite (tb_or _ _ _ _ _ Hpc), tb_clr, !bit_spec, !HfA, (N.eqb_refl t) in Hb.
        rewrite (tb_or _ _ _ _ _ Hpc), tb_clr, !bit_spec, !HfA, (N.eqb_refl t).
        cbn [andb orb] in *. rewrite andb_true_r in *. apply N.eqb_eq in Hb. subst k. now apply neq_eqb, not_eq_sym.
      * intros _. exact Ht.
    + apply one_king_moved; [exact (so_ka _ _ H)|exact Hs|exact Hpc].
    + destruct (so_kp _ _ H) as [x Kx]. exists x. change (kings ?p) with (occ_of p KING) in *.
      rewrite occ_clr. exact Kx.
  - intros k sq Hne Hb. rewrite (tb_or _ _ _ _ _ Hpc), tb_clr, !bit_spec, Hb, (neq_eqb sq s Hne), andb_false_r. reflexivity.
  - intros sq _ Hb. change (rooks ?p) with (occ_of p ROOK) in *. rewrite tb_clr, Hb. reflexivity.
  - change (kings ?p) with (occ_of p KING). now rewrite occ_clr.
  - intros k sq Hne Hb. rewrite (tb_or _ _ _ _ _ Hpc), tb_clr, !bit_spec, (neq_eqb sq t Hne) in Hb.
    rewrite andb_false_r, orb_false_r in Hb. now apply andb_true_iff in Hb as [Hb _].
  - intros k sq Hb. rewrite tb_clr in Hb. now apply andb_true_iff in Hb as [Hb _].
Qed.

(* castling: rook rf -> rt, king kf -> kt, both landing squares empty *)
Lemma castle_ok A P rf kf rt kt :
  sides_ok A P -> N.testbit (rooks A) rf = true -> N.testbit (kings A) kf = true ->
  (forall k, N.testbit (occ_of A k) rt = false) -> (forall k, N.testbit (occ_of A k) kt = false) ->
  (forall k, N.testbit (occ_of P k) rt = false) -> (forall k, N.testbit (occ_of P k) kt = false) ->
  rt <> kt -> rt < 64 -> kt < 64 ->
  sides_ok (do_castle A rf kf rt kt) P.
Proof.
  intros H Hr Hk FAr FAk FPr FPk Hne Hrt Hkt.
  pose proof piece_ok_ROOK as HR. pose proof piece_ok_KING as HK.
  assert (Tb : forall k sq, N.testbit (occ_of (do_castle A rf kf rt kt) k) sq =
               (N.testbit (occ_of A k) sq && negb ((k =? ROOK) && (sq =? rf)) && negb ((k =? KING) && (sq =? kf)))
               || ((k =? ROOK) && (sq =? rt)) || ((k =? KING) && (sq =? kt))).
  { intros k sq. unfold do_castle. now rewrite (tb_or _ _ _ _ _ HK), (tb_or _ _ _ _ _ HR), !tb_clr, !bit_spec. }
  apply (sides_ok_step A P _ _ [rt; kt] H).
  - intros k sq Hout Hb. rewrite Tb in Hb.
    rewrite (neq_eqb sq rt), (neq_eqb sq kt) in Hb by (intros ->; apply Hout; cbn [In]; tauto).
    rewrite !andb_false_r, !orb_false_r in Hb. apply andb_true_iff in Hb as [Hb _]. now apply andb_true_iff in Hb as [Hb _].
  - intros k sq Hb. split; [exact Hb|]. intros [<-|[<-|[]]]; [rewrite FPr in Hb|rewrite FPk in Hb]; discriminate.
  - intros sq [<-|[<-|[]]]; (split; [assumption|]); split.
    + intros k k' Hkk Hb. rewrite Tb in Hb. rewrite Tb. rewrite !FAr, N.eqb_refl, (neq_eqb rt kt Hne) in *.
      cbn [andb orb] in *. rewrite !andb_true_r, !andb_false_r, !orb_false_r in *.
      apply N.eqb_eq in Hb. subst k. now apply neq_eqb, not_eq_sym.
    + change (pawns ?p) with (occ_of p PAWN). rewrite Tb, !FAr. cbn. discriminate.
    + intros k k' Hkk Hb. rewrite Tb in Hb. rewrite Tb. rewrite !FAk, N.eqb_refl, (neq_eqb kt rt (not_eq_sym Hne)) in *.
      cbn [andb orb] in *. rewrite !andb_true_r, !andb_false_r in *. cbn [orb] in *.
      apply N.eqb_eq in Hb. subst k. now apply neq_eqb, not_eq_sym.
    + change (pawns ?p) with (occ_of p PAWN). rewrite Tb, !FAk. cbn. discriminate.
  - destruct (so_ka _ _ H) as [x Kx]. exists kt. unfold do_castle. change (kings ?p) with (occ_of p KING) in *.
    rewrite (occ_or _ _ _ _ HK), N.eqb_refl, (occ_or _ _ _ _ HR). change (KING =? ROOK) with false. cbv iota.
    rewrite !occ_clr, N.eqb_refl. change (KING =? ROOK) with false. cbv iota.
    rewrite Kx in Hk |- *. rewrite bit_spec in Hk. apply N.eqb_eq in Hk. subst x.
    unfold clear. rewrite N.ldiff_diag. apply N.lor_0_l.
  - exact (so_kp _ _ H).
Qed.

(* ================================================================== *)
(* 5. castling rights, e.p. square, and putting the board together     *)
(* ================================================================== *)
Definition rights_side (p : pstate) (qr kr ke : N) : Prop :=
  (qs p = true -> N.testbit (rooks p) qr = true /\ N.testbit (kings p) ke = true) /\
  (ks p = true -> N.testbit (rooks p) kr = true /\ N.testbit (kings p) ke = true).

(* home squares of the side that is white (true) / black (false) *)
Definition home_q (w : bool) : N := if w then A1 else A8.
Definition home_k (w : bool) : N := if w then H1 else H8.
Definition home_e (w : bool) : N := if w then E1 else E8.

Lemma rights_wf_intro b :
  rights_side (white b) A1 H1 E1 -> rights_side (black b) A8 H8 E8 -> rights_wf b = true.
Proof.
  intros [W1 W2] [B1 B2]. unfold rights_wf. rewrite !andb_true_iff. repeat split.
  - destruct (qs (white b)); [|reflexivity]. destruct (W1 eq_refl) as [-> ->]. reflexivity.
  - destruct (ks (white b)); [|reflexivity]. destruct (W2 eq_refl) as [-> ->]. reflexivity.
  - destruct (qs (black b)); [|reflexivity]. destruct (B1 eq_refl) as [-> ->]. reflexivity.
  - destruct (ks (black b)); [|reflexivity]. destruct (B2 eq_refl) as [-> ->]. reflexivity.
Qed.

Lemma rights_wf_sides b : rights_wf b = true ->
  rights_side (active b) (home_q (is_white_turn b)) (home_k (is_white_turn b)) (home_e (is_white_turn b)) /\
  rights_side (passive b) (home_q (negb (is_white_turn b))) (home_k (negb (is_white_turn b))) (home_e (negb (is_white_turn b))).
Proof.
  intros H. destruct (rights_wf_elim b H) as (R1 & R2 & R3 & R4). unfold active, passive, rights_side.
  destruct (is_white_turn b); cbn [negb home_q home_k home_e]; tauto.
Qed.

Lemma rights_wf_assemble wt a p t e f h :
  rights_side a (home_q wt) (home_k wt) (home_e wt) ->
  rights_side p (home_q (negb wt)) (home_k (negb wt)) (home_e (negb wt)) ->
  rights_wf (assemble wt a p t e f h) = true.
Proof. intros Ha Hp. apply rights_wf_intro; destruct wt; cbn [assemble white black]; assumption. Qed.

Lemma rights_mover A a0 qr kr ke s lq lk :
  rights_side A qr kr ke ->
  lq = qs A && ((s =? qr) || (s =? ke)) -> lk = ks A && ((s =? kr) || (s =? ke)) ->
  (s <> ke -> forall k sq, sq <> s -> N.testbit (occ_of A k) sq = true -> N.testbit (occ_of a0 k) sq = true) ->
  rights_side (set_rights a0 (if lq then false else qs A) (if lk then false else ks A)) qr kr ke.
Proof.
  intros [Rq Rk] -> -> Hsup. split; cbn [qs ks set_rights rooks kings]; intros H.
  - destruct (qs A) eqn:Eq; [|discriminate]. cbn [andb] in H.
    destruct ((s =? qr) || (s =? ke)) eqn:E; [discriminate|]. apply orb_false_iff in E as [E1 E2].
    apply N.eqb_neq in E1. apply N.eqb_neq in E2. destruct (Rq eq_refl) as [Hr Hk].
    split; [apply (Hsup E2 ROOK)|apply (Hsup E2 KING)]; auto.
  - destruct (ks A) eqn:Eq; [|discriminate]. cbn [andb] in H.
    destruct ((s =? kr) || (s =? ke)) eqn:E; [discriminate|]. apply orb_false_iff in E as [E1 E2].
    apply N.eqb_neq in E1. apply N.eqb_neq in E2. destruct (Rk eq_refl) as [Hr Hk].
    split; [apply (Hsup E2 ROOK)|apply (Hsup E2 KING)]; auto.
Qed.

Lemma rights_passive P p0 qr kr ke t lq lk :
  rights_side P qr kr ke -> qr <> kr ->
  lq = qs P && (t =? qr) -> lk = negb lq && ks P && (t =? kr) ->
  (forall sq, sq <> t -> N.testbit (rooks P) sq = true -> N.testbit (rooks p0) sq = true) -> kings p0 = kings P ->
  rights_side (set_rights p0 (if lq then false else qs P) (if lk then false else ks P)) qr kr ke.
Proof.
  intros [Rq Rk] Hne -> -> Hsup Hkk. split; cbn [qs ks set_rights rooks kings]; intros H; rewrite Hkk.
  - destruct (qs P) eqn:Eq; [|discriminate]. cbn [andb] in H.
    destruct (N.eqb_spec t qr) as [E|E]; [discriminate|]. destruct (Rq eq_refl) as [Hr Hk].
    split; [apply Hsup; auto|exact Hk].
  - destruct (ks P) eqn:Eq; [|destruct (negb _ && false && _); discriminate].
    destruct (Rk eq_refl) as [Hr Hk]. split; [|exact Hk]. apply Hsup; [|exact Hr].
    intros E. rewrite <- E in H. rewrite (N.eqb_refl kr), (neq_eqb kr qr (not_eq_sym Hne)), !andb_false_r in H. discriminate.
Qed.

(* the e.p. square is "none" or an empty square *)
Definition ep_free (b : board) : bool :=
  (ep b =? 0) || negb (N.testbit (N.lor (full_occ (white b)) (full_occ (black b))) (ep b)).

Lemma ep_free_elim b : ep_free b = true ->
  ep b = 0 \/ (forall k, N.testbit (occ_of (active b) k) (ep b) = false) /\
              (forall k, N.testbit (occ_of (passive b) k) (ep b) = false).
Proof.
  unfold ep_free. intros H. apply orb_true_iff in H as [H|H]; [left; now apply N.eqb_eq|right].
  apply negb_true_iff in H. rewrite N.lor_spec in H. apply orb_false_iff in H as [H1 H2].
  unfold active, passive. destruct (is_white_turn b); split; now apply full_occ_free.
Qed.

Lemma ep_free_assemble wt a p t e f h :
  e = 0 \/ (forall k, N.testbit (occ_of a k) e = false) /\ (forall k, N.testbit (occ_of p k) e = false) ->
  ep_free (assemble wt a p t e f h) = true.
Proof.
  intros [->|[Ha Hp]]; unfold ep_free; destruct wt; cbn [assemble white black ep]; try reflexivity;
    apply orb_true_iff; right; apply negb_true_iff; rewrite N.lor_spec;
    rewrite (free_full_occ a e Ha), (free_full_occ p e Hp); reflexivity.
Qed.

(* make without the rights *)
Definition pieces_make (wt : bool) (A P : pstate) (m : move) : option (pstate * pstate) :=
  let sm := bit (src m) in let tm := bit (dst m) in
  if castle m then
    match castle_squares (dst m) with
    | Some (rf, rt) => Some (do_castle A rf (src m) rt (dst m), P)
    | None => None
    end
  else if ep_attack m then
    Some (or_occ (clr_occ A PAWN sm) PAWN tm, clr_occ P PAWN (if wt then w64 (N.shiftl tm 8) else N.shiftr tm 8))
  else if negb (promo m =? NO_PIECE) then
    Some (or_occ (clr_occ A PAWN sm) (promo m) tm, clr_occ P (piece_attacked m) tm)
  else
    Some (or_occ (clr_occ A (piece_moved m) sm) (piece_moved m) tm, clr_occ P (piece_attacked m) tm).

Lemma sides_make_pieces wt A P m :
  sides_make wt A P m =
  match pieces_make wt A P m with
  | Some (a0, p0) =>
      Some (set_rights a0 (if self_lost_qs m then false else qs A) (if self_lost_ks m then false else ks A),
            set_rights p0 (if opp_lost_qs m then false else qs P) (if opp_lost_ks m then false else ks P))
  | None => None
  end.
Proof.
  unfold sides_make, pieces_make. cbv zeta.
  destruct (castle m); [destruct (castle_squares (dst m)) as [[rf rt]|]; [|reflexivity]|];
    [|destruct (ep_attack m); [|destruct (negb (promo m =? NO_PIECE))]]; push_rights; reflexivity.
Qed.

Lemma assemble_good wt a p t e f h :
  sides_ok a p ->
  rights_side a (home_q wt) (home_k wt) (home_e wt) ->
  rights_side p (home_q (negb wt)) (home_k (negb wt)) (home_e (negb wt)) ->
  t < 2 -> e < 64 ->
  (e = 0 \/ (forall k, N.testbit (occ_of a k) e = false) /\ (forall k, N.testbit (occ_of p k) e = false)) ->
  wf (assemble wt a p t e f h) = true /\ rights_wf (assemble wt a p t e f h) = true /\
  ep_free (assemble wt a p t e f h) = true.
Proof.
  intros H Ra Rp Ht He Hf. split; [now apply wf_assemble|]. split; [now apply rights_wf_assemble|now apply ep_free_assemble].
Qed.

(* ================================================================== *)
(* 6. every generated move                                             *)
(* ================================================================== *)
(* RANK_1 / RANK_8 (the promotion test of the pawn code) are the real rank masks *)
Definition tables_rank18_ok (T : Tables.t) : bool :=
  (RANK_1 T =? 18374686479671623680) && (RANK_8 T =? 255).

Lemma nz_bit_land t X : nz (N.land (bit t) X) = N.testbit X t.
Proof. rewrite N.land_comm. apply nz_land_bit. Qed.

Lemma tb_255 t : N.testbit 255 t = (t <? 8).
Proof.
  change 255 with (N.ones 8). destruct (N.ltb_spec t 8); [now apply N.ones_spec_low|now apply N.ones_spec_high].
Qed.

Lemma tb_rank1 t : t < 64 -> N.testbit 18374686479671623680 t = (56 <=? t).
Proof.
  intros Ht. change 18374686479671623680 with (N.shiftl (N.ones 8) 56). destruct (N.leb_spec 56 t).
  - rewrite N.shiftl_spec_high by lia. apply N.ones_spec_low. lia.
  - now apply N.shiftl_spec_low.
Qed.

Lemma all_occ_free b sq : N.testbit (all_occ b) sq = false ->
  (forall k, N.testbit (occ_of (active b) k) sq = false) /\ (forall k, N.testbit (occ_of (passive b) k) sq = false).
Proof.
  unfold all_occ. rewrite N.lor_spec. intros H. apply orb_false_iff in H as [H1 H2]. split; now apply full_occ_free.
Qed.

Lemma land_bit_free b k : N.land (bit k) (all_occ b) = 0 -> N.testbit (all_occ b) k = false.
Proof. intros H. rewrite N.land_comm in H. now apply land_zero_testbit. Qed.

Section Preserve.
Variable T : Tables.t.
Hypothesis HC : tables_castle_ok T = true.
Hypothesis OK : tables_attacks_ok T = true.
Hypothesis HB : tables_bounded T = true.
Hypothesis HG : tables_geom_ok T = true.
Hypothesis HR : tables_rank18_ok T = true.

Lemma rank8_val : RANK_8 T = 255.
Proof. unfold tables_rank18_ok in HR. apply andb_true_iff in HR as [_ H]. now apply N.eqb_eq. Qed.
Lemma rank1_val : RANK_1 T = 18374686479671623680.
Proof. unfold tables_rank18_ok in HR. apply andb_true_iff in HR as [H _]. now apply N.eqb_eq. Qed.

(* the promotion-rank test of the capture code *)
Lemma not_last_rank t : t < 64 -> nz (N.land (bit t) (RANK_8 T)) || nz (N.land (bit t) (RANK_1 T)) = false -> 8 <= t < 56.
Proof.
  intros Ht H. rewrite !nz_bit_land, rank8_val, rank1_val, tb_255, (tb_rank1 t Ht) in H.
  apply orb_false_iff in H as [H1 H2]. apply N.ltb_ge in H1. apply N.leb_gt in H2. clear - H1 H2. lia.
Qed.

(* ---------- the piece boards after each shape of move ---------- *)
Lemma pm_ordinary b s t pc epo :
  pieces_make (is_white_turn b) (active b) (passive b) (mk T b s t pc false false NO_PIECE epo) =
  Some (or_occ (clr_occ (active b) pc (bit s)) pc (bit t), clr_occ (passive b) (piece_at (passive b) t) (bit t)).
Proof. unfold pieces_make. cbv zeta. rewrite mk_attacked_noep. reflexivity. Qed.

Lemma pm_promo b s t pr : In pr PROMO_PIECES ->
  pieces_make (is_white_turn b) (active b) (passive b) (mk T b s t PAWN false false pr NO_SQUARE) =
  Some (or_occ (clr_occ (active b) PAWN (bit s)) pr (bit t), clr_occ (passive b) (piece_at (passive b) t) (bit t)).
Proof.
  intros Hpr. unfold pieces_make. cbv zeta. rewrite mk_attacked_noep.
  unfold PROMO_PIECES in Hpr. cbn [In] in Hpr. destruct Hpr as [<-|[<-|[<-|[<-|[]]]]]; reflexivity.
Qed.

Lemma pm_ep b s t epo :
  pieces_make (is_white_turn b) (active b) (passive b) (mk T b s t PAWN false true NO_PIECE epo) =
  Some (or_occ (clr_occ (active b) PAWN (bit s)) PAWN (bit t),
        clr_occ (passive b) PAWN (if is_white_turn b then w64 (N.shiftl (bit t) 8) else N.shiftr (bit t) 8)).
Proof. reflexivity. Qed.

Lemma home_neq w : home_q w <> home_k w.
Proof. destruct w; discriminate. Qed.

Lemma opposite_lt b : turn b < 2 -> opposite (turn b) < 2.
Proof. unfold opposite. lia. Qed.

Lemma half_assemble wt a p t e f (c : bool) h :
  half (assemble wt a p t e f (if c then 0 else h + 1)) <= h + 1.
Proof. destruct wt, c; cbn [assemble half]; lia. Qed.

(* ---------- from the facts about the piece boards to the successor board ---------- *)
Lemma finish_noncastle b s t pc ie pr epo a0 p0 b' :
  wf b = true -> rights_wf b = true ->
  pieces_make (is_white_turn b) (active b) (passive b) (mk T b s t pc false ie pr epo) = Some (a0, p0) ->
  step_facts (active b) (passive b) a0 p0 s t ->
  (epo = 0 \/ epo < 64 /\ epo <> t /\ (forall k, N.testbit (occ_of (active b) k) epo = false) /\
                                     (forall k, N.testbit (occ_of (passive b) k) epo = false)) ->
  make b (mk T b s t pc false ie pr epo) = Some b' ->
  wf b' = true /\ rights_wf b' = true /\ ep_free b' = true /\ half b' <= half b + 1.
Proof.
  intros Hwf Hr Hpm SF Hepo Hm. rewrite make_split, sides_make_pieces, Hpm in Hm. injection Hm as <-.
  destruct (rights_wf_sides b Hr) as [RA RP]. pose proof (wf_turn b Hwf) as Hturn.
  rewrite <- !and_assoc. split; [rewrite !and_assoc|apply half_assemble].
  apply assemble_good.
  - apply sides_ok_rights. exact (sf_ok _ _ _ _ _ _ SF).
  - apply (rights_mover (active b) a0 _ _ _ s); [exact RA| | |].
    + unfold mk. cbv zeta. cbn [self_lost_qs]. destruct (is_white_turn b); reflexivity.
    + unfold mk. cbv zeta. cbn [self_lost_ks]. destruct (is_white_turn b); reflexivity.
    + intros _. exact (sf_keep _ _ _ _ _ _ SF).
  - apply (rights_passive (passive b) p0 _ _ _ t); [exact RP|apply home_neq| | | |].
    + unfold mk. cbv zeta. cbn [opp_lost_qs]. destruct (is_white_turn b); reflexivity.
    + unfold mk. cbv zeta. cbn [opp_lost_ks opp_lost_qs]. destruct (is_white_turn b); reflexivity.
    + exact (sf_rooks _ _ _ _ _ _ SF).
    + exact (sf_kings _ _ _ _ _ _ SF).
  - now apply opposite_lt.
  - change (epo < 64). destruct Hepo as [->|[H _]]; [reflexivity|exact H].
  - change (next_ep (mk T b s t pc false ie pr epo)) with epo.
    destruct Hepo as [->|(_ & Hne & FA & FP)]; [now left|right]. split; intros k; rewrite occ_of_set_rights.
    + destruct (N.testbit (occ_of a0 k) epo) eqn:E; [|reflexivity].
      apply (sf_sub_a _ _ _ _ _ _ SF k epo Hne) in E. now rewrite FA in E.
    + destruct (N.testbit (occ_of p0 k) epo) eqn:E; [|reflexivity].
      apply (sf_sub_p _ _ _ _ _ _ SF k epo) in E. now rewrite FP in E.
Qed.

Lemma finish_castle b s t rf rt b' :
  wf b = true -> rights_wf b = true -> s = home_e (is_white_turn b) -> castle_squares t = Some (rf, rt) ->
  sides_ok (do_castle (active b) rf s rt t) (passive b) ->
  make b (mk T b s t KING true false NO_PIECE NO_SQUARE) = Some b' ->
  wf b' = true /\ rights_wf b' = true /\ ep_free b' = true /\ half b' <= half b + 1.
Proof.
  intros Hwf Hr Hs Hsq Hok Hm. rewrite make_split, sides_make_pieces in Hm.
  assert (Hpm : pieces_make (is_white_turn b) (active b) (passive b) (mk T b s t KING true false NO_PIECE NO_SQUARE)
                = Some (do_castle (active b) rf s rt t, passive b)).
  { unfold pieces_make. cbv zeta. change (castle (mk T b s t KING true false NO_PIECE NO_SQUARE)) with true.
    change (dst (mk T b s t KING true false NO_PIECE NO_SQUARE)) with t. cbv iota. rewrite Hsq. reflexivity. }
  rewrite Hpm in Hm. injection Hm as <-.
  destruct (rights_wf_sides b Hr) as [RA RP]. pose proof (wf_turn b Hwf) as Hturn.
  rewrite <- !and_assoc. split; [rewrite !and_assoc|apply half_assemble].
  apply assemble_good.
  - apply sides_ok_rights. exact Hok.
  - apply (rights_mover (active b) _ _ _ _ s); [exact RA| | |].
    + unfold mk. cbv zeta. cbn [self_lost_qs]. destruct (is_white_turn b); reflexivity.
    + unfold mk. cbv zeta. cbn [self_lost_ks]. destruct (is_white_turn b); reflexivity.
    + intros Hne. now elim Hne.
  - apply (rights_passive (passive b) (passive b) _ _ _ t); [exact RP|apply home_neq| | | |].
    + unfold mk. cbv zeta. cbn [opp_lost_qs]. destruct (is_white_turn b); reflexivity.
    + unfold mk. cbv zeta. cbn [opp_lost_ks opp_lost_qs]. destruct (is_white_turn b); reflexivity.
    + intros sq _ H. exact H.
    + reflexivity.
  - now apply opposite_lt.
  - reflexivity.
  - now left.
Qed.

(* ---------- pawn pushes ---------- *)
Lemma single_push_val b s : wf b = true -> N.testbit (pawns (active b)) s = true ->
  8 <= s < 56 /\ (if is_white_turn b then s - 8 else s + 8) < 64 /\
  single_push b s = bit (if is_white_turn b then s - 8 else s + 8).
Proof.
  intros Hwf Hs. pose proof (pawn_square_range b s Hwf Hs) as R. split; [exact R|].
  unfold single_push. clear Hwf Hs. destruct (is_white_turn b); (split; [lia|]).
  - rewrite bit_shiftr8. destruct (N.leb_spec 8 s); [reflexivity|lia].
  - rewrite bit_shiftl8. destruct (N.ltb_spec (s + 8) 64); [reflexivity|lia].
Qed.

Lemma push_not_promo b s : wf b = true -> N.testbit (pawns (active b)) s = true ->
  nz (N.land (single_push b s) (promote_rank T b)) = false ->
  8 <= (if is_white_turn b then s - 8 else s + 8) < 56.
Proof.
  intros Hwf Hs H. destruct (single_push_val b s Hwf Hs) as (R & R' & E). rewrite E in H.
  unfold promote_rank in H. rewrite nz_bit_land in H. clear Hwf Hs E. destruct (is_white_turn b).
  - rewrite rank8_val, tb_255 in H. apply N.ltb_ge in H. clear - R H. lia.
  - rewrite rank1_val, tb_rank1 in H by exact R'. apply N.leb_gt in H. clear - R H. lia.
Qed.

Lemma double_push_val b s : wf b = true -> N.testbit (pawns (active b)) s = true ->
  nz (N.land (bit s) (double_rank T b)) = true ->
  double_push b s = bit (if is_white_turn b then s - 16 else s + 16) /\
  8 <= (if is_white_turn b then s - 16 else s + 16) < 56 /\
  (if is_white_turn b then s - 16 else s + 16) < 64 /\
  (if is_white_turn b then s - 8 else s + 8) <> (if is_white_turn b then s - 16 else s + 16).
Proof.
  intros Hwf Hs Hd. destruct (single_push_val b s Hwf Hs) as (R & _ & E).
  pose proof HG as HG'. unfold tables_geom_ok in HG'. apply andb_true_iff in HG' as [G2 G7].
  apply N.eqb_eq in G2. apply N.eqb_eq in G7.
  rewrite nz_bit_land in Hd. unfold double_push. rewrite E. unfold double_rank in Hd. clear Hwf Hs E.
  destruct (is_white_turn b).
  - rewrite G2 in Hd. apply rank2_range in Hd. clear G2 G7. rewrite bit_shiftr8.
    destruct (N.leb_spec 8 (s - 8)) as [L|L]; [|clear - Hd L; lia].
    replace (s - 8 - 8) with (s - 16) by (clear - Hd; lia). clear - Hd. repeat split; lia.
  - rewrite G7 in Hd. apply rank7_range in Hd. clear G2 G7. rewrite bit_shiftl8.
    destruct (N.ltb_spec (s + 8 + 8) 64) as [L|L]; [|clear - Hd L; lia].
    replace (s + 8 + 8) with (s + 16) by (clear - Hd; lia). clear - Hd. repeat split; lia.
Qed.

(* ---------- the theorem ---------- *)
Theorem generated_preserves b m b' :
  wf b = true -> rights_wf b = true -> ep_free b = true -> is_valid T b = true ->
  generated T b m -> make b m = Some b' ->
  wf b' = true /\ rights_wf b' = true /\ ep_free b' = true /\ half b' <= half b + 1.
Proof.
  intros Hwf Hr Hep Hv (s & t & pc & ic & ie & pr & epo & Hc & ->) Hm.
  pose proof (wf_active_passive b Hwf) as HAP.
  destruct Hc as [s t pc att Hin Hs Ht | s t pr Hs Ht Hrk Hpr | s t Hs Ht Hrk | s pr Hs Hfree Hrk Hpr
                 | s Hs Hfree Hrk | s Hs Hfree Hrk Hdr Hfree2 | Hwt Hq He | Hwt Hq He | Hwt Hq He | Hwt Hq He].
  - (* knight, bishop, rook, queen, king *)
    apply (finish_noncastle b s t pc false NO_PIECE NO_SQUARE _ _ b' Hwf Hr (pm_ordinary b s t pc NO_SQUARE));
      [|now left|exact Hm].
    rewrite clear_testbit in Ht. apply andb_true_iff in Ht as [Hatt Hfr]. apply negb_true_iff in Hfr.
    apply ordinary_ok; try assumption.
    + exact (occ_nz_piece_ok _ _ _ Hs).
    + now apply full_occ_free.
    + exact (testbit_lt _ 64 t (proj1 (attack_set_lt T HB b s pc att Hin)) Hatt).
    + intros ->. exfalso. unfold piece_attack_sets in Hin. cbv zeta in Hin. cbn [In] in Hin.
      destruct Hin as [E|[E|[E|[E|[E|[E|[]]]]]]]; discriminate.
    + exact (no_king_capture_piece T OK b s t pc att Hwf Hv Hin Hs Hatt).
  - (* capture with promotion *)
    apply (finish_noncastle b s t PAWN false pr NO_SQUARE _ _ b' Hwf Hr (pm_promo b s t pr Hpr)); [|now left|exact Hm].
    pose proof (pawn_capture_target_lt T b s t Hwf Ht) as Ht64.
    pose proof (no_king_capture_pawn T OK b s t Hwf Hv Hs Ht) as Hnk.
    unfold pawn_capture_set in Ht. cbv zeta in Ht. rewrite clear_testbit in Ht.
    apply andb_true_iff in Ht as [_ Hfr]. apply negb_true_iff in Hfr.
    apply promo_ok; try assumption. now apply full_occ_free.
  - (* pawn capture, possibly en passant *)
    pose proof (pawn_capture_target_lt T b s t Hwf Ht) as Ht64.
    pose proof (no_king_capture_pawn T OK b s t Hwf Hv Hs Ht) as Hnk.
    pose proof (not_last_rank t Ht64 Hrk) as Hrank.
    unfold pawn_capture_set in Ht. cbv zeta in Ht. rewrite clear_testbit in Ht.
    apply andb_true_iff in Ht as [_ Hfr]. apply negb_true_iff in Hfr.
    destruct (N.eqb_spec t (ep b)) as [Eep|Eep].
    + apply (finish_noncastle b s t PAWN true NO_PIECE NO_SQUARE _ _ b' Hwf Hr (pm_ep b s t NO_SQUARE)); [|now left|exact Hm].
      apply ep_case_ok; try assumption; [now apply full_occ_free|].
      destruct (ep_free_elim b Hep) as [E0|[_ FP]]; [exfalso; clear - E0 Eep Hrank; lia|]. rewrite Eep. exact FP.
    + apply (finish_noncastle b s t PAWN false NO_PIECE NO_SQUARE _ _ b' Hwf Hr (pm_ordinary b s t PAWN NO_SQUARE));
        [|now left|exact Hm].
      apply ordinary_ok; try assumption; [exact piece_ok_PAWN|now apply full_occ_free|intros _; exact Hrank].
  - (* push with promotion *)
    destruct (single_push_val b s Hwf Hs) as (R & Hk1 & E). rewrite E in Hfree, Hm. rewrite ctz64_bit in Hm.
    set (k1 := if is_white_turn b then s - 8 else s + 8) in *.
    destruct (all_occ_free b k1 (land_bit_free b k1 Hfree)) as [FA FP].
    apply (finish_noncastle b s k1 PAWN false pr NO_SQUARE _ _ b' Hwf Hr (pm_promo b s k1 pr Hpr)); [|now left|exact Hm].
    apply promo_ok; try assumption. exact (FP KING).
  - (* single push *)
    pose proof (push_not_promo b s Hwf Hs Hrk) as Hrank.
    destruct (single_push_val b s Hwf Hs) as (R & Hk1 & E). rewrite E in Hfree, Hm. rewrite ctz64_bit in Hm.
    set (k1 := if is_white_turn b then s - 8 else s + 8) in *.
    destruct (all_occ_free b k1 (land_bit_free b k1 Hfree)) as [FA FP].
    apply (finish_noncastle b s k1 PAWN false NO_PIECE NO_SQUARE _ _ b' Hwf Hr (pm_ordinary b s k1 PAWN NO_SQUARE));
      [|now left|exact Hm].
    apply ordinary_ok; try assumption; [exact piece_ok_PAWN|intros _; exact Hrank|exact (FP KING)].
  - (* double push *)
    destruct (double_push_val b s Hwf Hs Hdr) as (E2 & Hrank & Hk2 & Hne).
    destruct (single_push_val b s Hwf Hs) as (R & Hk1 & E). rewrite E in Hfree, Hm. rewrite E2 in Hfree2, Hm.
    rewrite !ctz64_bit in Hm.
    set (k1 := if is_white_turn b then s - 8 else s + 8) in *.
    set (k2 := if is_white_turn b then s - 16 else s + 16) in *.
    destruct (all_occ_free b k1 (land_bit_free b k1 Hfree)) as [FA1 FP1].
    destruct (all_occ_free b k2 (land_bit_free b k2 Hfree2)) as [FA2 FP2].
    apply (finish_noncastle b s k2 PAWN false NO_PIECE k1 _ _ b' Hwf Hr (pm_ordinary b s k2 PAWN k1)); [| |exact Hm].
    + apply ordinary_ok; try assumption; [exact piece_ok_PAWN|intros _; exact Hrank|exact (FP2 KING)].
    + right. repeat split; assumption.
  - (* white O-O-O *)
    destruct (rights_wf_elim b Hr) as (R & _). destruct (R Hq) as [Rr Rk].
    pose proof HC as HC'. unfold tables_castle_ok in HC'. rewrite !andb_true_iff in HC'.
    destruct HC' as (((((((T1 & T2) & T3) & T4) & T5) & T6) & T7) & T8).
    assert (Ea : active b = white b) by (unfold active; now rewrite Hwt).
    destruct (all_occ_free b C1 (land_0_testbit _ _ C1 He T1)) as [FAk FPk].
    destruct (all_occ_free b D1 (land_0_testbit _ _ D1 He T2)) as [FAr FPr].
    apply (finish_castle b E1 C1 A1 D1 b' Hwf Hr); [now rewrite Hwt|reflexivity| |exact Hm].
    apply castle_ok; try assumption; try (rewrite Ea; assumption); try discriminate; reflexivity.
  - (* white O-O *)
    destruct (rights_wf_elim b Hr) as (_ & R & _). destruct (R Hq) as [Rr Rk].
    pose proof HC as HC'. unfold tables_castle_ok in HC'. rewrite !andb_true_iff in HC'.
    destruct HC' as (((((((T1 & T2) & T3) & T4) & T5) & T6) & T7) & T8).
    assert (Ea : active b = white b) by (unfold active; now rewrite Hwt).
    destruct (all_occ_free b G1 (land_0_testbit _ _ G1 He T4)) as [FAk FPk].
    destruct (all_occ_free b F1 (land_0_testbit _ _ F1 He T3)) as [FAr FPr].
    apply (finish_castle b E1 G1 H1 F1 b' Hwf Hr); [now rewrite Hwt|reflexivity| |exact Hm].
    apply castle_ok; try assumption; try (rewrite Ea; assumption); try discriminate; reflexivity.
  - (* black O-O-O *)
    destruct (rights_wf_elim b Hr) as (_ & _ & R & _). destruct (R Hq) as [Rr Rk].
    pose proof HC as HC'. unfold tables_castle_ok in HC'. rewrite !andb_true_iff in HC'.
    destruct HC' as (((((((T1 & T2) & T3) & T4) & T5) & T6) & T7) & T8).
    assert (Ea : active b = black b) by (unfold active; now rewrite Hwt).
    destruct (all_occ_free b C8 (land_0_testbit _ _ C8 He T5)) as [FAk FPk].
    destruct (all_occ_free b D8 (land_0_testbit _ _ D8 He T6)) as [FAr FPr].
    apply (finish_castle b E8 C8 A8 D8 b' Hwf Hr); [now rewrite Hwt|reflexivity| |exact Hm].
    apply castle_ok; try assumption; try (rewrite Ea; assumption); try discriminate; reflexivity.
  - (* black O-O *)
    destruct (rights_wf_elim b Hr) as (_ & _ & _ & R). destruct (R Hq) as [Rr Rk].
    pose proof HC as HC'. unfold tables_castle_ok in HC'. rewrite !andb_true_iff in HC'.
    destruct HC' as (((((((T1 & T2) & T3) & T4) & T5) & T6) & T7) & T8).
    assert (Ea : active b = black b) by (unfold active; now rewrite Hwt).
    destruct (all_occ_free b G8 (land_0_testbit _ _ G8 He T8)) as [FAk FPk].
    destruct (all_occ_free b F8 (land_0_testbit _ _ F8 He T7)) as [FAr FPr].
    apply (finish_castle b E8 G8 H8 F8 b' Hwf Hr); [now rewrite Hwt|reflexivity| |exact Hm].
    apply castle_ok; try assumption; try (rewrite Ea; assumption); try discriminate; reflexivity.
Qed.

(* for the two generators *)
Theorem make_preserves b m b' :
  wf b = true -> rights_wf b = true -> ep_free b = true -> is_valid T b = true ->
  In m (gen_pseudo T b) -> make b m = Some b' ->
  wf b' = true /\ rights_wf b' = true /\ ep_free b' = true /\ half b' <= half b + 1.
Proof. intros Hwf Hr Hep Hv Hin. apply generated_preserves; try assumption. now apply gen_pseudo_cases. Qed.

End Preserve.

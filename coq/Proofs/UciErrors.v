(* Proofs for property C15, second part: the specific error for missing / ill-typed / duplicated parameters,
   ignored trailing words, and the absence of a panic outcome. *)
Require Import Ink.Lib.Str.
Require Import NArith ZArith List Bool Lia ZifyBool Arith.
Require Import Ink.Model.Fen Ink.Model.UciParser Ink.Spec.UciSpec Ink.Driver.RunUci Ink.Proofs.UciProofs.
Import ListNotations.
Open Scope N_scope.

Arguments N.add : simpl never.
Arguments N.sub : simpl never.
Arguments N.mul : simpl never.
Arguments N.div : simpl never.
Arguments N.modulo : simpl never.
Arguments N.eqb : simpl never.
Arguments N.ltb : simpl never.
Arguments N.leb : simpl never.

(* ------------------------------------------------------------------ missing / ill-typed / duplicated parameters *)
Section Errors.
Variable s : str.

(* debug *)
Lemma err_debug_missing : tokenize s = [lit "debug"] -> parse_command s = inl UnexpectedEndOfCommand.
Proof. intro H. rewrite (parse_command_tokens _ _ _ H). reflexivity. Qed.
Lemma err_debug_token : forall t rest, tokenize s = lit "debug" :: t :: rest -> t <> lit "on" -> t <> lit "off" ->
  parse_command s = inl (UnexpectedToken t).
Proof.
  intros t rest H N1 N2. rewrite (parse_command_tokens _ _ _ H).
  change (parse_root (lit "debug") ?q) with (parse_debug q). unfold parse_debug. cbn [next].
  apply str_eqb_neq in N1. apply str_eqb_neq in N2. rewrite N1, N2. reflexivity.
Qed.

(* position *)
Lemma err_position_missing : tokenize s = [lit "position"] -> parse_command s = inl UnexpectedEndOfCommand.
Proof. intro H. rewrite (parse_command_tokens _ _ _ H). reflexivity. Qed.
Lemma err_position_token : forall t rest, tokenize s = lit "position" :: t :: rest -> t <> lit "fen" -> t <> lit "startpos" ->
  parse_command s = inl (UnexpectedToken t).
Proof.
  intros t rest H N1 N2. rewrite (parse_command_tokens _ _ _ H).
  change (parse_root (lit "position") ?q) with (parse_position q). unfold parse_position. cbn [next].
  apply str_eqb_neq in N1. apply str_eqb_neq in N2. rewrite N1, N2. reflexivity.
Qed.
Lemma err_position_fen_missing : tokenize s = [lit "position"; lit "fen"] -> parse_command s = inl UnexpectedEndOfCommand.
Proof. intro H. rewrite (parse_command_tokens _ _ _ H). reflexivity. Qed.
(* the words after `fen` up to `moves` (or the end), joined by single spaces, are not a FEN *)
Lemma err_position_fen_invalid : forall t0 ts rest e, tokenize s = lit "position" :: lit "fen" :: t0 :: ts ++ rest ->
  ~ In (lit "moves") ts -> stops_here [lit "moves"] rest -> fen_from_str (join [32] (t0 :: ts)) = inl e ->
  parse_command s = inl InvalidFen.
Proof.
  intros t0 ts rest e H N R F. rewrite (parse_command_tokens _ _ _ H).
  change (parse_root (lit "position") ?q) with (parse_position q). unfold parse_position. cbn [next].
  change (str_eqb (lit "fen") (lit "fen")) with true. cbn iota.
  unfold until_token_or_end, until_one_of_or_end. cbn [next]. rewrite until_loop_app; [| | exact R].
  - rewrite <- join_space, F. reflexivity.
  - rewrite Forall_forall. intros t I. apply mem_str_notIn. intros [E|[]]. apply N. rewrite E. exact I.
Qed.
Lemma err_position_startpos_token : forall t rest, tokenize s = lit "position" :: lit "startpos" :: t :: rest -> t <> lit "moves" ->
  parse_command s = inl (UnexpectedToken t).
Proof.
  intros t rest H N. rewrite (parse_command_tokens _ _ _ H).
  change (parse_root (lit "position") ?q) with (parse_position q). unfold parse_position. cbn [next].
  change (str_eqb (lit "startpos") (lit "fen")) with false. change (str_eqb (lit "startpos") (lit "startpos")) with true. cbn iota.
  unfold consume. cbn [next]. assert (str_eqb (lit "moves") t = false) as E by (apply str_eqb_neq; congruence).
  rewrite E. reflexivity.
Qed.

Lemma parse_moves_until_bad : forall stops ms bad rest, Forall move_ok ms ->
  (forall m, move_ok m -> mem_str (show_move m) stops = false) -> mem_str bad stops = false -> parse_move bad = None ->
  parse_moves_until stops (map show_move ms ++ bad :: rest) = inl (InvalidUciMove bad).
Proof.
  induction ms as [|m ms IH]; intros bad rest Hms Hst Hb Hp.
  - cbn [map app parse_moves_until]. rewrite Hb, Hp. reflexivity.
  - inversion Hms as [|? ? Hm Hms']; subst. cbn [map app parse_moves_until].
    rewrite (Hst m Hm). rewrite move_roundtrip by exact Hm. rewrite IH by assumption. reflexivity.
Qed.

(* after a well-formed position prefix (either spelling) and well-formed moves, an ill-formed move text *)
Lemma err_position_move : forall t ms lay bad rest, cmd_ok (PositionFrom t ms) ->
  tokenize s = tokens (PositionFrom t ms) lay ++
               (match ms with [] => if lay_moves_kw lay then [] else [lit "moves"] | _ => [] end) ++ bad :: rest ->
  parse_move bad = None -> parse_command s = inl (InvalidUciMove bad).
Proof.
  intros t ms lay bad rest [[f [F1 F2]] [C M]] H P.
  assert (tokenize s = lit "position" ::
            (if lay_startpos lay && str_eqb t STARTPOS then [lit "startpos"] else lit "fen" :: words t) ++
            lit "moves" :: map show_move ms ++ bad :: rest) as H'.
  { rewrite H. cbn [tokens]. rewrite <- app_comm_cons. apply (f_equal (cons (lit "position"))).
    rewrite <- app_assoc. apply (f_equal (app _)). unfold moves_tokens.
    destruct ms as [|m ms]; [destruct (lay_moves_kw lay); reflexivity|]. cbn [app]. reflexivity. }
  clear H. rewrite (parse_command_tokens _ _ _ H').
  change (parse_root (lit "position") ?q) with (parse_position q). unfold parse_position.
  destruct (lay_startpos lay && str_eqb t STARTPOS) eqn:E.
  - cbn [app next]. change (str_eqb (lit "startpos") (lit "fen")) with false.
    change (str_eqb (lit "startpos") (lit "startpos")) with true. cbn iota.
    rewrite consume_hit. rewrite parse_moves_until_bad; [reflexivity | exact M | reflexivity | reflexivity | exact P].
  - cbn [app next]. change (str_eqb (lit "fen") (lit "fen")) with true. cbn iota.
    unfold until_token_or_end. rewrite (until_text _ _ _ C (stops_here_hd _ _)).
    rewrite F1. rewrite consume_hit. rewrite parse_moves_until_bad; [reflexivity | exact M | reflexivity | reflexivity | exact P].
Qed.

(* setoption *)
Lemma err_setoption_missing : tokenize s = [lit "setoption"] -> parse_command s = inl UnexpectedEndOfCommand.
Proof. intro H. rewrite (parse_command_tokens _ _ _ H). reflexivity. Qed.
Lemma err_setoption_token : forall t rest, tokenize s = lit "setoption" :: t :: rest -> t <> lit "name" ->
  parse_command s = inl (UnexpectedToken t).
Proof.
  intros t rest H N. rewrite (parse_command_tokens _ _ _ H).
  change (parse_root (lit "setoption") ?q) with (parse_setoption q). unfold parse_setoption, consume. cbn [next].
  assert (str_eqb (lit "name") t = false) as E by (apply str_eqb_neq; congruence). rewrite E. reflexivity.
Qed.
Lemma err_setoption_name_missing : tokenize s = [lit "setoption"; lit "name"] -> parse_command s = inl UnexpectedEndOfCommand.
Proof. intro H. rewrite (parse_command_tokens _ _ _ H). reflexivity. Qed.
Lemma err_setoption_value_missing : forall name, text_ok [lit "value"] name ->
  tokenize s = lit "setoption" :: lit "name" :: words name ++ [lit "value"] -> parse_command s = inl UnexpectedEndOfCommand.
Proof.
  intros name C H. rewrite (parse_command_tokens _ _ _ H).
  change (parse_root (lit "setoption") ?q) with (parse_setoption q). unfold parse_setoption. rewrite consume_hit.
  unfold until_token_or_end. rewrite (until_text _ _ _ C (stops_here_hd _ _)). rewrite consume_hit. reflexivity.
Qed.

(* register *)
Lemma err_register_missing : tokenize s = [lit "register"] -> parse_command s = inl UnexpectedEndOfCommand.
Proof. intro H. rewrite (parse_command_tokens _ _ _ H). reflexivity. Qed.
Lemma err_register_token : forall t rest, tokenize s = lit "register" :: t :: rest -> t <> lit "later" -> t <> lit "name" ->
  parse_command s = inl (UnexpectedToken t).
Proof.
  intros t rest H N1 N2. rewrite (parse_command_tokens _ _ _ H).
  change (parse_root (lit "register") ?q) with (parse_register q). unfold parse_register. cbn [peek].
  apply str_eqb_neq in N1. rewrite N1. unfold consume. cbn [next].
  assert (str_eqb (lit "name") t = false) as E by (apply str_eqb_neq; congruence). rewrite E. reflexivity.
Qed.
Lemma err_register_name_missing : tokenize s = [lit "register"; lit "name"] -> parse_command s = inl UnexpectedEndOfCommand.
Proof. intro H. rewrite (parse_command_tokens _ _ _ H). reflexivity. Qed.
Lemma err_register_code_missing : forall name, text_ok [lit "code"] name ->
  tokenize s = lit "register" :: lit "name" :: words name -> parse_command s = inl UnexpectedEndOfCommand.
Proof.
  intros name C H. rewrite (parse_command_tokens _ _ _ H).
  change (parse_root (lit "register") ?q) with (parse_register q). unfold parse_register. cbn [peek].
  change (str_eqb (lit "name") (lit "later")) with false. cbn iota. rewrite consume_hit.
  unfold until_token_or_end. rewrite <- (app_nil_r (words name)). rewrite (until_text _ _ [] C I). reflexivity.
Qed.
Lemma err_register_code_empty : forall name, text_ok [lit "code"] name ->
  tokenize s = lit "register" :: lit "name" :: words name ++ [lit "code"] -> parse_command s = inl UnexpectedEndOfCommand.
Proof.
  intros name C H. rewrite (parse_command_tokens _ _ _ H).
  change (parse_root (lit "register") ?q) with (parse_register q). unfold parse_register. cbn [peek].
  change (str_eqb (lit "name") (lit "later")) with false. cbn iota. rewrite consume_hit.
  unfold until_token_or_end. rewrite (until_text _ _ _ C (stops_here_hd _ _)). rewrite consume_hit. reflexivity.
Qed.

(* go: after any well-formed sequence of parameters *)
Definition go_prefix_ok (lay : layout) (g : go) (order : list gokey) : Prop :=
  go_ok g /\ num_ok lay g /\ NoDup order /\ (forall k, In k order -> key_allowed g k).

Lemma go_prefix : forall lay g order rest, go_prefix_ok lay g order ->
  tokenize s = lit "go" :: flat_map (item_tokens lay g) order ++ rest ->
  (ends_with_searchmoves order -> stops_here GO_TOKENS rest) ->
  parse_command s = go_out (go_run (fold_left (go_set g) order GO_EMPTY) (rev (map key_token order)) rest).
Proof.
  intros lay g order rest [G [NS [ND A]]] H R. rewrite (parse_command_tokens _ _ _ H).
  change (parse_root (lit "go") ?q) with (parse_go q). rewrite parse_go_run.
  rewrite (go_run_items lay g G NS); [rewrite app_nil_r; reflexivity | exact ND | | exact R].
  intros k I. split; [apply A; exact I | intros []].
Qed.

Definition is_numeric (k : gokey) : bool := match k with KSearchMoves | KPonder | KInfinite => false | _ => true end.

Lemma go_step_numeric : forall k, is_numeric k = true -> exists set, forall acc q,
  go_step acc (key_token k) q =
  if is_duration k then match parse_duration q with inl e => inl e | inr (d, q') => inr (set acc (Some d), q') end
  else match parse_u64_tok q with inl e => inl e | inr (d, q') => inr (set acc (Some d), q') end.
Proof.
  destruct k; try discriminate; intros _;
  [exists set_wtime | exists set_btime | exists set_winc | exists set_binc | exists set_moves_to_go | exists set_depth
   | exists set_nodes | exists set_mate | exists set_movetime]; intros; reflexivity.
Qed.

Lemma visited_fresh : forall order k, ~ In k order -> mem_str (key_token k) (rev (map key_token order)) = false.
Proof.
  intros order k N. apply mem_str_notIn. intro I.
  apply in_rev in I. apply in_map_iff in I. destruct I as [k' [E I]]. apply key_token_inj in E. subst. contradiction.
Qed.

(* `go ... depth x` / `go ... wtime x` : the value is not a u64 / i64 *)
Lemma err_go_invalid_int : forall lay g order k x rest, go_prefix_ok lay g order -> ~ In k order -> is_numeric k = true ->
  tokenize s = lit "go" :: flat_map (item_tokens lay g) order ++ key_token k :: x :: rest ->
  (if is_duration k then parse_i64 x = None else parse_u64 x = None) ->
  parse_command s = inl InvalidInt.
Proof.
  intros lay g order k x rest P N K H X.
  rewrite (go_prefix lay g order _ P H) by (intros _; apply key_token_go_token).
  destruct (go_step_numeric k K) as [set Hs].
  rewrite (go_run_err _ _ _ _ InvalidInt); [reflexivity | apply visited_fresh; exact N |].
  rewrite Hs. unfold parse_duration, parse_u64_tok. cbn [next]. destruct (is_duration k); rewrite X; reflexivity.
Qed.
(* `go ... wtime` : the value is missing *)
Lemma err_go_missing_value : forall lay g order k, go_prefix_ok lay g order -> ~ In k order -> is_numeric k = true ->
  tokenize s = lit "go" :: flat_map (item_tokens lay g) order ++ [key_token k] ->
  parse_command s = inl UnexpectedEndOfCommand.
Proof.
  intros lay g order k P N K H.
  rewrite (go_prefix lay g order _ P H) by (intros _; apply key_token_go_token).
  destruct (go_step_numeric k K) as [set Hs].
  rewrite (go_run_err _ _ _ _ UnexpectedEndOfCommand); [reflexivity | apply visited_fresh; exact N |].
  rewrite Hs. destruct (is_duration k); reflexivity.
Qed.
(* `go ... depth 3 ... depth` : a parameter given twice *)
Lemma err_go_duplicated : forall lay g order k rest, go_prefix_ok lay g order -> In k order ->
  tokenize s = lit "go" :: flat_map (item_tokens lay g) order ++ key_token k :: rest ->
  parse_command s = inl (DuplicatedToken (key_token k)).
Proof.
  intros lay g order k rest P I H.
  rewrite (go_prefix lay g order _ P H) by (intros _; apply key_token_go_token).
  rewrite go_run_dup; [reflexivity|]. apply mem_str_In. apply -> in_rev. apply in_map. exact I.
Qed.
(* `go ... something` : not a go parameter (directly after `searchmoves` and its moves it is read as a move text) *)
Lemma err_go_unexpected : forall lay g order t rest, go_prefix_ok lay g order -> ~ ends_with_searchmoves order ->
  tokenize s = lit "go" :: flat_map (item_tokens lay g) order ++ t :: rest -> ~ In t GO_TOKENS ->
  parse_command s = inl (UnexpectedToken t).
Proof.
  intros lay g order t rest P NE H NT.
  rewrite (go_prefix lay g order _ P H) by (intro; contradiction).
  assert (In t (rev (map key_token order)) -> False) as V.
  { intros I. apply in_rev in I. apply in_map_iff in I. destruct I as [k [E _]]. apply NT. rewrite <- E.
    apply mem_str_In. apply key_token_go_token. }
  rewrite (go_run_err _ _ _ _ (UnexpectedToken t)); [reflexivity | apply mem_str_notIn; exact V |].
  unfold go_step. unfold GO_TOKENS in NT. cbn [map In] in NT.
  repeat match goal with
  | |- (if str_eqb t ?l then _ else _) = _ =>
      let E := fresh "E" in destruct (str_eqb t l) eqn:E; [exfalso; apply str_eqb_eq in E; apply NT; rewrite E; tauto|]
  end. reflexivity.
Qed.
(* `go ... searchmoves e2e4 e7e9` *)
Lemma err_go_searchmoves : forall lay g order ms bad rest, go_prefix_ok lay g order -> ~ In KSearchMoves order ->
  tokenize s = lit "go" :: flat_map (item_tokens lay g) order ++ lit "searchmoves" :: map show_move ms ++ bad :: rest ->
  Forall move_ok ms -> ~ In bad GO_TOKENS -> parse_move bad = None ->
  parse_command s = inl (InvalidUciMove bad).
Proof.
  intros lay g order ms bad rest P N H M NB PB.
  rewrite (go_prefix lay g order _ P H) by (intros _; reflexivity).
  rewrite (go_run_err _ _ _ _ (InvalidUciMove bad)); [reflexivity | |].
  - apply (visited_fresh order KSearchMoves). exact N.
  - change (go_step ?acc (lit "searchmoves") ?q) with
      (match parse_moves_until GO_TOKENS q with inl e => inl e | inr (ms, q') => inr (set_search_moves acc ms, q') end).
    rewrite parse_moves_until_bad; [reflexivity | exact M | exact show_move_not_go_token | apply mem_str_notIn; exact NB | exact PB].
Qed.
End Errors.

(* ------------------------------------------------------------------ words after a complete command are ignored *)
Lemma trailing_ignored_simple : forall s c lay rest, simple_command c -> tokenize s = tokens c lay ++ rest ->
  parse_command s = inr c.
Proof.
  intros s c lay rest C H.
  destruct C as [C|[C|[C|[C|[C|C]]]]]; subst c; cbn [tokens app] in H; rewrite (parse_command_tokens _ _ _ H); reflexivity.
Qed.
Lemma trailing_ignored_debug : forall s b lay rest, tokenize s = tokens (SetDebug b) lay ++ rest ->
  parse_command s = inr (SetDebug b).
Proof. intros s b lay rest H. cbn [tokens app] in H. rewrite (parse_command_tokens _ _ _ H). destruct b; reflexivity. Qed.
Lemma trailing_ignored_registerlater : forall s lay rest, tokenize s = tokens RegisterLater lay ++ rest ->
  parse_command s = inr RegisterLater.
Proof. intros s lay rest H. cbn [tokens app] in H. rewrite (parse_command_tokens _ _ _ H). reflexivity. Qed.

(* ------------------------------------------------------------------ no panic outcome *)
(* the only fuel-bounded loop of the model never runs out of fuel *)
Lemma parse_go_fuel : forall q g v, go_loop (S (length q)) g v q <> None.
Proof. intros q g v. apply go_loop_enough. apply Nat.lt_succ_diag_r. Qed.
Lemma parse_go_is_loop : forall q, exists r, go_loop (S (length q)) GO_EMPTY [] q = Some r /\ parse_go q = r.
Proof.
  intro q. unfold parse_go. destruct (go_loop (S (length q)) GO_EMPTY [] q) as [r|] eqn:E.
  - exists r. split; reflexivity.
  - exfalso. exact (parse_go_fuel q GO_EMPTY [] E).
Qed.

(* every observation of the model starts with `ok ` or `err`: the observation PANIC of the implementation side can
   never be matched by the model *)
Lemma show_command_head : forall c, exists r, show_command c = 111 :: 107 :: 32 :: r.
Proof. intro c. destruct c; eexists; reflexivity. Qed.
Lemma show_error_head : forall e, exists r, show_error e = 101 :: 114 :: 114 :: r.
Proof. intro e. destruct e; eexists; reflexivity. Qed.
Lemma run_uciparse_never_panic : forall line, run_uciparse line <> lit "PANIC".
Proof.
  intro line. unfold run_uciparse. destruct (parse_command (unescape line)) as [e|c].
  - destruct (show_error_head e) as [r E]. rewrite E. discriminate.
  - destruct (show_command_head c) as [r E]. rewrite E. discriminate.
Qed.
Lemma run_ucimove_never_panic : forall line, run_ucimove line <> lit "PANIC".
Proof. intro line. unfold run_ucimove. destruct (parse_move (unescape line)); discriminate. Qed.

(* ------------------------------------------------------------------ the statements are not vacuous: one example *)
Definition ex_go : go :=
  {| search_moves := [ {| um_src := 52; um_dst := 36; um_promo := None |}; {| um_src := 8; um_dst := 0; um_promo := Some 5 |} ];
     ponder := false; wtime := Some 0; btime := None; winc := None; binc := None; moves_to_go := None; depth := Some 7;
     nodes := Some 18446744073709551615; mate := None; movetime := None; infinite := true |}.
Definition ex_lay : layout :=
  {| lay_lead := [32; 9]; lay_trail := [160; 32; 13; 10]; lay_gaps := [2; 0; 1]%nat; lay_startpos := false; lay_moves_kw := false;
     lay_order := [KInfinite; KWtime; KSearchMoves; KNodes; KDepth];
     lay_num := fun k => match k with
                         | KWtime => {| ns_plus := false; ns_zeros := 0; ns_neg := Some 5 |}
                         | KDepth => {| ns_plus := true; ns_zeros := 2; ns_neg := None |}
                         | _ => plain end |}.
Example ex_go_line :
  render (Go ex_go) ex_lay =
  [32; 9] ++ lit "go   infinite wtime  -5 searchmoves e2e4 a7a8q nodes 18446744073709551615 depth +007" ++ [160; 32; 13; 10].
Proof. vm_compute. reflexivity. Qed.
Example ex_go_ok : cmd_ok (Go ex_go) /\ layout_ok ex_lay (Go ex_go).
Proof.
  split.
  - unfold cmd_ok, go_ok, ex_go, opt_le, I64_MAX, U64_MAX.
    cbn [search_moves wtime btime winc binc moves_to_go depth nodes mate movetime].
    split; [|repeat split; try exact I; lia].
    repeat (apply Forall_cons; [unfold move_ok; cbn [um_src um_dst um_promo]; repeat split; try exact I; lia|]). apply Forall_nil.
  - split; [repeat (apply Forall_cons; [reflexivity|]); apply Forall_nil|].
    split; [repeat (apply Forall_cons; [reflexivity|]); apply Forall_nil|].
    split; [|split; [|split]].
    + unfold ex_lay. cbn [lay_order].
      repeat (apply NoDup_cons; [cbn [In]; intuition discriminate|]). apply NoDup_nil.
    + intros k R. unfold ex_lay. cbn [lay_order In].
      destruct k; cbn in R; try tauto; try (exfalso; apply R; reflexivity); try discriminate.
    + intros k J. unfold ex_lay in J. cbn [lay_order In] in J.
      destruct J as [J|[J|[J|[J|[J|[]]]]]]; subst k; cbn; try exact I; try reflexivity; discriminate.
    + intros k v E. destruct k; cbn in E; try discriminate; inversion E; subst v; unfold num_style_ok; cbn;
      try exact I. repeat split; lia.
Qed.

(* ------------------------------------------------------------------ an accepted FEN text is in the single-space form *)
Lemma split_on_nonnil : forall c x, split_on c x <> [].
Proof.
  intros c x. induction x as [|y r IH]; cbn [split_on]; [discriminate|].
  destruct (y =? c); [discriminate|]. destruct (split_on c r); [contradiction | discriminate].
Qed.
Lemma join_split : forall x, join [32] (split_on 32 x) = x.
Proof.
  induction x as [|y r IH]; [reflexivity|]. cbn [split_on].
  destruct (y =? 32) eqn:E.
  - apply N.eqb_eq in E. subst y. destruct (split_on 32 r) as [|p ps] eqn:S; [exfalso; exact (split_on_nonnil _ _ S)|].
    change (join [32] ([] :: p :: ps)) with ([] ++ [32] ++ join [32] (p :: ps)). rewrite IH. reflexivity.
  - destruct (split_on 32 r) as [|p ps] eqn:S; [exfalso; exact (split_on_nonnil _ _ S)|].
    rewrite <- IH. destruct ps as [|p2 ps]; reflexivity.
Qed.
Lemma words_all : forall x, Forall (fun t => t <> []) (split_on 32 x) -> words x = split_on 32 x.
Proof.
  intros x H. unfold words. induction (split_on 32 x) as [|t l IH]; [reflexivity|].
  inversion H as [|? ? Ht Hl]; subst. cbn [filter]. destruct t; [contradiction|]. cbn [nonempty]. rewrite IH by exact Hl. reflexivity.
Qed.
Lemma split_on_chars : forall c x ch, In ch x -> ch = c \/ exists g, In g (split_on c x) /\ In ch g.
Proof.
  intros c. induction x as [|y r IH]; intros ch I; [contradiction|]. cbn [split_on].
  destruct (y =? c) eqn:E.
  - destruct I as [I|I]; [left; subst; apply N.eqb_eq; exact E|].
    destruct (IH ch I) as [H|[g [G1 G2]]]; [left; exact H | right; exists g; split; [right; exact G1 | exact G2]].
  - destruct (split_on c r) as [|p ps] eqn:S; [exfalso; exact (split_on_nonnil _ _ S)|].
    destruct I as [I|I]; [right; exists (y :: p); split; [left; reflexivity | left; exact I]|].
    destruct (IH ch I) as [H|[g [G1 G2]]]; [left; exact H|]. right.
    destruct G1 as [G1|G1]; [subst g; exists (y :: p); split; [left; reflexivity | right; exact G2]|].
    exists g. split; [right; exact G1 | exact G2].
Qed.

Definition field_good (t : str) : Prop := t <> [] /\ clean t = true /\ t <> lit "moves".

Lemma placement_char_clean : forall ch, is_placement_char ch = true -> negb (is_whitespace ch) = true.
Proof.
  intros ch H. unfold is_placement_char, is_piece_letter, mem_chr in H.
  change (lit "PNBRQKpnbrqk") with [80; 78; 66; 82; 81; 75; 112; 110; 98; 114; 113; 107] in H. cbn [existsb] in H.
  unfold is_whitespace. lia.
Qed.
Lemma placement_good : forall p, placement_ok p = true -> field_good p.
Proof.
  intros p H. unfold placement_ok in H. cbv zeta in H. apply andb_true_iff in H. destruct H as [H1 H2].
  rewrite forallb_forall in H2.
  assert (clean p = true) as C.
  { unfold clean. apply forallb_forall. intros ch I. destruct (split_on_chars 47 p ch I) as [E|[g [G1 G2]]]; [subst; reflexivity|].
    specialize (H2 g G1). unfold rank_group_ok in H2. rewrite !andb_true_iff in H2. destruct H2 as [_ H2].
    rewrite forallb_forall in H2. apply placement_char_clean. apply H2. exact G2. }
  split; [|split; [exact C|]].
  - intro E. subst p. discriminate H1.
  - intro E. subst p. discriminate H1.
Qed.
Lemma color_good : forall c, str_eqb c (lit "w") || str_eqb c (lit "b") = true -> field_good c.
Proof.
  intros c H. apply orb_true_iff in H. destruct H as [H|H]; apply str_eqb_eq in H; subst c;
  (split; [discriminate | split; [reflexivity | discriminate]]).
Qed.
Lemma castle_good : forall k, castle_ok k = true -> field_good k.
Proof.
  intros k H. unfold castle_ok in H. apply mem_str_In in H.
  assert (forallb (fun x => nonempty x && clean x && negb (str_eqb x (lit "moves"))) CASTLE_STRINGS = true) as S
    by (vm_compute; reflexivity).
  rewrite forallb_forall in S. specialize (S k H). rewrite !andb_true_iff in S. destruct S as [[S1 S2] S3].
  split; [intro E; subst k; discriminate S1 | split; [exact S2|]].
  apply negb_true_iff in S3. apply str_eqb_neq. exact S3.
Qed.
Lemma ep_good : forall e, ep_ok e = true -> field_good e.
Proof.
  intros e H. unfold ep_ok in H. apply orb_true_iff in H. destruct H as [H|H].
  - apply str_eqb_eq in H. subst e. split; [discriminate | split; [reflexivity | discriminate]].
  - unfold square_text_ok in H. destruct e as [|f [|r [|? ?]]]; try discriminate.
    split; [discriminate | split; [|discriminate]].
    unfold clean. cbn [forallb]. unfold is_whitespace. lia.
Qed.
Lemma digits_good : forall h, nonempty h && forallb is_ascii_digit h = true -> field_good h.
Proof.
  intros h H. apply andb_true_iff in H. destruct H as [H1 H2].
  split; [intro E; subst h; discriminate H1 | split].
  - apply all_digits_clean. unfold all_digits. rewrite Forall_forall. rewrite forallb_forall in H2. exact H2.
  - intro E. subst h. discriminate H2.
Qed.

Lemma fields_text_ok : forall t l, split_on 32 t = l -> Forall field_good l -> text_ok [lit "moves"] t.
Proof.
  intros t l S G.
  assert (words t = l) as W.
  { rewrite words_all; [exact S|]. rewrite S. eapply Forall_impl; [|exact G]. intros a [A _]. exact A. }
  unfold text_ok. rewrite W. split; [|split; [|split]].
  - intro E. rewrite E in S. exact (split_on_nonnil _ _ S).
  - rewrite <- S. apply join_split.
  - eapply Forall_impl; [|exact G]. intros a [_ [A _]]. exact A.
  - destruct l as [|t0 l]; [constructor|]. inversion G as [|? ? _ G']; subst. cbn [tl].
    eapply Forall_impl; [|exact G']. intros a [_ [_ A]]. apply mem_str_notIn. intros [E|[]]. apply A. symmetry. exact E.
Qed.

Theorem fen_accepted_canonical : forall t f, fen_from_str t = inr f -> f_text f = t -> text_ok [lit "moves"] t.
Proof.
  intros t f H T. unfold fen_from_str in H.
  destruct (str_eqb t (lit "startpos")) eqn:E0.
  - apply str_eqb_eq in E0. inversion H; subst f. cbn [f_text] in T. rewrite E0 in T. discriminate T.
  - cbv zeta in H.
    destruct (split_on 32 t) as [|p [|c [|k [|e [|h [|f' [|x l]]]]]]] eqn:S; try discriminate H.
    + destruct (placement_ok p && (str_eqb c (lit "w") || str_eqb c (lit "b")) && castle_ok k && ep_ok e) eqn:C; [|discriminate H].
      rewrite !andb_true_iff in C. destruct C as [[[C1 C2] C3] C4].
      apply (fields_text_ok t _ S).
      repeat (apply Forall_cons; [first [apply placement_good; assumption | apply color_good; assumption
                                        | apply castle_good; assumption | apply ep_good; assumption]|]). apply Forall_nil.
    + destruct (nonempty h && forallb is_ascii_digit h && nonempty f' && forallb is_ascii_digit f') eqn:D; [|discriminate H].
      destruct (placement_ok p && (str_eqb c (lit "w") || str_eqb c (lit "b")) && castle_ok k && ep_ok e) eqn:C; [|discriminate H].
      rewrite !andb_true_iff in C. destruct C as [[[C1 C2] C3] C4].
      rewrite !andb_true_iff in D. destruct D as [[[D1 D2] D3] D4].
      apply (fields_text_ok t _ S).
      repeat (apply Forall_cons; [first [apply placement_good; assumption | apply color_good; assumption
                                        | apply castle_good; assumption | apply ep_good; assumption
                                        | apply digits_good; apply andb_true_iff; split; assumption]|]). apply Forall_nil.
Qed.

(* packaged forms used by Properties/C15.v *)
Lemma never_panic_observation : forall line, run_uciparse line <> lit "PANIC" /\ run_ucimove line <> lit "PANIC".
Proof. intro line. split; [apply run_uciparse_never_panic | apply run_ucimove_never_panic]. Qed.
Lemma ex_go_all :
  render (Go ex_go) ex_lay =
    [32; 9] ++ lit "go   infinite wtime  -5 searchmoves e2e4 a7a8q nodes 18446744073709551615 depth +007" ++ [160; 32; 13; 10]
  /\ cmd_ok (Go ex_go) /\ layout_ok ex_lay (Go ex_go).
Proof. exact (conj ex_go_line ex_go_ok). Qed.

(* position: acceptance of the FEN text by Fen::from_str is all that is needed *)
Theorem roundtrip_position_fen : forall t f ms lay, fen_from_str t = inr f -> f_text f = t -> Forall move_ok ms ->
  layout_ok lay (PositionFrom t ms) -> parse_command (render (PositionFrom t ms) lay) = inr (PositionFrom t ms).
Proof.
  intros t f ms lay F T M L. apply roundtrip_position; [|exact L].
  split; [exists f; split; assumption | split; [exact (fen_accepted_canonical t f F T) | exact M]].
Qed.

(* Move packing (Model/Layout.v): unpack after pack is the identity on in-range moves, for EVERY layout that
   passes the boolean sanity check `layout_ok`; the dumped layout of the current /repo passes it. *)
Require Import NArith ZArith List Bool Lia.
Require Import Ink.Lib.Bits Ink.Model.Tables Ink.Model.Board Ink.Model.Layout Ink.Proofs.BitFacts Ink.Proofs.GenShape.
Import ListNotations.
Open Scope N_scope.

(* ---------- selecting one contribution out of the OR of all ---------- *)
Lemma land_fold_disjoint cs ms m :
  Forall2 sub cs ms -> Forall (fun m' => N.land m m' = 0) ms -> N.land (fold_right N.lor 0 cs) m = 0.
Proof.
  intros F. induction F as [|c m' cs' ms' Hc F IH]; intros D; cbn [fold_right].
  - apply N.land_0_l.
  - inversion D as [|? ? D1 D2]; subst. rewrite N.land_lor_distr_l, (IH D2), N.lor_0_r.
    apply (sub_disjoint c m' m Hc). now rewrite N.land_comm.
Qed.

Inductive pairwise_disjoint : list N -> Prop :=
| pd_nil : pairwise_disjoint []
| pd_cons m ms : Forall (fun m' => N.land m m' = 0) ms -> pairwise_disjoint ms -> pairwise_disjoint (m :: ms).

Lemma select_land cs ms : Forall2 sub cs ms -> pairwise_disjoint ms ->
  forall i, (i < length ms)%nat -> N.land (fold_right N.lor 0 cs) (nth i ms 0) = nth i cs 0.
Proof.
  intros F. induction F as [|c m cs' ms' Hc F IH]; intros P i Hi; cbn [length] in Hi; [lia|].
  inversion P as [|? ? D P']; subst. cbn [fold_right]. rewrite N.land_lor_distr_l.
  destruct i as [|i']; cbn [nth].
  - rewrite (sub_land c m Hc), (land_fold_disjoint cs' ms' m F D). apply N.lor_0_r.
  - assert (Hi' : (i' < length ms')%nat) by lia.
    rewrite (IH P' i' Hi').
    assert (Hd : N.land m (nth i' ms' 0) = 0).
    { rewrite Forall_forall in D. apply D. now apply nth_In. }
    rewrite (sub_disjoint c m _ Hc Hd). apply N.lor_0_l.
Qed.

(* ---------- what layout_ok gives ---------- *)
Lemma fields_ok_nth L : forall ws, fields_ok L ws = true ->
  length L = length ws /\ forall i, (i < length ws)%nat -> field_ok (nth i L (0, 0)) (nth i ws 0) = true.
Proof.
  induction L as [|e L' IH]; intros [|w ws'] H; cbn [fields_ok] in H; try discriminate.
  - split; [reflexivity|]. cbn [length]. intros i Hi. lia.
  - apply andb_true_iff in H as [H1 H2]. destruct (IH ws' H2) as [Hl Hn]. split; [cbn [length]; now rewrite Hl|].
    intros [|i'] Hi; cbn [nth]; [exact H1|]. apply Hn. cbn [length] in Hi. lia.
Qed.

Lemma masks_disjoint_pd L : masks_disjoint L = true -> pairwise_disjoint (map fst L).
Proof.
  induction L as [|e L' IH]; cbn [masks_disjoint map]; intros H; [constructor|].
  apply andb_true_iff in H as [H1 H2]. constructor; [|now apply IH].
  rewrite forallb_forall in H1. apply Forall_forall. intros m' Hm'. apply in_map_iff in Hm' as (e' & <- & He').
  specialize (H1 e' He'). now apply N.eqb_eq in H1.
Qed.

Lemma lmask_nth L i : lmask L i = nth i (map fst L) 0.
Proof. unfold lmask. symmetry. exact (map_nth fst L (0, 0) i). Qed.

Definition field_facts (L : list (N * N)) (i : nat) (wmin : N) : Prop :=
  exists w, lmask L i = N.shiftl (N.ones w) (lshift L i) /\ wmin <= w.

Lemma layout_field L i : layout_ok L = true -> (i < 16)%nat -> field_facts L i (nth i MIN_WIDTHS 0).
Proof.
  intros H Hi. unfold layout_ok in H. apply andb_true_iff in H as [H _].
  destruct (fields_ok_nth L MIN_WIDTHS H) as [_ Hn]. specialize (Hn i Hi).
  unfold field_ok in Hn. apply andb_true_iff in Hn as [Hn _]. apply andb_true_iff in Hn as [Hm Hw].
  apply N.eqb_eq in Hm. apply N.leb_le in Hw.
  exists (fwidth (nth i L (0, 0))). split; [exact Hm|exact Hw].
Qed.

Lemma layout_length L : layout_ok L = true -> length L = 16%nat.
Proof.
  intros H. unfold layout_ok in H. apply andb_true_iff in H as [H _].
  destruct (fields_ok_nth L MIN_WIDTHS H) as [Hl _]. exact Hl.
Qed.

Lemma layout_mask_lt L i : layout_ok L = true -> (i < 16)%nat -> lmask L i < 2 ^ 64.
Proof.
  intros H Hi. unfold layout_ok in H. apply andb_true_iff in H as [H _].
  destruct (fields_ok_nth L MIN_WIDTHS H) as [_ Hn]. specialize (Hn i Hi).
  unfold field_ok in Hn. apply andb_true_iff in Hn as [_ Hn]. apply N.ltb_lt in Hn. exact Hn.
Qed.

(* ---------- one field ---------- *)
Lemma value_sub v w wmin sh : v < 2 ^ wmin -> wmin <= w -> sub (N.shiftl v sh) (N.shiftl (N.ones w) sh).
Proof.
  intros Hv Hw i Hi. destruct (N.lt_ge_cases i sh) as [Hlt|Hge].
  - rewrite N.shiftl_spec_low in Hi by exact Hlt. discriminate.
  - rewrite N.shiftl_spec_high in * by lia.
    destruct (N.lt_ge_cases (i - sh) w) as [Hlo|Hhi]; [now apply N.ones_spec_low|].
    rewrite (testbit_small v wmin (i - sh) Hv) in Hi by lia. discriminate.
Qed.

Lemma shiftr_shiftl_same v sh : N.shiftr (N.shiftl v sh) sh = v.
Proof. rewrite N.shiftr_shiftl_l by lia. rewrite N.sub_diag. apply N.shiftl_0_r. Qed.

Lemma ones_nonzero w : 1 <= w -> N.ones w <> 0.
Proof.
  intros Hw E. assert (X : N.testbit (N.ones w) 0 = true) by (apply N.ones_spec_low; lia).
  rewrite E, N.bits_0 in X. discriminate.
Qed.

(* the 16 contributions each stay inside their own mask *)
Definition width_ok (i : nat) (v : N) : Prop := v < 2 ^ nth i MIN_WIDTHS 0.

Lemma set_value_sub L i v : layout_ok L = true -> (i < 16)%nat -> width_ok i v -> sub (set_value L i v) (lmask L i).
Proof.
  intros H Hi Hv. destruct (layout_field L i H Hi) as (w & Hm & Hw). rewrite Hm. unfold set_value.
  exact (value_sub v w _ _ Hv Hw).
Qed.

Lemma set_flag_sub L i f : sub (set_flag L i f) (lmask L i).
Proof. unfold set_flag. destruct f; [apply sub_refl|apply sub_0]. Qed.

Lemma set_masked_sub L i v : sub (set_masked L i v) (lmask L i).
Proof. unfold set_masked. apply sub_land_r. Qed.

Lemma set_masked_value L i v : layout_ok L = true -> (i < 16)%nat -> width_ok i v -> set_masked L i v = set_value L i v.
Proof. intros H Hi Hv. unfold set_masked. apply sub_land. exact (set_value_sub L i v H Hi Hv). Qed.

(* ---------- in-range moves ---------- *)
Record move_in_range (m : move) : Prop := {
  r_piece_moved : piece_moved m < 8;
  r_piece_attacked : piece_attacked m < 8;
  r_src : src m < 64;
  r_dst : dst m < 64;
  r_prev_half : prev_half m < 4096;
  r_prev_ep : prev_ep m < 64;
  r_next_ep : next_ep m < 64;
  r_promo : promo m < 8;
  r_side : side m < 2
}.

Lemma contributions_sub L m : layout_ok L = true -> move_in_range m ->
  Forall2 sub (contributions L m) (map fst L).
Proof.
  intros H R. pose proof (layout_length L H) as Hlen.
  assert (E : map fst L = map (lmask L) (seq 0 16)).
  { apply nth_ext with (d := 0) (d' := 0).
    - rewrite !map_length, seq_length. exact Hlen.
    - intros n Hn. rewrite map_length, Hlen in Hn. rewrite <- lmask_nth.
      rewrite (nth_indep (map (lmask L) (seq 0 16)) 0 (lmask L 0%nat)) by (rewrite map_length, seq_length; exact Hn).
      rewrite (map_nth (lmask L) (seq 0 16) 0%nat n). rewrite seq_nth by exact Hn. reflexivity. }
  rewrite E. destruct R. unfold contributions. cbn [seq map].
  repeat (apply Forall2_cons;
          [first [apply set_flag_sub | apply set_masked_sub
                 | apply set_value_sub; [exact H|lia|unfold width_ok; cbn [nth MIN_WIDTHS]; assumption]]|]).
  constructor.
Qed.

Lemma get_value_pack L m i : layout_ok L = true -> move_in_range m -> (i < 16)%nat ->
  get_value L i (pack L m) = N.shiftr (nth i (contributions L m) 0) (lshift L i).
Proof.
  intros H R Hi. unfold get_value, pack. f_equal. rewrite lmask_nth.
  apply select_land.
  - exact (contributions_sub L m H R).
  - apply masks_disjoint_pd. unfold layout_ok in H. now apply andb_true_iff in H as [_ H].
  - rewrite map_length, (layout_length L H). exact Hi.
Qed.

Lemma get_set_value L i v : N.shiftr (set_value L i v) (lshift L i) = v.
Proof. unfold set_value. apply shiftr_shiftl_same. Qed.

Lemma get_set_flag L i f : layout_ok L = true -> (i < 16)%nat -> (1 <= nth i MIN_WIDTHS 0) ->
  negb (N.shiftr (set_flag L i f) (lshift L i) =? 0) = f.
Proof.
  intros H Hi H1. unfold set_flag. destruct f.
  - destruct (layout_field L i H Hi) as (w & Hm & Hw). rewrite Hm, shiftr_shiftl_same.
    destruct (N.eqb_spec (N.ones w) 0) as [E|E]; [|reflexivity]. exfalso. revert E. apply ones_nonzero. lia.
  - rewrite N.shiftr_0_l. reflexivity.
Qed.

Theorem pack_unpack L m : layout_ok L = true -> move_in_range m -> unpack L (pack L m) (mvvlva m) = m.
Proof.
  intros H R. unfold unpack, get_flag.
  rewrite !(get_value_pack L m _ H R) by lia.
  assert (Hph : set_masked L 11 (prev_half m) = set_value L 11 (prev_half m)).
  { apply set_masked_value; [exact H|lia|]. unfold width_ok. cbn [nth MIN_WIDTHS]. apply R. }
  unfold contributions. cbn [nth]. rewrite Hph.
  rewrite !get_set_value.
  rewrite !(get_set_flag L _ _ H) by (cbn [nth MIN_WIDTHS]; lia).
  destruct m; reflexivity.
Qed.

Theorem pack_inj L m1 m2 : layout_ok L = true -> move_in_range m1 -> move_in_range m2 ->
  pack L m1 = pack L m2 -> mvvlva m1 = mvvlva m2 -> m1 = m2.
Proof.
  intros H R1 R2 E Ev. rewrite <- (pack_unpack L m1 H R1), <- (pack_unpack L m2 H R2). now rewrite E, Ev.
Qed.

(* the packed word fits the u64 *)
Theorem pack_lt_2_64 L m : layout_ok L = true -> move_in_range m -> pack L m < 2 ^ 64.
Proof.
  intros H R. unfold pack. pose proof (contributions_sub L m H R) as F.
  assert (B : Forall (fun x => x < 2 ^ 64) (map fst L)).
  { apply Forall_forall. intros x Hx. apply (In_nth _ _ 0) in Hx as (i & Hi & <-).
    rewrite map_length, (layout_length L H) in Hi. rewrite <- lmask_nth. now apply layout_mask_lt. }
  revert B. induction F as [|c mk cs ms Hc F IH]; intros B; cbn [fold_right].
  - apply N.neq_0_lt_0. apply N.pow_nonzero. lia.
  - inversion B as [|? ? B1 B2]; subst. apply lor_lt; [exact (sub_lt c mk 64 Hc B1)|exact (IH B2)].
Qed.

(* ---------- every generated move is in range ---------- *)
(* Side conditions on the tables (both discharged for the tables of the current /repo below):
   * tables_bounded: the king/knight tables and all magic attack sets are u64 values (below 2^64); otherwise a
     target square taken from them could be >= 64.  The pawn tables need no condition: their entries are ANDed
     with the passive occupancy / the e.p. bit.
   * tables_geom_ok: RANK_2 / RANK_7 are the real rank masks, so that a double push starts from the pawn's
     home rank and its target `ctz64 (single >> 8)` is a real square (with a wrong mask the shifted mask can be
     empty and the target 64). *)
Definition lt64 (x : N) : bool := x <? 18446744073709551616.
Definition tables_bounded (T : Tables.t) : bool :=
  forallb lt64 (king_tbl T) && forallb lt64 (knight_tbl T) &&
  forallb (fun c => forallb lt64 (mg_attacks c)) (rook_magics T) &&
  forallb (fun c => forallb lt64 (mg_attacks c)) (bishop_magics T).
Definition tables_geom_ok (T : Tables.t) : bool :=
  (RANK_2 T =? 71776119061217280) && (RANK_7 T =? 65280).

Lemma lt64_spec x : lt64 x = true -> x < 2 ^ 64.
Proof. unfold lt64. rewrite two64. apply N.ltb_lt. Qed.

Lemma zero_lt64 : 0 < 2 ^ 64.
Proof. apply N.neq_0_lt_0. apply N.pow_nonzero. lia. Qed.

Lemma leaper_lt tbl s : forallb lt64 tbl = true -> leaper tbl s < 2 ^ 64.
Proof.
  intros H. unfold leaper, nthN. destruct (nth_in_or_default (N.to_nat s) tbl 0) as [Hin| ->]; [|apply zero_lt64].
  rewrite forallb_forall in H. apply lt64_spec. now apply H.
Qed.

Lemma magic_lookup_lt cfgs s occ :
  forallb (fun c => forallb lt64 (mg_attacks c)) cfgs = true -> magic_lookup cfgs s occ < 2 ^ 64.
Proof.
  intros H. unfold magic_lookup, magic_lookup_opt, nthN_opt.
  destruct (nth_error cfgs (N.to_nat s)) as [c|] eqn:Ec; [|apply zero_lt64].
  destruct (nth_error (mg_attacks c) (N.to_nat (magic_index c occ))) as [a|] eqn:Ea; [|apply zero_lt64].
  apply nth_error_In in Ec. apply nth_error_In in Ea.
  rewrite forallb_forall in H. specialize (H c Ec). rewrite forallb_forall in H. apply lt64_spec. now apply H.
Qed.

Lemma rank2_range s : N.testbit 71776119061217280 s = true -> 48 <= s < 56.
Proof.
  change 71776119061217280 with (N.shiftl (N.ones 8) 48). intros H.
  destruct (N.lt_ge_cases s 48) as [A|A]; [rewrite N.shiftl_spec_low in H by exact A; discriminate|].
  rewrite N.shiftl_spec_high in H by lia.
  destruct (N.lt_ge_cases (s - 48) 8) as [B|B]; [lia|]. rewrite N.ones_spec_high in H by exact B. discriminate.
Qed.

Lemma rank7_range s : N.testbit 65280 s = true -> 8 <= s < 16.
Proof.
  change 65280 with (N.shiftl (N.ones 8) 8). intros H.
  destruct (N.lt_ge_cases s 8) as [A|A]; [rewrite N.shiftl_spec_low in H by exact A; discriminate|].
  rewrite N.shiftl_spec_high in H by lia.
  destruct (N.lt_ge_cases (s - 8) 8) as [B|B]; [lia|]. rewrite N.ones_spec_high in H by exact B. discriminate.
Qed.

Lemma piece_at_lt p t : piece_at p t < 8.
Proof.
  unfold piece_at, piece_at_mask.
  repeat match goal with |- context [if ?c then _ else _] => destruct c end; reflexivity.
Qed.

Section Range.
Variable T : Tables.t.
Hypothesis HB : tables_bounded T = true.
Hypothesis HG : tables_geom_ok T = true.

Lemma attack_set_lt b s pc att : In (pc, att) (piece_attack_sets T b s) -> att < 2 ^ 64 /\ pc < 8.
Proof.
  unfold tables_bounded in HB. rewrite !andb_true_iff in HB. destruct HB as (((B1 & B2) & B3) & B4).
  unfold piece_attack_sets. cbv zeta. cbn [In].
  intros [E|[E|[E|[E|[E|[E|[]]]]]]]; injection E as E1 E2; subst pc att; (split; [|reflexivity]);
    first [now apply magic_lookup_lt | now apply leaper_lt].
Qed.

Lemma single_push_range b s : wf b = true -> N.testbit (pawns (active b)) s = true ->
  exists k, k < 64 /\ single_push b s = bit k.
Proof.
  intros Hwf Hs. pose proof (pawn_square_range b s Hwf Hs) as R. unfold single_push. destruct (is_white_turn b).
  - rewrite bit_shiftr8. destruct (N.leb_spec 8 s); [|lia]. exists (s - 8). split; [lia|reflexivity].
  - rewrite bit_shiftl8. destruct (N.ltb_spec (s + 8) 64); [|lia]. exists (s + 8). split; [lia|reflexivity].
Qed.

Lemma double_push_range b s : wf b = true -> N.testbit (pawns (active b)) s = true ->
  nz (N.land (bit s) (double_rank T b)) = true ->
  exists k, k < 64 /\ double_push b s = bit k.
Proof.
  intros Hwf Hs Hd. unfold tables_geom_ok in HG. apply andb_true_iff in HG as [G2 G7].
  apply N.eqb_eq in G2. apply N.eqb_eq in G7.
  apply nz_true in Hd. rewrite N.land_comm in Hd. apply land_nonzero_testbit in Hd.
  unfold double_push, single_push, double_rank in *. destruct (is_white_turn b).
  - rewrite G2 in Hd. apply rank2_range in Hd. rewrite bit_shiftr8. destruct (N.leb_spec 8 s); [|lia].
    rewrite bit_shiftr8. destruct (N.leb_spec 8 (s - 8)); [|lia]. exists (s - 8 - 8). split; [lia|reflexivity].
  - rewrite G7 in Hd. apply rank7_range in Hd. rewrite bit_shiftl8. destruct (N.ltb_spec (s + 8) 64); [|lia].
    rewrite bit_shiftl8. destruct (N.ltb_spec (s + 8 + 8) 64); [|lia]. exists (s + 8 + 8). split; [lia|reflexivity].
Qed.

Lemma pawn_capture_target_lt b s t : wf b = true -> N.testbit (pawn_capture_set T b s) t = true -> t < 64.
Proof.
  intros Hwf H. destruct (wf_elim b Hwf) as (_ & _ & _ & Hep & _).
  unfold pawn_capture_set in H. cbv zeta in H. rewrite clear_testbit in H. apply andb_true_iff in H as [H _].
  rewrite N.land_spec in H. apply andb_true_iff in H as [_ H]. rewrite N.lor_spec in H.
  apply orb_true_iff in H as [H|H].
  - exact (testbit_lt _ 64 t (full_occ_lt _ (passive_bounded b Hwf)) H).
  - rewrite clear_testbit in H. apply andb_true_iff in H as [H _]. rewrite bit_spec in H. apply N.eqb_eq in H. lia.
Qed.

Lemma in_promo_lt pr : In pr PROMO_PIECES -> pr < 8.
Proof. intros [<-|[<-|[<-|[<-|[]]]]]; reflexivity. Qed.

Theorem generated_in_range b m : wf b = true -> generated T b m -> move_in_range m.
Proof.
  intros Hwf (s & t & pc & ic & ie & pr & epo & Hc & ->).
  destruct (wf_elim b Hwf) as (_ & _ & Hturn & Hep & _).
  pose proof (active_bounded b Hwf) as Hab.
  assert (Hsrc : forall k x, N.testbit (occ_of (active b) k) x = true -> x < 64).
  { intros k x Hx. exact (testbit_lt _ 64 x (occ_of_lt _ k Hab) Hx). }
  assert (Hph : half b mod 4096 < 4096) by (apply N.mod_lt; lia).
  assert (Hpa : forall x, piece_at (passive b) x < 8) by (intro x; apply piece_at_lt).
  destruct Hc as [s t pc att Hin Hs Ht | s t pr Hs Ht Hrk Hpr | s t Hs Ht Hrk | s pr Hs Hfree Hrk Hpr
                 | s Hs Hfree Hrk | s Hs Hfree Hrk Hdr Hfree2 | Hwt Hq He | Hwt Hq He | Hwt Hq He | Hwt Hq He];
    constructor; unfold mk; cbv zeta;
    cbn [piece_moved piece_attacked src dst prev_half prev_ep next_ep promo side];
    try exact Hph; try exact Hep; try exact Hturn; try apply Hpa; try (reflexivity).
  - exact (proj2 (attack_set_lt b s pc att Hin)).
  - exact (Hsrc pc s Hs).
  - rewrite clear_testbit in Ht. apply andb_true_iff in Ht as [Ht _].
    exact (testbit_lt _ 64 t (proj1 (attack_set_lt b s pc att Hin)) Ht).
  - exact (Hsrc PAWN s Hs).
  - exact (pawn_capture_target_lt b s t Hwf Ht).
  - now apply in_promo_lt.
  - exact (Hsrc PAWN s Hs).
  - exact (pawn_capture_target_lt b s t Hwf Ht).
  - exact (Hsrc PAWN s Hs).
  - destruct (single_push_range b s Hwf Hs) as (k & Hk & ->). now rewrite ctz64_bit.
  - now apply in_promo_lt.
  - exact (Hsrc PAWN s Hs).
  - destruct (single_push_range b s Hwf Hs) as (k & Hk & ->). now rewrite ctz64_bit.
  - exact (Hsrc PAWN s Hs).
  - destruct (double_push_range b s Hwf Hs Hdr) as (k & Hk & ->). now rewrite ctz64_bit.
  - destruct (single_push_range b s Hwf Hs) as (k & Hk & ->). now rewrite ctz64_bit.
Qed.

Theorem gen_move_in_range b m : wf b = true -> In m (gen_pseudo T b) -> move_in_range m.
Proof. intros Hwf Hin. apply (generated_in_range b m Hwf). now apply gen_pseudo_cases. Qed.

Theorem gen_nonquiet_in_range b m : wf b = true -> In m (gen_nonquiet T b) -> move_in_range m.
Proof. intros Hwf Hin. apply (generated_in_range b m Hwf). now apply gen_nonquiet_cases. Qed.

(* for generated moves the score field is a function of the packed fields, so the packed word alone identifies
   the move *)
Lemma generated_mvvlva b m : generated T b m -> mvvlva m = mvv_lva T (piece_moved m) (piece_attacked m).
Proof. intros (s & t & pc & ic & ie & pr & epo & _ & ->). reflexivity. Qed.

Theorem gen_pack_inj L b1 b2 m1 m2 : layout_ok L = true -> wf b1 = true -> wf b2 = true ->
  In m1 (gen_pseudo T b1) -> In m2 (gen_pseudo T b2) -> pack L m1 = pack L m2 -> m1 = m2.
Proof.
  intros HL W1 W2 I1 I2 E.
  pose proof (gen_move_in_range b1 m1 W1 I1) as R1. pose proof (gen_move_in_range b2 m2 W2 I2) as R2.
  apply (pack_inj L m1 m2 HL R1 R2 E).
  rewrite (generated_mvvlva b1 m1 (gen_pseudo_cases T b1 m1 I1)), (generated_mvvlva b2 m2 (gen_pseudo_cases T b2 m2 I2)).
  pose proof (pack_unpack L m1 HL R1) as U1. pose proof (pack_unpack L m2 HL R2) as U2.
  rewrite <- U1 at 1 2. rewrite <- U2 at 1 2. rewrite E. reflexivity.
Qed.

End Range.

(* ---------- the layout and tables dumped from the current /repo ---------- *)
Require Ink.Gen.Tables.

Lemma gen_layout_ok : layout_ok (layout Ink.Gen.Tables.tables) = true.
Proof. vm_compute. reflexivity. Qed.

Lemma gen_tables_bounded : tables_bounded Ink.Gen.Tables.tables = true.
Proof. vm_compute. reflexivity. Qed.

Lemma gen_tables_geom_ok : tables_geom_ok Ink.Gen.Tables.tables = true.
Proof. vm_compute. reflexivity. Qed.

(* Proofs/C08Sim.v : the relation [sim] of Minimax.ply_unique for chess (property C08, depth >= 3).

   Two move orders (pawn move or capture first / last) reach boards that are identical except for the half-move clock.
   The clock is not part of the Zobrist key (Model/Board.v zobrist_hash; ZobristProofs.function_of_key), so the
   transposition table identifies them; with sim = equality [ply_unique] fails at depth 3 on ordinary positions.

   Where the clock is read (Model/Heuristic.v evaluate, Model/Board.v make):
     - `evaluate(.., legal_moves_remaining = true)` returns draw_score as soon as max_half_moves <= half (MAX_HALF_MOVES =
       100 in the pinned tree), the ordinary evaluation otherwise; nothing else in static/terminal/succs/noisy_succs/
       noisy_any reads it (the generated Move records it in its 12-bit prev_half field, which `make` does not read);
     - `make` resets it (pawn move or capture) or adds 1.
   Every move of the capture generator is a pawn move or a capture ([nonquiet_reset]): inside the capture search below a
   node every position has clock 0, only the stand-pat evaluation of the node itself reads the node's clock.  So only the
   plies of the main search count:

     clock_rel L r hx hy :=  hx = hy  \/  (hx + r < L /\ hy + r < L)  \/  (L <= hx /\ L <= hy)
     sim_clock r x y     :=  twin x y /\ clock_rel (max_half_moves T) r (half x) (half y)
     twin x y            :=  x and y agree in both player states (12 bitboards, castling rights), side, e.p. square and
                             full-move number.

   The first disjunct makes sim_clock reflexive at every clock (ply_unique also asks sim (D-i) x x), the third is the
   other stable region (both already drawn by the fifty-move rule: a non-resetting move keeps both there, a resetting one
   makes the children equal).  The margin r is sharp: [clock_margin_needed].

   Part 1  set_half / set_ph: the generators commute with changing the clock; make; children
   Part 2  [nm_set_half], [sim_clock_nm], [sim_clock_le]; sim_clock is an equivalence
   Part 3  checker [ply_unique_clock_check] and its soundness
   Part 4  the closed theorems with sim := sim_clock GT; examples *)
Require Import Ink.Lib.Str.
Require Import NArith ZArith List Bool Lia ZifyBool ZifyN Arith.
Require Import Ink.Lib.Bits Ink.Model.Tables Ink.Model.Board Ink.Model.Fen Ink.Model.History Ink.Model.Heuristic Ink.Model.UciTx
        Ink.Model.Search.
Require Ink.Spec.Minimax.
Require Import Ink.Proofs.MakeUnmake Ink.Proofs.ZobristProofs Ink.Proofs.SearchProofs Ink.Proofs.SessionProofs Ink.Proofs.ChessGame
        Ink.Proofs.SearchRefine.
Require Import Ink.Proofs.ChessInstance Ink.Proofs.RepetitionInstance Ink.Proofs.C08Chess Ink.Proofs.C08Closed.
Require Ink.Proofs.RepetitionProofs.
Import ListNotations.
Open Scope N_scope.

Arguments N.add : simpl never.
Arguments N.sub : simpl never.
Arguments N.mul : simpl never.
Arguments N.div : simpl never.
Arguments N.modulo : simpl never.
Arguments N.eqb : simpl never.
Arguments N.ltb : simpl never.
Arguments N.leb : simpl never.
Arguments Z.add : simpl never.
Arguments Z.mul : simpl never.
Arguments Z.opp : simpl never.
Arguments Z.max : simpl never.
Arguments Z.min : simpl never.

(* ================================================================== *)
(* Part 1: changing the half-move clock                                *)

Definition set_half (b : board) (h : N) : board :=
  {| white := white b; black := black b; turn := turn b; ep := ep b; full := full b; half := h |}.

(* the only field of a generated Move that depends on the clock *)
Definition set_ph (p : N) (m : move) : move :=
  {| piece_moved := piece_moved m; piece_attacked := piece_attacked m;
     self_lost_ks := self_lost_ks m; self_lost_qs := self_lost_qs m; opp_lost_ks := opp_lost_ks m; opp_lost_qs := opp_lost_qs m;
     castle := castle m; ep_attack := ep_attack m; src := src m; dst := dst m;
     half_reset := half_reset m; prev_half := p; prev_ep := prev_ep m; next_ep := next_ep m; promo := promo m; side := side m;
     mvvlva := mvvlva m |}.

Definition twin (x y : board) : Prop :=
  white x = white y /\ black x = black y /\ turn x = turn y /\ ep x = ep y /\ full x = full y.

Lemma set_half_id b : set_half b (half b) = b.
Proof. destruct b; reflexivity. Qed.

Lemma twin_set_half x y : twin x y -> y = set_half x (half y).
Proof. destruct x, y. unfold twin, set_half. cbn. intros (-> & -> & -> & -> & ->). reflexivity. Qed.

Lemma set_half_twin b h : twin b (set_half b h).
Proof. unfold twin. cbn. auto. Qed.

Lemma twin_iff x y : twin x y <-> set_half x 0 = set_half y 0.
Proof.
  split.
  - intros H. rewrite (twin_set_half x y H). reflexivity.
  - destruct x, y. unfold twin, set_half. cbn. intros [= -> -> -> -> ->]. auto.
Qed.

Lemma twin_refl x : twin x x.
Proof. unfold twin. auto. Qed.
Lemma twin_sym x y : twin x y -> twin y x.
Proof. unfold twin. intros (A & B & C & D & E). auto. Qed.
Lemma twin_trans x y z : twin x y -> twin y z -> twin x z.
Proof. unfold twin. intros (A & B & C & D & E) (A' & B' & C' & D' & E'). repeat split; congruence. Qed.

Lemma flat_map_map_ext {A B} (g : B -> B) (f f' : A -> list B) (l : list A) :
  (forall a, f' a = map g (f a)) -> flat_map f' l = map g (flat_map f l).
Proof. intros H. induction l as [|a r IH]; cbn [flat_map map]; [reflexivity|]. now rewrite map_app, H, IH. Qed.

Lemma Forall2_imp {A B} (R R' : A -> B -> Prop) l l' : (forall a b, R a b -> R' a b) -> Forall2 R l l' -> Forall2 R' l l'.
Proof. intros H F. induction F; constructor; auto. Qed.

Lemma Forall2_len {A B} (R : A -> B -> Prop) l l' : Forall2 R l l' -> length l = length l'.
Proof. intros F. induction F; cbn [length]; congruence. Qed.

Lemma existsb_map_comp {A B} (f : B -> bool) (g : A -> B) (l : list A) : existsb f (map g l) = existsb (fun a => f (g a)) l.
Proof. induction l as [|a r IH]; cbn [map existsb]; [reflexivity|]. now rewrite IH. Qed.

Section Clock.
Variable T : Tables.t.

(* ---- the generators ---- *)
Section Gen.
Variables (b : board) (h : N).
Local Notation b' := (set_half b h).
Local Notation g := (set_ph (h mod 4096)).

Lemma make_move_sh nq s t pc ic ie pr epo :
  make_move T b' nq s t pc ic ie pr epo = map g (make_move T b nq s t pc ic ie pr epo).
Proof.
  unfold make_move. cbv zeta.
  change (is_white_turn b') with (is_white_turn b). change (passive b') with (passive b). change (active b') with (active b).
  match goal with |- context [if ?c then [] else _] => destruct c end; reflexivity.
Qed.

Lemma gen_attacks_sh nq s occ pc : gen_attacks T b' nq s occ pc = map g (gen_attacks T b nq s occ pc).
Proof. unfold gen_attacks. apply flat_map_map_ext. intros t. apply make_move_sh. Qed.

Lemma sliding_moves_sh nq po ao fo lk pc : sliding_moves T b' nq po ao fo lk pc = map g (sliding_moves T b nq po ao fo lk pc).
Proof. unfold sliding_moves. apply flat_map_map_ext. intros s. apply gen_attacks_sh. Qed.

Lemma single_moves_sh nq po ao tbl pc : single_moves T b' nq po ao tbl pc = map g (single_moves T b nq po ao tbl pc).
Proof. unfold single_moves. apply flat_map_map_ext. intros s. apply gen_attacks_sh. Qed.

Lemma pawn_promotions_sh s t : pawn_promotions T b' s t = map g (pawn_promotions T b s t).
Proof. unfold pawn_promotions. rewrite !map_app, !make_move_sh. reflexivity. Qed.

Lemma gen_pawn_attacks_sh occ s : gen_pawn_attacks T b' occ s = map g (gen_pawn_attacks T b occ s).
Proof.
  unfold gen_pawn_attacks. apply flat_map_map_ext. intros t. cbv zeta. change (ep b') with (ep b).
  destruct (nz _ || nz _); [apply pawn_promotions_sh|apply make_move_sh].
Qed.

Lemma pawn_attacks_sh po ao pso : pawn_attacks T b' po ao pso = map g (pawn_attacks T b po ao pso).
Proof.
  unfold pawn_attacks. cbv zeta. change (is_white_turn b') with (is_white_turn b). change (ep b') with (ep b).
  apply flat_map_map_ext. intros s. apply gen_pawn_attacks_sh.
Qed.

Lemma pawn_moves_sh nq po fo : pawn_moves T b' nq po fo = map g (pawn_moves T b nq po fo).
Proof.
  unfold pawn_moves. cbv zeta. change (is_white_turn b') with (is_white_turn b).
  apply flat_map_map_ext. intros s.
  destruct (nz (N.land _ fo)); [reflexivity|].
  destruct (nz (N.land _ _)); [apply pawn_promotions_sh|].
  rewrite map_app, make_move_sh. f_equal.
  destruct (_ && _); [apply make_move_sh|reflexivity].
Qed.

Lemma castle_moves_sh fo : castle_moves T b' fo = map g (castle_moves T b fo).
Proof.
  unfold castle_moves. change (is_white_turn b') with (is_white_turn b).
  change (white b') with (white b). change (black b') with (black b).
  destruct (is_white_turn b); rewrite map_app; f_equal;
    match goal with |- context [if ?c then _ else []] => destruct c end; try reflexivity; apply make_move_sh.
Qed.

Lemma gen_common_sh nq : gen_common T b' nq = map g (gen_common T b nq).
Proof.
  unfold gen_common. cbv zeta. change (active b') with (active b). change (passive b') with (passive b).
  rewrite !map_app, !sliding_moves_sh, !single_moves_sh, pawn_attacks_sh, pawn_moves_sh. reflexivity.
Qed.

Lemma gen_pseudo_sh : gen_pseudo T b' = map g (gen_pseudo T b).
Proof.
  unfold gen_pseudo. change (active b') with (active b). change (passive b') with (passive b).
  now rewrite map_app, gen_common_sh, castle_moves_sh.
Qed.

Lemma gen_nonquiet_sh : gen_nonquiet T b' = map g (gen_nonquiet T b).
Proof. unfold gen_nonquiet. apply gen_common_sh. Qed.

End Gen.

(* ---- make ---- *)
Lemma make_sh b h p m :
  make (set_half b h) (set_ph p m) = option_map (fun q => set_half q (if half_reset m then 0 else h + 1)) (make b m).
Proof.
  rewrite !make_split.
  change (sides_make (is_white_turn (set_half b h)) (active (set_half b h)) (passive (set_half b h)) (set_ph p m))
    with (sides_make (is_white_turn b) (active b) (passive b) m).
  destruct (sides_make (is_white_turn b) (active b) (passive b) m) as [[a pp]|]; [|reflexivity].
  cbn [option_map]. change (is_white_turn (set_half b h)) with (is_white_turn b).
  unfold assemble. destruct (is_white_turn b); reflexivity.
Qed.

Lemma make_half b m q : make b m = Some q -> half q = if half_reset m then 0 else half b + 1.
Proof.
  rewrite make_split. destruct (sides_make _ _ _ m) as [[a pp]|]; [|discriminate]. intros [= <-].
  unfold assemble. destruct (is_white_turn b); reflexivity.
Qed.

Lemma is_valid_sh q c : is_valid T (set_half q c) = is_valid T q.
Proof. reflexivity. Qed.

(* the children of clock twins are clock twins, pairwise in the same order; their clocks are both 0 or both one more *)
Definition child_rel (hb h : N) (q q' : board) : Prop :=
  exists c, q' = set_half q c /\ ((half q = 0 /\ c = 0) \/ (half q = hb + 1 /\ c = h + 1)).

Lemma children_sh b h p ms :
  Forall2 (child_rel (half b) h) (children T b ms) (children T (set_half b h) (map (set_ph p) ms)).
Proof.
  induction ms as [|m r IH]; cbn [map children]; [constructor|].
  rewrite make_sh. destruct (make b m) as [q|] eqn:Em; cbn [option_map]; [|exact IH].
  rewrite is_valid_sh. destruct (is_valid T q); [|exact IH].
  constructor; [|exact IH]. eexists. split; [reflexivity|].
  rewrite (make_half b m q Em). destruct (half_reset m); [left|right]; auto.
Qed.

Lemma children_sh_reset b h p ms : (forall m, In m ms -> half_reset m = true) ->
  children T (set_half b h) (map (set_ph p) ms) = children T b ms.
Proof.
  induction ms as [|m r IH]; intros Hr; cbn [map children]; [reflexivity|].
  rewrite make_sh, (Hr m (or_introl eq_refl)). assert (IH' := IH (fun m' H => Hr m' (or_intror H))).
  destruct (make b m) as [q|] eqn:Em; cbn [option_map]; [|exact IH'].
  pose proof (make_half b m q Em) as Hh. rewrite (Hr m (or_introl eq_refl)) in Hh.
  rewrite <- Hh, set_half_id, IH'. reflexivity.
Qed.

Lemma succs_sh b h : Forall2 (child_rel (half b) h) (succs T b) (succs T (set_half b h)).
Proof. unfold succs. rewrite gen_pseudo_sh. apply children_sh. Qed.

(* ---- every move of the capture generator resets the clock ---- *)
Lemma make_move_reset b s t pc ie pr epo m : pc = PAWN \/ pr = NO_PIECE ->
  In m (make_move T b true s t pc false ie pr epo) -> half_reset m = true.
Proof.
  intros Hc. unfold make_move. cbv zeta. rewrite andb_true_r.
  match goal with |- context [if ?c then [] else _] => destruct c eqn:E end; [intros []|].
  intros [<-|[]]. cbn [half_reset]. destruct Hc as [-> | ->]; [reflexivity|].
  rewrite N.eqb_refl, andb_true_r in E. rewrite E. apply orb_true_r.
Qed.

Lemma gen_attacks_reset b s occ pc m : In m (gen_attacks T b true s occ pc) -> half_reset m = true.
Proof.
  unfold gen_attacks. intros H. apply in_flat_map in H as (t & _ & H). eapply make_move_reset; [|exact H]. now right.
Qed.

Lemma promotions_reset b s t m : In m (pawn_promotions T b s t) -> half_reset m = true.
Proof. intros H. apply in_promotions in H as (q & _ & ->). reflexivity. Qed.

Lemma nonquiet_reset b m : In m (gen_nonquiet T b) -> half_reset m = true.
Proof.
  unfold gen_nonquiet, gen_common. cbv zeta. rewrite !in_app_iff.
  assert (Hs : forall po ao fo lk pc, In m (sliding_moves T b true po ao fo lk pc) -> half_reset m = true).
  { intros po ao fo lk pc H. unfold sliding_moves in H. apply in_flat_map in H as (s & _ & H). now apply gen_attacks_reset in H. }
  assert (Hl : forall po ao tbl pc, In m (single_moves T b true po ao tbl pc) -> half_reset m = true).
  { intros po ao tbl pc H. unfold single_moves in H. apply in_flat_map in H as (s & _ & H). now apply gen_attacks_reset in H. }
  intros [H|[H|[H|[H|[H|[H|[H|H]]]]]]]; try (now eapply Hs; eauto); try (now eapply Hl; eauto).
  - unfold pawn_attacks in H. cbv zeta in H. apply in_flat_map in H as (s & _ & H).
    unfold gen_pawn_attacks in H. apply in_flat_map in H as (t & _ & H). cbv zeta in H.
    destruct (nz _ || nz _); [now apply promotions_reset in H|].
    rewrite make_move_nq in H. destruct H as [<-|[]]. reflexivity.
  - unfold pawn_moves in H. cbv zeta in H. apply in_flat_map in H as (s & _ & H).
    destruct (nz _) in H; [destruct H|]. destruct (nz _) in H; [now apply promotions_reset in H|].
    apply in_app_iff in H as [H|H]; [eapply make_move_reset; [|exact H]; now left|].
    destruct (_ && _) in H; [|destruct H]. eapply make_move_reset; [|exact H]. now left.
Qed.

Lemma sane_sh b h : sane (set_half b h) = sane b.
Proof. reflexivity. Qed.

Lemma noisy_succs_sh b h : noisy_succs T (set_half b h) = noisy_succs T b.
Proof.
  unfold noisy_succs. rewrite sane_sh. destruct (sane b); [|reflexivity].
  unfold noisy_succs_raw. rewrite gen_nonquiet_sh. apply children_sh_reset. apply nonquiet_reset.
Qed.

Lemma noisy_any_sh b h : noisy_any T (set_half b h) = noisy_any T b.
Proof.
  unfold noisy_any, is_any_move_non_quiescent. rewrite gen_pseudo_sh, existsb_map_comp. reflexivity.
Qed.

Lemma terminal_sh b h : terminal T (set_half b h) = terminal T b.
Proof. reflexivity. Qed.

Lemma qmeasure_sh b h : qmeasure (set_half b h) = qmeasure b.
Proof. reflexivity. Qed.

(* ---- the only reader of the clock ---- *)
Definition clock_rel (L : N) (r : nat) (hx hy : N) : Prop :=
  hx = hy \/ (hx + N.of_nat r < L /\ hy + N.of_nat r < L) \/ (L <= hx /\ L <= hy).

Lemma static_clock b : ChessGame.static T b =
  (heuristic_factor (turn b) * (if (max_half_moves T <=? half b)%N then draw_score T else evaluate_ongoing T b))%Z.
Proof. reflexivity. Qed.

Lemma static_sh b h : clock_rel (max_half_moves T) 0 (half b) h ->
  ChessGame.static T (set_half b h) = ChessGame.static T b.
Proof.
  intros Hc. rewrite !static_clock. change (turn (set_half b h)) with (turn b). change (half (set_half b h)) with h.
  change (evaluate_ongoing T (set_half b h)) with (evaluate_ongoing T b).
  destruct Hc as [<-|[[A B]|[A B]]]; [reflexivity| |].
  - replace (max_half_moves T <=? half b) with false by lia. replace (max_half_moves T <=? h) with false by lia. reflexivity.
  - replace (max_half_moves T <=? half b) with true by lia. replace (max_half_moves T <=? h) with true by lia. reflexivity.
Qed.

Lemma static_sat_sh b h : clock_rel (max_half_moves T) 0 (half b) h -> static_sat T (set_half b h) = static_sat T b.
Proof. intros Hc. unfold static_sat. now rewrite static_sh. Qed.

Lemma clock_rel_le L r r' hx hy : (r <= r')%nat -> clock_rel L r' hx hy -> clock_rel L r hx hy.
Proof. unfold clock_rel. intros Hr [H|[[A B]|H]]; [now left|right; left; lia|right; now right]. Qed.

Lemma clock_rel_step L k hx hy : clock_rel L (S k) hx hy -> clock_rel L k (hx + 1) (hy + 1).
Proof. unfold clock_rel. intros [H|[[A B]|[A B]]]; [left; lia|right; left; lia|right; right; lia]. Qed.

Lemma clock_rel_refl L r hx : clock_rel L r hx hx.
Proof. now left. Qed.
Lemma clock_rel_sym L r hx hy : clock_rel L r hx hy -> clock_rel L r hy hx.
Proof. unfold clock_rel. intros [H|[[A B]|[A B]]]; [left; lia|right; left; lia|right; right; lia]. Qed.
Lemma clock_rel_trans L r hx hy hz : clock_rel L r hx hy -> clock_rel L r hy hz -> clock_rel L r hx hz.
Proof. unfold clock_rel. intros [H|[[A B]|[A B]]] [H'|[[A' B']|[A' B']]]; try lia; subst; auto. Qed.

(* ================================================================== *)
(* Part 2: the spec values of clock twins agree                        *)
Local Notation stat := (static_sat T).
Local Notation nmC := (Minimax.nm board (succs T) (noisy_succs T) (noisy_any T) stat (terminal T) qmeasure).
Local Notation qsC := (Minimax.qs board (noisy_succs T) stat qmeasure).
Local Notation L := (max_half_moves T).

Lemma maxneg_F2 (f : board -> Z) (R : board -> board -> Prop) l l' :
  Forall2 R l l' -> (forall q q', R q q' -> f q' = f q) -> forall acc, Minimax.maxneg board f l' acc = Minimax.maxneg board f l acc.
Proof.
  intros F Hf. induction F as [|q q' l l' Hq _ IH]; intros acc; cbn [Minimax.maxneg]; [reflexivity|].
  now rewrite (Hf q q' Hq), IH.
Qed.

Lemma qs_set_half b h : clock_rel L 0 (half b) h -> qsC (set_half b h) = qsC b.
Proof.
  intros Hc. unfold Minimax.qs. rewrite qmeasure_sh. destruct (qmeasure b) as [|k]; cbn [Minimax.qs_fuel].
  - now apply static_sat_sh.
  - now rewrite noisy_succs_sh, static_sat_sh.
Qed.

Lemma child_rel_clock k hb h q q' : clock_rel L (S k) hb h -> child_rel hb h q q' ->
  exists c, q' = set_half q c /\ clock_rel L k (half q) c.
Proof.
  intros Hc (c & E & [[A B]|[A B]]); exists c; (split; [exact E|]); rewrite A, B.
  - apply clock_rel_refl.
  - now apply clock_rel_step.
Qed.

Theorem nm_set_half : forall r b h, clock_rel L r (half b) h -> nmC r (set_half b h) = nmC r b.
Proof.
  induction r as [|k IH]; intros b h Hc; cbn [Minimax.nm]; pose proof (succs_sh b h) as F;
    destruct (succs T b) as [|c rest] eqn:E; destruct (succs T (set_half b h)) as [|c' rest'] eqn:E';
    inversion F as [|? ? ? ? Hcc Hrest]; subst; try apply terminal_sh.
  - unfold Minimax.horizon, Minimax.nomoves. rewrite E, E', noisy_any_sh.
    destruct (noisy_any T b); [now apply qs_set_half|now apply static_sat_sh].
  - assert (Hf : forall q q', child_rel (half b) h q q' -> nmC k q' = nmC k q).
    { intros q q' Hq. destruct (child_rel_clock k _ _ _ _ Hc Hq) as (cq & -> & Hcq). now apply IH. }
    rewrite (Hf c c' Hcc). exact (maxneg_F2 (nmC k) _ _ _ Hrest Hf _).
Qed.

Definition sim_clock (r : nat) (x y : board) : Prop := twin x y /\ clock_rel L r (half x) (half y).

Theorem sim_clock_nm : forall r' r x y, sim_clock r' x y -> (r <= r')%nat -> nmC r x = nmC r y.
Proof.
  intros r' r x y [Ht Hc] Hr. rewrite (twin_set_half x y Ht). symmetry. apply nm_set_half.
  exact (clock_rel_le _ _ _ _ _ Hr Hc).
Qed.

Theorem sim_clock_le : forall r r' x y, (r <= r')%nat -> sim_clock r' x y -> sim_clock r x y.
Proof. intros r r' x y Hr [Ht Hc]. split; [exact Ht|exact (clock_rel_le _ _ _ _ _ Hr Hc)]. Qed.

Lemma sim_clock_refl r x : sim_clock r x x.
Proof. split; [apply twin_refl|apply clock_rel_refl]. Qed.
Lemma sim_clock_sym r x y : sim_clock r x y -> sim_clock r y x.
Proof. intros [A B]. split; [now apply twin_sym|now apply clock_rel_sym]. Qed.
Lemma sim_clock_trans r x y z : sim_clock r x y -> sim_clock r y z -> sim_clock r x z.
Proof. intros [A B] [A' B']. split; [eapply twin_trans; eassumption|eapply clock_rel_trans; eassumption]. Qed.

(* equality is contained in it; a pair of twins differs at most in the clock *)
Lemma sim_clock_of_eq r x y : x = y -> sim_clock r x y.
Proof. intros ->. apply sim_clock_refl. Qed.

Lemma sim_clock_same_key r x y : sim_clock r x y -> zobrist_hash T x = zobrist_hash T y.
Proof. intros [Ht _]. rewrite (twin_set_half x y Ht). reflexivity. Qed.

(* the successors of related positions are related, pairwise in generation order, with one ply less *)
Theorem sim_clock_succs k x y : sim_clock (S k) x y -> Forall2 (sim_clock k) (succs T x) (succs T y).
Proof.
  intros [Ht Hc]. rewrite (twin_set_half x y Ht). pose proof (succs_sh x (half y)) as F.
  eapply Forall2_imp; [|exact F]. intros q q' Hq.
  destruct (child_rel_clock k _ _ _ _ Hc Hq) as (c & -> & Hcq). split; [apply set_half_twin|exact Hcq].
Qed.

Theorem sim_clock_noisy_succs x y : twin x y -> noisy_succs T x = noisy_succs T y.
Proof. intros Ht. rewrite (twin_set_half x y Ht). symmetry. apply noisy_succs_sh. Qed.

(* what a horizon node reads: everything but the stand-pat value is independent of the clock *)
Theorem sim_clock_leaf x y : sim_clock 0 x y ->
  stat x = stat y /\ terminal T x = terminal T y /\ noisy_any T x = noisy_any T y /\ noisy_succs T x = noisy_succs T y /\
  qmeasure x = qmeasure y /\ length (succs T x) = length (succs T y).
Proof.
  intros [Ht Hc]. rewrite (twin_set_half x y Ht).
  rewrite static_sat_sh by exact Hc. rewrite terminal_sh, noisy_any_sh, noisy_succs_sh, qmeasure_sh.
  repeat split; try reflexivity. exact (Forall2_len _ _ _ (succs_sh x (half y))).
Qed.

Lemma sim_clock_def r x y : sim_clock r x y <->
  (white x = white y /\ black x = black y /\ turn x = turn y /\ ep x = ep y /\ full x = full y) /\
  (half x = half y \/ (half x + N.of_nat r < L /\ half y + N.of_nat r < L) \/ (L <= half x /\ L <= half y)).
Proof. reflexivity. Qed.

(* ================================================================== *)
(* Part 3: the checker                                                 *)
Definition twinb (x y : board) : bool := board_eqb (set_half x 0) (set_half y 0).

Definition clock_relb (Lm : N) (r : nat) (hx hy : N) : bool :=
  (hx =? hy) || ((hx + N.of_nat r <? Lm) && (hy + N.of_nat r <? Lm)) || ((Lm <=? hx) && (Lm <=? hy)).

Definition sim_clockb (r : nat) (x y : board) : bool := twinb x y && clock_relb L r (half x) (half y).

Lemma twinb_spec x y : twinb x y = true <-> twin x y.
Proof.
  unfold twinb, board_eqb. rewrite twin_iff. destruct (board_eq_dec (set_half x 0) (set_half y 0)); split; auto; discriminate.
Qed.

Lemma clock_relb_spec Lm r hx hy : clock_relb Lm r hx hy = true <-> clock_rel Lm r hx hy.
Proof. unfold clock_relb, clock_rel. lia. Qed.

Lemma sim_clockb_spec r x y : sim_clockb r x y = true <-> sim_clock r x y.
Proof. unfold sim_clockb, sim_clock. now rewrite andb_true_iff, twinb_spec, clock_relb_spec. Qed.

(* all tree nodes up to ply D: equal keys => same ply and clock twins with the margin of the remaining plies *)
Definition ply_unique_clock_check (D : nat) (root : board) : bool :=
  let ns := tree_nodes T D root in
  forallb (fun a => forallb (fun b =>
     if snd (fst a) =? snd (fst b) then Nat.eqb (fst (fst a)) (fst (fst b)) && sim_clockb (D - fst (fst a)) (snd a) (snd b)
     else true) ns) ns.

Theorem ply_unique_clock_check_sound D root : ply_unique_clock_check D root = true ->
  Minimax.ply_unique board (succs T) (zobrist_hash T) sim_clock D root.
Proof.
  intros H i j x y Hi Hj Hx Hy Hk. unfold ply_unique_clock_check in H. cbv zeta in H.
  rewrite forallb_forall in H. specialize (H _ (tree_nodes_in T D root i x Hi Hx)).
  rewrite forallb_forall in H. specialize (H _ (tree_nodes_in T D root j y Hj Hy)).
  cbn [fst snd] in H. rewrite Hk, N.eqb_refl in H. apply andb_true_iff in H as [H1 H2].
  apply Nat.eqb_eq in H1. apply sim_clockb_spec in H2. auto.
Qed.

(* the checker for sim = equality implies this one *)
Lemma ply_unique_eq_clock D root :
  Minimax.ply_unique board (succs T) (zobrist_hash T) (fun _ x y => x = y) D root ->
  Minimax.ply_unique board (succs T) (zobrist_hash T) sim_clock D root.
Proof.
  intros H i j x y Hi Hj Hx Hy Hk. destruct (H i j x y Hi Hj Hx Hy Hk) as [E1 E2]. split; [exact E1|now apply sim_clock_of_eq].
Qed.

End Clock.

(* ================================================================== *)
(* Part 4: the closed theorems of Proofs/C08Closed.v with sim := sim_clock, tables of the current tree                *)
Local Notation nmG := (Minimax.nm board (ChessGame.succs GT) (ChessGame.noisy_succs GT) (ChessGame.noisy_any GT) (static_sat GT)
                         (ChessGame.terminal GT) qmeasure).

Definition plain_gob (g : go_params) : bool :=
  match g_movetime g, g_wtime g, g_btime g, g_searchmoves g with None, None, None, [] => true | _, _, _, _ => false end.

Lemma plain_gob_spec g : plain_gob g = true <-> plain_go g.
Proof.
  unfold plain_gob, plain_go. destruct (g_movetime g), (g_wtime g), (g_btime g), (g_searchmoves g); split;
    try discriminate; try (intros (A & B & C & D); discriminate); auto.
Qed.

Theorem go_depth_closed_clock :
  forall orc, quiet orc ->
  forall g st dd, g_depth g = Some dd -> plain_go g ->
  goodC (depth_of dd + 130) (s_board st) ->
  ply_unique_clock_check GT (depth_of dd) (s_board st) = true ->
  history_fresh GT (s_history st) (depth_of dd) (s_board st) ->
  root_empty GT (s_board st) = false -> full (s_board st) + N.of_nat (depth_of dd) < 16777216 ->
  Forall (fun it => exists d, (S d <= depth_of dd)%nat /\ exact_rec GT (static_sat GT) (s_board st) d it)
         (fst (go_full GT orc g st)) /\
  (ChessGame.succs GT (s_board st) <> [] ->
   exists it rest, fst (go_full GT orc g st) = it :: rest /\
                   exact_rec GT (static_sat GT) (s_board st) (pred (depth_of dd)) it).
Proof.
  intros orc Hq g st dd Hd Hp Hg HU.
  exact (go_depth_closed_chess orc Hq (sim_clock GT) (sim_clock_nm GT) (sim_clock_le GT) g st dd Hd Hp Hg
           (ply_unique_clock_check_sound GT _ _ HU)).
Qed.

Theorem reported_score_exact_clock :
  forall orc, quiet orc ->
  forall g st dd, g_depth g = Some dd -> plain_go g ->
  goodC (depth_of dd + 130) (s_board st) ->
  ply_unique_clock_check GT (depth_of dd) (s_board st) = true ->
  history_fresh GT (s_history st) (depth_of dd) (s_board st) ->
  full (s_board st) + N.of_nat (depth_of dd) < 16777216 ->
  ChessGame.succs GT (s_board st) <> [] ->
  exists infos i ponder m q,
    go_msgs GT orc g st = infos ++ [OInfo i; OBestmove (Some (uci_of_move m)) ponder] /\
    forallb is_info infos = true /\
    i_depth i = Some (N.of_nat (depth_of dd)) /\
    i_score i = Some (score_from_value GT (nmG (depth_of dd) (s_board st)) (s_board st)) /\
    (exists pv, i_pv i = Some (uci_of_move m :: pv) /\ ponder = nth_error pv 0) /\
    make (s_board st) m = Some q /\ In q (ChessGame.succs GT (s_board st)) /\
    (- nmG (pred (depth_of dd)) q)%Z = nmG (depth_of dd) (s_board st).
Proof.
  intros orc Hq g st dd Hd Hp Hg HU.
  exact (reported_score_exact_chess orc Hq (sim_clock GT) (sim_clock_nm GT) (sim_clock_le GT) g st dd Hd Hp Hg
           (ply_unique_clock_check_sound GT _ _ HU)).
Qed.

(* after `position fen X`: every premise but `quiet orc` is a boolean computed from X and the go parameters *)
Theorem go_depth_after_position_fen_clock :
  forall orc, quiet orc ->
  forall g f st0 dd, g_depth g = Some dd -> plain_gob g = true ->
  let root := board_of_fen f in
  let st := set_position_from GT f [] st0 in
  good_c10b GT (depth_of dd + 130) root = true ->
  ply_unique_clock_check GT (depth_of dd) root = true ->
  keys_nonzero_check GT (depth_of dd) root = true ->
  root_empty GT root = false -> (full root + N.of_nat (depth_of dd) <? 16777216) = true ->
  Forall (fun it => exists d, (S d <= depth_of dd)%nat /\ exact_rec GT (static_sat GT) root d it)
         (fst (go_full GT orc g st)) /\
  (ChessGame.succs GT root <> [] ->
   exists it rest, fst (go_full GT orc g st) = it :: rest /\
                   exact_rec GT (static_sat GT) root (pred (depth_of dd)) it).
Proof.
  intros orc Hq g f st0 dd Hd Hp root st Hg HU Hnz Hre Hf.
  apply (go_depth_after_position_fen orc Hq (sim_clock GT) (sim_clock_nm GT) (sim_clock_le GT) g f st0 dd Hd).
  - now apply plain_gob_spec.
  - now apply (good_c10b_spec GT).
  - now apply ply_unique_clock_check_sound.
  - now apply keys_nonzero_check_sound.
  - exact Hre.
  - now apply N.ltb_lt.
Qed.

Definition has_legal_move (b : board) : bool := match ChessGame.succs GT b with [] => false | _ :: _ => true end.

Theorem depth3_closed :
  forall orc, quiet orc ->
  forall g f st0 dd, g_depth g = Some dd -> plain_gob g = true ->
  let root := board_of_fen f in
  let st := set_position_from GT f [] st0 in
  good_c10b GT (depth_of dd + 130) root = true ->
  ply_unique_clock_check GT (depth_of dd) root = true ->
  keys_nonzero_check GT (depth_of dd) root = true ->
  (full root + N.of_nat (depth_of dd) <? 16777216) = true ->
  has_legal_move root = true ->
  exists infos i ponder m q,
    go_msgs GT orc g st = infos ++ [OInfo i; OBestmove (Some (uci_of_move m)) ponder] /\
    forallb is_info infos = true /\
    i_depth i = Some (N.of_nat (depth_of dd)) /\
    i_score i = Some (score_from_value GT (nmG (depth_of dd) root) root) /\
    (exists pv, i_pv i = Some (uci_of_move m :: pv) /\ ponder = nth_error pv 0) /\
    make root m = Some q /\ In q (ChessGame.succs GT root) /\
    (- nmG (pred (depth_of dd)) q)%Z = nmG (depth_of dd) root.
Proof.
  intros orc Hq g f st0 dd Hd Hp root st Hg HU Hnz Hf Hne.
  apply (reported_score_after_position_fen orc Hq (sim_clock GT) (sim_clock_nm GT) (sim_clock_le GT) g f st0 dd Hd).
  - now apply plain_gob_spec.
  - now apply (good_c10b_spec GT).
  - now apply ply_unique_clock_check_sound.
  - now apply keys_nonzero_check_sound.
  - now apply N.ltb_lt.
  - unfold has_legal_move in Hne. fold root. destruct (ChessGame.succs GT root); [discriminate|discriminate].
Qed.

(* any table set that passes the regenerated obligations, any C03 family of sane boards *)
Theorem go_depth_closed_tables_clock (T : Tables.t) (good : nat -> board -> Prop) (Q : nat) :
  AttackProofs.tables_attacks_ok T = true -> MoveGenProofs.tables_movegen_ok T = true ->
  ZobristProofs.gen_masks_ok T = true -> ZobristProofs.keys_rows_ok T = true -> (0 < win_score T)%Z ->
  C03_family T good Q ->
  (forall n b, good n b -> sane b = true) -> (forall n b, good n b -> 1 <= full b) ->
  (forall n b, good n b -> (- win_score T < ChessGame.static T b < win_score T)%Z) ->
  forall orc, quiet orc ->
  forall g st dd, g_depth g = Some dd -> plain_go g ->
  good (depth_of dd + S Q)%nat (s_board st) ->
  ply_unique_clock_check T (depth_of dd) (s_board st) = true ->
  history_fresh T (s_history st) (depth_of dd) (s_board st) ->
  root_empty T (s_board st) = false -> inb T (depth_of dd) (s_board st) ->
  Forall (fun it => exists d, (S d <= depth_of dd)%nat /\ exact_rec T (static_sat T) (s_board st) d it) (fst (go_full T orc g st)) /\
  (ChessGame.succs T (s_board st) <> [] ->
     exists it rest, fst (go_full T orc g st) = it :: rest /\ exact_rec T (static_sat T) (s_board st) (pred (depth_of dd)) it).
Proof.
  intros OK MK HT HK HW HF Hsane Hfull Hstatic orc Hq g st dd Hd Hp Hg HU.
  exact (go_depth_closed_tables T good Q OK MK HT HK HW HF Hsane Hfull Hstatic orc Hq (sim_clock T) (sim_clock_nm T) (sim_clock_le T)
           g st dd Hd Hp Hg (ply_unique_clock_check_sound T _ _ HU)).
Qed.

(* ---- examples ---- *)
(* the margin r in clock_rel is sharp: twins with half x + 1 = 100 and half y + 1 < 100 have different values of depth 1 *)
Lemma clock_margin_needed : exists x y, twin x y /\ half x + 1 = max_half_moves GT /\ half y + 1 < max_half_moves GT /\
  nmG 1 x <> nmG 1 y.
Proof.
  exists (set_half ex40_root 99), ex40_root. split; [apply twin_sym, set_half_twin|].
  split; [vm_compute; reflexivity|]. split; [vm_compute; reflexivity|].
  assert (E1 : nmG 1 (set_half ex40_root 99) = 420%Z) by (vm_compute; reflexivity).
  assert (E2 : nmG 1 ex40_root = 430%Z) by (vm_compute; reflexivity).
  rewrite E1, E2. discriminate.
Qed.

(* two move orders from the example root: 1. e3 Kf5 2. Rd4 (clock 2) and 1. Rd4 Kf5 2. e3 (clock 0) *)
Definition ex40_twin_a : board := board_of_fen (RepetitionProofs.ex_fen (lit "8/5p2/8/5k2/3R4/4P3/8/4K3 b - - 2 61")).
Definition ex40_twin_b : board := board_of_fen (RepetitionProofs.ex_fen (lit "8/5p2/8/5k2/3R4/4P3/8/4K3 b - - 0 61")).

(* [a] occurs among the positions at ply i below root (the key is compared first: board_eqb is only run on key-equal boards) *)
Definition occurs_at (T : Tables.t) (i : nat) (root a : board) : bool :=
  existsb (fun x => if zobrist_hash T x =? zobrist_hash T a then board_eqb a x else false) (level T i root).

Lemma occurs_at_sound T i root a : occurs_at T i root a = true -> In a (level T i root).
Proof.
  unfold occurs_at. intros H. apply existsb_exists in H as (x & Hx & H).
  destruct (zobrist_hash T x =? zobrist_hash T a); [|discriminate].
  unfold board_eqb in H. destruct (board_eq_dec a x) as [->|]; [exact Hx|discriminate].
Qed.

Lemma ex40_twins :
  occurs_at GT 3 ex40_root ex40_twin_a = true /\ occurs_at GT 3 ex40_root ex40_twin_b = true /\
  zobrist_hash GT ex40_twin_a = zobrist_hash GT ex40_twin_b /\ ex40_twin_a <> ex40_twin_b /\
  half ex40_twin_a = 2 /\ half ex40_twin_b = 0 /\
  sim_clockb GT 0 ex40_twin_a ex40_twin_b = true.
Proof.
  split; [vm_compute; reflexivity|]. split; [vm_compute; reflexivity|].
  split; [vm_compute; reflexivity|]. split; [intros H; apply (f_equal half) in H; vm_compute in H; discriminate|].
  repeat split; vm_compute; reflexivity.
Qed.

Definition ex40_go3 : go_params :=
  {| g_searchmoves := []; g_wtime := None; g_btime := None; g_winc := None; g_binc := None; g_depth := Some 3; g_movetime := None |}.

Lemma ex40_depth3_reported : forall orc, quiet orc -> forall st0,
  exists infos i ponder m q,
    go_msgs GT orc ex40_go3 (set_position_from GT ex40_fen [] st0) = infos ++ [OInfo i; OBestmove (Some (uci_of_move m)) ponder] /\
    forallb is_info infos = true /\ i_depth i = Some 3 /\ i_score i = Some (Cp 450) /\
    make ex40_root m = Some q /\ (- nmG 2 q)%Z = 450%Z.
Proof.
  intros orc Hq st0.
  assert (G1 : good_c10b GT (depth_of 3 + 130) (board_of_fen ex40_fen) = true) by (vm_compute; reflexivity).
  assert (G2 : ply_unique_clock_check GT (depth_of 3) (board_of_fen ex40_fen) = true) by (vm_compute; reflexivity).
  assert (G3 : keys_nonzero_check GT (depth_of 3) (board_of_fen ex40_fen) = true) by (vm_compute; reflexivity).
  assert (G4 : (full (board_of_fen ex40_fen) + N.of_nat (depth_of 3) <? 16777216) = true) by (vm_compute; reflexivity).
  assert (G5 : has_legal_move (board_of_fen ex40_fen) = true) by (vm_compute; reflexivity).
  destruct (depth3_closed orc Hq ex40_go3 ex40_fen st0 3 eq_refl eq_refl G1 G2 G3 G4 G5)
    as (infos & i & ponder & m & q & H1 & H2 & H3 & H4 & _ & H6 & _ & H8).
  clear G1 G2 G3 G4 G5.
  change (depth_of 3) with 3%nat in H3, H4, H8. change (Init.Nat.pred 3) with 2%nat in H8. fold ex40_root in H4, H6, H8.
  assert (E : nmG 3 ex40_root = 450%Z) by (vm_compute; reflexivity).
  rewrite E in H4, H8. clear E.
  assert (Es : score_from_value GT 450 ex40_root = Cp 450) by (vm_compute; reflexivity).
  rewrite Es in H4. clear Es.
  exists infos, i, ponder, m, q.
  split; [exact H1|]. split; [exact H2|]. split; [exact H3|]. split; [exact H4|]. split; [exact H6|exact H8].
Qed.

(* Proofs/RepetitionInstance.v : the hypotheses of the search-level part of C10 (Proofs/RepetitionProofs.v,
   [search_family]) discharged for the concrete chess model, on top of Proofs/ChessInstance.v.

     good_c10 T n b := good_chess T n b /\ ep_wf b /\ 1 <= full b
       good_chess  (ChessInstance)  wf, rights_wf, ep_free, is_valid, half b + n < 4096
       ep_wf       (ZobristProofs)  an e.p. square has the capturable pawn directly behind it
   What is added here to [chess_C03_family]:
     * ep_wf is preserved by every generated move (only a double push sets the square, and the pushed pawn lands
       directly behind it) -- [generated_ep_wf];
     * rights_wf is castle_wf (the same condition written twice) -- [rights_wf_castle_wf];
     * the full-move number does not decrease.
   Result: [chess_search_family], and for the regenerated tables [gen_search_family]; then the theorems of
   RepetitionProofs without any abstract family. *)
Require Import Ink.Lib.Str.
Require Import NArith ZArith List Bool Lia Arith.
Require Import Ink.Lib.Bits Ink.Model.Tables Ink.Model.Board Ink.Model.Fen Ink.Model.Notation Ink.Model.History.
Require Import Ink.Model.Heuristic Ink.Model.UciTx Ink.Model.Search.
Require Import Ink.Spec.Draws.
Require Import Ink.Proofs.BitFacts Ink.Proofs.GenShape Ink.Proofs.MakeUnmake Ink.Proofs.LayoutProofs Ink.Proofs.Preserve.
Require Import Ink.Proofs.SearchProofs Ink.Proofs.ChessInstance Ink.Proofs.RepetitionProofs.
Require Ink.Proofs.ZobristProofs Ink.Proofs.UciMovesProofs.
Require Ink.Gen.Tables.
Import ListNotations.
Open Scope N_scope.

Arguments N.add : simpl never.
Arguments N.sub : simpl never.
Arguments N.mul : simpl never.
Arguments N.div : simpl never.
Arguments N.modulo : simpl never.
Arguments N.eqb : simpl never.
Arguments N.ltb : simpl never.
Arguments N.leb : simpl never.
Arguments N.shiftl : simpl never.
Arguments N.shiftr : simpl never.
Arguments N.land : simpl never.
Arguments N.lor : simpl never.
Arguments N.ldiff : simpl never.
Arguments N.testbit : simpl never.

(* ---------- rights_wf (MakeUnmake) and castle_wf (ZobristProofs) are the same condition ---------- *)
Lemma impl_forms x r k : negb x || (r && k) = true -> implb x (k && r) = true.
Proof. destruct x, r, k; cbn; auto. Qed.

Lemma rights_wf_castle_wf b : rights_wf b = true -> ZobristProofs.castle_wf b = true.
Proof.
  unfold rights_wf, ZobristProofs.castle_wf. rewrite !andb_true_iff. intros (((H1 & H2) & H3) & H4).
  repeat split; now apply impl_forms.
Qed.

(* ---------- the e.p. square after a move ---------- *)
Lemma make_ep b m b' : make b m = Some b' -> ep b' = next_ep m.
Proof.
  unfold make. cbv zeta.
  destruct (castle m); [destruct (castle_squares (dst m)) as [[rf rt]|]; [|discriminate]
                       |destruct (ep_attack m); [|destruct (negb (promo m =? NO_PIECE))]];
  destruct (is_white_turn b); intros [= <-]; reflexivity.
Qed.

Lemma ep_wf_none b : ep b = NO_SQUARE -> ZobristProofs.ep_wf b = true.
Proof. unfold ZobristProofs.ep_wf. intros ->. reflexivity. Qed.

(* a pawn move that is neither a capture en passant nor a promotion puts a pawn of the mover on the target *)
Lemma make_pawn_lands T b s t epo b' : make b (mk T b s t PAWN false false NO_PIECE epo) = Some b' ->
  N.testbit (pawns (if is_white_turn b then white b' else black b')) t = true /\ turn b' = opposite (turn b).
Proof.
  unfold make. cbv zeta. unfold mk. cbv zeta. cbn [castle ep_attack promo piece_moved piece_attacked src dst next_ep
                                                 self_lost_ks self_lost_qs opp_lost_ks opp_lost_qs half_reset].
  change (NO_PIECE =? NO_PIECE) with true. cbn [negb].
  destruct (is_white_turn b); intros [= <-]; cbn [white black turn]; (split; [|reflexivity]);
    unfold or_occ, set_occ, PAWN; cbn [pawns occ_of]; rewrite N.lor_spec, bit_spec, N.eqb_refl; apply orb_true_r.
Qed.

Section Chess.
Variable T : Tables.t.
Hypothesis HT : tables_chess_ok T = true.

(* every generated move leaves a well-formed e.p. square behind *)
Lemma generated_ep_wf b m b' : wf b = true -> generated T b m -> make b m = Some b' -> ZobristProofs.ep_wf b' = true.
Proof.
  destruct (tables_chess_ok_elim T HT) as (HC & OK & HB & HG & HR).
  intros Hwf (s & t & pc & ic & ie & pr & epo & Hc & ->) Hm.
  pose proof (make_ep _ _ _ Hm) as Eep. unfold mk in Eep. cbv zeta in Eep. cbn [next_ep] in Eep.
  destruct Hc as [s t pc att Hin Hs Ht | s t pr Hs Ht Hrk Hpr | s t Hs Ht Hrk | s pr Hs Hfree Hrk Hpr
                 | s Hs Hfree Hrk | s Hs Hfree Hrk Hdr Hfree2 | Hwt Hq He | Hwt Hq He | Hwt Hq He | Hwt Hq He];
    try (apply ep_wf_none; exact Eep).
  (* double push *)
  destruct (double_push_val T HC OK HB HG HR b s Hwf Hs Hdr) as (E2 & Hrank & Hk2 & Hne).
  destruct (single_push_val T HC OK HB HG HR b s Hwf Hs) as (R & Hk1 & E).
  rewrite E in Eep, Hm. rewrite E2 in Hm. rewrite !ctz64_bit in Hm. rewrite ctz64_bit in Eep.
  destruct (make_pawn_lands T b _ _ _ b' Hm) as [Hland Hturn].
  destruct (wf_elim b Hwf) as (_ & _ & Hturn2 & _).
  unfold ZobristProofs.ep_wf. rewrite Eep, Hturn. unfold is_white_turn, WHITE, BLACK, opposite, NO_SQUARE in *.
  destruct (turn_cases b Hturn2) as [Et|Et]; rewrite Et in *.
  - (* White has pushed: Black to move, the pawn stands one rank below the square *)
    change (0 =? 0) with true in *. cbv iota beta in *. change (1 - 0 =? 0) with false. cbv iota.
    apply orb_true_iff. right. apply andb_true_iff. split; [apply N.leb_le; lia|].
    replace (s - 8 - 8) with (s - 16) by lia. exact Hland.
  - change (1 =? 0) with false in *. cbv iota beta in *. change (1 - 1 =? 0) with true. cbv iota.
    apply orb_true_iff. right. apply andb_true_iff. split; [apply N.ltb_lt; lia|].
    replace (s + 8 + 8) with (s + 16) by lia. exact Hland.
Qed.

(* ---------- the family ---------- *)
Definition good_c10 (n : nat) (b : board) : Prop :=
  good_chess T n b /\ ZobristProofs.ep_wf b = true /\ 1 <= full b.

Definition good_c10b (n : nat) (b : board) : bool := good_chessb T n b && ZobristProofs.ep_wf b && (1 <=? full b).

Lemma good_c10_def n b : good_c10 n b <->
  (wf b = true /\ rights_wf b = true /\ ep_free b = true /\ is_valid T b = true /\ half b + N.of_nat n < 4096) /\
  ZobristProofs.ep_wf b = true /\ 1 <= full b.
Proof. reflexivity. Qed.

Lemma good_c10b_spec n b : good_c10b n b = true <-> good_c10 n b.
Proof. unfold good_c10b, good_c10. rewrite !andb_true_iff, N.leb_le, good_chessb_spec. tauto. Qed.

Lemma good_c10_step n b m b' :
  good_c10 (S n) b -> In m (gen_pseudo T b) -> make b m = Some b' -> is_valid T b' = true -> good_c10 n b'.
Proof.
  intros (Hg & Hep & Hfull) Hin Hmk Hv. split; [exact (good_chess_step T HT n b m b' Hg Hin Hmk Hv)|]. split.
  - destruct Hg as (Hwf & _). exact (generated_ep_wf b m b' Hwf (gen_pseudo_cases T b m Hin) Hmk).
  - destruct (make_fields b m b' Hmk) as (_ & E & _). rewrite E. lia.
Qed.

Theorem chess_search_family :
  ZobristProofs.keys_rows_ok T = true -> ZobristProofs.gen_masks_ok T = true -> search_family T good_c10 129.
Proof.
  intros Hrows Hmask. destruct (chess_C03_family T HT) as (F1 & F2 & F3).
  split; [|split; [|split; assumption]].
  - split; [|split].
    + intros n b m Hg Hin. pose proof Hg as (Hgc & _).
      destruct (F1 n b m Hgc Hin) as (b' & Hmk & Hun & _). exists b'. split; [exact Hmk|]. split; [exact Hun|].
      intro Hv. exact (good_c10_step n b m b' Hg Hin Hmk Hv).
    + intros n b (Hg & H2 & H3). split; [exact (F2 n b Hg)|]. split; assumption.
    + intros n b (Hg & _). exact (F3 n b Hg).
  - intros n b ((Hwf & Hr & _) & Hep & Hfull). split; [exact Hwf|]. split; [now apply rights_wf_castle_wf|].
    split; assumption.
Qed.

Lemma good_c10_uci n b : good_c10 n b -> UciMovesProofs.good b.
Proof. intros (Hg & _). exact (chess_good_uci T n b Hg). Qed.

End Chess.

(* ================= the tables of the current /repo ================= *)
Theorem gen_search_family : search_family gen_tables (good_c10 gen_tables) 129.
Proof.
  destruct ZobristProofs.gen_tables_ok as (_ & Hrows & Hmask).
  exact (chess_search_family gen_tables gen_tables_chess_ok Hrows Hmask).
Qed.

(* C10_line_recorded without an abstract family *)
Theorem line_recorded_chess : forall orc d bad base prefix ply a0 b0 ispv zh zph st,
  line_inv gen_tables base prefix zh st -> good_c10 gen_tables (d + 130) (s_board st) ->
  base + N.of_nat (length prefix) + N.of_nat d < 65536 ->
  negamax_asserting gen_tables orc bad base prefix d ply a0 b0 ispv zh zph st
  = negamax gen_tables orc d ply a0 b0 ispv zh zph st /\
  s_board (snd (negamax gen_tables orc d ply a0 b0 ispv zh zph st)) = s_board st /\
  s_contempt (snd (negamax gen_tables orc d ply a0 b0 ispv zh zph st)) = s_contempt st /\
  agree_lt (ply_clock_w (s_board st)) (s_history st) (s_history (snd (negamax gen_tables orc d ply a0 b0 ispv zh zph st))).
Proof. exact (line_recorded_thm gen_tables (good_c10 gen_tables) 129 gen_search_family). Qed.

Theorem root_iteration_inv_chess : forall orc mt a base prefix,
  line_inv gen_tables base prefix (zobrist_hash gen_tables (s_board (id_st a))) (id_st a) ->
  good_c10 gen_tables (id_fuel a + 130) (s_board (id_st a)) ->
  base + N.of_nat (length prefix) + N.of_nat (id_fuel a) < 65536 ->
  (forall bad, negamax_asserting gen_tables orc bad base prefix (id_fuel a) 0 (loss_score gen_tables) (win_score gen_tables)
                 (match s_pv (id_st a) with Some _ => true | None => false end)
                 (zobrist_hash gen_tables (s_board (id_st a))) (pawn_hash gen_tables (s_board (id_st a))) (id_st a)
               = root_call gen_tables orc a) /\
  s_board (id_st (id_next gen_tables orc mt a)) = s_board (id_st a) /\
  line_inv gen_tables base prefix (zobrist_hash gen_tables (s_board (id_st (id_next gen_tables orc mt a))))
           (id_st (id_next gen_tables orc mt a)).
Proof. exact (root_iteration_inv_thm gen_tables (good_c10 gen_tables) 129 gen_search_family). Qed.

(* C10_game_history_recorded / C10_position_root_inv with the chess family: the FEN position only has to leave
   room on the 12-bit clock for the moves of the game *)
Theorem position_root_inv_chess : forall f moves b h played st,
  let P0 := board_of_fen f in
  good_chess gen_tables (length moves) P0 -> 1 <= full P0 -> ply_count P0 + N.of_nat (length moves) < 65536 ->
  position_result gen_tables f moves = PosOk b h played ->
  exists bs, legal_line gen_tables P0 played bs /\ length played = length moves /\ b = last bs P0 /\
    (forall i B, nth_error (P0 :: bs) i = Some B -> ply_clock_w B = ply_clock_w P0 + N.of_nat i) /\
    h = record_from hempty (ply_clock_w P0) (map (zobrist_hash gen_tables) (P0 :: bs)) /\
    line_inv gen_tables (ply_clock_w P0) (removelast (P0 :: bs)) (zobrist_hash gen_tables b)
             (set_position_from gen_tables f moves st).
Proof.
  intros f moves b h played st P0 HG Hfull Hr H.
  destruct (tables_chess_ok_elim gen_tables gen_tables_chess_ok) as (HC & _).
  pose proof (fun n x => chess_good_uci gen_tables n x) as Hgood.
  pose proof (good_chess_step gen_tables gen_tables_chess_ok) as Hstep.
  destruct (game_history_recorded gen_tables (good_chess gen_tables) HC Hgood Hstep f moves b h played HG Hfull Hr H)
    as (bs & LL & Hlen & Eb & Hclk & Eh).
  destruct (position_root_inv gen_tables (good_chess gen_tables) f moves b h played st HC Hgood Hstep HG Hfull Hr H)
    as (bs' & LL' & Eb' & Hinv).
  assert (bs' = bs) by exact (legal_line_functional gen_tables _ _ _ LL bs' LL').
  subst bs'. exists bs. repeat split; assumption.
Qed.

(* the hypotheses are satisfiable: start position, clock 0 *)
Example good_c10_startpos : good_c10 gen_tables 3965 (board_of_fen (ex_fen STARTPOS)).
Proof. apply good_c10b_spec. vm_compute. reflexivity. Qed.

(* a position with a real e.p. square *)
Example good_c10_ep :
  good_c10 gen_tables 3965 (board_of_fen (ex_fen (lit "rnbqkbnr/ppp1p1pp/8/3pPp2/8/8/PPPP1PPP/RNBQKBNR w KQkq f6 0 3"))).
Proof. apply good_c10b_spec. vm_compute. reflexivity. Qed.

(* the root of the knight-shuffle example of RepetitionProofs satisfies them: the theorems apply to it *)
Example good_c10_knight_shuffle : good_c10 gen_tables 3000 (s_board ex_root).
Proof. apply good_c10b_spec. vm_compute. reflexivity. Qed.

(* Property C17, last sentence: "Replaying the yielded SAN moves on a board reproduces the game."

   The Rust side is pgn_test/src/main.rs `calc`:   let mut board = Bitboard::default();
                                                    for x in &pgn.moves { let mv = board.pgn_to_bb(&x.mv)  (else panic);  board.make(mv); }
   `replay` below is that loop over Model/Notation.v `pgn_to_bb` and Model/Board.v `make` (None = the panic arm).
   No such function existed in Model/ or Driver/ (Driver/RunPgn.v prints the raw games only; Driver/RunBoard.v api `san`
   calls pgn_to_bb once).

   Model/Notation.v `pgn_to_bb` is a pure function board -> option move; the Rust method takes `&mut self` and runs
   make/unmake pairs over the pseudo-legal moves (generate_legal_moves).  The board those pairs leave behind is written
   out in Driver/RunBoard.v (api `san`); `replay_fx` below threads exactly that board through the loop, and
   `replay_fx_eq` shows it coincides with `replay` as long as the half-move clock fits the 12 bits of the move record
   (C03): half b + (number of texts) <= 4096.

   Contents
     san_token_ok          every text SanSpec.san produces is a token PgnSpec.san_okb accepts
     replay_line           the SAN texts of a legal line of the rules replay to that line
     replay_fx_eq          the side effect of the Rust pgn_to_bb does not matter below clock 4096
     write_line_spec       the model writer (uci_to_pgn; make_uci) along a legal line produces exactly those texts
     replay_game(s)        composed with C17 (PgnProofs.reader_complete): render -> chunked reader -> replay *)
Require Import Ink.Lib.Str.
Require Import NArith ZArith List Bool Lia ZifyBool ZifyN.
Import ListNotations.
Require Import Ink.Lib.Bits Ink.Model.Tables Ink.Model.Board Ink.Model.Fen Ink.Model.Notation Ink.Model.PgnReader.
Require Import Ink.Spec.Rules Ink.Spec.SanSpec Ink.Spec.PgnSpec.
Require Import Ink.Proofs.StrProofs Ink.Proofs.Abs Ink.Proofs.AttackProofs Ink.Proofs.MakeUnmake Ink.Proofs.MoveGenProofs.
Require Import Ink.Proofs.MakeProofs Ink.Proofs.SanProofs.
Require Ink.Proofs.SanClosed Ink.Proofs.PgnProofs Ink.Proofs.UciExact.
Require Ink.Gen.Tables.
Open Scope N_scope.

Arguments N.add : simpl never.
Arguments N.sub : simpl never.
Arguments N.mul : simpl never.
Arguments N.div : simpl never.
Arguments N.modulo : simpl never.
Arguments N.eqb : simpl never.
Arguments N.ltb : simpl never.
Arguments N.leb : simpl never.

(* ================================================================== *)
(* 1. definitions                                                       *)
(* ================================================================== *)
Section Defs.
Variable T : Tables.t.

(* the loop of pgn_test `calc`: the moves found and the final board; None on the first text that is not read
   (Rust: panic!) or on a panic inside make *)
Fixpoint replay_moves (b : board) (sans : list str) : option (list move * board) :=
  match sans with
  | [] => Some ([], b)
  | s :: r =>
      match pgn_to_bb T b s with
      | None => None
      | Some m =>
          match make b m with
          | None => None
          | Some b1 =>
              match replay_moves b1 r with
              | None => None
              | Some (ms, b') => Some (m :: ms, b')
              end
          end
      end
  end.

(* the final board only *)
Fixpoint replay (b : board) (sans : list str) : option board :=
  match sans with
  | [] => Some b
  | s :: r =>
      match pgn_to_bb T b s with
      | None => None
      | Some m => match make b m with None => None | Some b1 => replay b1 r end
      end
  end.

(* the board Bitboard::pgn_to_bb(&mut self) leaves behind, as in Driver/RunBoard.v (api `san`): no text match -> untouched;
   otherwise one make/unmake pair per pseudo-legal move *)
Definition scan_pairs (b : board) (ms : list move) : option board :=
  fold_left (fun ob m => match ob with
                         | Some b0 => match make b0 m with Some b1 => unmake b1 m | None => None end
                         | None => None end) ms (Some b).
Definition pgn_to_bb_left (b : board) (s : str) : option board :=
  match pgn_regex s with None => Some b | Some _ => scan_pairs b (gen_pseudo T b) end.

(* the same loop with that board threaded through *)
Fixpoint replay_fx (b : board) (sans : list str) : option board :=
  match sans with
  | [] => Some b
  | s :: r =>
      match pgn_to_bb T b s, pgn_to_bb_left b s with
      | Some m, Some b0 => match make b0 m with None => None | Some b1 => replay_fx b1 r end
      | _, _ => None
      end
  end.

(* the model WRITER along a line given as UCI texts: uci_to_pgn for the text, make_uci to go on (each on the board the
   previous call left behind) *)
Fixpoint write_line (b : board) (ucis : list str) : option (list str) :=
  match ucis with
  | [] => Some []
  | s :: r =>
      match uci_to_pgn T b s with
      | (inr text, Some b0) =>
          match make_uci T b0 s with
          | (inr _, Some b1) => match write_line b1 r with Some l => Some (text :: l) | None => None end
          | _ => None
          end
      | _ => None
      end
  end.
End Defs.

(* ---- the rules' side ---- *)
(* each move is legal in the position where it is played *)
Fixpoint legal_line_of (p : pos) (us : list mv) : Prop :=
  match us with
  | [] => True
  | u :: r => In u (legal_moves p) /\ legal_line_of (Rules.apply p u) r
  end.
Fixpoint legal_lineb (p : pos) (us : list mv) : bool :=
  match us with
  | [] => true
  | u :: r => existsb (mv_eqb u) (legal_moves p) && legal_lineb (Rules.apply p u) r
  end.
(* the standard SAN texts along a line *)
Fixpoint san_line (p : pos) (us : list mv) : list str :=
  match us with
  | [] => []
  | u :: r => san p u :: san_line (Rules.apply p u) r
  end.

Lemma legal_lineb_iff us : forall p, legal_lineb p us = true <-> legal_line_of p us.
Proof.
  induction us as [|u r IH]; intros p; cbn [legal_lineb legal_line_of]; [tauto|].
  rewrite andb_true_iff, existsb_mv_In, IH. tauto.
Qed.

Lemma san_line_length us : forall p, length (san_line p us) = length us.
Proof. induction us as [|u r IH]; intros p; cbn [san_line length]; [reflexivity|]. rewrite IH. reflexivity. Qed.

(* ================================================================== *)
(* 2. SAN texts are PGN move tokens                                     *)
(* ================================================================== *)
(* the characters SAN is made of: 0-9 .. z (digits, = , upper and lower case letters), # + - *)
Definition okc (c : N) : bool := ((48 <=? c) && (c <=? 122)) || (c =? 35) || (c =? 43) || (c =? 45).
(* the first character is a letter: O, K Q R B N, a..h, x *)
Definition head_letter (s : str) : Prop := match s with [] => False | c :: _ => 65 <= c <= 122 end.

Lemma okc_file s : okc (file_chr s) = true.
Proof.
  unfold okc, file_chr, fileZ. pose proof (Z.mod_pos_bound s 8 eq_refl) as B.
  assert (Z.to_N (s mod 8) < 8) by lia. lia.
Qed.
Lemma okc_rank s : okc (rank_chr s) = true.
Proof. unfold okc, rank_chr. lia. Qed.
Lemma file_letter s : 65 <= file_chr s <= 122.
Proof.
  unfold file_chr, fileZ. pose proof (Z.mod_pos_bound s 8 eq_refl) as B.
  assert (Z.to_N (s mod 8) < 8) by lia. lia.
Qed.
Lemma okc_upper k : okc (kind_upper k) = true.
Proof. destruct k; reflexivity. Qed.
Lemma upper_letter k : 65 <= kind_upper k <= 122.
Proof. destruct k; cbv; split; discriminate. Qed.

Lemma sq_text_chr s : sq_text s = [file_chr s; rank_chr s].
Proof. reflexivity. Qed.

Lemma filter_none {A} (f : A -> bool) l : (forall x, f x = false) -> filter f l = [].
Proof. intros H. induction l as [|x r IH]; cbn [filter]; [reflexivity|]. rewrite H. exact IH. Qed.

Lemma disamb_empty_square p m : get p (from m) = None -> disamb p m = [].
Proof.
  intros G. unfold disamb, rivals. rewrite filter_none; [reflexivity|].
  intros x. unfold same_piece. rewrite G. destruct (get p (from x)); reflexivity.
Qed.

Lemma disamb_chars p m : Forall (fun c => okc c = true) (disamb p m).
Proof.
  unfold disamb. destruct (rivals p m); [constructor|].
  destruct (negb _); [repeat constructor; apply okc_file|].
  destruct (negb _); repeat constructor; try apply okc_file; apply okc_rank.
Qed.

Lemma san_chars p m : Forall (fun c => okc c = true) (san p m).
Proof.
  unfold san. apply Forall_app. split.
  - unfold body. destruct (is_castling p m).
    + unfold castle_text. apply Forall_forall, forallb_forall. destruct (_ <? _)%Z; reflexivity.
    + repeat (apply Forall_app; split).
      * unfold letter. destruct (get p (from m)) as [[c k]|]; [|constructor].
        destruct k; repeat constructor.
      * unfold origin. destruct (get p (from m)) as [[c k]|]; [|apply disamb_chars].
        destruct k; try apply disamb_chars.
        destruct (is_capture p m); repeat constructor. apply okc_file.
      * unfold capture_mark. destruct (is_capture p m); repeat constructor.
      * rewrite sq_text_chr. repeat constructor; [apply okc_file|apply okc_rank].
      * unfold promo_text. destruct (prom m); repeat constructor. apply okc_upper.
  - unfold check_mark. destruct (gives_mate p m); [repeat constructor|].
    destruct (gives_check p m); repeat constructor.
Qed.

Lemma san_head p m : head_letter (san p m).
Proof.
  unfold san, body. destruct (is_castling p m).
  - unfold castle_text. destruct (_ <? _)%Z; cbn; lia.
  - unfold letter, origin, capture_mark. rewrite sq_text_chr.
    destruct (get p (from m)) as [[c k]|] eqn:G.
    + destruct k; try (cbn [app head_letter]; apply upper_letter).
      destruct (is_capture p m); cbn [app head_letter]; apply file_letter.
    + rewrite (disamb_empty_square p m G).
      destruct (is_capture p m); cbn [app head_letter]; [lia|apply file_letter].
Qed.

(* what layout_ok of PgnSpec asks of a move token: not empty; no space, newline or `.`; does not start with `{` or
   `;`; is not a result token.  Holds for EVERY position and move (legal or not). *)
Theorem san_token_ok p m : san_okb (san p m) = true.
Proof.
  pose proof (san_chars p m) as C. pose proof (san_head p m) as H.
  destruct (san p m) as [|c r] eqn:E; [destruct H|]. cbn [head_letter] in H.
  unfold san_okb. rewrite !andb_true_iff. split; [split|].
  - clear - H. lia.
  - apply forallb_forall. intros x Hx. rewrite Forall_forall in C. specialize (C x Hx).
    unfold san_char_okb. unfold okc in C. clear - C. lia.
  - apply negb_true_iff. destruct (mem_str (c :: r) (map result_token all_results)) eqn:M; [|reflexivity].
    exfalso. apply mem_str_In in M. vm_compute in M. clear - M H.
    destruct M as [M|[M|[M|[M|[]]]]]; injection M as <- _; lia.
Qed.

Lemma san_line_tokens us : forall p, forallb san_okb (san_line p us) = true.
Proof.
  induction us as [|u r IH]; intros p; cbn [san_line forallb]; [reflexivity|].
  rewrite san_token_ok, IH. reflexivity.
Qed.

(* ================================================================== *)
(* 3. replaying the texts of a legal line                               *)
(* ================================================================== *)
Lemma replay_of_moves T sans : forall b, replay T b sans = option_map snd (replay_moves T b sans).
Proof.
  induction sans as [|s r IH]; intros b; cbn [replay replay_moves option_map snd]; [reflexivity|].
  destruct (pgn_to_bb T b s) as [m|]; [|reflexivity]. destruct (make b m) as [b1|]; [|reflexivity].
  rewrite IH. destruct (replay_moves T b1 r) as [[ms b']|]; reflexivity.
Qed.

Lemma halfc_apply_le p m : halfc (Rules.apply p m) <= halfc p + 1.
Proof.
  unfold Rules.apply. destruct (get p (from m)); [|lia]. cbv zeta. cbn [halfc]. destruct (_ || _); lia.
Qed.

Lemma half_succ_le b b1 u : abs b1 = Rules.apply (abs b) u -> half b1 <= half b + 1.
Proof.
  intros A. change (half b1) with (halfc (abs b1)). rewrite A. change (half b) with (halfc (abs b)).
  apply halfc_apply_le.
Qed.

Section Replay.
Variable T : Tables.t.
Hypothesis OK : tables_attacks_ok T = true.
Hypothesis MK : tables_movegen_ok T = true.

Let HC : tables_castle_ok T = true := tables_movegen_castle T MK.
Let HR : tables_ranks_ok T = true := SanClosed.movegen_ranks T MK.

(* a move the reader returns can be made, and the successor is again a well-formed legal position: the rules'
   successor; the half-move clock grows by at most one *)
Lemma read_move_step b s r : wf b = true -> legal_pos (abs b) = true -> pgn_to_bb T b s = Some r ->
  In r (gen_legal T b) /\ In (uci_of r) (legal_moves (abs b)) /\
  exists b1, make b r = Some b1 /\ wf b1 = true /\ legal_pos (abs b1) = true /\
             abs b1 = Rules.apply (abs b) (uci_of r) /\ half b1 <= half b + 1.
Proof.
  intros Hwf Hl E.
  destruct (SanClosed.reader_sound T OK MK b Hwf Hl s r E) as (Hr & Hu & _).
  split; [exact Hr|]. split; [exact Hu|].
  pose proof Hr as Hr'. apply filter_In in Hr' as [Hin Hleg].
  unfold is_move_legal in Hleg. destruct (make b r) as [b1|] eqn:Hm; [|discriminate].
  exists b1. split; [reflexivity|].
  destruct (SanClosed.legal_successor T OK MK b r b1 Hwf Hl Hr Hm) as (W & L & A & V).
  repeat split; try assumption. exact (half_succ_le b b1 _ A).
Qed.

(* one step: the standard SAN of a legal move is read back as that move *)
Lemma replay_step b u : wf b = true -> legal_pos (abs b) = true -> In u (legal_moves (abs b)) ->
  exists r b1, pgn_to_bb T b (san (abs b) u) = Some r /\ uci_of r = u /\ In r (gen_legal T b) /\
               make b r = Some b1 /\ wf b1 = true /\ legal_pos (abs b1) = true /\
               abs b1 = Rules.apply (abs b) u /\ half b1 <= half b + 1.
Proof.
  intros Hwf Hl Hu.
  destruct (SanClosed.reader_roundtrip T OK MK b Hwf Hl u Hu) as (r & E & Eu).
  destruct (read_move_step b _ r Hwf Hl E) as (Hr & _ & b1 & Hm & W & L & A & Hh).
  exists r, b1. rewrite Eu in A. repeat split; assumption.
Qed.

(* C17_replay_line *)
Theorem replay_line us : forall b, wf b = true -> legal_pos (abs b) = true -> legal_line_of (abs b) us ->
  exists ms b', replay_moves T b (san_line (abs b) us) = Some (ms, b') /\
                map uci_of ms = us /\
                abs b' = fold_left Rules.apply us (abs b) /\
                wf b' = true /\ legal_pos (abs b') = true /\
                half b' <= half b + N.of_nat (length us).
Proof.
  induction us as [|u r IH]; intros b Hwf Hl Hline; cbn [legal_line_of san_line replay_moves fold_left map length] in *.
  - exists [], b. repeat split; try assumption; try reflexivity. lia.
  - destruct Hline as [Hu Hrest].
    destruct (replay_step b u Hwf Hl Hu) as (m & b1 & E & Eu & _ & Hm & W & L & A & Hh).
    rewrite <- A in Hrest. destruct (IH b1 W L Hrest) as (ms & b' & R & Ems & Ab & W' & L' & Hh').
    exists (m :: ms), b'. rewrite E, Hm. rewrite <- A, R. cbn [map]. rewrite Eu, Ems.
    split; [reflexivity|]. split; [reflexivity|]. split; [exact Ab|]. split; [exact W'|]. split; [exact L'|]. lia.
Qed.

Corollary replay_line_board us b : wf b = true -> legal_pos (abs b) = true -> legal_line_of (abs b) us ->
  exists b', replay T b (san_line (abs b) us) = Some b' /\ abs b' = fold_left Rules.apply us (abs b) /\
             wf b' = true /\ legal_pos (abs b') = true.
Proof.
  intros Hwf Hl Hline. destruct (replay_line us b Hwf Hl Hline) as (ms & b' & R & _ & A & W & L & _).
  exists b'. rewrite replay_of_moves, R. auto.
Qed.

(* converse direction, for ANY list of texts: whatever the loop accepts is a legal line of the rules, and the final
   board is the rules' position after it (the reader never invents a move: C14_reader_sound) *)
Theorem replay_sound sans : forall b ms b', wf b = true -> legal_pos (abs b) = true ->
  replay_moves T b sans = Some (ms, b') ->
  legal_line_of (abs b) (map uci_of ms) /\ length ms = length sans /\
  abs b' = fold_left Rules.apply (map uci_of ms) (abs b) /\ wf b' = true /\ legal_pos (abs b') = true.
Proof.
  induction sans as [|s r IH]; intros b ms b' Hwf Hl R; cbn [replay_moves] in R.
  - injection R as <- <-. cbn. auto.
  - destruct (pgn_to_bb T b s) as [m|] eqn:E; [|discriminate].
    destruct (read_move_step b s m Hwf Hl E) as (_ & Hu & b1 & Hm & W & L & A & _).
    rewrite Hm in R. destruct (replay_moves T b1 r) as [[ms1 b2]|] eqn:R1; [|discriminate].
    injection R as <- <-. destruct (IH b1 ms1 b2 W L R1) as (Hline & Hlen & Ab & W' & L').
    cbn [map legal_line_of fold_left length]. rewrite <- A. rewrite Hlen. auto.
Qed.

(* ---- the side effect of the Rust pgn_to_bb ---- *)
Lemma scan_pairs_id b : wf b = true -> rights_wf b = true -> half b < 4096 ->
  forall ms, (forall m, In m ms -> In m (gen_pseudo T b)) -> scan_pairs b ms = Some b.
Proof.
  intros Hwf Hr Hh ms. unfold scan_pairs. induction ms as [|m r IH]; intros Hsub; cbn [fold_left]; [reflexivity|].
  destruct (MakeUnmake.C03_unmake_make T HC b m Hwf Hr (Hsub m (or_introl eq_refl)) Hh) as (b1 & E1 & E2).
  rewrite E1, E2. apply IH. intros x Hx. apply Hsub. right. exact Hx.
Qed.

Lemma pgn_to_bb_left_id b s : wf b = true -> legal_pos (abs b) = true -> half b < 4096 ->
  pgn_to_bb_left T b s = Some b.
Proof.
  intros Hwf Hl Hh. unfold pgn_to_bb_left. destruct (pgn_regex s); [|reflexivity].
  apply (legal_pos_iff T OK b Hwf) in Hl as (Hr & _ & _).
  apply scan_pairs_id; auto.
Qed.

(* EVERY list of texts: with the clock budget the loop with the side effect is the loop without *)
Theorem replay_fx_eq sans : forall b, wf b = true -> legal_pos (abs b) = true ->
  half b + N.of_nat (length sans) <= 4096 -> replay_fx T b sans = replay T b sans.
Proof.
  induction sans as [|s r IH]; intros b Hwf Hl Hh; cbn [replay_fx replay length] in *; [reflexivity|].
  rewrite (pgn_to_bb_left_id b s Hwf Hl) by lia.
  destruct (pgn_to_bb T b s) as [m|] eqn:E; [|reflexivity].
  destruct (read_move_step b s m Hwf Hl E) as (_ & _ & b1 & Hm & W & L & _ & Hh1).
  rewrite Hm. apply IH; try assumption. lia.
Qed.

(* ---- the model writer along a legal line ---- *)
Theorem write_line_spec us : forall b, wf b = true -> legal_pos (abs b) = true ->
  half b + N.of_nat (length us) <= 4096 -> legal_line_of (abs b) us ->
  write_line T b (map uci us) = Some (san_line (abs b) us).
Proof.
  induction us as [|u r IH]; intros b Hwf Hl Hh Hline; cbn [map write_line san_line legal_line_of length] in *; [reflexivity|].
  destruct Hline as [Hu Hrest].
  assert (Hh0 : half b < 4096) by lia.
  destruct (SanClosed.output_converse T OK MK b u Hwf Hl Hu) as (ob & E & Hob).
  rewrite E, (Hob Hh0).
  destruct (SanClosed.legal_range _ _ Hu) as [Rf Rt].
  destruct (UciExact.make_uci_accept T OK MK b (uci u) u Hwf Hl Hh0 Hu (eq_sym (SanClosed.trim_uci u Rf Rt)))
    as (b1 & Em & A & W & L).
  rewrite Em. rewrite <- A in Hrest.
  pose proof (half_succ_le b b1 u A) as Hh1.
  rewrite (IH b1 W L) by (try assumption; lia). rewrite A. reflexivity.
Qed.

End Replay.

(* ================================================================== *)
(* 4. whole games: render -> chunked reader -> replay                   *)
(* ================================================================== *)
(* a game as it was PLAYED: moves of the rules with their comments; the movetext is produced from it *)
Record played : Type := {
  pl_tags : list (str * str);
  pl_line : list (mv * option str);        (* (move, comment text between the braces) *)
  pl_black_numbers : bool;
  pl_result : game_result
}.
Definition pl_moves (pl : played) : list mv := map fst (pl_line pl).
Definition pl_comments (pl : played) : list (option str) := map snd (pl_line pl).

(* the PGN game record of a played game that started in position p0: SAN texts by SanSpec.san *)
Definition game_of (p0 : pos) (pl : played) : game :=
  {| g_tags := pl_tags pl;
     g_moves := combine (san_line p0 (pl_moves pl)) (pl_comments pl);
     g_black_numbers := pl_black_numbers pl;
     g_result := pl_result pl |}.

(* the conditions of PgnSpec.layout_ok that concern tags and comments (at least one tag; no space in a tag name, no
   double quote in a tag value, no closing brace in a comment) + the moves are a legal line from p0 *)
Definition played_okb (p0 : pos) (pl : played) : bool :=
  match pl_tags pl with [] => false | _ :: _ => true end
  && forallb tag_okb (pl_tags pl)
  && forallb comment_okb (pl_comments pl)
  && legal_lineb p0 (pl_moves pl).

(* what replaying one item of the reader's output gives: the moves (as moves of the rules) and the final position *)
Definition replay_item (T : Tables.t) (b0 : board) (r : res raw_game) : option (list mv * pos) :=
  match r with
  | Ok g => option_map (fun x => (map uci_of (fst x), abs (snd x))) (replay_moves T b0 (map fst (snd g)))
  | Err _ => None
  end.

Lemma forallb_combine {A B} (f : A -> bool) (g : B -> bool) (h : A * B -> bool) :
  (forall a b, f a = true -> g b = true -> h (a, b) = true) ->
  forall l1 l2, forallb f l1 = true -> forallb g l2 = true -> forallb h (combine l1 l2) = true.
Proof.
  intros H l1. induction l1 as [|a r IH]; intros [|b l2] F G; cbn [combine forallb] in *; try reflexivity.
  apply andb_true_iff in F as [F1 F2]. apply andb_true_iff in G as [G1 G2].
  rewrite (H a b F1 G1), (IH l2 F2 G2). reflexivity.
Qed.

Lemma map_fst_combine {A B} (l1 : list A) : forall (l2 : list B), length l1 = length l2 -> map fst (combine l1 l2) = l1.
Proof.
  induction l1 as [|a r IH]; intros [|b l2] L; cbn [combine map fst length] in *; try reflexivity; try discriminate.
  injection L as L. rewrite (IH l2 L). reflexivity.
Qed.
Lemma map_snd_combine {A B} (l1 : list A) : forall (l2 : list B), length l1 = length l2 -> map snd (combine l1 l2) = l2.
Proof.
  induction l1 as [|a r IH]; intros [|b l2] L; cbn [combine map snd length] in *; try reflexivity; try discriminate.
  injection L as L. rewrite (IH l2 L). reflexivity.
Qed.

Lemma game_of_sans p0 pl : map fst (g_moves (game_of p0 pl)) = san_line p0 (pl_moves pl).
Proof.
  unfold game_of. cbn [g_moves]. apply map_fst_combine.
  rewrite san_line_length. unfold pl_moves, pl_comments. rewrite !map_length. reflexivity.
Qed.
Lemma game_of_comments p0 pl : map snd (g_moves (game_of p0 pl)) = pl_comments pl.
Proof.
  unfold game_of. cbn [g_moves]. apply map_snd_combine.
  rewrite san_line_length. unfold pl_moves, pl_comments. rewrite !map_length. reflexivity.
Qed.

(* the produced game record satisfies the layout conditions of C17 *)
Lemma game_of_ok p0 pl : played_okb p0 pl = true -> game_okb (game_of p0 pl) = true.
Proof.
  unfold played_okb, game_okb. rewrite !andb_true_iff. intros (((H1 & H2) & H3) & _).
  cbn [game_of g_tags g_moves]. split; [split; assumption|].
  apply (forallb_combine san_okb comment_okb); [|apply san_line_tokens|exact H3].
  intros a b Fa Gb. unfold move_okb. cbn [fst snd]. rewrite Fa, Gb. reflexivity.
Qed.

Lemma games_layout_ok p0 pls : forallb (played_okb p0) pls = true -> layout_ok (map (game_of p0) pls).
Proof.
  unfold layout_ok. induction pls as [|pl r IH]; cbn [map forallb]; [reflexivity|].
  rewrite !andb_true_iff. intros [H1 H2]. split; [apply game_of_ok; exact H1|apply IH; exact H2].
Qed.

Section Games.
Variable T : Tables.t.
Hypothesis OK : tables_attacks_ok T = true.
Hypothesis MK : tables_movegen_ok T = true.
Variable b0 : board.
Hypothesis Hwf : wf b0 = true.
Hypothesis Hl : legal_pos (abs b0) = true.

Lemma replay_item_game pl : played_okb (abs b0) pl = true ->
  replay_item T b0 (Ok (raw_of (game_of (abs b0) pl)))
  = Some (pl_moves pl, fold_left Rules.apply (pl_moves pl) (abs b0)).
Proof.
  intros H. unfold played_okb in H. rewrite !andb_true_iff in H. destruct H as (_ & Hline).
  apply legal_lineb_iff in Hline.
  unfold replay_item, raw_of. cbn [snd]. rewrite game_of_sans.
  destruct (replay_line T OK MK (pl_moves pl) b0 Hwf Hl Hline) as (ms & b' & R & Ems & A & _).
  rewrite R. cbn [option_map fst snd]. rewrite Ems, A. reflexivity.
Qed.

(* C17_replay_game: every game of the file, in order *)
Theorem replay_games pls nl chunk frag :
  forallb (played_okb (abs b0)) pls = true -> (1 <= chunk)%nat ->
  let file := render (map (game_of (abs b0)) pls) nl in
  run_concrete chunk frag file = map Ok (map raw_of (map (game_of (abs b0)) pls)) /\
  map (replay_item T b0) (run_concrete chunk frag file)
  = map (fun pl => Some (pl_moves pl, fold_left Rules.apply (pl_moves pl) (abs b0))) pls.
Proof.
  intros H Hc file.
  pose proof (PgnProofs.reader_complete (map (game_of (abs b0)) pls) nl chunk frag (games_layout_ok _ _ H) Hc) as R.
  fold file in R. split; [exact R|]. rewrite R. clear R file.
  induction pls as [|pl r IH]; cbn [map forallb] in *; [reflexivity|].
  apply andb_true_iff in H as [H1 H2]. rewrite (replay_item_game pl H1), (IH H2). reflexivity.
Qed.

(* the same with the board left behind by the Rust pgn_to_bb threaded through (clock budget) *)
Theorem replay_games_fx pls nl chunk frag :
  forallb (played_okb (abs b0)) pls = true -> (1 <= chunk)%nat ->
  Forall (fun pl => half b0 + N.of_nat (length (pl_line pl)) <= 4096) pls ->
  map (fun r => match r with Ok g => option_map abs (replay_fx T b0 (map fst (snd g))) | Err _ => None end)
      (run_concrete chunk frag (render (map (game_of (abs b0)) pls) nl))
  = map (fun pl => Some (fold_left Rules.apply (pl_moves pl) (abs b0))) pls.
Proof.
  intros H Hc Hb. destruct (replay_games pls nl chunk frag H Hc) as [R _]. cbv zeta in R. rewrite R. clear R.
  induction pls as [|pl r IH]; cbn [map forallb] in *; [reflexivity|].
  apply andb_true_iff in H as [H1 H2]. inversion Hb as [|? ? Hb1 Hb2]; subst.
  rewrite (IH H2 Hb2). f_equal.
  unfold raw_of. cbn [snd]. rewrite game_of_sans.
  rewrite (replay_fx_eq T OK MK _ b0 Hwf Hl) by (rewrite san_line_length; unfold pl_moves; rewrite map_length; exact Hb1).
  unfold played_okb in H1. rewrite !andb_true_iff in H1. destruct H1 as (_ & Hline). apply legal_lineb_iff in Hline.
  destruct (replay_line_board T OK MK (pl_moves pl) b0 Hwf Hl Hline) as (b' & R & A & _).
  rewrite R. cbn [option_map]. rewrite A. reflexivity.
Qed.

End Games.

(* ---- the start position and the tables of the tree ---- *)
Definition start_board : board := board_of_text STARTPOS.
Lemma start_wf : wf start_board = true.
Proof. vm_compute. reflexivity. Qed.
Lemma start_legal : legal_pos (abs start_board) = true.
Proof. vm_compute. reflexivity. Qed.

(* for examples: the line of the rules denoted by a list of UCI texts (stops at the first text that is not the UCI text
   of a legal move) *)
Fixpoint line_of_texts (p : pos) (ss : list str) : list mv :=
  match ss with
  | [] => []
  | s :: r =>
      match find (fun m => str_eqb (uci m) s) (legal_moves p) with
      | Some u => u :: line_of_texts (Rules.apply p u) r
      | None => []
      end
  end.

(* the clock budget of replay_fx_eq is needed: at half-move clock 4096 the make/unmake pairs inside the Rust pgn_to_bb
   hand back a board with clock 0 (12-bit previous-half-move field of the move record, known finding of C03) *)
Definition fx_board : board := board_of_text (lit "rnbqkbnr/pppppppp/8/8/8/8/PPPPPPPP/RNBQKBNR w KQkq - 4096 1").
Lemma replay_fx_needs_budget :
  exists b sans, wf b = true /\ legal_pos (abs b) = true /\ half b + N.of_nat (length sans) = 4097 /\
    option_map half (replay Ink.Gen.Tables.tables b sans) = Some 4097 /\
    option_map half (replay_fx Ink.Gen.Tables.tables b sans) = Some 1.
Proof. exists fx_board, [lit "Nf3"]. vm_compute. repeat split; reflexivity. Qed.

(* Proofs/SearchFlip.v : colour-flip symmetry of the fixed-depth search value for CHESS (property C11, search level).

   Game: Proofs/ChessGame.v (succs / noisy_succs / noisy_any / static / terminal / qmeasure built from the model of
   board.rs over a table set T), value: Spec/Minimax.v [nm d] (exact negamax of depth d with capture resolution at
   the horizon).  Flip: EvalProofs.flip (mirror, swap colours / side to move / rights, mirror e.p.; clocks unchanged).

   The involution form EvalProofs.C11_search_symmetric is NOT applicable to chess: its hypothesis
   `succs (fl p) ~ map fl (succs p)` fails because the full-move number advances after Black's move only, so the
   children of the twin carry a full-move number that is one off (succs_flip_clock_offset below gives a witness).  What
   holds: the children of `flip b` are the flips of the children of b UP TO the full-move number (succs_flip), static
   values and stalemate values do not read that number, and mate values W - fullmove differ by exactly the offset.

   Part 1  abstract: two games trees related by a parity-indexed relation R, values related by a monotone
           shift g ([nm_shift]); a predicate on values that holds at the leaves holds for nm ([nm_leaf_pred]).
   Part 2  the model does not read the full-move number except in `make` (+ turn) and in the mate score.
   Part 3  legal positions (wf b /\ legal_pos (abs b)), their twins, children of twins (via Proofs/RulesFlip.v,
           C01 = generator is Rules.pseudo_moves, C02 = make is Rules.apply).
   Part 4  range of the static evaluation (boolean table check [eval_band_ok]).
   Part 5  the theorems:
             nm_flip           nm d (flip b) = shift (nm d b): equal unless nm d b is a WINNING mate score
                               (> win_score - MAX_FULL_MOVES), in which case it differs by exactly 1 (the twin's
                               mating position carries a full-move number one higher / lower);
             nm_flip_no_win    equal for every value <= win_score - MAX_FULL_MOVES (all centipawn values, all
                               "being mated" values);
             reported_flip     score_from_value of the two values at the two roots is THE SAME (centipawns, or
                               mate distance in moves): the mover's point of view is colour-blind.
           Hypothesis on the full-move number:  full b + d < MAX_FULL_MOVES  (so that every mate in the tree is
           scored inside the mate band; D17).  *)
Require Import Ink.Lib.Str.
Require Import NArith ZArith List Bool Lia ZifyBool ZifyN Permutation.
Require Import Ink.Lib.Bits Ink.Model.Tables Ink.Model.Board Ink.Model.Heuristic Ink.Model.Search.
Require Ink.Spec.Minimax.
Require Import Ink.Spec.Rules.
Require Import Ink.Proofs.BitFacts Ink.Proofs.AttackProofs Ink.Proofs.Abs Ink.Proofs.AbsProofs Ink.Proofs.GenShape.
Require Import Ink.Proofs.MakeUnmake Ink.Proofs.MinimaxProofs Ink.Proofs.EvalProofs Ink.Proofs.SearchProofs.
Require Import Ink.Proofs.RepetitionProofs Ink.Proofs.ZobristProofs.
Require Ink.Proofs.FenProofs Ink.Proofs.RepetitionInstance Ink.Proofs.ChessInstance.
Require Import Ink.Proofs.MoveGenProofs Ink.Proofs.MakeProofs Ink.Proofs.ChessGame Ink.Proofs.RulesFlip.
Import ListNotations.
Open Scope N_scope.

Arguments N.add : simpl never.
Arguments N.sub : simpl never.
Arguments N.mul : simpl never.
Arguments N.eqb : simpl never.
Arguments N.ltb : simpl never.
Arguments N.leb : simpl never.
Arguments Z.add : simpl never.
Arguments Z.sub : simpl never.
Arguments Z.mul : simpl never.
Arguments Z.opp : simpl never.
Arguments Z.ltb : simpl never.
Arguments Z.leb : simpl never.
Arguments Z.abs : simpl never.
Arguments Z.max : simpl never.

(* ================================================================== *)
(* Part 1: abstract shifted symmetry                                   *)
(* ================================================================== *)
Section Shifted.
Open Scope Z_scope.
Variable pos : Type.
Variable succs : pos -> list pos.
Variable noisy_succs : pos -> list pos.
Variable noisy_any : pos -> bool.
Variable static : pos -> Z.
Variable terminal : pos -> Z.
Variable qmeasure : pos -> nat.

Local Notation qsv := (Minimax.qs pos noisy_succs static qmeasure).
Local Notation nmv := (Minimax.nm pos succs noisy_succs noisy_any static terminal qmeasure).

Hypothesis Hdec : Minimax.qmeasure_dec pos noisy_succs qmeasure.

Variable G : pos -> Prop.                       (* "good" positions *)
Variable Q : pos -> pos -> Prop.                (* twins, any clocks *)
Variable R : nat -> bool -> pos -> pos -> Prop. (* twins with remaining depth and parity *)
Variable g : bool -> Z -> Z.                    (* the shift of values, by parity *)
Variable hi : Z.                                (* the band of static values is [-hi, hi] *)

Hypothesis G_noisy : forall p q, G p -> In q (noisy_succs p) -> G q.
Hypothesis G_static : forall p, G p -> - hi <= static p <= hi.
Hypothesis g_id : forall s v, - hi <= v <= hi -> g s v = v.
Hypothesis g_mono : forall s a b, a <= b -> g s a <= g s b.
Hypothesis g_neg : forall s v, g s (- v) = - g (negb s) v.
Hypothesis Q_G : forall p p', Q p p' -> G p.
Hypothesis Q_noisy : forall p p', Q p p' -> matched pos Q (noisy_succs p) (noisy_succs p').
Hypothesis Q_static : forall p p', Q p p' -> static p = static p'.
Hypothesis Q_any : forall p p', Q p p' -> noisy_any p = noisy_any p'.
Hypothesis R_Q : forall n s p p', R n s p p' -> Q p p'.
Hypothesis R_nil : forall n s p p', R n s p p' -> (succs p = [] <-> succs p' = []).
Hypothesis R_succs : forall n s p p', R (S n) s p p' -> matched pos (R n (negb s)) (succs p) (succs p').
Hypothesis R_terminal : forall n s p p', R n s p p' -> succs p = [] -> terminal p' = g s (terminal p).

Lemma qs_band_lt : forall n p, (qmeasure p < n)%nat -> G p -> - hi <= qsv p <= hi.
Proof.
  induction n as [|n IH]; intros p Hn Hg; [lia|].
  rewrite (qs_unfold pos noisy_succs static qmeasure Hdec p).
  pose proof (G_static p Hg) as Hs.
  destruct (maxneg_attained pos (Minimax.qs pos noisy_succs static qmeasure) (noisy_succs p) (static p)) as [E|(c & Hc & E)];
    rewrite E; [exact Hs|].
  assert (Hb : - hi <= qsv c <= hi) by (apply IH; [pose proof (Hdec p c Hc); lia|now apply (G_noisy p)]).
  lia.
Qed.

Lemma qs_band p : G p -> - hi <= qsv p <= hi.
Proof. apply (qs_band_lt (S (qmeasure p))). lia. Qed.

Theorem nm_shift : forall d s p p', R d s p p' -> nmv d p' = g s (nmv d p).
Proof.
  induction d as [|k IH]; intros s p p' HR; pose proof (R_nil _ _ _ _ HR) as Hnil; pose proof (R_Q _ _ _ _ HR) as HQ.
  - destruct (succs p) as [|c r] eqn:E.
    + rewrite !nm_nomoves; [now apply (R_terminal 0%nat)|exact E|now apply Hnil].
    + rewrite !nm_0. unfold Minimax.horizon, Minimax.nomoves. rewrite E.
      destruct (succs p') as [|c' r'] eqn:E'; [destruct Hnil as [_ H]; discriminate (H eq_refl)|].
      rewrite <- (Q_any p p' HQ). destruct (noisy_any p).
      * rewrite <- (qs_sim pos noisy_succs static qmeasure Hdec Q Q_noisy Q_static p p' HQ).
        symmetry. apply g_id. apply qs_band. now apply (Q_G p p').
      * rewrite <- (Q_static p p' HQ). symmetry. apply g_id. apply G_static. now apply (Q_G p p').
  - destruct (succs p) as [|c r] eqn:E.
    + rewrite !nm_nomoves; [now apply (R_terminal (S k))|exact E|now apply Hnil].
    + assert (Hne : succs p <> []) by (rewrite E; discriminate).
      assert (Hne' : succs p' <> []) by (intros H; apply Hnil in H; congruence).
      destruct (R_succs _ _ _ _ HR) as [F B]. rewrite <- E in *. apply Z.le_antisymm.
      * apply nm_S_le; [exact Hne'|]. intros q' Hq'. destruct (B q' Hq') as (q & Hq & HR').
        rewrite (IH _ _ _ HR'). rewrite <- (negb_involutive s) at 1. rewrite <- g_neg. rewrite negb_involutive.
        apply g_mono. now apply nm_S_ge.
      * destruct (nm_S_attained pos succs noisy_succs noisy_any static terminal qmeasure k p Hne) as (q & Hq & Eq).
        rewrite Eq. destruct (F q Hq) as (q' & Hq' & HR').
        rewrite g_neg. rewrite <- (IH _ _ _ HR'). now apply nm_S_ge.
Qed.

(* a predicate on values that holds at the leaves and is closed under negation holds for every nm value *)
Variable P : Z -> Prop.
Hypothesis P_neg : forall v, P v -> P (- v).
Hypothesis P_static : forall p, G p -> P (static p).
Hypothesis P_terminal : forall n s p p', R n s p p' -> succs p = [] -> P (terminal p).

Lemma qs_pred_lt : forall n p, (qmeasure p < n)%nat -> G p -> P (qsv p).
Proof.
  induction n as [|n IH]; intros p Hn Hg; [lia|].
  rewrite (qs_unfold pos noisy_succs static qmeasure Hdec p).
  destruct (maxneg_attained pos (Minimax.qs pos noisy_succs static qmeasure) (noisy_succs p) (static p)) as [E|(c & Hc & E)];
    rewrite E; [now apply P_static|].
  apply P_neg. apply IH; [pose proof (Hdec p c Hc); lia|now apply (G_noisy p)].
Qed.

Theorem nm_leaf_pred : forall d s p p', R d s p p' -> P (nmv d p).
Proof.
  induction d as [|k IH]; intros s p p' HR; pose proof (R_Q _ _ _ _ HR) as HQ; pose proof (Q_G _ _ HQ) as Hg.
  - destruct (succs p) as [|c r] eqn:E.
    + rewrite nm_nomoves by exact E. now apply (P_terminal 0%nat s p p').
    + rewrite nm_0. unfold Minimax.horizon, Minimax.nomoves. rewrite E.
      destruct (noisy_any p); [apply (qs_pred_lt (S (qmeasure p))); [lia|exact Hg]|now apply P_static].
  - destruct (succs p) as [|c r] eqn:E.
    + rewrite nm_nomoves by exact E. now apply (P_terminal (S k) s p p').
    + assert (Hne : succs p <> []) by (rewrite E; discriminate).
      destruct (nm_S_attained pos succs noisy_succs noisy_any static terminal qmeasure k p Hne) as (q & Hq & Eq).
      rewrite Eq. apply P_neg. destruct (R_succs _ _ _ _ HR) as [F _]. destruct (F q Hq) as (q' & _ & HR').
      exact (IH _ _ _ HR').
Qed.

End Shifted.

(* ================================================================== *)
(* Part 2: the full-move number is read by `make` (+ turn) and by the mate score only *)
(* ================================================================== *)

Definition set_full (b : board) (n : N) : board :=
  {| white := white b; black := black b; turn := turn b; ep := ep b; full := n; half := half b |}.

Lemma set_full_id b : set_full b (full b) = b.
Proof. destruct b; reflexivity. Qed.
Lemma set_full_twice b n k : set_full (set_full b n) k = set_full b k.
Proof. reflexivity. Qed.
Lemma full_set_full b n : full (set_full b n) = n.
Proof. reflexivity. Qed.
Lemma flip_set_full b n : flip (set_full b n) = set_full (flip b) n.
Proof. reflexivity. Qed.
Lemma wf_set_full b n : wf (set_full b n) = wf b.
Proof. reflexivity. Qed.
Lemma gen_pseudo_set_full T b n : gen_pseudo T (set_full b n) = gen_pseudo T b.
Proof. reflexivity. Qed.
Lemma gen_nonquiet_set_full T b n : gen_nonquiet T (set_full b n) = gen_nonquiet T b.
Proof. reflexivity. Qed.
Lemma is_valid_set_full T b n : is_valid T (set_full b n) = is_valid T b.
Proof. reflexivity. Qed.
Lemma in_check_set_full T b n : is_current_in_check T (set_full b n) = is_current_in_check T b.
Proof. reflexivity. Qed.
Lemma evaluate_true_set_full T b n : evaluate T (set_full b n) true = evaluate T b true.
Proof. reflexivity. Qed.
Lemma sane_set_full b n : sane (set_full b n) = sane b.
Proof. reflexivity. Qed.

Lemma make_set_full b n m : make (set_full b n) m = option_map (fun c => set_full c (n + turn b)) (make b m).
Proof.
  destruct b as [w k t e f h]. unfold set_full, make, is_white_turn, active, passive. cbv zeta.
  cbn [white black turn ep full half].
  destruct (castle m); [destruct (castle_squares (dst m)) as [[rf rt]|]; [|reflexivity]
                       |destruct (ep_attack m); [|destruct (negb (promo m =? NO_PIECE))]];
  destruct (t =? WHITE); reflexivity.
Qed.

Lemma children_set_full T b n ms :
  children T (set_full b n) ms = map (fun c => set_full c (n + turn b)) (children T b ms).
Proof.
  induction ms as [|m r IH]; cbn [children map]; [reflexivity|]. rewrite make_set_full.
  destruct (make b m) as [c|]; cbn [option_map]; [|exact IH].
  rewrite is_valid_set_full. destruct (is_valid T c); cbn [map]; now rewrite IH.
Qed.

Lemma succs_set_full T b n : succs T (set_full b n) = map (fun c => set_full c (n + turn b)) (succs T b).
Proof. unfold succs. rewrite gen_pseudo_set_full. apply children_set_full. Qed.

Lemma noisy_succs_set_full T b n : noisy_succs T (set_full b n) = map (fun c => set_full c (n + turn b)) (noisy_succs T b).
Proof.
  unfold noisy_succs, noisy_succs_raw. rewrite sane_set_full, gen_nonquiet_set_full.
  destruct (sane b); [apply children_set_full|reflexivity].
Qed.

Lemma noisy_any_set_full T b n : noisy_any T (set_full b n) = noisy_any T b.
Proof. reflexivity. Qed.

Lemma static_set_full T b n : static T (set_full b n) = static T b.
Proof. unfold static. now rewrite evaluate_true_set_full. Qed.

Lemma abs_set_full b n : abs (set_full b n) = with_full (abs b) n.
Proof. reflexivity. Qed.

(* ================================================================== *)
(* Part 3: legal positions and their twins                             *)
(* ================================================================== *)

Definition LP (b : board) : Prop := wf b = true /\ legal_pos (abs b) = true.

Lemma abs_inj_wf b1 b2 : wf b1 = true -> wf b2 = true -> abs b1 = abs b2 -> b1 = b2.
Proof.
  intros H1 H2 E. destruct (FenProofs.wf_boards_ok b1 H1) as (O1 & T1 & _). destruct (FenProofs.wf_boards_ok b2 H2) as (O2 & T2 & _).
  apply FenProofs.abs_inj; try assumption; now apply FenProofs.boards_ok_tight.
Qed.

Lemma movegen_ranks T : tables_movegen_ok T = true -> tables_ranks_ok T = true.
Proof.
  intros H. destruct (tables_movegen_elim T H) as (H1 & H2 & H7 & H8 & _).
  unfold tables_ranks_ok. rewrite H1, H2, H7, H8. reflexivity.
Qed.

Lemma LP_ep b : LP b -> ep b <> 56.
Proof.
  intros [Hwf Hl]. destruct (legal_pos_conditions b Hwf Hl) as [_ He].
  destruct (N.eq_dec (ep b) 0) as [E|E]; [rewrite E; discriminate|].
  destruct (ep_bits_ok_elim b He E) as (_ & Hr & _). lia.
Qed.

Lemma LP_flip b : LP b -> LP (flip b).
Proof.
  intros HL. pose proof (LP_ep b HL) as He. destruct HL as [Hwf Hl]. split; [now apply flip_wf|].
  rewrite (abs_flip b Hwf He). rewrite legal_pos_flip by apply length_cells_abs. exact Hl.
Qed.

Lemma flip_flip_LP b : LP b -> flip (flip b) = b.
Proof.
  intros HL. pose proof (LP_ep b HL) as He. destruct HL as [Hwf _].
  apply flip_involutive; [now apply wf_bbs_u64|now apply wf_turn|exact He].
Qed.

Lemma ep_bits_wf b : ep_bits_ok b = true -> ep_wf b = true.
Proof.
  intros H. unfold ep_wf. destruct (N.eqb_spec (ep b) NO_SQUARE) as [E|E]; [reflexivity|]. cbn [orb].
  assert (E0 : ep b <> 0) by exact E. destruct (ep_bits_ok_elim b H E0) as (_ & Hr & Hc).
  unfold is_white_turn in Hc. destruct (turn b =? WHITE); destruct Hc as [Hp Hb]; rewrite Hp, andb_true_r; lia.
Qed.

Lemma LP_sane b : LP b -> sane b = true.
Proof.
  intros [Hwf Hl]. destruct (legal_pos_conditions b Hwf Hl) as [Hr He].
  unfold sane, good. rewrite Hwf, (RepetitionInstance.rights_wf_castle_wf b Hr), (ep_bits_wf b He). reflexivity.
Qed.

Lemma in_perm_map_flip p u : In u (pseudo_moves p) -> In (flip_umove u) (pseudo_moves (flip_pos p)).
Proof. intros H. apply (Permutation_in _ (Permutation_sym (pseudo_moves_flip p))). now apply in_map. Qed.

Section Twins.
Variable T : Tables.t.
Hypothesis OK : tables_attacks_ok T = true.
Hypothesis MK : tables_movegen_ok T = true.

Let CK : tables_castle_ok T = true := tables_movegen_castle T MK.
Let RK : tables_ranks_ok T = true := movegen_ranks T MK.

Lemma LP_elim b : LP b -> wf b = true /\ rights_wf b = true /\ ep_ok b /\ is_valid T b = true /\ ep_bits_ok b = true.
Proof.
  intros [Hwf Hl]. destruct (legal_pos_conditions b Hwf Hl) as [_ He].
  apply (legal_pos_iff T OK b Hwf) in Hl as (A & B & C). auto.
Qed.

Lemma LP_child b m c : LP b -> In m (gen_pseudo T b) -> make b m = Some c -> is_valid T c = true -> LP c.
Proof. intros [Hwf Hl] Hm Hmk Hv. exact (C02_legal_pos_preserved T OK CK RK b m c Hwf Hl Hm Hmk Hv). Qed.

Lemma LP_succ b c : LP b -> In c (succs T b) -> LP c.
Proof. intros HL Hc. apply children_in in Hc as (m & Hm & Hmk & Hv). eapply LP_child; eassumption. Qed.

Lemma is_valid_flip b : wf b = true -> is_valid T (flip b) = is_valid T b.
Proof.
  intros Hwf. unfold is_valid. f_equal. change (turn (flip b)) with (opposite (turn b)).
  apply (in_check_by_bits_flip T OK b (opposite (turn b)) Hwf). pose proof (wf_turn b Hwf). unfold opposite. lia.
Qed.

Lemma pseudo_spec b m : LP b -> In m (gen_pseudo T b) -> In (uci_of m) (pseudo_moves (abs b)).
Proof.
  intros HL Hm. destruct (LP_elim b HL) as (Hwf & Hr & _ & _ & He).
  apply (proj1 (C01_pseudo_exact T OK MK b Hwf Hr He)). now apply in_map.
Qed.

Lemma pseudo_spec_inv b u : LP b -> In u (pseudo_moves (abs b)) -> exists m, In m (gen_pseudo T b) /\ uci_of m = u.
Proof.
  intros HL Hu. destruct (LP_elim b HL) as (Hwf & Hr & _ & _ & He).
  apply (proj1 (C01_pseudo_exact T OK MK b Hwf Hr He)) in Hu. apply in_map_iff in Hu as (m & E & Hm). eauto.
Qed.

(* the child of the twin under the mirrored move is the twin of the child, up to the full-move number *)
Lemma child_flip b m c m' : LP b -> In m (gen_pseudo T b) -> make b m = Some c -> is_valid T c = true ->
  In m' (gen_pseudo T (flip b)) -> uci_of m' = flip_umove (uci_of m) ->
  exists c', make (flip b) m' = Some c' /\ is_valid T c' = true /\ c' = set_full (flip c) (full b + opposite (turn b)).
Proof.
  intros HL Hm Hmk Hv Hm' Eu.
  pose proof (LP_child b m c HL Hm Hmk Hv) as HLc.
  pose proof (LP_flip b HL) as HLf.
  destruct (LP_elim b HL) as (Hwf & Hr & He & Hvb & _).
  destruct (LP_elim (flip b) HLf) as (Hwf' & Hr' & He' & Hvb' & _).
  pose proof (C02_make_exact T OK CK RK b m c Hwf Hr He Hvb Hm Hmk) as Ac.
  destruct (C02_step T OK CK RK (flip b) m' Hwf' Hr' He' Hvb' Hm') as (c' & Hmk' & Ac' & Hwc' & _).
  exists c'. split; [exact Hmk'|].
  destruct (pseudo_moves_shape (abs b) (uci_of m) (pseudo_spec b m HL Hm)) as (Hf & Ht & _).
  assert (E : c' = set_full (flip c) (full c')).
  { rewrite <- (set_full_id c') at 1. apply abs_inj_wf.
    - now rewrite wf_set_full.
    - rewrite wf_set_full. apply flip_wf. apply HLc.
    - rewrite !abs_set_full. rewrite Ac', Eu, (abs_flip b Hwf (LP_ep b HL)).
      rewrite (apply_flip (abs b) (uci_of m) (full c') (length_cells_abs b) Hf Ht).
      rewrite <- Ac. now rewrite (abs_flip c (proj1 HLc) (LP_ep c HLc)). }
  destruct (make_fields (flip b) m' c' Hmk') as (_ & Ef & _).
  change (full (flip b)) with (full b) in Ef. change (turn (flip b)) with (opposite (turn b)) in Ef.
  rewrite Ef in E. split; [|exact E].
  rewrite E, is_valid_set_full, is_valid_flip by apply HLc. exact Hv.
Qed.

Lemma succs_flip_fwd b c : LP b -> In c (succs T b) ->
  In (set_full (flip c) (full b + opposite (turn b))) (succs T (flip b)).
Proof.
  intros HL Hc. apply children_in in Hc as (m & Hm & Hmk & Hv).
  pose proof (pseudo_spec b m HL Hm) as Hu. apply in_perm_map_flip in Hu.
  rewrite <- (abs_flip b (proj1 HL) (LP_ep b HL)) in Hu.
  destruct (pseudo_spec_inv (flip b) _ (LP_flip b HL) Hu) as (m' & Hm' & Eu).
  destruct (child_flip b m c m' HL Hm Hmk Hv Hm' Eu) as (c' & Hmk' & Hv' & ->).
  apply children_in. exists m'. auto.
Qed.

Lemma noisy_flip_fwd b c : LP b -> In c (noisy_succs T b) ->
  In (set_full (flip c) (full b + opposite (turn b))) (noisy_succs T (flip b)).
Proof.
  intros HL Hc. rewrite (noisy_succs_sane T b (LP_sane b HL)) in Hc.
  rewrite (noisy_succs_sane T (flip b) (LP_sane _ (LP_flip b HL))).
  apply children_in in Hc as (m & Hm & Hmk & Hv).
  destruct (LP_elim b HL) as (Hwf & Hr & _ & _ & He).
  destruct (LP_elim (flip b) (LP_flip b HL)) as (Hwf' & Hr' & _ & _ & He').
  pose proof (gen_nonquiet_incl T b m Hm) as Hmp.
  assert (Hu : In (uci_of m) (filter (capture_or_promotion (abs b)) (pseudo_moves (abs b)))).
  { apply (proj1 (C01_nonquiet_members T OK MK b Hwf Hr He)). now apply in_map. }
  apply filter_In in Hu as [Hu Hcp].
  destruct (pseudo_moves_shape (abs b) (uci_of m) Hu) as (Hf & Ht & _).
  assert (Hu' : In (flip_umove (uci_of m)) (filter (capture_or_promotion (abs (flip b))) (pseudo_moves (abs (flip b))))).
  { rewrite (abs_flip b Hwf (LP_ep b HL)). apply filter_In. split; [now apply in_perm_map_flip|].
    now rewrite capture_or_promotion_flip. }
  apply (proj1 (C01_nonquiet_members T OK MK (flip b) Hwf' Hr' He')) in Hu'.
  apply in_map_iff in Hu' as (m' & Eu & Hm').
  destruct (child_flip b m c m' HL Hmp Hmk Hv (gen_nonquiet_incl T _ m' Hm') Eu) as (c' & Hmk' & Hv' & ->).
  apply children_in. exists m'. auto.
Qed.

(* both directions, for a twin with any full-move number *)
Theorem succs_twin b f' : LP b ->
  (forall c, In c (succs T b) -> In (set_full (flip c) (f' + opposite (turn b))) (succs T (set_full (flip b) f'))) /\
  (forall c', In c' (succs T (set_full (flip b) f')) ->
     exists c, In c (succs T b) /\ c' = set_full (flip c) (f' + opposite (turn b))).
Proof.
  intros HL. rewrite succs_set_full. change (turn (flip b)) with (opposite (turn b)). split.
  - intros c Hc. apply in_map_iff. exists (set_full (flip c) (full b + opposite (turn b))).
    split; [reflexivity|now apply succs_flip_fwd].
  - intros c' Hc'. apply in_map_iff in Hc' as (c0 & <- & Hc0).
    pose proof (LP_flip b HL) as HLf. pose proof (LP_succ _ _ HLf Hc0) as HL0.
    pose proof (succs_flip_fwd (flip b) c0 HLf Hc0) as Hb. rewrite (flip_flip_LP b HL) in Hb.
    eexists. split; [exact Hb|].
    rewrite flip_set_full, set_full_twice, (flip_flip_LP c0 HL0). reflexivity.
Qed.

Theorem noisy_twin b f' : LP b ->
  (forall c, In c (noisy_succs T b) -> In (set_full (flip c) (f' + opposite (turn b))) (noisy_succs T (set_full (flip b) f'))) /\
  (forall c', In c' (noisy_succs T (set_full (flip b) f')) ->
     exists c, In c (noisy_succs T b) /\ c' = set_full (flip c) (f' + opposite (turn b))).
Proof.
  intros HL. rewrite noisy_succs_set_full. change (turn (flip b)) with (opposite (turn b)). split.
  - intros c Hc. apply in_map_iff. exists (set_full (flip c) (full b + opposite (turn b))).
    split; [reflexivity|now apply noisy_flip_fwd].
  - intros c' Hc'. apply in_map_iff in Hc' as (c0 & <- & Hc0).
    pose proof (LP_flip b HL) as HLf.
    pose proof (LP_succ _ _ HLf (chess_noisy_sub T _ _ Hc0)) as HL0.
    pose proof (noisy_flip_fwd (flip b) c0 HLf Hc0) as Hb. rewrite (flip_flip_LP b HL) in Hb.
    eexists. split; [exact Hb|].
    rewrite flip_set_full, set_full_twice, (flip_flip_LP c0 HL0). reflexivity.
Qed.

(* is some pseudo-legal move a capture or a promotion? *)
Lemma noisy_any_spec b : LP b ->
  (noisy_any T b = true <-> exists u, In u (pseudo_moves (abs b)) /\ capture_or_promotion (abs b) u = true).
Proof.
  intros HL. destruct (LP_elim b HL) as (Hwf & Hr & _ & _ & He).
  destruct (C01_nonquiet_exact T OK MK b Hwf Hr He) as [_ Hn].
  unfold noisy_any, is_any_move_non_quiescent. rewrite existsb_exists. split.
  - intros (m & Hm & Hq). exists (uci_of m). split; [now apply pseudo_spec|now apply (Hn m Hm)].
  - intros (u & Hu & Hq). destruct (pseudo_spec_inv b u HL Hu) as (m & Hm & <-). exists m. split; [exact Hm|now apply (Hn m Hm)].
Qed.

Theorem noisy_any_flip b : LP b -> noisy_any T (flip b) = noisy_any T b.
Proof.
  intros HL. apply eq_iff_eq_true. rewrite (noisy_any_spec b HL), (noisy_any_spec (flip b) (LP_flip b HL)).
  rewrite (abs_flip b (proj1 HL) (LP_ep b HL)). split.
  - intros (u & Hu & Hq). exists (flip_umove u).
    apply in_perm_map_flip in Hu. rewrite flip_pos_involutive in Hu by apply length_cells_abs.
    destruct (pseudo_moves_shape _ _ Hu) as (Hf & Ht & _). split; [exact Hu|].
    rewrite <- (capture_or_promotion_flip (abs b)) by assumption. now rewrite flip_umove_invol.
  - intros (u & Hu & Hq). destruct (pseudo_moves_shape _ _ Hu) as (Hf & Ht & _). exists (flip_umove u).
    split; [now apply in_perm_map_flip|now rewrite capture_or_promotion_flip].
Qed.

End Twins.

(* ================================================================== *)
(* Part 4: the range of the static evaluation                          *)
(* ================================================================== *)
Section Band.
Variable T : Tables.t.
Local Notation W := (win_score T).
Local Notation M := (max_full_moves T).

Definition PB : Z := 1000.      (* bound on the piece-square entries accepted by the check *)
Definition pst_le (ts : list (list (list Z))) : bool :=
  forallb (fun stg => forallb (fun row => forallb (fun v => (Z.abs v <=? PB)%Z) row) stg) ts.
Definition vsum : N := val_q T + val_r T + val_b T + val_n T + val_p T.
Definition ebound : Z := (Z.of_N (64 * vsum) + 768 * PB)%Z.

(* |static| <= ebound <= W/2 < W - M : centipawn values, reported as `cp`; mate values beyond W - M *)
Definition flip_tables_ok : bool :=
  (64 * vsum <? 2 ^ 31) && pst_le (pst_white T) && pst_le (pst_black T) &&
  (ebound <=? Z.quot W 2)%Z && (Z.quot W 2 <? W - M)%Z && (0 <=? M)%Z && (M <=? 2 ^ 30)%Z && (0 <? W)%Z.

Lemma nthN_forallb {A} (P : A -> bool) l i d : forallb P l = true -> P d = true -> P (nthN l i d) = true.
Proof.
  unfold nthN. intros Hl Hd. destruct (nth_in_or_default (N.to_nat i) l d) as [H|H]; [|now rewrite H].
  exact (proj1 (forallb_forall _ _) Hl _ H).
Qed.

Lemma zsum_bound B l : (0 <= B)%Z -> (forall x, In x l -> (Z.abs x <= B)%Z) ->
  (Z.abs (zsum l) <= Z.of_nat (length l) * B)%Z.
Proof.
  intros HB. induction l as [|x r IH]; intros H; cbn [zsum length]; [lia|].
  rewrite Nat2Z.inj_succ, Z.mul_succ_l. specialize (IH (fun y Hy => H y (or_intror Hy))).
  pose proof (H x (or_introl eq_refl)). lia.
Qed.

Lemma pss_bound occ row : occ < 2 ^ 64 -> forallb (fun v => (Z.abs v <=? PB)%Z) row = true ->
  (Z.abs (piece_square_sum occ row) <= 64 * PB)%Z.
Proof.
  intros Hocc Hrow. rewrite piece_square_sum_as_sum.
  pose proof (zsum_bound PB (map (fun s => nthN row s 0%Z) (bits_of occ)) ltac:(unfold PB; lia)) as HB.
  rewrite map_length in HB.
  assert (HL : (length (bits_of occ) <= 64)%nat).
  { pose proof (ChessInstance.popcount_le_64 occ Hocc) as H. rewrite popcount_length in H. lia. }
  assert (H1 : (Z.abs (zsum (map (fun s => nthN row s 0%Z) (bits_of occ))) <= Z.of_nat (length (bits_of occ)) * PB)%Z).
  { apply HB. intros x Hx. apply in_map_iff in Hx as (s & <- & _). apply Z.leb_le.
    apply (nthN_forallb (fun v => (Z.abs v <=? PB)%Z)); [exact Hrow|reflexivity]. }
  unfold PB in *. nia.
Qed.

Lemma player_bound p tables : bb_bounded p ->
  forallb (fun row => forallb (fun v => (Z.abs v <=? PB)%Z) row) tables = true ->
  (Z.abs (piece_square_sum_for_player p tables) <= 6 * (64 * PB))%Z.
Proof.
  intros (H1 & H2 & H3 & H4 & H5 & H6) Ht. unfold piece_square_sum_for_player.
  assert (R : forall k, forallb (fun v => (Z.abs v <=? PB)%Z) (nthN tables k []) = true).
  { intros k. apply (nthN_forallb (fun row => forallb (fun v => (Z.abs v <=? PB)%Z) row)); [exact Ht|reflexivity]. }
  pose proof (pss_bound (pawns p) _ H1 (R (PAWN - 1))). pose proof (pss_bound (knights p) _ H2 (R (KNIGHT - 1))).
  pose proof (pss_bound (bishops p) _ H3 (R (BISHOP - 1))). pose proof (pss_bound (rooks p) _ H4 (R (ROOK - 1))).
  pose proof (pss_bound (queens p) _ H5 (R (QUEEN - 1))). pose proof (pss_bound (kings p) _ H6 (R (KING - 1))). lia.
Qed.

Hypothesis HB : flip_tables_ok = true.

Lemma band_elim : 64 * vsum < 2 ^ 31 /\ pst_le (pst_white T) = true /\ pst_le (pst_black T) = true /\
  (ebound <= Z.quot W 2)%Z /\ (Z.quot W 2 < W - M)%Z /\ (0 <= M)%Z /\ (M <= 2 ^ 30)%Z /\ (0 < W)%Z.
Proof.
  unfold flip_tables_ok in HB. rewrite !andb_true_iff in HB. destruct HB as (((((((A & B) & C) & D) & E) & F) & G) & H).
  apply N.ltb_lt in A. apply Z.leb_le in D, F, G. apply Z.ltb_lt in E, H. repeat split; assumption.
Qed.

Lemma ebound_nonneg : (0 <= ebound)%Z.
Proof. unfold ebound, PB. lia. Qed.

Lemma piece_value_bound p : bb_bounded p -> (0 <= piece_value T p <= Z.of_N (64 * vsum))%Z.
Proof.
  intros (H1 & H2 & H3 & H4 & H5 & H6). destruct band_elim as (A & _). unfold piece_value.
  pose proof (ChessInstance.popcount_le_64 _ H1). pose proof (ChessInstance.popcount_le_64 _ H2).
  pose proof (ChessInstance.popcount_le_64 _ H3). pose proof (ChessInstance.popcount_le_64 _ H4).
  pose proof (ChessInstance.popcount_le_64 _ H5).
  set (n := popcount (queens p) * val_q T + popcount (rooks p) * val_r T + popcount (bishops p) * val_b T
            + popcount (knights p) * val_n T + popcount (pawns p) * val_p T).
  assert (Hn : n <= 64 * vsum) by (unfold n, vsum; nia).
  rewrite to_i32_small by lia. lia.
Qed.

Theorem static_band b : draw_score T = 0%Z -> wf b = true -> (- ebound <= static T b <= ebound)%Z.
Proof.
  intros HD Hwf. destruct (wf_elim b Hwf) as (Bw & Bb & Hturn & _).
  destruct band_elim as (A & Pw & Pb & _). pose proof ebound_nonneg as E0.
  assert (Hev : (Z.abs (evaluate T b true) <= ebound)%Z).
  { unfold evaluate. destruct (max_half_moves T <=? half b); [rewrite HD; cbn; lia|].
    unfold evaluate_ongoing, piece_square_value. cbv zeta.
    pose proof (piece_value_bound _ Bw). pose proof (piece_value_bound _ Bb).
    assert (Sw : forallb (fun row => forallb (fun v => (Z.abs v <=? PB)%Z) row) (nthN (pst_white T) (game_stage b) []) = true).
    { apply (nthN_forallb (fun stg => forallb (fun row => forallb (fun v => (Z.abs v <=? PB)%Z) row) stg)); [exact Pw|reflexivity]. }
    assert (Sb : forallb (fun row => forallb (fun v => (Z.abs v <=? PB)%Z) row) (nthN (pst_black T) (game_stage b) []) = true).
    { apply (nthN_forallb (fun stg => forallb (fun row => forallb (fun v => (Z.abs v <=? PB)%Z) row) stg)); [exact Pb|reflexivity]. }
    pose proof (player_bound _ _ Bw Sw). pose proof (player_bound _ _ Bb Sb). unfold ebound. lia. }
  unfold static, heuristic_factor.
  assert (turn b = 0 \/ turn b = 1) as [-> | ->] by lia; cbn [Z.of_N]; lia.
Qed.

End Band.

(* ================================================================== *)
(* Part 5: the search value of the twin                                *)
(* ================================================================== *)
Section Flip.
Variable T : Tables.t.
Hypothesis OK : tables_attacks_ok T = true.
Hypothesis MK : tables_movegen_ok T = true.
Hypothesis HT : gen_masks_ok T = true.
Hypothesis HP : pst_mirror_ok T = true.
Hypothesis HD : draw_score T = 0%Z.
Hypothesis HB : flip_tables_ok T = true.
Local Notation W := (win_score T).
Local Notation M := (max_full_moves T).
Local Notation nmv := (Minimax.nm board (succs T) (noisy_succs T) (noisy_any T) (static T) (terminal T) qmeasure).

Definition hi : Z := (W - M)%Z.

(* losing mate scores move by dn, winning mate scores by - dp, everything else stays *)
Definition gshift (dn dp v : Z) : Z :=
  (if v <? - hi then v + dn else if hi <? v then v - dp else v)%Z.

Variable rc : N.                 (* the side to move at the root *)
Hypothesis Hrc : rc < 2.
Definition delta : Z := if rc =? WHITE then 1%Z else (-1)%Z.
Definition gsh (s : bool) (v : Z) : Z := if s then gshift 0 delta v else gshift delta 0 v.

Definition Qtw (b b' : board) : Prop := LP b /\ b' = set_full (flip b) (full b').
Definition Rtw (n : nat) (s : bool) (b b' : board) : Prop :=
  Qtw b b' /\ s = (turn b =? rc) /\
  Z.of_N (full b') = (Z.of_N (full b) + (if s then 0 else delta))%Z /\
  (Z.of_N (full b) + Z.of_nat n < M)%Z.

Lemma delta_cases : delta = 1%Z \/ delta = (-1)%Z.
Proof. unfold delta. destruct (rc =? WHITE); auto. Qed.

Lemma hi_pos : (0 <= ebound T <= hi)%Z.
Proof. destruct (band_elim T HB) as (_ & _ & _ & A & B & _). pose proof (ebound_nonneg T). unfold hi. lia. Qed.

Lemma gsh_id s v : (- hi <= v <= hi)%Z -> gsh s v = v.
Proof.
  intros H. unfold gsh, gshift.
  destruct s; destruct (Z.ltb_spec v (- hi)); destruct (Z.ltb_spec hi v); lia.
Qed.

Lemma gsh_mono s a b : (a <= b)%Z -> (gsh s a <= gsh s b)%Z.
Proof.
  intros H. pose proof hi_pos. unfold gsh, gshift. destruct delta_cases as [-> | ->];
  destruct s; destruct (Z.ltb_spec a (- hi)); destruct (Z.ltb_spec hi a); destruct (Z.ltb_spec b (- hi)); destruct (Z.ltb_spec hi b); lia.
Qed.

Lemma gsh_neg s v : gsh s (- v) = (- gsh (negb s) v)%Z.
Proof.
  pose proof hi_pos. unfold gsh, gshift.
  destruct s; cbn [negb]; destruct (Z.ltb_spec (- v) (- hi)); destruct (Z.ltb_spec hi (- v)); destruct (Z.ltb_spec v (- hi)); destruct (Z.ltb_spec hi v); lia.
Qed.

Lemma LP_noisy p q : LP p -> In q (noisy_succs T p) -> LP q.
Proof. intros HL Hq. apply (LP_succ T OK MK p q HL). now apply chess_noisy_sub. Qed.

Lemma static_flip b : wf b = true -> static T (flip b) = static T b.
Proof. intros Hwf. exact (C11_mover_value_symmetric T OK b true HP HD Hwf). Qed.

Lemma Qtw_noisy p p' : Qtw p p' -> matched board Qtw (noisy_succs T p) (noisy_succs T p').
Proof.
  intros [HL E]. destruct (noisy_twin T OK MK p (full p') HL) as [F B]. rewrite <- E in F, B. split.
  - intros c Hc. eexists. split; [exact (F c Hc)|]. split; [now apply (LP_noisy p)|reflexivity].
  - intros c' Hc'. destruct (B c' Hc') as (c & Hc & Ec). exists c. split; [exact Hc|].
    split; [now apply (LP_noisy p)|]. rewrite Ec at 1. now rewrite Ec, full_set_full.
Qed.

Lemma Qtw_static p p' : Qtw p p' -> static T p = static T p'.
Proof. intros [HL E]. rewrite E, static_set_full. symmetry. apply static_flip, HL. Qed.

Lemma Qtw_any p p' : Qtw p p' -> noisy_any T p = noisy_any T p'.
Proof. intros [HL E]. rewrite E, noisy_any_set_full. symmetry. now apply noisy_any_flip. Qed.

Lemma Rtw_succs n s p p' : Rtw (S n) s p p' -> matched board (Rtw n (negb s)) (succs T p) (succs T p').
Proof.
  intros ([HL E] & Es & Ef & Hb). destruct (succs_twin T OK MK p (full p') HL) as [F B]. rewrite <- E in F, B.
  pose proof (wf_turn p (proj1 HL)) as Ht.
  assert (K : forall c, In c (succs T p) -> Rtw n (negb s) c (set_full (flip c) (full p' + opposite (turn p)))).
  { intros c Hc. pose proof (LP_succ T OK MK p c HL Hc) as HLc.
    apply children_in in Hc as (m & _ & Hmk & _). destruct (make_fields p m c Hmk) as (Et & Efc & _).
    split; [split; [exact HLc|reflexivity]|]. rewrite full_set_full.
    assert (Es' : negb s = (turn c =? rc)).
    { rewrite Es, Et. unfold opposite. destruct (N.eqb_spec (turn p) rc); destruct (N.eqb_spec (1 - turn p) rc); cbn [negb]; try reflexivity; lia. }
    split; [exact Es'|]. rewrite Efc. unfold opposite. unfold delta in *.
    destruct s; cbn [negb] in *; destruct (N.eqb_spec (turn p) rc) as [E1|E1]; try discriminate Es;
      destruct (N.eqb_spec rc WHITE) as [E2|E2]; unfold WHITE in *; split; lia. }
  split.
  - intros c Hc. eexists. split; [exact (F c Hc)|now apply K].
  - intros c' Hc'. destruct (B c' Hc') as (c & Hc & ->). exists c. split; [exact Hc|now apply K].
Qed.

Lemma Rtw_nil n s p p' : Rtw n s p p' -> (succs T p = [] <-> succs T p' = []).
Proof.
  intros ([HL E] & _). destruct (succs_twin T OK MK p (full p') HL) as [F B]. rewrite <- E in F, B. split; intros H0.
  - destruct (succs T p') as [|c' r'] eqn:E'; [reflexivity|]. destruct (B c' (or_introl eq_refl)) as (c & Hc & _).
    rewrite H0 in Hc. destruct Hc.
  - destruct (succs T p) as [|c r] eqn:E0; [reflexivity|]. pose proof (F c (or_introl eq_refl)) as Hc'.
    rewrite H0 in Hc'. destruct Hc'.
Qed.

Lemma terminal_value' b : turn b < 2 -> full b < 2 ^ 31 ->
  terminal T b = if is_current_in_check T b then (Z.of_N (full b) - W)%Z else 0%Z.
Proof.
  intros Ht Hf. destruct (terminal_value T HD b Ht) as [A B]. change (terminal T b) with (mover_value T b false).
  destruct (is_current_in_check T b); [rewrite A by reflexivity; now rewrite to_i32_small|now apply B].
Qed.

Lemma Rtw_terminal n s p p' : Rtw n s p p' -> succs T p = [] -> terminal T p' = gsh s (terminal T p).
Proof.
  intros ([HL E] & Es & Ef & Hb) _. destruct (band_elim T HB) as (_ & _ & _ & _ & _ & M0 & M30 & _).
  pose proof (wf_turn p (proj1 HL)) as Ht. pose proof hi_pos as Hh. pose proof delta_cases as Hd.
  assert (F31 : full p < 2 ^ 31) by (change (2 ^ 31) with 2147483648; change (2 ^ 30)%Z with 1073741824%Z in M30; lia).
  assert (F31' : full p' < 2 ^ 31) by (change (2 ^ 31) with 2147483648; change (2 ^ 30)%Z with 1073741824%Z in M30; destruct s; lia).
  assert (Ht' : turn p' < 2) by (rewrite E; cbn [turn set_full flip]; unfold opposite; lia).
  rewrite (terminal_value' p' Ht' F31'), (terminal_value' p Ht F31).
  assert (Ec : is_current_in_check T p' = is_current_in_check T p).
  { rewrite E, in_check_set_full. apply (is_current_in_check_flip T OK p), HL. }
  rewrite Ec. destruct (is_current_in_check T p).
  - unfold gsh, gshift. unfold hi in *.
    destruct s; destruct (Z.ltb_spec (Z.of_N (full p) - W) (- (W - M))); lia.
  - symmetry. apply gsh_id. lia.
Qed.

Lemma static_band_LP p : LP p -> (- hi <= static T p <= hi)%Z.
Proof. intros [Hwf _]. pose proof (static_band T HB p HD Hwf). pose proof hi_pos. lia. Qed.

Theorem nm_twin : forall d s p p', Rtw d s p p' -> nmv d p' = gsh s (nmv d p).
Proof.
  apply (nm_shift board (succs T) (noisy_succs T) (noisy_any T) (static T) (terminal T) qmeasure
           (chess_qmeasure_dec T HT) LP Qtw Rtw gsh hi).
  - exact LP_noisy.
  - exact static_band_LP.
  - exact gsh_id.
  - exact gsh_mono.
  - exact gsh_neg.
  - intros p p' H. apply H.
  - exact Qtw_noisy.
  - exact Qtw_static.
  - exact Qtw_any.
  - intros n s p p' H. apply H.
  - exact Rtw_nil.
  - exact Rtw_succs.
  - exact Rtw_terminal.
Qed.

(* every value is a centipawn value within the evaluation bound, or a mate score *)
Definition cp_or_mate (v : Z) : Prop := (Z.abs v <= ebound T)%Z \/ (hi < Z.abs v)%Z.

Theorem nm_cp_or_mate : forall d s p p', Rtw d s p p' -> cp_or_mate (nmv d p).
Proof.
  apply (nm_leaf_pred board (succs T) (noisy_succs T) (noisy_any T) (static T) (terminal T) qmeasure
           (chess_qmeasure_dec T HT) LP Qtw Rtw gsh hi).
  - exact LP_noisy.
  - exact static_band_LP.
  - exact gsh_id.
  - exact gsh_mono.
  - exact gsh_neg.
  - intros p p' H. apply H.
  - exact Qtw_noisy.
  - exact Qtw_static.
  - exact Qtw_any.
  - intros n s p p' H. apply H.
  - exact Rtw_nil.
  - exact Rtw_succs.
  - exact Rtw_terminal.
  - intros v [H|H]; [left|right]; now rewrite Z.abs_opp.
  - intros p [Hwf _]. left. pose proof (static_band T HB p HD Hwf). lia.
  - intros n s p p' ([HL E] & Es & Ef & Hb) _. destruct (band_elim T HB) as (_ & _ & _ & _ & _ & M0 & M30 & _).
    pose proof (wf_turn p (proj1 HL)) as Ht.
    assert (F31 : full p < 2 ^ 31) by (change (2 ^ 31) with 2147483648; change (2 ^ 30)%Z with 1073741824%Z in M30; lia).
    rewrite (terminal_value' p Ht F31). destruct (is_current_in_check T p).
    + right. unfold hi. lia.
    + left. pose proof (ebound_nonneg T). cbn. lia.
Qed.

End Flip.

(* ---- the statements for a root position ---- *)
Section Root.
Variable T : Tables.t.
Hypothesis OK : tables_attacks_ok T = true.
Hypothesis MK : tables_movegen_ok T = true.
Hypothesis HT : gen_masks_ok T = true.
Hypothesis HP : pst_mirror_ok T = true.
Hypothesis HD : draw_score T = 0%Z.
Hypothesis HB : flip_tables_ok T = true.
Local Notation W := (win_score T).
Local Notation M := (max_full_moves T).
Local Notation nmv := (Minimax.nm board (succs T) (noisy_succs T) (noisy_any T) (static T) (terminal T) qmeasure).

Lemma root_twin b d : LP b -> (Z.of_N (full b) + Z.of_nat d < M)%Z -> Rtw T (turn b) d true b (flip b).
Proof.
  intros HL Hb. split; [split; [exact HL|]|].
  - change (full (flip b)) with (full b). rewrite <- flip_set_full, set_full_id. reflexivity.
  - split; [now rewrite N.eqb_refl|]. split; [change (full (flip b)) with (full b); lia|exact Hb].
Qed.

(* the value of the twin: equal, except that a WINNING mate score differs by one *)
Theorem nm_flip b d : wf b = true -> legal_pos (abs b) = true -> (Z.of_N (full b) + Z.of_nat d < M)%Z ->
  nmv d (flip b) =
  (if W - M <? nmv d b then nmv d b - (if (turn b =? WHITE)%N then 1 else -1) else nmv d b)%Z.
Proof.
  intros Hwf Hl Hb. pose proof (wf_turn b Hwf) as Ht.
  rewrite (nm_twin T OK MK HT HP HD HB (turn b) Ht d true b (flip b) (root_twin b d (conj Hwf Hl) Hb)).
  pose proof (hi_pos T HB (turn b) Ht) as Hh. unfold gsh, gshift, delta, hi in *.
  destruct (turn b =? WHITE); destruct (Z.ltb_spec (nmv d b) (- (W - M))); destruct (Z.ltb_spec (W - M) (nmv d b)); lia.
Qed.

Theorem nm_flip_no_win b d : wf b = true -> legal_pos (abs b) = true -> (Z.of_N (full b) + Z.of_nat d < M)%Z ->
  (nmv d b <= W - M)%Z -> nmv d (flip b) = nmv d b.
Proof.
  intros Hwf Hl Hb Hv. rewrite (nm_flip b d Hwf Hl Hb). destruct (Z.ltb_spec (W - M) (nmv d b)); [lia|reflexivity].
Qed.

Theorem nm_value_kind b d : wf b = true -> legal_pos (abs b) = true -> (Z.of_N (full b) + Z.of_nat d < M)%Z ->
  (Z.abs (nmv d b) <= ebound T)%Z \/ (W - M < Z.abs (nmv d b))%Z.
Proof.
  intros Hwf Hl Hb.
  exact (nm_cp_or_mate T OK MK HT HP HD HB (turn b) (wf_turn b Hwf) d true b (flip b) (root_twin b d (conj Hwf Hl) Hb)).
Qed.

(* what the UCI layer reports (centipawns, or mate distance in moves) is the same for both *)
Theorem reported_flip b d : wf b = true -> legal_pos (abs b) = true -> (Z.of_N (full b) + Z.of_nat d < M)%Z ->
  score_from_value T (nmv d (flip b)) (flip b) = score_from_value T (nmv d b) b.
Proof.
  intros Hwf Hl Hb. pose proof (wf_turn b Hwf) as Ht.
  destruct (band_elim T HB) as (_ & _ & _ & E1 & E2 & M0 & M30 & W0).
  assert (F31 : full b < 2 ^ 31) by (change (2 ^ 31) with 2147483648; change (2 ^ 30)%Z with 1073741824%Z in M30; lia).
  rewrite (nm_flip b d Hwf Hl Hb). set (v := nmv d b).
  destruct (nm_value_kind b d Hwf Hl Hb) as [Hc|Hm]; [fold v in Hc|fold v in Hm].
  - (* centipawns *)
    destruct (Z.ltb_spec (W - M) v); [lia|].
    unfold score_from_value. destruct (Z.ltb_spec (Z.quot W 2) (Z.abs v)); [lia|reflexivity].
  - destruct (Z.ltb_spec (W - M) v) as [Hpos|Hneg].
    + (* winning mate *)
      pose proof (C11_mate_distance_flip T b (W - v)%Z W0 Ht F31) as K. cbv zeta in K.
      destruct K as [K _]; [lia|destruct (turn b =? WHITE); lia|].
      replace (W - (W - v))%Z with v in K by lia. rewrite <- K. f_equal. destruct (turn b =? WHITE); lia.
    + (* losing mate *)
      assert (Hv : (v < - (W - M))%Z) by lia.
      assert (F31' : full (flip b) < 2 ^ 31) by exact F31.
      destruct (C11_reported_mate T b (W + v)%Z W0 F31) as [_ K1]; [lia|].
      destruct (C11_reported_mate T (flip b) (W + v)%Z W0 F31') as [_ K2]; [lia|].
      replace (- (W - (W + v)))%Z with v in K1, K2 by lia. rewrite K1, K2. reflexivity.
Qed.

End Root.

(* ================================================================== *)
(* Part 6: the tables of the current tree; witnesses                   *)
(* ================================================================== *)
Require Ink.Gen.Tables Ink.Gen.SweepAll.
Local Notation GT := Ink.Gen.Tables.tables.
Local Notation nmG := (Minimax.nm board (succs GT) (noisy_succs GT) (noisy_any GT) (static GT) (terminal GT) qmeasure).

Lemma gen_flip_tables_ok : flip_tables_ok GT = true.
Proof. vm_compute. reflexivity. Qed.
Lemma gen_pst_mirror_ok : pst_mirror_ok GT = true.
Proof. vm_compute. reflexivity. Qed.

Theorem nm_flip_gen : forall b d, wf b = true -> legal_pos (abs b) = true -> (Z.of_N (full b) + Z.of_nat d < 1048576)%Z ->
  nmG d (flip b) = (if 15728640 <? nmG d b then nmG d b - (if (turn b =? WHITE)%N then 1 else -1) else nmG d b)%Z.
Proof.
  exact (nm_flip GT Ink.Gen.SweepAll.tables_ok gen_tables_movegen_ok gen_gen_masks_ok gen_pst_mirror_ok eq_refl gen_flip_tables_ok).
Qed.

Theorem nm_flip_no_win_gen : forall b d, wf b = true -> legal_pos (abs b) = true -> (Z.of_N (full b) + Z.of_nat d < 1048576)%Z ->
  (nmG d b <= 15728640)%Z -> nmG d (flip b) = nmG d b.
Proof.
  exact (nm_flip_no_win GT Ink.Gen.SweepAll.tables_ok gen_tables_movegen_ok gen_gen_masks_ok gen_pst_mirror_ok eq_refl gen_flip_tables_ok).
Qed.

Theorem reported_flip_gen : forall b d, wf b = true -> legal_pos (abs b) = true -> (Z.of_N (full b) + Z.of_nat d < 1048576)%Z ->
  score_from_value GT (nmG d (flip b)) (flip b) = score_from_value GT (nmG d b) b.
Proof.
  exact (reported_flip GT Ink.Gen.SweepAll.tables_ok gen_tables_movegen_ok gen_gen_masks_ok gen_pst_mirror_ok eq_refl gen_flip_tables_ok).
Qed.

(* a mate in one: the white root at move 30 scores W - 30, the black twin (mate on the board at move 31) W - 31;
   both are reported as `mate 1` *)
Definition mate1 : board := board_of_text (lit "6k1/5ppp/8/8/8/8/8/R5K1 w - - 0 30").
Theorem nm_flip_refuted_as_equality :
  wf mate1 = true /\ legal_pos (abs mate1) = true /\
  nmG 1 mate1 = (16777216 - 30)%Z /\ nmG 1 (flip mate1) = (16777216 - 31)%Z /\
  score_from_value GT (16777216 - 30) mate1 = Mate 1 /\ score_from_value GT (16777216 - 31) (flip mate1) = Mate 1.
Proof. vm_compute. repeat split; reflexivity. Qed.

(* the children of the twin carry a full-move number that is one off: `succs (flip b) ~ map flip (succs b)`, the
   hypothesis of the involution form EvalProofs.C11_search_symmetric, fails for chess *)
Theorem succs_flip_clock_offset :
  let b := board_of_text Ink.Model.Fen.STARTPOS in
  length (succs GT b) = 20%nat /\ length (succs GT (flip b)) = 20%nat /\
  forallb (fun c => full (flip c) =? 1) (succs GT b) = true /\
  forallb (fun c' => full c' =? 2) (succs GT (flip b)) = true.
Proof. vm_compute. repeat split; reflexivity. Qed.
